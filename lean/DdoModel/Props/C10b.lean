import DdoModel.Proofs.DomSound
import DdoModel.Proofs.DomTruth
import DdoModel.Proofs.DomSim
import DdoModel.Proofs.DomRelax
/-! # C10, sentence 1 — "with any admissible dominance rule, enabling the dominance checker never changes the optimal value
    returned by any solver" (solver level)

`Props/C10.lean` proves that `SimpleDominanceChecker` is a Pareto front per `(depth, key)`.  This file decides the solver-level
sentence for the **sequential solver over the diagram model** (`DSolverCfg`: `C01.SolverCfg` + a rule `D`; `dom := some D`,
`EmptyCache`, no cutoff; ONE store threaded through every restricted and relaxed compilation of every sub-problem:
`DSolverCfg.turn`, `DStep`, `DRun`, `DSolverCfg.solveLoop` in `Proofs/DomSound.lean` / below).

## verdict

* **Refuted for the value-based ("potential") notion of admissibility** — `Admissible D P H`: *whenever the rule says `(a, va)`
  dominates `(b, vb)` (same depth, same key, coordinate-wise `≥` with value, strictly better somewhere) then
  `H d b + vb ≤ H d a + va` in `EInt`* (feasibility included: `none = −∞`).  `Cyc.finding` / `Cyc.admissible_not_sufficient`: a
  4-variable model meeting every hypothesis of `C01.sequential_solver_correct` whose rule is admissible for *all* pairs of values
  (`AdmissibleAll`), on which the solver returns 10 without the checker and **`is_exact = true`, `best_value = Some(5)` with it**
  (`decide` on the composed model; reproduced with the real library, every solver: see the section `Cyc`).  Mechanism: two optimal
  solutions of equal value, σ1 dominated at depth 3, σ2 at depth 2 (ties + a rule that is not consistent with the transitions);
  the entry that kills σ1 was recorded by the *restricted* compilation for a node `_restrict` then deleted.
* **Proved for rules that have a protected optimal strategy** — `UndomOpt D P H opt`: a family of exactly reached items on
  optimal solutions, containing the root, closed under some decision of every variable, none of which is dominated by an exactly
  reached item.  `dominance_solver_optimal`: for every `C01.WellFormed` model, ranking, width function, cut-set kind and fringe the
  solver with the checker terminates, never gets stuck (no crash, the checker never panics) and ends with `is_exact = true`, the
  optimum and a feasible stored solution — the same `Completion` as without the checker (`dominance_same_value`).
  Sufficient, checkable conditions: `SimAdmissible` + `StaticOrder` (`undomOpt_of_sim`: the classical consistency condition —
  every decision of the dominated state is matched by a decision of the dominating one with an at-least-as-good child; it also
  implies `Admissible`: `admissible_of_sim`) and `StrictAdmissible` (`undomOpt_of_strict`: no ties).  The knapsack rule of the
  `ddo` documentation is simulation-admissible (`Kp.simAdmissible`), the checker really prunes on it, inside a layer and across
  compilations (`Kp.prunes_in_layer`, `Kp.prunes_across`), and the headline applies (`Kp.correct`).

## why the shared store is sound (invariant)

`StoreReach`: every entry `(a, va)` of depth `d` was reached exactly (`Reach P d a va p`) — true of every exact node whatever
became of it afterwards (deleted by `_restrict`, merged away, rub-pruned, its sub-problem open / closed / cut off): *no
justification of the entry is needed*.  A protected item is never dominated by an exactly reached item, so it is never dropped by
`_filter_with_dominance`, whatever the history of the store (`query_protected`, `filterDom_protected`); inexact nodes are never
presented to the checker.  Hence the branch-and-bound invariant (`BBInv`: some open sub-problem lies on the protected family with a
bound `≥ opt`, or the incumbent is optimal) goes through with the contracts `DCompileOk` / `DCutsetOk` (`process_dinv`), which
hold for the diagram model: restricted / exact phase `exact_diagram_dom`, `restricted_exact_dom`; relaxed `relaxed_ub_dom`,
`relaxed_cutset_dom` (`Proofs/DomRelax.lean`), `isSol_relaxed_dom`, `compile_no_crash_dom` (`Proofs/DomTruth.lean`).
An invariant of the form "every entry is covered by an open sub-problem or the incumbent" is *not* maintained by the code (the
entry `B2` of `Cyc` is covered by nothing) — and with value-based admissibility nothing weaker suffices.

## single compilation, value-based admissibility

`exact_diagram_adm`: from a store of exactly reached entries, a compilation that squashes nothing reports at least the optimum of
its root **or an entry of the store it started from carries it**.  The relaxed counterpart is stated only (`RelaxedUbAdmStmt`).

## not covered

Cache + dominance (the `theta` of a dominated node feeds `_compute_thresholds`), cutoff, pooled diagrams and the parallel
solver are not modelled with the checker enabled.  The negative result carries over to all of them (real library, section `Cyc`);
for the positive one the key facts `query_protected` / `query_storeAll` are per query, hence independent of the interleaving. -/
set_option linter.unusedSectionVars false
set_option linter.unusedVariables false
namespace Ddo.C10
open Ddo Ddo.C01 Ddo.Closed Ddo.Truth
variable {S K : Type} [DecidableEq S] [DecidableEq K]

/-! ## the solver with the checker enabled, as a relation -/

/-- one turn of the loop of `maximize` with the checker enabled: pop a maximal node, `process_one_node` over the diagram model,
    the store threaded through both compilations -/
inductive DStep (dv : DSolverCfg S K) : DSt S K → DSt S K → Prop
  | pop (s : DSt S K) (N : SubP S) (rest : List (SubP S)) (fa : Nat) (s' : DSt S K)
      (hpop : s.st.fringe.Perm (N :: rest))
      (hmax : ∀ c ∈ rest, c.ub < N.ub ∨ (c.ub = N.ub ∧ c.value ≤ N.value))
      (hturn : dv.turn ⟨popped s.st N rest fa, s.store⟩ N = some s') : DStep dv s s'

inductive DRun (dv : DSolverCfg S K) : DSt S K → DSt S K → Prop
  | refl (s : DSt S K) : DRun dv s s
  | tail {s t u : DSt S K} : DRun dv s t → DStep dv t u → DRun dv s u

/-- what `turn` computes, case by case -/
theorem turn_spec (dv : DSolverCfg S K) (s s' : DSt S K) (N : SubP S) (h : dv.turn s N = some s') :
    (N.ub ≤ s.st.bestLb ∧ s' = s) ∨
    (¬ N.ub ≤ s.st.bestLb ∧ (dv.compR s.store N s.st.bestLb).1 = .ok ∧
      (((toOut (dv.compR s.store N s.st.bestLb).2.1).isExact = true ∧
        s' = ⟨(s.st.process dv.sv.dedup N true (.ok (toOut (dv.compR s.store N s.st.bestLb).2.1))
                (.ok (toOut (dv.compR s.store N s.st.bestLb).2.1))).1, (dv.compR s.store N s.st.bestLb).2.2.2.store⟩) ∨
       ((toOut (dv.compR s.store N s.st.bestLb).2.1).isExact = false ∧
        (dv.compX (dv.compR s.store N s.st.bestLb).2.2.2.store N
          (s.st.updateBest (toOut (dv.compR s.store N s.st.bestLb).2.1)).bestLb).1 = .ok ∧
        s' = ⟨(s.st.process dv.sv.dedup N true (.ok (toOut (dv.compR s.store N s.st.bestLb).2.1))
                (.ok (toOut (dv.compX (dv.compR s.store N s.st.bestLb).2.2.2.store N
                  (s.st.updateBest (toOut (dv.compR s.store N s.st.bestLb).2.1)).bestLb).2.1))).1,
              (dv.compX (dv.compR s.store N s.st.bestLb).2.2.2.store N
                (s.st.updateBest (toOut (dv.compR s.store N s.st.bestLb).2.1)).bestLb).2.2.2.store⟩))) := by
  unfold DSolverCfg.turn at h
  split at h
  · rename_i hub
    exact Or.inl ⟨hub, (Option.some.inj h).symm⟩
  · rename_i hub
    dsimp only at h
    split at h
    · cases h
    · rename_i hokR
      have hokR' : (dv.compR s.store N s.st.bestLb).1 = .ok := by
        cases hc : (dv.compR s.store N s.st.bestLb).1 <;> simp_all
      split at h
      · rename_i hex
        exact Or.inr ⟨hub, hokR', Or.inl ⟨hex, (Option.some.inj h).symm⟩⟩
      · rename_i hex
        split at h
        · cases h
        · rename_i hokX
          have hokX' : (dv.compX (dv.compR s.store N s.st.bestLb).2.2.2.store N
              (s.st.updateBest (toOut (dv.compR s.store N s.st.bestLb).2.1)).bestLb).1 = .ok := by
            cases hc : (dv.compX (dv.compR s.store N s.st.bestLb).2.2.2.store N
              (s.st.updateBest (toOut (dv.compR s.store N s.st.bestLb).2.1)).bestLb).1 <;> simp_all
          exact Or.inr ⟨hub, hokR', Or.inr ⟨by simpa using hex, hokX', (Option.some.inj h).symm⟩⟩

/-! ## the loop invariant of the solver with the checker enabled -/

/-- a sub-problem lies on the protected family (`∃ v' ≤ value`: closed upwards so that the duplicate-free fringe keeps it) -/
def OnP (Prot : Nat → S → Int → Prop) (c : SubP S) : Prop := ∃ v', v' ≤ c.value ∧ Prot c.depth c.state v'

theorem onP_mono (Prot : Nat → S → Int → Prop) : OnMono (OnP Prot) := by
  intro a b hs hd hv ⟨v', h1, h2⟩
  exact ⟨v', by omega, by rw [← hs, ← hd]; exact h2⟩

/-- a sub-problem reached exactly that lies on the protected family is a protected item -/
theorem onP_exact {D : DomRule S K} {P : Problem S} {H : Nat → S → EInt} {opt : Int} {Prot : Nat → S → Int → Prop}
    (hPr : Protected D P H opt Prot) (hP : Potential P H) {c : SubP S} {p0 : List Dec}
    (hr : Reach P c.depth c.state c.value p0) (h : OnP Prot c) : Prot c.depth c.state c.value := by
  obtain ⟨v', hv, hp⟩ := h
  have h1 := hPr.opt _ _ _ hp
  have h2 := reach_le_root hP hr
  rw [hPr.opt _ _ _ hPr.root] at h2
  obtain ⟨h0, hH, e⟩ := addI_some' h1
  rw [hH] at h2
  have : h0 + c.value ≤ opt := by simpa [EInt.addI] using h2
  have : v' = c.value := by omega
  rw [← this]; exact hp

/-- what is assumed of the *relaxed* compilations with the checker enabled (discharged below from the diagram theorems) -/
structure RelaxedOk (dv : DSolverCfg S K) (H : Nat → S → EInt) (B : Int) : Prop where
  /-- a compilation of an exactly reached sub-problem ends normally -/
  noCrash : ∀ (ct : CompType) (N : SubP S) (lb : Int) (store : DomStore S K) (p0 : List Dec),
    Reach dv.sv.P N.depth N.state N.value p0 → store.layers.length = dv.sv.P.nbVars + 1 →
    (compile (dv.cfg ct N lb) (Cache.init dv.sv.P.nbVars) store 0 none).1 = .ok
  /-- a reported exact value is the value of the reported solution, a feasible complete path -/
  sound : ∀ (N : SubP S) (lb : Int) (store : DomStore S K) (p0 : List Dec) (w : Int),
    Reach dv.sv.P N.depth N.state N.value p0 → store.layers.length = dv.sv.P.nbVars + 1 →
    (dv.compX store N lb).1 = .ok → (dv.compX store N lb).2.1.bestExactValue = some w →
    IsSol (dv.cfg .relaxed N lb) p0 w (dv.compX store N lb).2.1.bestExactSol
  /-- the relaxed diagram of a protected sub-problem bounds the optimum from above -/
  ub : ∀ (opt : Int) (Prot : Nat → S → Int → Prop) (N : SubP S) (lb : Int) (store : DomStore S K) (p0 : List Dec),
    Protected dv.D dv.sv.P H opt Prot → Reach dv.sv.P N.depth N.state N.value p0 → Prot N.depth N.state N.value →
    StoreReach dv.D dv.sv.P store → store.layers.length = dv.sv.P.nbVars + 1 → InI lb → opt > lb →
    (dv.compX store N lb).1 = .ok → ∃ bv, (dv.compX store N lb).2.1.bestValue = some bv ∧ opt ≤ bv
  /-- its cut-set holds a protected sub-problem whose bound does not cut the optimum off -/
  cut : ∀ (opt : Int) (Prot : Nat → S → Int → Prop) (N : SubP S) (lb : Int) (store : DomStore S K) (p0 : List Dec),
    Protected dv.D dv.sv.P H opt Prot → Reach dv.sv.P N.depth N.state N.value p0 → Prot N.depth N.state N.value →
    StoreReach dv.D dv.sv.P store → store.layers.length = dv.sv.P.nbVars + 1 → InI lb → opt > lb →
    (dv.compX store N lb).1 = .ok → (∀ w, (dv.compX store N lb).2.1.bestExactValue = some w → w < opt) →
    ∃ c ∈ (dv.compX store N lb).2.1.cutset, Prot c.depth c.state c.value ∧ opt ≤ c.ub

/-- the loop invariant -/
structure DCInv (dv : DSolverCfg S K) (opt : Int) (Prot : Nat → S → Int → Prop) (s : DSt S K) : Prop where
  nodes : ∀ c ∈ s.st.fringe, C01.NodeOk dv.sv.P c
  lbLo : iMin ≤ s.st.bestLb
  solLb : s.st.bestSol = none → s.st.bestLb = iMin
  noAbort : s.st.abort = false
  store : StoreReach dv.D dv.sv.P s.store
  storeLen : s.store.layers.length = dv.sv.P.nbVars + 1
  inv : BBInv (OnP Prot) opt (SolOf dv.sv.P) s.st.fringe s.st.bestLb s.st.bestSol

section inv
variable {dv : DSolverCfg S K} {H : Nat → S → EInt} {B0 B opt : Int} {Prot : Nat → S → Int → Prop}

/-- the side conditions on the incumbent -/
theorem lb_range (hwf : WellFormed dv.sv H B0 B) (hopt : (H 0 dv.sv.P.init).addI dv.sv.P.initVal = some opt)
    {lb : Int} (h1 : iMin ≤ lb) (h2 : lb ≤ opt) : InI lb ∧ lb < iMax ∧ opt ≤ iMax := by
  have hb := opt_bound hwf.pot hwf.nv hwf.bound hopt
  have hBs := hwf.bound.B_small
  unfold InI
  simp only [iMin, iMax] at *
  omega

/-- the hypotheses of the diagram theorems at a sub-problem reached exactly -/
theorem domHyp_of (hwf : WellFormed dv.sv H B0 B) (hopt : (H 0 dv.sv.P.init).addI dv.sv.P.initVal = some opt)
    (hPr : Protected dv.D dv.sv.P H opt Prot) (ct : CompType) (N : SubP S) (lb : Int) (p0 : List Dec)
    (hroot : Reach dv.sv.P N.depth N.state N.value p0) (h1 : iMin ≤ lb) (h2 : opt > lb) :
    DomHyp (dv.cfg ct N lb) dv.D H opt Prot B := by
  obtain ⟨a, b, c⟩ := lb_range hwf hopt h1 (by omega : lb ≤ opt)
  exact ⟨rfl, rfl, hwf.pot, hwf.rub, hwf.bound.noClamp_at hwf.nv hroot, hwf.nv, hPr, a, h2, Or.inl c⟩

/-- contract of the restricted compilation, checker enabled -/
theorem restricted_contract (hwf : WellFormed dv.sv H B0 B) (hopt : (H 0 dv.sv.P.init).addI dv.sv.P.initVal = some opt)
    (hPr : Protected dv.D dv.sv.P H opt Prot) (N : SubP S) (lb : Int) (store : DomStore S K) (p0 : List Dec)
    (hroot : Reach dv.sv.P N.depth N.state N.value p0) (hperm : N.path.Perm p0)
    (hst : StoreReach dv.D dv.sv.P store) (hlen : store.layers.length = dv.sv.P.nbVars + 1)
    (h1 : iMin ≤ lb) (h2 : lb ≤ opt) (hok : (dv.compR store N lb).1 = .ok) :
    DCompileOk (OnP Prot) opt (SolOf dv.sv.P) N lb (toOut (dv.compR store N lb).2.1) := by
  have hBN : NoClamp dv.sv.P dv.sv.R N.value B := hwf.bound.noClamp_at hwf.nv hroot
  constructor
  · intro w hw
    have hs := isSol_restricted (dv.cfg .restricted N lb) B p0 (Cache.init dv.sv.P.nbVars) store 0 none rfl hBN hroot hok w hw
    exact (isSol_facts (dv.cfg .restricted N lb) H opt p0 hwf.pot hroot hperm hopt w _ hs).1
  · intro hex hOn hgt
    have hprot := onP_exact hPr hwf.pot hroot hOn
    exact restricted_exact_dom (dv.cfg .restricted N lb) dv.D H opt Prot B
      (domHyp_of hwf hopt hPr .restricted N lb p0 hroot h1 hgt) p0 _ store 0 rfl hroot hprot hst hlen hok hex

/-- contract of the relaxed compilation, checker enabled (from `RelaxedOk`) -/
theorem relaxed_contract (hwf : WellFormed dv.sv H B0 B) (hopt : (H 0 dv.sv.P.init).addI dv.sv.P.initVal = some opt)
    (hPr : Protected dv.D dv.sv.P H opt Prot) (hRO : RelaxedOk dv H B) (N : SubP S) (lb : Int) (store : DomStore S K)
    (p0 : List Dec) (hroot : Reach dv.sv.P N.depth N.state N.value p0) (hperm : N.path.Perm p0)
    (hst : StoreReach dv.D dv.sv.P store) (hlen : store.layers.length = dv.sv.P.nbVars + 1)
    (h1 : iMin ≤ lb) (h2 : lb ≤ opt) (hok : (dv.compX store N lb).1 = .ok) :
    DCompileOk (OnP Prot) opt (SolOf dv.sv.P) N lb (toOut (dv.compX store N lb).2.1) ∧
    ((toOut (dv.compX store N lb).2.1).isExact = false →
      DCutsetOk (OnP Prot) opt N lb (toOut (dv.compX store N lb).2.1)) := by
  obtain ⟨a, b, c⟩ := lb_range hwf hopt h1 h2
  refine ⟨⟨?_, ?_⟩, ?_⟩
  · intro w hw
    have hs := hRO.sound N lb store p0 w hroot hlen hok hw
    exact (isSol_facts (dv.cfg .relaxed N lb) H opt p0 hwf.pot hroot hperm hopt w _ hs).1
  · intro hex hOn hgt
    have hprot := onP_exact hPr hwf.pot hroot hOn
    rcases relaxed_isExact_cases (dv.cfg .relaxed N lb) _ store 0 rfl hok hex with hl | ⟨_, hb⟩
    · exact exact_diagram_dom (dv.cfg .relaxed N lb) dv.D H opt Prot B
        (domHyp_of hwf hopt hPr .relaxed N lb p0 hroot h1 hgt) p0 _ store 0 hroot hprot hst hlen hok hl
    · obtain ⟨bv, hbv, hle⟩ := hRO.ub opt Prot N lb store p0 hPr hroot hprot hst hlen a hgt hok
      exact ⟨bv, hb.trans hbv, hle⟩
  · intro hne hOn hgt hbe
    have hprot := onP_exact hPr hwf.pot hroot hOn
    obtain ⟨c0, hc0, hp0, hu0⟩ := hRO.cut opt Prot N lb store p0 hPr hroot hprot hst hlen a hgt hok hbe
    exact ⟨c0, hc0, ⟨c0.value, Int.le_refl _, hp0⟩, hu0⟩

/-- a reported solution exists -/
theorem isSol_some {cfg : Cfg S K} {p0 : List Dec} {w : Int} {sol : Option (List Dec)} (h : IsSol cfg p0 w sol) :
    ∃ p, sol = some p := by
  obtain ⟨k, s, q, L, _, _, _, hsol⟩ := h
  exact ⟨_, hsol⟩

/-- **the invariant is preserved by one turn** -/
theorem dstep_inv (hwf : WellFormed dv.sv H B0 B) (hopt : (H 0 dv.sv.P.init).addI dv.sv.P.initVal = some opt)
    (hPr : Protected dv.D dv.sv.P H opt Prot) (hRO : RelaxedOk dv H B) {s s' : DSt S K}
    (hstep : DStep dv s s') (hI : DCInv dv opt Prot s) : DCInv dv opt Prot s' := by
  cases hstep with
  | pop N rest fa _ hpop hmax hturn =>
    have e1 : (popped s.st N rest fa).fringe = rest := C01t.afterPop_fringe _ N
    have e2 : (popped s.st N rest fa).bestLb = s.st.bestLb := (C01t.afterPop_lb_sol _ N).1
    have e3 : (popped s.st N rest fa).bestSol = s.st.bestSol := (C01t.afterPop_lb_sol _ N).2
    have e4 : (popped s.st N rest fa).abort = s.st.abort := afterPop_abort _ N
    obtain ⟨p0, hroot, hperm⟩ := hI.nodes N (hpop.mem_iff.mpr List.mem_cons_self)
    have hnodesRest : ∀ c ∈ rest, C01.NodeOk dv.sv.P c := fun c hc => hI.nodes c (hpop.mem_iff.mpr (List.mem_cons_of_mem _ hc))
    have hBN : NoClamp dv.sv.P dv.sv.R N.value B := hwf.bound.noClamp_at hwf.nv hroot
    -- the invariant with the node in hand
    have hinvN : BBInv (OnP Prot) opt (SolOf dv.sv.P) (N :: (popped s.st N rest fa).fringe) (popped s.st N rest fa).bestLb
        (popped s.st N rest fa).bestSol := by
      rw [e1, e2, e3]
      refine ⟨hI.inv.lbOk, hI.inv.solOk, fun hgt => ?_⟩
      obtain ⟨c, hc, h1, h2⟩ := hI.inv.cover hgt
      exact ⟨c, hpop.mem_iff.mp hc, h1, h2⟩
    have hlbLo : iMin ≤ (popped s.st N rest fa).bestLb := by rw [e2]; exact hI.lbLo
    rcases turn_spec dv _ s' N hturn with ⟨hub, rfl⟩ | ⟨hub, hokR, hcase⟩
    · -- pruned at pop
      refine ⟨by show ∀ c ∈ (popped s.st N rest fa).fringe, _; rw [e1]; exact hnodesRest, hlbLo,
        by show (popped s.st N rest fa).bestSol = none → _; rw [e2, e3]; exact hI.solLb,
        by show (popped s.st N rest fa).abort = false; rw [e4]; exact hI.noAbort, hI.store, hI.storeLen, ?_⟩
      show BBInv _ _ _ (popped s.st N rest fa).fringe (popped s.st N rest fa).bestLb (popped s.st N rest fa).bestSol
      refine ⟨hinvN.lbOk, hinvN.solOk, fun hgt => ?_⟩
      obtain ⟨c, hc, h1, h2⟩ := hinvN.cover hgt
      rcases List.mem_cons.mp hc with e | e
      · subst e; dsimp only at hub; omega
      · exact ⟨c, e, h1, h2⟩
    · dsimp only at hokR hcase
      -- the restricted compilation
      have hR := restricted_contract hwf hopt hPr N (popped s.st N rest fa).bestLb s.store p0 hroot hperm hI.store hI.storeLen
        hlbLo hinvN.lbOk hokR
      obtain ⟨hstR, hlenR⟩ := compile_storeReach (dv.cfg .restricted N (popped s.st N rest fa).bestLb) dv.D rfl rfl hwf.nv B hBN
        p0 (Cache.init dv.sv.P.nbVars) s.store 0 hroot hI.store hI.storeLen hokR
      have sR : ∀ w, (toOut (dv.compR s.store N (popped s.st N rest fa).bestLb).2.1).bestExact = some w →
          ∃ p, (toOut (dv.compR s.store N (popped s.st N rest fa).bestLb).2.1).bestExactSol = some p :=
        fun w hw => isSol_some (isSol_restricted (dv.cfg .restricted N (popped s.st N rest fa).bestLb) B p0 _ s.store 0 none
          rfl hBN hroot hokR w hw)
      have hlb1lo : iMin ≤ ((popped s.st N rest fa).updateBest (toOut (dv.compR s.store N (popped s.st N rest fa).bestLb).2.1)).bestLb :=
        Int.le_trans hlbLo (updateBest_lb_ge _ _)
      have hlb1hi := (updateBest_ok' opt (SolOf dv.sv.P) (popped s.st N rest fa) _ hinvN.lbOk hinvN.solOk hR.sound).1
      have a1 := updateBest_solLb (popped s.st N rest fa) _ sR (by rw [e2, e3]; exact hI.solLb)
      rcases hcase with ⟨hex, rfl⟩ | ⟨hex, hokX, rfl⟩
      · -- the restricted diagram is exact: the relaxed one is not compiled
        have hge0 := updateBest_lb_ge (popped s.st N rest fa) (toOut (dv.compR s.store N (popped s.st N rest fa).bestLb).2.1)
        have hx : DCompileOk (OnP Prot) opt (SolOf dv.sv.P) N
            ((popped s.st N rest fa).updateBest (toOut (dv.compR s.store N (popped s.st N rest fa).bestLb).2.1)).bestLb
            (toOut (dv.compR s.store N (popped s.st N rest fa).bestLb).2.1) :=
          ⟨hR.sound, fun he hOn hgt => hR.exact he hOn (by omega)⟩
        have hinv' := process_dinv (OnP Prot) opt (SolOf dv.sv.P) (onP_mono Prot) dv.sv.dedup (popped s.st N rest fa) N _ _
          hinvN hR hx (fun hne => by rw [hex] at hne; cases hne)
        refine ⟨?_, ?_, ?_, ?_, hstR, hlenR, hinv'⟩
        · refine process_forall (C01.NodeOk dv.sv.P) (nodeOk_ub dv.sv.P) dv.sv.dedup _ N true _ _ (by rw [e1]; exact hnodesRest) ?_
          intro o ho c hc
          -- the cut-set of the (restricted) placeholder is not consulted; it is exact anyway
          injection ho with ho; subst ho
          obtain ⟨q, hq, hpath⟩ := C08.cutset_exact (dv.cfg .restricted N (popped s.st N rest fa).bestLb) B p0 _ s.store 0 none
            hroot hBN hokR _ (.inl rfl) c hc
          exact ⟨p0 ++ q, hq, by rw [hpath]; exact List.Perm.append hperm (List.reverse_perm q)⟩
        · show iMin ≤ _
          rcases process_lb_sol dv.sv.dedup (popped s.st N rest fa) N true
            (toOut (dv.compR s.store N (popped s.st N rest fa).bestLb).2.1)
            (toOut (dv.compR s.store N (popped s.st N rest fa).bestLb).2.1) with ⟨e, _⟩ | ⟨e, _⟩ | ⟨e, _⟩
          · rw [e]; exact hlbLo
          · rw [e]; exact hlb1lo
          · rw [e]; exact Int.le_trans hlb1lo (updateBest_lb_ge _ _)
        · have a2 := updateBest_solLb ((popped s.st N rest fa).updateBest
            (toOut (dv.compR s.store N (popped s.st N rest fa).bestLb).2.1)) _ sR a1
          rcases process_lb_sol dv.sv.dedup (popped s.st N rest fa) N true
            (toOut (dv.compR s.store N (popped s.st N rest fa).bestLb).2.1)
            (toOut (dv.compR s.store N (popped s.st N rest fa).bestLb).2.1) with ⟨e1', e2'⟩ | ⟨e1', e2'⟩ | ⟨e1', e2'⟩
          · show _ = none → _; rw [e1', e2', e2, e3]; exact hI.solLb
          · show _ = none → _; rw [e1', e2']; exact a1
          · show _ = none → _; rw [e1', e2']; exact a2
        · show _ = false
          rw [process_abort, e4]; exact hI.noAbort
      · -- the relaxed compilation
        obtain ⟨hX, hcut⟩ := relaxed_contract hwf hopt hPr hRO N _ _ p0 hroot hperm hstR hlenR hlb1lo hlb1hi hokX
        obtain ⟨hstX, hlenX⟩ := compile_storeReach (dv.cfg .relaxed N ((popped s.st N rest fa).updateBest
          (toOut (dv.compR s.store N (popped s.st N rest fa).bestLb).2.1)).bestLb) dv.D rfl rfl hwf.nv B hBN
          p0 (Cache.init dv.sv.P.nbVars) _ 0 hroot hstR hlenR hokX
        have hinv' := process_dinv (OnP Prot) opt (SolOf dv.sv.P) (onP_mono Prot) dv.sv.dedup (popped s.st N rest fa) N _ _
          hinvN hR hX hcut
        have sX : ∀ w, (toOut (dv.compX (dv.compR s.store N (popped s.st N rest fa).bestLb).2.2.2.store N
              ((popped s.st N rest fa).updateBest (toOut (dv.compR s.store N (popped s.st N rest fa).bestLb).2.1)).bestLb).2.1).bestExact = some w →
            ∃ p, (toOut (dv.compX (dv.compR s.store N (popped s.st N rest fa).bestLb).2.2.2.store N
              ((popped s.st N rest fa).updateBest (toOut (dv.compR s.store N (popped s.st N rest fa).bestLb).2.1)).bestLb).2.1).bestExactSol = some p :=
          fun w hw => isSol_some (hRO.sound N _ _ p0 w hroot hlenR hokX hw)
        refine ⟨?_, ?_, ?_, ?_, hstX, hlenX, hinv'⟩
        · refine process_forall (C01.NodeOk dv.sv.P) (nodeOk_ub dv.sv.P) dv.sv.dedup _ N true _ _ (by rw [e1]; exact hnodesRest) ?_
          intro o ho c hc
          injection ho with ho; subst ho
          obtain ⟨q, hq, hpath⟩ := C08.cutset_exact (dv.cfg .relaxed N _) B p0 _ _ 0 none hroot hBN hokX _ (.inl rfl) c hc
          exact ⟨p0 ++ q, hq, by rw [hpath]; exact List.Perm.append hperm (List.reverse_perm q)⟩
        · show iMin ≤ _
          rcases process_lb_sol dv.sv.dedup (popped s.st N rest fa) N true
            (toOut (dv.compR s.store N (popped s.st N rest fa).bestLb).2.1)
            (toOut (dv.compX (dv.compR s.store N (popped s.st N rest fa).bestLb).2.2.2.store N
              ((popped s.st N rest fa).updateBest (toOut (dv.compR s.store N (popped s.st N rest fa).bestLb).2.1)).bestLb).2.1)
            with ⟨e, _⟩ | ⟨e, _⟩ | ⟨e, _⟩
          · rw [e]; exact hlbLo
          · rw [e]; exact hlb1lo
          · rw [e]; exact Int.le_trans hlb1lo (updateBest_lb_ge _ _)
        · have a2 := updateBest_solLb ((popped s.st N rest fa).updateBest
            (toOut (dv.compR s.store N (popped s.st N rest fa).bestLb).2.1)) _ sX a1
          rcases process_lb_sol dv.sv.dedup (popped s.st N rest fa) N true
            (toOut (dv.compR s.store N (popped s.st N rest fa).bestLb).2.1)
            (toOut (dv.compX (dv.compR s.store N (popped s.st N rest fa).bestLb).2.2.2.store N
              ((popped s.st N rest fa).updateBest (toOut (dv.compR s.store N (popped s.st N rest fa).bestLb).2.1)).bestLb).2.1)
            with ⟨e1', e2'⟩ | ⟨e1', e2'⟩ | ⟨e1', e2'⟩
          · show _ = none → _; rw [e1', e2', e2, e3]; exact hI.solLb
          · show _ = none → _; rw [e1', e2']; exact a1
          · show _ = none → _; rw [e1', e2']; exact a2
        · show _ = false
          rw [process_abort, e4]; exact hI.noAbort

end inv
section run
variable {dv : DSolverCfg S K} {H : Nat → S → EInt} {B0 B opt : Int} {Prot : Nat → S → Int → Prop}

theorem drun_inv (hwf : WellFormed dv.sv H B0 B) (hopt : (H 0 dv.sv.P.init).addI dv.sv.P.initVal = some opt)
    (hPr : Protected dv.D dv.sv.P H opt Prot) (hRO : RelaxedOk dv H B) {s t : DSt S K}
    (h : DRun dv s t) (hI : DCInv dv opt Prot s) : DCInv dv opt Prot t := by
  induction h with
  | refl => exact hI
  | tail _ hstep ih => exact dstep_inv hwf hopt hPr hRO hstep ih

/-- the invariant holds initially (`new` + `initialize`, an empty checker) -/
theorem init_dcinv (hwf : WellFormed dv.sv H B0 B) (hopt : (H 0 dv.sv.P.init).addI dv.sv.P.initVal = some opt)
    (hPr : Protected dv.D dv.sv.P H opt Prot) : DCInv dv opt Prot dv.init := by
  have hfr : (SeqSt.init dv.sv.P none dv.sv.dedup).fringe = [⟨dv.sv.P.init, dv.sv.P.initVal, [], iMax, 0⟩] := by
    cases hd : dv.sv.dedup <;> rfl
  have hb := opt_bound hwf.pot hwf.nv hwf.bound hopt
  have hBs := hwf.bound.B_small
  refine ⟨?_, Int.le_refl _, fun _ => rfl, rfl, storeReach_init _ _ _, ?_, ?_⟩
  · intro c hc
    change c ∈ (SeqSt.init dv.sv.P none dv.sv.dedup).fringe at hc
    rw [hfr] at hc
    rcases List.mem_cons.mp hc with e | e
    · subst e; exact ⟨[], Reach.root, List.Perm.refl _⟩
    · cases e
  · show (DomStore.init dv.sv.P.nbVars : DomStore S K).layers.length = _
    simp [DomStore.init]
  · show BBInv _ _ _ (SeqSt.init dv.sv.P none dv.sv.dedup).fringe iMin none
    rw [hfr]
    refine ⟨by simp only [iMin]; omega, (fun p hp => by cases hp), fun _ => ?_⟩
    exact ⟨_, List.mem_cons_self, ⟨dv.sv.P.initVal, Int.le_refl _, hPr.root⟩, by simp only [iMax]; omega⟩

/-- **partial correctness**: a state that satisfies the invariant and has an empty fringe reports the optimum, with a stored
    solution that is a feasible complete path of that value, and `is_exact = true` -/
theorem dcinv_end_correct (hwf : WellFormed dv.sv H B0 B) (hopt : (H 0 dv.sv.P.init).addI dv.sv.P.initVal = some opt)
    {t : DSt S K} (hI : DCInv dv opt Prot t) (hend : t.st.fringe = []) :
    t.st.bestLb = opt ∧ (∃ p, t.st.bestSol = some p ∧ SolOf dv.sv.P p opt) ∧ t.st.completion = (true, some opt) := by
  have hinv := hI.inv
  rw [hend] at hinv
  have h1 := dinv_complete (OnP Prot) opt (SolOf dv.sv.P) _ _ hinv
  have hb := opt_bound hwf.pot hwf.nv hwf.bound hopt
  have hBs := hwf.bound.B_small
  cases hs : t.st.bestSol with
  | none =>
    have := hI.solLb hs
    simp only [iMin] at this
    omega
  | some p =>
    refine ⟨h1, ⟨p, rfl, h1 ▸ hinv.solOk p hs⟩, ?_⟩
    unfold SeqSt.completion
    rw [hI.noAbort, hs, h1]; rfl

/-- under the invariant a turn is a `Step` of `Props/C01t.lean` on the solver state -/
theorem dstep_step (hwf : WellFormed dv.sv H B0 B) {s t : DSt S K} (hI : DCInv dv opt Prot s) (h : DStep dv s t) :
    C01t.Step dv.sv.P.nbVars dv.sv.dedup s.st t.st := by
  cases h with
  | pop N rest fa _ hpop hmax hturn =>
    obtain ⟨p0, hroot, hperm⟩ := hI.nodes N (hpop.mem_iff.mpr List.mem_cons_self)
    have hBN : NoClamp dv.sv.P dv.sv.R N.value B := hwf.bound.noClamp_at hwf.nv hroot
    rcases turn_spec dv _ t N hturn with ⟨hub, rfl⟩ | ⟨hub, hokR, ⟨hex, rfl⟩ | ⟨hex, hokX, rfl⟩⟩
    · -- pruned at pop: `process` returns the popped state whatever the answers
      have : (popped s.st N rest fa) = ((popped s.st N rest fa).process dv.sv.dedup N true (.cutoff : DDRes S) .cutoff).1 := by
        unfold SeqSt.process
        rw [if_pos hub]
      show C01t.Step _ _ s.st (popped s.st N rest fa)
      rw [this]
      exact C01t.Step.pop s.st N rest fa true _ _ hpop (fun o ho => by cases ho)
    · refine C01t.Step.pop s.st N rest fa true _ _ hpop ?_
      intro o ho c hc
      injection ho with ho; subst ho
      dsimp only at hokR
      -- the placeholder is the restricted result, reported exact: its cut-set is empty
      have hlel := restricted_isExact (dv.cfg .restricted N _) _ s.store 0 rfl hokR hex
      have hemp := C08.cutset_empty_of_exact (dv.cfg .restricted N _) B p0 _ s.store 0 none hroot hBN hokR _ (.inl rfl) hlel
      have hc' : c ∈ (compile (dv.cfg .restricted N (popped s.st N rest fa).bestLb) (Cache.init dv.sv.P.nbVars) s.store 0
          none).2.1.cutset := hc
      rw [hemp] at hc'
      cases hc'
    · refine C01t.Step.pop s.st N rest fa true _ _ hpop ?_
      intro o ho c hc
      injection ho with ho; subst ho
      dsimp only at hokX
      have h1 := C08.cutset_progress (dv.cfg .relaxed N _) B p0 _ _ 0 none rfl hroot hBN hokX _ (.inl rfl) c hc
      obtain ⟨q, hq, _⟩ := C08.cutset_exact (dv.cfg .relaxed N _) B p0 _ _ 0 none hroot hBN hokX _ (.inl rfl) c hc
      exact ⟨h1, reach_depth_le hwf.nv hq⟩

/-- **termination**: the step relation, on the states that satisfy the invariant, is well-founded -/
theorem dstep_terminates (hwf : WellFormed dv.sv H B0 B) :
    WellFounded (fun t s : DSt S K => DCInv dv opt Prot s ∧ DStep dv s t) :=
  Subrelation.wf (r := InvImage (fun t s : SeqSt S => C01t.Step dv.sv.P.nbVars dv.sv.dedup s t) DSt.st)
    (fun {_ _} h => dstep_step hwf h.1 h.2) (InvImage.wf _ (C01t.seq_terminates dv.sv.P.nbVars dv.sv.dedup))

/-- **progress**: from a state that satisfies the invariant and still has open sub-problems a turn is possible (no compilation
    crashes, the checker does not panic) -/
theorem dstep_progress (hwf : WellFormed dv.sv H B0 B) (hRO : RelaxedOk dv H B) {s : DSt S K}
    (hI : DCInv dv opt Prot s) (hne : s.st.fringe ≠ []) (fa : Nat) : ∃ t, DStep dv s t := by
  obtain ⟨N, rest, hp⟩ := popMax_some s.st.fringe hne
  obtain ⟨hpop, hmax⟩ := popMax_spec s.st.fringe N rest hp
  obtain ⟨p0, hroot, hperm⟩ := hI.nodes N (hpop.mem_iff.mpr List.mem_cons_self)
  have hBN : NoClamp dv.sv.P dv.sv.R N.value B := hwf.bound.noClamp_at hwf.nv hroot
  have hokR := hRO.noCrash .restricted N (popped s.st N rest fa).bestLb s.store p0 hroot hI.storeLen
  have hlenR := (compile_storeReach (dv.cfg .restricted N (popped s.st N rest fa).bestLb) dv.D rfl rfl hwf.nv B hBN
    p0 (Cache.init dv.sv.P.nbVars) s.store 0 hroot hI.store hI.storeLen hokR).2
  have hokX := hRO.noCrash .relaxed N ((popped s.st N rest fa).updateBest
    (toOut (dv.compR s.store N (popped s.st N rest fa).bestLb).2.1)).bestLb _ p0 hroot hlenR
  have : ∃ t, dv.turn ⟨popped s.st N rest fa, s.store⟩ N = some t := by
    unfold DSolverCfg.turn
    split
    · exact ⟨_, rfl⟩
    · dsimp only
      rw [if_neg (by rw [show (dv.compR s.store N (popped s.st N rest fa).bestLb).1 = Outcome.ok from hokR]; simp)]
      split
      · exact ⟨_, rfl⟩
      · rw [if_neg (by rw [show (dv.compX (dv.compR s.store N (popped s.st N rest fa).bestLb).2.2.2.store N ((popped s.st N rest fa).updateBest (toOut (dv.compR s.store N (popped s.st N rest fa).bestLb).2.1)).bestLb).1 = Outcome.ok from hokX]; simp)]
        exact ⟨_, rfl⟩
  obtain ⟨t, ht⟩ := this
  exact ⟨t, DStep.pop s N rest fa t hpop hmax ht⟩

/-- the fuel-driven loop is a run of the step relation -/
theorem DRun.head {s t u : DSt S K} (h1 : DStep dv s t) (h2 : DRun dv t u) : DRun dv s u := by
  induction h2 with
  | refl => exact DRun.tail (DRun.refl _) h1
  | tail _ hstep ih => exact DRun.tail ih hstep

theorem solveLoop_drun (dv : DSolverCfg S K) : ∀ (n : Nat) (s : DSt S K), DRun dv s (dv.solveLoop n s) := by
  intro n
  induction n with
  | zero => intro s; exact DRun.refl s
  | succ n ih =>
    intro s
    unfold DSolverCfg.solveLoop
    cases hp : popMax s.st.fringe with
    | none => exact DRun.refl s
    | some Nr =>
      obtain ⟨N, rest⟩ := Nr
      obtain ⟨hpop, hmax⟩ := popMax_spec s.st.fringe N rest hp
      dsimp only
      cases ht : dv.turn ⟨popped s.st N rest (cleanLoop dv.sv.P.nbVars s.st.openByLayer dv.sv.P.nbVars s.st.firstActive), s.store⟩ N with
      | none => exact DRun.refl s
      | some s' => exact DRun.head (DStep.pop s N rest _ s' hpop hmax ht) (ih s')

end run
/-! ## the headline -/
section headline
variable {dv : DSolverCfg S K} {H : Nat → S → EInt} {B0 B : Int}

/-- `RelaxedOk.noCrash` and `RelaxedOk.sound` hold for every well-formed model (`Proofs/DomTruth.lean`) -/
theorem relaxedOk_of (hwf : WellFormed dv.sv H B0 B)
    (hub : ∀ (opt : Int) (Prot : Nat → S → Int → Prop) (N : SubP S) (lb : Int) (store : DomStore S K) (p0 : List Dec),
      Protected dv.D dv.sv.P H opt Prot → Reach dv.sv.P N.depth N.state N.value p0 → Prot N.depth N.state N.value →
      StoreReach dv.D dv.sv.P store → store.layers.length = dv.sv.P.nbVars + 1 → InI lb → opt > lb →
      (dv.compX store N lb).1 = .ok → ∃ bv, (dv.compX store N lb).2.1.bestValue = some bv ∧ opt ≤ bv)
    (hcut : ∀ (opt : Int) (Prot : Nat → S → Int → Prop) (N : SubP S) (lb : Int) (store : DomStore S K) (p0 : List Dec),
      Protected dv.D dv.sv.P H opt Prot → Reach dv.sv.P N.depth N.state N.value p0 → Prot N.depth N.state N.value →
      StoreReach dv.D dv.sv.P store → store.layers.length = dv.sv.P.nbVars + 1 → InI lb → opt > lb →
      (dv.compX store N lb).1 = .ok → (∀ w, (dv.compX store N lb).2.1.bestExactValue = some w → w < opt) →
      ∃ c ∈ (dv.compX store N lb).2.1.cutset, Prot c.depth c.state c.value ∧ opt ≤ c.ub) :
    RelaxedOk dv H B := by
  refine ⟨?_, ?_, hub, hcut⟩
  · intro ct N lb store p0 hroot hlen
    exact compile_no_crash_dom (dv.cfg ct N lb) dv.D rfl B p0 _ store 0 rfl (hwf.width N) hwf.nv
      (hwf.bound.noClamp_at hwf.nv hroot) hroot hlen
  · intro N lb store p0 w hroot hlen hok hw
    exact isSol_relaxed_dom (dv.cfg .relaxed N lb) dv.D rfl B p0 _ store 0 rfl rfl (hwf.width N)
      (hwf.bound.noClamp_at hwf.nv hroot) hroot hok w hw

/-- **`dominance_solver_optimal_of`** — the sequential solver with the dominance checker enabled (shared store, `EmptyCache`, no
    cutoff), over the diagram model, for a well-formed model whose rule has a protected optimal strategy (`UndomOpt`) and whose
    relaxed compilations meet `RelaxedOk`:

    * terminates (the step relation is well-founded on the reachable states; no infinite run);
    * never gets stuck before the fringe is empty (no compilation crashes, the checker never panics);
    * when the fringe is empty reports `is_exact = true` and **the optimum**, with a stored solution that is a feasible complete
      path of that value — i.e. exactly what the solver without the checker reports (`C01.sequential_solver_correct`). -/
theorem dominance_solver_optimal_of (dv : DSolverCfg S K) (H : Nat → S → EInt) (B0 B opt : Int)
    (hwf : WellFormed dv.sv H B0 B) (hopt : (H 0 dv.sv.P.init).addI dv.sv.P.initVal = some opt)
    (hU : UndomOpt dv.D dv.sv.P H opt) (hRO : RelaxedOk dv H B) :
    WellFounded (fun t s : DSt S K => DRun dv dv.init s ∧ DStep dv s t) ∧
    (∀ run : Nat → DSt S K, run 0 = dv.init → ¬ ∀ n, DStep dv (run n) (run (n + 1))) ∧
    ∀ t, DRun dv dv.init t →
      (t.st.fringe ≠ [] → ∃ u, DStep dv t u) ∧
      (t.st.fringe = [] →
        t.st.bestLb = opt ∧ (∃ p, t.st.bestSol = some p ∧ SolOf dv.sv.P p opt) ∧ t.st.completion = (true, some opt)) := by
  obtain ⟨Prot, hPr⟩ := hU
  have hinit := init_dcinv hwf hopt hPr
  have hall : ∀ t, DRun dv dv.init t → DCInv dv opt Prot t := fun t ht => drun_inv hwf hopt hPr hRO ht hinit
  refine ⟨?_, ?_, fun t ht => ⟨fun hne => dstep_progress hwf hRO (hall t ht) hne 0,
    fun hend => dcinv_end_correct hwf hopt (hall t ht) hend⟩⟩
  · exact Subrelation.wf (fun {_ _} h => ⟨hall _ h.1, h.2⟩) (dstep_terminates (opt := opt) (Prot := Prot) hwf)
  · intro run h0 hrun
    have hinv : ∀ n, DCInv dv opt Prot (run n) := by
      intro n
      induction n with
      | zero => rw [h0]; exact hinit
      | succ n ih => exact dstep_inv hwf hopt hPr hRO (hrun n) ih
    exact no_infinite_chain (dstep_terminates (opt := opt) (Prot := Prot) hwf) run (fun n => ⟨hinv n, hrun n⟩)

/-- **`RelaxedOk` holds for every well-formed model**: no crash and soundness from `Proofs/DomTruth.lean`, upper bound and
    cut-set from `Proofs/DomRelax.lean` -/
theorem relaxedOk (hwf : WellFormed dv.sv H B0 B) : RelaxedOk dv H B := by
  have hyp : ∀ (opt : Int) (Prot : Nat → S → Int → Prop) (N : SubP S) (lb : Int) (p0 : List Dec),
      Protected dv.D dv.sv.P H opt Prot → Reach dv.sv.P N.depth N.state N.value p0 → InI lb → opt > lb →
      DomHyp (dv.cfg .relaxed N lb) dv.D H opt Prot B := by
    intro opt Prot N lb p0 hPr hroot hlb hgt
    have hopt := hPr.opt _ _ _ hPr.root
    exact domHyp_of hwf hopt hPr .relaxed N lb p0 hroot hlb.1 hgt
  refine relaxedOk_of hwf ?_ ?_
  · intro opt Prot N lb store p0 hPr hroot hprot hst hlen hlb hgt hok
    exact relaxed_ub_dom (dv.cfg .relaxed N lb) dv.D H opt Prot B (hyp opt Prot N lb p0 hPr hroot hlb hgt) rfl (hwf.width N)
      hwf.merge hwf.attMerge p0 _ store 0 hroot hprot hst hlen hok
  · intro opt Prot N lb store p0 hPr hroot hprot hst hlen hlb hgt hok hbe
    exact relaxed_cutset_dom (dv.cfg .relaxed N lb) dv.D H opt Prot B (hyp opt Prot N lb p0 hPr hroot hlb hgt) rfl (hwf.width N)
      hwf.merge hwf.attMerge p0 _ store 0 hroot hprot hst hlen hok hbe

/-- **`dominance_solver_optimal`** (C10, sentence 1, sequential solver, closed): for every well-formed model (`C01.WellFormed`, the
    hypotheses of `C01.sequential_solver_correct`), every ranking, width function, cut-set kind, either fringe, and every dominance
    rule that has a protected optimal strategy (`UndomOpt`; implied by `SimAdmissible` + `StaticOrder`: `undomOpt_of_sim`, and
    by `StrictAdmissible`: `undomOpt_of_strict`), the sequential solver with the dominance checker enabled — one checker shared by
    all restricted and relaxed compilations of all sub-problems — terminates, never gets stuck, and ends with `is_exact = true`, the
    optimum, and a stored solution that is a feasible complete path of that value: the value `C01.sequential_solver_correct` says
    the solver returns without the checker. -/
theorem dominance_solver_optimal (dv : DSolverCfg S K) (H : Nat → S → EInt) (B0 B opt : Int)
    (hwf : WellFormed dv.sv H B0 B) (hopt : (H 0 dv.sv.P.init).addI dv.sv.P.initVal = some opt)
    (hU : UndomOpt dv.D dv.sv.P H opt) :
    WellFounded (fun t s : DSt S K => DRun dv dv.init s ∧ DStep dv s t) ∧
    (∀ run : Nat → DSt S K, run 0 = dv.init → ¬ ∀ n, DStep dv (run n) (run (n + 1))) ∧
    ∀ t, DRun dv dv.init t →
      (t.st.fringe ≠ [] → ∃ u, DStep dv t u) ∧
      (t.st.fringe = [] →
        t.st.bestLb = opt ∧ (∃ p, t.st.bestSol = some p ∧ SolOf dv.sv.P p opt) ∧ t.st.completion = (true, some opt)) :=
  dominance_solver_optimal_of dv H B0 B opt hwf hopt hU (relaxedOk hwf)

/-- the checker on and the checker off return the same thing: whenever a run with the checker and a run without both reach the
    empty fringe, they report the same `Completion` -/
theorem dominance_same_value (dv : DSolverCfg S K) (H : Nat → S → EInt) (B0 B opt : Int)
    (hwf : WellFormed dv.sv H B0 B) (hopt : (H 0 dv.sv.P.init).addI dv.sv.P.initVal = some opt)
    (hU : UndomOpt dv.D dv.sv.P H opt) (t : DSt S K) (ht : DRun dv dv.init t) (hend : t.st.fringe = [])
    (t0 : SeqSt S) (ht0 : CRun dv.sv (SeqSt.init dv.sv.P none dv.sv.dedup) t0) (hend0 : t0.fringe = []) :
    t.st.completion = t0.completion := by
  have h1 := (((dominance_solver_optimal dv H B0 B opt hwf hopt hU).2.2 t ht).2 hend).2.2
  have h2 := ((((sequential_solver_correct dv.sv H B0 B hwf).2.2 t0 ht0).2.2 hend0).1 opt hopt).2.2
  rw [h1, h2]

/-- the fuel-driven loop with the checker enabled computes the optimum -/
theorem solveLoop_dom_correct (dv : DSolverCfg S K) (H : Nat → S → EInt) (B0 B opt : Int)
    (hwf : WellFormed dv.sv H B0 B) (hopt : (H 0 dv.sv.P.init).addI dv.sv.P.initVal = some opt)
    (hU : UndomOpt dv.D dv.sv.P H opt) (n : Nat) (hend : (dv.solveLoop n dv.init).st.fringe = []) :
    (dv.solveLoop n dv.init).st.completion = (true, some opt) :=
  (((dominance_solver_optimal dv H B0 B opt hwf hopt hU).2.2 _ (solveLoop_drun dv n _)).2 hend).2.2

end headline
end Ddo.C10


/-! ## FINDING — value-based admissibility is not sufficient: a model on which enabling the checker loses the optimum

Four binary variables.  States (an integer label): root `0`; depth 1: `Y1 = 1`, `Y2 = 2`; depth 2: `A1 = 11` (child of `Y1`),
`A2 = 12` (child of `Y2`); depth 3: `B1 = 21` (child of `A1`), `B2 = 22` and `D = 23` (children of `A2`, the arc to `D` gains 5);
terminal `30`; `B1 → 30` and `B2 → 30` gain 10, `D → 30` gains 0.  Two optimal solutions of value 10: `σ1 = 0,Y1,A1,B1` and
`σ2 = 0,Y2,A2,B2`; the decoy through `D` is worth 5.

The rule (one coordinate, value used): key 2 = `{A1, A2}` with `A1` better, key 3 = `{B1, B2}` with `B2` better.  It is
admissible in the potential form — every dominated state has a dominating state with an equally good best completion
(`admissibleAll`: all four keyed states have value-to-go 10, feasibility included) — but σ1 is dominated at depth 3 and σ2 at
depth 2 (a *tie*, and the rule is not consistent with the transitions: `A1 ≻ A2` although no child of `A1` matches `B2`).

Width 1, ranking = the label.  The restricted diagram of the root keeps `Y2`, reaches `A2`, records `A2`, `B2` and `D` in the
checker, then `_restrict` drops `B2` in favour of `D`: value 5, not exact.  The relaxed diagram of the root (same checker!)
presents `A1` before `A2` (`A2` is dropped, dominated by `A1`), expands `A1` into `B1`, and `B1` is dropped — dominated by the
entry `B2` recorded by the *restricted* compilation for a node nobody will ever explore.  The layer is empty, nothing was
squashed: the relaxed diagram is "exact", no cut-set, the fringe is empty and the solver reports `is_exact = true`,
`best_value = Some(5)`.  Without the checker it reports 10.

Reproduction with the real library (`/tmp/agent_dom/rs/src/main.rs`, crate depending on `/repo/ddo` by path): `Problem` with
`nb_variables = 4`, `next_variable(depth) = Variable(depth)` for `depth < 4`, domain `{0, 1}`, the transitions / costs above;
`Relaxation`: `merge = 99`, `relax = cost`, `fast_upper_bound = 10`; `StateRanking`: `a.cmp(b)` on the label; `FixedWidth(1)`;
`Dominance`: `get_key` = `Some(2)` for 11, 12, `Some(3)` for 21, 22, else `None`; `nb_dimensions = 1`; `get_coordinate` = 1 for
11 and 22, else 0; `use_value = true`; `SimpleDominanceChecker::new(Dom, 4)`; `NoCutoff`; `SimpleFringe` / `MaxUB`.  Result:
`is_exact = true, best_value = Some(5)` for `SeqNoCachingSolverLel`, `…Fc`, `…Pooled`, `SeqCachingSolverLel/Fc`,
`ParNoCachingSolverLel` (1 and 4 threads), `ParCachingSolverFc`; `Some(10)` with `EmptyDominanceChecker`. -/
namespace Ddo.C10.Cyc
open Ddo Ddo.C01 Ddo.Closed

def prob : Problem Int :=
  { nbVars := 4, init := 0, initVal := 0,
    trans := fun s d =>
      if s = 0 then (if d.val = 0 then 1 else 2)
      else if s = 1 then 11 else if s = 2 then 12
      else if s = 11 then 21
      else if s = 12 then (if d.val = 0 then 22 else 23)
      else if s = 21 ∨ s = 22 ∨ s = 23 then 30
      else s,
    cost := fun s _ d =>
      if s = 12 then (if d.val = 0 then 0 else 5)
      else if s = 21 ∨ s = 22 then 10
      else if s = 99 ∧ d.var = 3 then 10
      else 0,
    nextVar := fun k _ => if k < 4 then some k else none,
    domain := fun _ _ => [0, 1],
    impacted := fun _ _ => true }
def rlx : Relax Int := { merge := fun _ => 99, relax := fun _ _ _ _ c => c, rub := fun _ => 10 }
def sv (dedup : Bool) (kind : CutsetKind) : SolverCfg Int :=
  { P := prob, R := rlx, rank := ⟨fun a b => icmp a b⟩, width := fun _ => 1, kind := kind, dedup := dedup }
def rule : DomRule Int Int :=
  { key := fun s => if s = 11 ∨ s = 12 then some 2 else if s = 21 ∨ s = 22 then some 3 else none,
    dims := fun _ => 1,
    coord := fun s _ => if s = 11 ∨ s = 22 then 1 else 0,
    useValue := true }
def dv (dedup : Bool) (kind : CutsetKind) : DSolverCfg Int Int := ⟨sv dedup kind, rule⟩

def H (k : Nat) (s : Int) : EInt :=
  if 4 ≤ k then some 0
  else if s = 99 then some 10
  else if (k = 0 ∧ s = 0) ∨ (k = 1 ∧ (s = 1 ∨ s = 2)) ∨ (k = 2 ∧ (s = 11 ∨ s = 12)) ∨ (k = 3 ∧ (s = 21 ∨ s = 22)) then some 10
  else if k = 3 ∧ s = 23 then some 0
  else none

def table : List (Nat × Int) := [(0, 0), (1, 1), (1, 2), (2, 11), (2, 12), (3, 21), (3, 22), (3, 23), (4, 30)]

theorem nv_some {k : Nat} {L : List Int} {x : Nat} (h : prob.nextVar k L = some x) : k < 4 ∧ x = k := by
  simp only [prob] at h
  split at h
  · next hk => cases h; exact ⟨hk, rfl⟩
  · cases h

theorem step_table : ∀ ks ∈ table, ∀ d ∈ [(0 : Int), 1], ks.1 < 4 → (ks.1 + 1, prob.trans ks.2 ⟨ks.1, d⟩) ∈ table := by decide

theorem reach_table {k : Nat} {s : Int} {v : Int} {p : List Dec} (h : Reach prob k s v p) : (k, s) ∈ table := by
  induction h with
  | root => decide
  | step k s v p L x d _ hnv _ hd ih =>
    obtain ⟨hk, rfl⟩ := nv_some hnv
    exact step_table (_, s) ih d hd hk

theorem le_table : ∀ ks ∈ table, ∀ d ∈ [(0 : Int), 1], ks.1 < 4 →
    (H (ks.1 + 1) (prob.trans ks.2 ⟨ks.1, d⟩)).addI (prob.cost ks.2 (prob.trans ks.2 ⟨ks.1, d⟩) ⟨ks.1, d⟩) ≤ H ks.1 ks.2 := by
  decide

theorem H_some {k : Nat} {s : Int} {h : Int} (hk : k < 4) (hH : H k s = some h) :
    (s = 99 ∧ h = 10) ∨ ((k, s) ∈ table ∧ ((k = 3 ∧ s = 23 ∧ h = 0) ∨ (¬ (k = 3 ∧ s = 23) ∧ h = 10))) := by
  unfold H at hH
  rw [if_neg (by omega)] at hH
  split at hH
  · next h99 => cases hH; exact Or.inl ⟨h99, rfl⟩
  · split at hH
    · next hc =>
      cases hH
      right
      rcases hc with ⟨rfl, rfl⟩ | ⟨rfl, rfl | rfl⟩ | ⟨rfl, rfl | rfl⟩ | ⟨rfl, rfl | rfl⟩ <;>
        exact ⟨by decide, Or.inr ⟨by decide, rfl⟩⟩
    · split at hH
      · next hc =>
        cases hH
        obtain ⟨rfl, rfl⟩ := hc
        exact Or.inr ⟨by decide, Or.inl ⟨rfl, rfl, rfl⟩⟩
      · cases hH

theorem att_table : ∀ ks ∈ table, ks.1 < 4 → ∃ d ∈ [(0 : Int), 1],
    H ks.1 ks.2 ≤ (H (ks.1 + 1) (prob.trans ks.2 ⟨ks.1, d⟩)).addI (prob.cost ks.2 (prob.trans ks.2 ⟨ks.1, d⟩) ⟨ks.1, d⟩) ∧
    (H (ks.1 + 1) (prob.trans ks.2 ⟨ks.1, d⟩)).isSome = true := by
  decide

theorem potential : Potential prob H := by
  refine ⟨?_, ?_, ?_⟩
  · intro k L x s h hnv _ hH
    obtain ⟨hk, rfl⟩ := nv_some hnv
    rcases H_some hk hH with ⟨rfl, rfl⟩ | ⟨ht, _⟩
    · -- the merged state
      have hk4 : x = 0 ∨ x = 1 ∨ x = 2 ∨ x = 3 := by omega
      rcases hk4 with rfl | rfl | rfl | rfl
      · exact ⟨0, by decide, 10, by decide, by decide⟩
      · exact ⟨0, by decide, 10, by decide, by decide⟩
      · exact ⟨0, by decide, 10, by decide, by decide⟩
      · exact ⟨0, by decide, 0, by decide, by decide⟩
    · obtain ⟨d, hd, hle, hsome⟩ := att_table (_, s) ht hk
      refine ⟨d, hd, ?_⟩
      dsimp only at hle hsome
      cases hc : H (x + 1) (prob.trans s ⟨x, d⟩) with
      | none => rw [hc] at hsome; cases hsome
      | some h' =>
        refine ⟨h', rfl, ?_⟩
        rw [hc, hH] at hle
        have : h ≤ h' + prob.cost s (prob.trans s ⟨x, d⟩) ⟨x, d⟩ := by simpa [EInt.addI] using hle
        omega
  · intro k L x s v p d hr hnv _ hd
    obtain ⟨hk, rfl⟩ := nv_some hnv
    exact le_table (_, s) (reach_table hr) d hd hk
  · intro k L s hnv _
    have : 4 ≤ k := by
      simp only [prob] at hnv
      split at hnv
      · cases hnv
      · omega
    simp only [H, this, if_true]

theorem H_le10 (k : Nat) (s : Int) (h : Int) (hH : H k s = some h) : 0 ≤ h ∧ h ≤ 10 := by
  unfold H at hH
  split at hH
  · cases hH; omega
  · split at hH
    · cases hH; omega
    · split at hH
      · cases hH; omega
      · split at hH
        · cases hH; omega
        · cases hH

theorem rubOk : RubOk rlx H := fun k s h hH => (H_le10 k s h hH).2

theorem mergeOk : MergeOk rlx H := by
  intro k X u src d c h _ hH
  by_cases hk : 4 ≤ k
  · have : h = 0 := by simp only [H, hk, if_true] at hH; cases hH; rfl
    exact ⟨0, by simp only [rlx, H, hk, if_true], by simp only [rlx]; omega⟩
  · refine ⟨10, by simp [rlx, H, hk], ?_⟩
    have := (H_le10 k u h hH).2
    simp only [rlx]; omega

theorem nvBound : NvBound prob := by
  intro k L hk
  have : ¬ k < 4 := by simp only [prob] at hk; omega
  simp only [prob, this, if_false]

theorem costBound (s s' : Int) (d : Dec) : -10 ≤ prob.cost s s' d ∧ prob.cost s s' d ≤ 10 := by
  simp only [prob]
  split
  · split <;> omega
  · split
    · omega
    · split <;> omega

theorem runBound : RunBound prob rlx 10 50 :=
  ⟨⟨by decide, by decide, fun s s' d => by have := costBound s s' d; omega, fun s u m d c hc => hc, by decide⟩,
   ⟨by decide, costBound⟩, by decide⟩

/-- the model meets every hypothesis of `C01.sequential_solver_correct` -/
theorem wellFormed (dedup : Bool) (kind : CutsetKind) : WellFormed (sv dedup kind) H 10 50 :=
  ⟨potential, rubOk, mergeOk, Cover.attMerge_of_static potential (fun _ _ _ _ _ => rfl), runBound, nvBound,
    fun _ => Nat.le_refl 1⟩

/-- the optimum is 10 -/
theorem opt10 : (H 0 prob.init).addI prob.initVal = some 10 := by decide


/-- the keyed states and their coordinate -/
theorem key_some {s : Int} {k : Int} (h : rule.key s = some k) :
    (k = 2 ∧ (s = 11 ∨ s = 12)) ∨ (k = 3 ∧ (s = 21 ∨ s = 22)) := by
  simp only [rule] at h
  split at h
  · next hc => cases h; exact Or.inl ⟨rfl, hc⟩
  · split at h
    · next hc => cases h; exact Or.inr ⟨rfl, hc⟩
    · cases h

/-- the two members of a key class have the same value-to-go at every depth -/
theorem H_pair (d : Nat) : H d 11 = H d 12 ∧ H d 21 = H d 22 := by
  unfold H
  by_cases h4 : 4 ≤ d
  · simp only [h4, if_true, and_self]
  · have hd : d = 0 ∨ d = 1 ∨ d = 2 ∨ d = 3 := by omega
    rcases hd with rfl | rfl | rfl | rfl <;> decide

theorem addI_mono (a : EInt) {x y : Int} (h : x ≤ y) : a.addI x ≤ a.addI y := by
  cases a with
  | none => exact EInt.none_le _
  | some z => show z + x ≤ z + y; omega

/-- **the rule is admissible in the potential form, for all pairs of values** (feasibility included: `none = −∞`) -/
theorem admissibleAll : AdmissibleAll rule H := by
  intro d a va b vb ⟨⟨k, hka, hkb⟩, hdom⟩
  have hge : geEnt true (rule.ent 1 a va) (rule.ent 1 b vb) = true := by
    have : rule.useValue = true := rfl
    rw [this] at hdom
    have : rule.dims b = 1 := rfl
    rw [this] at hdom
    simp only [domEnt, Bool.and_eq_true] at hdom
    exact hdom.1
  have hv : vb ≤ va := by
    simp only [geEnt, Bool.not_true, Bool.false_or, Bool.and_eq_true, decide_eq_true_eq] at hge
    exact hge.2
  have hco : rule.coord b 0 ≤ rule.coord a 0 := by
    simp only [geEnt, Bool.and_eq_true] at hge
    have h1 := hge.1
    have e : ∀ s v, (rule.ent 1 s v).coords = [rule.coord s 0] := fun s v => rfl
    rw [e, e] at h1
    simpa [leB] using h1
  have hp := H_pair d
  rcases key_some hka with ⟨rfl, ha⟩ | ⟨rfl, ha⟩ <;> rcases key_some hkb with ⟨hk, hb⟩ | ⟨hk, hb⟩ <;>
    (try (exfalso; omega)) <;> rcases ha with rfl | rfl <;> rcases hb with rfl | rfl
  · exact addI_mono _ hv
  · rw [← hp.1]; exact addI_mono _ hv
  · simp [rule] at hco
  · exact addI_mono _ hv
  · exact addI_mono _ hv
  · simp [rule] at hco
  · rw [hp.2]; exact addI_mono _ hv
  · exact addI_mono _ hv


/-- without the checker the solver model returns the optimum 10 (as `C01.sequential_solver_correct` says it must) -/
theorem without_checker :
    ((sv false .lel).solveLoop 12 (SeqSt.init prob none false)).completion = (true, some 10) ∧
    ((sv false .lel).solveLoop 12 (SeqSt.init prob none false)).fringe.length = 0 := by decide

/-- **with the checker the solver model stops after one turn, claims exactness, and reports 5** -/
theorem with_checker :
    ((dv false .lel).solveLoop 12 (dv false .lel).init).st.completion = (true, some 5) ∧
    ((dv false .lel).solveLoop 12 (dv false .lel).init).st.fringe.length = 0 ∧
    ((dv false .lel).solveLoop 12 (dv false .lel).init).st.explored = 1 := by decide

theorem with_checker' :
    ((dv true .frontier).solveLoop 12 (dv true .frontier).init).st.completion = (true, some 5) ∧
    ((dv true .frontier).solveLoop 12 (dv true .frontier).init).st.fringe.length = 0 := by decide

theorem reach_1 : Reach prob 1 1 0 [⟨0, 0⟩] :=
  Reach.step (P := prob) 0 0 0 [] [0] 0 0 Reach.root rfl (by decide) (by decide)
theorem reach_2 : Reach prob 1 2 0 [⟨0, 1⟩] :=
  Reach.step (P := prob) 0 0 0 [] [0] 0 1 Reach.root rfl (by decide) (by decide)
theorem reach_11 : Reach prob 2 11 0 [⟨0, 0⟩, ⟨1, 0⟩] :=
  Reach.step (P := prob) 1 1 0 [⟨0, 0⟩] [1] 1 0 reach_1 rfl (by decide) (by decide)
theorem reach_12 : Reach prob 2 12 0 [⟨0, 1⟩, ⟨1, 0⟩] :=
  Reach.step (P := prob) 1 2 0 [⟨0, 1⟩] [2] 1 0 reach_2 rfl (by decide) (by decide)
theorem reach_22 : Reach prob 3 22 0 [⟨0, 1⟩, ⟨1, 0⟩, ⟨2, 0⟩] :=
  Reach.step (P := prob) 2 12 0 [⟨0, 1⟩, ⟨1, 0⟩] [12] 2 0 reach_12 rfl (by decide) (by decide)

/-- the hypothesis of the positive theorem fails on this model: every optimal strategy runs into a dominated item
    (`A2 = 12` is dominated by the reached `A1 = 11` at depth 2, `B1 = 21` by the reached `B2 = 22` at depth 3) -/
theorem not_undomOpt : ¬ UndomOpt rule prob H 10 := by
  rintro ⟨Prot, hP⟩
  have h0 := hP.root
  obtain ⟨d0, hd0, h1⟩ := hP.step 0 0 0 [0] 0 h0 rfl (by decide)
  have hd0' : d0 = 0 ∨ d0 = 1 := by simpa [prob] using hd0
  rcases hd0' with rfl | rfl
  · -- through `Y1 = 1`, `A1 = 11`, `B1 = 21`
    obtain ⟨d1, hd1, h2⟩ := hP.step 1 1 0 [1] 1 h1 rfl (by decide)
    have h2' : Prot 2 11 0 := by
      have hd1' : d1 = 0 ∨ d1 = 1 := by simpa [prob] using hd1
      rcases hd1' with rfl | rfl <;> exact h2
    obtain ⟨d2, hd2, h3⟩ := hP.step 2 11 0 [11] 2 h2' rfl (by decide)
    have h3' : Prot 3 21 0 := by
      have hd2' : d2 = 0 ∨ d2 = 1 := by simpa [prob] using hd2
      rcases hd2' with rfl | rfl <;> exact h3
    exact hP.undom 3 21 0 22 0 _ h3' reach_22 (by decide)
  · -- through `Y2 = 2`, `A2 = 12`
    obtain ⟨d1, hd1, h2⟩ := hP.step 1 2 0 [2] 1 h1 rfl (by decide)
    have h2' : Prot 2 12 0 := by
      have hd1' : d1 = 0 ∨ d1 = 1 := by simpa [prob] using hd1
      rcases hd1' with rfl | rfl <;> exact h2
    exact hP.undom 2 12 0 11 0 _ h2' reach_11 (by decide)

end Ddo.C10.Cyc

namespace Ddo.C10.Cyc
open Ddo Ddo.C01 Ddo.Closed

/-- **FINDING, packaged**: the model meets every hypothesis of `C01.sequential_solver_correct` (so every run without the checker
    ends with the optimum 10), its rule is admissible in the potential form for all pairs of values, and a run of the solver
    with the checker enabled ends with the empty fringe, `is_exact = true` and `best_value = Some(5)`.  The hypothesis `UndomOpt`
    of the positive theorem fails, as it must. -/
theorem finding :
    WellFormed (sv false .lel) H 10 50 ∧ (H 0 prob.init).addI prob.initVal = some 10 ∧
    AdmissibleAll rule H ∧ Admissible rule prob H ∧
    (∀ t, CRun (sv false .lel) (SeqSt.init prob none false) t → t.fringe = [] → t.completion = (true, some 10)) ∧
    (∃ t, DRun (dv false .lel) (dv false .lel).init t ∧ t.st.fringe = [] ∧ t.st.completion = (true, some 5)) ∧
    ¬ UndomOpt rule prob H 10 := by
  refine ⟨wellFormed false .lel, opt10, admissibleAll, admissibleAll.admissible, ?_, ?_, not_undomOpt⟩
  · intro t ht hend
    exact ((((sequential_solver_correct (sv false .lel) H 10 50 (wellFormed false .lel)).2.2 t ht).2.2 hend).1 10 opt10).2.2
  · refine ⟨_, solveLoop_drun (dv false .lel) 12 _, List.eq_nil_of_length_eq_zero with_checker.2.1, with_checker.1⟩

/-- sentence 1 of C10, read with the potential form of admissibility, is **false** for the sequential solver model -/
theorem admissible_not_sufficient :
    ¬ ∀ (dv : DSolverCfg Int Int) (H : Nat → Int → EInt) (B0 B opt : Int), WellFormed dv.sv H B0 B →
        (H 0 dv.sv.P.init).addI dv.sv.P.initVal = some opt → AdmissibleAll dv.D H →
        ∀ t, DRun dv dv.init t → t.st.fringe = [] → t.st.completion = (true, some opt) := by
  intro h
  obtain ⟨t, ht, hend, hc⟩ := finding.2.2.2.2.2.1
  have := h (dv false .lel) H 10 50 10 (wellFormed false .lel) opt10 admissibleAll t ht hend
  rw [hc] at this
  cases this

end Ddo.C10.Cyc

namespace Ddo.C10
open Ddo Ddo.C01 Ddo.Closed Ddo.Truth
variable {S K : Type} [DecidableEq S] [DecidableEq K]

/-! ## a second sufficient condition: strict admissibility (no ties) -/

/-- **strictly admissible rule**: a dominated (exactly reached) state that has a completion is *strictly* worse than the state
    that dominates it -/
def StrictAdmissible (D : DomRule S K) (P : Problem S) (H : Nat → S → EInt) : Prop :=
  ∀ d a va b vb pa pb y, Reach P d a va pa → Reach P d b vb pb → Dominates D a va b vb →
    (H d b).addI vb = some y → ∃ x, (H d a).addI va = some x ∧ y < x

omit [DecidableEq S] [DecidableEq K] in
/-- without ties every optimal strategy is protected: the exactly reached items on optimal solutions form a protected family -/
theorem undomOpt_of_strict (D : DomRule S K) (P : Problem S) (H : Nat → S → EInt) (opt : Int)
    (hP : Potential P H) (hS : StrictAdmissible D P H) (hopt : (H 0 P.init).addI P.initVal = some opt) :
    UndomOpt D P H opt := by
  refine ⟨fun d s v => (∃ p, Reach P d s v p) ∧ (H d s).addI v = some opt, ⟨⟨[], Reach.root⟩, hopt⟩, fun d s v h => h.1,
    fun d s v h => h.2, ?_, ?_⟩
  · rintro d s v L x ⟨⟨p, hr⟩, ho⟩ hnv hs
    obtain ⟨h, hH, e⟩ := addI_some' ho
    obtain ⟨dec, hdec, h', hH', hle⟩ := hP.att d L x s h hnv hs hH
    have hr' := Reach.step d s v p L x dec hr hnv hs hdec
    refine ⟨dec, hdec, ⟨_, hr'⟩, ?_⟩
    have hle' := reach_le_root hP hr'
    rw [hopt, hH'] at hle'
    have : h' + (v + P.cost s (P.trans s ⟨x, dec⟩) ⟨x, dec⟩) ≤ opt := by simpa [EInt.addI] using hle'
    rw [hH']
    show some (h' + (v + P.cost s (P.trans s ⟨x, dec⟩) ⟨x, dec⟩)) = some opt
    congr 1; omega
  · rintro d s v a va pa ⟨⟨p, hr⟩, ho⟩ hra hdom
    obtain ⟨x, hx, hlt⟩ := hS d a va s v pa p opt hra hr hdom ho
    have hle := reach_le_root hP hra
    rw [hopt, hx] at hle
    have : x ≤ opt := by simpa using hle
    omega

end Ddo.C10

/-! ## non-vacuity of the positive theorem: the knapsack rule of the `ddo` documentation, with real pruning

Capacity 5, items (weight, profit) = (2,3), (3,3), (4,5), optimum 6.  State = remaining capacity; rule: same depth, more capacity
is better, value used.  The model is `WellFormed`, the rule is simulation-admissible (`simAdmissible`), hence has a protected
optimal strategy (`undomOpt`); the checker does prune (inside a layer: `prunes_in_layer`; across compilations through the shared
store: `prunes_across`), and the solver with the checker enabled returns the optimum (`decide`, and by the headline). -/
namespace Ddo.C10.Kp
open Ddo Ddo.C01 Ddo.Closed

def items : List (Int × Int) := [(2, 3), (3, 3), (4, 5)]
def wt (x : Nat) : Int := (items.getD x (0, 0)).1
def pr (x : Nat) : Int := (items.getD x (0, 0)).2

/-- knapsack, capacity 5, items (weight, profit) = (2,3), (3,3), (4,5); state = remaining capacity -/
def prob : Problem Int :=
  { nbVars := 3, init := 5, initVal := 0,
    trans := fun s d => if d.val = 1 then s - wt d.var else s,
    cost := fun _ _ d => if d.val = 1 then pr d.var else 0,
    nextVar := fun k _ => if k < 3 then some k else none,
    domain := fun x s => if wt x ≤ s then [1, 0] else [0],
    impacted := fun _ _ => true }
def maxL : List Int → Int
  | [] => 0
  | [x] => x
  | x :: y :: r => max x (maxL (y :: r))
def rlx : Relax Int := { merge := maxL, relax := fun _ _ _ _ c => c, rub := fun _ => 11 }
/-- the knapsack rule of the `ddo` documentation: states of the same depth are comparable, more remaining capacity is better, the
    value is used -/
def rule : DomRule Int Unit := { key := fun _ => some (), dims := fun _ => 1, coord := fun s _ => s, useValue := true }
def sv (w : Nat) (dedup : Bool) (kind : CutsetKind) : SolverCfg Int :=
  { P := prob, R := rlx, rank := ⟨fun a b => icmp a b⟩, width := fun _ => w, kind := kind, dedup := dedup }
def dv (w : Nat) (dedup : Bool) (kind : CutsetKind) : DSolverCfg Int Unit := ⟨sv w dedup kind, rule⟩

/-- best profit from the items `l` with capacity `c` -/
def kpH : List (Int × Int) → Int → Int
  | [], _ => 0
  | wp :: r, c => if wp.1 ≤ c then max (kpH r c) (wp.2 + kpH r (c - wp.1)) else kpH r c
def H (k : Nat) (s : Int) : EInt := some (kpH (items.drop k) s)

theorem kpH_mono (l : List (Int × Int)) : ∀ c c', c ≤ c' → kpH l c ≤ kpH l c' := by
  induction l with
  | nil => intro _ _ _; exact Int.le_refl _
  | cons wp r ih =>
    intro c c' h
    have h1 := ih c c' h
    have h2 := ih (c - wp.1) (c' - wp.1) (by omega)
    simp only [kpH]
    split <;> split <;> omega

theorem kpH_bounds (l : List (Int × Int)) (hp : ∀ wp ∈ l, 0 ≤ wp.2) : ∀ c, 0 ≤ kpH l c ∧ kpH l c ≤ (l.map (·.2)).sum := by
  induction l with
  | nil => intro c; simp [kpH]
  | cons wp r ih =>
    intro c
    have h0 := hp wp List.mem_cons_self
    have ihr := ih (fun x hx => hp x (List.mem_cons_of_mem _ hx))
    have h1 := ihr c
    have h2 := ihr (c - wp.1)
    simp only [kpH, List.map_cons, List.sum_cons]
    split <;> omega

theorem nv_some {k : Nat} {L : List Int} {x : Nat} (h : prob.nextVar k L = some x) : k < 3 ∧ x = k := by
  simp only [prob] at h
  split at h
  · next hk => cases h; exact ⟨hk, rfl⟩
  · cases h

theorem drop_cons {k : Nat} (hk : k < 3) : items.drop k = (wt k, pr k) :: items.drop (k + 1) := by
  have hk3 : k = 0 ∨ k = 1 ∨ k = 2 := by omega
  rcases hk3 with rfl | rfl | rfl <;> rfl

theorem H_step {k : Nat} (hk : k < 3) (s : Int) :
    kpH (items.drop k) s = if wt k ≤ s then max (kpH (items.drop (k + 1)) s) (pr k + kpH (items.drop (k + 1)) (s - wt k))
      else kpH (items.drop (k + 1)) s := by
  rw [drop_cons hk]; rfl

theorem potential : Potential prob H := by
  refine ⟨?_, ?_, ?_⟩
  · intro k L x s h hnv _ hH
    obtain ⟨hk, rfl⟩ := nv_some hnv
    simp only [H, Option.some.injEq] at hH
    rw [H_step hk] at hH
    by_cases hw : wt x ≤ s
    · rw [if_pos hw] at hH
      by_cases hm : kpH (items.drop (x + 1)) s ≤ pr x + kpH (items.drop (x + 1)) (s - wt x)
      · refine ⟨1, by simp [prob, hw], _, rfl, ?_⟩
        simp only [prob, if_true]
        omega
      · refine ⟨0, by simp [prob, hw], _, rfl, ?_⟩
        simp [prob]
        omega
    · rw [if_neg hw] at hH
      refine ⟨0, by simp [prob, hw], _, rfl, ?_⟩
      simp [prob]
      omega
  · intro k L x s v p d _ hnv _ hd
    obtain ⟨hk, rfl⟩ := nv_some hnv
    show EInt.addI (some (kpH (items.drop (x + 1)) (prob.trans s ⟨x, d⟩))) (prob.cost s (prob.trans s ⟨x, d⟩) ⟨x, d⟩) ≤
      (some (kpH (items.drop x) s) : EInt)
    rw [H_step hk]
    simp only [prob] at hd ⊢
    by_cases hw : wt x ≤ s
    · rw [if_pos hw] at hd ⊢
      have hd' : d = 1 ∨ d = 0 := by simpa using hd
      rcases hd' with rfl | rfl
      · simp only [if_true, EInt.addI, Option.map_some, EInt.some_le_some]; omega
      · simp only [Int.zero_ne_one, if_false, EInt.addI, Option.map_some, EInt.some_le_some]; omega
    · rw [if_neg hw] at hd ⊢
      have hd' : d = 0 := by simpa using hd
      subst hd'
      simp only [Int.zero_ne_one, if_false, EInt.addI, Option.map_some, EInt.some_le_some]; omega
  · intro k L s hnv _
    have hk : 3 ≤ k := by
      simp only [prob] at hnv
      split at hnv
      · cases hnv
      · omega
    have : items.drop k = [] := List.drop_eq_nil_of_le (by simpa [items] using hk)
    simp only [H, this, kpH]

theorem items_pos : ∀ wp ∈ items, 0 ≤ wp.2 := by decide

theorem kpH_le11 (k : Nat) (s : Int) : 0 ≤ kpH (items.drop k) s ∧ kpH (items.drop k) s ≤ 11 := by
  have hb := kpH_bounds (items.drop k) (fun wp h => items_pos wp (List.mem_of_mem_drop h)) s
  have : ((items.drop k).map (·.2)).sum ≤ 11 := by
    have hk4 : k = 0 ∨ k = 1 ∨ k = 2 ∨ 3 ≤ k := by omega
    rcases hk4 with rfl | rfl | rfl | hk
    · decide
    · decide
    · decide
    · rw [List.drop_eq_nil_of_le (by simpa [items] using hk)]; decide
  omega

theorem rubOk : RubOk rlx H := by
  intro k s h hH
  simp only [H, Option.some.injEq] at hH
  have := (kpH_le11 k s).2
  simp only [rlx]; omega

theorem maxL_ge : ∀ (X : List Int) (u : Int), u ∈ X → u ≤ maxL X := by
  intro X
  induction X with
  | nil => intro u hu; cases hu
  | cons x r ih =>
    intro u hu
    cases r with
    | nil =>
      have : u = x := by simpa using hu
      subst this; exact Int.le_refl _
    | cons y r' =>
      rcases List.mem_cons.mp hu with rfl | hu
      · simp only [maxL]; omega
      · have := ih u hu
        simp only [maxL] at this ⊢; omega

theorem mergeOk : MergeOk rlx H := by
  intro k X u src d c h hu hH
  simp only [H, Option.some.injEq] at hH
  refine ⟨_, rfl, ?_⟩
  have := kpH_mono (items.drop k) u (maxL X) (maxL_ge X u hu)
  simp only [rlx]; omega

theorem nvBound : NvBound prob := by
  intro k L hk
  have : ¬ k < 3 := by simp only [prob] at hk; omega
  simp only [prob, this, if_false]

theorem pr_range (x : Nat) : 0 ≤ pr x ∧ pr x ≤ 5 := by
  have hk4 : x = 0 ∨ x = 1 ∨ x = 2 ∨ 3 ≤ x := by omega
  rcases hk4 with rfl | rfl | rfl | hk
  · decide
  · decide
  · decide
  · have : items.getD x (0, 0) = (0, 0) := by
      unfold List.getD
      rw [List.getElem?_eq_none (by simpa [items] using hk)]; rfl
    simp only [pr, this]; omega

theorem costBound (s s' : Int) (d : Dec) : -5 ≤ prob.cost s s' d ∧ prob.cost s s' d ≤ 5 := by
  have := pr_range d.var
  simp only [prob]
  split <;> omega

theorem runBound : RunBound prob rlx 5 20 :=
  ⟨⟨by decide, by decide, fun s s' d => by have := costBound s s' d; omega, fun s u m d c hc => hc, by decide⟩,
   ⟨by decide, costBound⟩, by decide⟩

theorem wellFormed (w : Nat) (hw : 1 ≤ w) (dedup : Bool) (kind : CutsetKind) : WellFormed (sv w dedup kind) H 5 20 :=
  ⟨potential, rubOk, mergeOk, Cover.attMerge_of_static potential (fun _ _ _ _ _ => rfl), runBound, nvBound, fun _ => hw⟩

theorem opt6 : (H 0 prob.init).addI prob.initVal = some 6 := by decide


theorem geItem_iff (a : Int) (va : Int) (b : Int) (vb : Int) : GeItem rule 1 a va b vb ↔ (b ≤ a ∧ vb ≤ va) := by
  have e : ∀ s v, (rule.ent 1 s v).coords = [s] := fun s v => rfl
  have ev : ∀ s v, (rule.ent 1 s v).value = v := fun s v => rfl
  have hu : rule.useValue = true := rfl
  unfold GeItem
  rw [hu]
  simp only [geEnt, e, ev, leB, Bool.not_true, Bool.false_or, Bool.and_true, Bool.and_eq_true, decide_eq_true_eq]
  constructor
  · rintro (⟨rfl, h⟩ | ⟨_, h1, h2⟩)
    · exact ⟨Int.le_refl _, h⟩
    · exact ⟨h1, h2⟩
  · rintro ⟨h1, h2⟩
    exact Or.inr ⟨⟨(), rfl, rfl⟩, h1, h2⟩

/-- **the knapsack rule is simulation-admissible** (more capacity and more value can mimic every decision) -/
theorem simAdmissible : SimAdmissible rule prob 1 := by
  constructor
  · intro d a va b vb pa pb L x _ _ hge hnv _ db hdb
    rw [geItem_iff] at hge
    simp only [prob] at hdb ⊢
    by_cases hw : wt x ≤ b
    · rw [if_pos hw] at hdb
      have hwa : wt x ≤ a := by omega
      rw [if_pos hwa]
      have hd' : db = 1 ∨ db = 0 := by simpa using hdb
      rcases hd' with rfl | rfl
      · refine ⟨1, by simp, ?_⟩
        rw [geItem_iff]; simp only [if_true]; omega
      · refine ⟨0, by simp, ?_⟩
        rw [geItem_iff]; simp only [Int.zero_ne_one, if_false]; omega
    · rw [if_neg hw] at hdb
      have hd' : db = 0 := by simpa using hdb
      subst hd'
      refine ⟨0, by split <;> simp, ?_⟩
      rw [geItem_iff]; simp only [Int.zero_ne_one, if_false]; omega
  · intro d a va b vb pa pb L _ _ hge _ _
    rw [geItem_iff] at hge
    exact hge.2

theorem staticOrder : StaticOrder prob := fun _ _ _ _ _ => rfl

/-- hence it has a protected optimal strategy -/
theorem undomOpt : UndomOpt rule prob H 6 :=
  undomOpt_of_sim rule prob H 1 6 (fun _ => rfl) potential nvBound staticOrder simAdmissible opt6

/-! ### evaluation: the solver with the checker enabled returns the optimum 6, and the checker does prune -/

/-- one restricted compilation of the root, width 3: the layer of depth 2 holds `(capacity, value)` = `(0,6), (3,3), (2,3), (5,0)`;
    `(2,3)` is dominated by `(3,3)` and dropped (`ndom = 1`) -/
theorem prunes_in_layer :
    ((dv 3 false .lel).compR (DomStore.init 3) ⟨5, 0, [], iMax, 0⟩ iMin).2.2.2.ndom = 1 := by decide

/-- width 1: the run with the checker explores 2 sub-problems, the run without explores 3 (an entry recorded by one compilation
    prunes a node of a later one: the store is shared); both return the optimum -/
theorem prunes_across :
    ((dv 1 false .lel).solveLoop 12 (dv 1 false .lel).init).st.completion = (true, some 6) ∧
    ((dv 1 false .lel).solveLoop 12 (dv 1 false .lel).init).st.fringe.length = 0 ∧
    ((dv 1 false .lel).solveLoop 12 (dv 1 false .lel).init).st.explored = 2 ∧
    ((sv 1 false .lel).solveLoop 12 (SeqSt.init prob none false)).completion = (true, some 6) ∧
    ((sv 1 false .lel).solveLoop 12 (SeqSt.init prob none false)).explored = 3 := by decide

theorem loop_value (w : Nat) (hw : w = 1 ∨ w = 2 ∨ w = 3) :
    ((dv w true .frontier).solveLoop 12 (dv w true .frontier).init).st.completion = (true, some 6) ∧
    ((dv w true .frontier).solveLoop 12 (dv w true .frontier).init).st.fringe.length = 0 := by
  rcases hw with rfl | rfl | rfl <;> decide

end Ddo.C10.Kp

namespace Ddo.C10.Kp
open Ddo Ddo.C01 Ddo.Closed

/-- **the headline, instantiated on the knapsack rule**: every run of the solver with the checker enabled (any width ≥ 1, either
    fringe, either cut-set kind) that reaches the empty fringe reports `is_exact = true`, `best_value = Some(6)`; before that a turn
    is always possible; there is no infinite run -/
theorem correct (w : Nat) (hw : 1 ≤ w) (dedup : Bool) (kind : CutsetKind) (t : DSt Int Unit)
    (ht : DRun (dv w dedup kind) (dv w dedup kind).init t) :
    (t.st.fringe = [] → t.st.completion = (true, some 6)) ∧ (t.st.fringe ≠ [] → ∃ u, DStep (dv w dedup kind) t u) :=
  ⟨fun hend => (((dominance_solver_optimal (dv w dedup kind) H 5 20 6 (wellFormed w hw dedup kind) opt6 undomOpt).2.2 t ht).2
      hend).2.2,
   ((dominance_solver_optimal (dv w dedup kind) H 5 20 6 (wellFormed w hw dedup kind) opt6 undomOpt).2.2 t ht).1⟩

/-- the value computed by the fuel-driven loop is the one the theorem predicts -/
example : ((dv 1 false .lel).solveLoop 12 (dv 1 false .lel).init).st.completion = (true, some 6) :=
  (correct 1 (Nat.le_refl 1) false .lel _ (solveLoop_drun (dv 1 false .lel) 12 _)).1
    (List.eq_nil_of_length_eq_zero prunes_across.2.1)

end Ddo.C10.Kp

namespace Ddo.C10
open Ddo Ddo.C01 Ddo.Closed Ddo.Truth

/-! ## stated, not proved -/

/-- **Stated only** — the relaxed counterpart of `exact_diagram_adm` (value-based admissibility, merges allowed): the relaxed
    diagram bounds the optimum of its root from above **or** an entry of the store it started from carries it.  Expected true
    (the witness node of `Proofs/MddCover.lean` is either inexact — never dropped by `_filter_with_dominance` —, or dropped in
    favour of a kept node of the layer, which becomes the witness, or dropped in favour of an entry of the initial store); not
    needed for the solver-level theorem, which goes through the protected family instead (`relaxed_ub_dom`). -/
def RelaxedUbAdmStmt : Prop :=
  ∀ (S K : Type) [DecidableEq S] [DecidableEq K] (cfg : Cfg S K) (D : DomRule S K) (H : Nat → S → EInt) (o B : Int),
    AdmHyp cfg D H o B → cfg.ctype = .relaxed → 1 ≤ cfg.width → MergeOk cfg.R H → Cover.AttMerge cfg.P cfg.R H →
    ∀ (p0 : List Dec) (cache : Cache S) (store : DomStore S K) (polls : Nat),
      Reach cfg.P cfg.root.depth cfg.root.state cfg.root.value p0 → optOf H cfg.root = some o →
      StoreReach D cfg.P store → store.layers.length = cfg.P.nbVars + 1 →
      (compile cfg cache store polls none).1 = .ok →
      (∃ bv, (compile cfg cache store polls none).2.1.bestValue = some bv ∧ o ≤ bv) ∨ Carried cfg H store o

end Ddo.C10

#print axioms Ddo.C10.filterDom_spec
#print axioms Ddo.C10.query_protected
#print axioms Ddo.C10.filterDom_protected
#print axioms Ddo.C10.compile_storeReach
#print axioms Ddo.C10.exact_diagram_dom
#print axioms Ddo.C10.restricted_exact_dom
#print axioms Ddo.C10.exact_diagram_adm
#print axioms Ddo.C10.relaxed_ub_dom
#print axioms Ddo.C10.relaxed_cutset_dom
#print axioms Ddo.C10.isSol_relaxed_dom
#print axioms Ddo.C10.compile_no_crash_dom
#print axioms Ddo.C10.process_dinv
#print axioms Ddo.C10.dstep_inv
#print axioms Ddo.C10.relaxedOk
#print axioms Ddo.C10.dominance_solver_optimal
#print axioms Ddo.C10.dominance_same_value
#print axioms Ddo.C10.solveLoop_dom_correct
#print axioms Ddo.C10.undomOpt_of_sim
#print axioms Ddo.C10.admissible_of_sim
#print axioms Ddo.C10.undomOpt_of_strict
#print axioms Ddo.C10.Cyc.wellFormed
#print axioms Ddo.C10.Cyc.admissibleAll
#print axioms Ddo.C10.Cyc.without_checker
#print axioms Ddo.C10.Cyc.with_checker
#print axioms Ddo.C10.Cyc.with_checker'
#print axioms Ddo.C10.Cyc.not_undomOpt
#print axioms Ddo.C10.Cyc.finding
#print axioms Ddo.C10.Cyc.admissible_not_sufficient
#print axioms Ddo.C10.Kp.wellFormed
#print axioms Ddo.C10.Kp.simAdmissible
#print axioms Ddo.C10.Kp.undomOpt
#print axioms Ddo.C10.Kp.prunes_in_layer
#print axioms Ddo.C10.Kp.prunes_across
#print axioms Ddo.C10.Kp.loop_value
#print axioms Ddo.C10.Kp.correct
