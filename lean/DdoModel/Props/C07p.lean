import DdoModel.Proofs.PooledInv
import DdoModel.Props.C07
/-! # C07 for the pooled diagram — the node flag `is_exact` is sound, restricted / exact compilations are feasible

Model: `DdoModel/Pooled.lean`.  Proofs: `DdoModel/Proofs/PooledInv.lean`, §4.

**`Reach` cannot express long arcs.**  `Reach P k s v p` (`Wf.lean`) takes exactly one decision per layer
(`reach_length_eq`: `p.length = k`).  In the pooled diagram a node whose state is not impacted by the variable of a layer
is skipped past it: its path has *fewer* decisions than its depth.  `Ddo.ReachSkip` adds the constructor `skip`
(`nextVar k L = some x`, `s ∈ L`, `impacted x s = false` ⟹ depth + 1, same state, value and path); it is the relational
form of `evalSkip` (`Dp.lean`).  `Reach → ReachSkip` always (`Reach.toSkip`), `ReachSkip → Reach` when every variable
impacts every state (`ReachSkip.toReach`, `AllImpacted`), and `p.length ≤ k` (`ReachSkip.length_le`).

* `exact_nodes_reachable_pooled` (A): at the end of the top-down compilation `buildLoopP` (any fuel, so at every
  intermediate stage), any compilation type, any cache / dominance configuration: every node flagged exact
  - of a materialised layer `(dp, ly)` of index `l`: has `depth = dp`, `root.depth ≤ dp < pd.depth`, and is
    `ReachSkip`-reached at depth `dp` — the depth of the layer it was (last) placed in — with exactly its state and value
    by `p0 ++ (bestPath pd.plain fuel n).reverse` (any `fuel ≥ l`);
  - of the pool: the same at depth `pd.depth`, the depth `_finalize_layers` gives it (`fuel ≥ pd.layers.length`).
  `p0` is any decision list that `ReachSkip`-reaches the root sub-problem.
* `exact_nodes_reachable_pooled_allImpacted`: with `AllImpacted` the conclusion holds for `Reach`.
* `restricted_sound_pooled` (B): a restricted or exact pooled compilation that ends normally reports as best value the
  value of a genuinely feasible complete solution (`ReachSkip`), and reports that solution.
* `WitnessP`: a restricted pooled compilation whose best solution goes through a long arc: 2 decisions, depth 3.

Differences with the clean theorems (`Ddo.C07.exact_nodes_reachable_gen`, `restricted_sound`): `ReachSkip` instead of
`Reach` (hypothesis `hroot` weakened accordingly); the depth of a layer node is the depth recorded with the layer
(`root.depth + ` number of the iteration that materialised it), **not** `root.depth + ` (index of the layer), since
iterations that materialise nothing still advance the depth; `best` arcs may come from any earlier layer
(`BestChainP`); pool nodes are located at the *current* depth, their own `depth` field is stale.

**Cut-set progress (C08 (ii)) is not carried over**: it is false for the pooled diagram with long arcs (known finding D5);
`Ddo.C12.WitnessP` is a 3-variable instance where the relaxed pooled diagram hands out its own root
(`cutset_contains_root` below). -/
set_option linter.unusedSectionVars false
set_option linter.unusedVariables false
namespace Ddo.C07
open Ddo Ddo.Pooled
variable {S K : Type} [DecidableEq S] [DecidableEq K]

omit [DecidableEq S] [DecidableEq K] in
/-- `Reach` takes exactly one decision per layer … -/
theorem reach_length_eq {P : Problem S} {k : Nat} {s : S} {v : Int} {p : List Dec} (h : Reach P k s v p) :
    p.length = k := by
  induction h with
  | root => rfl
  | step k s v p L x d _ _ _ _ ih => rw [List.length_append, List.length_singleton, ih]

omit [DecidableEq S] [DecidableEq K] in
/-- … `ReachSkip` at most one -/
theorem reachSkip_length_le {P : Problem S} {k : Nat} {s : S} {v : Int} {p : List Dec} (h : ReachSkip P k s v p) :
    p.length ≤ k := h.length_le

omit [DecidableEq S] [DecidableEq K] in
theorem reach_toSkip {P : Problem S} {k : Nat} {s : S} {v : Int} {p : List Dec} (h : Reach P k s v p) :
    ReachSkip P k s v p := h.toSkip

omit [DecidableEq S] [DecidableEq K] in
/-- without long arcs `ReachSkip` is `Reach` -/
theorem reachSkip_toReach {P : Problem S} (hall : AllImpacted P) {k : Nat} {s : S} {v : Int} {p : List Dec}
    (h : ReachSkip P k s v p) : Reach P k s v p := h.toReach hall

/-- **(A)**, general form, pooled diagram.  See `Ddo.Pooled.ExactReachP`.

    Hypotheses: the root sub-problem is reached (`hroot`, with or without skips); no saturation (`hB`);
    `fuel ≤ nbVars + 2` (`compileP` uses exactly `nbVars + 2`): it bounds the number of iterations, which is what makes
    `NoClamp.small` applicable. -/
theorem exact_nodes_reachable_pooled (cfg : Cfg S K) (B : Int) (p0 : List Dec)
    (hB : NoClamp cfg.P cfg.R cfg.root.value B)
    (hroot : ReachSkip cfg.P cfg.root.depth cfg.root.state cfg.root.value p0)
    (cache : Cache S) (store : DomStore S K) (polls : Nat) (stopAt : Option Nat) (fuel : Nat)
    (hfuel : fuel ≤ cfg.P.nbVars + 2) :
    ExactReachP cfg p0 (buildLoopP cfg stopAt fuel (initPD cfg cache store polls)).1 :=
  buildLoopP_exact_reach cfg B p0 hB hroot cache store polls stopAt fuel hfuel

/-- **(A)** unfolded, on the diagram returned by `compileP`, with `p0 := cfg.root.path` -/
theorem exact_nodes_reachable_pooled_compile (cfg : Cfg S K) (B : Int) (hB : NoClamp cfg.P cfg.R cfg.root.value B)
    (hroot : ReachSkip cfg.P cfg.root.depth cfg.root.state cfg.root.value cfg.root.path)
    (cache : Cache S) (store : DomStore S K) (polls : Nat) (stopAt : Option Nat) :
    let pd := (compileP cfg cache store polls stopAt).2.2.2
    (∀ (l dp : Nat) (ly : List (Node S)), pd.layers[l]? = some (dp, ly) → ∀ n ∈ ly, n.isExact = true →
      n.depth = dp ∧ cfg.root.depth ≤ dp ∧ dp < pd.depth ∧ ∀ fuel', l ≤ fuel' →
        ReachSkip cfg.P dp n.state n.value (cfg.root.path ++ (bestPath pd.plain fuel' n).reverse)) ∧
    (∀ n ∈ pd.pool, n.isExact = true → ∀ fuel', pd.layers.length ≤ fuel' →
        ReachSkip cfg.P pd.depth n.state n.value (cfg.root.path ++ (bestPath pd.plain fuel' n).reverse)) := by
  rw [compileP_pd]
  exact exact_nodes_reachable_pooled cfg B cfg.root.path hB hroot cache store polls stopAt _ (Nat.le_refl _)

/-- **(A)** when no variable can be skipped: the clean conclusion (`Reach`, one decision per layer) -/
theorem exact_nodes_reachable_pooled_allImpacted (cfg : Cfg S K) (B : Int) (p0 : List Dec)
    (hall : AllImpacted cfg.P) (hB : NoClamp cfg.P cfg.R cfg.root.value B)
    (hroot : Reach cfg.P cfg.root.depth cfg.root.state cfg.root.value p0)
    (cache : Cache S) (store : DomStore S K) (polls : Nat) (stopAt : Option Nat) (fuel : Nat)
    (hfuel : fuel ≤ cfg.P.nbVars + 2) :
    let pd := (buildLoopP cfg stopAt fuel (initPD cfg cache store polls)).1
    (∀ (l dp : Nat) (ly : List (Node S)), pd.layers[l]? = some (dp, ly) → ∀ n ∈ ly, n.isExact = true →
      n.depth = dp ∧ ∀ fuel', l ≤ fuel' →
        Reach cfg.P n.depth n.state n.value (p0 ++ (bestPath pd.plain fuel' n).reverse)) ∧
    (∀ n ∈ pd.pool, n.isExact = true → ∀ fuel', pd.layers.length ≤ fuel' →
        Reach cfg.P pd.depth n.state n.value (p0 ++ (bestPath pd.plain fuel' n).reverse)) := by
  obtain ⟨h1, h2⟩ := exact_nodes_reachable_pooled cfg B p0 hB hroot.toSkip cache store polls stopAt fuel hfuel
  refine ⟨fun l dp ly hl n hn he => ?_, fun n hn he fuel' hf => (h2 n hn he fuel' hf).toReach hall⟩
  obtain ⟨h3, _, _, h4⟩ := h1 l dp ly hl n hn he
  exact ⟨h3, fun fuel' hf => h3 ▸ (h4 fuel' hf).toReach hall⟩

/-- (A), one iteration: `stepLayerP` preserves the invariant `Ddo.Pooled.MInvP` (which implies `ExactReachP`) -/
theorem exact_nodes_step_pooled (cfg : Cfg S K) (B : Int) (p0 : List Dec) (hB : NoClamp cfg.P cfg.R cfg.root.value B)
    (pd pd' : PD S K) (var k : Nat) (hinv : MInvP cfg B p0 pd k)
    (hnv : cfg.P.nextVar pd.depth (pd.pool.map (·.state)) = some var) (hk : k ≤ cfg.P.nbVars + 1)
    (h : stepLayerP cfg pd var = some pd') : MInvP cfg B p0 pd' (k + 1) ∧ ExactReachP cfg p0 pd' :=
  have h' := stepLayerP_inv cfg B p0 hB pd pd' var k hinv hnv hk h
  ⟨h', h'.exactReach⟩

/-- **(B)**, detailed form, in terms of the final diagram `pd = (compileP …).2.2.2`, with any `p0` reaching the root
    sub-problem: the best value `w` is the value of a node `n` of the pool at exit (the terminal layer); `n` is (flagged
    exact and) reached, at depth `pd.depth`, by `p0 ++ q` where `q` lists the decisions of its `best` chain from the root
    of the diagram; `nextVar` answers `none` on the states of the pool; and the reported solution is the root path
    followed by these same decisions, last one first (`_best_path` order). -/
theorem restricted_sound_detail_pooled (cfg : Cfg S K) (B : Int) (p0 : List Dec) (cache : Cache S) (store : DomStore S K)
    (polls : Nat) (stopAt : Option Nat) (hty : cfg.ctype = .restricted ∨ cfg.ctype = .exact)
    (hroot : ReachSkip cfg.P cfg.root.depth cfg.root.state cfg.root.value p0)
    (hB : NoClamp cfg.P cfg.R cfg.root.value B)
    (hok : (compileP cfg cache store polls stopAt).1 = .ok) (w : Int)
    (hw : (compileP cfg cache store polls stopAt).2.1.bestValue = some w) :
    ∃ (n : Node S) (q : List Dec),
      n ∈ (compileP cfg cache store polls stopAt).2.2.2.pool ∧ n.value = w ∧ n.isExact = true ∧
      ReachSkip cfg.P (compileP cfg cache store polls stopAt).2.2.2.depth n.state w (p0 ++ q) ∧
      (∀ fuel, (compileP cfg cache store polls stopAt).2.2.2.layers.length ≤ fuel →
        q = (bestPath (compileP cfg cache store polls stopAt).2.2.2.plain fuel n).reverse) ∧
      cfg.P.nextVar (compileP cfg cache store polls stopAt).2.2.2.depth
        ((compileP cfg cache store polls stopAt).2.2.2.pool.map (·.state)) = none ∧
      (compileP cfg cache store polls stopAt).2.1.bestSol = some (cfg.root.path ++ q.reverse) := by
  rw [compileP_outcome] at hok
  obtain ⟨must, may, hres, _⟩ := compileP_ok_results cfg cache store polls stopAt hok
  rw [hres] at hw ⊢
  rw [compileP_pd]
  obtain ⟨k, hinv, hterm⟩ := buildLoopP_inv cfg B p0 hB stopAt (cfg.P.nbVars + 2) (initPD cfg cache store polls) 0
    (initPD_inv cfg B p0 hB hroot cache store polls) (by omega)
  generalize (buildLoopP cfg stopAt (cfg.P.nbVars + 2) (initPD cfg cache store polls)) = bl at *
  obtain ⟨pd, oc⟩ := bl
  dsimp only at hok hw hinv hterm ⊢
  have hne : cfg.ctype ≠ .relaxed := by
    rcases hty with h | h <;> rw [h] <;> decide
  have hrel : (cfg.ctype == .relaxed) = false := by
    rcases hty with h | h <;> rw [h] <;> rfl
  obtain ⟨n, hn, hv, hsol⟩ := finalizeP_bestSol_eq cfg pd must hrel w hw
  have hex := hinv.allEx hne n hn
  obtain ⟨q, hq, hreach, _⟩ := hinv.pool n hn hex
  rcases hterm hok with hnil | hnone
  · rw [hnil] at hn; cases hn
  · refine ⟨n, q, hn, hv, hex, ?_, fun fuel hf => (hq.bestPath_eq n rfl fuel hf).symm, hnone, hsol q hq⟩
    rw [hinv.depth, ← hv]; exact hreach

/-- **(B)** restricted / exact pooled compilations are feasible lower bounds: the reported best value `w` is the value of
    a state `s` reached (`ReachSkip`: unimpacted variables carry no decision) at some depth `k` by the decisions
    `cfg.root.path ++ q`, and `s` is complete: it belongs to a list `L` (the pool at exit) on which `nextVar` answers
    `none`.  Moreover the reported best solution consists of the root path followed by the same decisions `q`, listed
    last one first. -/
theorem restricted_sound_pooled (cfg : Cfg S K) (B : Int) (cache : Cache S) (store : DomStore S K) (polls : Nat)
    (stopAt : Option Nat) (hty : cfg.ctype = .restricted ∨ cfg.ctype = .exact)
    (hroot : ReachSkip cfg.P cfg.root.depth cfg.root.state cfg.root.value cfg.root.path)
    (hB : NoClamp cfg.P cfg.R cfg.root.value B) :
    (compileP cfg cache store polls stopAt).1 = .ok →
    ∀ w, (compileP cfg cache store polls stopAt).2.1.bestValue = some w →
      ∃ (k : Nat) (s : S) (q : List Dec) (L : List S),
        ReachSkip cfg.P k s w (cfg.root.path ++ q) ∧ s ∈ L ∧ cfg.P.nextVar k L = none ∧
        (compileP cfg cache store polls stopAt).2.1.bestSol = some (cfg.root.path ++ q.reverse) := by
  intro hok w hw
  obtain ⟨n, q, hn, _, _, hreach, _, hnone, hsol⟩ :=
    restricted_sound_detail_pooled cfg B cfg.root.path cache store polls stopAt hty hroot hB hok w hw
  exact ⟨_, n.state, q, _, hreach, List.mem_map.2 ⟨n, hn, rfl⟩, hnone, hsol⟩

/-- (B) without long arcs: the clean conclusion -/
theorem restricted_sound_pooled_allImpacted (cfg : Cfg S K) (B : Int) (cache : Cache S) (store : DomStore S K)
    (polls : Nat) (stopAt : Option Nat) (hall : AllImpacted cfg.P)
    (hty : cfg.ctype = .restricted ∨ cfg.ctype = .exact)
    (hroot : Reach cfg.P cfg.root.depth cfg.root.state cfg.root.value cfg.root.path)
    (hB : NoClamp cfg.P cfg.R cfg.root.value B) :
    (compileP cfg cache store polls stopAt).1 = .ok →
    ∀ w, (compileP cfg cache store polls stopAt).2.1.bestValue = some w →
      ∃ (k : Nat) (s : S) (q : List Dec) (L : List S),
        Reach cfg.P k s w (cfg.root.path ++ q) ∧ s ∈ L ∧ cfg.P.nextVar k L = none ∧
        (compileP cfg cache store polls stopAt).2.1.bestSol = some (cfg.root.path ++ q.reverse) := by
  intro hok w hw
  obtain ⟨k, s, q, L, h1, h2, h3, h4⟩ :=
    restricted_sound_pooled cfg B cache store polls stopAt hty hroot.toSkip hB hok w hw
  exact ⟨k, s, q, L, h1.toReach hall, h2, h3, h4⟩

/-! ## non-vacuity: a best solution through a long arc

Three variables; block 0 expands the root `0` into `1, 2, 3` (the arc to `3` costs 100); state `3` is not impacted by
variable 1 and stays in the pool during block 1; block 2 keeps `3` (restricted, width 1) and expands it into `6`.
The best solution `[⟨2,6⟩, ⟨0,3⟩]` has 2 decisions, the terminal node is at depth 3. -/
namespace WitnessP

def P : Problem Int :=
  { nbVars := 3, init := 0, initVal := 0, trans := fun _ d => d.val,
    cost := fun s t _ => if t = 3 then 100 else max (-50) (min 50 (s + t)),
    nextVar := fun k _ => if k < 3 then some k else none,
    domain := fun v _ => if v = 0 then [1, 2, 3] else if v = 1 then [4, 5] else [6],
    impacted := fun v s => !(v == 1 && s == 3) }
def R : Relax Int := { merge := fun _ => 9, relax := fun _ _ _ _ c => c, rub := fun _ => 1000 }
def cfg (ct : CompType) : Cfg Int Unit :=
  { P := P, R := R, rank := ⟨fun a b => compare a b⟩, dom := none, useCache := false, kind := .frontier, ctype := ct,
    width := 1, root := { state := 0, value := 0, path := [], ub := 1000, depth := 0 }, lb := -1 }

def pd (ct : CompType) : PD Int Unit := (compileP (cfg ct) (Cache.init 3) (DomStore.init 3) 0 none).2.2.2

example : (compileP (cfg .restricted) (Cache.init 3) (DomStore.init 3) 0 none).1 = .ok := by decide
example : (compileP (cfg .restricted) (Cache.init 3) (DomStore.init 3) 0 none).2.1.bestValue = some 109 := by decide
/-- two decisions … -/
example : (compileP (cfg .restricted) (Cache.init 3) (DomStore.init 3) 0 none).2.1.bestSol = some [⟨2, 6⟩, ⟨0, 3⟩] := by
  decide
/-- … for a terminal node at depth 3 -/
example : (pd .restricted).depth = 3 ∧ (pd .restricted).pool.map (fun n => (n.state, n.value, n.isExact)) = [(6, 109, true)] := by
  decide

/-- the exact pooled diagram, layer by layer: `(state, value, depth field, length of the best path)`, all nodes flagged
    exact — the node of state `3` sits in the layer of depth 2 with a best path of length 1 -/
def view (l : Nat × List (Node Int)) : Nat × List (Int × Int × Nat × Nat) :=
  (l.1, l.2.map (fun n => (n.state, n.value, n.depth, (bestPath (pd .exact).plain 5 n).length)))
example : (pd .exact).layers.map view =
    [(0, [(0, 0, 0, 0)]), (1, [(1, 1, 1, 1), (2, 2, 1, 1)]), (2, [(3, 100, 2, 1), (4, 8, 2, 2), (5, 9, 2, 2)])] := by
  decide
example : (pd .exact).layers.all (fun l => l.2.all (·.isExact)) = true := by decide

/-- the skipping path of that node, by hand … -/
example : ReachSkip P 2 3 100 [⟨0, 3⟩] := by
  have h1 : ReachSkip P 1 (P.trans 0 ⟨0, 3⟩) (0 + P.cost 0 (P.trans 0 ⟨0, 3⟩) ⟨0, 3⟩) ([] ++ [⟨0, 3⟩]) :=
    ReachSkip.step 0 0 0 [] [0] 0 3 ReachSkip.root (by decide) (by decide) (by decide)
  exact ReachSkip.skip 1 3 100 [⟨0, 3⟩] [3] 1 h1 (by decide) (by decide) (by decide)

/-- … which `Reach` cannot express -/
example : ¬ Reach P 2 3 100 [⟨0, 3⟩] := fun h => by
  have := reach_length_eq h
  simp at this

/-- the hypotheses of the theorems hold for the witness (`B = 200`) … -/
theorem noClamp (ct : CompType) : NoClamp (cfg ct).P (cfg ct).R (cfg ct).root.value 200 := by
  show NoClamp P R 0 200
  refine ⟨by decide, by decide, fun s s' d => ?_, fun s u m d c h => h, by decide⟩
  show -200 ≤ (if s' = 3 then 100 else max (-50) (min 50 (s + s'))) ∧
    (if s' = 3 then 100 else max (-50) (min 50 (s + s'))) ≤ 200
  split <;> omega

/-- … so (B) applies: the reported value 109 is that of a complete state reached with skips -/
example : ∃ (k : Nat) (s : Int) (q : List Dec) (L : List Int),
    ReachSkip P k s 109 ([] ++ q) ∧ s ∈ L ∧ P.nextVar k L = none ∧
    (compileP (cfg .restricted) (Cache.init 3) (DomStore.init 3) 0 none).2.1.bestSol = some ([] ++ q.reverse) :=
  restricted_sound_pooled (cfg .restricted) 200 (Cache.init 3) (DomStore.init 3) 0 none (.inl rfl) ReachSkip.root
    (noClamp .restricted) (by decide) 109 (by decide)

/-- **C08 (ii) failed for the pooled diagram with long arcs before the repair of D5** (`compilePOld`): the relaxed
    compilation of the same instance merges the lingering child `3` of the root in block 2, so the root —
    `(state 0, value 0, depth 0)`, empty path — was handed out in the cut-set of the diagram compiled *from* `(0, 0, depth 0)` -/
theorem cutset_contains_root :
    (compilePOld (cfg .relaxed) (Cache.init 3) (DomStore.init 3) 0 none).2.1.cutset.map
      (fun c => (c.state, c.value, c.depth, c.path.length)) = [(1, 1, 1, 1), (2, 2, 1, 1), (0, 0, 0, 0)] := by decide

/-- the repaired code hands out the three children of the root instead of the root -/
theorem cutset_root_replaced :
    (compileP (cfg .relaxed) (Cache.init 3) (DomStore.init 3) 0 none).2.1.cutset.map
      (fun c => (c.state, c.value, c.depth, c.path.length)) =
      [(1, 1, 1, 1), (2, 2, 1, 1), (1, 1, 1, 1), (2, 2, 1, 1), (3, 100, 1, 1)] := by decide

end WitnessP

end Ddo.C07

#print axioms Ddo.C07.exact_nodes_reachable_pooled
#print axioms Ddo.C07.exact_nodes_reachable_pooled_compile
#print axioms Ddo.C07.exact_nodes_reachable_pooled_allImpacted
#print axioms Ddo.C07.restricted_sound_detail_pooled
#print axioms Ddo.C07.restricted_sound_pooled
#print axioms Ddo.C07.restricted_sound_pooled_allImpacted
#print axioms Ddo.C07.reachSkip_toReach
