import DdoModel.Proofs.Closed
/-! # C01 (closed) — the sequential solver over the diagram model returns the optimum, no contract hypothesis left

`Props/C01.lean` … `Props/C01t.lean` prove the coverage invariant, partial correctness and termination of the sequential
branch-and-bound for *any* diagram meeting the contracts `CompileOk` / `CutsetOk`; `Props/C01c.lean` discharges `CompileOk`
from the compilation model `DdoModel/Mdd.lean`.  Here the composition is closed:

1. `cutsetOk_relaxed` — the cut-set of a relaxed compilation (in isolation) of a well-formed model meets **all four** fields of
   `CutsetOk`, as stated, for either result of `compile` and any cutoff (`good`, `sub` from C08 (i); `ub` = C08 (iii);
   `cover` = C08 (iv)).  `toOut` hands the cut-set out unchanged (the capping by the parent's bound is done by
   `enqueue_cutset`, i.e. inside `process_inv`), so nothing has to be corrected.
2. `process_inv_closed` — `process_inv_of_model` without `hcut`, for both fringes.
3. the **concrete** solver: `SolverCfg` (problem, relaxation, ranking, width function, cut-set kind, kind of fringe), `CStep` = one
   turn of the loop of `maximize` — pop a maximal node `N`, `afterPop`, restricted compilation `compile (cfg .restricted N
   best_lb)`, relaxed compilation `compile (cfg .relaxed N best_lb')` with the updated incumbent, `process` — with
   `EmptyCache`, no dominance checker, no cutoff; `CRun` its finite runs; `CInv` the loop invariant (the coverage invariant
   `Inv` of C01 **plus** what the diagram theorems need at every node: every open sub-problem is reached exactly (`Reach`) by
   a permutation of its path with exactly its value; the incumbent is `isize::MIN` or the value of the stored solution; no
   abort).  `cstep_inv`, `crun_inv` (a), `crun_end_correct` (b), `cstep_terminates` (c), `cstep_progress` (no crash: a turn is
   always possible from a non-empty fringe), and the headline `sequential_solver_correct` (d).
   `LInv` / `cstep_linv`: the `open_by_layer` bookkeeping stays exact, hence `crashed = false` (no index out of range, no
   underflow) along every run.
   `solveLoop` (the loop as a fuel-driven function, deterministic pop `popMax`): `solveLoop_run` (it is a run of `CStep`),
   `solveLoop_total` (enough fuel reaches the empty fringe), `solveLoop_computes_opt` (so the function computes the optimum).
4. non-vacuity: `Tiny3` — the tiny model of `Props/C06.lean` is `WellFormed`, the fuel-driven loop `solveLoop` is a run of
   `CStep` (`solveLoop_run`) and evaluates (by `decide`) to the optimum 3 with the empty fringe (one turn: the restricted
   diagram finds the optimum).  `Trap` — a model on which the first restricted diagram is sub-optimal and the relaxed one is
   not exact: three turns, cut-set enqueued, second node solved exactly, third pruned; optimum 4 (`decide`), both fringes,
   both cut-set kinds.

## hypotheses of the headline (`WellFormed sv H B0 B`)

* `Potential P H`, `RubOk R H`, `MergeOk R H`, `AttMerge P R H` — as in C06–C08;
* `RunBound P R B0 B` — `NoClamp P R P.initVal B` (the hypothesis of C06–C08 at the root) **and** a finer bound `B0` on the initial
  value and on the single transition costs with `(nbVars + 1) · B0 ≤ B`.  C06–C08 need `NoClamp P R N.value B` at the root `N` of
  every compilation; the value of a sub-problem at depth `k` is only bounded by `(k + 1) · B0`, so `NoClamp … P.initVal B` alone
  does not give it (`RunBound.noClamp_at`);
* `NvBound P` — `next_variable` answers `None` from depth `nb_variables` on.  **Not guaranteed by the Rust code** (nothing checks
  it): it bounds the depth of every sub-problem by `nb_variables`, which the solver needs to index
  `open_by_layer : vec![0; nb_variables + 1]` (index out of bounds for a cut-set node deeper than `nb_variables`), the compilation
  model needs for its fuel `nb_variables + 2` (`compile_no_crash`), and the magnitude argument above needs for
  `(k + 1) · B0 ≤ B`.  Counter-example without it: `NoNvBound.counter` (every other hypothesis holds, the first compilation of
  the model ends with `.crash`);
* `1 ≤ sv.width N` for every `N`.

The per-node side conditions of the diagram theorems (`InI lb`, `lb < iMax`, `hroot`, `hperm`, `NoClamp` at `N.value`, `hO`)
are all **derived** from `CInv` and `WellFormed` (`cinv_lb_range`, `RunBound.noClamp_at`, `CInvAt.nodes`).

The relaxed compilation is read through its `must` result (`(compile …).2.1`); for the `may` result `CompileOk.sound` is false
(`Ddo.C06.Tie.finding`), see `Props/C01c.lean`. -/
set_option linter.unusedSectionVars false
set_option linter.unusedVariables false
namespace Ddo.C01
open Ddo Ddo.Truth Ddo.Closed
variable {S : Type} [DecidableEq S]

/-! ## 1. the cut-set contract from the diagram model -/

/-- **`CutsetOk` for the diagram model**: relaxed compilation in isolation of a well-formed model, any cutoff, `r` either
    result of `compile`.  Same hypotheses as `compileOk_relaxed`. -/
theorem cutsetOk_relaxed {K : Type} [DecidableEq K] (cfg : Cfg S K) (H : Nat → S → EInt) (B opt : Int) (p0 : List Dec)
    (cache : Cache S) (store : DomStore S K) (polls : Nat) (stopAt : Option Nat)
    (hrel : cfg.ctype = .relaxed) (hcache : cfg.useCache = false) (hdom : cfg.dom = none) (hW : 1 ≤ cfg.width)
    (hP : Potential cfg.P H) (hR : RubOk cfg.R H) (hM : MergeOk cfg.R H) (hAM : Cover.AttMerge cfg.P cfg.R H)
    (hB : NoClamp cfg.P cfg.R cfg.root.value B) (hlb : InI cfg.lb) (hlb' : cfg.lb < iMax)
    (hroot : Reach cfg.P cfg.root.depth cfg.root.state cfg.root.value p0)
    (hopt : (H 0 cfg.P.init).addI cfg.P.initVal = some opt)
    (hok : (compile cfg cache store polls stopAt).1 = .ok) (r : Result S)
    (hr : r = (compile cfg cache store polls stopAt).2.1 ∨ (compile cfg cache store polls stopAt).2.2.1 = some r) :
    CutsetOk (optOf H) opt cfg.root cfg.lb (toOut r) :=
  cutsetOk_of_model cfg H B opt p0 cache store polls stopAt hrel hcache hdom hW hP hR hM hAM hB hlb hlb' hroot hopt hok r hr

/-! ## 2. `process_one_node` over the diagram model, no contract hypothesis, both fringes -/

/-- **`process_inv_closed`**: `process_inv_of_model` without `hcut`, for the plain (`dedup = false`) and the duplicate-free
    (`dedup = true`) fringe -/
theorem process_inv_closed {K : Type} [DecidableEq K] (dedup : Bool) (H : Nat → S → EInt) (B opt : Int) (p0 : List Dec)
    (cR cX : Cfg S K) (cache : Cache S) (store : DomStore S K) (polls polls' : Nat)
    (st : SeqSt S) (N : SubP S)
    (hPR : cX.P = cR.P) (hNR : cR.root = N) (hNX : cX.root = N)
    (hlbR : cR.lb = st.bestLb)
    (hlbX : cX.lb = (st.updateBest (toOut (compile cR cache store polls none).2.1)).bestLb)
    (hres : cR.ctype = .restricted) (hrel : cX.ctype = .relaxed)
    (hcR : cR.useCache = false) (hdR : cR.dom = none) (hcX : cX.useCache = false) (hdX : cX.dom = none) (hW : 1 ≤ cX.width)
    (hP : Potential cR.P H) (hRR : RubOk cR.R H) (hRX : RubOk cX.R H) (hM : MergeOk cX.R H)
    (hAM : Cover.AttMerge cX.P cX.R H)
    (hBR : NoClamp cR.P cR.R cR.root.value B) (hBX : NoClamp cX.P cX.R cX.root.value B)
    (hlbR1 : InI cR.lb) (hlbR2 : cR.lb < iMax) (hlbX1 : InI cX.lb) (hlbX2 : cX.lb < iMax)
    (hroot : Reach cR.P N.depth N.state N.value p0) (hperm : N.path.Perm p0)
    (hopt : (H 0 cR.P.init).addI cR.P.initVal = some opt)
    (hokR : (compile cR cache store polls none).1 = .ok) (hokX : (compile cX cache store polls' none).1 = .ok)
    (hinv : Inv (optOf H) opt (SolOf cR.P) (N :: st.fringe) st.bestLb st.bestSol) :
    Inv (optOf H) opt (SolOf cR.P)
      (st.process dedup N true (.ok (toOut (compile cR cache store polls none).2.1))
        (.ok (toOut (compile cX cache store polls' none).2.1))).1.fringe
      (st.process dedup N true (.ok (toOut (compile cR cache store polls none).2.1))
        (.ok (toOut (compile cX cache store polls' none).2.1))).1.bestLb
      (st.process dedup N true (.ok (toOut (compile cR cache store polls none).2.1))
        (.ok (toOut (compile cX cache store polls' none).2.1))).1.bestSol := by
  have h1 := compileOk_restricted cR H B opt p0 cache store polls hres hcR hdR hP hRR hBR hlbR1 hlbR2
    (by rw [hNR]; exact hroot) (by rw [hNR]; exact hperm) hopt hokR
  have h2 := compileOk_relaxed cX H B opt p0 cache store polls' hrel hcX hdX hW (hPR ▸ hP) hRX hM hAM hBX hlbX1 hlbX2
    (by rw [hNX, hPR]; exact hroot) (by rw [hNX]; exact hperm) (by rw [hPR]; exact hopt) hokX
  have h3 := cutsetOk_relaxed cX H B opt p0 cache store polls' none hrel hcX hdX hW (hPR ▸ hP) hRX hM hAM hBX hlbX1 hlbX2
    (by rw [hNX, hPR]; exact hroot) (by rw [hPR]; exact hopt) hokX _ (.inl rfl)
  rw [hNR, hlbR] at h1
  rw [hNX, hlbX, hPR] at h2
  rw [hNX, hlbX] at h3
  exact C01b.process_inv_any (optOf H) opt (SolOf cR.P) dedup (phiMono_of_potential H) st N _ _ hinv h1 h2 (fun _ => h3)

/-! ## 3. the concrete sequential solver -/

/-- the parameters of a run of `SequentialSolver` with `EmptyCache`, `EmptyDominanceChecker`, `NoCutoff` -/
structure SolverCfg (S : Type) where
  P : Problem S
  R : Relax S
  rank : Ranking S
  /-- `WidthHeuristic::max_width` -/
  width : SubP S → Nat
  kind : CutsetKind
  /-- `true` = `NoDupFringe`, `false` = `SimpleFringe` -/
  dedup : Bool

/-- the `CompilationInput` of `process_one_node` for the node `N` with incumbent `lb` -/
def SolverCfg.cfg (sv : SolverCfg S) (ct : CompType) (N : SubP S) (lb : Int) : Cfg S Unit :=
  { P := sv.P, R := sv.R, rank := sv.rank, dom := none, useCache := false, kind := sv.kind, ctype := ct,
    width := sv.width N, root := N, lb := lb }

/-- outcome / result of the restricted compilation of `N` (diagram model) -/
def SolverCfg.outR (sv : SolverCfg S) (cache : Cache S) (store : DomStore S Unit) (polls : Nat) (N : SubP S) (lb : Int) : Outcome :=
  (compile (sv.cfg .restricted N lb) cache store polls none).1
def SolverCfg.resR (sv : SolverCfg S) (cache : Cache S) (store : DomStore S Unit) (polls : Nat) (N : SubP S) (lb : Int) : Result S :=
  (compile (sv.cfg .restricted N lb) cache store polls none).2.1
/-- outcome / result (`must`) of the relaxed compilation of `N` (diagram model) -/
def SolverCfg.outX (sv : SolverCfg S) (cache : Cache S) (store : DomStore S Unit) (polls : Nat) (N : SubP S) (lb : Int) : Outcome :=
  (compile (sv.cfg .relaxed N lb) cache store polls none).1
def SolverCfg.resX (sv : SolverCfg S) (cache : Cache S) (store : DomStore S Unit) (polls : Nat) (N : SubP S) (lb : Int) : Result S :=
  (compile (sv.cfg .relaxed N lb) cache store polls none).2.1

/-- the state after `get_workload` popped `N` (`rest` = what is left in the fringe, `fa` = the new `first_active_layer`) -/
def popped (s : SeqSt S) (N : SubP S) (rest : List (SubP S)) (fa : Nat) : SeqSt S :=
  ({ s with fringe := rest, firstActive := fa }).afterPop N

/-- the incumbent the relaxed compilation is started with -/
def SolverCfg.lb1 (sv : SolverCfg S) (st : SeqSt S) (N : SubP S) (cache : Cache S) (store : DomStore S Unit) (polls : Nat) : Int :=
  (st.updateBest (toOut (sv.resR cache store polls N st.bestLb))).bestLb

/-- `process_one_node(N)` from the popped state `st`, both compilations answered by the diagram model.
    (`cache`, `store`, `polls` / `cache'`, `store'`, `polls'`: the — irrelevant — contents of the empty cache, of the dominance
    store and the poll counter handed to the two compilations.) -/
def SolverCfg.turn (sv : SolverCfg S) (st : SeqSt S) (N : SubP S) (cache cache' : Cache S) (store store' : DomStore S Unit)
    (polls polls' : Nat) : SeqSt S :=
  (st.process sv.dedup N true (.ok (toOut (sv.resR cache store polls N st.bestLb)))
    (.ok (toOut (sv.resX cache' store' polls' N (sv.lb1 st N cache store polls))))).1

/-- **one turn of the concrete solver loop**: pop a maximal node, `afterPop`, `process_one_node` over the diagram model.
    Both compilations end normally (`.ok`; the other outcome without cutoff is `.crash`, a panic: `cstep_progress` shows it does
    not happen). -/
inductive CStep (sv : SolverCfg S) : SeqSt S → SeqSt S → Prop
  | pop (s : SeqSt S) (N : SubP S) (rest : List (SubP S)) (fa : Nat) (cache cache' : Cache S) (store store' : DomStore S Unit)
      (polls polls' : Nat)
      (hpop : s.fringe.Perm (N :: rest))
      (hmax : ∀ c ∈ rest, c.ub < N.ub ∨ (c.ub = N.ub ∧ c.value ≤ N.value))
      (hokR : sv.outR cache store polls N (popped s N rest fa).bestLb = .ok)
      (hokX : sv.outX cache' store' polls' N (sv.lb1 (popped s N rest fa) N cache store polls) = .ok) :
      CStep sv s (sv.turn (popped s N rest fa) N cache cache' store store' polls polls')

/-- finite runs of the concrete loop -/
inductive CRun (sv : SolverCfg S) : SeqSt S → SeqSt S → Prop
  | refl (s : SeqSt S) : CRun sv s s
  | tail {s t u : SeqSt S} : CRun sv s t → CStep sv t u → CRun sv s u

/-- a well-formed model (see the header) -/
structure WellFormed (sv : SolverCfg S) (H : Nat → S → EInt) (B0 B : Int) : Prop where
  pot : Potential sv.P H
  rub : RubOk sv.R H
  merge : MergeOk sv.R H
  attMerge : Cover.AttMerge sv.P sv.R H
  bound : RunBound sv.P sv.R B0 B
  nv : NvBound sv.P
  width : ∀ N, 1 ≤ sv.width N

/-- an open sub-problem is reached exactly, by a permutation of its path, with exactly its value -/
def NodeOk (P : Problem S) (c : SubP S) : Prop := ∃ p0, Reach P c.depth c.state c.value p0 ∧ c.path.Perm p0

/-- the loop invariant, over an explicit list of open sub-problems -/
structure CInvAt (sv : SolverCfg S) (H : Nat → S → EInt) (open_ : List (SubP S)) (lb : Int) (sol : Option (List Dec))
    (abort : Bool) : Prop where
  nodes : ∀ c ∈ open_, NodeOk sv.P c
  lbLo : iMin ≤ lb
  solLb : sol = none → lb = iMin
  noAbort : abort = false
  /-- feasible problem: the coverage invariant of C01 for the optimum -/
  feas : ∀ opt, (H 0 sv.P.init).addI sv.P.initVal = some opt → Inv (optOf H) opt (SolOf sv.P) open_ lb sol
  /-- infeasible problem: nothing was ever reported -/
  infeas : (H 0 sv.P.init).addI sv.P.initVal = none → lb = iMin ∧ sol = none

/-- **`CInv`**: the loop invariant of the concrete solver -/
def CInv (sv : SolverCfg S) (H : Nat → S → EInt) (s : SeqSt S) : Prop :=
  CInvAt sv H s.fringe s.bestLb s.bestSol s.abort

theorem nodeOk_ub (P : Problem S) (c : SubP S) (u : Int) (h : NodeOk P c) : NodeOk P { c with ub := u } := h

/-- the incumbent is within the bound `B` -/
theorem cinv_lb_le {sv : SolverCfg S} {H : Nat → S → EInt} {B0 B : Int} (hwf : WellFormed sv H B0 B)
    {open_ : List (SubP S)} {lb : Int} {sol : Option (List Dec)} {abort : Bool} (hI : CInvAt sv H open_ lb sol abort) :
    lb ≤ B := by
  cases hopt : (H 0 sv.P.init).addI sv.P.initVal with
  | none =>
    have := (hI.infeas hopt).1
    have := hwf.bound.clamp.nonneg
    simp only [iMin] at *; omega
  | some opt =>
    have := (hI.feas opt hopt).lbOk
    have := (opt_bound hwf.pot hwf.nv hwf.bound hopt).2
    omega

/-- **the side conditions `InI lb`, `lb < iMax` of the diagram theorems follow from the invariant** -/
theorem cinv_lb_range {sv : SolverCfg S} {H : Nat → S → EInt} {B0 B : Int} (hwf : WellFormed sv H B0 B)
    {open_ : List (SubP S)} {lb : Int} {sol : Option (List Dec)} {abort : Bool} (hI : CInvAt sv H open_ lb sol abort) :
    InI lb ∧ lb < iMax := by
  have h1 := cinv_lb_le hwf hI
  have h2 := hI.lbLo
  have h3 := hwf.bound.B_small
  unfold InI
  simp only [iMin, iMax] at *
  omega

/-- the value of a reported solution is within `B` -/
theorem isSol_le {sv : SolverCfg S} {H : Nat → S → EInt} {B0 B : Int} (hwf : WellFormed sv H B0 B)
    (cfg : Cfg S Unit) (hP : cfg.P = sv.P) (p0 : List Dec) (w : Int) (sol : Option (List Dec)) (h : IsSol cfg p0 w sol) :
    w ≤ B ∧ ∃ p, sol = some p := by
  obtain ⟨k, s, q, L, hr, _, _, hsol⟩ := h
  rw [hP] at hr
  exact ⟨(hwf.bound.value_le hwf.nv hr).2, _, hsol⟩

theorem updateBest_le (st : SeqSt S) (o : DDOut S) (B : Int) (hs : ∀ w, o.bestExact = some w → w ≤ B) (h : st.bestLb ≤ B) :
    (st.updateBest o).bestLb ≤ B := by
  unfold SeqSt.updateBest
  cases hb : o.bestExact with
  | none => exact h
  | some w =>
    have := hs w hb
    simp only
    split
    · exact this
    · exact h

/-- **the invariant is preserved by `process_one_node` over the diagram model** (`st` = the popped state, `N` in hand) -/
theorem turn_cinv {sv : SolverCfg S} {H : Nat → S → EInt} {B0 B : Int} (hwf : WellFormed sv H B0 B)
    (st : SeqSt S) (N : SubP S) (cache cache' : Cache S) (store store' : DomStore S Unit) (polls polls' : Nat)
    (hI : CInvAt sv H (N :: st.fringe) st.bestLb st.bestSol st.abort)
    (hokR : sv.outR cache store polls N st.bestLb = .ok)
    (hokX : sv.outX cache' store' polls' N (sv.lb1 st N cache store polls) = .ok) :
    CInv sv H (sv.turn st N cache cache' store store' polls polls') := by
  obtain ⟨p0, hroot, hperm⟩ := hI.nodes N List.mem_cons_self
  have hBN : NoClamp sv.P sv.R N.value B := hwf.bound.noClamp_at hwf.nv hroot
  obtain ⟨hlb1, hlb2⟩ := cinv_lb_range hwf hI
  have hlbB := cinv_lb_le hwf hI
  have hBs := hwf.bound.B_small
  -- what the two compilations report, optimum-free
  have sR : ∀ w, (toOut (sv.resR cache store polls N st.bestLb)).bestExact = some w →
      IsSol (sv.cfg .restricted N st.bestLb) p0 w (toOut (sv.resR cache store polls N st.bestLb)).bestExactSol :=
    fun w hw => isSol_restricted (sv.cfg .restricted N st.bestLb) B p0 cache store polls none rfl hBN hroot hokR w hw
  have hl1B : sv.lb1 st N cache store polls ≤ B :=
    updateBest_le st _ B (fun w hw => (isSol_le hwf _ rfl p0 w _ (sR w hw)).1) hlbB
  have hl1lo : st.bestLb ≤ sv.lb1 st N cache store polls := updateBest_lb_ge st _
  have hl1 : InI (sv.lb1 st N cache store polls) ∧ sv.lb1 st N cache store polls < iMax := by
    have := hI.lbLo
    unfold InI
    simp only [iMin, iMax] at *
    omega
  have sX : ∀ w, (toOut (sv.resX cache' store' polls' N (sv.lb1 st N cache store polls))).bestExact = some w →
      IsSol (sv.cfg .relaxed N (sv.lb1 st N cache store polls)) p0 w
        (toOut (sv.resX cache' store' polls' N (sv.lb1 st N cache store polls))).bestExactSol :=
    fun w hw => isSol_relaxed (sv.cfg .relaxed N (sv.lb1 st N cache store polls)) B p0 cache' store' polls' rfl rfl rfl
      (hwf.width N) hBN hroot hokX w hw
  have eR : ∀ w, (toOut (sv.resR cache store polls N st.bestLb)).bestExact = some w →
      ∃ p, (toOut (sv.resR cache store polls N st.bestLb)).bestExactSol = some p :=
    fun w hw => (isSol_le hwf _ rfl p0 w _ (sR w hw)).2
  have eX : ∀ w, (toOut (sv.resX cache' store' polls' N (sv.lb1 st N cache store polls))).bestExact = some w →
      ∃ p, (toOut (sv.resX cache' store' polls' N (sv.lb1 st N cache store polls))).bestExactSol = some p :=
    fun w hw => (isSol_le hwf _ rfl p0 w _ (sX w hw)).2
  -- the cut-set: exact nodes
  have hcs : ∀ c ∈ (sv.resX cache' store' polls' N (sv.lb1 st N cache store polls)).cutset, NodeOk sv.P c := by
    intro c hc
    obtain ⟨q, hq, hpath⟩ := C08.cutset_exact (sv.cfg .relaxed N (sv.lb1 st N cache store polls)) B p0 cache' store' polls'
      none hroot hBN hokX _ (.inl rfl) c hc
    refine ⟨p0 ++ q, hq, ?_⟩
    rw [hpath]
    exact List.Perm.append hperm (List.reverse_perm q)
  unfold CInv SolverCfg.turn
  refine ⟨?_, ?_, ?_, ?_, ?_, ?_⟩
  · -- nodes
    refine process_forall (NodeOk sv.P) (nodeOk_ub sv.P) sv.dedup st N true _ _
      (fun c hc => hI.nodes c (List.mem_cons_of_mem _ hc)) ?_
    intro o ho c hc
    injection ho with ho
    subst ho
    exact hcs c hc
  · -- lbLo
    have h0 := hI.lbLo
    have h2 := updateBest_lb_ge (st.updateBest (toOut (sv.resR cache store polls N st.bestLb)))
      (toOut (sv.resX cache' store' polls' N (sv.lb1 st N cache store polls)))
    have h1' : st.bestLb ≤ (st.updateBest (toOut (sv.resR cache store polls N st.bestLb))).bestLb := hl1lo
    rcases process_lb_sol sv.dedup st N true (toOut (sv.resR cache store polls N st.bestLb))
      (toOut (sv.resX cache' store' polls' N (sv.lb1 st N cache store polls))) with ⟨e, _⟩ | ⟨e, _⟩ | ⟨e, _⟩ <;>
    · rw [e]; omega
  · -- solLb
    have a1 := updateBest_solLb st _ eR hI.solLb
    have a2 := updateBest_solLb (st.updateBest (toOut (sv.resR cache store polls N st.bestLb))) _ eX a1
    rcases process_lb_sol sv.dedup st N true (toOut (sv.resR cache store polls N st.bestLb))
      (toOut (sv.resX cache' store' polls' N (sv.lb1 st N cache store polls))) with ⟨e1, e2⟩ | ⟨e1, e2⟩ | ⟨e1, e2⟩
    · rw [e1, e2]; exact hI.solLb
    · rw [e1, e2]; exact a1
    · rw [e1, e2]; exact a2
  · -- noAbort
    rw [process_abort]; exact hI.noAbort
  · -- feasible
    intro opt hopt
    have h1 : CompileOk (optOf H) opt (SolOf sv.P) N st.bestLb (toOut (sv.resR cache store polls N st.bestLb)) :=
      compileOk_restricted (sv.cfg .restricted N st.bestLb) H B opt p0 cache store polls rfl rfl rfl hwf.pot hwf.rub hBN
        hlb1 hlb2 hroot hperm hopt hokR
    have h2 : CompileOk (optOf H) opt (SolOf sv.P) N (sv.lb1 st N cache store polls)
        (toOut (sv.resX cache' store' polls' N (sv.lb1 st N cache store polls))) :=
      compileOk_relaxed (sv.cfg .relaxed N (sv.lb1 st N cache store polls)) H B opt p0 cache' store' polls' rfl rfl rfl
        (hwf.width N) hwf.pot hwf.rub hwf.merge hwf.attMerge hBN hl1.1 hl1.2 hroot hperm hopt hokX
    have h3 : CutsetOk (optOf H) opt N (sv.lb1 st N cache store polls)
        (toOut (sv.resX cache' store' polls' N (sv.lb1 st N cache store polls))) :=
      cutsetOk_relaxed (sv.cfg .relaxed N (sv.lb1 st N cache store polls)) H B opt p0 cache' store' polls' none rfl rfl rfl
        (hwf.width N) hwf.pot hwf.rub hwf.merge hwf.attMerge hBN hl1.1 hl1.2 hroot hopt hokX _ (.inl rfl)
    exact C01b.process_inv_any (optOf H) opt (SolOf sv.P) sv.dedup (phiMono_of_potential H) st N _ _ (hI.feas opt hopt)
      h1 h2 (fun _ => h3)
  · -- infeasible
    intro hinf
    have hdead : optOf H N = none := reach_dead hwf.pot hinf hroot
    have nR : (toOut (sv.resR cache store polls N st.bestLb)).bestExact = none := by
      cases hb : (toOut (sv.resR cache store polls N st.bestLb)).bestExact with
      | none => rfl
      | some w =>
        obtain ⟨x, hx, _⟩ := within_of_isSol (sv.cfg .restricted N st.bestLb) H p0 hwf.pot hroot w _ (sR w hb)
        rw [show optOf H (sv.cfg .restricted N st.bestLb).root = optOf H N from rfl, hdead] at hx
        cases hx
    have nX : (toOut (sv.resX cache' store' polls' N (sv.lb1 st N cache store polls))).bestExact = none := by
      cases hb : (toOut (sv.resX cache' store' polls' N (sv.lb1 st N cache store polls))).bestExact with
      | none => rfl
      | some w =>
        obtain ⟨x, hx, _⟩ := within_of_isSol (sv.cfg .relaxed N (sv.lb1 st N cache store polls)) H p0 hwf.pot hroot w _
          (sX w hb)
        rw [show optOf H (sv.cfg .relaxed N (sv.lb1 st N cache store polls)).root = optOf H N from rfl, hdead] at hx
        cases hx
    have u1 := updateBest_none st _ nR
    have u2 := updateBest_none (st.updateBest (toOut (sv.resR cache store polls N st.bestLb))) _ nX
    rcases process_lb_sol sv.dedup st N true (toOut (sv.resR cache store polls N st.bestLb))
      (toOut (sv.resX cache' store' polls' N (sv.lb1 st N cache store polls))) with ⟨e1, e2⟩ | ⟨e1, e2⟩ | ⟨e1, e2⟩
    · rw [e1, e2]; exact hI.infeas hinf
    · rw [e1, e2, u1]; exact hI.infeas hinf
    · rw [e1, e2, u2, u1]; exact hI.infeas hinf

/-- the invariant passes from the state before the pop to the popped state with the node in hand -/
theorem popped_cinv {sv : SolverCfg S} {H : Nat → S → EInt} {s : SeqSt S} (N : SubP S) (rest : List (SubP S)) (fa : Nat)
    (hpop : s.fringe.Perm (N :: rest)) (hI : CInv sv H s) :
    CInvAt sv H (N :: (popped s N rest fa).fringe) (popped s N rest fa).bestLb (popped s N rest fa).bestSol
      (popped s N rest fa).abort := by
  have e1 : (popped s N rest fa).fringe = rest := C01t.afterPop_fringe _ N
  have e2 : (popped s N rest fa).bestLb = s.bestLb := (C01t.afterPop_lb_sol _ N).1
  have e3 : (popped s N rest fa).bestSol = s.bestSol := (C01t.afterPop_lb_sol _ N).2
  have e4 : (popped s N rest fa).abort = s.abort := afterPop_abort _ N
  rw [e1, e2, e3, e4]
  exact ⟨fun c hc => hI.nodes c (hpop.mem_iff.mpr hc), hI.lbLo, hI.solLb, hI.noAbort,
    fun opt hopt => C01t.inv_of_mem (optOf H) opt (SolOf sv.P) (fun c hc => hpop.mem_iff.mpr hc)
      (fun c hc => hpop.mem_iff.mp hc) (hI.feas opt hopt), hI.infeas⟩

/-- **(a) `CInv` is a loop invariant of the concrete solver** -/
theorem cstep_inv {sv : SolverCfg S} {H : Nat → S → EInt} {B0 B : Int} (hwf : WellFormed sv H B0 B) {s t : SeqSt S}
    (h : CStep sv s t) (hI : CInv sv H s) : CInv sv H t := by
  cases h with
  | pop N rest fa cache cache' store store' polls polls' hpop hmax hokR hokX =>
    exact turn_cinv hwf _ N cache cache' store store' polls polls' (popped_cinv N rest fa hpop hI) hokR hokX

theorem crun_inv {sv : SolverCfg S} {H : Nat → S → EInt} {B0 B : Int} (hwf : WellFormed sv H B0 B) {s t : SeqSt S}
    (h : CRun sv s t) (hI : CInv sv H s) : CInv sv H t := by
  induction h with
  | refl => exact hI
  | tail _ hstep ih => exact cstep_inv hwf hstep ih

/-- the invariant holds initially (`new` + `initialize`, no primal) -/
theorem init_cinv {sv : SolverCfg S} {H : Nat → S → EInt} {B0 B : Int} (hwf : WellFormed sv H B0 B) :
    CInv sv H (SeqSt.init sv.P none sv.dedup) := by
  have hfr : (SeqSt.init sv.P none sv.dedup).fringe = [⟨sv.P.init, sv.P.initVal, [], iMax, 0⟩] := by
    cases hd : sv.dedup <;> rfl
  unfold CInv
  rw [hfr]
  refine ⟨?_, Int.le_refl _, fun _ => rfl, rfl, ?_, fun _ => ⟨rfl, rfl⟩⟩
  · intro c hc
    rcases List.mem_cons.mp hc with e | e
    · subst e; exact ⟨[], Reach.root, List.Perm.refl _⟩
    · cases e
  · intro opt hopt
    have hb := opt_bound hwf.pot hwf.nv hwf.bound hopt
    have hBs := hwf.bound.B_small
    refine init_inv (optOf H) opt (SolOf sv.P) _ iMin none ?_ rfl ?_ ?_ (fun p hp => by cases hp) (fun _ => hopt)
    · intro x hx
      have : optOf H ⟨sv.P.init, sv.P.initVal, [], iMax, 0⟩ = some opt := hopt
      rw [this] at hx
      have := Option.some.inj hx
      omega
    · simp only [iMax]; omega
    · show iMin ≤ opt
      simp only [iMin]; omega

/-- **(b) partial correctness**: a state that satisfies the invariant and has an empty fringe (`get_workload` answers
    `Complete`) reports the optimum with a feasible solution of that value — or nothing iff the problem is infeasible;
    `is_exact` is reported in both cases -/
theorem cinv_end_correct {sv : SolverCfg S} {H : Nat → S → EInt} {B0 B : Int} (hwf : WellFormed sv H B0 B) {t : SeqSt S}
    (hI : CInv sv H t) (hend : t.fringe = []) :
    (∀ opt, (H 0 sv.P.init).addI sv.P.initVal = some opt →
      t.bestLb = opt ∧ (∃ p, t.bestSol = some p ∧ SolOf sv.P p opt) ∧ t.completion = (true, some opt)) ∧
    ((H 0 sv.P.init).addI sv.P.initVal = none → t.bestSol = none ∧ t.completion = (true, none)) := by
  have hab : t.abort = false := hI.noAbort
  constructor
  · intro opt hopt
    have hinv := hI.feas opt hopt
    rw [hend] at hinv
    obtain ⟨h1, h2⟩ := complete_optimal (optOf H) opt (SolOf sv.P) t.bestLb t.bestSol hinv
    have hb := opt_bound hwf.pot hwf.nv hwf.bound hopt
    have hBs := hwf.bound.B_small
    cases hs : t.bestSol with
    | none =>
      have := hI.solLb hs
      simp only [iMin] at this
      omega
    | some p =>
      refine ⟨h1, ⟨p, rfl, h2 p hs⟩, ?_⟩
      unfold SeqSt.completion
      rw [hab, hs, h1]; rfl
  · intro hinf
    obtain ⟨_, h2⟩ := hI.infeas hinf
    refine ⟨h2, ?_⟩
    unfold SeqSt.completion
    rw [hab, h2]; rfl

theorem crun_end_correct {sv : SolverCfg S} {H : Nat → S → EInt} {B0 B : Int} (hwf : WellFormed sv H B0 B) {t : SeqSt S}
    (h : CRun sv (SeqSt.init sv.P none sv.dedup) t) (hend : t.fringe = []) :
    (∀ opt, (H 0 sv.P.init).addI sv.P.initVal = some opt →
      t.bestLb = opt ∧ (∃ p, t.bestSol = some p ∧ SolOf sv.P p opt) ∧ t.completion = (true, some opt)) ∧
    ((H 0 sv.P.init).addI sv.P.initVal = none → t.bestSol = none ∧ t.completion = (true, none)) :=
  cinv_end_correct hwf (crun_inv hwf h (init_cinv hwf)) hend

/-! ### (c) termination -/

/-- under the invariant a turn of the concrete loop is a `Step` of `Props/C01t.lean`: the cut-set nodes are strictly
    deeper than the popped node (C08 (ii)) and not deeper than `nb_variables` (C08 (i) + `NvBound`) -/
theorem cstep_step {sv : SolverCfg S} {H : Nat → S → EInt} {B0 B : Int} (hwf : WellFormed sv H B0 B) {s t : SeqSt S}
    (hI : CInv sv H s) (h : CStep sv s t) : C01t.Step sv.P.nbVars sv.dedup s t := by
  cases h with
  | pop N rest fa cache cache' store store' polls polls' hpop hmax hokR hokX =>
    obtain ⟨p0, hroot, hperm⟩ := hI.nodes N (hpop.mem_iff.mpr List.mem_cons_self)
    have hBN : NoClamp sv.P sv.R N.value B := hwf.bound.noClamp_at hwf.nv hroot
    refine C01t.Step.pop s N rest fa true _ _ hpop ?_
    intro o ho c hc
    injection ho with ho
    subst ho
    have h1 := C08.cutset_progress (sv.cfg .relaxed N (sv.lb1 (popped s N rest fa) N cache store polls)) B p0 cache' store'
      polls' none rfl hroot hBN hokX _ (.inl rfl) c hc
    obtain ⟨q, hq, _⟩ := C08.cutset_exact (sv.cfg .relaxed N (sv.lb1 (popped s N rest fa) N cache store polls)) B p0 cache'
      store' polls' none hroot hBN hokX _ (.inl rfl) c hc
    exact ⟨h1, reach_depth_le hwf.nv hq⟩

/-- **(c) termination**: the concrete step relation, on the states that satisfy the invariant (all reachable states do), is
    well-founded -/
theorem cstep_terminates {sv : SolverCfg S} {H : Nat → S → EInt} {B0 B : Int} (hwf : WellFormed sv H B0 B) :
    WellFounded (fun t s : SeqSt S => CInv sv H s ∧ CStep sv s t) :=
  Subrelation.wf (fun {_ _} h => cstep_step hwf h.1 h.2) (C01t.seq_terminates sv.P.nbVars sv.dedup)

/-- there is no infinite run of the concrete solver -/
theorem no_infinite_crun {sv : SolverCfg S} {H : Nat → S → EInt} {B0 B : Int} (hwf : WellFormed sv H B0 B)
    (run : Nat → SeqSt S) (h0 : run 0 = SeqSt.init sv.P none sv.dedup) : ¬ ∀ n, CStep sv (run n) (run (n + 1)) := by
  intro hrun
  have hinv : ∀ n, CInv sv H (run n) := by
    intro n
    induction n with
    | zero => rw [h0]; exact init_cinv hwf
    | succ n ih => exact cstep_inv hwf (hrun n) ih
  exact no_infinite_chain (cstep_terminates hwf) run (fun n => ⟨hinv n, hrun n⟩)

/-! ### progress: no crash -/

/-- **no crash**: from a state that satisfies the invariant and still has open sub-problems a turn of the loop is possible —
    a maximal node can be popped and both compilations end normally -/
theorem cstep_progress {sv : SolverCfg S} {H : Nat → S → EInt} {B0 B : Int} (hwf : WellFormed sv H B0 B) {s : SeqSt S}
    (hI : CInv sv H s) (hne : s.fringe ≠ []) (fa : Nat) (cache cache' : Cache S) (store store' : DomStore S Unit)
    (polls polls' : Nat) : ∃ t, CStep sv s t := by
  obtain ⟨N, rest, hp⟩ := popMax_some s.fringe hne
  obtain ⟨hpop, hmax⟩ := popMax_spec s.fringe N rest hp
  obtain ⟨p0, hroot, _⟩ := hI.nodes N (hpop.mem_iff.mpr List.mem_cons_self)
  have hd := reach_depth_le hwf.nv hroot
  refine ⟨_, CStep.pop s N rest fa cache cache' store store' polls polls' hpop hmax ?_ ?_⟩
  · exact compile_no_crash _ cache store polls rfl rfl (hwf.width N) hwf.nv hd
  · exact compile_no_crash _ cache' store' polls' rfl rfl (hwf.width N) hwf.nv hd

/-! ### no panic in the `open_by_layer` bookkeeping -/

/-- `open_by_layer` has `nb_variables + 1` cells, cell `d` counts the fringe entries of depth `d`, and no checked operation
    failed so far (`crashed`: index out of range in `open_by_layer[depth]`, `-= 1` on an empty cell) -/
def LInv (sv : SolverCfg S) (s : SeqSt S) : Prop := LayersOk sv.P.nbVars s.openByLayer s.fringe ∧ s.crashed = false

theorem init_linv (sv : SolverCfg S) : LInv sv (SeqSt.init sv.P none sv.dedup) := init_layers sv.P sv.dedup

/-- the bookkeeping invariant is preserved by a turn of the loop (the depth of the popped node and of the cut-set nodes is
    at most `nb_variables`: C08 (i) + `NvBound`) -/
theorem cstep_linv {sv : SolverCfg S} {H : Nat → S → EInt} {B0 B : Int} (hwf : WellFormed sv H B0 B) {s t : SeqSt S}
    (h : CStep sv s t) (hI : CInv sv H s) (hL : LInv sv s) : LInv sv t := by
  cases h with
  | pop N rest fa cache cache' store store' polls polls' hpop hmax hokR hokX =>
    obtain ⟨p0, hroot, hperm⟩ := hI.nodes N (hpop.mem_iff.mpr List.mem_cons_self)
    have hBN : NoClamp sv.P sv.R N.value B := hwf.bound.noClamp_at hwf.nv hroot
    have hN := reach_depth_le hwf.nv hroot
    obtain ⟨h1, h2⟩ := afterPop_layers sv.P.nbVars s N rest fa hN hpop hL.1
    have hcs : ∀ c ∈ (toOut (sv.resX cache' store' polls' N (sv.lb1 (popped s N rest fa) N cache store polls))).cutset,
        c.depth ≤ sv.P.nbVars := by
      intro c hc
      obtain ⟨q, hq, _⟩ := C08.cutset_exact (sv.cfg .relaxed N (sv.lb1 (popped s N rest fa) N cache store polls)) B p0 cache'
        store' polls' none hroot hBN hokX _ (.inl rfl) c hc
      exact reach_depth_le hwf.nv hq
    obtain ⟨h3, h4⟩ := process_layers sv.P.nbVars sv.dedup (popped s N rest fa) N true
      (toOut (sv.resR cache store polls N (popped s N rest fa).bestLb)) _ hcs h1
    exact ⟨h3, h4.trans (h2.trans hL.2)⟩

theorem crun_linv {sv : SolverCfg S} {H : Nat → S → EInt} {B0 B : Int} (hwf : WellFormed sv H B0 B) {s t : SeqSt S}
    (h : CRun sv s t) (hI : CInv sv H s) (hL : LInv sv s) : LInv sv t := by
  induction h with
  | refl => exact hL
  | tail hrun hstep ih => exact cstep_linv hwf hstep (crun_inv hwf hrun hI) ih

/-! ### (d) the headline -/

/-- **`sequential_solver_correct`**: for every well-formed model (`WellFormed`: `Potential`, `RubOk`, `MergeOk`, `AttMerge`,
    `RunBound` = `NoClamp` at the root + `(nbVars + 1) · B0 ≤ B`, `NvBound`, widths ≥ 1), every ranking, width function,
    cut-set kind and either fringe, the sequential solver over the diagram model (`EmptyCache`, no dominance, no cutoff)

    * terminates: the step relation is well-founded on the reachable states, there is no infinite run;
    * never gets stuck before the fringe is empty (no compilation crashes) and never panics in the `open_by_layer`
      bookkeeping (`crashed = false`);
    * when the fringe is empty: reports `is_exact = true` and the optimum, with a stored solution that is a genuinely
      feasible complete path of that value — or reports no value iff the problem is infeasible. -/
theorem sequential_solver_correct (sv : SolverCfg S) (H : Nat → S → EInt) (B0 B : Int) (hwf : WellFormed sv H B0 B) :
    WellFounded (fun t s : SeqSt S => CRun sv (SeqSt.init sv.P none sv.dedup) s ∧ CStep sv s t) ∧
    (∀ run : Nat → SeqSt S, run 0 = SeqSt.init sv.P none sv.dedup → ¬ ∀ n, CStep sv (run n) (run (n + 1))) ∧
    ∀ t, CRun sv (SeqSt.init sv.P none sv.dedup) t →
      (t.fringe ≠ [] → ∃ u, CStep sv t u) ∧
      t.crashed = false ∧
      (t.fringe = [] →
        (∀ opt, (H 0 sv.P.init).addI sv.P.initVal = some opt →
          t.bestLb = opt ∧ (∃ p, t.bestSol = some p ∧ SolOf sv.P p opt) ∧ t.completion = (true, some opt)) ∧
        ((H 0 sv.P.init).addI sv.P.initVal = none → t.bestSol = none ∧ t.completion = (true, none))) := by
  refine ⟨?_, fun run h0 => no_infinite_crun hwf run h0, fun t ht => ⟨fun hne => ?_,
    (crun_linv hwf ht (init_cinv hwf) (init_linv sv)).2, fun hend => crun_end_correct hwf ht hend⟩⟩
  · exact Subrelation.wf (fun {_ _} h => ⟨crun_inv hwf h.1 (init_cinv hwf), h.2⟩) (cstep_terminates hwf)
  · exact cstep_progress hwf (crun_inv hwf ht (init_cinv hwf)) hne 0 (Cache.init sv.P.nbVars) (Cache.init sv.P.nbVars)
      (DomStore.init sv.P.nbVars) (DomStore.init sv.P.nbVars) 0 0

/-! ## a fuel-driven version of the loop -/

theorem CRun.head {sv : SolverCfg S} {s t u : SeqSt S} (h1 : CStep sv s t) (h2 : CRun sv t u) : CRun sv s u := by
  induction h2 with
  | refl => exact CRun.tail (CRun.refl _) h1
  | tail _ hstep ih => exact CRun.tail ih hstep

/-- the loop of `maximize` as a function: `get_workload` (cache-cleaning loop, pop of a maximal node — `popMax`, the first
    maximal one in the list —, `afterPop`), `process_one_node` over the diagram model with the empty cache / store; stops when the
    fringe is empty, when the fuel runs out, or when a compilation does not end normally -/
def SolverCfg.solveLoop (sv : SolverCfg S) : Nat → SeqSt S → SeqSt S
  | 0, s => s
  | n + 1, s =>
    match popMax s.fringe with
    | none => s
    | some (N, rest) =>
      let st := popped s N rest (cleanLoop sv.P.nbVars s.openByLayer sv.P.nbVars s.firstActive)
      let c : Cache S := Cache.init sv.P.nbVars
      let d : DomStore S Unit := DomStore.init sv.P.nbVars
      if sv.outR c d 0 N st.bestLb = .ok ∧ sv.outX c d 0 N (sv.lb1 st N c d 0) = .ok then
        sv.solveLoop n (sv.turn st N c c d d 0 0)
      else s

/-- the fuel-driven loop is a run of the concrete step relation -/
theorem solveLoop_run (sv : SolverCfg S) : ∀ (n : Nat) (s : SeqSt S), CRun sv s (sv.solveLoop n s) := by
  intro n
  induction n with
  | zero => intro s; exact CRun.refl s
  | succ n ih =>
    intro s
    unfold SolverCfg.solveLoop
    cases hp : popMax s.fringe with
    | none => exact CRun.refl s
    | some Nr =>
      obtain ⟨N, rest⟩ := Nr
      obtain ⟨hpop, hmax⟩ := popMax_spec s.fringe N rest hp
      simp only
      split
      · next hok =>
        exact CRun.head (CStep.pop s N rest _ _ _ _ _ 0 0 hpop hmax hok.1 hok.2) (ih _)
      · exact CRun.refl s

/-- with a well-formed model the fuel-driven loop only stops on the empty fringe or for lack of fuel; whenever it returns a
    state with an empty fringe that state is correct -/
theorem solveLoop_correct (sv : SolverCfg S) (H : Nat → S → EInt) (B0 B : Int) (hwf : WellFormed sv H B0 B) (n : Nat)
    (hend : (sv.solveLoop n (SeqSt.init sv.P none sv.dedup)).fringe = []) :
    (∀ opt, (H 0 sv.P.init).addI sv.P.initVal = some opt →
      (sv.solveLoop n (SeqSt.init sv.P none sv.dedup)).completion = (true, some opt) ∧
      ∃ p, (sv.solveLoop n (SeqSt.init sv.P none sv.dedup)).bestSol = some p ∧ SolOf sv.P p opt) ∧
    ((H 0 sv.P.init).addI sv.P.initVal = none →
      (sv.solveLoop n (SeqSt.init sv.P none sv.dedup)).completion = (true, none)) := by
  obtain ⟨h1, h2⟩ := crun_end_correct hwf (solveLoop_run sv n _) hend
  exact ⟨fun opt hopt => ⟨(h1 opt hopt).2.2, (h1 opt hopt).2.1⟩, fun hinf => (h2 hinf).2⟩

/-- **total correctness of the fuel-driven loop**: with a well-formed model, from any state that satisfies the invariant, enough
    fuel brings the loop to the empty fringe (termination `cstep_terminates` + no crash `compile_no_crash`) -/
theorem solveLoop_total {sv : SolverCfg S} {H : Nat → S → EInt} {B0 B : Int} (hwf : WellFormed sv H B0 B) (s : SeqSt S) :
    CInv sv H s → ∃ n, (sv.solveLoop n s).fringe = [] := by
  refine (cstep_terminates hwf).induction (C := fun s => CInv sv H s → ∃ n, (sv.solveLoop n s).fringe = []) s ?_
  intro s ih hI
  by_cases hne : s.fringe = []
  · exact ⟨0, hne⟩
  · obtain ⟨N, rest, hp⟩ := popMax_some s.fringe hne
    obtain ⟨hpop, hmax⟩ := popMax_spec s.fringe N rest hp
    obtain ⟨p0, hroot, _⟩ := hI.nodes N (hpop.mem_iff.mpr List.mem_cons_self)
    have hd := reach_depth_le hwf.nv hroot
    have hokR : sv.outR (Cache.init sv.P.nbVars) (DomStore.init sv.P.nbVars) 0 N
        (popped s N rest (cleanLoop sv.P.nbVars s.openByLayer sv.P.nbVars s.firstActive)).bestLb = .ok :=
      compile_no_crash _ _ _ 0 rfl rfl (hwf.width N) hwf.nv hd
    have hokX : sv.outX (Cache.init sv.P.nbVars) (DomStore.init sv.P.nbVars) 0 N
        (sv.lb1 (popped s N rest (cleanLoop sv.P.nbVars s.openByLayer sv.P.nbVars s.firstActive)) N
          (Cache.init sv.P.nbVars) (DomStore.init sv.P.nbVars) 0) = .ok :=
      compile_no_crash _ _ _ 0 rfl rfl (hwf.width N) hwf.nv hd
    have hstep := CStep.pop s N rest (cleanLoop sv.P.nbVars s.openByLayer sv.P.nbVars s.firstActive)
      (Cache.init sv.P.nbVars) (Cache.init sv.P.nbVars) (DomStore.init sv.P.nbVars) (DomStore.init sv.P.nbVars) 0 0
      hpop hmax hokR hokX
    obtain ⟨n, hn⟩ := ih _ ⟨hI, hstep⟩ (cstep_inv hwf hstep hI)
    refine ⟨n + 1, ?_⟩
    rw [SolverCfg.solveLoop]
    simp only [hp]
    rw [if_pos ⟨hokR, hokX⟩]
    exact hn

/-- **the sequential solver, as a function, computes the optimum**: for some amount of fuel the loop started from
    `initialize` ends with the empty fringe, and then reports `is_exact = true` and the optimum with a feasible solution of that
    value — or no value iff the problem is infeasible -/
theorem solveLoop_computes_opt (sv : SolverCfg S) (H : Nat → S → EInt) (B0 B : Int) (hwf : WellFormed sv H B0 B) :
    ∃ n, (sv.solveLoop n (SeqSt.init sv.P none sv.dedup)).fringe = [] ∧
      (sv.solveLoop n (SeqSt.init sv.P none sv.dedup)).crashed = false ∧
      (∀ opt, (H 0 sv.P.init).addI sv.P.initVal = some opt →
        (sv.solveLoop n (SeqSt.init sv.P none sv.dedup)).completion = (true, some opt) ∧
        ∃ p, (sv.solveLoop n (SeqSt.init sv.P none sv.dedup)).bestSol = some p ∧ SolOf sv.P p opt) ∧
      ((H 0 sv.P.init).addI sv.P.initVal = none →
        (sv.solveLoop n (SeqSt.init sv.P none sv.dedup)).completion = (true, none)) := by
  obtain ⟨n, hn⟩ := solveLoop_total hwf _ (init_cinv hwf)
  obtain ⟨h1, h2⟩ := solveLoop_correct sv H B0 B hwf n hn
  exact ⟨n, hn, (crun_linv hwf (solveLoop_run sv n _) (init_cinv hwf) (init_linv sv)).2, h1, h2⟩

/-! ## 4. non-vacuity: the tiny model of `Props/C06.lean` (three binary variables, optimum 3), width 1 -/
namespace Tiny3
open Ddo.C06

def sv (dedup : Bool) (kind : CutsetKind) : SolverCfg Int :=
  { P := Tiny.prob, R := Tiny.rlx, rank := ⟨fun a b => icmp a b⟩, width := fun _ => 1, kind := kind, dedup := dedup }

theorem nvBound : NvBound Tiny.prob := by
  intro k L hk
  have : ¬ k < 3 := by simp only [Tiny.prob] at hk; omega
  simp only [Tiny.prob, this, if_false]

theorem runBound : RunBound Tiny.prob Tiny.rlx 1 4 := by
  refine ⟨⟨by decide, by decide, ?_, fun s u m d c hc => hc, by decide⟩, ⟨by decide, ?_⟩, by decide⟩
  · intro s s' d; simp only [Tiny.prob]; split <;> omega
  · intro s s' d; simp only [Tiny.prob]; split <;> omega

theorem wellFormed (dedup : Bool) (kind : CutsetKind) : WellFormed (sv dedup kind) Tiny.H 1 4 :=
  ⟨Tiny.potential, Tiny.rubOk, Tiny.mergeOk, Cover.attMerge_of_static Tiny.potential (fun _ _ _ _ _ => rfl), runBound,
    nvBound, fun _ => Nat.le_refl 1⟩

/-- the headline, instantiated: every run (either fringe, either cut-set kind) that reaches the empty fringe reports
    `is_exact = true`, `best_value = Some(3)`; there is no infinite run; a turn is always possible before the fringe is empty -/
theorem correct (dedup : Bool) (kind : CutsetKind) (t : SeqSt Int)
    (ht : CRun (sv dedup kind) (SeqSt.init Tiny.prob none dedup) t) :
    (t.fringe = [] → t.completion = (true, some 3)) ∧ (t.fringe ≠ [] → ∃ u, CStep (sv dedup kind) t u) :=
  ⟨fun hend => ((((sequential_solver_correct (sv dedup kind) Tiny.H 1 4 (wellFormed dedup kind)).2.2 t ht).2.2 hend).1 3 rfl).2.2,
   ((sequential_solver_correct (sv dedup kind) Tiny.H 1 4 (wellFormed dedup kind)).2.2 t ht).1⟩

theorem terminates (dedup : Bool) (kind : CutsetKind) (run : Nat → SeqSt Int) (h0 : run 0 = SeqSt.init Tiny.prob none dedup) :
    ¬ ∀ n, CStep (sv dedup kind) (run n) (run (n + 1)) :=
  (sequential_solver_correct (sv dedup kind) Tiny.H 1 4 (wellFormed dedup kind)).2.1 run h0

/-- the optimum of the tiny model is 3 -/
example : (Tiny.H 0 Tiny.prob.init).addI Tiny.prob.initVal = some 3 := rfl

/-- the fuel-driven loop ends with the empty fringe … -/
theorem loop_ends : ((sv false .lel).solveLoop 12 (SeqSt.init Tiny.prob none false)).fringe.length = 0 := by decide

/-- … and reports `is_exact = true`, `best_value = Some(3)`: what `solveLoop_correct` says it must report -/
theorem loop_value : ((sv false .lel).solveLoop 12 (SeqSt.init Tiny.prob none false)).completion = (true, some 3) := by decide

example : ((sv false .lel).solveLoop 12 (SeqSt.init Tiny.prob none false)).completion = (true, some 3) :=
  ((solveLoop_correct (sv false .lel) Tiny.H 1 4 (wellFormed false .lel) 12 (List.eq_nil_of_length_eq_zero loop_ends)).1 3
    rfl).1

/-- the same with the duplicate-free fringe and the frontier cut-set -/
theorem loop_value' : ((sv true .frontier).solveLoop 12 (SeqSt.init Tiny.prob none true)).completion = (true, some 3) ∧
    ((sv true .frontier).solveLoop 12 (SeqSt.init Tiny.prob none true)).fringe.length = 0 := by decide

end Tiny3

/-! ## 4'. non-vacuity with a genuine branch-and-bound: a model on which the first restricted diagram is trapped

Three binary variables; from the free state `0` variable 0 set to 1 gains 1 and leads to a trapped state (no further gain),
variables 1 and 2 set to 1 gain 2 each.  Optimum 4 (`0, 1, 1`).  Width 1: the restricted diagram of the root keeps the trapped
node (value 1), the relaxed one merges the third layer (bound 4, not exact), the cut-set `{(0, value 0, ub 4), (1, value 1, ub 3)}`
is enqueued; the second turn solves the free node exactly (incumbent 4), the third prunes the trapped one. -/
namespace Trap
def prob : Problem Int :=
  { nbVars := 3, init := 0, initVal := 0,
    trans := fun s d => if s = 0 then (if d.var = 0 ∧ d.val = 1 then 1 else 0) else s,
    cost := fun s _ d => if s = 0 then (if d.val = 1 then (if d.var = 0 then 1 else 2) else 0) else 0,
    nextVar := fun k _ => if k < 3 then some k else none,
    domain := fun _ _ => [0, 1],
    impacted := fun _ _ => true }
def rlx : Relax Int :=
  { merge := fun X => if 0 ∈ X then 0 else 1, relax := fun _ _ _ _ c => c, rub := fun _ => 4 }
def sv (dedup : Bool) (kind : CutsetKind) : SolverCfg Int :=
  { P := prob, R := rlx, rank := ⟨fun a b => icmp a b⟩, width := fun _ => 1, kind := kind, dedup := dedup }

/-- value-to-go: from the free state `0` both remaining gains of 2 (variables 1 and 2), nothing from a trapped state -/
def H (k : Nat) (s : Int) : EInt := if s = 0 then (if k = 0 then some 4 else some ((2 * (3 - k) : Nat) : Int)) else some 0

theorem nv_some {k : Nat} {L : List Int} {x : Nat} (h : prob.nextVar k L = some x) : k < 3 ∧ x = k := by
  simp only [prob] at h
  split at h
  · next hk => cases h; exact ⟨hk, rfl⟩
  · cases h

theorem potential : Potential prob H := by
  constructor
  · intro k L x s h hnv _ hH
    obtain ⟨hk, hx⟩ := nv_some hnv; subst x
    by_cases hs : s = 0
    · subst hs
      have hk3 : k = 0 ∨ k = 1 ∨ k = 2 := by omega
      rcases hk3 with rfl | rfl | rfl
      · refine ⟨0, by simp [prob], 4, by simp [prob, H], ?_⟩
        simp [H] at hH; simp [prob]; omega
      · refine ⟨1, by simp [prob], 2, by simp [prob, H], ?_⟩
        simp [H] at hH; simp [prob]; omega
      · refine ⟨1, by simp [prob], 0, by simp [prob, H], ?_⟩
        simp [H] at hH; simp [prob]; omega
    · refine ⟨0, by simp [prob], 0, by simp [prob, H, hs], ?_⟩
      simp [H, hs] at hH; simp [prob, hs]; omega
  · intro k L x s v p d _ hnv _ hd
    obtain ⟨hk, hx⟩ := nv_some hnv; subst x
    have hd' : d = 0 ∨ d = 1 := by simpa [prob] using hd
    by_cases hs : s = 0
    · subst hs
      have hk3 : k = 0 ∨ k = 1 ∨ k = 2 := by omega
      rcases hk3 with rfl | rfl | rfl <;> rcases hd' with rfl | rfl <;> simp [H, prob, EInt.addI]
    · simp [H, prob, hs, EInt.addI]
  · intro k L s hnv _
    simp only [prob] at hnv
    split at hnv
    · cases hnv
    · next hk =>
      simp only [H]
      split
      · have : k ≠ 0 := by omega
        simp only [this, if_false]; congr 1; omega
      · rfl

theorem H_le (k : Nat) (s : Int) : ∃ h, H k s = some h ∧ 0 ≤ h ∧ h ≤ 4 ∧ ∀ h0, H k 0 = some h0 → h ≤ h0 := by
  unfold H
  by_cases hs : s = 0
  · subst hs
    by_cases hk : k = 0
    · subst hk; exact ⟨4, by simp, by omega, by omega, fun h0 h => by simp at h; omega⟩
    · refine ⟨((2 * (3 - k) : Nat) : Int), by simp [hk], by omega, by omega, fun h0 h => ?_⟩
      simp [hk] at h; omega
  · refine ⟨0, by simp [hs], by omega, by omega, fun h0 h => ?_⟩
    by_cases hk : k = 0
    · subst hk; simp at h; omega
    · simp [hk] at h; omega

theorem rubOk : RubOk rlx H := by
  intro k s h hH
  obtain ⟨h', e, _, h4, _⟩ := H_le k s
  rw [hH] at e; cases e
  exact h4

theorem mergeOk : MergeOk rlx H := by
  intro k X u src d c h hu hH
  by_cases h0 : (0 : Int) ∈ X
  · obtain ⟨h0', e0, _, _, _⟩ := H_le k 0
    obtain ⟨h', e, _, _, hle⟩ := H_le k u
    rw [hH] at e; cases e
    refine ⟨h0', by simp only [rlx, h0, if_true]; exact e0, ?_⟩
    have := hle h0' e0
    simp only [rlx]; omega
  · have hu0 : u ≠ 0 := fun e => h0 (e ▸ hu)
    refine ⟨0, by simp [rlx, h0, H], ?_⟩
    simp [H, hu0] at hH
    simp only [rlx]; omega

theorem nvBound : NvBound prob := by
  intro k L hk
  have : ¬ k < 3 := by simp only [prob] at hk; omega
  simp only [prob, this, if_false]

theorem costBound (s s' : Int) (d : Dec) : -2 ≤ prob.cost s s' d ∧ prob.cost s s' d ≤ 2 := by
  simp only [prob]
  split
  · split
    · split <;> omega
    · omega
  · omega

theorem runBound : RunBound prob rlx 2 8 :=
  ⟨⟨by decide, by decide, fun s s' d => by have := costBound s s' d; omega, fun s u m d c hc => hc, by decide⟩,
   ⟨by decide, costBound⟩, by decide⟩

theorem wellFormed (dedup : Bool) (kind : CutsetKind) : WellFormed (sv dedup kind) H 2 8 :=
  ⟨potential, rubOk, mergeOk, Cover.attMerge_of_static potential (fun _ _ _ _ _ => rfl), runBound,
    nvBound, fun _ => Nat.le_refl 1⟩

example : (H 0 prob.init).addI prob.initVal = some 4 := rfl

/-- after one turn the root has been branched: two open sub-problems, incumbent 1 (the restricted diagram is trapped) -/
theorem turn1 : (((sv false .lel).solveLoop 1 (SeqSt.init prob none false)).fringe.map (fun c => (c.state, c.value, c.ub, c.depth)),
    ((sv false .lel).solveLoop 1 (SeqSt.init prob none false)).bestLb) = ([(1, 1, 3, 1), (0, 0, 4, 1)], 1) := by decide

theorem loop_value : ((sv false .lel).solveLoop 5 (SeqSt.init prob none false)).completion = (true, some 4) ∧
    ((sv false .lel).solveLoop 5 (SeqSt.init prob none false)).fringe.length = 0 ∧
    ((sv false .lel).solveLoop 5 (SeqSt.init prob none false)).explored = 3 := by decide

theorem loop_value' : ((sv true .frontier).solveLoop 5 (SeqSt.init prob none true)).completion = (true, some 4) ∧
    ((sv true .frontier).solveLoop 5 (SeqSt.init prob none true)).fringe.length = 0 ∧
    ((sv true .frontier).solveLoop 5 (SeqSt.init prob none true)).explored = 3 := by decide
/-- the headline, instantiated: every run of the concrete solver on the trap model (either fringe, either cut-set kind) that
    reaches the empty fringe reports `is_exact = true`, `best_value = Some(4)`; before that a turn is always possible; nothing
    panics; there is no infinite run -/
theorem correct (dedup : Bool) (kind : CutsetKind) (t : SeqSt Int)
    (ht : CRun (sv dedup kind) (SeqSt.init prob none dedup) t) :
    (t.fringe = [] → t.completion = (true, some 4)) ∧ (t.fringe ≠ [] → ∃ u, CStep (sv dedup kind) t u) ∧ t.crashed = false :=
  ⟨fun hend => ((((sequential_solver_correct (sv dedup kind) H 2 8 (wellFormed dedup kind)).2.2 t ht).2.2 hend).1 4 rfl).2.2,
   ((sequential_solver_correct (sv dedup kind) H 2 8 (wellFormed dedup kind)).2.2 t ht).1,
   ((sequential_solver_correct (sv dedup kind) H 2 8 (wellFormed dedup kind)).2.2 t ht).2.1⟩

theorem terminates (dedup : Bool) (kind : CutsetKind) (run : Nat → SeqSt Int) (h0 : run 0 = SeqSt.init prob none dedup) :
    ¬ ∀ n, CStep (sv dedup kind) (run n) (run (n + 1)) :=
  (sequential_solver_correct (sv dedup kind) H 2 8 (wellFormed dedup kind)).2.1 run h0

/-- the value computed by the fuel-driven loop is the one the theorem predicts -/
example : ((sv false .lel).solveLoop 5 (SeqSt.init prob none false)).completion = (true, some 4) :=
  (correct false .lel _ (solveLoop_run (sv false .lel) 5 _)).1 (List.eq_nil_of_length_eq_zero loop_value.2.1)

end Trap

/-! ## the hypothesis `NvBound` is necessary -/
namespace NoNvBound
open Ddo.C06

/-- the tiny model with a wrong `nb_variables` (1 instead of 3): `next_variable` still answers `Some` at depths 1 and 2 -/
def prob : Problem Int := { Tiny.prob with nbVars := 1 }

def sv : SolverCfg Int :=
  { P := prob, R := Tiny.rlx, rank := ⟨fun a b => icmp a b⟩, width := fun _ => 1, kind := .lel, dedup := false }

theorem potential : Potential prob Tiny.H := ⟨Tiny.potential.att, fun k L x s v p d hr => by
  have hr' : Reach Tiny.prob k s v p := by
    induction hr with
    | root => exact Reach.root
    | step k s v p L x d _ hnv hs hd ih => exact Reach.step k s v p L x d ih hnv hs hd
  exact Tiny.potential.le k L x s v p d hr', Tiny.potential.term⟩

/-- every hypothesis of `sequential_solver_correct` but `NvBound` holds (the bounds with `B0 = 1`, `B = 2`), the fringe holds the
    root, and the very first compilation does not end normally: the conclusion "a turn is possible" fails.
    In the model the fuel `nb_variables + 2` of `buildLoop` runs out (a modelling bound: the Rust loop has no fuel).  The Rust
    solver itself panics (`open_by_layer[depth]`, `vec![0; nb_variables + 1]`) once a cut-set node lies deeper than
    `nb_variables`, which needs `next_variable` to answer `Some` at a depth `≥ nb_variables + 2`; an overshoot by one or two
    levels (as here) is harmless for the Rust code but already outside the diagram model. -/
theorem counter :
    Potential sv.P Tiny.H ∧ RubOk sv.R Tiny.H ∧ MergeOk sv.R Tiny.H ∧ Cover.AttMerge sv.P sv.R Tiny.H ∧
    RunBound sv.P sv.R 1 2 ∧ (∀ N, 1 ≤ sv.width N) ∧ ¬ NvBound sv.P ∧
    (SeqSt.init sv.P none sv.dedup).fringe.length = 1 ∧
    sv.outR (Cache.init 1) (DomStore.init 1) 0 ⟨sv.P.init, sv.P.initVal, [], iMax, 0⟩ iMin = .crash := by
  refine ⟨potential, Tiny.rubOk, Tiny.mergeOk, Cover.attMerge_of_static potential (fun _ _ _ _ _ => rfl), ?_,
    fun _ => Nat.le_refl 1, ?_, by decide, by decide⟩
  · refine ⟨⟨by decide, by decide, ?_, fun s u m d c hc => hc, by decide⟩, ⟨by decide, ?_⟩, by decide⟩
    · intro s s' d; simp only [sv, prob, Tiny.prob]; split <;> omega
    · intro s s' d; simp only [sv, prob, Tiny.prob]; split <;> omega
  · intro h
    have := h 1 [] (Nat.le_refl 1)
    simp [sv, prob, Tiny.prob] at this

end NoNvBound

end Ddo.C01

#print axioms Ddo.C01.cutsetOk_relaxed
#print axioms Ddo.C01.process_inv_closed
#print axioms Ddo.C01.cstep_inv
#print axioms Ddo.C01.crun_end_correct
#print axioms Ddo.C01.cstep_terminates
#print axioms Ddo.C01.cstep_progress
#print axioms Ddo.C01.cstep_linv
#print axioms Ddo.C01.sequential_solver_correct
#print axioms Ddo.C01.solveLoop_run
#print axioms Ddo.C01.solveLoop_correct
#print axioms Ddo.C01.solveLoop_total
#print axioms Ddo.C01.solveLoop_computes_opt
#print axioms Ddo.C01.Tiny3.correct
#print axioms Ddo.C01.Tiny3.loop_value
#print axioms Ddo.C01.Tiny3.loop_value'
#print axioms Ddo.C01.Trap.wellFormed
#print axioms Ddo.C01.Trap.correct
#print axioms Ddo.C01.Trap.loop_value
#print axioms Ddo.C01.Trap.loop_value'
#print axioms Ddo.C01.NoNvBound.counter
