import DdoModel.Proofs.Dominance
/-! # C10 — the dominance checker implements Pareto-front semantics (checker part)

`DomRule.partialCmp`, `DomRule.cmp`, `DomRule.retain`, `DomRule.bucketQuery`, `DomStore.query` model
`Dominance::{partial_cmp, cmp}` and `SimpleDominanceChecker::is_dominated_or_insert`.  Theorems for
**every** sequence of queries to one `(depth, key)` bucket (induction over the history), for any
rule of uniform dimension (`∀ s, D.dims s = n`: the code reads both states with the dimension of
the first, so a rule whose dimension varies within a key is outside the trait's contract), with and
without value.  Buckets of different depths / keys do not interact (`query_frame` below).

Solver level (sentence 1 of C10: enabling the checker never changes the optimum) is *not* a theorem
here: it is watched by the correspondence runs of C01/C03 with dominance enabled (see DESIGN.md §6 C10);
the missing hypothesis is made precise and decided in `Props/C10b.lean` (`UndomOpt`, `dominance_solver_optimal`). -/
set_option linter.unusedSectionVars false
namespace Ddo.C10
variable {S K : Type}

section bucket
variable (D : DomRule S K) (n : Nat)

local notation "E" => D.entU n
local notation "uv" => D.useValue

/-- the partial order is a strict order: irreflexive and transitive -/
theorem dom_strict_order (a b c : Ent) (h1 : a.coords.length = b.coords.length) (h2 : b.coords.length = c.coords.length) :
    domEnt uv a a = false ∧ (domEnt uv a b = true → domEnt uv b c = true → domEnt uv a c = true) := by
  refine ⟨domEnt_irrefl _ _, fun hab hbc => ?_⟩
  exact dom_ge_trans h1 h2 hab (by simp only [domEnt, Bool.and_eq_true] at hbc; exact hbc.1)

/-- **`pcmp_spec`**: the four outcomes of `partial_cmp` are exactly dominated / equal / dominating / incomparable -/
theorem pcmp_spec (hdim : ∀ s, D.dims s = n) (a : S) (va : Int) (b : S) (vb : Int) :
    let ea := D.entU n (a, va); let eb := D.entU n (b, vb)
    ((∃ f, D.partialCmp a va b vb = some (.lt, f)) ↔ domEnt uv eb ea = true) ∧
    ((∃ f, D.partialCmp a va b vb = some (.gt, f)) ↔ domEnt uv ea eb = true) ∧
    ((∃ f, D.partialCmp a va b vb = some (.eq, f)) ↔ (geEnt uv ea eb = true ∧ geEnt uv eb ea = true)) ∧
    (D.partialCmp a va b vb = none ↔ (geEnt uv ea eb = false ∧ geEnt uv eb ea = false)) := by
  intro ea eb
  have hc := D.partialCmp_char a va b vb
  simp only [hdim a] at hc
  have e1 : D.ent n a va = ea := rfl
  have e2 : D.ent n b vb = eb := rfl
  rw [e1, e2] at hc
  rw [hc]
  simp only [domEnt]
  cases geEnt uv eb ea <;> cases geEnt uv ea eb <;> simp

/-- step: the new bucket covers the extended history -/
theorem query_covers (hdim : ∀ s, D.dims s = n) (b : Bucket S) (hist : List (S × Int)) (q : S × Int)
    (h : Covers uv (b.map E) (hist.map E)) :
    Covers uv ((D.bucketQuery q.1 q.2 b).1.map E) ((q :: hist).map E) := by
  have hq : ∀ o, D.entQ q.1 o = E o := D.entQ_eq_entU n hdim q.1
  obtain ⟨hdomc, hkept⟩ := D.retain_char q.1 q.2 b
  simp only [hq] at hdomc hkept
  have hqq : E (q.1, q.2) = E q := rfl
  rw [hqq] at hdomc hkept
  have hl : ∀ x y : S × Int, (E x).coords.length = (E y).coords.length := fun x y => by
    rw [D.entU_len, D.entU_len]
  intro p hp
  rw [D.bucketQuery_fst]
  by_cases hd : (D.retain q.1 q.2 b).1 = true
  · simp only [hd, if_true, hkept]
    rw [hdomc] at hd
    obtain ⟨o, ho, hoq⟩ := List.any_eq_true.mp hd
    have hokept : E o ∈ (b.filter (fun o => keepPred uv (E q) (E o))).map E :=
      List.mem_map.mpr ⟨o, List.mem_filter.mpr ⟨ho, by simp [keepPred, hoq]⟩, rfl⟩
    rw [List.map_cons] at hp
    rcases List.mem_cons.mp hp with hp | hp
    · -- p = E q
      subst hp
      exact ⟨E o, hokept, by simp only [domEnt, Bool.and_eq_true] at hoq; exact hoq.1⟩
    · obtain ⟨p0, hp0, rfl⟩ := List.mem_map.mp hp
      obtain ⟨f, hf, hfp⟩ := h (E p0) (List.mem_map.mpr ⟨p0, hp0, rfl⟩)
      obtain ⟨f0, hf0, rfl⟩ := List.mem_map.mp hf
      by_cases hk : keepPred uv (E q) (E f0) = true
      · exact ⟨E f0, List.mem_map.mpr ⟨f0, List.mem_filter.mpr ⟨hf0, hk⟩, rfl⟩, hfp⟩
      · -- f0 dropped: q ≥ f0; o dominates q ≥ f0 ≥ p0 and o is kept
        simp only [keepPred, Bool.or_eq_true, Bool.not_eq_true', not_or, Bool.not_eq_true, Bool.not_eq_false] at hk
        refine ⟨E o, hokept, ?_⟩
        have h1 : geEnt uv (E o) (E q) = true := by simp only [domEnt, Bool.and_eq_true] at hoq; exact hoq.1
        exact geEnt_trans (hl _ _) (hl _ _) h1 (geEnt_trans (hl _ _) (hl _ _) hk.2 hfp)
  · have hd' : (D.retain q.1 q.2 b).1 = false := by simpa using hd
    simp only [hd', Bool.false_eq_true, if_false, hkept, List.map_append, List.map_cons, List.map_nil]
    rw [List.map_cons] at hp
    rcases List.mem_cons.mp hp with hp | hp
    · subst hp
      exact ⟨E q, List.mem_append_right _ (by simp), geEnt_refl _ _⟩
    · obtain ⟨p0, hp0, rfl⟩ := List.mem_map.mp hp
      obtain ⟨f, hf, hfp⟩ := h (E p0) (List.mem_map.mpr ⟨p0, hp0, rfl⟩)
      obtain ⟨f0, hf0, rfl⟩ := List.mem_map.mp hf
      by_cases hk : keepPred uv (E q) (E f0) = true
      · exact ⟨E f0, List.mem_append_left _ (List.mem_map.mpr ⟨f0, List.mem_filter.mpr ⟨hf0, hk⟩, rfl⟩), hfp⟩
      · simp only [keepPred, Bool.or_eq_true, Bool.not_eq_true', not_or, Bool.not_eq_true, Bool.not_eq_false] at hk
        exact ⟨E q, List.mem_append_right _ (by simp), geEnt_trans (hl _ _) (hl _ _) hk.2 hfp⟩

/-- step: stored pairs were presented -/
theorem query_sub (b : Bucket S) (hist : List (S × Int)) (q : S × Int) (h : ∀ f ∈ b, f ∈ hist) :
    ∀ f ∈ (D.bucketQuery q.1 q.2 b).1, f ∈ q :: hist := by
  intro f hf
  rw [D.bucketQuery_fst, (D.retain_char q.1 q.2 b).2] at hf
  split at hf
  · exact List.mem_cons_of_mem _ (h f (List.mem_filter.mp hf).1)
  · rcases List.mem_append.mp hf with hf | hf
    · exact List.mem_cons_of_mem _ (h f (List.mem_filter.mp hf).1)
    · simp at hf; subst hf; exact List.mem_cons_self

/-- the store covers everything that was ever presented (history latest first) -/
theorem store_covers_history (hdim : ∀ s, D.dims s = n) (hist : List (S × Int)) :
    Covers uv ((D.bucketAfter hist).map E) (hist.map E) := by
  induction hist with
  | nil => intro p hp; simp at hp
  | cons q hist ih => exact query_covers D n hdim _ hist q ih

theorem store_sub_history (hist : List (S × Int)) : ∀ f ∈ D.bucketAfter hist, f ∈ hist := by
  induction hist with
  | nil => intro f hf; simp [DomRule.bucketAfter] at hf
  | cons q hist ih => exact query_sub D _ hist q ih

/-- **`dominated_iff`**: a state is reported dominated exactly when a previously presented state
    (same depth, same key) is at least as good in every coordinate (and in value when values are
    used) and strictly better somewhere. -/
theorem dominated_iff (hdim : ∀ s, D.dims s = n) (hist : List (S × Int)) (q : S × Int) :
    (D.bucketQuery q.1 q.2 (D.bucketAfter hist)).2.1 = true ↔ ∃ p ∈ hist, domEnt uv (E p) (E q) = true := by
  have hq : ∀ o, D.entQ q.1 o = E o := D.entQ_eq_entU n hdim q.1
  have hl : ∀ x y : S × Int, (E x).coords.length = (E y).coords.length := fun x y => by
    rw [D.entU_len, D.entU_len]
  rw [D.bucketQuery_dom, (D.retain_char q.1 q.2 _).1]
  simp only [hq]
  constructor
  · intro h
    obtain ⟨o, ho, hoq⟩ := List.any_eq_true.mp h
    exact ⟨o, store_sub_history D hist o ho, hoq⟩
  · rintro ⟨p, hp, hpq⟩
    obtain ⟨f, hf, hfp⟩ := store_covers_history D n hdim hist (E p) (List.mem_map.mpr ⟨p, hp, rfl⟩)
    obtain ⟨f0, hf0, rfl⟩ := List.mem_map.mp hf
    exact List.any_eq_true.mpr ⟨f0, hf0, ge_dom_trans (hl _ _) (hl _ _) hfp hpq⟩

/-- otherwise the state is recorded (with no threshold) … -/
theorem not_dominated_inserts (b : Bucket S) (q : S × Int) (h : (D.bucketQuery q.1 q.2 b).2.1 = false) :
    q ∈ (D.bucketQuery q.1 q.2 b).1 ∧ (D.bucketQuery q.1 q.2 b).2.2 = none := by
  rw [D.bucketQuery_dom] at h
  rw [D.bucketQuery_fst, D.bucketQuery_thr, h]
  simp

/-- … and every recorded state it dominates or equals is dropped -/
theorem insert_drops_dominated (hdim : ∀ s, D.dims s = n) (b : Bucket S) (q o : S × Int) (hob : o ∈ b)
    (hnd : (D.bucketQuery q.1 q.2 b).2.1 = false) (hge : geEnt uv (E q) (E o) = true) :
    o ∉ (D.retain q.1 q.2 b).2.2 := by
  have hq : ∀ o, D.entQ q.1 o = E o := D.entQ_eq_entU n hdim q.1
  obtain ⟨hdomc, hkept⟩ := D.retain_char q.1 q.2 b
  simp only [hq] at hdomc hkept
  have hqq : E (q.1, q.2) = E q := rfl
  rw [hqq] at hdomc hkept
  rw [D.bucketQuery_dom, hdomc] at hnd
  have hno : domEnt uv (E o) (E q) = false := by simpa using List.any_eq_false.mp hnd o hob
  rw [hkept, List.mem_filter]
  simp [keepPred, hno, hge]

/-- the store is always an antichain: no stored state is at least as good as another one -/
theorem store_antichain (hdim : ∀ s, D.dims s = n) (hist : List (S × Int)) :
    (D.bucketAfter hist).Pairwise (fun a b => geEnt uv (E a) (E b) = false ∧ geEnt uv (E b) (E a) = false) := by
  induction hist with
  | nil => simp [DomRule.bucketAfter]
  | cons q hist ih =>
    have hq : ∀ o, D.entQ q.1 o = E o := D.entQ_eq_entU n hdim q.1
    obtain ⟨hdomc, hkept⟩ := D.retain_char q.1 q.2 (D.bucketAfter hist)
    simp only [hq] at hdomc hkept
    have hqq : E (q.1, q.2) = E q := rfl
    rw [hqq] at hdomc hkept
    simp only [DomRule.bucketAfter]
    rw [D.bucketQuery_fst, hkept]
    have hfil := ih.sublist (List.filter_sublist (l := D.bucketAfter hist) (p := fun o => keepPred uv (E q) (E o)))
    split
    · exact hfil
    · next hnd =>
      rw [List.pairwise_append]
      refine ⟨hfil, by simp, ?_⟩
      intro a ha b hb
      have hbq : b = q := by simpa using hb
      rw [hbq]
      have hnd' : (D.retain q.1 q.2 (D.bucketAfter hist)).1 = false := by simpa using hnd
      rw [hdomc] at hnd'
      have ha' := List.mem_filter.mp ha
      have hnot : domEnt uv (E a) (E q) = false := by
        have := List.any_eq_false.mp hnd' a ha'.1
        simpa using this
      have hk := ha'.2
      simp only [keepPred, hnot, Bool.false_or, Bool.not_eq_true'] at hk
      refine ⟨?_, hk⟩
      -- a ≥ q together with ¬(q ≥ a) would be domination
      cases hge : geEnt uv (E a) (E q) with
      | false => rfl
      | true => simp [domEnt, hge, hk] at hnot

/-- two members of a pairwise-related list are equal or related (one way or the other) -/
theorem pairwise_mem {α : Type} {R : α → α → Prop} {l : List α} (hp : l.Pairwise R) {a b : α}
    (ha : a ∈ l) (hb : b ∈ l) : a = b ∨ R a b ∨ R b a := by
  induction l with
  | nil => cases ha
  | cons x xs ih =>
    rw [List.pairwise_cons] at hp
    rcases List.mem_cons.mp ha with ha' | ha' <;> rcases List.mem_cons.mp hb with hb' | hb'
    · exact Or.inl (ha'.trans hb'.symm)
    · rw [ha']; exact Or.inr (Or.inl (hp.1 b hb'))
    · rw [hb']; exact Or.inr (Or.inr (hp.1 a ha'))
    · exact ih hp.2 ha' hb'

/-- what the order sees of an entry: its coordinates, and its value only when values are used -/
def vis (useValue : Bool) (e : Ent) : List Int × Option Int := (e.coords, if useValue then some e.value else none)

/-- **`store_eq_pareto_front`**: as a set of coordinate/value vectors, the store is exactly the set of
    maximal (non-dominated) elements of everything presented so far — whatever the order of presentation. -/
theorem store_eq_pareto_front (hdim : ∀ s, D.dims s = n) (hist : List (S × Int)) (w : List Int × Option Int) :
    (∃ f ∈ D.bucketAfter hist, vis uv (E f) = w) ↔
    (∃ p ∈ hist, vis uv (E p) = w ∧ ∀ p' ∈ hist, domEnt uv (E p') (E p) = false) := by
  have hl : ∀ x y : S × Int, (E x).coords.length = (E y).coords.length := fun x y => by
    rw [D.entU_len, D.entU_len]
  have hanti := store_antichain D n hdim hist
  have hcov := store_covers_history D n hdim hist
  have hsub := store_sub_history D hist
  constructor
  · rintro ⟨f, hf, rfl⟩
    refine ⟨f, hsub f hf, rfl, fun p' hp' => ?_⟩
    cases hdom : domEnt uv (E p') (E f) with
    | false => rfl
    | true =>
      exfalso
      obtain ⟨g, hg, hgp⟩ := hcov (E p') (List.mem_map.mpr ⟨p', hp', rfl⟩)
      obtain ⟨g0, hg0, rfl⟩ := List.mem_map.mp hg
      have hgf : domEnt uv (E g0) (E f) = true := ge_dom_trans (hl _ _) (hl _ _) hgp hdom
      rcases pairwise_mem hanti hg0 hf with h | h | h
      · subst h; simp [domEnt_irrefl] at hgf
      · simp [domEnt, h.1] at hgf
      · simp [domEnt, h.2] at hgf
  · rintro ⟨p, hp, rfl, hmax⟩
    obtain ⟨f, hf, hfp⟩ := hcov (E p) (List.mem_map.mpr ⟨p, hp, rfl⟩)
    obtain ⟨f0, hf0, rfl⟩ := List.mem_map.mp hf
    refine ⟨f0, hf0, ?_⟩
    have hnd := hmax f0 (hsub f0 hf0)
    have hpf : geEnt uv (E p) (E f0) = true := by
      cases h : geEnt uv (E p) (E f0) with
      | true => rfl
      | false => simp [domEnt, hfp, h] at hnd
    -- mutual ≥ on vectors of equal length: equal coordinates and (when used) equal value
    have hc : (E f0).coords = (E p).coords := by
      simp only [geEnt, Bool.and_eq_true] at hfp hpf
      exact leB_antisymm (hl _ _) hpf.1 hfp.1
    cases huv : D.useValue with
    | false => simp [vis, hc]
    | true =>
      rw [huv] at hfp hpf
      simp only [geEnt, Bool.not_true, Bool.false_or, Bool.and_eq_true, decide_eq_true_eq] at hfp hpf
      have : (E f0).value = (E p).value := by omega
      simp [vis, hc, this]

/-- order independence: two histories with the same elements (e.g. permutations of each other, as
    produced by different linearisations of concurrent queries) leave the same Pareto front -/
theorem front_perm_invariant (hdim : ∀ s, D.dims s = n) (h1 h2 : List (S × Int)) (hperm : ∀ x, x ∈ h1 ↔ x ∈ h2)
    (w : List Int × Option Int) :
    (∃ f ∈ D.bucketAfter h1, vis uv (E f) = w) ↔ (∃ f ∈ D.bucketAfter h2, vis uv (E f) = w) := by
  rw [store_eq_pareto_front D n hdim h1 w, store_eq_pareto_front D n hdim h2 w]
  constructor
  · rintro ⟨p, hp, hw, hmax⟩
    exact ⟨p, (hperm p).mp hp, hw, fun p' hp' => hmax p' ((hperm p').mpr hp')⟩
  · rintro ⟨p, hp, hw, hmax⟩
    exact ⟨p, (hperm p).mpr hp, hw, fun p' hp' => hmax p' ((hperm p').mp hp')⟩

/-- **`threshold_sound`**: the threshold returned with a dominated verdict is at least the presented
    value, and the same state presented with any value up to it would be dominated too. -/
theorem threshold_sound (b : Bucket S) (s : S) (v : Int) (hv : InI v) (hvals : ∀ o ∈ b, InI o.2)
    (hd : (D.bucketQuery s v b).2.1 = true) :
    ∃ t, (D.bucketQuery s v b).2.2 = some t ∧ v ≤ t ∧
      ∀ v', v' ≤ t → (D.bucketQuery s v' b).2.1 = true := by
  obtain ⟨t, ht, hvt, _, hsound⟩ := D.retain_thr s v b hv hvals
  rw [D.bucketQuery_dom] at hd
  refine ⟨t, ?_, hvt, fun v' hv' => ?_⟩
  · rw [D.bucketQuery_thr, hd]; simpa using ht
  · rw [D.bucketQuery_dom, (D.retain_char s v' b).1]
    cases huv : D.useValue with
    | true =>
      obtain ⟨o, ho, h'⟩ := hsound hd huv
      exact List.any_eq_true.mpr ⟨o, ho, h' v' hv'⟩
    | false =>
      -- value unused: dominance does not depend on the presented value
      rw [(D.retain_char s v b).1, huv] at hd
      obtain ⟨o, ho, h'⟩ := List.any_eq_true.mp hd
      exact List.any_eq_true.mpr ⟨o, ho, by simpa [domEnt, geEnt, DomRule.entQ, DomRule.ent] using h'⟩

/-- **`cmp_of_dominates`**: the sorting comparator ranks a dominating state first
    (`cmp a b = Greater`, so the descending sort of `_filter_with_dominance` presents it earlier). -/
theorem lexLoop_of_le (as bs : List Int) (hlen : as.length = bs.length) (hle : leB bs as = true) (hne : leB as bs = false) :
    lexLoop as bs = .gt := by
  induction as generalizing bs with
  | nil => cases bs <;> simp [leB] at hne
  | cons a as ih =>
    cases bs with
    | nil => simp at hlen
    | cons b bs =>
      simp only [leB, Bool.and_eq_true, decide_eq_true_eq, Bool.and_eq_false_iff, decide_eq_false_iff_not,
        List.length_cons, Nat.add_right_cancel_iff] at *
      rcases Int.lt_or_eq_of_le hle.1 with h | h
      · simp [lexLoop, icompare_gt h]
      · rcases hne with hne | hne
        · omega
        · simp only [lexLoop, icompare_eq h.symm]; exact ih bs hlen hle.2 hne

theorem cmp_of_dominates (hdim : ∀ s, D.dims s = n) (a : S) (va : Int) (b : S) (vb : Int)
    (h : domEnt uv (E (a, va)) (E (b, vb)) = true) : D.cmp a va b vb = .gt := by
  have hlen : (D.coordsN n a).length = (D.coordsN n b).length := by simp [DomRule.coordsN_len]
  simp only [DomRule.cmp, hdim a]
  cases huv : D.useValue with
  | false =>
    rw [huv] at h
    simp only [domEnt, geEnt, DomRule.entU, DomRule.ent, Bool.not_false, Bool.true_or, Bool.and_true,
      Bool.and_eq_true, Bool.not_eq_true'] at h
    simp only [Bool.false_eq_true, if_false]
    exact lexLoop_of_le _ _ hlen h.1 h.2
  | true =>
    rw [huv] at h
    simp only [domEnt, geEnt, DomRule.entU, DomRule.ent, Bool.not_true, Bool.false_or,
      Bool.and_eq_true, Bool.not_eq_true', Bool.and_eq_false_iff] at h
    obtain ⟨⟨hc, hvle⟩, h2⟩ := h
    have hvle' : vb ≤ va := of_decide_eq_true hvle
    simp only [if_true]
    rcases Int.lt_or_eq_of_le hvle' with hlt | heq
    · simp [icompare_gt hlt]
    · simp only [icompare_eq heq.symm]
      rcases h2 with h2 | h2
      · exact lexLoop_of_le _ _ hlen hc h2
      · have : ¬ va ≤ vb := of_decide_eq_false h2
        omega

end bucket

/-! ## Frame: a query only touches the bucket of its own `(depth, key)` -/
variable [DecidableEq K]

theorem DLayer.find_put_same (l : DLayer S K) (k : K) (b : Bucket S) : (l.put k b).find k = some b := by
  induction l with
  | nil => simp [DLayer.put, DLayer.find]
  | cons p r ih =>
    obtain ⟨k', b'⟩ := p
    by_cases h : k' = k <;> simp [DLayer.put, DLayer.find, h, ih]

theorem DLayer.find_put_other (l : DLayer S K) (k k2 : K) (b : Bucket S) (hne : k2 ≠ k) :
    (l.put k b).find k2 = l.find k2 := by
  induction l with
  | nil => simp [DLayer.put, DLayer.find]; intro h; exact absurd h.symm hne
  | cons p r ih =>
    obtain ⟨k', b'⟩ := p
    by_cases h : k' = k
    · subst h
      have : ¬ k' = k2 := fun h' => hne h'.symm
      simp [DLayer.put, DLayer.find, this]
    · by_cases h2 : k' = k2
      · subst h2; simp [DLayer.put, DLayer.find, h]
      · simp [DLayer.put, DLayer.find, h, h2, ih]

/-- the bucket of `(d, k)` in the store -/
def bucketOf (st : DomStore S K) (d : Nat) (k : K) : Bucket S :=
  match st.layers[d]? with
  | none => []
  | some l => (l.find k).getD []

/-- **`query_refines_bucket`**: at store level a query behaves as `bucketQuery` on the bucket of its own
    `(depth, key)` (a vacant entry behaves as the empty bucket) and leaves every other bucket unchanged. -/
theorem query_refines_bucket (D : DomRule S K) (st st' : DomStore S K) (s : S) (d : Nat) (v : Int) (k : K)
    (dom : Bool) (thr : Option Int) (hk : D.key s = some k)
    (h : DomStore.query D st s d v = some (st', dom, thr)) :
    (bucketOf st' d k, dom, thr) = D.bucketQuery s v (bucketOf st d k) ∧
    ∀ d2 k2, (d2 ≠ d ∨ k2 ≠ k) → bucketOf st' d2 k2 = bucketOf st d2 k2 := by
  simp only [DomStore.query, hk] at h
  cases hl : st.layers[d]? with
  | none => simp [hl] at h
  | some l =>
    have hd : d < st.layers.length := by
      rcases Nat.lt_or_ge d st.layers.length with h' | h'
      · exact h'
      · rw [List.getElem?_eq_none_iff.mpr h'] at hl; cases hl
    simp only [hl] at h
    have frame : ∀ (b' : Bucket S) d2 k2, (d2 ≠ d ∨ k2 ≠ k) →
        bucketOf ⟨st.layers.set d (l.put k b')⟩ d2 k2 = bucketOf st d2 k2 := by
      intro b' d2 k2 hne
      by_cases hdd : d2 = d
      · subst hdd
        have hk2 : k2 ≠ k := by rcases hne with h' | h'; exact absurd rfl h'; exact h'
        simp [bucketOf, List.getElem?_set_self hd, hl, DLayer.find_put_other _ _ _ _ hk2]
      · simp only [bucketOf]; rw [List.getElem?_set_ne (fun h' => hdd h'.symm)]
    cases hf : l.find k with
    | none =>
      simp only [hf, Option.some.injEq, Prod.mk.injEq] at h
      obtain ⟨h1, h2, h3⟩ := h
      subst h1; subst h2; subst h3
      refine ⟨?_, frame _⟩
      simp [bucketOf, List.getElem?_set_self hd, hl, hf, DLayer.find_put_same, DomRule.bucketQuery, DomRule.retain]
    | some b =>
      simp only [hf, Option.some.injEq, Prod.mk.injEq] at h
      obtain ⟨h1, h2, h3⟩ := h
      subst h1; subst h2; subst h3
      refine ⟨?_, frame _⟩
      simp [bucketOf, List.getElem?_set_self hd, hl, hf, DLayer.find_put_same]

/-- a state without key is never dominated and never recorded -/
theorem query_no_key (D : DomRule S K) (st : DomStore S K) (s : S) (d : Nat) (v : Int) (hk : D.key s = none) :
    DomStore.query D st s d v = some (st, false, none) := by
  simp [DomStore.query, hk]

/-! The solver-level sentence (formerly the named hypothesis `DomPruneOk`) is decided in `Props/C10b.lean`
    (`dominance_solver_optimal`, `Cyc.finding`) and, together with the threshold cache, in `Props/C10c.lean`. -/

/-! non-vacuity: a concrete rule (2 coordinates, value used) and a concrete history -/
def exRule : DomRule (List Int) Nat := { key := fun _ => some 0, dims := fun _ => 2, coord := fun s i => s.getD i 0, useValue := true }
example : ∀ s, exRule.dims s = 2 := fun _ => rfl
example : (exRule.bucketQuery [1, 1] 5 (exRule.bucketAfter [([2, 1], 7), ([0, 0], 9)])).2 = (true, some 7) := by decide
example : (exRule.bucketQuery [2, 1] 5 (exRule.bucketAfter [([2, 1], 7), ([0, 0], 9)])).2 = (true, some 6) := by decide
example : (exRule.bucketQuery [3, 0] 5 (exRule.bucketAfter [([2, 1], 7), ([0, 0], 9)])).2 = (false, none) := by decide

end Ddo.C10
