import DdoModel.Proofs.MddTruth
import DdoModel.Props.C06
import DdoModel.Props.C07
/-! # C07, remaining clauses — exact-mode and restricted compilations that declare themselves exact are truthful

* `Ddo.C07.exact_mode_opt` — a compilation in `Exact` mode carried out in isolation (no cache, no dominance checker), **any
  width** (the width is never read in exact mode), any incumbent `lb`: if the optimum `o` of the root sub-problem beats
  `lb`, the diagram declares itself exact and reports `best_value = best_exact_value = o` together with a feasible complete
  solution of value `o` (`Ddo.Truth.Truthful`: `bestSol` and `bestExactSol` are `root.path ++ q.reverse` where `p0 ++ q`
  is a path of the model from the problem root to a complete state, of value `o`).
* `Ddo.C07.restricted_exact_truthful` — the same for a restricted compilation whose result has `is_exact() = true`
  (`r` is either admissible result of `compile`; they coincide for non-relaxed compilations).
* `Ddo.C07.nonrelaxed_le_opt` / `exact_mode_le` — the "otherwise" clause: whatever the incumbent, the cache and the dominance
  checker, a value reported by a restricted / exact compilation is the value of a complete path through the root
  sub-problem, hence `≤` its optimum; if the root sub-problem has no completion (`optOf = none`) nothing is reported.
* `_rel` forms: well-formedness relative to a layer-validity predicate `V` (`Ddo.Truth.WfX` = merge-free part of `WfRel`,
  `Ddo.Truth.LowRel` = `Potential.le` / `Potential.term` on valid states).  Neither `MergeOk` nor `AttMerge` is needed.

Proof (`DdoModel/Proofs/MddTruth.lean`): `is_exact` of a non-relaxed compilation is `lel.is_none()`; `lel` is monotone, so no
layer was squashed; then (upper direction) the coverage invariant `Ddo.Cover.Inv` of C06 is preserved by every step
(`buildLoop_cover_x`), and (lower direction) every terminal node is exact (`Inv2.lelNone`), hence `Reach`ed
(`MInv`), hence of value `≤ o` (`reach_le`: `Potential.le` along the extension of the root path).

Hypotheses and why they are needed:
* `hcache`, `hdom` (isolation): the cache and the dominance checker prune nodes on the strength of *other* compilations
  without unsetting `is_exact`; counter-example `CounterCache` below (machine-checked): the cache holds an explored threshold for the
  only child of the root, the restricted compilation prunes it, ends with an empty terminal layer, `is_exact = true`,
  `best_value = none` although `o = 1 > lb = 0`.
* `hroot`: `Potential.le` only speaks about states reached exactly from the problem root, so `o = optOf H root` is only
  known to bound the completions of a *reachable* root sub-problem (same hypothesis as in `restricted_sound`).
* `hB : NoClamp` (no `isize` saturation on path values), `hlb : InI lb`, `hO : o ≤ iMax ∨ lb < iMax` (the saturated rough upper bound
  test can see that `o` beats `lb`; counter-example `Ddo.C06.CounterB`, which does not depend on the compilation type).
* `RubOk`: rough-upper-bound pruning against `lb` is active in every mode. -/
namespace Ddo.C07
open Ddo Ddo.Truth
variable {S K : Type} [DecidableEq S] [DecidableEq K]

/-- **exact mode, relativised form** -/
theorem exact_mode_opt_rel (cfg : Cfg S K) (H : Nat → S → EInt) (V : Nat → S → Prop) (B o : Int) (p0 : List Dec)
    (cache : Cache S) (store : DomStore S K) (polls : Nat)
    (hx : cfg.ctype = .exact) (hcache : cfg.useCache = false) (hdom : cfg.dom = none)
    (hwf : WfX cfg.P cfg.R H V) (hL : LowRel cfg.P H V) (hV : V cfg.root.depth cfg.root.state)
    (hB : NoClamp cfg.P cfg.R cfg.root.value B) (hlb : InI cfg.lb)
    (hroot : Reach cfg.P cfg.root.depth cfg.root.state cfg.root.value p0)
    (ho : optOf H cfg.root = some o) (hgt : o > cfg.lb) (hO : o ≤ iMax ∨ cfg.lb < iMax)
    (hok : (compile cfg cache store polls none).1 = .ok) :
    (compile cfg cache store polls none).2.1.isExact = true ∧
    Truthful cfg p0 o (compile cfg cache store polls none).2.1 ∧
    (compile cfg cache store polls none).2.2.1 = none := by
  obtain ⟨_, hdd, _⟩ := compile_ok cfg cache store polls none hok
  have hlel : (compile cfg cache store polls none).2.2.2.lel = none := by
    rw [hdd]; exact buildLoop_lel_exact cfg hx none _ _ rfl
  obtain ⟨h1, h2⟩ := compile_unsquashed cfg H V B o p0 cache store polls hcache hdom hwf hL hV hB hlb hroot ho hgt hO hok
    hlel _ (.inl rfl)
  refine ⟨h1, h2, ?_⟩
  -- the two admissible results coincide: `relaxed = false`
  unfold compile at hok ⊢
  generalize buildLoop cfg none (cfg.P.nbVars + 2) (initDD cfg cache store polls) = bl at hok ⊢
  obtain ⟨dd, oc⟩ := bl
  cases oc
  · have e2 : (cfg.ctype == CompType.relaxed) = false := by rw [hx]; decide
    simp [e2, Built.ebpMust, Built.ebpMay]
  · cases hok
  · cases hok

/-- **exact mode**: `Potential` + `RubOk`, any width -/
theorem exact_mode_opt (cfg : Cfg S K) (H : Nat → S → EInt) (B o : Int) (p0 : List Dec)
    (cache : Cache S) (store : DomStore S K) (polls : Nat)
    (hx : cfg.ctype = .exact) (hcache : cfg.useCache = false) (hdom : cfg.dom = none)
    (hP : Potential cfg.P H) (hR : RubOk cfg.R H)
    (hB : NoClamp cfg.P cfg.R cfg.root.value B) (hlb : InI cfg.lb)
    (hroot : Reach cfg.P cfg.root.depth cfg.root.state cfg.root.value p0)
    (ho : optOf H cfg.root = some o) (hgt : o > cfg.lb) (hO : o ≤ iMax ∨ cfg.lb < iMax)
    (hok : (compile cfg cache store polls none).1 = .ok) :
    (compile cfg cache store polls none).2.1.isExact = true ∧
    Truthful cfg p0 o (compile cfg cache store polls none).2.1 ∧
    (compile cfg cache store polls none).2.2.1 = none :=
  exact_mode_opt_rel cfg H (fun _ _ => True) B o p0 cache store polls hx hcache hdom (wfX_of_potential hP hR)
    (lowRel_of_potential hP) trivial hB hlb hroot ho hgt hO hok

/-- the headline of `exact_mode_opt`, unfolded: the best value is the optimum, and the reported solution is a feasible
    complete solution of that value (same shape as `restricted_sound`) -/
theorem exact_mode_opt_value (cfg : Cfg S K) (H : Nat → S → EInt) (B o : Int) (p0 : List Dec)
    (cache : Cache S) (store : DomStore S K) (polls : Nat)
    (hx : cfg.ctype = .exact) (hcache : cfg.useCache = false) (hdom : cfg.dom = none)
    (hP : Potential cfg.P H) (hR : RubOk cfg.R H)
    (hB : NoClamp cfg.P cfg.R cfg.root.value B) (hlb : InI cfg.lb)
    (hroot : Reach cfg.P cfg.root.depth cfg.root.state cfg.root.value p0)
    (ho : optOf H cfg.root = some o) (hgt : o > cfg.lb) (hO : o ≤ iMax ∨ cfg.lb < iMax)
    (hok : (compile cfg cache store polls none).1 = .ok) :
    (compile cfg cache store polls none).2.1.bestValue = some o ∧
    ∃ (k : Nat) (s : S) (q : List Dec) (L : List S),
      Reach cfg.P k s o (p0 ++ q) ∧ s ∈ L ∧ cfg.P.nextVar k L = none ∧
      (compile cfg cache store polls none).2.1.bestSol = some (cfg.root.path ++ q.reverse) :=
  have h := (exact_mode_opt cfg H B o p0 cache store polls hx hcache hdom hP hR hB hlb hroot ho hgt hO hok).2.1
  ⟨h.bestValue, h.sol⟩

/-- **restricted compilation that declares itself exact, relativised form**; `r` is either admissible result -/
theorem restricted_exact_truthful_rel (cfg : Cfg S K) (H : Nat → S → EInt) (V : Nat → S → Prop) (B o : Int) (p0 : List Dec)
    (cache : Cache S) (store : DomStore S K) (polls : Nat)
    (hres : cfg.ctype = .restricted) (hcache : cfg.useCache = false) (hdom : cfg.dom = none)
    (hwf : WfX cfg.P cfg.R H V) (hL : LowRel cfg.P H V) (hV : V cfg.root.depth cfg.root.state)
    (hB : NoClamp cfg.P cfg.R cfg.root.value B) (hlb : InI cfg.lb)
    (hroot : Reach cfg.P cfg.root.depth cfg.root.state cfg.root.value p0)
    (ho : optOf H cfg.root = some o) (hgt : o > cfg.lb) (hO : o ≤ iMax ∨ cfg.lb < iMax)
    (hok : (compile cfg cache store polls none).1 = .ok) (r : Result S)
    (hr : r = (compile cfg cache store polls none).2.1 ∨ (compile cfg cache store polls none).2.2.1 = some r)
    (hex : r.isExact = true) : Truthful cfg p0 o r := by
  obtain ⟨_, hdd, e, he, hre⟩ := compile_results' cfg cache store polls none hok r hr
  have e2 : (cfg.ctype == CompType.relaxed) = false := by rw [hres]; decide
  rw [e2] at he
  have he' : e = false := by rcases he with h | h <;> exact h
  have hlel : (compile cfg cache store polls none).2.2.2.lel = none := by
    rw [hdd]
    rw [hre, finalize_isExact, he', Bool.or_false] at hex
    exact Option.isNone_iff_eq_none.mp hex
  exact (compile_unsquashed cfg H V B o p0 cache store polls hcache hdom hwf hL hV hB hlb hroot ho hgt hO hok hlel r hr).2

/-- **restricted compilation that declares itself exact**: `Potential` + `RubOk` -/
theorem restricted_exact_truthful (cfg : Cfg S K) (H : Nat → S → EInt) (B o : Int) (p0 : List Dec)
    (cache : Cache S) (store : DomStore S K) (polls : Nat)
    (hres : cfg.ctype = .restricted) (hcache : cfg.useCache = false) (hdom : cfg.dom = none)
    (hP : Potential cfg.P H) (hR : RubOk cfg.R H)
    (hB : NoClamp cfg.P cfg.R cfg.root.value B) (hlb : InI cfg.lb)
    (hroot : Reach cfg.P cfg.root.depth cfg.root.state cfg.root.value p0)
    (ho : optOf H cfg.root = some o) (hgt : o > cfg.lb) (hO : o ≤ iMax ∨ cfg.lb < iMax)
    (hok : (compile cfg cache store polls none).1 = .ok) (r : Result S)
    (hr : r = (compile cfg cache store polls none).2.1 ∨ (compile cfg cache store polls none).2.2.1 = some r)
    (hex : r.isExact = true) : Truthful cfg p0 o r :=
  restricted_exact_truthful_rel cfg H (fun _ _ => True) B o p0 cache store polls hres hcache hdom (wfX_of_potential hP hR)
    (lowRel_of_potential hP) trivial hB hlb hroot ho hgt hO hok r hr hex

/-- the headline: `best_value = OPT_N` -/
theorem restricted_exact_value (cfg : Cfg S K) (H : Nat → S → EInt) (B o : Int) (p0 : List Dec)
    (cache : Cache S) (store : DomStore S K) (polls : Nat)
    (hres : cfg.ctype = .restricted) (hcache : cfg.useCache = false) (hdom : cfg.dom = none)
    (hP : Potential cfg.P H) (hR : RubOk cfg.R H)
    (hB : NoClamp cfg.P cfg.R cfg.root.value B) (hlb : InI cfg.lb)
    (hroot : Reach cfg.P cfg.root.depth cfg.root.state cfg.root.value p0)
    (ho : optOf H cfg.root = some o) (hgt : o > cfg.lb) (hO : o ≤ iMax ∨ cfg.lb < iMax)
    (hok : (compile cfg cache store polls none).1 = .ok)
    (hex : (compile cfg cache store polls none).2.1.isExact = true) :
    (compile cfg cache store polls none).2.1.bestValue = some o :=
  (restricted_exact_truthful cfg H B o p0 cache store polls hres hcache hdom hP hR hB hlb hroot ho hgt hO hok _ (.inl rfl)
    hex).bestValue

/-- **the "otherwise" clause** (any incumbent, any cache / dominance configuration, any cutoff): a value reported by a
    restricted or exact compilation never exceeds the optimum of the root sub-problem, which is then not `−∞` -/
theorem nonrelaxed_le_opt (cfg : Cfg S K) (H : Nat → S → EInt) (B : Int) (p0 : List Dec)
    (cache : Cache S) (store : DomStore S K) (polls : Nat) (stopAt : Option Nat)
    (hty : cfg.ctype = .restricted ∨ cfg.ctype = .exact) (hP : Potential cfg.P H)
    (hroot : Reach cfg.P cfg.root.depth cfg.root.state cfg.root.value p0)
    (hB : NoClamp cfg.P cfg.R cfg.root.value B)
    (hok : (compile cfg cache store polls stopAt).1 = .ok) (w : Int)
    (hw : (compile cfg cache store polls stopAt).2.1.bestValue = some w) :
    ∃ x, optOf H cfg.root = some x ∧ w ≤ x :=
  Truth.nonrelaxed_le_opt cfg H (fun _ _ => True) B p0 cache store polls stopAt hty (lowRel_of_potential hP) trivial hroot hB
    hok w hw

/-- exact mode when the optimum does not beat the incumbent: whatever is reported is `≤ o ≤ lb` (irrelevant to the
    caller); and nothing is reported for a sub-problem without completion -/
theorem exact_mode_le (cfg : Cfg S K) (H : Nat → S → EInt) (B : Int) (p0 : List Dec)
    (cache : Cache S) (store : DomStore S K) (polls : Nat) (stopAt : Option Nat)
    (hx : cfg.ctype = .exact) (hP : Potential cfg.P H)
    (hroot : Reach cfg.P cfg.root.depth cfg.root.state cfg.root.value p0)
    (hB : NoClamp cfg.P cfg.R cfg.root.value B)
    (hok : (compile cfg cache store polls stopAt).1 = .ok) :
    (∀ o, optOf H cfg.root = some o → o ≤ cfg.lb →
      ∀ w, (compile cfg cache store polls stopAt).2.1.bestValue = some w → w ≤ cfg.lb) ∧
    (optOf H cfg.root = none → (compile cfg cache store polls stopAt).2.1.bestValue = none) := by
  refine ⟨fun o ho hle w hw => ?_, fun hn => ?_⟩
  · obtain ⟨x, hx', hwx⟩ := nonrelaxed_le_opt cfg H B p0 cache store polls stopAt (.inr hx) hP hroot hB hok w hw
    rw [ho] at hx'; cases hx'; omega
  · cases hbv : (compile cfg cache store polls stopAt).2.1.bestValue with
    | none => rfl
    | some w =>
      obtain ⟨x, hx', _⟩ := nonrelaxed_le_opt cfg H B p0 cache store polls stopAt (.inr hx) hP hroot hB hok w hbv
      rw [hn] at hx'; cases hx'

/-! ## non-vacuity: the tiny model of `Props/C06.lean` (three binary variables, optimum 3) -/
namespace Tiny
open Ddo.C06.Tiny

/-- exact mode, width 1 (ignored) -/
def cfgX : Cfg Int Unit := { Ddo.C06.Tiny.cfg with ctype := .exact }
/-- restricted, width 4: nothing is dropped (layers have at most 4 nodes) -/
def cfgR : Cfg Int Unit := { Ddo.C06.Tiny.cfg with ctype := .restricted, width := 4 }

example : (compile cfgX (Cache.init 3) (DomStore.init 3) 0 none).2.1.bestValue = some 3 :=
  (exact_mode_opt cfgX H 1 3 [] (Cache.init 3) (DomStore.init 3) 0 rfl rfl rfl potential rubOk noClamp (by decide)
    .root rfl (by decide) (Or.inl (by decide)) (by decide)).2.1.bestValue

example : (compile cfgR (Cache.init 3) (DomStore.init 3) 0 none).2.1.bestValue = some 3 :=
  restricted_exact_value cfgR H 1 3 [] (Cache.init 3) (DomStore.init 3) 0 rfl rfl rfl potential rubOk noClamp (by decide)
    .root rfl (by decide) (Or.inl (by decide)) (by decide) (by decide)

/-- the premise `is_exact` is not vacuous the other way either: with width 1 the restricted compilation drops nodes,
    reports `is_exact = false` -/
example : (compile { cfgR with width := 1 } (Cache.init 3) (DomStore.init 3) 0 none).2.1.isExact = false := by decide

end Tiny

/-! ## isolation is necessary: a cache entry makes a restricted compilation "exact" and wrong -/
namespace CounterCache

/-- two variables with the single value 1, cost 1 each, state = number of decisions taken; the optimum is 2 -/
def prob : Problem Int :=
  { nbVars := 2, init := 0, initVal := 0,
    trans := fun s d => s + d.val,
    cost := fun _ _ d => if d.val = 1 then 1 else 0,
    nextVar := fun k _ => if k < 2 then some k else none,
    domain := fun _ _ => [1],
    impacted := fun _ _ => true }

def rlx : Relax Int := { merge := fun _ => 0, relax := fun _ _ _ _ c => c, rub := fun _ => 2 }

def cfg : Cfg Int Unit :=
  { P := prob, R := rlx, rank := ⟨fun a b => icmp a b⟩, dom := none, useCache := true, kind := .lel,
    ctype := .restricted, width := 10, root := ⟨0, 0, [], iMax, 0⟩, lb := 0 }

def H (k : Nat) (_ : Int) : EInt := some ((2 - k : Nat) : Int)

/-- the cache knows state `1` at depth `1` with an explored threshold of value 5 (left there by another compilation) -/
def cache : Cache Int := ⟨[[], [(1, ⟨5, true⟩)], []]⟩

theorem nv_some {k : Nat} {L : List Int} {x : Nat} (h : prob.nextVar k L = some x) : k < 2 ∧ x = k := by
  simp only [prob] at h
  split at h
  · next hk => cases h; exact ⟨hk, rfl⟩
  · cases h

theorem potential : Potential prob H := by
  constructor
  · intro k L x s h hnv _ hH
    obtain ⟨hk, hx⟩ := nv_some hnv; subst x
    refine ⟨1, by simp [prob], ((2 - (k + 1) : Nat) : Int), rfl, ?_⟩
    simp only [H, Option.some.injEq] at hH
    show h ≤ (if (1 : Int) = 1 then 1 else 0) + ((2 - (k + 1) : Nat) : Int)
    rw [if_pos rfl]
    omega
  · intro k L x s v p d _ hnv _ hd
    obtain ⟨hk, hx⟩ := nv_some hnv; subst x
    simp only [H, EInt.addI, Option.map_some, EInt.some_le_some, prob]
    split <;> omega
  · intro k L s hnv _
    simp only [prob] at hnv
    split at hnv
    · cases hnv
    · next hk => simp only [H]; congr 1; omega

theorem rubOk : RubOk rlx H := by
  intro k s h hH
  simp only [H, Option.some.injEq] at hH
  simp only [rlx]; omega

theorem noClamp : NoClamp prob rlx cfg.root.value 1 := by
  constructor
  · decide
  · decide
  · intro s s' d; simp only [prob]; split <;> omega
  · intro s u m d c hc; exact hc
  · decide

/-- every hypothesis of `restricted_exact_truthful` except `useCache = false` holds (`o = 2 > lb = 0`); the only node of the
    second layer is pruned by the cache, the terminal layer is empty: `is_exact = true` and `best_value = none` -/
theorem counter :
    cfg.ctype = .restricted ∧ cfg.dom = none ∧ Potential cfg.P H ∧ RubOk cfg.R H ∧
    NoClamp cfg.P cfg.R cfg.root.value 1 ∧ InI cfg.lb ∧
    Reach cfg.P cfg.root.depth cfg.root.state cfg.root.value [] ∧
    optOf H cfg.root = some 2 ∧ 2 > cfg.lb ∧ ((2 : Int) ≤ iMax ∨ cfg.lb < iMax) ∧
    (compile cfg cache (DomStore.init 2) 0 none).1 = .ok ∧
    (compile cfg cache (DomStore.init 2) 0 none).2.1.isExact = true ∧
    (compile cfg cache (DomStore.init 2) 0 none).2.1.bestValue = none :=
  ⟨rfl, rfl, potential, rubOk, noClamp, by decide, .root, rfl, by decide, Or.inl (by decide), by decide, by decide, by decide⟩

/-- without the cache entry the same compilation is truthful -/
example : (compile { cfg with useCache := false } cache (DomStore.init 2) 0 none).2.1.bestValue = some 2 :=
  restricted_exact_value { cfg with useCache := false } H 1 2 [] cache (DomStore.init 2) 0 rfl rfl rfl potential rubOk noClamp
    (by decide) .root rfl (by decide) (Or.inl (by decide)) (by decide) (by decide)

end CounterCache

/-! ## `hO` is necessary in exact mode too: the model `Ddo.C06.CounterB` (`lb = isize::MAX`, `o = 2^63`) -/
namespace CounterClamp
open Ddo.C06.CounterB

def cfgX : Cfg Int Unit := { Ddo.C06.CounterB.cfg with ctype := .exact }

/-- every hypothesis of `exact_mode_opt` except `hO` holds; the root is pruned by the saturated rough-upper-bound test, the
    diagram is "exact" and empty -/
theorem counter :
    cfgX.ctype = .exact ∧ cfgX.useCache = false ∧ cfgX.dom = none ∧ Potential cfgX.P H ∧ RubOk cfgX.R H ∧
    NoClamp cfgX.P cfgX.R cfgX.root.value 0 ∧ InI cfgX.lb ∧
    Reach cfgX.P cfgX.root.depth cfgX.root.state cfgX.root.value [] ∧
    optOf H cfgX.root = some big ∧ big > cfgX.lb ∧
    (compile cfgX (Cache.init 1) (DomStore.init 1) 0 none).1 = .ok ∧
    (compile cfgX (Cache.init 1) (DomStore.init 1) 0 none).2.1.isExact = true ∧
    (compile cfgX (Cache.init 1) (DomStore.init 1) 0 none).2.1.bestValue = none :=
  ⟨rfl, rfl, rfl, potential, rubOk, noClamp, by decide, .root, rfl, by decide, by decide, by decide, by decide⟩

end CounterClamp

end Ddo.C07

#print axioms Ddo.C07.exact_mode_opt_rel
#print axioms Ddo.C07.exact_mode_opt
#print axioms Ddo.C07.exact_mode_opt_value
#print axioms Ddo.C07.restricted_exact_truthful_rel
#print axioms Ddo.C07.restricted_exact_truthful
#print axioms Ddo.C07.restricted_exact_value
#print axioms Ddo.C07.nonrelaxed_le_opt
#print axioms Ddo.C07.exact_mode_le
#print axioms Ddo.C07.CounterCache.counter
#print axioms Ddo.C07.CounterClamp.counter
