import DdoModel.Proofs.FringeInv
/-! # C11, stage 2 — the indexed heap of `NoDupFringe` keeps its invariants and refines `KeyedPQ`

Everything that `Props/C11.lean` only *stated* (`NoDupInvariantInductive`, `NoDupRefinesKeyed`) or
*checked at run time* (`NoDup.wfB`, `NoDup.heapOrdB`) is proved here for the executable model `NoDup`
(`DdoModel/Fringe.lean`, unchanged).  Proofs: `DdoModel/Proofs/FringeInv.lean`.  Core Lean only, no
`sorry`, no extra axioms (see the `#print axioms` at the end).

**Hypothesis on the state ranking** — `RankOK rank`:
`trans : ∀ x y z, rank x y ≠ .gt → rank y z ≠ .gt → rank x z ≠ .gt` and
`flip : ∀ x y, rank x y = .gt → rank y x = .lt`.
It follows from the "total preorder" wording (`RankOK.of_total_preorder`), `icmp` satisfies it
(`icmp_rankOK`), and it is needed: without `flip` the invariant is *not* inductive
(`NoDupInvariantInductive_literal_false`).  Refinement and absence of crashes need nothing of `rank`.

**Invariant** — `NoDup.Inv rank f := f.WF ∧ f.HeapOrd rank`, where `NoDup.WF` is a `Prop` structure;
`Inv` is *equivalent* to the Boolean checks of the driver (`inv_iff_checked`). -/
namespace Ddo.C11

section
variable (rank : Int → Int → Ordering)

/-! ## the invariant is what the driver checks -/

theorem inv_iff_checked (f : NoDup) :
    f.Inv rank ↔ (f.wfB = true ∧ f.heapOrdB rank = true) := inv_iff_bool rank f

/-! ## 1. invariant preservation and absence of crashes -/

theorem inv_empty : NoDup.empty.Inv rank := Ddo.inv_empty rank

theorem inv_clear (f : NoDup) : f.clear.Inv rank := Ddo.inv_clear rank f

theorem inv_push (hr : RankOK rank) (f f' : NoDup) (x : Sub) (hI : f.Inv rank)
    (h : f.push rank x = some f') : f'.Inv rank := Ddo.inv_push rank hr f f' x hI h

theorem inv_pop (hr : RankOK rank) (f f' : NoDup) (o : Option Sub) (hI : f.Inv rank)
    (h : f.pop rank = some (f', o)) : f'.Inv rank := Ddo.inv_pop rank hr f f' o hI h

/-- the model answers `none` exactly where the Rust code would index out of range: never, on a
    well-formed fringe -/
theorem push_no_crash (f : NoDup) (x : Sub) (hI : f.Inv rank) : ∃ f', f.push rank x = some f' :=
  Ddo.push_no_crash rank f x hI

theorem pop_no_crash (f : NoDup) (hI : f.Inv rank) : ∃ r, f.pop rank = some r :=
  Ddo.pop_no_crash rank f hI

/-- every state reachable from `empty` by `push` / `pop` / `clear` satisfies the invariant -/
theorem reachable_inv (hr : RankOK rank) (f : NoDup) (h : NoDup.Reach rank f) : f.Inv rank :=
  reach_inv hr h

/-- the fuel never cuts the loops short: any amount above `me` (resp. `heap.length - me`) yields
    the same result, in particular `heap.length + 1`, the amount the model passes -/
theorem bubbleUp_fuel_irrelevant (fuel fuel' : Nat) (f : NoDup) (me : Nat) (hC : f.Coh)
    (hme : me < f.heap.length) (h1 : me < fuel) (h2 : me < fuel') :
    f.bubbleUpAt rank me fuel = f.bubbleUpAt rank me fuel' :=
  bubbleUpAt_fuel rank fuel fuel' f me hC hme h1 h2

theorem bubbleDown_fuel_irrelevant (fuel fuel' : Nat) (f : NoDup) (me : Nat) (hC : f.Coh)
    (h1 : f.heap.length - me < fuel) (h2 : f.heap.length - me < fuel') :
    f.bubbleDownAt rank me fuel = f.bubbleDownAt rank me fuel' :=
  bubbleDownAt_fuel rank fuel fuel' f me hC h1 h2

/-- what the two loops achieve (no failure, only a permutation of `heap` with `pos` kept its
    inverse, heap order restored from the one-defect shape) -/
theorem bubbleUp_correct (fuel : Nat) (f : NoDup) (me : Nat) (hC : f.Coh) (hme : me < f.heap.length) :
    ∃ f', f.bubbleUpAt rank me fuel = some f' ∧ f'.Coh ∧ f.Same f' ∧
      (RankOK rank → me < fuel → HeapF.HeapExcept (subLe rank) f.heap.length f.val me →
        HeapF.Heap (subLe rank) f'.heap.length f'.val) := bubbleUpAt_spec rank fuel f me hC hme

theorem bubbleDown_correct (fuel : Nat) (f : NoDup) (me : Nat) (hC : f.Coh) :
    ∃ f', f.bubbleDownAt rank me fuel = some f' ∧ f'.Coh ∧ f.Same f' ∧
      (RankOK rank → f.heap.length - me < fuel →
        HeapF.HeapExceptDown (subLe rank) f.heap.length f.val me →
        HeapF.Heap (subLe rank) f'.heap.length f'.val) := bubbleDownAt_spec rank fuel f me hC

/-! ## 2. refinement of the keyed priority queue -/

/-- the keys of the live nodes are pairwise distinct -/
theorem live_keys_distinct (f : NoDup) (hW : f.WF) : ((absNoDup f).map Sub.key).Nodup :=
  abs_keys_nodup hW

theorem live_length (f : NoDup) (hW : f.WF) : (absNoDup f).length = f.len := abs_length hW

/-- `push` is the specification's push on the live nodes (as lists up to permutation) -/
theorem push_refines_perm (f f' : NoDup) (x : Sub) (hW : f.WF) (h : f.push rank x = some f') :
    (absNoDup f').Perm (KeyedPQ.push (absNoDup f) x) := Ddo.push_refines_perm rank f f' x hW h

theorem push_refines (f f' : NoDup) (x : Sub) (hW : f.WF) (h : f.push rank x = some f') :
    ∀ z, z ∈ absNoDup f' ↔ z ∈ KeyedPQ.push (absNoDup f) x := Ddo.push_refines rank f f' x hW h

/-- `pop` removes exactly the returned node from the live nodes -/
theorem pop_refines (f f' : NoDup) (z : Sub) (hW : f.WF) (h : f.pop rank = some (f', some z)) :
    z ∈ absNoDup f ∧ (absNoDup f).Perm (z :: absNoDup f') ∧
      (absNoDup f').Perm ((absNoDup f).erase z) := Ddo.pop_refines rank f f' z hW h

/-- `pop` answers `None` exactly when nothing is live, and then leaves the fringe alone -/
theorem pop_none_iff (f : NoDup) (hW : f.WF) :
    (∃ f', f.pop rank = some (f', none)) ↔ absNoDup f = [] := Ddo.pop_none_iff rank f hW

theorem pop_none_unchanged (f f' : NoDup) (hW : f.WF) (h : f.pop rank = some (f', none)) : f' = f :=
  pop_none_eq rank f f' hW h

/-! ## 3. the popped node is maximal among the live nodes -/

theorem pop_is_max_live (hr : RankOK rank) (f f' : NoDup) (z : Sub) (hI : f.Inv rank)
    (h : f.pop rank = some (f', some z)) :
    z ∈ absNoDup f ∧ ∀ y ∈ absNoDup f, subLe rank y z := pop_is_max_abs rank hr f f' z hI h

/-! ## the two statements of `Props/C11.lean` -/

/-- `NoDupInvariantInductive`, with `RankOK.flip` in place of its vacuous second hypothesis -/
theorem NoDupInvariantInductive_total (hr : RankOK rank) (f : NoDup) (hwf : f.wfB = true)
    (hord : f.heapOrdB rank = true) :
    (∀ x f', f.push rank x = some f' → f'.wfB = true ∧ f'.heapOrdB rank = true) ∧
    (∀ f' o, f.pop rank = some (f', o) → f'.wfB = true ∧ f'.heapOrdB rank = true) :=
  noDupInvariantInductive rank hr f hwf hord

theorem checked_no_crash (f : NoDup) (hwf : f.wfB = true) :
    (∀ x, ∃ f', f.push rank x = some f') ∧ (∃ r, f.pop rank = some r) := noDup_no_crash rank f hwf

end

/-- `NoDupRefinesKeyed` holds exactly as stated -/
theorem NoDupRefinesKeyed_holds : NoDupRefinesKeyed := noDupRefinesKeyed

/-- `NoDupInvariantInductive` as literally stated admits non-total rankings and is false -/
theorem NoDupInvariantInductive_literal_false : ¬ NoDupInvariantInductive :=
  noDupInvariantInductive_literal_false

/-! ## non-vacuity: the integer ranking, and the three-node example of `Props/C11.lean` -/

theorem icmp_ok : RankOK icmp := icmp_rankOK

example : exF.Inv icmp := (inv_iff_checked icmp exF).mpr (by decide)

/-- all of the above instantiated at `icmp` -/
theorem icmp_fringe (f : NoDup) (h : NoDup.Reach icmp f) :
    f.Inv icmp ∧ (∀ x, ∃ f', f.push icmp x = some f' ∧ f'.Inv icmp ∧
        (absNoDup f').Perm (KeyedPQ.push (absNoDup f) x)) ∧
      (∀ f' z, f.pop icmp = some (f', some z) → KeyedPQ.popOk icmp (absNoDup f) z ∧
        (absNoDup f).Perm (z :: absNoDup f')) := by
  have hI := reach_inv icmp_rankOK h
  refine ⟨hI, fun x => ?_, fun f' z hp => ?_⟩
  · obtain ⟨f', hf'⟩ := Ddo.push_no_crash icmp f x hI
    exact ⟨f', hf', Ddo.inv_push icmp icmp_rankOK f f' x hI hf',
      Ddo.push_refines_perm icmp f f' x hI.1 hf'⟩
  · exact ⟨pop_is_max_abs icmp icmp_rankOK f f' z hI hp, (Ddo.pop_refines icmp f f' z hI.1 hp).2.1⟩

end Ddo.C11

#print axioms Ddo.C11.inv_iff_checked
#print axioms Ddo.C11.inv_empty
#print axioms Ddo.C11.inv_push
#print axioms Ddo.C11.inv_pop
#print axioms Ddo.C11.push_no_crash
#print axioms Ddo.C11.pop_no_crash
#print axioms Ddo.C11.reachable_inv
#print axioms Ddo.C11.bubbleUp_fuel_irrelevant
#print axioms Ddo.C11.bubbleDown_fuel_irrelevant
#print axioms Ddo.C11.bubbleUp_correct
#print axioms Ddo.C11.bubbleDown_correct
#print axioms Ddo.C11.live_keys_distinct
#print axioms Ddo.C11.push_refines_perm
#print axioms Ddo.C11.push_refines
#print axioms Ddo.C11.pop_refines
#print axioms Ddo.C11.pop_none_iff
#print axioms Ddo.C11.pop_is_max_live
#print axioms Ddo.C11.NoDupInvariantInductive_total
#print axioms Ddo.C11.checked_no_crash
#print axioms Ddo.C11.NoDupRefinesKeyed_holds
#print axioms Ddo.C11.NoDupInvariantInductive_literal_false
#print axioms Ddo.C11.icmp_ok
#print axioms Ddo.C11.icmp_fringe
