import DdoModel.Proofs.CacheClosedSolver
import DdoModel.Proofs.CacheClosedAny
import DdoModel.Proofs.AnyOrderLayered
import DdoModel.Proofs.CacheClosedTwoState
/-! # C09 (closed) — the caching sequential solver over the diagram model returns the optimum, **for every pop order**

`Props/C09b.lean` proved the soundness of the thresholds (`theta_sound`), the abstract invariant `CInvC` of the caching solver
under the contract `CompC` of a caching compilation, whatever node is popped (`processC_inv_any`), and discharged three fields
of `CompC` from the diagram model.  The remaining fields are proved here, and the composition is closed in the style of
`Props/C01d.lean` (`Ddo.C01.sequential_solver_correct`).

**Finding D14 and its repair.**  The solver used to cap the bound of every cut-set node by the bound of the sub-problem just
processed (`enqueue_cutset(ub)`: `cutset_node.ub = ub.min(cutset_node.ub)`).  With the threshold cache that is unsound when
sub-problems are not processed best-first: `anyOrderOpt_false` (a statement about that **pre-fix** solver, kept here as the
named variant `kturnCapped` / `KRunAnyCapped` / `ksolveSchedCapped` of `Proofs/CacheClosedDefs.lean`).  The code was repaired
by **dropping the cap** (and taking `best_ub := min best_ub node.ub` at pop, so that the *reported* bound stays monotone); the
model of this development — `SeqSt.enqueue`, `SolverCfg.kturn`, `KStepAny`, … — is the repaired solver, and the headline
`caching_solver_correct` holds for **every** pop order.

## 1. the contract `CompC` from the diagram model (`Proofs/CacheClosed*.lean`)

For a compilation that consults a cache (`cfg.useCache = true`, **any** content — the content is constrained by the solver
invariant `CacheOk`, not by the compilation), well-formed model, width ≥ 1, no dominance rule:

* `ub_contract_of_model` — field `ub`.  New facts about the diagram: *a node pruned by the cache is never marked*
  (`Ddo.Theta.Ctx.marked_clean`: `_compute_local_bounds` only marks the terminal layer and the sources of inbound arcs —
  `Ddo.CacheClosed.finalize_marked` —, and every inbound arc comes from a node that was handed to the expansion —
  `Ddo.CacheClosed.built_arcs_live`), so a node handed out by `drain_cutset` was not pruned and the cache alternative of
  `np_all` is strictly deeper;
* `fresh_contract_of_model` — field `fresh`.  New facts: *the nodes of a layer that are neither deleted nor pruned by the cache
  have pairwise distinct states* (`Ddo.CacheClosedB.built_distinct`; false without the two exclusions: the merged node of
  `_relax` may share its state with a merged-away or a pruned node), and *an un-merged node of an inner layer that is not
  pruned is strictly above the cached threshold* (`built_filtered`).  Hence the only update of the compilation that hits the
  `(state, depth)` of a cut-set node whose bound beats the incumbent is `(value, explored = false)`, which `must_explore`
  accepts;
* `exactCut_contract_of_model`; `sound` from `Ddo.CacheClosed.isSol_relaxed_cached` (the exact-best-path argument `G2`
  survives `_filter_with_cache`, which only removes nodes); `good`, `rng`, `sub`, `deeper` from C08 (i)/(ii), which never
  depended on the cache;
* `compC_relaxed_of_model` — all eleven fields, relaxed compilation (`must` result);
* `compC_restricted_of_model` — the **restricted** compilation.  When it is exact (nothing was dropped) it *is*, step by step,
  the relaxed compilation of the same input (`Ddo.CacheClosed.restricted_exact_as_relaxed`: same built diagram, same exact
  value, same thresholds, empty cut-set), so `TInv` / `theta_sound` apply to it as they are; when it is not exact it records
  nothing (`restricted_inexact_no_ups`);
* `Ddo.CacheClosed.compile_no_crash_cached`, `ups_depth_relaxed` / `ups_depth_restricted`: no compilation crashes, and every
  `update_threshold` is in range (`depth ≤ nb_variables`).

**No field of `CompC` turned out to be false for the model.**

## 2. the concrete solver (`Proofs/CacheClosedDefs.lean`)

`CSolverCfg = Ddo.C01.SolverCfg` with the compilations configured by `SolverCfg.ccfg` (`useCache := true`); state `KSt` =
`SeqSt` + `Cache`; `SolverCfg.kturn` = one turn (cache-cleaning loop with its `clear_layer` calls, pop, `afterPop`, bound
test, `must_explore` — **read-only**: `Cache::must_explore` in `abstraction/cache.rs` only calls `get_threshold`, it does not
record the popped node —, restricted compilation consulting the cache + replay of its `update_threshold` calls, relaxed
compilation consulting the *updated* cache + replay, `maybe_update_best`, `enqueue_cutset` — no cap); `KStepAny` (one turn, any
entry of the fringe popped), `KRunAny`, `KStep` (best-first pop), `KRun`, `SolverCfg.ksolveLoop` (fuel-driven, best-first),
`SolverCfg.ksolveSched` (explicit pop schedule).

## 3. the headline `caching_solver_correct`

Same hypotheses as `sequential_solver_correct` (`WellFormed sv H B0 B`, nothing added), **any pop order**.  `KInvSt` is the loop
invariant; `kturn_inv` (in `Proofs/CacheClosedSolver.lean`): a turn from a state satisfying it, whatever node is popped, does
not panic, preserves it, and is a `Step` of `Props/C01t.lean` on the sequential state (a node skipped by `must_explore` also
decreases the measure).  `caching_solver_correct_bestfirst`: the corollary for best-first pops (`KStep` / `KRun`; the statement
that was the headline before the repair of D14).

## 4. non-vacuity — `Revisit`: a model on which `must_explore` really refuses a popped node (`decide`d through the fuel loop).

## 5. `AnyOrder` — `caching_solver_anyorder_sound` (every pop order: termination, no panic, soundness; now a corollary of the
headline), `AnyOrderOptFixed` / `anyOrderOptFixed_true` (optimality for every pop order: the headline) and, about the
**pre-fix** solver, `AnyOrderOpt` / `anyOrderOpt_false` (**optimality failed** for a breadth-first pop order on a well-formed
model; counter-example in `Proofs/AnyOrderLayered.lean`). -/
set_option linter.unusedSectionVars false
set_option linter.unusedVariables false
namespace Ddo.C09
open Ddo Ddo.C01 Ddo.Closed Ddo.Truth
variable {S : Type} [DecidableEq S]

/-! ## the invariant holds initially -/

theorem viewOf_init (n : Nat) : viewOf (Cache.init n : Cache S) = fun _ _ => none := by
  funext s d
  unfold viewOf Cache.get Cache.init
  dsimp only
  cases h : (List.replicate (n + 1) ([] : CLayer S))[d]? with
  | none => rfl
  | some l =>
    have := List.mem_of_getElem? h
    rw [List.mem_replicate] at this
    rw [this.2]
    rfl

theorem init_kinv {sv : SolverCfg S} {H : Nat → S → EInt} {B0 B : Int} (hwf : WellFormed sv H B0 B) :
    KInvSt sv H B (KSt.init sv) := by
  have hfr : (SeqSt.init sv.P none sv.dedup).fringe = [⟨sv.P.init, sv.P.initVal, [], iMax, 0⟩] := by
    cases hd : sv.dedup <;> rfl
  refine ⟨?_, Int.le_refl _, fun _ => rfl, rfl, ?_, fun _ => ⟨rfl, rfl⟩, ?_, init_linv sv⟩
  · intro c hc
    rw [show (KSt.init sv).st.fringe = _ from hfr] at hc
    rcases List.mem_cons.mp hc with e | e
    · subst e; exact ⟨[], Reach.root, List.Perm.refl _⟩
    · cases e
  · intro opt hopt
    have hb := opt_bound hwf.pot hwf.nv hwf.bound hopt
    have hBs := hwf.bound.B_small
    show CInvC H opt (SolOf sv.P) (RgB B) (SeqSt.init sv.P none sv.dedup).fringe (viewOf (Cache.init sv.P.nbVars)) iMin none
    rw [hfr, viewOf_init]
    refine init_cinvC H opt (SolOf sv.P) (RgB B) _ iMin none ?_ rfl ?_ ?_ ?_ (fun p hp => by cases hp) (fun _ => hopt)
    · intro x hx
      have : optOf H ⟨sv.P.init, sv.P.initVal, [], iMax, 0⟩ = some opt := hopt
      rw [this] at hx
      have := Option.some.inj hx
      omega
    · simp only [iMax]; omega
    · have := hwf.bound.clamp.root
      show Cover.Within (Cover.Bd B 0) sv.P.initVal
      unfold Cover.Within Cover.Bd
      simp only [Int.natCast_zero, Int.zero_add, Int.one_mul]
      exact this
    · show iMin ≤ opt
      simp only [iMin]; omega
  · show (Cache.init sv.P.nbVars : Cache S).layers.length = sv.P.nbVars + 1
    simp [Cache.init]

/-! ## (a) the invariant along the runs, any pop order -/

/-- **(a) `KInvSt` is a loop invariant of the caching solver for every pop order**, and a turn is a `Step` of
    `Props/C01t.lean` on the sequential state -/
theorem kstepAny_inv {sv : SolverCfg S} {H : Nat → S → EInt} {B0 B : Int} (hwf : WellFormed sv H B0 B) {s t : KSt S}
    (h : KStepAny sv s t) (hI : KInvSt sv H B s) : KInvSt sv H B t ∧ C01t.Step sv.P.nbVars sv.dedup s.st t.st := by
  cases h with
  | pop N rest hpop hturn =>
    obtain ⟨t', ht', hT, hS⟩ := kturn_inv hwf s N rest hpop hI
    rw [hturn] at ht'
    cases ht'
    exact ⟨hT, hS⟩

theorem krunAny_inv {sv : SolverCfg S} {H : Nat → S → EInt} {B0 B : Int} (hwf : WellFormed sv H B0 B) {s t : KSt S}
    (h : KRunAny sv s t) (hI : KInvSt sv H B s) : KInvSt sv H B t := by
  induction h with
  | refl => exact hI
  | tail _ hstep ih => exact (kstepAny_inv hwf hstep ih).1

/-- best-first pops: a special case -/
theorem kstep_inv {sv : SolverCfg S} {H : Nat → S → EInt} {B0 B : Int} (hwf : WellFormed sv H B0 B) {s t : KSt S}
    (h : KStep sv s t) (hI : KInvSt sv H B s) : KInvSt sv H B t := (kstepAny_inv hwf h.any hI).1

theorem krun_inv {sv : SolverCfg S} {H : Nat → S → EInt} {B0 B : Int} (hwf : WellFormed sv H B0 B) {s t : KSt S}
    (h : KRun sv s t) (hI : KInvSt sv H B s) : KInvSt sv H B t := krunAny_inv hwf h.any hI

/-! ## (b) partial correctness -/

/-- **(b)**: a state that satisfies the invariant and has an empty fringe reports the optimum with a feasible solution of
    that value — or nothing iff the problem is infeasible; `is_exact` is reported in both cases -/
theorem kinv_end_correct {sv : SolverCfg S} {H : Nat → S → EInt} {B0 B : Int} (hwf : WellFormed sv H B0 B) {t : KSt S}
    (hI : KInvSt sv H B t) (hend : t.st.fringe = []) :
    (∀ opt, (H 0 sv.P.init).addI sv.P.initVal = some opt →
      t.st.bestLb = opt ∧ (∃ p, t.st.bestSol = some p ∧ SolOf sv.P p opt) ∧ t.st.completion = (true, some opt)) ∧
    ((H 0 sv.P.init).addI sv.P.initVal = none → t.st.bestSol = none ∧ t.st.completion = (true, none)) := by
  have hab : t.st.abort = false := hI.noAbort
  constructor
  · intro opt hopt
    have hinv := hI.feas opt hopt
    rw [hend] at hinv
    obtain ⟨h1, h2⟩ := caching_solver_optimal H opt (SolOf sv.P) (RgB B) _ _ _ hinv
    have hb := opt_bound hwf.pot hwf.nv hwf.bound hopt
    have hBs := hwf.bound.B_small
    cases hs : t.st.bestSol with
    | none =>
      have := hI.solLb hs
      simp only [iMin] at this
      omega
    | some p =>
      refine ⟨h1, ⟨p, rfl, h2 p hs⟩, ?_⟩
      unfold SeqSt.completion
      rw [hab, hs, h1]; rfl
  · intro hinf
    obtain ⟨_, h2⟩ := hI.infeas hinf
    refine ⟨h2, ?_⟩
    unfold SeqSt.completion
    rw [hab, h2]; rfl

/-! ## (c) termination -/

/-- **(c) termination**: the step relation with arbitrary pops, on the states that satisfy the invariant, is well-founded -/
theorem kstepAny_terminates {sv : SolverCfg S} {H : Nat → S → EInt} {B0 B : Int} (hwf : WellFormed sv H B0 B) :
    WellFounded (fun t s : KSt S => KInvSt sv H B s ∧ KStepAny sv s t) :=
  Subrelation.wf (r := InvImage (fun t s : SeqSt S => C01t.Step sv.P.nbVars sv.dedup s t) KSt.st)
    (fun {_ _} h => (kstepAny_inv hwf h.2 h.1).2) (InvImage.wf _ (C01t.seq_terminates sv.P.nbVars sv.dedup))

theorem no_infinite_krunAny {sv : SolverCfg S} {H : Nat → S → EInt} {B0 B : Int} (hwf : WellFormed sv H B0 B)
    (run : Nat → KSt S) (h0 : run 0 = KSt.init sv) : ¬ ∀ n, KStepAny sv (run n) (run (n + 1)) := by
  intro hrun
  have hinv : ∀ n, KInvSt sv H B (run n) := by
    intro n
    induction n with
    | zero => rw [h0]; exact init_kinv hwf
    | succ n ih => exact (kstepAny_inv hwf (hrun n) ih).1
  exact no_infinite_chain (kstepAny_terminates hwf) run (fun n => ⟨hinv n, hrun n⟩)

/-- under the invariant a best-first turn is a `Step` of `Props/C01t.lean` on the sequential state (skipped nodes included) -/
theorem kstep_step {sv : SolverCfg S} {H : Nat → S → EInt} {B0 B : Int} (hwf : WellFormed sv H B0 B) {s t : KSt S}
    (hI : KInvSt sv H B s) (h : KStep sv s t) : C01t.Step sv.P.nbVars sv.dedup s.st t.st := (kstepAny_inv hwf h.any hI).2

/-- the best-first step relation, on the states that satisfy the invariant, is well-founded -/
theorem kstep_terminates {sv : SolverCfg S} {H : Nat → S → EInt} {B0 B : Int} (hwf : WellFormed sv H B0 B) :
    WellFounded (fun t s : KSt S => KInvSt sv H B s ∧ KStep sv s t) :=
  Subrelation.wf (fun {_ _} h => ⟨h.1, h.2.any⟩) (kstepAny_terminates hwf)

theorem no_infinite_krun {sv : SolverCfg S} {H : Nat → S → EInt} {B0 B : Int} (hwf : WellFormed sv H B0 B)
    (run : Nat → KSt S) (h0 : run 0 = KSt.init sv) : ¬ ∀ n, KStep sv (run n) (run (n + 1)) :=
  fun hrun => no_infinite_krunAny hwf run h0 (fun n => (hrun n).any)

/-! ## progress: no panic, no crash -/

/-- **whatever entry of the fringe is popped, the turn is possible**: no cache access is out of range, both compilations end
    normally -/
theorem kstepAny_progress {sv : SolverCfg S} {H : Nat → S → EInt} {B0 B : Int} (hwf : WellFormed sv H B0 B) {s : KSt S}
    (hI : KInvSt sv H B s) (N : SubP S) (rest : List (SubP S)) (hpop : s.st.fringe.Perm (N :: rest)) :
    ∃ u, KStepAny sv s u ∧ sv.kturn s N rest = some u := by
  obtain ⟨u, hu, _, _⟩ := kturn_inv hwf s N rest hpop hI
  exact ⟨u, KStepAny.pop s u N rest hpop hu, hu⟩

/-- from a state that satisfies the invariant and still has open sub-problems a best-first turn is possible: a maximal node
    can be popped, no cache access is out of range, both compilations end normally -/
theorem kstep_progress {sv : SolverCfg S} {H : Nat → S → EInt} {B0 B : Int} (hwf : WellFormed sv H B0 B) {s : KSt S}
    (hI : KInvSt sv H B s) (hne : s.st.fringe ≠ []) : ∃ t, KStep sv s t := by
  obtain ⟨N, rest, hp⟩ := popMax_some s.st.fringe hne
  obtain ⟨hpop, hmax⟩ := popMax_spec s.st.fringe N rest hp
  obtain ⟨t, ht, _, _⟩ := kturn_inv hwf s N rest hpop hI
  exact ⟨t, KStep.pop s t N rest hpop hmax ht⟩

/-! ## (d) the headline -/

/-- **`caching_solver_correct`**: for every well-formed model (`Ddo.C01.WellFormed`, the bundle of
    `sequential_solver_correct`: `Potential`, `RubOk`, `MergeOk`, `AttMerge`, `RunBound`, `NvBound`, widths ≥ 1 — nothing
    added), every ranking, width function, cut-set kind and either fringe, the sequential solver **with the threshold cache**
    over the diagram model (both compilations consult and update the cache; `must_explore` at pop; `clear_layer` in
    `get_workload`; `enqueue_cutset` pushes the cut-set nodes with the bounds of their own diagram — no cap; no dominance, no
    cutoff), popping the fringe in **any order** (`KStepAny`: a custom `SubProblemRanking`, or sub-problems processed out of
    order)

    * terminates: the step relation is well-founded on the reachable states, there is no infinite run;
    * never panics: whatever entry of the fringe is popped the turn is possible (no compilation crashes, no cache access is
      out of range), the `open_by_layer` bookkeeping never under- or overflows, the search is not aborted;
    * when the fringe is empty: reports `is_exact = true` and **the optimum**, with a stored solution that is a genuinely
      feasible complete path of that value — or reports no value iff the problem is infeasible.

    (Before the repair of finding D14 this held for best-first pops only: `caching_solver_correct_bestfirst`,
    `anyOrderOpt_false`.) -/
theorem caching_solver_correct (sv : CSolverCfg S) (H : Nat → S → EInt) (B0 B : Int)
    (hwf : WellFormed sv H B0 B) :
    WellFounded (fun t s : KSt S => KRunAny sv (KSt.init sv) s ∧ KStepAny sv s t) ∧
    (∀ run : Nat → KSt S, run 0 = KSt.init sv → ¬ ∀ n, KStepAny sv (run n) (run (n + 1))) ∧
    ∀ t, KRunAny sv (KSt.init sv) t →
      (∀ N rest, t.st.fringe.Perm (N :: rest) → ∃ u, KStepAny sv t u ∧ sv.kturn t N rest = some u) ∧
      t.st.crashed = false ∧ t.st.abort = false ∧
      (t.st.fringe = [] →
        (∀ opt, (H 0 sv.P.init).addI sv.P.initVal = some opt →
          t.st.bestLb = opt ∧ (∃ p, t.st.bestSol = some p ∧ SolOf sv.P p opt) ∧ t.st.completion = (true, some opt)) ∧
        ((H 0 sv.P.init).addI sv.P.initVal = none → t.st.bestSol = none ∧ t.st.completion = (true, none))) := by
  refine ⟨?_, fun run h0 => no_infinite_krunAny hwf run h0, fun t ht => ?_⟩
  · exact Subrelation.wf (fun {_ _} h => ⟨krunAny_inv hwf h.1 (init_kinv hwf), h.2⟩) (kstepAny_terminates hwf)
  · have hI := krunAny_inv hwf ht (init_kinv hwf)
    exact ⟨fun N rest hpop => kstepAny_progress hwf hI N rest hpop, hI.lay.2, hI.noAbort,
      fun hend => kinv_end_correct hwf hI hend⟩

/-- **`caching_solver_correct_bestfirst`** (corollary; the headline before the repair of D14): the same with best-first pops
    (`KStep`: the popped node has the largest upper bound, then the largest value — the `MaxUB` order of the shipped
    solvers): termination, a turn is always possible before the fringe is empty, no panic, and at the empty fringe the
    optimum with a feasible stored solution. -/
theorem caching_solver_correct_bestfirst (sv : CSolverCfg S) (H : Nat → S → EInt) (B0 B : Int) (hwf : WellFormed sv H B0 B) :
    WellFounded (fun t s : KSt S => KRun sv (KSt.init sv) s ∧ KStep sv s t) ∧
    (∀ run : Nat → KSt S, run 0 = KSt.init sv → ¬ ∀ n, KStep sv (run n) (run (n + 1))) ∧
    ∀ t, KRun sv (KSt.init sv) t →
      (t.st.fringe ≠ [] → ∃ u, KStep sv t u) ∧
      t.st.crashed = false ∧
      (t.st.fringe = [] →
        (∀ opt, (H 0 sv.P.init).addI sv.P.initVal = some opt →
          t.st.bestLb = opt ∧ (∃ p, t.st.bestSol = some p ∧ SolOf sv.P p opt) ∧ t.st.completion = (true, some opt)) ∧
        ((H 0 sv.P.init).addI sv.P.initVal = none → t.st.bestSol = none ∧ t.st.completion = (true, none))) := by
  refine ⟨?_, fun run h0 => no_infinite_krun hwf run h0, fun t ht => ?_⟩
  · exact Subrelation.wf (fun {_ _} h => ⟨krun_inv hwf h.1 (init_kinv hwf), h.2⟩) (kstep_terminates hwf)
  · have hI := krun_inv hwf ht (init_kinv hwf)
    exact ⟨fun hne => kstep_progress hwf hI hne, hI.lay.2, fun hend => kinv_end_correct hwf hI hend⟩

/-! ## the fuel-driven loop -/

/-- the fuel-driven loop is a run of the step relation -/
theorem ksolveLoop_run (sv : SolverCfg S) : ∀ (n : Nat) (s : KSt S), KRun sv s (sv.ksolveLoop n s) := by
  intro n
  induction n with
  | zero => intro s; exact KRun.refl s
  | succ n ih =>
    intro s
    unfold SolverCfg.ksolveLoop
    cases hp : popMax s.st.fringe with
    | none => exact KRun.refl s
    | some Nr =>
      obtain ⟨N, rest⟩ := Nr
      obtain ⟨hpop, hmax⟩ := popMax_spec s.st.fringe N rest hp
      dsimp only
      cases ht : sv.kturn s N rest with
      | none => exact KRun.refl s
      | some t => exact KRun.head (KStep.pop s t N rest hpop hmax ht) (ih t)

/-- whenever the loop returns a state with an empty fringe that state is correct -/
theorem ksolveLoop_correct (sv : SolverCfg S) (H : Nat → S → EInt) (B0 B : Int) (hwf : WellFormed sv H B0 B) (n : Nat)
    (hend : (sv.ksolveLoop n (KSt.init sv)).st.fringe = []) :
    (∀ opt, (H 0 sv.P.init).addI sv.P.initVal = some opt →
      (sv.ksolveLoop n (KSt.init sv)).st.completion = (true, some opt) ∧
      ∃ p, (sv.ksolveLoop n (KSt.init sv)).st.bestSol = some p ∧ SolOf sv.P p opt) ∧
    ((H 0 sv.P.init).addI sv.P.initVal = none → (sv.ksolveLoop n (KSt.init sv)).st.completion = (true, none)) := by
  obtain ⟨h1, h2⟩ := kinv_end_correct hwf (krun_inv hwf (ksolveLoop_run sv n _) (init_kinv hwf)) hend
  exact ⟨fun opt hopt => ⟨(h1 opt hopt).2.2, (h1 opt hopt).2.1⟩, fun hinf => (h2 hinf).2⟩

/-- with a well-formed model, from any state that satisfies the invariant, enough fuel brings the loop to the empty fringe -/
theorem ksolveLoop_total {sv : SolverCfg S} {H : Nat → S → EInt} {B0 B : Int} (hwf : WellFormed sv H B0 B) (s : KSt S) :
    KInvSt sv H B s → ∃ n, (sv.ksolveLoop n s).st.fringe = [] := by
  refine (kstep_terminates hwf).induction (C := fun s => KInvSt sv H B s → ∃ n, (sv.ksolveLoop n s).st.fringe = []) s ?_
  intro s ih hI
  by_cases hne : s.st.fringe = []
  · exact ⟨0, hne⟩
  · obtain ⟨N, rest, hp⟩ := popMax_some s.st.fringe hne
    obtain ⟨hpop, hmax⟩ := popMax_spec s.st.fringe N rest hp
    obtain ⟨t, ht, hT, _⟩ := kturn_inv hwf s N rest hpop hI
    obtain ⟨n, hn⟩ := ih t ⟨hI, KStep.pop s t N rest hpop hmax ht⟩ hT
    refine ⟨n + 1, ?_⟩
    rw [SolverCfg.ksolveLoop]
    simp only [hp, ht]
    exact hn

/-- **the caching solver, as a function, computes the optimum** -/
theorem ksolveLoop_computes_opt (sv : CSolverCfg S) (H : Nat → S → EInt) (B0 B : Int) (hwf : WellFormed sv H B0 B) :
    ∃ n, (sv.ksolveLoop n (KSt.init sv)).st.fringe = [] ∧
      (sv.ksolveLoop n (KSt.init sv)).st.crashed = false ∧
      (∀ opt, (H 0 sv.P.init).addI sv.P.initVal = some opt →
        (sv.ksolveLoop n (KSt.init sv)).st.completion = (true, some opt) ∧
        ∃ p, (sv.ksolveLoop n (KSt.init sv)).st.bestSol = some p ∧ SolOf sv.P p opt) ∧
      ((H 0 sv.P.init).addI sv.P.initVal = none → (sv.ksolveLoop n (KSt.init sv)).st.completion = (true, none)) := by
  obtain ⟨n, hn⟩ := ksolveLoop_total hwf _ (init_kinv hwf)
  obtain ⟨h1, h2⟩ := ksolveLoop_correct sv H B0 B hwf n hn
  exact ⟨n, hn, (krun_inv hwf (ksolveLoop_run sv n _) (init_kinv hwf)).lay.2, h1, h2⟩

/-! ## 4. non-vacuity: a well-formed model on which the cache really prunes

`Revisit` (family `TwoState` of `Proofs/CacheClosedTwoState.lean`): four binary variables, the state is the last decision,
costs `c var state decision` = `[1,0,2,1], [2,0,3,2], [1,0,3,0], [1,0,3,1]` (per variable: `c·00, c·01, c·10, c·11`), merge to
state `1` when present, constant rough upper bound 20, width 1, plain fringe, last-exact-layer cut-set.  Optimum 6.

Six best-first turns.  Third turn: `_filter_with_cache` prunes a node inside both compilations of `(state 1, value 0,
depth 1)` (`filter_prunes`).  Sixth turn: the popped node `(state 1, value 1, ub 7, depth 2)` still beats the incumbent 6 by
its bound but `must_explore` refuses it — `(state 1, depth 2)` was explored with value 2 from another parent (`refused`).
The loop ends with `is_exact = true`, `best_value = Some(6)` (`loop_value`), as `caching_solver_correct` predicts
(`correct`). -/
namespace Revisit
open Ddo.C09.TwoState

def tbl : List Int := [1, 0, 2, 1,  2, 0, 3, 2,  1, 0, 3, 0,  1, 0, 3, 1]
def T : Tab := ofList 4 tbl 20
def sv (dedup : Bool) (kind : CutsetKind) : CSolverCfg Int := TwoState.sv T 1 dedup kind

theorem checked : check 4 tbl 20 3 = true := by decide

theorem wellFormed (dedup : Bool) (kind : CutsetKind) : WellFormed (sv dedup kind) (H T) 3 15 :=
  wellFormed_ofList 4 tbl 20 3 15 1 dedup kind (Nat.le_refl 1) checked (by decide) (by decide)

/-- the optimum is 6 -/
theorem opt6 : (H T 0 (prob T).init).addI (prob T).initVal = some 6 := by decide

/-- the best-first corollary of the headline, instantiated: every best-first run of the caching solver on `Revisit` (either
    fringe, either cut-set kind) that reaches the empty fringe reports `is_exact = true`, `best_value = Some(6)`; before that a turn is always possible;
    nothing panics; there is no infinite run -/
theorem correct (dedup : Bool) (kind : CutsetKind) (t : KSt Int)
    (ht : KRun (sv dedup kind) (KSt.init (sv dedup kind)) t) :
    (t.st.fringe = [] → t.st.completion = (true, some 6)) ∧ (t.st.fringe ≠ [] → ∃ u, KStep (sv dedup kind) t u) ∧
    t.st.crashed = false :=
  ⟨fun hend => ((((caching_solver_correct_bestfirst (sv dedup kind) (H T) 3 15 (wellFormed dedup kind)).2.2 t ht).2.2 hend).1 6 opt6).2.2,
   ((caching_solver_correct_bestfirst (sv dedup kind) (H T) 3 15 (wellFormed dedup kind)).2.2 t ht).1,
   ((caching_solver_correct_bestfirst (sv dedup kind) (H T) 3 15 (wellFormed dedup kind)).2.2 t ht).2.1⟩

/-- the same for **every pop order** (the headline itself, instantiated): any run with arbitrary pops that reaches the empty
    fringe reports `is_exact = true`, `best_value = Some(6)`; whatever entry of the fringe is popped the turn is possible;
    nothing panics -/
theorem correct_anyorder (dedup : Bool) (kind : CutsetKind) (t : KSt Int)
    (ht : KRunAny (sv dedup kind) (KSt.init (sv dedup kind)) t) :
    (t.st.fringe = [] → t.st.completion = (true, some 6)) ∧
    (∀ N rest, t.st.fringe.Perm (N :: rest) → ∃ u, (sv dedup kind).kturn t N rest = some u) ∧
    t.st.crashed = false := by
  have h := (caching_solver_correct (sv dedup kind) (H T) 3 15 (wellFormed dedup kind)).2.2 t ht
  refine ⟨fun hend => ((h.2.2.2 hend).1 6 opt6).2.2, fun N rest hp => ?_, h.2.1⟩
  obtain ⟨u, _, hu⟩ := h.1 N rest hp
  exact ⟨u, hu⟩

/-- the state after `j` best-first turns (plain fringe, last-exact-layer cut-set) -/
def after (j : Nat) : KSt Int := (sv false .lel).ksolveLoop j (KSt.init (sv false .lel))

set_option maxRecDepth 100000 in
/-- the fuel-driven loop ends after six turns with the empty fringe and the optimum -/
theorem loop_value : (after 8).st.completion = (true, some 6) ∧ (after 8).st.fringe.length = 0 ∧
    (after 8).st.explored = 6 ∧ (after 8).st.crashed = false := by decide

/-- the value computed by the loop is the one the theorem predicts -/
example : (after 8).st.completion = (true, some 6) :=
  (correct false .lel _ (ksolveLoop_run (sv false .lel) 8 _)).1 (List.eq_nil_of_length_eq_zero loop_value.2.1)

set_option maxRecDepth 100000 in
/-- **`must_explore` refuses a popped node whose bound still beats the incumbent** (sixth turn): the node
    `(state 1, value 1, ub 7, depth 2)` is popped with incumbent 6 and the cache answers `false` -/
theorem refused :
    (after 5).st.bestLb = 6 ∧
    (popMax (after 5).st.fringe).map (fun Nr => (Nr.1.state, Nr.1.value, Nr.1.ub, Nr.1.depth,
      (after 5).cache.mustExplore Nr.1.state Nr.1.depth Nr.1.value)) = some (1, 1, 7, 2, some false) := by decide

set_option maxRecDepth 100000 in
/-- **`_filter_with_cache` prunes a node inside a compilation** (third turn, popped node `(state 1, value 0, depth 1)`): the
    diagrams built by the restricted and by the relaxed compilation both hold a node flagged "pruned by the cache" -/
theorem filter_prunes :
    (match popMax (after 2).st.fringe with
     | none => none
     | some (N, _) =>
       match cleanCache 4 (after 2).st.openByLayer 4 (after 2).st.firstActive (after 2).cache with
       | none => none
       | some c0 =>
         some (N.state, N.value, N.depth,
           (compile ((sv false .lel).ccfg .restricted N (after 2).st.bestLb) c0 (DomStore.init 4) 0 none).2.2.2.layers.any
             (fun ly => ly.any (·.cache)),
           (compile ((sv false .lel).ccfg .relaxed N (after 2).st.bestLb) c0 (DomStore.init 4) 0 none).2.2.2.layers.any
             (fun ly => ly.any (·.cache)))) = some (1, 0, 1, true, true) := by decide

set_option maxRecDepth 100000 in
/-- the same with the duplicate-free fringe and the frontier cut-set -/
theorem loop_value' : ((sv true .frontier).ksolveLoop 10 (KSt.init (sv true .frontier))).st.completion = (true, some 6) ∧
    ((sv true .frontier).ksolveLoop 10 (KSt.init (sv true .frontier))).st.fringe.length = 0 := by decide

end Revisit

/-! ## 5. arbitrary pop orders (`AnyOrder`)

For **every** pop order (`KStepAny`: any entry of the fringe may be popped — a custom `SubProblemRanking`) the headline
`caching_solver_correct` gives termination, no panic / crash **and optimality** at the empty fringe (`anyOrderOptFixed_true`).
`caching_solver_anyorder_sound` — termination, no panic / crash, and soundness of whatever is reported in *every* reachable
state (the incumbent is the value of the stored solution, a genuinely feasible complete path, hence `≤` the optimum) — is
what was known for arbitrary orders before the repair of D14; it is now a corollary of the invariant.

`AnyOrderOpt` / `anyOrderOpt_false` are statements about the **pre-fix solver** (`KRunAnyCapped`: `enqueue_cutset(ub)` capping
the cut-set nodes by the bound of the processed node): for it optimality really needed best-first pops.  D14 is repaired in
the code by dropping the cap; the witnesses are kept as the record of why. -/

/-- **`caching_solver_anyorder_sound`**: for every well-formed model and **every pop order**, the caching sequential solver
    over the diagram model terminates, never panics (whatever entry of the fringe is popped, the turn is possible), keeps the
    `open_by_layer` bookkeeping exact, and only ever reports the value of a stored solution that is a genuinely feasible
    complete path (so `best_lb ≤ optimum`; nothing is reported for an infeasible problem). -/
theorem caching_solver_anyorder_sound (sv : CSolverCfg S) (H : Nat → S → EInt) (B0 B : Int) (hwf : WellFormed sv H B0 B) :
    WellFounded (fun t s : KSt S => KRunAny sv (KSt.init sv) s ∧ KStepAny sv s t) ∧
    (∀ run : Nat → KSt S, run 0 = KSt.init sv → ¬ ∀ n, KStepAny sv (run n) (run (n + 1))) ∧
    ∀ t, KRunAny sv (KSt.init sv) t →
      (∀ N rest, t.st.fringe.Perm (N :: rest) → ∃ u, KStepAny sv t u ∧ sv.kturn t N rest = some u) ∧
      t.st.crashed = false ∧ t.st.abort = false ∧
      (∀ opt, (H 0 sv.P.init).addI sv.P.initVal = some opt →
        t.st.bestLb ≤ opt ∧ ∀ p, t.st.bestSol = some p → SolOf sv.P p t.st.bestLb) ∧
      ((H 0 sv.P.init).addI sv.P.initVal = none → t.st.bestSol = none) := by
  obtain ⟨h1, h2, h3⟩ := caching_solver_correct sv H B0 B hwf
  refine ⟨h1, h2, fun t ht => ?_⟩
  have hI := (krunAny_inv hwf ht (init_kinv hwf)).toAny
  exact ⟨(h3 t ht).1, hI.lay.2, hI.noAbort, hI.snd, fun hinf => (hI.infeas hinf).2⟩

/-- **`AnyOrderOpt`** — a statement about the **pre-fix solver** (`KRunAnyCapped`: `enqueue_cutset(ub)` with
    `cutset_node.ub = ub.min(cutset_node.ub)`, the code before the repair of D14): optimality of the caching solver at the
    empty fringe for **arbitrary** pop orders.  **It is false** (`anyOrderOpt_false`).  For the repaired solver:
    `AnyOrderOptFixed`, which is true. -/
def AnyOrderOpt : Prop :=
  ∀ (S : Type) [DecidableEq S] (sv : CSolverCfg S) (H : Nat → S → EInt) (B0 B : Int), WellFormed sv H B0 B →
    ∀ t, KRunAnyCapped sv (KSt.init sv) t → t.st.fringe = [] →
      ∀ opt, (H 0 sv.P.init).addI sv.P.initVal = some opt → t.st.bestLb = opt

set_option maxRecDepth 100000 in
theorem counter_lb :
    ((Layered.Counter.sv false .lel).ksolveSchedCapped (Layered.Counter.sched false .lel)
      (KSt.init (Layered.Counter.sv false .lel))).st.bestLb = 4 := by decide

/-- **`AnyOrderOpt` is false** (finding D14; a statement about the **pre-fix solver**, repaired since in the code by dropping
    the cap).  With the capped `enqueue_cutset(ub)` the invariant `CInvC` could not be proved without a best-first hypothesis,
    because the closed statement fails.  `Ddo.C09.Layered.Counter` (`Proofs/AnyOrderLayered.lean`; full description,
    turn-by-turn trace and replay data there): a `WellFormed` model — 7 binary variables, 3 states, merge = largest state,
    width 1 for sub-problems of depth ≤ 1 and 2 below — on which the capped caching solver popping **breadth-first**
    (shallowest open sub-problem first) runs five turns without panic, ends with the empty fringe and `is_exact = true`, and
    reports 4; the optimum is 10 (best-first pops return 10: `Layered.Counter.bestfirst_value_capped`).  Both cut-set kinds,
    both fringes (`Layered.Counter.anyorder_counter_all`); with `FixedWidth(2)` for every sub-problem:
    `Layered.Fixed.anyorder_counter`.

    Mechanism (the only place where the proof of `step_generic` used best-first pops: `hEnq`, the capped node must still carry
    what it is a witness for).  (1) A fringe node `N` has `ub(N) < pot(N)`:
    in the diagram of its parent, the relaxed image of `N`'s optimal path was cut by `_filter_with_cache` at a child `s*` of
    a *merged* node — a state the exact path from `N` never visits — whose threshold is carried by an open node `k2` with
    `ub(k2) ≥ pot(N)`.  (2) `N` is popped before `k2` (impossible with best-first pops).  Its own diagram is not cut there,
    reaches a cut-set node `c'` with `pot(c') = pot(N)`, records the threshold `(c'.value, explored = false)` for it, and
    `enqueue_cutset` caps its bound: `min(ub(N), ·) < pot(c')`; once the incumbent is `≥ ub(N)` the node `c'` is not enqueued
    (or dropped by `node.ub ≤ best_lb` later).  (3) `k2`'s optimal path converges with `N`'s at `c'`'s `(state, depth)` with the
    same value: when `k2` is popped, `_filter_with_cache` prunes it there.  Nothing carries `pot(N)` any more.
    The thresholds are individually sound (`theta_sound`: each is justified by the cut-set of its own diagram); what broke
    was the composition `cutset_node.ub = ub.min(cutset_node.ub)` with a parent bound that is only valid "modulo what the
    cache covers".  Without the cache every pop order is correct (`Props/C01t.lean`); with the cache and **without the cap**
    every pop order is correct too (`caching_solver_correct`, `anyOrderOptFixed_true`; on this very model and schedule:
    `Layered.Counter.nocap_bfs_value` in `Props/C09d.lean`). -/
theorem anyOrderOpt_false : ¬ AnyOrderOpt := by
  intro h
  have h4 := h Int (Layered.Counter.sv false .lel) (Layered.H Layered.Counter.T) 10 80 (Layered.Counter.wellFormed false .lel) _
    (ksolveSchedCapped_run _ (Layered.Counter.sched false .lel) _)
    (List.eq_nil_of_length_eq_zero Layered.Counter.anyorder_counter.2.2.1) 10 Layered.Counter.opt10
  rw [counter_lb] at h4
  exact absurd h4 (by decide)

/-- **`AnyOrderOptFixed`**: the statement `AnyOrderOpt` for the repaired solver (`KRunAny`: no cap in `enqueue_cutset`) —
    optimality at the empty fringe for **arbitrary** pop orders.  **It is true** (`anyOrderOptFixed_true`). -/
def AnyOrderOptFixed : Prop :=
  ∀ (S : Type) [DecidableEq S] (sv : CSolverCfg S) (H : Nat → S → EInt) (B0 B : Int), WellFormed sv H B0 B →
    ∀ t, KRunAny sv (KSt.init sv) t → t.st.fringe = [] →
      ∀ opt, (H 0 sv.P.init).addI sv.P.initVal = some opt → t.st.bestLb = opt

/-- **without the cap, optimality holds for arbitrary pop orders** (`AnyOrderOpt` is false, `AnyOrderOptFixed` is true: the cap
    of `enqueue_cutset` was the only obstacle) -/
theorem anyOrderOptFixed_true : AnyOrderOptFixed := by
  intro S _ sv H B0 B hwf t ht hend opt hopt
  exact ((((caching_solver_correct sv H B0 B hwf).2.2 t ht).2.2.2 hend).1 opt hopt).1

/-! The parallel solver with the cache (nodes in hand of other threads, interleaved `update_threshold` calls) has no statement
here: the parallel system of this development (`ParSys.lean`) is modelled without a threshold cache, so there is nothing to
quantify over.  What the any-order headline does cover is the sequential shadow of its scheduling freedom — "popped
best-first is not processed best-first" is an arbitrary pop order of `KStepAny`. -/

end Ddo.C09

#print axioms Ddo.C09.ub_contract_of_model
#print axioms Ddo.C09.fresh_contract_of_model
#print axioms Ddo.C09.exactCut_contract_of_model
#print axioms Ddo.C09.compC_relaxed_of_model
#print axioms Ddo.C09.compC_restricted_of_model
#print axioms Ddo.C09.kturn_inv
#print axioms Ddo.C09.kstepAny_inv
#print axioms Ddo.C09.krunAny_inv
#print axioms Ddo.C09.kstepAny_terminates
#print axioms Ddo.C09.caching_solver_correct
#print axioms Ddo.C09.caching_solver_correct_bestfirst
#print axioms Ddo.C09.ksolveLoop_run
#print axioms Ddo.C09.ksolveLoop_correct
#print axioms Ddo.C09.ksolveLoop_total
#print axioms Ddo.C09.ksolveLoop_computes_opt
#print axioms Ddo.C09.Revisit.wellFormed
#print axioms Ddo.C09.Revisit.correct
#print axioms Ddo.C09.Revisit.correct_anyorder
#print axioms Ddo.C09.Revisit.loop_value
#print axioms Ddo.C09.Revisit.refused
#print axioms Ddo.C09.Revisit.filter_prunes
#print axioms Ddo.C09.caching_solver_anyorder_sound
#print axioms Ddo.C09.anyOrderOpt_false
#print axioms Ddo.C09.anyOrderOptFixed_true
#print axioms Ddo.C09.Layered.Counter.anyorder_counter
#print axioms Ddo.C09.Layered.Counter.anyorder_counter_all
#print axioms Ddo.C09.Layered.Fixed.anyorder_counter
