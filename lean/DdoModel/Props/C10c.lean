import DdoModel.Proofs.CacheDomDefs
import DdoModel.Proofs.CacheDomCross
import DdoModel.Proofs.CacheDomCrossSim
import DdoModel.Proofs.CacheDomCarrier
import DdoModel.Proofs.CacheDomTwin
/-! # C09 + C10 together — the sequential solver with the threshold cache **and** the dominance checker

`Props/C09c.lean` (`Ddo.C09.caching_solver_correct`: cache, no checker) and `Props/C10b.lean`
(`Ddo.C10.dominance_solver_optimal`: checker, no cache) are closed theorems over the diagram model `compile`.  The shipped
solvers (`DefaultCachingSolver`, the knapsack / alp / tsptw / lcs examples) enable both at once: every compilation consults
the cache and the shared checker, and `_compute_thresholds` derives cache thresholds from dominance-pruned nodes too.  This
file decides the **joint statement** for the sequential solver (`Proofs/CacheDomDefs.lean`: `KDSt`, `DSolverCfg.kdprocess`,
`DSolverCfg.kdturn`, `KDStep`, `KDRun`, `DSolverCfg.kdsolveLoop`; ONE compilation input with `useCache := true` and
`dom := some D`, the cache replayed and the store threaded out of each compilation).

## verdict: the joint statement is **false** — for every notion of "valid rule" this development has (finding **D16**)

`CachingDominanceSolverCorrect` — "for every `WellFormed` model and every rule with a protected optimal strategy (`UndomOpt`,
the hypothesis of `dominance_solver_optimal`), both cut-set kinds, both fringes, best-first pops, the solver with cache and
checker terminates, never panics, and at the empty fringe holds the optimum, a feasible stored solution and
`is_exact = true`" — is refuted (`caching_dominance_solver_correct_false`), and so are its executable-loop form
(`kdsolveLoop_computes_opt_false`) and every strengthening of the hypothesis on the rule:

| model (file `Proofs/CacheDom….lean`) | the rule satisfies | reported / optimum | theorem |
|---|---|---|---|
| `Twin`     | simulation for **all** pairs of states and values (`SimAll`: the two compared states are bisimilar), hence `SimAdmissible`, `AdmissibleAll`, `UndomOpt` | 5 / 10  | `caching_dominance_simAll_false`, `Twin.finding` |
| `CrossSim` | `SimAdmissible` + static order (the sufficient condition of C10b), unique optimal solution | 10 / 15 | `caching_dominance_sim_false`, `CrossSim.finding` |
| `Cross`    | `UndomOpt` + `AdmissibleAll` | 5 / 10  | `caching_dominance_admissible_false`, `Cross.finding` |
| `Carrier`  | `UndomOpt` (found by the random search; one configuration) | 7 / 13  | `Carrier.finding` |

In every case: `WellFormed` model of the family `Ddo.C09.Layered` (6–7 binary variables, 3–7 states, `FixedWidth(1)`), best-first
pops (forced, no ties, except `Carrier`), 3–4 turns, no panic, empty fringe, `is_exact = true`, wrong value; both fringes and both
cut-set kinds (except `Carrier`); on the same model **every** run with the cache alone and **every** run with the checker alone
ends with the optimum — by the two closed theorems, whose hypotheses are proved (`….finding`).  All run facts are `decide`d on
the composed executable model and explained turn by turn (`stage…` theorems).  `Twin`, `CrossSim` and `Cross` were replayed on
the **real library** (crate `/tmp/agent_cachedom/rs`): same numbers for `SeqCachingSolverLel/Fc` (both fringes),
`ParCachingSolverLel/Fc` (one thread) and `DefaultCachingSolver` with `SimpleDominanceChecker`; the optimum with `EmptyCache` or
`EmptyDominanceChecker`.

## mechanisms

1. **A dominance verdict is applied to relaxed nodes** (`Cross`, `CrossSim`).  A verdict is a statement about one *exactly reached*
   item `(state, depth, value)`; `is_dominated_or_insert` returns with it a threshold (the dominator's value).
   `_filter_with_dominance` stores it in `node.theta`, `_compute_thresholds` publishes it — and what it propagates to the ancestors —
   to the cache, and `_filter_with_cache` applies thresholds to **every** node of a layer, relaxed ones included, while the checker
   is, by design, never asked about relaxed nodes.  A relaxed node with that state stands for *other* exact items: other states
   (`Cross`: the protected `g4`), or a value of the state that is never reached exactly (`CrossSim`: threshold 5 applied to a
   relaxed node of value 5, the only exact value of that state is 0).  `Cross.theta_unjustified`: the threshold has none of the
   three justifications of `Ddo.C09.theta_sound`.
2. **The carrier of a potential is dropped by the checker** (`Carrier`; no dominance-derived threshold).  C09's invariant says
   "what the cache prunes is carried by an open sub-problem"; C10's says "the protected family is never dropped".  Nothing forces
   the carrier to be protected.
3. **A cycle of deferrals, with a rule that is simply true** (`Twin`).  The cache defers the relaxed image of an exact item `E` to
   an open node `k2` with the same state ("`k2` will be explored"); the checker later drops `k2` at its pop because `E` — a
   bisimilar state the rule prefers — is in the store ("`E` was explored"); and `E`'s sub-tree was handed to the cut-set node above
   it, whose diagram is the one the first deferral emptied.  The merge operator (largest state — a valid relaxation) produces a
   state that the rule likes less than an exact state it stands for; that is all it takes.

## what holds / what is left

* `Kp.joint_value`, `Kp.both_prune`: on `Ddo.C10.Kp` (the knapsack rule of the `ddo` documentation) the solver with both mechanisms
  returns the optimum in every configuration and both mechanisms prune.  That rule satisfies `SimAll` (`Kp.simAll`) and its merge
  operator is **maximal for the rule** (`Kp.mergeCompat`: the merged state is at least as good, in the rule's order, as every state
  it replaces).  Together the two exclude mechanisms 1 and 3 (a relaxed image is then at least as good, in the rule's order and
  for every value, as what it stands for: whatever dominates the image dominates what it stands for, and the image of an item that
  dominates an open node is strictly above the threshold that node carries).
* **Search** (`/tmp/agent_cachedom/search`, native code linked against this model; best-first pops with the deterministic and a random
  resolution of ties, both cut-set kinds, both fringes, several width functions; the value is compared with the optimum): ≈ 47
  million runs.  Rules with `SimAll` **and** a rule-maximal merge (random 1- and 2-resource knapsacks): 0 wrong values in 4.3 million
  runs (37 million turns; both mechanisms prune in 2.46 million runs, relaxed nodes pruned by the cache while the checker prunes in
  260 000).  Rules with `SimAll` and a merge that is not rule-maximal (class / level tables): 0 in 17.7 million runs — the random
  search did **not** find `Twin`, which was built by hand from the analysis of the failed invariant.  Random rules filtered by a
  computed `UndomOpt`, on random tables and on mutations of `Layered.Counter` / `Layered.Fixed`: 6 wrong values (two models, one of
  them `Carrier`; none of the two rules is simulation-admissible) in 24.9 million runs, 0 among the 3.3 million of these runs whose rule
  happens to satisfy `SimAll`.
* Stated, not proved (`def … : Prop`, no placeholder): `CachingDominanceCompat` — the joint statement for `SimAll` rules with a
  static order **and** a rule-maximal merge (`MergeCompat`); open (no counter-example, no proof; cycles of deferrals longer than
  `Twin`'s are not excluded by the argument above).  `JointSound` — termination, no panic and soundness of the reported value for
  every rule (expected to hold: both filters only remove nodes).  The single-compilation contracts of C09 (`theta_sound`, `CompC`)
  are proved for `cfg.dom = none` and those of C10 (`DomRelax*.lean`, `DomTruth.lean`) for `cfg.useCache = false`; none was
  re-proved for `useCache = true ∧ dom = some D`, since the solver-level statement they were to feed is false. -/
set_option linter.unusedSectionVars false
set_option linter.unusedVariables false
namespace Ddo.C10c
open Ddo Ddo.C01 Ddo.Closed Ddo.C09 Ddo.C10

/-! ## the joint statement -/

/-- what the two existing theorems conclude, for the solver with cache **and** checker: termination (well-founded step
    relation on the reachable states, no infinite run), progress and no panic before the fringe is empty, and at the empty
    fringe the optimum, a feasible stored solution of that value and `is_exact = true` -/
def JointCorrect {S K : Type} [DecidableEq S] [DecidableEq K] (dv : DSolverCfg S K) (opt : Int) : Prop :=
  WellFounded (fun t s : KDSt S K => KDRun dv (KDSt.init dv) s ∧ KDStep dv s t) ∧
  (∀ run : Nat → KDSt S K, run 0 = KDSt.init dv → ¬ ∀ n, KDStep dv (run n) (run (n + 1))) ∧
  ∀ t, KDRun dv (KDSt.init dv) t →
    (t.st.fringe ≠ [] → ∃ u, KDStep dv t u) ∧
    t.st.crashed = false ∧
    (t.st.fringe = [] →
      t.st.bestLb = opt ∧ (∃ p, t.st.bestSol = some p ∧ SolOf dv.sv.P p opt) ∧ t.st.completion = (true, some opt))

/-- **the joint statement** `caching_dominance_solver_correct`, with the hypotheses of `Ddo.C10.dominance_solver_optimal`
    (which include those of `Ddo.C09.caching_solver_correct`).  **It is false**: `caching_dominance_solver_correct_false`. -/
def CachingDominanceSolverCorrect : Prop :=
  ∀ (S K : Type) [DecidableEq S] [DecidableEq K] (dv : DSolverCfg S K) (H : Nat → S → EInt) (B0 B opt : Int),
    WellFormed dv.sv H B0 B → (H 0 dv.sv.P.init).addI dv.sv.P.initVal = some opt → UndomOpt dv.D dv.sv.P H opt →
    JointCorrect dv opt

/-- the executable-loop form (`…_computes_opt`): with enough fuel the loop ends with the empty fringe, no panic,
    `is_exact = true` and the optimum.  **False** as well: `kdsolveLoop_computes_opt_false`. -/
def KdsolveLoopComputesOpt : Prop :=
  ∀ (S K : Type) [DecidableEq S] [DecidableEq K] (dv : DSolverCfg S K) (H : Nat → S → EInt) (B0 B opt : Int),
    WellFormed dv.sv H B0 B → (H 0 dv.sv.P.init).addI dv.sv.P.initVal = some opt → UndomOpt dv.D dv.sv.P H opt →
    ∃ n, (dv.kdsolveLoop n (KDSt.init dv)).st.fringe = [] ∧ (dv.kdsolveLoop n (KDSt.init dv)).st.crashed = false ∧
      (dv.kdsolveLoop n (KDSt.init dv)).st.completion = (true, some opt)

/-! ## the simulation condition for all pairs, rule-maximal merge operators -/

section stated
variable {S K : Type}

/-- the simulation condition **for all pairs of states and values** — not only for exactly reached ones: whenever `(a, va)` is at
    least as good as `(b, vb)`, every decision available to `b` is matched by a decision available to `a` whose child is at least as
    good as `b`'s child, and "at least as good" includes the value.  The knapsack rule satisfies it (`Kp.simAll`), and so does `Twin.rule`
    (`Twin.simAll`); `CrossSim.rule` does not (its verdict on `(1, value 5)` is wrong), `Cross.rule` does not either. -/
structure SimAll (D : DomRule S K) (P : Problem S) (n : Nat) : Prop where
  step : ∀ d a va b vb L x, GeItem D n a va b vb → P.nextVar d L = some x → b ∈ L →
    ∀ db ∈ P.domain x b, ∃ da ∈ P.domain x a,
      GeItem D n (P.trans a ⟨x, da⟩) (va + P.cost a (P.trans a ⟨x, da⟩) ⟨x, da⟩)
                 (P.trans b ⟨x, db⟩) (vb + P.cost b (P.trans b ⟨x, db⟩) ⟨x, db⟩)
  value : ∀ a va b vb, GeItem D n a va b vb → vb ≤ va

/-- `SimAll` is stronger than the simulation condition of `Proofs/DomSim.lean` -/
theorem SimAll.sim {D : DomRule S K} {P : Problem S} {n : Nat} (h : SimAll D P n) : SimAdmissible D P n :=
  ⟨fun d a va b vb _ _ L x _ _ hge hnv hb db hdb => h.step d a va b vb L x hge hnv hb db hdb,
   fun _ a va b vb _ _ _ _ _ hge _ _ => h.value a va b vb hge⟩

/-- **the merge operator is maximal for the rule**: the merged state, with any value, is at least as good — in the rule's order — as
    every state it replaces with that value, and `relax` never lowers a cost.  True of "merge = component-wise best" relaxations
    (`Kp.mergeCompat`); false of `Twin` (`Twin.not_mergeCompat`: `{0, 1}` is merged to `1`; in the run `{pE, pF}` is merged to `pF`,
    whose child `1` is what the rule puts below `pE`'s child `0`). -/
structure MergeCompat (D : DomRule S K) (R : Relax S) (n : Nat) : Prop where
  merge : ∀ (X : List S) (u : S) (v : Int), u ∈ X → GeItem D n (R.merge X) v u v
  relax : ∀ (src dst merged : S) (d : Dec) (c : Int), c ≤ R.relax src dst merged d c

end stated


/-! ## the fuel-driven loop is stationary once the fringe is empty -/

section loop
variable {S K : Type} [DecidableEq S] [DecidableEq K]

theorem kdsolveLoop_empty (dv : DSolverCfg S K) (s : KDSt S K) (h : s.st.fringe = []) : ∀ m, dv.kdsolveLoop m s = s := by
  intro m
  cases m with
  | zero => rfl
  | succ m =>
    unfold DSolverCfg.kdsolveLoop
    rw [h]
    rfl

/-- a state from which no turn is possible (the deterministic pop leads to a panic / abnormal end) stays -/
theorem kdsolveLoop_stuck (dv : DSolverCfg S K) (s : KDSt S K) (N : SubP S) (rest : List (SubP S))
    (hp : popMax s.st.fringe = some (N, rest)) (ht : dv.kdturn s N rest = none) : ∀ m, dv.kdsolveLoop m s = s := by
  intro m
  cases m with
  | zero => rfl
  | succ m =>
    unfold DSolverCfg.kdsolveLoop
    rw [hp]
    dsimp only
    rw [ht]

theorem kdsolveLoop_add (dv : DSolverCfg S K) : ∀ (n m : Nat) (s : KDSt S K),
    dv.kdsolveLoop (n + m) s = dv.kdsolveLoop m (dv.kdsolveLoop n s) := by
  intro n
  induction n with
  | zero => intro m s; rw [Nat.zero_add]; rfl
  | succ n ih =>
    intro m s
    have e : n + 1 + m = (n + m) + 1 := by omega
    rw [e]
    cases hp : popMax s.st.fringe with
    | none =>
      have hfr : s.st.fringe = [] := by
        cases hf : s.st.fringe with
        | nil => rfl
        | cons c l =>
          obtain ⟨N, rest, h⟩ := popMax_some s.st.fringe (by rw [hf]; exact List.cons_ne_nil _ _)
          rw [h] at hp; cases hp
      rw [kdsolveLoop_empty dv s hfr, kdsolveLoop_empty dv s hfr, kdsolveLoop_empty dv s hfr]
    | some Nr =>
      obtain ⟨N, rest⟩ := Nr
      cases ht : dv.kdturn s N rest with
      | none => rw [kdsolveLoop_stuck dv s N rest hp ht, kdsolveLoop_stuck dv s N rest hp ht, kdsolveLoop_stuck dv s N rest hp ht]
      | some t =>
        have e1 : dv.kdsolveLoop (n + m + 1) s = dv.kdsolveLoop (n + m) t := by
          rw [DSolverCfg.kdsolveLoop]; simp only [hp, ht]
        have e2 : dv.kdsolveLoop (n + 1) s = dv.kdsolveLoop n t := by
          rw [DSolverCfg.kdsolveLoop]; simp only [hp, ht]
        rw [e1, e2]
        exact ih m t

/-- once the loop has reached the empty fringe, more fuel changes nothing -/
theorem kdsolveLoop_stable (dv : DSolverCfg S K) (s : KDSt S K) (n : Nat) (h : (dv.kdsolveLoop n s).st.fringe = []) (m : Nat)
    (hm : n ≤ m) : dv.kdsolveLoop m s = dv.kdsolveLoop n s := by
  have e : m = n + (m - n) := by omega
  rw [e, kdsolveLoop_add, kdsolveLoop_empty dv _ h]

end loop

/-! ## `Cross`: `UndomOpt` + `AdmissibleAll` -/

namespace Cross
open Ddo.C09.Layered

/-- the headline of C10b applies: every run of the solver with the checker and **without** the cache ends with 10 -/
theorem dom_only_correct (dedup : Bool) (kind : CutsetKind) (t : DSt Int Int)
    (ht : DRun (dv dedup kind) (dv dedup kind).init t) (hend : t.st.fringe = []) : t.st.completion = (true, some 10) :=
  (((dominance_solver_optimal (dv dedup kind) (H T) 10 80 10 (wellFormed dedup kind) opt10 undomOpt).2.2 t ht).2 hend).2.2

/-- the headline of C09c applies: every run of the solver with the cache and **without** the checker ends with 10 -/
theorem cache_only_correct (dedup : Bool) (kind : CutsetKind) (t : KSt Int)
    (ht : KRun (sv dedup kind) (KSt.init (sv dedup kind)) t) (hend : t.st.fringe = []) : t.st.completion = (true, some 10) :=
  ((((caching_solver_correct_bestfirst (sv dedup kind) (H T) 10 80 (wellFormed dedup kind)).2.2 t ht).2.2 hend).1 10 opt10).2.2

/-- a best-first run of the solver with cache and checker that ends with the empty fringe, without panic, on 5 -/
theorem joint_run (dedup : Bool) (kind : CutsetKind) :
    ∃ t, KDRun (dv dedup kind) (KDSt.init (dv dedup kind)) t ∧ t.st.fringe = [] ∧ t.st.crashed = false ∧
      t.st.completion = (true, some 5) := by
  have h := joint_value dedup (by cases dedup <;> simp) kind (by cases kind <;> simp)
  exact ⟨_, kdsolveLoop_run (dv dedup kind) 6 _, List.eq_nil_of_length_eq_zero h.1, h.2.2.2, h.2.1⟩

/-- **FINDING D16, packaged**: a well-formed model with optimum 10 and a rule that has a protected optimal strategy and is
    admissible in the potential form for all pairs of values; with the cache alone and with the checker alone every run ends
    with `is_exact = true`, `Some(10)`; with both a best-first run ends with `is_exact = true`, `Some(5)` — every fringe, every
    cut-set kind -/
theorem finding (dedup : Bool) (kind : CutsetKind) :
    WellFormed (dv dedup kind).sv (H T) 10 80 ∧ (H T 0 (prob T).init).addI (prob T).initVal = some 10 ∧
    UndomOpt rule (prob T) (H T) 10 ∧ AdmissibleAll rule (H T) ∧
    (∀ t, KRun (sv dedup kind) (KSt.init (sv dedup kind)) t → t.st.fringe = [] → t.st.completion = (true, some 10)) ∧
    (∀ t, DRun (dv dedup kind) (dv dedup kind).init t → t.st.fringe = [] → t.st.completion = (true, some 10)) ∧
    (∃ t, KDRun (dv dedup kind) (KDSt.init (dv dedup kind)) t ∧ t.st.fringe = [] ∧ t.st.crashed = false ∧
      t.st.completion = (true, some 5)) :=
  ⟨wellFormed dedup kind, opt10, undomOpt, admissibleAll, cache_only_correct dedup kind, dom_only_correct dedup kind,
    joint_run dedup kind⟩

end Cross

/-- **the joint statement is false** -/
theorem caching_dominance_solver_correct_false : ¬ CachingDominanceSolverCorrect := by
  intro h
  have hJ := h Int Int (Cross.dv false .lel) (Ddo.C09.Layered.H Cross.T) 10 80 10 (Cross.wellFormed false .lel) Cross.opt10
    Cross.undomOpt
  obtain ⟨t, ht, hend, _, hc⟩ := Cross.joint_run false .lel
  have := ((hJ.2.2 t ht).2.2 hend).2.2
  rw [hc] at this
  exact absurd this (by decide)

/-- it stays false when the rule is moreover required to be admissible in the potential form for all pairs of values -/
theorem caching_dominance_admissible_false :
    ¬ ∀ (dv : DSolverCfg Int Int) (H : Nat → Int → EInt) (B0 B opt : Int), WellFormed dv.sv H B0 B →
        (H 0 dv.sv.P.init).addI dv.sv.P.initVal = some opt → UndomOpt dv.D dv.sv.P H opt → AdmissibleAll dv.D H →
        ∀ t, KDRun dv (KDSt.init dv) t → t.st.fringe = [] → t.st.completion = (true, some opt) := by
  intro h
  obtain ⟨t, ht, hend, _, hc⟩ := Cross.joint_run false .lel
  have := h (Cross.dv false .lel) (Ddo.C09.Layered.H Cross.T) 10 80 10 (Cross.wellFormed false .lel) Cross.opt10
    Cross.undomOpt Cross.admissibleAll t ht hend
  rw [hc] at this
  exact absurd this (by decide)

/-- **the executable-loop form is false**: on `Cross` the loop is stationary after three turns, on `(true, Some(5))` -/
theorem kdsolveLoop_computes_opt_false : ¬ KdsolveLoopComputesOpt := by
  intro h
  obtain ⟨n, hfr, _, hc⟩ := h Int Int (Cross.dv false .lel) (Ddo.C09.Layered.H Cross.T) 10 80 10 (Cross.wellFormed false .lel)
    Cross.opt10 Cross.undomOpt
  have h6 := Cross.joint_value false (by simp) .lel (by simp)
  have hfr6 : ((Cross.dv false .lel).kdsolveLoop 6 (KDSt.init (Cross.dv false .lel))).st.fringe = [] :=
    List.eq_nil_of_length_eq_zero h6.1
  by_cases hn : n ≤ 6
  · have e := kdsolveLoop_stable (Cross.dv false .lel) _ n hfr 6 hn
    rw [← e] at hc
    have := h6.2.1
    unfold Cross.after at this
    rw [hc] at this
    exact absurd this (by decide)
  · have e := kdsolveLoop_stable (Cross.dv false .lel) _ 6 hfr6 n (by omega)
    rw [e] at hc
    have := h6.2.1
    unfold Cross.after at this
    rw [hc] at this
    exact absurd this (by decide)

/-! ## `CrossSim`: the simulation condition -/

namespace CrossSim
open Ddo.C09.Layered

theorem dom_only_correct (dedup : Bool) (kind : CutsetKind) (t : DSt Int Int)
    (ht : DRun (dv dedup kind) (dv dedup kind).init t) (hend : t.st.fringe = []) : t.st.completion = (true, some 15) :=
  (((dominance_solver_optimal (dv dedup kind) (H T) 10 80 15 (wellFormed dedup kind) opt15 undomOpt).2.2 t ht).2 hend).2.2

theorem cache_only_correct (dedup : Bool) (kind : CutsetKind) (t : KSt Int)
    (ht : KRun (sv dedup kind) (KSt.init (sv dedup kind)) t) (hend : t.st.fringe = []) : t.st.completion = (true, some 15) :=
  ((((caching_solver_correct_bestfirst (sv dedup kind) (H T) 10 80 (wellFormed dedup kind)).2.2 t ht).2.2 hend).1 15 opt15).2.2

theorem joint_run (dedup : Bool) (kind : CutsetKind) :
    ∃ t, KDRun (dv dedup kind) (KDSt.init (dv dedup kind)) t ∧ t.st.fringe = [] ∧ t.st.crashed = false ∧
      t.st.completion = (true, some 10) := by
  have h := joint_value dedup (by cases dedup <;> simp) kind (by cases kind <;> simp)
  exact ⟨_, kdsolveLoop_run (dv dedup kind) 6 _, List.eq_nil_of_length_eq_zero h.1, h.2.2.2, h.2.1⟩

/-- **FINDING D16, second form**: a well-formed model with optimum 15 (unique optimal solution), static variable order, and a
    rule that satisfies the simulation condition (hence `UndomOpt` and `Admissible`); cache alone: 15; checker alone: 15; both: a
    best-first run ends with `is_exact = true`, `Some(10)` -/
theorem finding (dedup : Bool) (kind : CutsetKind) :
    WellFormed (dv dedup kind).sv (H T) 10 80 ∧ (H T 0 (prob T).init).addI (prob T).initVal = some 15 ∧
    StaticOrder (prob T) ∧ SimAdmissible rule (prob T) 1 ∧ UndomOpt rule (prob T) (H T) 15 ∧ Admissible rule (prob T) (H T) ∧
    (∀ t, KRun (sv dedup kind) (KSt.init (sv dedup kind)) t → t.st.fringe = [] → t.st.completion = (true, some 15)) ∧
    (∀ t, DRun (dv dedup kind) (dv dedup kind).init t → t.st.fringe = [] → t.st.completion = (true, some 15)) ∧
    (∃ t, KDRun (dv dedup kind) (KDSt.init (dv dedup kind)) t ∧ t.st.fringe = [] ∧ t.st.crashed = false ∧
      t.st.completion = (true, some 10)) :=
  ⟨wellFormed dedup kind, opt15, staticOrder, simAdmissible, undomOpt, admissible, cache_only_correct dedup kind,
    dom_only_correct dedup kind, joint_run dedup kind⟩

end CrossSim

/-- **the joint statement is false for simulation-admissible rules** (`SimAdmissible` + `StaticOrder`, the sufficient condition
    of `Props/C10b.lean`) -/
theorem caching_dominance_sim_false :
    ¬ ∀ (dv : DSolverCfg Int Int) (H : Nat → Int → EInt) (B0 B opt : Int) (n : Nat), WellFormed dv.sv H B0 B →
        (H 0 dv.sv.P.init).addI dv.sv.P.initVal = some opt → (∀ s, dv.D.dims s = n) → StaticOrder dv.sv.P →
        SimAdmissible dv.D dv.sv.P n →
        ∀ t, KDRun dv (KDSt.init dv) t → t.st.fringe = [] → t.st.completion = (true, some opt) := by
  intro h
  obtain ⟨t, ht, hend, _, hc⟩ := CrossSim.joint_run false .lel
  have := h (CrossSim.dv false .lel) (Ddo.C09.Layered.H CrossSim.T) 10 80 15 1 (CrossSim.wellFormed false .lel) CrossSim.opt15
    (fun _ => rfl) CrossSim.staticOrder CrossSim.simAdmissible t ht hend
  rw [hc] at this
  exact absurd this (by decide)

/-! ## `Twin`: the simulation condition for all pairs -/

namespace Twin
open Ddo.C09.Layered

/-- **the rule of `Twin` satisfies the simulation condition for all pairs of states and values** -/
theorem simAll : SimAll rule (prob T) 1 :=
  ⟨fun d a va b vb L x hge hnv _ db hdb => sim_step d a va b vb L x hge hnv db hdb, fun _ _ _ _ hge => geItem_value hge⟩

theorem dom_only_correct (dedup : Bool) (kind : CutsetKind) (t : DSt Int Int)
    (ht : DRun (dv dedup kind) (dv dedup kind).init t) (hend : t.st.fringe = []) : t.st.completion = (true, some 10) :=
  (((dominance_solver_optimal (dv dedup kind) (H T) 10 80 10 (wellFormed dedup kind) opt10 undomOpt).2.2 t ht).2 hend).2.2

theorem cache_only_correct (dedup : Bool) (kind : CutsetKind) (t : KSt Int)
    (ht : KRun (sv dedup kind) (KSt.init (sv dedup kind)) t) (hend : t.st.fringe = []) : t.st.completion = (true, some 10) :=
  ((((caching_solver_correct_bestfirst (sv dedup kind) (H T) 10 80 (wellFormed dedup kind)).2.2 t ht).2.2 hend).1 10 opt10).2.2

theorem joint_run (dedup : Bool) (kind : CutsetKind) :
    ∃ t, KDRun (dv dedup kind) (KDSt.init (dv dedup kind)) t ∧ t.st.fringe = [] ∧ t.st.crashed = false ∧
      t.st.completion = (true, some 5) := by
  have h := joint_value dedup (by cases dedup <;> simp) kind (by cases kind <;> simp)
  exact ⟨_, kdsolveLoop_run (dv dedup kind) 8 _, List.eq_nil_of_length_eq_zero h.1, h.2.2.2, h.2.1⟩

/-- the merge operator of `Twin` (largest state) is **not** maximal for the rule: `{0, 1}` is merged to `1`, which the rule puts
    below `0` -/
theorem not_mergeCompat : ¬ MergeCompat rule (rlx T) 1 := by
  intro h
  rcases h.merge [0, 1] 0 0 (by simp) with ⟨h1, _⟩ | ⟨_, h2⟩
  · exact absurd h1 (by decide)
  · exact absurd h2 (by decide)

/-- **FINDING D16, strongest form**: well-formed model, optimum 10, static order, a rule that satisfies the simulation condition for
    all pairs of states and values (the two comparable states have identical transitions and costs), hence `SimAdmissible`,
    `UndomOpt`, `AdmissibleAll`; cache alone: every run ends with 10; checker alone: every run ends with 10; both: a best-first run
    (forced pop order) ends with `is_exact = true`, `Some(5)` — every fringe, every cut-set kind -/
theorem finding (dedup : Bool) (kind : CutsetKind) :
    WellFormed (dv dedup kind).sv (H T) 10 80 ∧ (H T 0 (prob T).init).addI (prob T).initVal = some 10 ∧
    StaticOrder (prob T) ∧ SimAll rule (prob T) 1 ∧ SimAdmissible rule (prob T) 1 ∧ UndomOpt rule (prob T) (H T) 10 ∧
    AdmissibleAll rule (H T) ∧
    (∀ t, KRun (sv dedup kind) (KSt.init (sv dedup kind)) t → t.st.fringe = [] → t.st.completion = (true, some 10)) ∧
    (∀ t, DRun (dv dedup kind) (dv dedup kind).init t → t.st.fringe = [] → t.st.completion = (true, some 10)) ∧
    (∃ t, KDRun (dv dedup kind) (KDSt.init (dv dedup kind)) t ∧ t.st.fringe = [] ∧ t.st.crashed = false ∧
      t.st.completion = (true, some 5)) :=
  ⟨wellFormed dedup kind, opt10, staticOrder, simAll, simAdmissible, undomOpt, admissibleAll, cache_only_correct dedup kind,
    dom_only_correct dedup kind, joint_run dedup kind⟩

end Twin

/-! ## `Carrier`: the carrier of a potential is dropped by the checker -/

namespace Carrier
open Ddo.C09.Layered

/-- **FINDING D16, third form** (no dominance-derived threshold involved): well-formed model, optimum 13, a rule with a protected
    optimal strategy; with the duplicate-free fringe and the last-exact-layer cut-set every run with the cache alone and every run with
    the checker alone ends with 13, and a best-first run with both ends with `is_exact = true`, `Some(7)` -/
theorem finding :
    WellFormed (dv true .lel).sv (H T) 10 80 ∧ (H T 0 (prob T).init).addI (prob T).initVal = some 13 ∧
    UndomOpt rule (prob T) (H T) 13 ∧
    (∀ t, KRun (sv true .lel) (KSt.init (sv true .lel)) t → t.st.fringe = [] → t.st.completion = (true, some 13)) ∧
    (∀ t, DRun (dv true .lel) (dv true .lel).init t → t.st.fringe = [] → t.st.completion = (true, some 13)) ∧
    (∃ t, KDRun (dv true .lel) (KDSt.init (dv true .lel)) t ∧ t.st.fringe = [] ∧ t.st.crashed = false ∧
      t.st.completion = (true, some 7)) := by
  refine ⟨wellFormed true .lel, opt13, undomOpt, ?_, ?_, ?_⟩
  · intro t ht hend
    exact ((((caching_solver_correct_bestfirst (sv true .lel) (H T) 10 80 (wellFormed true .lel)).2.2 t ht).2.2 hend).1 13 opt13).2.2
  · intro t ht hend
    exact (((dominance_solver_optimal (dv true .lel) (H T) 10 80 13 (wellFormed true .lel) opt13 undomOpt).2.2 t ht).2 hend).2.2
  · exact ⟨_, kdsolveLoop_run (dv true .lel) 8 _, List.eq_nil_of_length_eq_zero joint_value.1, joint_value.2.2.2, joint_value.2.1⟩

end Carrier

/-! ## the knapsack rule: both mechanisms prune, the value is the optimum -/

namespace Kp
open Ddo.C10.Kp

set_option maxRecDepth 100000 in
/-- on `Ddo.C10.Kp` (capacity 5, items (2,3), (3,3), (4,5); the knapsack rule of the `ddo` documentation) the solver with cache
    and checker returns the optimum 6 — widths 1, 2, 3, both fringes, both cut-set kinds -/
theorem joint_value : ∀ w ∈ [1, 2, 3], ∀ dedup ∈ [false, true], ∀ kind ∈ [CutsetKind.lel, CutsetKind.frontier],
    ((dv w dedup kind).kdsolveLoop 12 (KDSt.init (dv w dedup kind))).st.fringe.length = 0 ∧
    ((dv w dedup kind).kdsolveLoop 12 (KDSt.init (dv w dedup kind))).st.completion = (true, some 6) ∧
    ((dv w dedup kind).kdsolveLoop 12 (KDSt.init (dv w dedup kind))).st.crashed = false := by decide

/-- the state after the first turn (width 2, duplicate-free fringe, frontier cut-set) -/
def after1 : KDSt Int Unit := (dv 2 true .frontier).kdsolveLoop 1 (KDSt.init (dv 2 true .frontier))

set_option maxRecDepth 100000 in
/-- **both mechanisms prune** (width 2, duplicate-free fringe, frontier cut-set; two turns): the compilations of the root receive two
    `dominated` verdicts from the checker; the second turn pops `(capacity 3, value 3, depth 1)` and its restricted compilation has a
    node pruned by `_filter_with_cache` -/
theorem both_prune :
    ((dv 2 true .frontier).kdsolveLoop 12 (KDSt.init (dv 2 true .frontier))).st.explored = 2 ∧
    ((dv 2 true .frontier).kdcompR (Cache.init 3) (DomStore.init 3) ⟨5, 0, [], iMax, 0⟩ iMin).2.2.2.ndom +
      ((dv 2 true .frontier).kdcompX (Cache.init 3)
        ((dv 2 true .frontier).kdcompR (Cache.init 3) (DomStore.init 3) ⟨5, 0, [], iMax, 0⟩ iMin).2.2.2.store
        ⟨5, 0, [], iMax, 0⟩ 6).2.2.2.ndom = 2 ∧
    (popMax after1.st.fringe).map (fun Nr => (Nr.1.state, Nr.1.value, Nr.1.depth)) = some (3, 3, 1) ∧
    (match popMax after1.st.fringe with
     | none => false
     | some (N, _) =>
       match cleanCache 3 after1.st.openByLayer 3 after1.st.firstActive after1.cache with
       | none => false
       | some c0 => ((dv 2 true .frontier).kdcompR c0 after1.store N after1.st.bestLb).2.2.2.layers.any
           (fun ly => ly.any (·.cache))) = true := by decide

end Kp

/-- the joint statement for rules that satisfy the simulation condition for all pairs, with a static variable order.
    **False**: `caching_dominance_simAll_false` (model `Twin`). -/
def CachingDominanceSimAll : Prop :=
  ∀ (S K : Type) [DecidableEq S] [DecidableEq K] (dv : DSolverCfg S K) (H : Nat → S → EInt) (B0 B opt : Int) (n : Nat),
    WellFormed dv.sv H B0 B → (H 0 dv.sv.P.init).addI dv.sv.P.initVal = some opt → (∀ s, dv.D.dims s = n) →
    StaticOrder dv.sv.P → SimAll dv.D dv.sv.P n → JointCorrect dv opt

/-- **the joint statement is false even for rules that satisfy the simulation condition for all pairs of states and values** -/
theorem caching_dominance_simAll_false : ¬ CachingDominanceSimAll := by
  intro h
  have hJ := h Int Int (Twin.dv false .lel) (Ddo.C09.Layered.H Twin.T) 10 80 10 1 (Twin.wellFormed false .lel) Twin.opt10
    (fun _ => rfl) Twin.staticOrder Twin.simAll
  obtain ⟨t, ht, hend, _, hc⟩ := Twin.joint_run false .lel
  have := ((hJ.2.2 t ht).2.2 hend).2.2
  rw [hc] at this
  exact absurd this (by decide)

/-- **open** (stated, not proved; no counter-example in 4.3 million runs of the search): the joint statement for rules that satisfy
    the simulation condition for all pairs, with a static variable order and a merge operator that is maximal for the rule -/
def CachingDominanceCompat : Prop :=
  ∀ (S K : Type) [DecidableEq S] [DecidableEq K] (dv : DSolverCfg S K) (H : Nat → S → EInt) (B0 B opt : Int) (n : Nat),
    WellFormed dv.sv H B0 B → (H 0 dv.sv.P.init).addI dv.sv.P.initVal = some opt → (∀ s, dv.D.dims s = n) →
    StaticOrder dv.sv.P → SimAll dv.D dv.sv.P n → MergeCompat dv.D dv.sv.R n → JointCorrect dv opt

/-- stated, not proved: for **every** rule (no hypothesis on it) the solver with cache and checker terminates, never panics, and only
    ever reports the value of a stored solution that is a feasible complete path (so `best_lb ≤ optimum`) — what
    `Ddo.C09.caching_solver_anyorder_sound` says of the caching solver for every pop order -/
def JointSound : Prop :=
  ∀ (S K : Type) [DecidableEq S] [DecidableEq K] (dv : DSolverCfg S K) (H : Nat → S → EInt) (B0 B : Int),
    WellFormed dv.sv H B0 B →
    WellFounded (fun t s : KDSt S K => KDRun dv (KDSt.init dv) s ∧ KDStep dv s t) ∧
    ∀ t, KDRun dv (KDSt.init dv) t →
      (t.st.fringe ≠ [] → ∃ u, KDStep dv t u) ∧ t.st.crashed = false ∧ t.st.abort = false ∧
      (∀ opt, (H 0 dv.sv.P.init).addI dv.sv.P.initVal = some opt →
        t.st.bestLb ≤ opt ∧ ∀ p, t.st.bestSol = some p → SolOf dv.sv.P p t.st.bestLb) ∧
      ((H 0 dv.sv.P.init).addI dv.sv.P.initVal = none → t.st.bestSol = none)

namespace Kp
open Ddo.C10.Kp

/-- the knapsack rule satisfies the simulation condition for all pairs of states and values -/
theorem simAll : SimAll rule prob 1 := by
  constructor
  · intro d a va b vb L x hge hnv _ db hdb
    rw [geItem_iff] at hge
    simp only [prob] at hdb ⊢
    by_cases hw : wt x ≤ b
    · rw [if_pos hw] at hdb
      have hwa : wt x ≤ a := by omega
      rw [if_pos hwa]
      have hd' : db = 1 ∨ db = 0 := by simpa using hdb
      rcases hd' with rfl | rfl
      · refine ⟨1, by simp, ?_⟩
        rw [geItem_iff]; simp only [if_true]; omega
      · refine ⟨0, by simp, ?_⟩
        rw [geItem_iff]; simp only [Int.zero_ne_one, if_false]; omega
    · rw [if_neg hw] at hdb
      have hd' : db = 0 := by simpa using hdb
      subst hd'
      refine ⟨0, by split <;> simp, ?_⟩
      rw [geItem_iff]; simp only [Int.zero_ne_one, if_false]; omega
  · intro a va b vb hge
    rw [geItem_iff] at hge
    exact hge.2

/-- the merge operator of the knapsack model (largest remaining capacity) is maximal for the knapsack rule -/
theorem mergeCompat : MergeCompat rule rlx 1 := by
  constructor
  · intro X u v hu
    rw [geItem_iff]
    exact ⟨maxL_ge X u hu, Int.le_refl v⟩
  · intro _ _ _ _ c
    exact Int.le_refl c

end Kp

end Ddo.C10c

#print axioms Ddo.C10c.kdsolveLoop_run
#print axioms Ddo.C10c.kdsolveLoop_stable
#print axioms Ddo.C10c.Cross.wellFormed
#print axioms Ddo.C10c.Cross.admissibleAll
#print axioms Ddo.C10c.Cross.undomOpt
#print axioms Ddo.C10c.Cross.joint_value
#print axioms Ddo.C10c.Cross.dom_only
#print axioms Ddo.C10c.Cross.cache_only
#print axioms Ddo.C10c.Cross.stage1
#print axioms Ddo.C10c.Cross.stage2a
#print axioms Ddo.C10c.Cross.stage2b
#print axioms Ddo.C10c.Cross.stage3
#print axioms Ddo.C10c.Cross.stage_end
#print axioms Ddo.C10c.Cross.theta_unjustified
#print axioms Ddo.C10c.Cross.finding
#print axioms Ddo.C10c.caching_dominance_solver_correct_false
#print axioms Ddo.C10c.caching_dominance_admissible_false
#print axioms Ddo.C10c.kdsolveLoop_computes_opt_false
#print axioms Ddo.C10c.CrossSim.wellFormed
#print axioms Ddo.C10c.CrossSim.simAdmissible
#print axioms Ddo.C10c.CrossSim.undomOpt
#print axioms Ddo.C10c.CrossSim.not_admissibleAll
#print axioms Ddo.C10c.CrossSim.joint_value
#print axioms Ddo.C10c.CrossSim.dom_only
#print axioms Ddo.C10c.CrossSim.cache_only
#print axioms Ddo.C10c.CrossSim.stage1
#print axioms Ddo.C10c.CrossSim.stage2
#print axioms Ddo.C10c.CrossSim.stage3
#print axioms Ddo.C10c.CrossSim.stage_end
#print axioms Ddo.C10c.CrossSim.finding
#print axioms Ddo.C10c.caching_dominance_sim_false
#print axioms Ddo.C10c.Twin.wellFormed
#print axioms Ddo.C10c.Twin.simAll
#print axioms Ddo.C10c.Twin.simAdmissible
#print axioms Ddo.C10c.Twin.undomOpt
#print axioms Ddo.C10c.Twin.admissibleAll
#print axioms Ddo.C10c.Twin.not_mergeCompat
#print axioms Ddo.C10c.Twin.joint_value
#print axioms Ddo.C10c.Twin.dom_only
#print axioms Ddo.C10c.Twin.cache_only
#print axioms Ddo.C10c.Twin.stage1
#print axioms Ddo.C10c.Twin.stage2
#print axioms Ddo.C10c.Twin.stage3
#print axioms Ddo.C10c.Twin.stage3b
#print axioms Ddo.C10c.Twin.stage4
#print axioms Ddo.C10c.Twin.stage_end
#print axioms Ddo.C10c.Twin.finding
#print axioms Ddo.C10c.caching_dominance_simAll_false
#print axioms Ddo.C10c.Carrier.undomOpt
#print axioms Ddo.C10c.Carrier.joint_value
#print axioms Ddo.C10c.Carrier.single_values
#print axioms Ddo.C10c.Carrier.stage2
#print axioms Ddo.C10c.Carrier.stage3
#print axioms Ddo.C10c.Carrier.stage4
#print axioms Ddo.C10c.Carrier.stage_end
#print axioms Ddo.C10c.Carrier.finding
#print axioms Ddo.C10c.Kp.joint_value
#print axioms Ddo.C10c.Kp.both_prune
#print axioms Ddo.C10c.Kp.simAll
#print axioms Ddo.C10c.SimAll.sim
#print axioms Ddo.C10c.Kp.mergeCompat
