import DdoModel.Proofs.PooledInv
import DdoModel.Props.C13b
/-! # C13 (sentence 1) for the pooled diagram — the maximum width bounds the work done per layer

Model: `DdoModel/Pooled.lean` (`_squash_if_needed` of `pooled.rs` = the `needRestrict` / `needRelax` tests of
`prepLayerP`).  "Block `i`" = the `i`-th iteration of the compilation loop, opened by the `i`-th `next_variable` call
at depth `root.depth + i`; entry `i` of `Result.expanded` counts the `for_each_in_domain` calls of block `i`.

* `compileP_expanded_le_width`: entry `i` of `Result.expanded` is at most `width`
  - for every `i` in a restricted compilation;
  - in a relaxed compilation, for every `i` such that **at least two layers were materialised before block `i`**
    (`matBefore pd.layers (root.depth + i) ≥ 2`, `pd` the final diagram).
* `compileP_expanded_le_width_of_index`: when moreover every iteration before `i` materialised a layer (as many
  layers at a depth `< root.depth + i` as iterations), this is `2 ≤ i`, the clean statement.
* `compileP_expanded_le_width_allImpacted`: that is the case when every variable impacts every state (`AllImpacted`, no
  long arcs): then the pooled diagram satisfies exactly the clean statement (`i ≥ 2` when relaxed).

**Difference with the clean diagram (`Ddo.C13.compile_expanded_le_width`).**  `Mdd` exempts the layers of index
`0` and `1` (`layers.len() > 1`, and `layers` gets one entry per iteration).  `Pooled` tests `self.layers.len() >= 2`
where `layers` only holds the *non-empty* layers: an iteration in which no pool node is impacted by the variable
materialises nothing, so the exemption lasts until two layers are non-empty — with long arcs this can be any
iteration, not just the first two.  In terms of the *index of the materialised layer* the exemption is the same as in
`Mdd` (the layers of index `0` — the root — and `1`); in terms of the *iteration index* `i` by which `Result.expanded`
is indexed (one entry per `next_variable` call) it is not.  `Witness` below: root not impacted by the first variable; the relaxed pooled
compilation of width 1 expands 3 nodes in block 2 (the clean diagram on the same input expands 1). -/
set_option linter.unusedSectionVars false
set_option linter.unusedVariables false
namespace Ddo.C13
open Ddo Ddo.Width Ddo.Pooled
variable {S K : Type} [DecidableEq S] [DecidableEq K]

/-- one layer step: the number of positions handed to the expansion — hence of `for_each_in_domain` calls — is at
    most `width` in a restricted compilation, and in a relaxed one as soon as two layers are materialised -/
theorem stepLayerP_domain_calls_le_width (cfg : Cfg S K) (pd pd' : PD S K) (var : Nat)
    (h : stepLayerP cfg pd var = some pd')
    (hb : cfg.ctype = .restricted ∨ (cfg.ctype = .relaxed ∧ 2 ≤ pd.layers.length)) :
    domCount pd'.log ≤ domCount pd.log + cfg.width := by
  obtain ⟨k, hg, hk⟩ := stepLayerP_log cfg pd pd' var h
  have h1 := hg.domCount_le
  have h2 : k ≤ cfg.width := hk hb
  omega

/-- **C13 (sentence 1), pooled diagram, on the observable of a whole compilation.**  `r` is either admissible result of
    `compileP`, `pd = (compileP …).2.2.2` the final diagram.  Entry `i` of `r.expanded` is at most `width` when the
    compilation is restricted, or relaxed with at least two layers materialised at a depth `< root.depth + i`. -/
theorem compileP_expanded_le_width (cfg : Cfg S K) (cache : Cache S) (store : DomStore S K) (polls : Nat)
    (stopAt : Option Nat) (r : Result S)
    (hr : r = (compileP cfg cache store polls stopAt).2.1 ∨ some r = (compileP cfg cache store polls stopAt).2.2.1)
    (i x : Nat) (hx : r.expanded[i]? = some x)
    (hb : cfg.ctype = .restricted ∨
      (cfg.ctype = .relaxed ∧
        2 ≤ matBefore (compileP cfg cache store polls stopAt).2.2.2.layers (cfg.root.depth + i))) :
    x ≤ cfg.width := by
  rcases compileP_results cfg cache store polls stopAt r hr with h0 | ⟨e, rfl⟩
  · rw [h0] at hx; cases hx
  · rw [finalizeP_expanded] at hx
    have hw := buildLoopP_wpost cfg stopAt (cfg.P.nbVars + 2) _ (initPD_winv cfg cache store polls)
    rw [← compileP_pd] at hw
    exact hw.ok i x hx hb

/-- the restricted case, no side condition -/
theorem compileP_expanded_le_width_restricted (cfg : Cfg S K) (cache : Cache S) (store : DomStore S K) (polls : Nat)
    (stopAt : Option Nat) (r : Result S)
    (hr : r = (compileP cfg cache store polls stopAt).2.1 ∨ some r = (compileP cfg cache store polls stopAt).2.2.1)
    (hc : cfg.ctype = .restricted) (i x : Nat) (hx : r.expanded[i]? = some x) : x ≤ cfg.width :=
  compileP_expanded_le_width cfg cache store polls stopAt r hr i x hx (.inl hc)

/-- the relaxed case when every iteration before block `i` materialised a layer: `2 ≤ i` suffices, as for `Mdd` -/
theorem compileP_expanded_le_width_of_index (cfg : Cfg S K) (cache : Cache S) (store : DomStore S K) (polls : Nat)
    (stopAt : Option Nat) (r : Result S)
    (hr : r = (compileP cfg cache store polls stopAt).2.1 ∨ some r = (compileP cfg cache store polls stopAt).2.2.1)
    (hc : cfg.ctype = .relaxed) (i x : Nat) (hx : r.expanded[i]? = some x) (hi : 2 ≤ i)
    (hall : matBefore (compileP cfg cache store polls stopAt).2.2.2.layers (cfg.root.depth + i) = i) : x ≤ cfg.width :=
  compileP_expanded_le_width cfg cache store polls stopAt r hr i x hx (.inr ⟨hc, by omega⟩)

/-- **without long arcs the pooled statement is the clean one**: when every variable impacts every state
    (`AllImpacted`), every iteration materialises a layer, and entry `i` of `Result.expanded` of a relaxed compilation
    is at most `width` for every `i ≥ 2` -/
theorem compileP_expanded_le_width_allImpacted (cfg : Cfg S K) (cache : Cache S) (store : DomStore S K) (polls : Nat)
    (stopAt : Option Nat) (hall : AllImpacted cfg.P) (r : Result S)
    (hr : r = (compileP cfg cache store polls stopAt).2.1 ∨ some r = (compileP cfg cache store polls stopAt).2.2.1)
    (i x : Nat) (hx : r.expanded[i]? = some x)
    (hb : cfg.ctype = .restricted ∨ (cfg.ctype = .relaxed ∧ 2 ≤ i)) : x ≤ cfg.width := by
  rcases hb with hb | ⟨hb, hi⟩
  · exact compileP_expanded_le_width cfg cache store polls stopAt r hr i x hx (.inl hb)
  · refine compileP_expanded_le_width cfg cache store polls stopAt r hr i x hx (.inr ⟨hb, ?_⟩)
    rcases compileP_results cfg cache store polls stopAt r hr with h0 | ⟨e, rfl⟩
    · rw [h0] at hx; cases hx
    · rw [finalizeP_expanded] at hx
      have hw := buildLoopP_wpost cfg stopAt (cfg.P.nbVars + 2) _ (initPD_winv cfg cache store polls)
      obtain ⟨k, hk⟩ := buildLoopP_full cfg hall stopAt (cfg.P.nbVars + 2) _ 0 (initPD_full cfg cache store polls)
      rw [← compileP_pd] at hw hk
      rw [hk.matBefore]
      have hlt := Cover.lt_of_getElem?_some hx
      rw [List.length_reverse] at hlt
      have hlen := hw.len
      rw [hk.depth] at hlen
      omega

/-! ## the side condition cannot be replaced by `2 ≤ i`: a witness with a skipped variable

Four variables, domain `{0,1,2}` everywhere, `width = 1`, state = last decision; **no state is impacted by variable 0**.
Iteration 0 materialises nothing (the root stays in the pool), iteration 1 expands the root, iteration 2 sees only one
materialised layer and does not relax: 3 nodes expanded in block 2, although `2 ≤ 2`.  From block 3 on the bound holds.
The clean diagram on the same input relaxes at index 2. -/
namespace WitnessP

def P : Problem Int :=
  { nbVars := 4, init := 0, initVal := 0, trans := fun _ d => d.val, cost := fun _ _ _ => 0,
    nextVar := fun k _ => if k < 4 then some k else none, domain := fun _ _ => [0, 1, 2],
    impacted := fun v _ => decide (1 ≤ v) }
def R : Relax Int := { merge := fun _ => 7, relax := fun _ _ _ _ c => c, rub := fun _ => 10 }
def cfg (ct : CompType) : Cfg Int Unit :=
  { P := P, R := R, rank := ⟨fun a b => compare a b⟩, dom := none, useCache := false, kind := .frontier, ctype := ct,
    width := 1, root := { state := 0, value := 0, path := [], ub := 100, depth := 0 }, lb := -1 }

/-- relaxed, pooled: block 2 exceeds the width -/
example : (compileP (cfg .relaxed) (Cache.init 4) (DomStore.init 4) 0 none).2.1.expanded = [0, 1, 3, 1, 0] := by decide
/-- … because only one layer is materialised before it (depths of the materialised layers: 1, 2, 3) -/
example : (compileP (cfg .relaxed) (Cache.init 4) (DomStore.init 4) 0 none).2.2.2.layers.map (·.1) = [1, 2, 3] := by decide
example : matBefore (compileP (cfg .relaxed) (Cache.init 4) (DomStore.init 4) 0 none).2.2.2.layers 2 = 1 := by decide
example : matBefore (compileP (cfg .relaxed) (Cache.init 4) (DomStore.init 4) 0 none).2.2.2.layers 3 = 2 := by decide
/-- the clean diagram on the same input: bounded from index 2 on -/
example : (compile (cfg .relaxed) (Cache.init 4) (DomStore.init 4) 0 none).2.1.expanded = [1, 3, 1, 1, 0] := by decide
/-- restricted, pooled: never more than the width -/
example : (compileP (cfg .restricted) (Cache.init 4) (DomStore.init 4) 0 none).2.1.expanded = [0, 1, 1, 1, 0] := by decide

/-! ### a second instance, with a genuine long arc

Three variables; block 0 expands the root `0` into `1, 2, 3`; state `3` is not impacted by variable 1 and stays in the pool
during block 1 (long arc `0 → 3`); block 2 is the first one with two materialised layers before it: it merges `3, 4, 5`
and expands 1 node.  Block 1 (one materialised layer before it) expands 2 > width nodes, as allowed. -/
def PL : Problem Int :=
  { nbVars := 3, init := 0, initVal := 0, trans := fun _ d => d.val, cost := fun s t _ => s + t,
    nextVar := fun k _ => if k < 3 then some k else none,
    domain := fun v _ => if v = 0 then [1, 2, 3] else if v = 1 then [4, 5] else [6],
    impacted := fun v s => !(v == 1 && s == 3) }
def cfgL (ct : CompType) : Cfg Int Unit :=
  { P := PL, R := { merge := fun _ => 9, relax := fun _ _ _ _ c => c, rub := fun _ => 100 },
    rank := ⟨fun a b => compare a b⟩, dom := none, useCache := false, kind := .frontier, ctype := ct,
    width := 1, root := { state := 0, value := 0, path := [], ub := 100, depth := 0 }, lb := -1 }

example : (compileP (cfgL .relaxed) (Cache.init 3) (DomStore.init 3) 0 none).2.1.expanded = [1, 2, 1, 0] := by decide
example : (compileP (cfgL .relaxed) (Cache.init 3) (DomStore.init 3) 0 none).2.2.2.layers.map
    (fun l => (l.1, l.2.map (·.state))) = [(0, [0]), (1, [1, 2]), (2, [3, 4, 5, 9])] := by decide
example : (compileP (cfgL .restricted) (Cache.init 3) (DomStore.init 3) 0 none).2.1.expanded = [1, 1, 1, 0] := by decide

end WitnessP

end Ddo.C13

#print axioms Ddo.C13.compileP_expanded_le_width
#print axioms Ddo.C13.compileP_expanded_le_width_restricted
#print axioms Ddo.C13.compileP_expanded_le_width_of_index
#print axioms Ddo.C13.compileP_expanded_le_width_allImpacted
#print axioms Ddo.C13.stepLayerP_domain_calls_le_width
