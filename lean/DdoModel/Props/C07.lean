import DdoModel.Proofs.MddExact
/-! C07 — the node flag `is_exact` is sound, and restricted / exact compilations are feasible lower bounds.

* `Ddo.C07.exact_nodes_reachable` (A): at the end of the top-down compilation (`buildLoop`, any fuel, so
  at every intermediate stage as well), for any compilation type and any cache / dominance
  configuration, every node flagged exact is reached exactly (`Reach`) by the root path followed by the
  decisions of its `best` chain.  `exact_nodes_reachable_gen` is the same with any decision list `p0`
  reaching the root sub-problem in place of `cfg.root.path`; `exact_nodes_step` is the one-layer step
  of the underlying invariant `Ddo.MInv`.
* `Ddo.C07.restricted_sound` (B): a restricted or exact compilation that ends normally reports as best
  value the value of a genuinely feasible complete solution, and reports that solution
  (`restricted_sound_detail`: the same in terms of the final diagram, with `p0`).

All proofs are in `DdoModel/Proofs/MddExact.lean`. -/
namespace Ddo.C07
open Ddo
variable {S K : Type} [DecidableEq S] [DecidableEq K]

omit [DecidableEq S] [DecidableEq K] in
/-- the root sub-problem of a compilation started at the problem root is exact -/
theorem root_reach (cfg : Cfg S K) (hd : cfg.root.depth = 0) (hs : cfg.root.state = cfg.P.init)
    (hv : cfg.root.value = cfg.P.initVal) (hp : cfg.root.path = []) :
    Reach cfg.P cfg.root.depth cfg.root.state cfg.root.value cfg.root.path := by
  rw [hd, hs, hv, hp]; exact .root

/-- **(A)**, general form: `p0` is any decision list by which the root sub-problem is reached exactly.
    Every node flagged exact of the diagram built by `buildLoop` — in any layer of `dd.layers` and in
    `dd.next` (the layer under construction, the terminal layer at loop exit) — is reached exactly from
    the problem root by `p0 ++ (bestPath dd.layers fuel' n).reverse` (any `fuel' ≥` the index of its
    layer), and sits at depth `cfg.root.depth + ` (index of its layer).  See `Ddo.ExactReach`.

    Hypotheses: the root sub-problem is exact (`hroot`); no saturation (`hB`); `fuel ≤ nbVars + 2`
    (`compile` uses exactly `nbVars + 2`): it bounds the number of layers, which is what makes
    `NoClamp.small` applicable. -/
theorem exact_nodes_reachable_gen (cfg : Cfg S K) (B : Int) (p0 : List Dec)
    (hB : NoClamp cfg.P cfg.R cfg.root.value B)
    (hroot : Reach cfg.P cfg.root.depth cfg.root.state cfg.root.value p0)
    (cache : Cache S) (store : DomStore S K) (polls : Nat) (stopAt : Option Nat) (fuel : Nat)
    (hfuel : fuel ≤ cfg.P.nbVars + 2) :
    ExactReach cfg p0 (buildLoop cfg stopAt fuel (initDD cfg cache store polls)).1 :=
  buildLoop_exact_reach cfg B p0 hB hroot cache store polls stopAt fuel hfuel

/-- **(A)** with `p0 := cfg.root.path`, unfolded: every exact node `n` of layer `l` of `dd.layers`, and
    every exact node of `dd.next` (`l = dd.layers.length`), satisfies
    `Reach cfg.P n.depth n.state n.value (cfg.root.path ++ (bestPath dd.layers fuel' n).reverse)` for every
    `fuel' ≥ l`, and `n.depth = cfg.root.depth + l`. -/
theorem exact_nodes_reachable (cfg : Cfg S K) (B : Int) (hB : NoClamp cfg.P cfg.R cfg.root.value B)
    (hroot : Reach cfg.P cfg.root.depth cfg.root.state cfg.root.value cfg.root.path)
    (cache : Cache S) (store : DomStore S K) (polls : Nat) (stopAt : Option Nat) (fuel : Nat)
    (hfuel : fuel ≤ cfg.P.nbVars + 2) :
    let dd := (buildLoop cfg stopAt fuel (initDD cfg cache store polls)).1
    (∀ (l : Nat) (ly : List (Node S)), dd.layers[l]? = some ly → ∀ n ∈ ly, n.isExact = true →
      n.depth = cfg.root.depth + l ∧ ∀ fuel', l ≤ fuel' →
        Reach cfg.P n.depth n.state n.value (cfg.root.path ++ (bestPath dd.layers fuel' n).reverse)) ∧
    (∀ n ∈ dd.next, n.isExact = true →
      n.depth = cfg.root.depth + dd.layers.length ∧ ∀ fuel', dd.layers.length ≤ fuel' →
        Reach cfg.P n.depth n.state n.value (cfg.root.path ++ (bestPath dd.layers fuel' n).reverse)) :=
  exact_nodes_reachable_gen cfg B cfg.root.path hB hroot cache store polls stopAt fuel hfuel

/-- (A), one iteration: `stepLayer` preserves the invariant `Ddo.MInv` (which implies `ExactReach`,
    `MInv.exactReach`), from any diagram — this is the "throughout `buildLoop`" part. -/
theorem exact_nodes_step (cfg : Cfg S K) (B : Int) (p0 : List Dec) (hB : NoClamp cfg.P cfg.R cfg.root.value B)
    (dd : DD S K) (var : Nat) (hinv : MInv cfg B p0 dd) (hdepth : dd.depth = cfg.root.depth + dd.layers.length)
    (hnv : cfg.P.nextVar dd.depth (dd.next.map (·.state)) = some var)
    (hlen : dd.layers.length ≤ cfg.P.nbVars + 1) (dd' : DD S K) (oc : Outcome)
    (h : stepLayer cfg dd var = (some dd', oc)) : MInv cfg B p0 dd' ∧ ExactReach cfg p0 dd' :=
  have h' := (stepLayer_inv cfg B p0 hB dd var hinv hdepth hnv hlen dd' oc h).1
  ⟨h', h'.exactReach⟩

/-- **(B)**, detailed form, in terms of the final diagram `dd = (compile …).2.2.2`, with any `p0` reaching
    the root sub-problem: the best value `w` is the value of a node `n` of the terminal layer `dd.next`;
    `n` is (flagged exact and) reached exactly, at depth `dd.depth`, by `p0 ++ q` where `q` lists the
    decisions of its `best` chain from the root of the diagram; `nextVar` answers `none` on the states of
    the terminal layer; and the reported solution is the root path followed by these same decisions,
    last one first (`_best_path` order). -/
theorem restricted_sound_detail (cfg : Cfg S K) (B : Int) (p0 : List Dec) (cache : Cache S) (store : DomStore S K)
    (polls : Nat) (stopAt : Option Nat) (hty : cfg.ctype = .restricted ∨ cfg.ctype = .exact)
    (hroot : Reach cfg.P cfg.root.depth cfg.root.state cfg.root.value p0)
    (hB : NoClamp cfg.P cfg.R cfg.root.value B)
    (hok : (compile cfg cache store polls stopAt).1 = .ok) (w : Int)
    (hw : (compile cfg cache store polls stopAt).2.1.bestValue = some w) :
    ∃ (n : Node S) (q : List Dec),
      n ∈ (compile cfg cache store polls stopAt).2.2.2.next ∧ n.value = w ∧ n.isExact = true ∧
      Reach cfg.P (compile cfg cache store polls stopAt).2.2.2.depth n.state w (p0 ++ q) ∧
      (∀ fuel, (compile cfg cache store polls stopAt).2.2.2.layers.length ≤ fuel →
        q = (bestPath (compile cfg cache store polls stopAt).2.2.2.layers fuel n).reverse) ∧
      cfg.P.nextVar (compile cfg cache store polls stopAt).2.2.2.depth
        ((compile cfg cache store polls stopAt).2.2.2.next.map (·.state)) = none ∧
      (compile cfg cache store polls stopAt).2.1.bestSol = some (cfg.root.path ++ q.reverse) := by
  obtain ⟨hoc, hdd, hres⟩ := compile_ok cfg cache store polls stopAt hok
  rw [hres, finalize_bestValue] at hw
  rw [hres, hdd]
  obtain ⟨hinv, hterm⟩ := buildLoop_inv cfg B p0 hB stopAt (cfg.P.nbVars + 2) (initDD cfg cache store polls)
    (initDD_inv cfg B p0 hB hroot cache store polls) rfl (by simp only [initDD, List.length_nil]; omega)
  generalize (buildLoop cfg stopAt (cfg.P.nbVars + 2) (initDD cfg cache store polls)) = bl at *
  obtain ⟨dd, oc⟩ := bl
  dsimp only at hoc hw hinv hterm ⊢
  have hne : cfg.ctype ≠ .relaxed := by
    rcases hty with h | h <;> rw [h] <;> decide
  have hrel : (cfg.ctype == .relaxed) = false := by
    rcases hty with h | h <;> rw [h] <;> rfl
  obtain ⟨n, hn, hv, hsol⟩ := finalize_bestSol_eq cfg dd ((finalizeLayers dd).ebpMust (cfg.ctype == .relaxed)) hrel w hw
  have hex := hinv.allEx hne n hn
  obtain ⟨q, hq, hreach, hd, _⟩ := hinv.next n hn hex
  rcases hterm hoc with hnil | ⟨hnone, hdepth⟩
  · rw [hnil] at hn; cases hn
  · refine ⟨n, q, hn, hv, hex, ?_, fun fuel hf => (hq.bestPath_eq n rfl fuel hf).symm, hnone, hsol q hq⟩
    rw [hdepth, ← hd, ← hv]; exact hreach

/-- **(B)** restricted / exact compilations are feasible lower bounds: the reported best value `w` is
    the value of a state `s` reached exactly at some depth `k` by the decisions `cfg.root.path ++ q`,
    and `s` is complete: it belongs to a layer `L` (the terminal layer of the diagram) on which
    `nextVar` answers `none`.  Moreover the reported best solution consists of the root path followed by
    the same decisions `q`, listed last one first (the order in which `_best_path` collects them). -/
theorem restricted_sound (cfg : Cfg S K) (B : Int) (cache : Cache S) (store : DomStore S K) (polls : Nat)
    (stopAt : Option Nat) (hty : cfg.ctype = .restricted ∨ cfg.ctype = .exact)
    (hroot : Reach cfg.P cfg.root.depth cfg.root.state cfg.root.value cfg.root.path)
    (hB : NoClamp cfg.P cfg.R cfg.root.value B) :
    (compile cfg cache store polls stopAt).1 = .ok →
    ∀ w, (compile cfg cache store polls stopAt).2.1.bestValue = some w →
      ∃ (k : Nat) (s : S) (q : List Dec) (L : List S),
        Reach cfg.P k s w (cfg.root.path ++ q) ∧ s ∈ L ∧ cfg.P.nextVar k L = none ∧
        (compile cfg cache store polls stopAt).2.1.bestSol = some (cfg.root.path ++ q.reverse) := by
  intro hok w hw
  obtain ⟨n, q, hn, _, _, hreach, _, hnone, hsol⟩ :=
    restricted_sound_detail cfg B cfg.root.path cache store polls stopAt hty hroot hB hok w hw
  exact ⟨_, n.state, q, _, hreach, List.mem_map.2 ⟨n, hn, rfl⟩, hnone, hsol⟩

end Ddo.C07
