import DdoModel.Proofs.PooledCover
import DdoModel.Proofs.PooledBounds
import DdoModel.Proofs.PooledTruth
import DdoModel.Proofs.PooledProgress
import DdoModel.Proofs.PooledFix
import DdoModel.Props.C15
import DdoModel.Props.C01d
import DdoModel.Props.C07p
import DdoModel.Props.C08p
import DdoModel.Props.C08q
/-! # C15 (closed) — the pooled diagram as a third diagram implementation of the closed solver theorem

`Props/C01d.lean` closes the composition "clean diagram model ∘ sequential solver model" (`sequential_solver_correct`).  Here the
same is done for the **pooled** diagram `compileP` (`DdoModel/Pooled.lean`), whose nodes may skip the layers of the variables
that do not impact them (*long arcs*).  Helpers: `Proofs/PooledDefs.lean` (shared definitions), `PooledCover.lean` (C06),
`PooledBounds.lean` (C08 (iii), (iv)), `PooledTruth.lean` (what is reported as exact is sound), `PooledProgress.lean` (C08 (ii)).

## the contract of `is_impacted_by`: `SkipWf P H`

The pooled diagram leaves a node whose state `s` is not impacted by the variable `x` of the layer where it is: same state, same
value, depth `+ 1`, **no decision**.  With `H k s` the value-to-go (`Potential`), this is sound iff skipping changes nothing to
what can still be gained: `impacted x s = false → H (k+1) s = H k s`.  `SkipWf` states the two inequalities separately, each
exactly where it is needed — `up : H k s ≤ H (k+1) s` on every state handed to `nextVar` (upper-bound direction: C06, C08
(iii)/(iv); the counterpart of `Potential.att` for a skipped node), `down : H (k+1) s ≤ H k s` on states reached exactly
(lower-bound direction: `CompileOk.sound/within`, `CutsetOk.good/sub`; the counterpart of `Potential.le`) — plus `le`:
`Potential.le` on the states reached *with skips* (`ReachSkip`; `Potential.le` only speaks of `Reach`).  It is the right
contract because (a) it is void without long arcs (`skipWf_of_allImpacted`), (b) it follows from `Potential` and the documented
meaning of `is_impacted_by` — a decision on a variable that does not impact a state leaves the state where it is and costs nothing
(`NeutralSkip`, `skipWf_of_neutral`) —, and (c) it is necessary: `Ddo.C07.WitnessP` declares "not impacted" a state that the
variable does change, no `H` satisfies `Potential` + `SkipWf` there (`19 ≤ H 1 3 ≤ H 2 3 ≤ 9`), and skipping loses the optimum
(`D5.clean_vs_pooled`: the solver over the clean diagrams reports `119`, the pooled diagrams never see more than `109`).

## results (all with arbitrary long arcs unless `AllImpacted` is mentioned)

1. `relaxed_ub_pooled` — C06 (`Ddo.C06.relaxed_ub_rel_dom`) for `compileP`, relative to a validity predicate (`WfRel` +
   `SkipRel`); `relaxed_ub_pooled_global`.
2. `cutset_ub_valid_pooled` (iii), `cutset_cover_pooled` (iv): they **hold with long arcs**, for the repaired cut-set, under the
   hypotheses of the clean theorems + `SkipWf`.  ((i): `Ddo.C08.cutset_exact_pooled`.)
3. `bestExact_restricted_pooled`, `bestExact_relaxed_pooled` (a reported exact value is the value of the reported solution, a
   complete feasible path with skips through the root sub-problem, and is at most the optimum of the root sub-problem);
   `pooled_exact_truthful` (truthful exactness: a pooled compilation that declares itself exact reports the sub-problem optimum).
4. `compileOkP_restricted`, `compileOkP_relaxed`, `cutsetOkP_relaxed`: the contracts `CompileOk` / `CutsetOk` for `compileP`
   (`Sol := SolOfSkip`).  `CStepP` / `CRunP` / `CInvP` / `WellFormedP` (`WellFormed` + `SkipWf`), `cstepP_inv`,
   **`sequential_solver_correct_pooled`** — the closed solver theorem where both compilations are `compileP`, under `WellFormed` +
   `AllImpacted`, conclusion word for word that of `sequential_solver_correct`; `pooled_eq_clean_opt_allImpacted`.
5. long arcs: **`sequential_solver_correct_pooled_long_arcs`** — since the repair of D5 (`Proofs/PooledFix.lean`: the root of a
   pooled diagram never stands in its own cut-set, its children are handed out instead) C08 (ii) is a theorem for every model
   (`Ddo.C08.cutset_progress_pooled`, `cutProgress`), so termination + optimality hold for **every** well-formed long-arc model,
   without `SiblingsAlike`; `pooled_partial_correct_long_arcs` (coverage invariant, no crash, no panic, optimum at the empty
   fringe — (ii) is not needed) and `sequential_solver_correct_pooled_gen` (termination from `CutProgress`) are the two halves;
   `sequential_solver_correct_pooled_siblings` is kept as a special case.  About the code **before** the repair
   (`compilePOld`, `solveLoopPOld`): `d5_only_root` (the only cut-set node that was not deeper than the root was the root
   itself), `LongArc.not_cutProgress` (`WellFormedP` did not imply (ii)).
6. non-vacuity: `LongArc` (a well-formed model with a genuine long arc, `SiblingsAlike` fails: at width 1 the old loop ran for
   ever — `d5_loops_wellformed` — and the repaired loop terminates with the optimum — `repaired_terminates`, `root_replaced`);
   `D5.d5_loops` / `D5.repaired_terminates` (the witness `Ddo.C07.WitnessP`).

No clean-diagram theorem other than C08 (ii) was found to fail for the pooled model before the repair; none fails after it. -/
set_option linter.unusedSectionVars false
set_option linter.unusedVariables false
namespace Ddo.C15
open Ddo Ddo.Pooled Ddo.Truth Ddo.Closed Ddo.C01
variable {S K : Type} [DecidableEq S] [DecidableEq K]

/-! ## 0. what `finalizeP` reports -/

theorem finalizeP_isExact (cfg : Cfg S K) (pd : PD S K) (e : Bool) :
    (finalizeP cfg pd e).isExact = (pd.isExactField || e) := rfl

theorem finalizeP_bestExactValue (cfg : Cfg S K) (pd : PD S K) (e : Bool) :
    (finalizeP cfg pd e).bestExactValue =
      if e then maxValue (termsP pd) else maxValue ((termsP pd).filter (·.isExact)) := rfl

/-- the first result of a pooled compilation that ends normally: `finalizeP` of the final diagram with the bit
    `must = relaxed && …` -/
theorem compileP_result1 (cfg : Cfg S K) (cache : Cache S) (store : DomStore S K) (polls : Nat) (stopAt : Option Nat)
    (hok : (compileP cfg cache store polls stopAt).1 = .ok) :
    ∃ X : Bool, (compileP cfg cache store polls stopAt).2.1 =
      finalizeP cfg (compileP cfg cache store polls stopAt).2.2.2 ((cfg.ctype == .relaxed) && X) := by
  rw [compileP_outcome] at hok
  unfold compileP
  generalize buildLoopP cfg stopAt (cfg.P.nbVars + 2) (initPD cfg cache store polls) = bl at hok ⊢
  obtain ⟨pd, oc⟩ := bl
  dsimp only at hok
  subst hok
  exact ⟨_, rfl⟩

/-! ## 1. C06 for the pooled diagram: a relaxed pooled diagram is a valid upper bound, long arcs allowed -/

/-- **`relaxed_ub_pooled`** — the analogue of `Ddo.C06.relaxed_ub_rel_dom` for `compileP`: a relaxed pooled compilation in
    isolation (no cache, no dominance), any width, any cutoff that lets it end normally, **long arcs allowed**: if the
    optimum `o` of the root sub-problem beats the incumbent, the diagram reports a best value `≥ o` (both results).
    Relative to a layer-validity predicate `V` (`WfRel`, `NoClampDom`), as the clean theorem.

    The only new hypothesis is `hsk : SkipRel cfg.P H V` — the contract of `is_impacted_by`, upper-bound half: a state `s`
    of the list handed to `nextVar k` that is not impacted by the answer stays valid at depth `k + 1` and
    `H k s ≤ H (k+1) s` (skipping the variable loses no potential).  It is void when every variable impacts every state
    (`skipRel_of_allImpacted`), and it is the `up` clause of `SkipWf` (`SkipWf.toRel`).
    `1 ≤ cfg.width` is not needed: width `0` makes the compilation crash, which `hok` excludes. -/
theorem relaxed_ub_pooled (cfg : Cfg S K) (H : Nat → S → EInt) (V : Nat → S → Prop) (B : Int)
    (cache : Cache S) (store : DomStore S K) (polls : Nat) (stopAt : Option Nat)
    (hrel : cfg.ctype = .relaxed) (hcache : cfg.useCache = false) (hdom : cfg.dom = none)
    (hwf : WfRel cfg.P cfg.R H V) (hsk : SkipRel cfg.P H V) (hV : V cfg.root.depth cfg.root.state)
    (hB : NoClampDom cfg.P cfg.R cfg.root.value B) (hlb : InI cfg.lb)
    (o : Int) (ho : optOf H cfg.root = some o) (hgt : o > cfg.lb) (hO : o ≤ iMax ∨ cfg.lb < iMax)
    (hok : (compileP cfg cache store polls stopAt).1 = .ok) (r : Result S)
    (hr : r = (compileP cfg cache store polls stopAt).2.1 ∨ (compileP cfg cache store polls stopAt).2.2.1 = some r) :
    ∃ bv, r.bestValue = some bv ∧ o ≤ bv := by
  have hy : PCover.HypP cfg H V B o := ⟨hcache, hdom, WfX.of_rel hwf, fun _ => hwf, hsk, hB, clamp_gt hlb hgt hO⟩
  obtain ⟨bv, h1, h2⟩ := PCover.compileP_cover cfg H V B o hy cache store polls stopAt hV ho hok (.inl hrel)
  obtain ⟨e, rfl⟩ := C08.compileP_results_ok cfg cache store polls stopAt hok r hr
  rw [compileP_pd] at h1
  exact ⟨bv, by rw [finalizeP_bestValue]; exact h1, h2⟩

/-- the un-relativised form (the hypotheses of `Ddo.C06.relaxed_ub` + `SkipWf`) -/
theorem relaxed_ub_pooled_global (cfg : Cfg S K) (H : Nat → S → EInt) (B : Int)
    (cache : Cache S) (store : DomStore S K) (polls : Nat) (stopAt : Option Nat)
    (hrel : cfg.ctype = .relaxed) (hcache : cfg.useCache = false) (hdom : cfg.dom = none)
    (hP : Potential cfg.P H) (hS : SkipWf cfg.P H) (hR : RubOk cfg.R H) (hM : MergeOk cfg.R H)
    (hAM : Cover.AttMerge cfg.P cfg.R H)
    (hB : NoClamp cfg.P cfg.R cfg.root.value B) (hlb : InI cfg.lb)
    (o : Int) (ho : optOf H cfg.root = some o) (hgt : o > cfg.lb) (hO : o ≤ iMax ∨ cfg.lb < iMax)
    (hok : (compileP cfg cache store polls stopAt).1 = .ok) (r : Result S)
    (hr : r = (compileP cfg cache store polls stopAt).2.1 ∨ (compileP cfg cache store polls stopAt).2.2.1 = some r) :
    ∃ bv, r.bestValue = some bv ∧ o ≤ bv :=
  relaxed_ub_pooled cfg H (fun _ _ => True) B cache store polls stopAt hrel hcache hdom
    (Cover.wfRel_of_global hP hR hM hAM) hS.toRel trivial hB.toDom hlb o ho hgt hO hok r hr

/-! ## 2. C08 (iii), (iv) for the pooled diagram, long arcs allowed

The known defect D5 (the root may be handed out by its own cut-set) concerns clause (ii) only: (i) (`Ddo.C08.cutset_exact_pooled`),
(iii) and (iv) hold with arbitrary long arcs.  Proofs: `Proofs/PooledBounds.lean`. -/

/-- **C08 (iii), pooled**: the upper bound `min (min (value ⊕ rub) (value ⊕ vbot)) bestValue` of a cut-set sub-problem
    dominates its potential when that potential beats the incumbent.  Hypotheses of the clean theorem
    (`Ddo.C08.cutset_ub_valid`) + `SkipWf` (only `up` is used); `hroot` with skips.  (With the degenerate incumbent
    `lb = isize::MAX` the pooled cut-set is empty, as for the clean diagram: `Ddo.PBounds.compileP_lbmax_cutset`.) -/
theorem cutset_ub_valid_pooled (cfg : Cfg S K) (H : Nat → S → EInt) (B : Int) (p0 : List Dec) (cache : Cache S)
    (store : DomStore S K) (polls : Nat) (stopAt : Option Nat)
    (hrel : cfg.ctype = .relaxed) (hcache : cfg.useCache = false) (hdom : cfg.dom = none) (hW : 1 ≤ cfg.width)
    (hP : Potential cfg.P H) (hS : SkipWf cfg.P H) (hR : RubOk cfg.R H) (hM : MergeOk cfg.R H)
    (hAM : Cover.AttMerge cfg.P cfg.R H)
    (hB : NoClamp cfg.P cfg.R cfg.root.value B) (hlb : InI cfg.lb)
    (hroot : ReachSkip cfg.P cfg.root.depth cfg.root.state cfg.root.value p0)
    (hok : (compileP cfg cache store polls stopAt).1 = .ok) (r : Result S)
    (hr : r = (compileP cfg cache store polls stopAt).2.1 ∨ (compileP cfg cache store polls stopAt).2.2.1 = some r) :
    ∀ c ∈ r.cutset, ∀ x, (H c.depth c.state).addI c.value = some x → x > cfg.lb → x ≤ c.ub :=
  PBounds.cutset_ub_valid_pooled' cfg H B p0 cache store polls stopAt hrel hcache hdom hW hP hS hR hM hAM hB hlb hroot
    hok r hr

/-- **C08 (iv), pooled**: if the potential `o` of the root sub-problem beats the incumbent and the best exact value of the
    diagram, some sub-problem of the cut-set has potential `≥ o`. -/
theorem cutset_cover_pooled (cfg : Cfg S K) (H : Nat → S → EInt) (B : Int) (p0 : List Dec) (cache : Cache S)
    (store : DomStore S K) (polls : Nat) (stopAt : Option Nat)
    (hrel : cfg.ctype = .relaxed) (hcache : cfg.useCache = false) (hdom : cfg.dom = none) (hW : 1 ≤ cfg.width)
    (hP : Potential cfg.P H) (hS : SkipWf cfg.P H) (hR : RubOk cfg.R H) (hM : MergeOk cfg.R H)
    (hAM : Cover.AttMerge cfg.P cfg.R H)
    (hB : NoClamp cfg.P cfg.R cfg.root.value B) (hlb : InI cfg.lb)
    (hroot : ReachSkip cfg.P cfg.root.depth cfg.root.state cfg.root.value p0)
    (o : Int) (ho : optOf H cfg.root = some o) (hgt : o > cfg.lb) (hO : o ≤ iMax ∨ cfg.lb < iMax)
    (hok : (compileP cfg cache store polls stopAt).1 = .ok) (r : Result S)
    (hr : r = (compileP cfg cache store polls stopAt).2.1 ∨ (compileP cfg cache store polls stopAt).2.2.1 = some r)
    (hbe : ∀ be, r.bestExactValue = some be → be < o) :
    ∃ c ∈ r.cutset, ∃ y, (H c.depth c.state).addI c.value = some y ∧ o ≤ y :=
  PBounds.cutset_cover_pooled cfg H B p0 cache store polls stopAt hrel hcache hdom hW hP hS hR hM hAM hB hlb hroot o ho hgt
    hO hok r hr hbe

/-! ## 3. what a pooled compilation reports as exact is sound; truthful exactness -/

/-- a reported exact value `w` with the relation "reached with skips after `p0`, potential below that of the root
    sub-problem": the reported solution is a complete feasible path, and `w` is at most the optimum of the root sub-problem -/
theorem rel_facts (cfg : Cfg S K) (H : Nat → S → EInt) (p0 : List Dec) (hP : Potential cfg.P H) {w : Int}
    {sol : Option (List Dec)}
    (h : ∃ (k : Nat) (s : S) (q : List Dec) (L : List S),
      (ReachSkip cfg.P k s w (p0 ++ q) ∧ (H k s).addI w ≤ optOf H cfg.root) ∧ s ∈ L ∧ cfg.P.nextVar k L = none ∧
      sol = some (cfg.root.path ++ q.reverse)) :
    IsSolP cfg p0 w sol ∧ ∃ x, optOf H cfg.root = some x ∧ w ≤ x := by
  obtain ⟨k, s, q, L, ⟨hr, hle⟩, hs, hnv, hsol⟩ := h
  refine ⟨⟨k, s, q, L, hr, hs, hnv, hsol⟩, ?_⟩
  rw [hP.term k L s hnv hs] at hle
  cases hN : optOf H cfg.root with
  | none => rw [hN] at hle; exact absurd hle (by simp [EInt.addI])
  | some x =>
    rw [hN] at hle
    simp only [EInt.addI, Option.map_some, EInt.some_le_some] at hle
    exact ⟨x, rfl, by omega⟩

/-- restricted pooled compilation, any cache / dominance configuration, any cutoff: a reported exact value is the value of the
    reported solution, a complete feasible path (with skips) through the root sub-problem, and is at most the optimum of the
    root sub-problem -/
theorem bestExact_restricted_pooled (cfg : Cfg S K) (H : Nat → S → EInt) (B : Int) (p0 : List Dec)
    (cache : Cache S) (store : DomStore S K) (polls : Nat) (stopAt : Option Nat)
    (hty : cfg.ctype = .restricted ∨ cfg.ctype = .exact) (hP : Potential cfg.P H) (hS : SkipWf cfg.P H)
    (hB : NoClamp cfg.P cfg.R cfg.root.value B)
    (hroot : ReachSkip cfg.P cfg.root.depth cfg.root.state cfg.root.value p0)
    (hok : (compileP cfg cache store polls stopAt).1 = .ok) (w : Int)
    (hw : (compileP cfg cache store polls stopAt).2.1.bestExactValue = some w) :
    IsSolP cfg p0 w (compileP cfg cache store polls stopAt).2.1.bestExactSol ∧ ∃ x, optOf H cfg.root = some x ∧ w ≤ x :=
  rel_facts cfg H p0 hP (PTruth.bestExact_rel_restricted cfg B _ (pathRel_potLe hS p0 (optOf H cfg.root))
    ⟨by rw [List.append_nil]; exact hroot, EInt.le_refl _⟩ hB cache store polls stopAt hty hok w hw)

/-- relaxed pooled compilation in isolation, the `must` result: the same -/
theorem bestExact_relaxed_pooled (cfg : Cfg S K) (H : Nat → S → EInt) (B : Int) (p0 : List Dec)
    (cache : Cache S) (store : DomStore S K) (polls : Nat)
    (hrel : cfg.ctype = .relaxed) (hcache : cfg.useCache = false) (hdom : cfg.dom = none) (hW : 1 ≤ cfg.width)
    (hP : Potential cfg.P H) (hS : SkipWf cfg.P H) (hB : NoClamp cfg.P cfg.R cfg.root.value B)
    (hroot : ReachSkip cfg.P cfg.root.depth cfg.root.state cfg.root.value p0)
    (hok : (compileP cfg cache store polls none).1 = .ok) (w : Int)
    (hw : (compileP cfg cache store polls none).2.1.bestExactValue = some w) :
    IsSolP cfg p0 w (compileP cfg cache store polls none).2.1.bestExactSol ∧ ∃ x, optOf H cfg.root = some x ∧ w ≤ x :=
  rel_facts cfg H p0 hP (PTruth.bestExact_rel_relaxed cfg B _ (pathRel_potLe hS p0 (optOf H cfg.root))
    ⟨by rw [List.append_nil]; exact hroot, EInt.le_refl _⟩ hB cache store polls hrel hcache hdom hW hok w hw)

theorem maxValue_filter_all (l : List (Node S)) (h : ∀ n ∈ l, n.isExact = true) :
    maxValue (l.filter (·.isExact)) = maxValue l := by
  rw [List.filter_eq_self.2 h]

/-- **truthful exactness, pooled diagram** (the `exact` field of `CompileOk`), long arcs allowed: a pooled compilation in
    isolation — restricted, or relaxed (its `must` result) — that declares itself exact reports, as best exact value, the
    optimum `x` of the root sub-problem as soon as it beats the incumbent.
    (`hwm`: the merge clauses `MergeOk` / `AttMerge` are only needed for a relaxed compilation.) -/
theorem pooled_exact_truthful (cfg : Cfg S K) (H : Nat → S → EInt) (B : Int) (p0 : List Dec)
    (cache : Cache S) (store : DomStore S K) (polls : Nat)
    (hcache : cfg.useCache = false) (hdom : cfg.dom = none)
    (hP : Potential cfg.P H) (hS : SkipWf cfg.P H) (hR : RubOk cfg.R H)
    (hwm : cfg.ctype = .relaxed → MergeOk cfg.R H ∧ Cover.AttMerge cfg.P cfg.R H)
    (hB : NoClamp cfg.P cfg.R cfg.root.value B) (hlb : InI cfg.lb)
    (hok : (compileP cfg cache store polls none).1 = .ok)
    (hwithin : ∀ w, (compileP cfg cache store polls none).2.1.bestExactValue = some w →
      ∃ x, optOf H cfg.root = some x ∧ w ≤ x)
    (hex : (compileP cfg cache store polls none).2.1.isExact = true)
    (x : Int) (hx : optOf H cfg.root = some x) (hgt : x > cfg.lb) (hO : x ≤ iMax ∨ cfg.lb < iMax) :
    (compileP cfg cache store polls none).2.1.bestExactValue = some x := by
  obtain ⟨X, hres⟩ := compileP_result1 cfg cache store polls none hok
  have hy : PCover.HypP cfg H (fun _ _ => True) B x :=
    ⟨hcache, hdom, wfX_of_potential hP hR, fun h => Cover.wfRel_of_global hP hR (hwm h).1 (hwm h).2, hS.toRel, hB.toDom,
      clamp_gt hlb hgt hO⟩
  rw [hres] at hex hwithin ⊢
  rw [finalizeP_isExact] at hex
  -- the best value is `≥ x` …
  have hcov : (cfg.ctype = .relaxed ∨ (compileP cfg cache store polls none).2.2.2.isExactField = true) →
      ∃ bv, maxValue (termsP (compileP cfg cache store polls none).2.2.2) = some bv ∧ x ≤ bv :=
    PCover.compileP_cover cfg H (fun _ _ => True) B x hy cache store polls none trivial hx hok
  -- … and it is the best exact value
  have key : ∃ bv, (finalizeP cfg (compileP cfg cache store polls none).2.2.2
      ((cfg.ctype == .relaxed) && X)).bestExactValue = some bv ∧ x ≤ bv := by
    rw [finalizeP_bestExactValue]
    cases he : ((cfg.ctype == .relaxed) && X) with
    | true =>
      have hrelx : cfg.ctype = .relaxed := by
        rw [Bool.and_eq_true] at he
        exact beq_iff_eq.1 he.1
      simp only [if_true]
      exact hcov (.inl hrelx)
    | false =>
      rw [he] at hex
      have hief : (compileP cfg cache store polls none).2.2.2.isExactField = true := by simpa using hex
      simp only [Bool.false_eq_true, if_false]
      rw [maxValue_filter_all]
      · exact hcov (.inr hief)
      · intro n hn
        obtain ⟨m, hm, rfl⟩ := mem_termsP hn
        exact PCover.compileP_allEx cfg cache store polls none hief m hm
  obtain ⟨bv, h1, h2⟩ := key
  obtain ⟨x', hx', hle⟩ := hwithin bv h1
  rw [hx] at hx'
  have : x' = x := (Option.some.inj hx').symm
  rw [h1]
  congr 1
  omega

/-! ## 4. the pooled diagram meets the solver's contracts `CompileOk` / `CutsetOk`, long arcs allowed

`Phi c := optOf H c`, `opt` the optimum of the whole problem, `Sol p w := SolOfSkip P p w`: `p` lists, in some order, the
decisions of a path **with skips** of the model from the problem root to a complete state, of value `w` (a variable that does not
impact the state reached so far carries no decision). -/

/-- `p` lists (in some order) the decisions of a complete path with skips of the model, of value `w` -/
def SolOfSkip (P : Problem S) (p : List Dec) (w : Int) : Prop :=
  ∃ (k : Nat) (s : S) (q : List Dec) (L : List S), ReachSkip P k s w q ∧ s ∈ L ∧ P.nextVar k L = none ∧ p.Perm q

omit [DecidableEq S] in
/-- without long arcs a solution with skips is a solution -/
theorem SolOfSkip.toSolOf {P : Problem S} (hall : AllImpacted P) {p : List Dec} {w : Int} (h : SolOfSkip P p w) :
    SolOf P p w := by
  obtain ⟨k, s, q, L, h1, h2, h3, h4⟩ := h
  exact ⟨k, s, q, L, h1.toReach hall, h2, h3, h4⟩

omit [DecidableEq S] [DecidableEq K] in
/-- a reported solution (`IsSolP`) is a solution of the whole problem, bounded by the optimum -/
theorem isSolP_facts (cfg : Cfg S K) (H : Nat → S → EInt) (opt : Int) (p0 : List Dec) (hP : Potential cfg.P H)
    (hS : SkipWf cfg.P H) (hperm : cfg.root.path.Perm p0)
    (hopt : (H 0 cfg.P.init).addI cfg.P.initVal = some opt) (w : Int) (sol : Option (List Dec))
    (h : IsSolP cfg p0 w sol) : ∃ p, sol = some p ∧ SolOfSkip cfg.P p w ∧ w ≤ opt := by
  obtain ⟨k, s, q, L, hr, hs, hnv, hsol⟩ := h
  refine ⟨_, hsol, ⟨k, s, p0 ++ q, L, hr, hs, hnv, List.Perm.append hperm (List.reverse_perm q)⟩, ?_⟩
  have hle := reachSkip_le_root hS hr
  rw [hP.term k L s hnv hs, hopt] at hle
  simpa [EInt.addI] using hle

/-- **the contract of a restricted pooled compilation** (in isolation) -/
theorem compileOkP_restricted (cfg : Cfg S K) (H : Nat → S → EInt) (B opt : Int) (p0 : List Dec)
    (cache : Cache S) (store : DomStore S K) (polls : Nat)
    (hres : cfg.ctype = .restricted) (hcache : cfg.useCache = false) (hdom : cfg.dom = none)
    (hP : Potential cfg.P H) (hS : SkipWf cfg.P H) (hR : RubOk cfg.R H)
    (hB : NoClamp cfg.P cfg.R cfg.root.value B) (hlb : InI cfg.lb) (hlb' : cfg.lb < iMax)
    (hroot : ReachSkip cfg.P cfg.root.depth cfg.root.state cfg.root.value p0) (hperm : cfg.root.path.Perm p0)
    (hopt : (H 0 cfg.P.init).addI cfg.P.initVal = some opt)
    (hok : (compileP cfg cache store polls none).1 = .ok) :
    CompileOk (optOf H) opt (SolOfSkip cfg.P) cfg.root cfg.lb (toOut (compileP cfg cache store polls none).2.1) := by
  have hsw := bestExact_restricted_pooled cfg H B p0 cache store polls none (.inl hres) hP hS hB hroot hok
  refine ⟨fun w hw => ?_, fun w hw => (hsw w hw).2, fun hex x hx hgt => ?_⟩
  · exact isSolP_facts cfg H opt p0 hP hS hperm hopt w _ (hsw w hw).1
  · exact pooled_exact_truthful cfg H B p0 cache store polls hcache hdom hP hS hR
      (fun h => by rw [hres] at h; cases h) hB hlb hok (fun w hw => (hsw w hw).2) hex x hx hgt (.inr hlb')

/-- **the contract of a relaxed pooled compilation** (in isolation, the `must` result) -/
theorem compileOkP_relaxed (cfg : Cfg S K) (H : Nat → S → EInt) (B opt : Int) (p0 : List Dec)
    (cache : Cache S) (store : DomStore S K) (polls : Nat)
    (hrel : cfg.ctype = .relaxed) (hcache : cfg.useCache = false) (hdom : cfg.dom = none) (hW : 1 ≤ cfg.width)
    (hP : Potential cfg.P H) (hS : SkipWf cfg.P H) (hR : RubOk cfg.R H) (hM : MergeOk cfg.R H)
    (hAM : Cover.AttMerge cfg.P cfg.R H)
    (hB : NoClamp cfg.P cfg.R cfg.root.value B) (hlb : InI cfg.lb) (hlb' : cfg.lb < iMax)
    (hroot : ReachSkip cfg.P cfg.root.depth cfg.root.state cfg.root.value p0) (hperm : cfg.root.path.Perm p0)
    (hopt : (H 0 cfg.P.init).addI cfg.P.initVal = some opt)
    (hok : (compileP cfg cache store polls none).1 = .ok) :
    CompileOk (optOf H) opt (SolOfSkip cfg.P) cfg.root cfg.lb (toOut (compileP cfg cache store polls none).2.1) := by
  have hsw := bestExact_relaxed_pooled cfg H B p0 cache store polls hrel hcache hdom hW hP hS hB hroot hok
  refine ⟨fun w hw => ?_, fun w hw => (hsw w hw).2, fun hex x hx hgt => ?_⟩
  · exact isSolP_facts cfg H opt p0 hP hS hperm hopt w _ (hsw w hw).1
  · exact pooled_exact_truthful cfg H B p0 cache store polls hcache hdom hP hS hR
      (fun _ => ⟨hM, hAM⟩) hB hlb hok (fun w hw => (hsw w hw).2) hex x hx hgt (.inr hlb')

/-- a sub-problem of the cut-set is reached with skips through the root sub-problem, and cannot be completed to more than it
    (C08 (i) in `PathRel` form with the potential bound); any compilation type, cache, dominance, cutoff; both results -/
theorem cutset_reach_sub (cfg : Cfg S K) (H : Nat → S → EInt) (B : Int) (p0 : List Dec)
    (cache : Cache S) (store : DomStore S K) (polls : Nat) (stopAt : Option Nat)
    (hS : SkipWf cfg.P H) (hB : NoClamp cfg.P cfg.R cfg.root.value B)
    (hroot : ReachSkip cfg.P cfg.root.depth cfg.root.state cfg.root.value p0)
    (hok : (compileP cfg cache store polls stopAt).1 = .ok) (r : Result S)
    (hr : r = (compileP cfg cache store polls stopAt).2.1 ∨ (compileP cfg cache store polls stopAt).2.2.1 = some r) :
    ∀ c ∈ r.cutset, (∃ q, ReachSkip cfg.P c.depth c.state c.value (p0 ++ q) ∧ c.path = cfg.root.path ++ q.reverse) ∧
      optOf H c ≤ optOf H cfg.root := by
  intro c hc
  obtain ⟨q, ⟨h1, h2⟩, h3⟩ := PTruth.cutset_rel_pooled cfg B _ (pathRel_potLe hS p0 (optOf H cfg.root))
    ⟨by rw [List.append_nil]; exact hroot, EInt.le_refl _⟩ hB cache store polls stopAt hok r hr c hc
  exact ⟨⟨q, h1, h3⟩, h2⟩

/-- **the cut-set contract of a relaxed pooled compilation** (in isolation; either result; any cutoff), long arcs allowed: all
    four fields of `Ddo.CutsetOk` — `good` and `sub` from C08 (i), `ub` is C08 (iii), `cover` is C08 (iv).
    Clause (ii) (progress) is *not* part of the contract: the coverage invariant does not need it, only termination does. -/
theorem cutsetOkP_relaxed (cfg : Cfg S K) (H : Nat → S → EInt) (B opt : Int) (p0 : List Dec)
    (cache : Cache S) (store : DomStore S K) (polls : Nat) (stopAt : Option Nat)
    (hrel : cfg.ctype = .relaxed) (hcache : cfg.useCache = false) (hdom : cfg.dom = none) (hW : 1 ≤ cfg.width)
    (hP : Potential cfg.P H) (hS : SkipWf cfg.P H) (hR : RubOk cfg.R H) (hM : MergeOk cfg.R H)
    (hAM : Cover.AttMerge cfg.P cfg.R H)
    (hB : NoClamp cfg.P cfg.R cfg.root.value B) (hlb : InI cfg.lb) (hlb' : cfg.lb < iMax)
    (hroot : ReachSkip cfg.P cfg.root.depth cfg.root.state cfg.root.value p0)
    (hopt : (H 0 cfg.P.init).addI cfg.P.initVal = some opt)
    (hok : (compileP cfg cache store polls stopAt).1 = .ok) (r : Result S)
    (hr : r = (compileP cfg cache store polls stopAt).2.1 ∨ (compileP cfg cache store polls stopAt).2.2.1 = some r) :
    CutsetOk (optOf H) opt cfg.root cfg.lb (toOut r) := by
  have hrs := cutset_reach_sub cfg H B p0 cache store polls stopAt hS hB hroot hok r hr
  refine ⟨?_, ?_, ?_, ?_⟩
  · intro c hc y hy
    obtain ⟨⟨q, hq, _⟩, _⟩ := hrs c hc
    have hle := reachSkip_le_root hS hq
    unfold optOf at hy
    rw [hy, hopt] at hle
    simpa using hle
  · intro c hc x hx hgt
    exact cutset_ub_valid_pooled cfg H B p0 cache store polls stopAt hrel hcache hdom hW hP hS hR hM hAM hB hlb hroot
      hok r hr c hc x hx hgt
  · intro x hx hgt hbe
    exact cutset_cover_pooled cfg H B p0 cache store polls stopAt hrel hcache hdom hW hP hS hR hM hAM hB hlb hroot x hx hgt
      (.inr hlb') hok r hr hbe
  · intro c hc y hy
    have hle := (hrs c hc).2
    rw [hy] at hle
    cases hN : optOf H cfg.root with
    | none => rw [hN] at hle; exact absurd hle (by simp)
    | some x => rw [hN] at hle; exact ⟨x, rfl, by simpa using hle⟩

/-! ## 5. the concrete sequential solver over the pooled diagram

`Props/C01d.lean` with `compileP` in the place of `compile`: `CStepP` = one turn of the loop of `maximize` — pop a maximal node
`N`, `afterPop`, restricted pooled compilation, relaxed pooled compilation with the updated incumbent, `process` — with
`EmptyCache`, no dominance checker, no cutoff; `CRunP` its finite runs; `CInvP` the loop invariant (the coverage invariant `Inv`
of C01 plus: every open sub-problem is reached **with skips** by a permutation of its path with exactly its value). -/

section model
variable {P : Problem S}

omit [DecidableEq S] in
theorem reachSkip_depth_le (hNV : NvBound P) {k : Nat} {s : S} {v : Int} {p : List Dec}
    (h : ReachSkip P k s v p) : k ≤ P.nbVars := by
  cases h with
  | root => omega
  | step k s v p L x d hr hnv hs hd =>
    by_cases hk : P.nbVars ≤ k
    · rw [hNV k L hk] at hnv; cases hnv
    · omega
  | skip k s v p L x hr hnv hs hi =>
    by_cases hk : P.nbVars ≤ k
    · rw [hNV k L hk] at hnv; cases hnv
    · omega

omit [DecidableEq S] in
theorem reachSkip_value_bound {B0 : Int} (hC : CostBound P B0) {k : Nat} {s : S} {v : Int} {p : List Dec}
    (h : ReachSkip P k s v p) : -(((k : Int) + 1) * B0) ≤ v ∧ v ≤ ((k : Int) + 1) * B0 := by
  have hB0 : 0 ≤ B0 := by have := hC.init; omega
  induction h with
  | root =>
    have := hC.init
    have e : (((0 : Nat) : Int) + 1) * B0 = B0 := by simp
    rw [e]; exact this
  | step k s v p L x d hr hnv hs hd ih =>
    have hc := hC.cost s (P.trans s ⟨x, d⟩) ⟨x, d⟩
    have e : (((k + 1 : Nat) : Int) + 1) * B0 = ((k : Int) + 1) * B0 + B0 := by
      rw [Int.natCast_add, Int.add_mul (((k : Int) + ((1 : Nat) : Int))) 1 B0]; simp
    rw [e]
    omega
  | skip k s v p L x hr hnv hs hi ih =>
    have e : (((k + 1 : Nat) : Int) + 1) * B0 = ((k : Int) + 1) * B0 + B0 := by
      rw [Int.natCast_add, Int.add_mul (((k : Int) + ((1 : Nat) : Int))) 1 B0]; simp
    rw [e]
    omega

omit [DecidableEq S] in
/-- the value of a sub-problem reached with skips is within `B` -/
theorem _root_.Ddo.Closed.RunBound.value_le_skip {R : Relax S} {B0 B : Int} (h : RunBound P R B0 B) (hNV : NvBound P)
    {k : Nat} {s : S} {v : Int} {p : List Dec} (hr : ReachSkip P k s v p) : -B ≤ v ∧ v ≤ B := by
  have h1 := reachSkip_value_bound h.cost hr
  have hk := reachSkip_depth_le hNV hr
  have h2 : ((k : Int) + 1) * B0 ≤ ((P.nbVars : Int) + 1) * B0 :=
    Int.mul_le_mul_of_nonneg_right (by omega) h.B0_nonneg
  have := h.fit
  omega

omit [DecidableEq S] in
/-- **the `NoClamp` hypothesis of the diagram theorems holds at every sub-problem reached with skips** -/
theorem _root_.Ddo.Closed.RunBound.noClamp_at_skip {R : Relax S} {B0 B : Int} (h : RunBound P R B0 B) (hNV : NvBound P)
    {k : Nat} {s : S} {v : Int} {p : List Dec} (hr : ReachSkip P k s v p) : NoClamp P R v B :=
  ⟨h.clamp.nonneg, h.value_le_skip hNV hr, h.clamp.cost, h.clamp.relax, h.clamp.small⟩

omit [DecidableEq S] in
/-- infeasible problem: no sub-problem reached with skips has a completion -/
theorem reachSkip_dead {H : Nat → S → EInt} (hS : SkipWf P H)
    (hinf : (H 0 P.init).addI P.initVal = none) {k : Nat} {s : S} {v : Int} {p : List Dec}
    (hr : ReachSkip P k s v p) : (H k s).addI v = none := by
  have := reachSkip_le_root hS hr
  rw [hinf] at this
  cases h : (H k s).addI v with
  | none => rfl
  | some x => rw [h] at this; exact absurd this (by simp)

end model

/-- outcome / result of the restricted pooled compilation of `N` -/
def outRP (sv : SolverCfg S) (cache : Cache S) (store : DomStore S Unit) (polls : Nat) (N : SubP S) (lb : Int) : Outcome :=
  (compileP (sv.cfg .restricted N lb) cache store polls none).1
def resRP (sv : SolverCfg S) (cache : Cache S) (store : DomStore S Unit) (polls : Nat) (N : SubP S) (lb : Int) : Result S :=
  (compileP (sv.cfg .restricted N lb) cache store polls none).2.1
/-- outcome / result (`must`) of the relaxed pooled compilation of `N` -/
def outXP (sv : SolverCfg S) (cache : Cache S) (store : DomStore S Unit) (polls : Nat) (N : SubP S) (lb : Int) : Outcome :=
  (compileP (sv.cfg .relaxed N lb) cache store polls none).1
def resXP (sv : SolverCfg S) (cache : Cache S) (store : DomStore S Unit) (polls : Nat) (N : SubP S) (lb : Int) : Result S :=
  (compileP (sv.cfg .relaxed N lb) cache store polls none).2.1

/-- the incumbent the relaxed compilation is started with -/
def lb1P (sv : SolverCfg S) (st : SeqSt S) (N : SubP S) (cache : Cache S) (store : DomStore S Unit) (polls : Nat) : Int :=
  (st.updateBest (toOut (resRP sv cache store polls N st.bestLb))).bestLb

/-- `process_one_node(N)` from the popped state `st`, both compilations answered by the pooled diagram model -/
def turnP (sv : SolverCfg S) (st : SeqSt S) (N : SubP S) (cache cache' : Cache S) (store store' : DomStore S Unit)
    (polls polls' : Nat) : SeqSt S :=
  (st.process sv.dedup N true (.ok (toOut (resRP sv cache store polls N st.bestLb)))
    (.ok (toOut (resXP sv cache' store' polls' N (lb1P sv st N cache store polls))))).1

/-- **one turn of the concrete solver loop over the pooled diagram** -/
inductive CStepP (sv : SolverCfg S) : SeqSt S → SeqSt S → Prop
  | pop (s : SeqSt S) (N : SubP S) (rest : List (SubP S)) (fa : Nat) (cache cache' : Cache S) (store store' : DomStore S Unit)
      (polls polls' : Nat)
      (hpop : s.fringe.Perm (N :: rest))
      (hmax : ∀ c ∈ rest, c.ub < N.ub ∨ (c.ub = N.ub ∧ c.value ≤ N.value))
      (hokR : outRP sv cache store polls N (popped s N rest fa).bestLb = .ok)
      (hokX : outXP sv cache' store' polls' N (lb1P sv (popped s N rest fa) N cache store polls) = .ok) :
      CStepP sv s (turnP sv (popped s N rest fa) N cache cache' store store' polls polls')

/-- finite runs of the concrete loop -/
inductive CRunP (sv : SolverCfg S) : SeqSt S → SeqSt S → Prop
  | refl (s : SeqSt S) : CRunP sv s s
  | tail {s t u : SeqSt S} : CRunP sv s t → CStepP sv t u → CRunP sv s u

/-- a well-formed model for the pooled diagram: `WellFormed` (C01d) + the contract of `is_impacted_by` -/
structure WellFormedP (sv : SolverCfg S) (H : Nat → S → EInt) (B0 B : Int) : Prop where
  wf : WellFormed sv H B0 B
  skip : SkipWf sv.P H

/-- without long arcs `WellFormed` is enough -/
theorem wellFormedP_of_allImpacted {sv : SolverCfg S} {H : Nat → S → EInt} {B0 B : Int} (hwf : WellFormed sv H B0 B)
    (hall : AllImpacted sv.P) : WellFormedP sv H B0 B := ⟨hwf, skipWf_of_allImpacted hwf.pot hall⟩

/-- an open sub-problem is reached with skips, by a permutation of its path, with exactly its value -/
def NodeOkS (P : Problem S) (c : SubP S) : Prop := ∃ p0, ReachSkip P c.depth c.state c.value p0 ∧ c.path.Perm p0

/-- the loop invariant, over an explicit list of open sub-problems -/
structure CInvAtP (sv : SolverCfg S) (H : Nat → S → EInt) (open_ : List (SubP S)) (lb : Int) (sol : Option (List Dec))
    (abort : Bool) : Prop where
  nodes : ∀ c ∈ open_, NodeOkS sv.P c
  lbLo : iMin ≤ lb
  solLb : sol = none → lb = iMin
  noAbort : abort = false
  feas : ∀ opt, (H 0 sv.P.init).addI sv.P.initVal = some opt → Inv (optOf H) opt (SolOfSkip sv.P) open_ lb sol
  infeas : (H 0 sv.P.init).addI sv.P.initVal = none → lb = iMin ∧ sol = none

/-- **`CInvP`**: the loop invariant of the concrete solver over the pooled diagram -/
def CInvP (sv : SolverCfg S) (H : Nat → S → EInt) (s : SeqSt S) : Prop :=
  CInvAtP sv H s.fringe s.bestLb s.bestSol s.abort

theorem nodeOkS_ub (P : Problem S) (c : SubP S) (u : Int) (h : NodeOkS P c) : NodeOkS P { c with ub := u } := h

theorem cinvP_lb_le {sv : SolverCfg S} {H : Nat → S → EInt} {B0 B : Int} (hwf : WellFormedP sv H B0 B)
    {open_ : List (SubP S)} {lb : Int} {sol : Option (List Dec)} {abort : Bool} (hI : CInvAtP sv H open_ lb sol abort) :
    lb ≤ B := by
  cases hopt : (H 0 sv.P.init).addI sv.P.initVal with
  | none =>
    have := (hI.infeas hopt).1
    have := hwf.wf.bound.clamp.nonneg
    simp only [iMin] at *; omega
  | some opt =>
    have := (hI.feas opt hopt).lbOk
    have := (opt_bound hwf.wf.pot hwf.wf.nv hwf.wf.bound hopt).2
    omega

theorem cinvP_lb_range {sv : SolverCfg S} {H : Nat → S → EInt} {B0 B : Int} (hwf : WellFormedP sv H B0 B)
    {open_ : List (SubP S)} {lb : Int} {sol : Option (List Dec)} {abort : Bool} (hI : CInvAtP sv H open_ lb sol abort) :
    InI lb ∧ lb < iMax := by
  have h1 := cinvP_lb_le hwf hI
  have h2 := hI.lbLo
  have h3 := hwf.wf.bound.B_small
  unfold InI
  simp only [iMin, iMax] at *
  omega

theorem isSolP_le {sv : SolverCfg S} {H : Nat → S → EInt} {B0 B : Int} (hwf : WellFormedP sv H B0 B)
    (cfg : Cfg S Unit) (hP : cfg.P = sv.P) (p0 : List Dec) (w : Int) (sol : Option (List Dec)) (h : IsSolP cfg p0 w sol) :
    w ≤ B ∧ ∃ p, sol = some p := by
  obtain ⟨k, s, q, L, hr, _, _, hsol⟩ := h
  rw [hP] at hr
  exact ⟨(hwf.wf.bound.value_le_skip hwf.wf.nv hr).2, _, hsol⟩

/-- **the invariant is preserved by `process_one_node` over the pooled diagram** (`st` = the popped state, `N` in hand);
    long arcs allowed, no progress hypothesis -/
theorem turnP_cinv {sv : SolverCfg S} {H : Nat → S → EInt} {B0 B : Int} (hwf : WellFormedP sv H B0 B)
    (st : SeqSt S) (N : SubP S) (cache cache' : Cache S) (store store' : DomStore S Unit) (polls polls' : Nat)
    (hI : CInvAtP sv H (N :: st.fringe) st.bestLb st.bestSol st.abort)
    (hokR : outRP sv cache store polls N st.bestLb = .ok)
    (hokX : outXP sv cache' store' polls' N (lb1P sv st N cache store polls) = .ok) :
    CInvP sv H (turnP sv st N cache cache' store store' polls polls') := by
  obtain ⟨p0, hroot, hperm⟩ := hI.nodes N List.mem_cons_self
  have hBN : NoClamp sv.P sv.R N.value B := hwf.wf.bound.noClamp_at_skip hwf.wf.nv hroot
  obtain ⟨hlb1, hlb2⟩ := cinvP_lb_range hwf hI
  have hlbB := cinvP_lb_le hwf hI
  have hBs := hwf.wf.bound.B_small
  -- what the two compilations report
  have sR := bestExact_restricted_pooled (sv.cfg .restricted N st.bestLb) H B p0 cache store polls none (.inl rfl)
    hwf.wf.pot hwf.skip hBN hroot hokR
  have hl1B : lb1P sv st N cache store polls ≤ B :=
    updateBest_le st _ B (fun w hw => (isSolP_le hwf _ rfl p0 w _ (sR w hw).1).1) hlbB
  have hl1lo : st.bestLb ≤ lb1P sv st N cache store polls := updateBest_lb_ge st _
  have hl1 : InI (lb1P sv st N cache store polls) ∧ lb1P sv st N cache store polls < iMax := by
    have := hI.lbLo
    unfold InI
    simp only [iMin, iMax] at *
    omega
  have sX := bestExact_relaxed_pooled (sv.cfg .relaxed N (lb1P sv st N cache store polls)) H B p0 cache' store' polls'
    rfl rfl rfl (hwf.wf.width N) hwf.wf.pot hwf.skip hBN hroot hokX
  have eR : ∀ w, (toOut (resRP sv cache store polls N st.bestLb)).bestExact = some w →
      ∃ p, (toOut (resRP sv cache store polls N st.bestLb)).bestExactSol = some p :=
    fun w hw => (isSolP_le hwf _ rfl p0 w _ (sR w hw).1).2
  have eX : ∀ w, (toOut (resXP sv cache' store' polls' N (lb1P sv st N cache store polls))).bestExact = some w →
      ∃ p, (toOut (resXP sv cache' store' polls' N (lb1P sv st N cache store polls))).bestExactSol = some p :=
    fun w hw => (isSolP_le hwf _ rfl p0 w _ (sX w hw).1).2
  -- the cut-set: exact nodes
  have hcs : ∀ c ∈ (resXP sv cache' store' polls' N (lb1P sv st N cache store polls)).cutset, NodeOkS sv.P c := by
    intro c hc
    obtain ⟨q, hq, hpath⟩ := C08.cutset_exact_pooled (sv.cfg .relaxed N (lb1P sv st N cache store polls)) B p0 cache' store'
      polls' none hroot hBN hokX _ (.inl rfl) c hc
    refine ⟨p0 ++ q, hq, ?_⟩
    rw [hpath]
    exact List.Perm.append hperm (List.reverse_perm q)
  unfold CInvP turnP
  refine ⟨?_, ?_, ?_, ?_, ?_, ?_⟩
  · refine process_forall (NodeOkS sv.P) (nodeOkS_ub sv.P) sv.dedup st N true _ _
      (fun c hc => hI.nodes c (List.mem_cons_of_mem _ hc)) ?_
    intro o ho c hc
    injection ho with ho
    subst ho
    exact hcs c hc
  · have h0 := hI.lbLo
    have h2 := updateBest_lb_ge (st.updateBest (toOut (resRP sv cache store polls N st.bestLb)))
      (toOut (resXP sv cache' store' polls' N (lb1P sv st N cache store polls)))
    have h1' : st.bestLb ≤ (st.updateBest (toOut (resRP sv cache store polls N st.bestLb))).bestLb := hl1lo
    rcases process_lb_sol sv.dedup st N true (toOut (resRP sv cache store polls N st.bestLb))
      (toOut (resXP sv cache' store' polls' N (lb1P sv st N cache store polls))) with ⟨e, _⟩ | ⟨e, _⟩ | ⟨e, _⟩ <;>
    · rw [e]; omega
  · have a1 := updateBest_solLb st _ eR hI.solLb
    have a2 := updateBest_solLb (st.updateBest (toOut (resRP sv cache store polls N st.bestLb))) _ eX a1
    rcases process_lb_sol sv.dedup st N true (toOut (resRP sv cache store polls N st.bestLb))
      (toOut (resXP sv cache' store' polls' N (lb1P sv st N cache store polls))) with ⟨e1, e2⟩ | ⟨e1, e2⟩ | ⟨e1, e2⟩
    · rw [e1, e2]; exact hI.solLb
    · rw [e1, e2]; exact a1
    · rw [e1, e2]; exact a2
  · rw [process_abort]; exact hI.noAbort
  · intro opt hopt
    have h1 : CompileOk (optOf H) opt (SolOfSkip sv.P) N st.bestLb (toOut (resRP sv cache store polls N st.bestLb)) :=
      compileOkP_restricted (sv.cfg .restricted N st.bestLb) H B opt p0 cache store polls rfl rfl rfl hwf.wf.pot hwf.skip
        hwf.wf.rub hBN hlb1 hlb2 hroot hperm hopt hokR
    have h2 : CompileOk (optOf H) opt (SolOfSkip sv.P) N (lb1P sv st N cache store polls)
        (toOut (resXP sv cache' store' polls' N (lb1P sv st N cache store polls))) :=
      compileOkP_relaxed (sv.cfg .relaxed N (lb1P sv st N cache store polls)) H B opt p0 cache' store' polls' rfl rfl rfl
        (hwf.wf.width N) hwf.wf.pot hwf.skip hwf.wf.rub hwf.wf.merge hwf.wf.attMerge hBN hl1.1 hl1.2 hroot hperm hopt hokX
    have h3 : CutsetOk (optOf H) opt N (lb1P sv st N cache store polls)
        (toOut (resXP sv cache' store' polls' N (lb1P sv st N cache store polls))) :=
      cutsetOkP_relaxed (sv.cfg .relaxed N (lb1P sv st N cache store polls)) H B opt p0 cache' store' polls' none rfl rfl rfl
        (hwf.wf.width N) hwf.wf.pot hwf.skip hwf.wf.rub hwf.wf.merge hwf.wf.attMerge hBN hl1.1 hl1.2 hroot hopt hokX _
        (.inl rfl)
    exact C01b.process_inv_any (optOf H) opt (SolOfSkip sv.P) sv.dedup (phiMono_of_potential H) st N _ _ (hI.feas opt hopt)
      h1 h2 (fun _ => h3)
  · intro hinf
    have hdead : optOf H N = none := reachSkip_dead hwf.skip hinf hroot
    have nR : (toOut (resRP sv cache store polls N st.bestLb)).bestExact = none := by
      cases hb : (toOut (resRP sv cache store polls N st.bestLb)).bestExact with
      | none => rfl
      | some w =>
        obtain ⟨x, hx, _⟩ := (sR w hb).2
        rw [show optOf H (sv.cfg .restricted N st.bestLb).root = optOf H N from rfl, hdead] at hx
        cases hx
    have nX : (toOut (resXP sv cache' store' polls' N (lb1P sv st N cache store polls))).bestExact = none := by
      cases hb : (toOut (resXP sv cache' store' polls' N (lb1P sv st N cache store polls))).bestExact with
      | none => rfl
      | some w =>
        obtain ⟨x, hx, _⟩ := (sX w hb).2
        rw [show optOf H (sv.cfg .relaxed N (lb1P sv st N cache store polls)).root = optOf H N from rfl, hdead] at hx
        cases hx
    have u1 := updateBest_none st _ nR
    have u2 := updateBest_none (st.updateBest (toOut (resRP sv cache store polls N st.bestLb))) _ nX
    rcases process_lb_sol sv.dedup st N true (toOut (resRP sv cache store polls N st.bestLb))
      (toOut (resXP sv cache' store' polls' N (lb1P sv st N cache store polls))) with ⟨e1, e2⟩ | ⟨e1, e2⟩ | ⟨e1, e2⟩
    · rw [e1, e2]; exact hI.infeas hinf
    · rw [e1, e2, u1]; exact hI.infeas hinf
    · rw [e1, e2, u2, u1]; exact hI.infeas hinf

/-- the invariant passes from the state before the pop to the popped state with the node in hand -/
theorem poppedP_cinv {sv : SolverCfg S} {H : Nat → S → EInt} {s : SeqSt S} (N : SubP S) (rest : List (SubP S)) (fa : Nat)
    (hpop : s.fringe.Perm (N :: rest)) (hI : CInvP sv H s) :
    CInvAtP sv H (N :: (popped s N rest fa).fringe) (popped s N rest fa).bestLb (popped s N rest fa).bestSol
      (popped s N rest fa).abort := by
  have e1 : (popped s N rest fa).fringe = rest := C01t.afterPop_fringe _ N
  have e2 : (popped s N rest fa).bestLb = s.bestLb := (C01t.afterPop_lb_sol _ N).1
  have e3 : (popped s N rest fa).bestSol = s.bestSol := (C01t.afterPop_lb_sol _ N).2
  have e4 : (popped s N rest fa).abort = s.abort := afterPop_abort _ N
  rw [e1, e2, e3, e4]
  exact ⟨fun c hc => hI.nodes c (hpop.mem_iff.mpr hc), hI.lbLo, hI.solLb, hI.noAbort,
    fun opt hopt => C01t.inv_of_mem (optOf H) opt (SolOfSkip sv.P) (fun c hc => hpop.mem_iff.mpr hc)
      (fun c hc => hpop.mem_iff.mp hc) (hI.feas opt hopt), hI.infeas⟩

/-- **(a) `CInvP` is a loop invariant of the concrete solver over the pooled diagram**, long arcs allowed -/
theorem cstepP_inv {sv : SolverCfg S} {H : Nat → S → EInt} {B0 B : Int} (hwf : WellFormedP sv H B0 B) {s t : SeqSt S}
    (h : CStepP sv s t) (hI : CInvP sv H s) : CInvP sv H t := by
  cases h with
  | pop N rest fa cache cache' store store' polls polls' hpop hmax hokR hokX =>
    exact turnP_cinv hwf _ N cache cache' store store' polls polls' (poppedP_cinv N rest fa hpop hI) hokR hokX

theorem crunP_inv {sv : SolverCfg S} {H : Nat → S → EInt} {B0 B : Int} (hwf : WellFormedP sv H B0 B) {s t : SeqSt S}
    (h : CRunP sv s t) (hI : CInvP sv H s) : CInvP sv H t := by
  induction h with
  | refl => exact hI
  | tail _ hstep ih => exact cstepP_inv hwf hstep ih

/-- the invariant holds initially (`new` + `initialize`, no primal) -/
theorem init_cinvP {sv : SolverCfg S} {H : Nat → S → EInt} {B0 B : Int} (hwf : WellFormedP sv H B0 B) :
    CInvP sv H (SeqSt.init sv.P none sv.dedup) := by
  have hfr : (SeqSt.init sv.P none sv.dedup).fringe = [⟨sv.P.init, sv.P.initVal, [], iMax, 0⟩] := by
    cases hd : sv.dedup <;> rfl
  unfold CInvP
  rw [hfr]
  refine ⟨?_, Int.le_refl _, fun _ => rfl, rfl, ?_, fun _ => ⟨rfl, rfl⟩⟩
  · intro c hc
    rcases List.mem_cons.mp hc with e | e
    · subst e; exact ⟨[], ReachSkip.root, List.Perm.refl _⟩
    · cases e
  · intro opt hopt
    have hb := opt_bound hwf.wf.pot hwf.wf.nv hwf.wf.bound hopt
    have hBs := hwf.wf.bound.B_small
    refine init_inv (optOf H) opt (SolOfSkip sv.P) _ iMin none ?_ rfl ?_ ?_ (fun p hp => by cases hp) (fun _ => hopt)
    · intro x hx
      have : optOf H ⟨sv.P.init, sv.P.initVal, [], iMax, 0⟩ = some opt := hopt
      rw [this] at hx
      have := Option.some.inj hx
      omega
    · simp only [iMax]; omega
    · show iMin ≤ opt
      simp only [iMin]; omega

/-- **(b) partial correctness**: a state that satisfies the invariant and has an empty fringe reports the optimum with a
    feasible solution (with skips) of that value — or nothing iff the problem is infeasible -/
theorem cinvP_end_correct {sv : SolverCfg S} {H : Nat → S → EInt} {B0 B : Int} (hwf : WellFormedP sv H B0 B) {t : SeqSt S}
    (hI : CInvP sv H t) (hend : t.fringe = []) :
    (∀ opt, (H 0 sv.P.init).addI sv.P.initVal = some opt →
      t.bestLb = opt ∧ (∃ p, t.bestSol = some p ∧ SolOfSkip sv.P p opt) ∧ t.completion = (true, some opt)) ∧
    ((H 0 sv.P.init).addI sv.P.initVal = none → t.bestSol = none ∧ t.completion = (true, none)) := by
  have hab : t.abort = false := hI.noAbort
  constructor
  · intro opt hopt
    have hinv := hI.feas opt hopt
    rw [hend] at hinv
    obtain ⟨h1, h2⟩ := complete_optimal (optOf H) opt (SolOfSkip sv.P) t.bestLb t.bestSol hinv
    have hb := opt_bound hwf.wf.pot hwf.wf.nv hwf.wf.bound hopt
    have hBs := hwf.wf.bound.B_small
    cases hs : t.bestSol with
    | none =>
      have := hI.solLb hs
      simp only [iMin] at this
      omega
    | some p =>
      refine ⟨h1, ⟨p, rfl, h2 p hs⟩, ?_⟩
      unfold SeqSt.completion
      rw [hab, hs, h1]; rfl
  · intro hinf
    obtain ⟨_, h2⟩ := hI.infeas hinf
    refine ⟨h2, ?_⟩
    unfold SeqSt.completion
    rw [hab, h2]; rfl

/-! ### progress: no crash -/

/-- **no crash**: from a state that satisfies the invariant and still has open sub-problems a turn of the loop is possible -/
theorem cstepP_progress {sv : SolverCfg S} {H : Nat → S → EInt} {B0 B : Int} (hwf : WellFormedP sv H B0 B) {s : SeqSt S}
    (hI : CInvP sv H s) (hne : s.fringe ≠ []) (fa : Nat) (cache cache' : Cache S) (store store' : DomStore S Unit)
    (polls polls' : Nat) : ∃ t, CStepP sv s t := by
  obtain ⟨N, rest, hp⟩ := popMax_some s.fringe hne
  obtain ⟨hpop, hmax⟩ := popMax_spec s.fringe N rest hp
  obtain ⟨p0, hroot, _⟩ := hI.nodes N (hpop.mem_iff.mpr List.mem_cons_self)
  have hd := reachSkip_depth_le hwf.wf.nv hroot
  refine ⟨_, CStepP.pop s N rest fa cache cache' store store' polls polls' hpop hmax ?_ ?_⟩
  · exact PCover.compileP_no_crash _ cache store polls rfl rfl (hwf.wf.width N) hwf.wf.nv hd
  · exact PCover.compileP_no_crash _ cache' store' polls' rfl rfl (hwf.wf.width N) hwf.wf.nv hd

/-! ### no panic in the `open_by_layer` bookkeeping -/

theorem cstepP_linv {sv : SolverCfg S} {H : Nat → S → EInt} {B0 B : Int} (hwf : WellFormedP sv H B0 B) {s t : SeqSt S}
    (h : CStepP sv s t) (hI : CInvP sv H s) (hL : LInv sv s) : LInv sv t := by
  cases h with
  | pop N rest fa cache cache' store store' polls polls' hpop hmax hokR hokX =>
    obtain ⟨p0, hroot, hperm⟩ := hI.nodes N (hpop.mem_iff.mpr List.mem_cons_self)
    have hBN : NoClamp sv.P sv.R N.value B := hwf.wf.bound.noClamp_at_skip hwf.wf.nv hroot
    have hN := reachSkip_depth_le hwf.wf.nv hroot
    obtain ⟨h1, h2⟩ := afterPop_layers sv.P.nbVars s N rest fa hN hpop hL.1
    have hcs : ∀ c ∈ (toOut (resXP sv cache' store' polls' N (lb1P sv (popped s N rest fa) N cache store polls))).cutset,
        c.depth ≤ sv.P.nbVars := by
      intro c hc
      obtain ⟨q, hq, _⟩ := C08.cutset_exact_pooled (sv.cfg .relaxed N (lb1P sv (popped s N rest fa) N cache store polls)) B p0
        cache' store' polls' none hroot hBN hokX _ (.inl rfl) c hc
      exact reachSkip_depth_le hwf.wf.nv hq
    obtain ⟨h3, h4⟩ := process_layers sv.P.nbVars sv.dedup (popped s N rest fa) N true
      (toOut (resRP sv cache store polls N (popped s N rest fa).bestLb)) _ hcs h1
    exact ⟨h3, h4.trans (h2.trans hL.2)⟩

theorem crunP_linv {sv : SolverCfg S} {H : Nat → S → EInt} {B0 B : Int} (hwf : WellFormedP sv H B0 B) {s t : SeqSt S}
    (h : CRunP sv s t) (hI : CInvP sv H s) (hL : LInv sv s) : LInv sv t := by
  induction h with
  | refl => exact hL
  | tail hrun hstep ih => exact cstepP_linv hwf hstep (crunP_inv hwf hrun hI) ih

/-! ### partial correctness with arbitrary long arcs -/

/-- **`pooled_partial_correct_long_arcs`** — the positive part of C15 that holds with arbitrary long arcs.  For every well-formed
    model (`WellFormedP` = `WellFormed` of C01d + `SkipWf`, the contract of `is_impacted_by`), every ranking, width function and
    either fringe, along **every** run of the sequential solver over the pooled diagram (`EmptyCache`, no dominance, no cutoff):

    * the coverage invariant `CInvP` holds (so do C06, C08 (i), (iii), (iv) at every compilation: `relaxed_ub_pooled`,
      `Ddo.C08.cutset_exact_pooled`, `cutset_ub_valid_pooled`, `cutset_cover_pooled`);
    * the solver never gets stuck before the fringe is empty (no compilation crashes) and never panics in the `open_by_layer`
      bookkeeping;
    * **if** it reaches the empty fringe — if it terminates — it reports `is_exact = true` and the optimum, with a stored solution
      that is a genuinely feasible complete path with skips of that value, or no value iff the problem is infeasible.

    What is missing is termination, which needs C08 (ii): `d5_loops` shows a well-formed model on which the loop runs for ever. -/
theorem pooled_partial_correct_long_arcs (sv : SolverCfg S) (H : Nat → S → EInt) (B0 B : Int) (hwf : WellFormedP sv H B0 B) :
    ∀ t, CRunP sv (SeqSt.init sv.P none sv.dedup) t →
      CInvP sv H t ∧
      (t.fringe ≠ [] → ∃ u, CStepP sv t u) ∧
      t.crashed = false ∧
      (t.fringe = [] →
        (∀ opt, (H 0 sv.P.init).addI sv.P.initVal = some opt →
          t.bestLb = opt ∧ (∃ p, t.bestSol = some p ∧ SolOfSkip sv.P p opt) ∧ t.completion = (true, some opt)) ∧
        ((H 0 sv.P.init).addI sv.P.initVal = none → t.bestSol = none ∧ t.completion = (true, none))) := by
  intro t ht
  have hI := crunP_inv hwf ht (init_cinvP hwf)
  refine ⟨hI, fun hne => ?_, (crunP_linv hwf ht (init_cinvP hwf) (init_linv sv)).2, fun hend => cinvP_end_correct hwf hI hend⟩
  exact cstepP_progress hwf hI hne 0 (Cache.init sv.P.nbVars) (Cache.init sv.P.nbVars)
    (DomStore.init sv.P.nbVars) (DomStore.init sv.P.nbVars) 0 0

/-! ### termination, under cut-set progress -/

/-- **cut-set progress for the model `sv`** (C08 (ii) at every compilation the solver can start): the sub-problems of the cut-set
    of the relaxed pooled compilation of a sub-problem `N` reached with skips are strictly deeper than `N` -/
def CutProgress (sv : SolverCfg S) (B : Int) : Prop :=
  ∀ (N : SubP S) (lb : Int) (p0 : List Dec) (cache : Cache S) (store : DomStore S Unit) (polls : Nat),
    ReachSkip sv.P N.depth N.state N.value p0 → NoClamp sv.P sv.R N.value B →
    (compileP (sv.cfg .relaxed N lb) cache store polls none).1 = .ok →
    ∀ c ∈ (compileP (sv.cfg .relaxed N lb) cache store polls none).2.1.cutset, N.depth < c.depth

/-- **cut-set progress holds for every model** (repaired code, `Ddo.C08.cutset_progress_pooled`): no structural hypothesis -/
theorem cutProgress (sv : SolverCfg S) (B : Int) : CutProgress sv B :=
  fun N lb p0 cache store polls hroot hB hok =>
    C08.cutset_progress_pooled (sv.cfg .relaxed N lb) B p0 cache store polls none rfl hroot hB hok _ (.inl rfl)

/-- no long arcs ⟹ progress (now a special case of `cutProgress`) -/
theorem cutProgress_of_allImpacted (sv : SolverCfg S) (B : Int) (hall : AllImpacted sv.P) : CutProgress sv B :=
  cutProgress sv B

/-- siblings impacted alike ⟹ progress, long arcs allowed (now a special case of `cutProgress`) -/
theorem cutProgress_of_siblings (sv : SolverCfg S) (B : Int) (hsib : PProgress.SiblingsAlike sv.P) : CutProgress sv B :=
  cutProgress sv B

/-- under the invariant and cut-set progress a turn of the concrete loop is a `Step` of `Props/C01t.lean` -/
theorem cstepP_step {sv : SolverCfg S} {H : Nat → S → EInt} {B0 B : Int} (hwf : WellFormedP sv H B0 B)
    (hprog : CutProgress sv B) {s t : SeqSt S} (hI : CInvP sv H s) (h : CStepP sv s t) :
    C01t.Step sv.P.nbVars sv.dedup s t := by
  cases h with
  | pop N rest fa cache cache' store store' polls polls' hpop hmax hokR hokX =>
    obtain ⟨p0, hroot, hperm⟩ := hI.nodes N (hpop.mem_iff.mpr List.mem_cons_self)
    have hBN : NoClamp sv.P sv.R N.value B := hwf.wf.bound.noClamp_at_skip hwf.wf.nv hroot
    refine C01t.Step.pop s N rest fa true _ _ hpop ?_
    intro o ho c hc
    injection ho with ho
    subst ho
    have h1 := hprog N _ p0 cache' store' polls' hroot hBN hokX c hc
    obtain ⟨q, hq, _⟩ := C08.cutset_exact_pooled (sv.cfg .relaxed N (lb1P sv (popped s N rest fa) N cache store polls)) B p0
      cache' store' polls' none hroot hBN hokX _ (.inl rfl) c hc
    exact ⟨h1, reachSkip_depth_le hwf.wf.nv hq⟩

/-- **(c) termination** under cut-set progress -/
theorem cstepP_terminates {sv : SolverCfg S} {H : Nat → S → EInt} {B0 B : Int} (hwf : WellFormedP sv H B0 B)
    (hprog : CutProgress sv B) : WellFounded (fun t s : SeqSt S => CInvP sv H s ∧ CStepP sv s t) :=
  Subrelation.wf (fun {_ _} h => cstepP_step hwf hprog h.1 h.2) (C01t.seq_terminates sv.P.nbVars sv.dedup)

theorem no_infinite_crunP {sv : SolverCfg S} {H : Nat → S → EInt} {B0 B : Int} (hwf : WellFormedP sv H B0 B)
    (hprog : CutProgress sv B) (run : Nat → SeqSt S) (h0 : run 0 = SeqSt.init sv.P none sv.dedup) :
    ¬ ∀ n, CStepP sv (run n) (run (n + 1)) := by
  intro hrun
  have hinv : ∀ n, CInvP sv H (run n) := by
    intro n
    induction n with
    | zero => rw [h0]; exact init_cinvP hwf
    | succ n ih => exact cstepP_inv hwf (hrun n) ih
  exact no_infinite_chain (cstepP_terminates hwf hprog) run (fun n => ⟨hinv n, hrun n⟩)

/-- **the closed solver theorem for the pooled diagram, general form**: `WellFormedP` (long arcs allowed) + cut-set progress
    `CutProgress` ⟹ termination, no crash, optimum with a feasible solution (with skips) at the empty fringe, nothing iff
    infeasible -/
theorem sequential_solver_correct_pooled_gen (sv : SolverCfg S) (H : Nat → S → EInt) (B0 B : Int)
    (hwf : WellFormedP sv H B0 B) (hprog : CutProgress sv B) :
    WellFounded (fun t s : SeqSt S => CRunP sv (SeqSt.init sv.P none sv.dedup) s ∧ CStepP sv s t) ∧
    (∀ run : Nat → SeqSt S, run 0 = SeqSt.init sv.P none sv.dedup → ¬ ∀ n, CStepP sv (run n) (run (n + 1))) ∧
    ∀ t, CRunP sv (SeqSt.init sv.P none sv.dedup) t →
      (t.fringe ≠ [] → ∃ u, CStepP sv t u) ∧
      t.crashed = false ∧
      (t.fringe = [] →
        (∀ opt, (H 0 sv.P.init).addI sv.P.initVal = some opt →
          t.bestLb = opt ∧ (∃ p, t.bestSol = some p ∧ SolOfSkip sv.P p opt) ∧ t.completion = (true, some opt)) ∧
        ((H 0 sv.P.init).addI sv.P.initVal = none → t.bestSol = none ∧ t.completion = (true, none))) := by
  refine ⟨?_, fun run h0 => no_infinite_crunP hwf hprog run h0, fun t ht => (pooled_partial_correct_long_arcs sv H B0 B hwf t ht).2⟩
  exact Subrelation.wf (fun {_ _} h => ⟨crunP_inv hwf h.1 (init_cinvP hwf), h.2⟩) (cstepP_terminates hwf hprog)

/-- **`sequential_solver_correct_pooled`** — the closed solver theorem with the pooled diagram as third diagram implementation:
    both compilations are `compileP`; hypotheses `WellFormed` (exactly those of `Ddo.C01.sequential_solver_correct`) +
    `AllImpacted` (no long arcs: then `ReachSkip = Reach`, `SkipWf` is void and C08 (ii) holds).  Conclusion word for word that
    of the clean theorem: termination (well-founded step relation, no infinite run), no crash (a turn is always possible before
    the fringe is empty, `crashed = false`), and at the empty fringe `is_exact = true` and the optimum with a stored solution
    that is a genuinely feasible complete path (`SolOf`: `Reach`, one decision per variable) — or no value iff infeasible. -/
theorem sequential_solver_correct_pooled (sv : SolverCfg S) (H : Nat → S → EInt) (B0 B : Int) (hwf : WellFormed sv H B0 B)
    (hall : AllImpacted sv.P) :
    WellFounded (fun t s : SeqSt S => CRunP sv (SeqSt.init sv.P none sv.dedup) s ∧ CStepP sv s t) ∧
    (∀ run : Nat → SeqSt S, run 0 = SeqSt.init sv.P none sv.dedup → ¬ ∀ n, CStepP sv (run n) (run (n + 1))) ∧
    ∀ t, CRunP sv (SeqSt.init sv.P none sv.dedup) t →
      (t.fringe ≠ [] → ∃ u, CStepP sv t u) ∧
      t.crashed = false ∧
      (t.fringe = [] →
        (∀ opt, (H 0 sv.P.init).addI sv.P.initVal = some opt →
          t.bestLb = opt ∧ (∃ p, t.bestSol = some p ∧ SolOf sv.P p opt) ∧ t.completion = (true, some opt)) ∧
        ((H 0 sv.P.init).addI sv.P.initVal = none → t.bestSol = none ∧ t.completion = (true, none))) := by
  obtain ⟨h1, h2, h3⟩ := sequential_solver_correct_pooled_gen sv H B0 B (wellFormedP_of_allImpacted hwf hall)
    (cutProgress_of_allImpacted sv B hall)
  refine ⟨h1, h2, fun t ht => ?_⟩
  obtain ⟨a, b, c⟩ := h3 t ht
  refine ⟨a, b, fun hend => ?_⟩
  obtain ⟨c1, c2⟩ := c hend
  refine ⟨fun opt hopt => ?_, c2⟩
  obtain ⟨d1, ⟨p, d2, d3⟩, d4⟩ := c1 opt hopt
  exact ⟨d1, ⟨p, d2, d3.toSolOf hall⟩, d4⟩

/-- **long arcs, with termination**: the same under the structural hypothesis `SiblingsAlike` (the children of one node are
    impacted by the same variables), which is strictly weaker than `AllImpacted` and allows long arcs
    (`Ddo.PProgress.Witness`, `LongArc` below) -/
theorem sequential_solver_correct_pooled_siblings (sv : SolverCfg S) (H : Nat → S → EInt) (B0 B : Int)
    (hwf : WellFormedP sv H B0 B) (hsib : PProgress.SiblingsAlike sv.P) :
    WellFounded (fun t s : SeqSt S => CRunP sv (SeqSt.init sv.P none sv.dedup) s ∧ CStepP sv s t) ∧
    (∀ run : Nat → SeqSt S, run 0 = SeqSt.init sv.P none sv.dedup → ¬ ∀ n, CStepP sv (run n) (run (n + 1))) ∧
    ∀ t, CRunP sv (SeqSt.init sv.P none sv.dedup) t →
      (t.fringe ≠ [] → ∃ u, CStepP sv t u) ∧
      t.crashed = false ∧
      (t.fringe = [] →
        (∀ opt, (H 0 sv.P.init).addI sv.P.initVal = some opt →
          t.bestLb = opt ∧ (∃ p, t.bestSol = some p ∧ SolOfSkip sv.P p opt) ∧ t.completion = (true, some opt)) ∧
        ((H 0 sv.P.init).addI sv.P.initVal = none → t.bestSol = none ∧ t.completion = (true, none))) :=
  sequential_solver_correct_pooled_gen sv H B0 B hwf (cutProgress_of_siblings sv B hsib)

/-- **`sequential_solver_correct_pooled_long_arcs` — the closed solver theorem for the (repaired) pooled diagram with arbitrary
    long arcs**: for every well-formed model (`WellFormedP` = the hypotheses of `Ddo.C01.sequential_solver_correct` + the
    contract `SkipWf` of `is_impacted_by`), **no structural hypothesis** (`AllImpacted`, `SiblingsAlike`): termination
    (well-founded step relation, no infinite run), no crash (a turn is always possible before the fringe is empty), and at the
    empty fringe `is_exact = true` and the optimum with a stored solution that is a feasible complete path with skips — or no
    value iff infeasible.  Before the repair of D5 termination was false (`LongArc.d5_loops_wellformed`). -/
theorem sequential_solver_correct_pooled_long_arcs (sv : SolverCfg S) (H : Nat → S → EInt) (B0 B : Int)
    (hwf : WellFormedP sv H B0 B) :
    WellFounded (fun t s : SeqSt S => CRunP sv (SeqSt.init sv.P none sv.dedup) s ∧ CStepP sv s t) ∧
    (∀ run : Nat → SeqSt S, run 0 = SeqSt.init sv.P none sv.dedup → ¬ ∀ n, CStepP sv (run n) (run (n + 1))) ∧
    ∀ t, CRunP sv (SeqSt.init sv.P none sv.dedup) t →
      (t.fringe ≠ [] → ∃ u, CStepP sv t u) ∧
      t.crashed = false ∧
      (t.fringe = [] →
        (∀ opt, (H 0 sv.P.init).addI sv.P.initVal = some opt →
          t.bestLb = opt ∧ (∃ p, t.bestSol = some p ∧ SolOfSkip sv.P p opt) ∧ t.completion = (true, some opt)) ∧
        ((H 0 sv.P.init).addI sv.P.initVal = none → t.bestSol = none ∧ t.completion = (true, none))) :=
  sequential_solver_correct_pooled_gen sv H B0 B hwf (cutProgress sv B)

/-! ### when D5 struck (the code before the repair, `compilePOld`; proofs: `Proofs/PooledProgress.lean`) -/

/-- **D5 was the only way C08 (ii) failed for the pooled diagram** (`compilePOld`, the code before the repair): a sub-problem of the cut-set of a relaxed pooled compilation that
    is not strictly deeper than the root sub-problem *is* the root sub-problem — same state, value, depth and path.  (It sits in
    the layer of index 0, which holds the root only; it is in the frontier because a child of the root that was **not placed in
    the second materialised layer** — it lingered in the pool: a long arc — was later merged, or received an arc from an inexact
    node.)  No hypothesis on the model; any cache / dominance configuration, any cutoff, both results.  So the only obstacle to
    termination is the solver re-enqueueing the very node it has just processed. -/
theorem d5_only_root (cfg : Cfg S K) (B : Int) (p0 : List Dec) (cache : Cache S)
    (store : DomStore S K) (polls : Nat) (stopAt : Option Nat) (hrel : cfg.ctype = .relaxed)
    (hroot : ReachSkip cfg.P cfg.root.depth cfg.root.state cfg.root.value p0)
    (hB : NoClamp cfg.P cfg.R cfg.root.value B)
    (hok : (compilePOld cfg cache store polls stopAt).1 = .ok) (r : Result S)
    (hr : r = (compilePOld cfg cache store polls stopAt).2.1 ∨ (compilePOld cfg cache store polls stopAt).2.2.1 = some r) :
    ∀ c ∈ r.cutset, c.depth ≤ cfg.root.depth →
      c.state = cfg.root.state ∧ c.value = cfg.root.value ∧ c.depth = cfg.root.depth ∧ c.path = cfg.root.path :=
  PProgress.d5_only_root cfg B p0 cache store polls stopAt hrel hroot hB hok r hr

/-- **C08 (ii), pooled diagram, long arcs allowed**: it holds as soon as the children of one node are impacted by the same
    variables (`Ddo.PProgress.SiblingsAlike`, strictly weaker than `AllImpacted`): then the children of the root leave the pool
    together, into the second materialised layer, which is never relaxed -/
theorem cutset_progress_pooled_siblings (cfg : Cfg S K) (B : Int) (p0 : List Dec) (cache : Cache S)
    (store : DomStore S K) (polls : Nat) (stopAt : Option Nat) (hsib : PProgress.SiblingsAlike cfg.P)
    (hrel : cfg.ctype = .relaxed)
    (hroot : ReachSkip cfg.P cfg.root.depth cfg.root.state cfg.root.value p0)
    (hB : NoClamp cfg.P cfg.R cfg.root.value B)
    (hok : (compileP cfg cache store polls stopAt).1 = .ok) (r : Result S)
    (hr : r = (compileP cfg cache store polls stopAt).2.1 ∨ (compileP cfg cache store polls stopAt).2.2.1 = some r) :
    ∀ c ∈ r.cutset, cfg.root.depth < c.depth :=
  C08.cutset_progress_pooled cfg B p0 cache store polls stopAt hrel hroot hB hok r hr

/-! ## a fuel-driven version of the loop -/

theorem CRunP.head {sv : SolverCfg S} {s t u : SeqSt S} (h1 : CStepP sv s t) (h2 : CRunP sv t u) : CRunP sv s u := by
  induction h2 with
  | refl => exact CRunP.tail (CRunP.refl _) h1
  | tail _ hstep ih => exact CRunP.tail ih hstep

/-- the loop of `maximize` over the pooled diagram as a function (`Ddo.C01.SolverCfg.solveLoop` with `compileP`): stops when the
    fringe is empty, when the fuel runs out, or when a compilation does not end normally -/
def solveLoopP (sv : SolverCfg S) : Nat → SeqSt S → SeqSt S
  | 0, s => s
  | n + 1, s =>
    match popMax s.fringe with
    | none => s
    | some (N, rest) =>
      let st := popped s N rest (cleanLoop sv.P.nbVars s.openByLayer sv.P.nbVars s.firstActive)
      let c : Cache S := Cache.init sv.P.nbVars
      let d : DomStore S Unit := DomStore.init sv.P.nbVars
      if outRP sv c d 0 N st.bestLb = .ok ∧ outXP sv c d 0 N (lb1P sv st N c d 0) = .ok then
        solveLoopP sv n (turnP sv st N c c d d 0 0)
      else s

/-- the fuel-driven loop is a run of the concrete step relation -/
theorem solveLoopP_run (sv : SolverCfg S) : ∀ (n : Nat) (s : SeqSt S), CRunP sv s (solveLoopP sv n s) := by
  intro n
  induction n with
  | zero => intro s; exact CRunP.refl s
  | succ n ih =>
    intro s
    unfold solveLoopP
    cases hp : popMax s.fringe with
    | none => exact CRunP.refl s
    | some Nr =>
      obtain ⟨N, rest⟩ := Nr
      obtain ⟨hpop, hmax⟩ := popMax_spec s.fringe N rest hp
      simp only
      split
      · next hok =>
        exact CRunP.head (CStepP.pop s N rest _ _ _ _ _ 0 0 hpop hmax hok.1 hok.2) (ih _)
      · exact CRunP.refl s

/-- whenever the fuel-driven loop returns a state with an empty fringe that state is correct — long arcs allowed -/
theorem solveLoopP_correct (sv : SolverCfg S) (H : Nat → S → EInt) (B0 B : Int) (hwf : WellFormedP sv H B0 B) (n : Nat)
    (hend : (solveLoopP sv n (SeqSt.init sv.P none sv.dedup)).fringe = []) :
    (∀ opt, (H 0 sv.P.init).addI sv.P.initVal = some opt →
      (solveLoopP sv n (SeqSt.init sv.P none sv.dedup)).completion = (true, some opt) ∧
      ∃ p, (solveLoopP sv n (SeqSt.init sv.P none sv.dedup)).bestSol = some p ∧ SolOfSkip sv.P p opt) ∧
    ((H 0 sv.P.init).addI sv.P.initVal = none →
      (solveLoopP sv n (SeqSt.init sv.P none sv.dedup)).completion = (true, none)) := by
  obtain ⟨h1, h2⟩ := (pooled_partial_correct_long_arcs sv H B0 B hwf _ (solveLoopP_run sv n _)).2.2.2 hend
  exact ⟨fun opt hopt => ⟨(h1 opt hopt).2.2, (h1 opt hopt).2.1⟩, fun hinf => (h2 hinf).2⟩

/-- **total correctness of the fuel-driven loop** under cut-set progress: enough fuel brings it to the empty fringe -/
theorem solveLoopP_total {sv : SolverCfg S} {H : Nat → S → EInt} {B0 B : Int} (hwf : WellFormedP sv H B0 B)
    (hprog : CutProgress sv B) (s : SeqSt S) : CInvP sv H s → ∃ n, (solveLoopP sv n s).fringe = [] := by
  refine (cstepP_terminates hwf hprog).induction (C := fun s => CInvP sv H s → ∃ n, (solveLoopP sv n s).fringe = []) s ?_
  intro s ih hI
  by_cases hne : s.fringe = []
  · exact ⟨0, hne⟩
  · obtain ⟨N, rest, hp⟩ := popMax_some s.fringe hne
    obtain ⟨hpop, hmax⟩ := popMax_spec s.fringe N rest hp
    obtain ⟨p0, hroot, _⟩ := hI.nodes N (hpop.mem_iff.mpr List.mem_cons_self)
    have hd := reachSkip_depth_le hwf.wf.nv hroot
    have hokR : outRP sv (Cache.init sv.P.nbVars) (DomStore.init sv.P.nbVars) 0 N
        (popped s N rest (cleanLoop sv.P.nbVars s.openByLayer sv.P.nbVars s.firstActive)).bestLb = .ok :=
      PCover.compileP_no_crash _ _ _ 0 rfl rfl (hwf.wf.width N) hwf.wf.nv hd
    have hokX : outXP sv (Cache.init sv.P.nbVars) (DomStore.init sv.P.nbVars) 0 N
        (lb1P sv (popped s N rest (cleanLoop sv.P.nbVars s.openByLayer sv.P.nbVars s.firstActive)) N
          (Cache.init sv.P.nbVars) (DomStore.init sv.P.nbVars) 0) = .ok :=
      PCover.compileP_no_crash _ _ _ 0 rfl rfl (hwf.wf.width N) hwf.wf.nv hd
    have hstep := CStepP.pop s N rest (cleanLoop sv.P.nbVars s.openByLayer sv.P.nbVars s.firstActive)
      (Cache.init sv.P.nbVars) (Cache.init sv.P.nbVars) (DomStore.init sv.P.nbVars) (DomStore.init sv.P.nbVars) 0 0
      hpop hmax hokR hokX
    obtain ⟨n, hn⟩ := ih _ ⟨hI, hstep⟩ (cstepP_inv hwf hstep hI)
    refine ⟨n + 1, ?_⟩
    rw [solveLoopP]
    simp only [hp]
    rw [if_pos ⟨hokR, hokX⟩]
    exact hn

/-- **the pooled sequential solver, as a function, computes the optimum** (under cut-set progress) -/
theorem solveLoopP_computes_opt (sv : SolverCfg S) (H : Nat → S → EInt) (B0 B : Int) (hwf : WellFormedP sv H B0 B)
    (hprog : CutProgress sv B) :
    ∃ n, (solveLoopP sv n (SeqSt.init sv.P none sv.dedup)).fringe = [] ∧
      (solveLoopP sv n (SeqSt.init sv.P none sv.dedup)).crashed = false ∧
      (∀ opt, (H 0 sv.P.init).addI sv.P.initVal = some opt →
        (solveLoopP sv n (SeqSt.init sv.P none sv.dedup)).completion = (true, some opt) ∧
        ∃ p, (solveLoopP sv n (SeqSt.init sv.P none sv.dedup)).bestSol = some p ∧ SolOfSkip sv.P p opt) ∧
      ((H 0 sv.P.init).addI sv.P.initVal = none →
        (solveLoopP sv n (SeqSt.init sv.P none sv.dedup)).completion = (true, none)) := by
  obtain ⟨n, hn⟩ := solveLoopP_total hwf hprog _ (init_cinvP hwf)
  obtain ⟨h1, h2⟩ := solveLoopP_correct sv H B0 B hwf n hn
  exact ⟨n, hn, (pooled_partial_correct_long_arcs sv H B0 B hwf _ (solveLoopP_run sv n _)).2.2.1, h1, h2⟩

/-- **`pooled_eq_clean_opt`** (the sentence of the property, formerly a placeholder in `Props/C15.lean`), without long arcs: for a well-formed model in which every
    variable impacts every state, the sequential solver over the pooled diagram and the one over the clean diagrams both
    terminate and report the same completion (the optimum, or no value iff infeasible) -/
theorem pooled_eq_clean_opt_allImpacted (sv : SolverCfg S) (H : Nat → S → EInt) (B0 B : Int) (hwf : WellFormed sv H B0 B)
    (hall : AllImpacted sv.P) :
    ∃ n m, (sv.solveLoop n (SeqSt.init sv.P none sv.dedup)).fringe = [] ∧
      (solveLoopP sv m (SeqSt.init sv.P none sv.dedup)).fringe = [] ∧
      (sv.solveLoop n (SeqSt.init sv.P none sv.dedup)).completion =
        (solveLoopP sv m (SeqSt.init sv.P none sv.dedup)).completion := by
  obtain ⟨n, hn, _, a1, a2⟩ := solveLoop_computes_opt sv H B0 B hwf
  obtain ⟨m, hm, _, b1, b2⟩ := solveLoopP_computes_opt sv H B0 B (wellFormedP_of_allImpacted hwf hall)
    (cutProgress_of_allImpacted sv B hall)
  refine ⟨n, m, hn, hm, ?_⟩
  cases hopt : (H 0 sv.P.init).addI sv.P.initVal with
  | none => rw [a2 hopt, b2 hopt]
  | some opt => rw [(a1 opt hopt).1, (b1 opt hopt).1]

/-! ### the solver loop over the diagrams **before the repair of D5** (for the witnesses below only) -/

def outXPOld (sv : SolverCfg S) (cache : Cache S) (store : DomStore S Unit) (polls : Nat) (N : SubP S) (lb : Int) : Outcome :=
  (compilePOld (sv.cfg .relaxed N lb) cache store polls none).1
def resXPOld (sv : SolverCfg S) (cache : Cache S) (store : DomStore S Unit) (polls : Nat) (N : SubP S) (lb : Int) : Result S :=
  (compilePOld (sv.cfg .relaxed N lb) cache store polls none).2.1
def turnPOld (sv : SolverCfg S) (st : SeqSt S) (N : SubP S) (cache cache' : Cache S) (store store' : DomStore S Unit)
    (polls polls' : Nat) : SeqSt S :=
  (st.process sv.dedup N true (.ok (toOut (resRP sv cache store polls N st.bestLb)))
    (.ok (toOut (resXPOld sv cache' store' polls' N (lb1P sv st N cache store polls))))).1
/-- `solveLoopP` with the relaxed compilation of the old code -/
def solveLoopPOld (sv : SolverCfg S) : Nat → SeqSt S → SeqSt S
  | 0, s => s
  | n + 1, s =>
    match popMax s.fringe with
    | none => s
    | some (N, rest) =>
      let st := popped s N rest (cleanLoop sv.P.nbVars s.openByLayer sv.P.nbVars s.firstActive)
      let c : Cache S := Cache.init sv.P.nbVars
      let d : DomStore S Unit := DomStore.init sv.P.nbVars
      if outRP sv c d 0 N st.bestLb = .ok ∧ outXPOld sv c d 0 N (lb1P sv st N c d 0) = .ok then
        solveLoopPOld sv n (turnPOld sv st N c c d d 0 0)
      else s
/-- `CutProgress` for the old code -/
def CutProgressOld (sv : SolverCfg S) (B : Int) : Prop :=
  ∀ (N : SubP S) (lb : Int) (p0 : List Dec) (cache : Cache S) (store : DomStore S Unit) (polls : Nat),
    ReachSkip sv.P N.depth N.state N.value p0 → NoClamp sv.P sv.R N.value B →
    (compilePOld (sv.cfg .relaxed N lb) cache store polls none).1 = .ok →
    ∀ c ∈ (compilePOld (sv.cfg .relaxed N lb) cache store polls none).2.1.cutset, N.depth < c.depth

/-! ## 6. non-vacuity

### `LongArc`: a well-formed model with a genuine long arc — the pooled solver terminates with the optimum at width 2, and runs for ever at width 1 (D5)

Three variables.  Variable 0 sends the root `0` to `1, 2, 3` (gains `1, 2, 9`).  Variable 1 impacts the states `1` and `2` only
(`1 → 4` for free, `2 → 5` gaining `5`); every other state — in particular `3` — is **not impacted**: its only decision on variable 1
is neutral (same state, cost `0`), which is what `is_impacted_by = false` means (`neutral`).  Variable 2 sends every state to `6`,
gaining `20` from `3`, `40` from the merged state `9`, `1` otherwise.  Optimum `29 = 9 + 20`: `0 → 3 ⇢ 6`, **two decisions for three
variables**: in the pooled diagram the node `3` skips the layer of variable 1 (a long arc from depth 0 to depth 2), while its
siblings `1, 2` do not (`not_siblings`: `SiblingsAlike` fails, so does `AllImpacted`).  The model is `WellFormedP`
(`Potential`, `RubOk`, `MergeOk`, `AttMerge`, `RunBound`, `NvBound`, and `SkipWf` through `skipWf_of_neutral`).

* width 2: three turns (the relaxed diagram of the root keeps `3`, merges `4, 5`; cut-set `{1, 2, 3}`, `3` is pruned by its
  bound; `2` and `1` are solved exactly) — `loop_value`, and `correct`: what `pooled_partial_correct_long_arcs` says of *every* run;
* width 1: the relaxed diagram of the root merges `3, 4, 5`: the lingering child `3` of the root is merged two layers below it, the
  root is the exact parent of the merged node, **the root is handed out by its own cut-set** and the loop re-enqueues it for ever
  although the incumbent already is the optimum — `d5_loops_wellformed`.  D5 is therefore not an artefact of ill-formed models. -/
namespace LongArc

def cost2 (s : Int) : Int := if s = 3 then 20 else if s = 9 then 40 else 1
def prob : Problem Int :=
  { nbVars := 3, init := 0, initVal := 0,
    trans := fun s d => if d.var = 1 ∧ s ≠ 1 ∧ s ≠ 2 then s else d.val,
    cost := fun s _ d =>
      if d.var = 0 then (if d.val = 3 then 9 else if d.val = 2 then 2 else if d.val = 1 then 1 else 0)
      else if d.var = 1 then (if s = 2 then 5 else 0) else cost2 s,
    nextVar := fun k _ => if k < 3 then some k else none,
    domain := fun v s => if v = 0 then [1, 2, 3] else if v = 1 then (if s = 1 then [4] else if s = 2 then [5] else [0]) else [6],
    impacted := fun v s => !(v == 1 && s != 1 && s != 2) }
def rlx : Relax Int := { merge := fun _ => 9, relax := fun _ _ _ _ c => c, rub := fun _ => 1000 }
def sv (w : Nat) (dedup : Bool) : SolverCfg Int :=
  { P := prob, R := rlx, rank := ⟨fun a b => icmp a b⟩, width := fun _ => w, kind := .frontier, dedup := dedup }

def H (k : Nat) (s : Int) : EInt :=
  if k = 0 then some 29
  else if k = 1 then (if s = 1 then some 1 else if s = 2 then some 6 else some (cost2 s))
  else if k = 2 then some (cost2 s) else some 0

theorem cost2_range (s : Int) : 1 ≤ cost2 s ∧ cost2 s ≤ 40 := by
  unfold cost2; split <;> (try split) <;> omega

theorem nv_some {k : Nat} {L : List Int} {x : Nat} (h : prob.nextVar k L = some x) : k < 3 ∧ x = k := by
  simp only [prob] at h
  split at h
  · next hk => cases h; exact ⟨hk, rfl⟩
  · cases h

theorem potential : Potential prob H := by
  constructor
  · intro k L x s h hnv _ hH
    obtain ⟨hk, hx⟩ := nv_some hnv; subst x
    have hk3 : k = 0 ∨ k = 1 ∨ k = 2 := by omega
    rcases hk3 with rfl | rfl | rfl
    · refine ⟨3, by simp [prob], 20, by simp [prob, H, cost2], ?_⟩
      simp [H] at hH; simp [prob]; omega
    · by_cases h1 : s = 1
      · subst h1
        refine ⟨4, by simp [prob], 1, by simp [prob, H, cost2], ?_⟩
        simp [H] at hH; simp [prob]; omega
      · by_cases h2 : s = 2
        · subst h2
          refine ⟨5, by simp [prob], 1, by simp [prob, H, cost2], ?_⟩
          simp [H] at hH; simp [prob]; omega
        · refine ⟨0, by simp [prob, h1, h2], cost2 s, by simp [prob, H, h1, h2], ?_⟩
          simp [H, h1, h2] at hH; simp [prob, h1, h2]; omega
    · refine ⟨6, by simp [prob], 0, by simp [H], ?_⟩
      simp [H] at hH; simp [prob]; omega
  · intro k L x s v p d _ hnv _ hd
    obtain ⟨hk, hx⟩ := nv_some hnv; subst x
    have hk3 : k = 0 ∨ k = 1 ∨ k = 2 := by omega
    rcases hk3 with rfl | rfl | rfl
    · have hd' : d = 1 ∨ d = 2 ∨ d = 3 := by simpa [prob] using hd
      rcases hd' with rfl | rfl | rfl <;> simp [H, prob, EInt.addI, cost2]
    · by_cases h1 : s = 1
      · subst h1
        have hd' : d = 4 := by simpa [prob] using hd
        subst hd'; simp [H, prob, EInt.addI, cost2]
      · by_cases h2 : s = 2
        · subst h2
          have hd' : d = 5 := by simpa [prob] using hd
          subst hd'; simp [H, prob, EInt.addI, cost2]
        · have hd' : d = 0 := by simpa [prob, h1, h2] using hd
          subst hd'; simp [H, prob, EInt.addI, h1, h2]
    · have hd' : d = 6 := by simpa [prob] using hd
      subst hd'; simp [H, prob, EInt.addI]
  · intro k L s hnv _
    simp only [prob] at hnv
    split at hnv
    · cases hnv
    · next hk =>
      have h0 : k ≠ 0 := by omega
      have h1 : k ≠ 1 := by omega
      have h2 : k ≠ 2 := by omega
      simp [H, h0, h1, h2]
theorem H_le (k : Nat) (s : Int) : ∃ h, H k s = some h ∧ 0 ≤ h ∧ h ≤ 40 := by
  have := cost2_range s
  unfold H
  split
  · exact ⟨29, rfl, by omega, by omega⟩
  · split
    · split
      · exact ⟨1, rfl, by omega, by omega⟩
      · split
        · exact ⟨6, rfl, by omega, by omega⟩
        · exact ⟨cost2 s, rfl, by omega, by omega⟩
    · split
      · exact ⟨cost2 s, rfl, by omega, by omega⟩
      · exact ⟨0, rfl, by omega, by omega⟩

theorem rubOk : RubOk rlx H := by
  intro k s h hH
  obtain ⟨h', e, _, h4⟩ := H_le k s
  rw [hH] at e; cases e
  show h ≤ 1000
  omega

/-- the merged state `9` dominates every state at every depth -/
theorem H9 (k : Nat) (u : Int) (h : Int) (hH : H k u = some h) : ∃ h', H k 9 = some h' ∧ h ≤ h' := by
  obtain ⟨hh, e, _, hle⟩ := H_le k u
  rw [hH] at e; cases e
  by_cases h0 : k = 0
  · subst h0
    refine ⟨29, rfl, ?_⟩
    simp [H] at hH; omega
  · by_cases h1 : k = 1
    · subst h1; exact ⟨40, by simp [H, cost2], hle⟩
    · by_cases h2 : k = 2
      · subst h2; exact ⟨40, by simp [H, cost2], hle⟩
      · refine ⟨0, by simp [H, h0, h1, h2], ?_⟩
        simp [H, h0, h1, h2] at hH; omega

theorem mergeOk : MergeOk rlx H := by
  intro k X u src d c h _ hH
  obtain ⟨h', e, hle⟩ := H9 k u h hH
  exact ⟨h', e, by show c + h ≤ c + h'; omega⟩

theorem nvBound : NvBound prob := by
  intro k L hk
  have : ¬ k < 3 := by simp only [prob] at hk; omega
  simp only [prob, this, if_false]

theorem costBound (s s' : Int) (d : Dec) : -40 ≤ prob.cost s s' d ∧ prob.cost s s' d ≤ 40 := by
  have := cost2_range s
  simp only [prob]
  split
  · split
    · omega
    · split
      · omega
      · split <;> omega
  · split
    · split <;> omega
    · omega

theorem runBound : RunBound prob rlx 40 160 :=
  ⟨⟨by decide, by decide, fun s s' d => by have := costBound s s' d; omega, fun s u m d c hc => hc, by decide⟩,
   ⟨by decide, costBound⟩, by decide⟩

theorem wellFormed (w : Nat) (hw : 1 ≤ w) (dedup : Bool) : WellFormed (sv w dedup) H 40 160 :=
  ⟨potential, rubOk, mergeOk, Cover.attMerge_of_static potential (fun _ _ _ _ _ => rfl), runBound,
    nvBound, fun _ => hw⟩

/-- `is_impacted_by` means what the documentation says: variable 1 leaves every state but `1` and `2` where it is, for free -/
theorem neutral : NeutralSkip prob := by
  intro x s hi
  have hx : x = 1 ∧ s ≠ 1 ∧ s ≠ 2 := by
    simp only [prob, Bool.not_eq_false', Bool.and_eq_true, beq_iff_eq, bne_iff_ne] at hi
    exact ⟨hi.1.1, hi.1.2, hi.2⟩
  obtain ⟨rfl, h1, h2⟩ := hx
  refine ⟨by simp [prob, h1, h2], fun d hd => ?_⟩
  have hd' : d = 0 := by simpa [prob, h1, h2] using hd
  subst hd'
  simp [prob, h1, h2]

theorem wellFormedP (w : Nat) (hw : 1 ≤ w) (dedup : Bool) : WellFormedP (sv w dedup) H 40 160 :=
  ⟨wellFormed w hw dedup, skipWf_of_neutral potential neutral⟩

theorem not_allImpacted : ¬ AllImpacted prob := fun h => by
  have := h 1 3
  revert this; decide

theorem not_siblings : ¬ PProgress.SiblingsAlike prob := fun h => by
  have := h 0 0 1 3 1 (by decide) (by decide)
  revert this; decide

example : (H 0 prob.init).addI prob.initVal = some 29 := rfl

theorem loop_value : (solveLoopP (sv 2 false) 6 (SeqSt.init prob none false)).completion = (true, some 29) ∧
    (solveLoopP (sv 2 false) 6 (SeqSt.init prob none false)).fringe.length = 0 ∧
    (solveLoopP (sv 2 false) 6 (SeqSt.init prob none false)).explored = 3 ∧
    (solveLoopP (sv 2 false) 6 (SeqSt.init prob none false)).bestSol = some [⟨2, 6⟩, ⟨0, 3⟩] := by decide


/-- every run at width 2 (either fringe) that reaches the empty fringe reports `is_exact = true`, `best_value = Some(29)`; before
    that a turn is always possible; nothing panics — by `pooled_partial_correct_long_arcs` (no termination claim: `SiblingsAlike`
    fails for this model) -/
theorem correct (dedup : Bool) (t : SeqSt Int) (ht : CRunP (sv 2 dedup) (SeqSt.init prob none dedup) t) :
    (t.fringe = [] → t.completion = (true, some 29)) ∧ (t.fringe ≠ [] → ∃ u, CStepP (sv 2 dedup) t u) ∧ t.crashed = false :=
  have h := pooled_partial_correct_long_arcs (sv 2 dedup) H 40 160 (wellFormedP 2 (by decide) dedup) t ht
  ⟨fun hend => ((h.2.2.2 hend).1 29 rfl).2.2, h.2.1, h.2.2.1⟩

/-- the value computed by the fuel-driven loop is the one the theorem predicts -/
example : (solveLoopP (sv 2 false) 6 (SeqSt.init prob none false)).completion = (true, some 29) :=
  (correct false _ (solveLoopP_run (sv 2 false) 6 _)).1 (List.eq_nil_of_length_eq_zero loop_value.2.1)

/-- the same with the duplicate-free fringe -/
theorem loop_value' : (solveLoopP (sv 2 true) 6 (SeqSt.init prob none true)).completion = (true, some 29) ∧
    (solveLoopP (sv 2 true) 6 (SeqSt.init prob none true)).fringe.length = 0 := by decide

/-- **before the repair** the relaxed pooled diagram of the root at width 1 handed out its own root `(state 0, value 0, depth 0)`, with bound `49 > 29` -/
theorem root_in_cutset : (compilePOld ((sv 1 true).cfg .relaxed ⟨0, 0, [], iMax, 0⟩ 29) (Cache.init 3) (DomStore.init 3) 0 none).2.1.cutset.map
    (fun c => (c.state, c.value, c.ub, c.depth, c.path.length)) = [(1, 1, 41, 1, 1), (2, 2, 47, 1, 1), (0, 0, 49, 0, 0)] := by
  decide

/-- before the repair `WellFormedP` did not imply cut-set progress: C08 (ii) failed on this well-formed model -/
theorem not_cutProgress (dedup : Bool) : ¬ CutProgressOld (sv 1 dedup) 160 := by
  intro h
  have e : (sv 1 dedup).cfg .relaxed ⟨0, 0, [], iMax, 0⟩ 29 = (sv 1 true).cfg .relaxed ⟨0, 0, [], iMax, 0⟩ 29 := rfl
  have h1 := h ⟨0, 0, [], iMax, 0⟩ 29 [] (Cache.init 3) (DomStore.init 3) 0 ReachSkip.root runBound.clamp
    (by rw [e]; decide)
  rw [e] at h1
  obtain ⟨c, hc, hd⟩ : ∃ c ∈ (compilePOld ((sv 1 true).cfg .relaxed ⟨0, 0, [], iMax, 0⟩ 29) (Cache.init 3) (DomStore.init 3) 0
      none).2.1.cutset, c.depth = 0 := by decide
  have := h1 c hc
  have h0 : (⟨0, 0, [], iMax, 0⟩ : SubP Int).depth = 0 := rfl
  omega

/-- what is observed of a solver state: `[turns performed, incumbent]`, then one row `[state, value, bound, depth]` per fringe
    entry -/
def view (s : SeqSt Int) : List (List Int) :=
  [(s.explored : Int), s.bestLb] :: s.fringe.map (fun c => [c.state, c.value, c.ub, (c.depth : Int)])

/-- **D5 on a well-formed model** (old code): at width 1 the fuel-driven loop spent all of a generous fuel (40 turns; three variables), the
    incumbent is the optimum `29` from the first turn on, and the fringe still holds the root sub-problem
    `(state 0, value 0, bound 49, depth 0)`: every third turn pops it and re-enqueues it, with its two children (duplicate-free
    fringe; the plain fringe in addition grows without bound: `d5_loops_wellformed_plain`) -/
theorem d5_loops_wellformed : view (solveLoopPOld (sv 1 true) 40 (SeqSt.init prob none true)) =
    [[40, 29], [1, 1, 41, 1], [2, 2, 47, 1], [0, 0, 49, 0]] := by decide +kernel

theorem d5_loops_wellformed_plain :
    (solveLoopPOld (sv 1 false) 12 (SeqSt.init prob none false)).explored = 12 ∧
    (solveLoopPOld (sv 1 false) 12 (SeqSt.init prob none false)).fringe.length = 25 := by decide +kernel

/-- **the repaired code on the same model at width 1**: the relaxed diagram of the root hands out the three children of the
    root (bound 49, depth 1) instead of the root … -/
theorem root_replaced : (compileP ((sv 1 true).cfg .relaxed ⟨0, 0, [], iMax, 0⟩ 29) (Cache.init 3) (DomStore.init 3) 0 none).2.1.cutset.map
    (fun c => (c.state, c.value, c.ub, c.depth, c.path.length)) =
      [(1, 1, 41, 1, 1), (2, 2, 47, 1, 1), (1, 1, 49, 1, 1), (2, 2, 49, 1, 1), (3, 9, 49, 1, 1)] := by
  decide

/-- … and the loop terminates with the optimum, as `sequential_solver_correct_pooled_long_arcs` says (both fringes) -/
theorem repaired_terminates :
    (solveLoopP (sv 1 true) 40 (SeqSt.init prob none true)).completion = (true, some 29) ∧
    (solveLoopP (sv 1 true) 40 (SeqSt.init prob none true)).fringe.length = 0 ∧
    (solveLoopP (sv 1 false) 40 (SeqSt.init prob none false)).completion = (true, some 29) ∧
    (solveLoopP (sv 1 false) 40 (SeqSt.init prob none false)).fringe.length = 0 := by decide +kernel

/-- on the same model at width 1 the solver over the **clean** diagrams terminates (4 turns) with the optimum -/
theorem clean_terminates : ((sv 1 false).solveLoop 20 (SeqSt.init prob none false)).completion = (true, some 29) ∧
    ((sv 1 false).solveLoop 20 (SeqSt.init prob none false)).fringe.length = 0 ∧
    ((sv 1 false).solveLoop 20 (SeqSt.init prob none false)).explored = 4 := by decide +kernel

end LongArc

/-! ### `D5`: the existing witness `Ddo.C07.WitnessP` makes the pooled solver loop

`Ddo.C07.WitnessP.cutset_contains_root`: the relaxed pooled diagram of the root of that instance (width 1) hands out its own
root.  The solver over the pooled diagram then pops the root, compiles, re-enqueues the root, … for ever: from the second turn on
the state is a fixed point of the loop (up to the counter `explored`).  (That instance declares state `3` "not impacted" by a
variable that does change it, so it is not `SkipWf`; `LongArc` above shows the same on a well-formed model.) -/
namespace D5

def sv (dedup : Bool) : SolverCfg Int :=
  { P := C07.WitnessP.P, R := C07.WitnessP.R, rank := ⟨fun a b => compare a b⟩, width := fun _ => 1, kind := .frontier,
    dedup := dedup }

/-- the compilation the solver starts at the root is the one of `cutset_contains_root` -/
example : (sv false).cfg .relaxed ⟨0, 0, [], 1000, 0⟩ (-1) = C07.WitnessP.cfg .relaxed := rfl

/-- what is observed of a solver state: `[turns performed, incumbent]`, then one row `[state, value, bound, depth, length of the
    path]` per fringe entry -/
def view (s : SeqSt Int) : List (List Int) :=
  [(s.explored : Int), s.bestLb] :: s.fringe.map (fun c => [c.state, c.value, c.ub, (c.depth : Int), (c.path.length : Int)])

/-- after two turns: incumbent `109` (the optimum of the restricted diagram), the fringe is the root sub-problem, just re-enqueued -/
theorem two_turns : view (solveLoopPOld (sv false) 2 (SeqSt.init C07.WitnessP.P none false)) = [[2, 109], [0, 0, 115, 0, 0]] := by
  decide

/-- **`d5_loops`**: with a generous fuel (40 turns; three variables) the fuel-driven pooled loop does not terminate: it performed
    all 40 turns, the incumbent has been `109` since the first turn, and the fringe is, as after the second turn, exactly the root
    sub-problem `(state 0, value 0, bound 115, depth 0, empty path)`, which every turn pops and re-enqueues -/
theorem d5_loops : view (solveLoopPOld (sv false) 40 (SeqSt.init C07.WitnessP.P none false)) = [[40, 109], [0, 0, 115, 0, 0]] := by
  decide +kernel

/-- the same with the duplicate-free fringe -/
theorem d5_loops_dedup : view (solveLoopPOld (sv true) 40 (SeqSt.init C07.WitnessP.P none true)) = [[40, 109], [0, 0, 115, 0, 0]] := by
  decide +kernel

/-- with the repaired code the loop terminates on this instance too (with the value `109` of the pooled diagrams) -/
theorem repaired_terminates : (solveLoopP (sv false) 40 (SeqSt.init C07.WitnessP.P none false)).fringe.length = 0 ∧
    (solveLoopP (sv false) 40 (SeqSt.init C07.WitnessP.P none false)).completion = (true, some 109) := by decide +kernel

/-- the witness is not a well-formed model of `is_impacted_by`: state `3` is declared "not impacted" by variable 1, which does
    change it; the solver over the clean diagrams (which ignore `is_impacted_by`) terminates with `119`, the pooled diagrams skip
    the variable and the pooled solver's incumbent stays at `109` -/
theorem clean_vs_pooled : ((sv false).solveLoop 20 (SeqSt.init C07.WitnessP.P none false)).completion = (true, some 119) ∧
    ((sv false).solveLoop 20 (SeqSt.init C07.WitnessP.P none false)).fringe.length = 0 := by decide +kernel

end D5

end Ddo.C15

#print axioms Ddo.C15.relaxed_ub_pooled
#print axioms Ddo.C15.relaxed_ub_pooled_global
#print axioms Ddo.C15.cutset_ub_valid_pooled
#print axioms Ddo.C15.cutset_cover_pooled
#print axioms Ddo.C15.bestExact_restricted_pooled
#print axioms Ddo.C15.bestExact_relaxed_pooled
#print axioms Ddo.C15.pooled_exact_truthful
#print axioms Ddo.C15.compileOkP_restricted
#print axioms Ddo.C15.compileOkP_relaxed
#print axioms Ddo.C15.cutsetOkP_relaxed
#print axioms Ddo.C15.cstepP_inv
#print axioms Ddo.C15.pooled_partial_correct_long_arcs
#print axioms Ddo.C15.cstepP_terminates
#print axioms Ddo.C15.sequential_solver_correct_pooled_gen
#print axioms Ddo.C15.sequential_solver_correct_pooled
#print axioms Ddo.C15.sequential_solver_correct_pooled_siblings
#print axioms Ddo.C15.solveLoopP_run
#print axioms Ddo.C15.solveLoopP_correct
#print axioms Ddo.C15.solveLoopP_total
#print axioms Ddo.C15.solveLoopP_computes_opt
#print axioms Ddo.C15.d5_only_root
#print axioms Ddo.C15.cutset_progress_pooled_siblings
#print axioms Ddo.C15.pooled_eq_clean_opt_allImpacted
#print axioms Ddo.C15.LongArc.wellFormedP
#print axioms Ddo.C15.LongArc.not_cutProgress
#print axioms Ddo.C15.LongArc.correct
#print axioms Ddo.C15.LongArc.loop_value
#print axioms Ddo.C15.LongArc.d5_loops_wellformed
#print axioms Ddo.C15.D5.d5_loops
#print axioms Ddo.C15.D5.d5_loops_dedup
