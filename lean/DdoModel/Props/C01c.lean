import DdoModel.Proofs.MddTruth
import DdoModel.Proofs.SeqInv
import DdoModel.Props.C01
import DdoModel.Props.C06b
import DdoModel.Props.C07b
/-! # C01 (packaging) — the diagram model meets the solver's compilation contract

`Proofs/SeqInv.lean` proves the coverage invariant of the sequential branch-and-bound for *any* diagram whose answers meet
the contracts `Ddo.CompileOk` (restricted and relaxed compilations) and `Ddo.CutsetOk` (cut-set of a relaxed compilation that
is not exact).  Here: the compilation model of `DdoModel/Mdd.lean`, read through `toOut` (what the solver reads: `is_exact`,
`best_exact_value`, `best_exact_solution`, the cut-set), **satisfies `CompileOk`** for a well-formed model, with

* `Phi c := optOf H c = (H c.depth c.state).addI c.value` (the form of `phiMono_of_potential`),
* `opt` the optimum of the whole problem: `(H 0 P.init).addI P.initVal = some opt`,
* `Sol p w := SolOf P p w`: `p` lists, in some order, the decisions of a path of the model (`Reach`) from the problem root to a
  complete state (`nextVar = none`), of value `w`.

`compileOk_restricted`, `compileOk_relaxed` (the `must` result).  Compilations in isolation (`useCache = false`, `dom = none`): the
field `exact` is false otherwise (`Ddo.C07.CounterCache`).  `sound` / `within` of a *restricted* compilation hold for any cache
and dominance configuration (`restricted_sound_within`).  For the `may` result of a relaxed compilation `exact` and `within`
hold as well but `sound` does not (the model's own `bestExactSol` may be infeasible: `Ddo.C06.Tie.finding`), so it is not
packaged.  `CutsetOk` needs C08 (iii)/(iv) (proved elsewhere): `process_inv_of_model` keeps it as a hypothesis. -/
namespace Ddo.C01
open Ddo Ddo.Truth
variable {S K : Type} [DecidableEq S] [DecidableEq K]

/-- what the solver reads from a finished compilation -/
def toOut (r : Result S) : DDOut S :=
  { isExact := r.isExact, bestExact := r.bestExactValue, bestExactSol := r.bestExactSol, cutset := r.cutset }

/-- `p` lists (in some order) the decisions of a complete path of the model, of value `w` -/
def SolOf (P : Problem S) (p : List Dec) (w : Int) : Prop :=
  ∃ (k : Nat) (s : S) (q : List Dec) (L : List S), Reach P k s w q ∧ s ∈ L ∧ P.nextVar k L = none ∧ p.Perm q

omit [DecidableEq S] [DecidableEq K] in
/-- a reported solution (`IsSol`) is a solution of the whole problem, bounded by both optima -/
theorem isSol_facts (cfg : Cfg S K) (H : Nat → S → EInt) (opt : Int) (p0 : List Dec) (hP : Potential cfg.P H)
    (hroot : Reach cfg.P cfg.root.depth cfg.root.state cfg.root.value p0) (hperm : cfg.root.path.Perm p0)
    (hopt : (H 0 cfg.P.init).addI cfg.P.initVal = some opt) (w : Int) (sol : Option (List Dec))
    (h : IsSol cfg p0 w sol) :
    (∃ p, sol = some p ∧ SolOf cfg.P p w ∧ w ≤ opt) ∧ ∃ x, optOf H cfg.root = some x ∧ w ≤ x := by
  obtain ⟨k, s, q, L, hr, hs, hnv, hsol⟩ := h
  have hL := lowRel_of_potential hP
  refine ⟨⟨_, hsol, ⟨k, s, p0 ++ q, L, hr, hs, hnv, ?_⟩, ?_⟩, ?_⟩
  · exact List.Perm.append hperm (List.reverse_perm q)
  · obtain ⟨x, hx, hwx⟩ := complete_le_opt (N := ⟨cfg.P.init, cfg.P.initVal, [], 0, 0⟩) hL Reach.root trivial
      (q := p0 ++ q) (by simpa using hr) hs hnv
    have : x = opt := by
      unfold optOf at hx
      rw [hopt] at hx
      exact (Option.some.inj hx).symm
    omega
  · exact complete_le_opt hL hroot trivial hr hs hnv

/-- `sound` and `within` for a restricted compilation, **any** cache / dominance configuration, any cutoff -/
theorem restricted_sound_within (cfg : Cfg S K) (H : Nat → S → EInt) (B opt : Int) (p0 : List Dec)
    (cache : Cache S) (store : DomStore S K) (polls : Nat) (stopAt : Option Nat)
    (hres : cfg.ctype = .restricted) (hP : Potential cfg.P H)
    (hB : NoClamp cfg.P cfg.R cfg.root.value B)
    (hroot : Reach cfg.P cfg.root.depth cfg.root.state cfg.root.value p0) (hperm : cfg.root.path.Perm p0)
    (hopt : (H 0 cfg.P.init).addI cfg.P.initVal = some opt)
    (hok : (compile cfg cache store polls stopAt).1 = .ok) (w : Int)
    (hw : (toOut (compile cfg cache store polls stopAt).2.1).bestExact = some w) :
    (∃ p, (toOut (compile cfg cache store polls stopAt).2.1).bestExactSol = some p ∧ SolOf cfg.P p w ∧ w ≤ opt) ∧
    ∃ x, optOf H cfg.root = some x ∧ w ≤ x := by
  obtain ⟨hbl, _, hres'⟩ := Ddo.compile_ok cfg cache store polls stopAt hok
  have e2 : (cfg.ctype == CompType.relaxed) = false := by rw [hres]; decide
  rw [e2] at hres'
  have e3 : ∀ b : Built S K, b.ebpMust false = false := fun _ => rfl
  rw [e3] at hres'
  simp only [toOut] at hw ⊢
  rw [hres'] at hw ⊢
  exact isSol_facts cfg H opt p0 hP hroot hperm hopt w _
    (bestExact_sol_false cfg B p0 hB hroot cache store polls stopAt hbl w hw)

/-- **the contract of a restricted compilation** (in isolation) -/
theorem compileOk_restricted (cfg : Cfg S K) (H : Nat → S → EInt) (B opt : Int) (p0 : List Dec)
    (cache : Cache S) (store : DomStore S K) (polls : Nat)
    (hres : cfg.ctype = .restricted) (hcache : cfg.useCache = false) (hdom : cfg.dom = none)
    (hP : Potential cfg.P H) (hR : RubOk cfg.R H)
    (hB : NoClamp cfg.P cfg.R cfg.root.value B) (hlb : InI cfg.lb) (hlb' : cfg.lb < iMax)
    (hroot : Reach cfg.P cfg.root.depth cfg.root.state cfg.root.value p0) (hperm : cfg.root.path.Perm p0)
    (hopt : (H 0 cfg.P.init).addI cfg.P.initVal = some opt)
    (hok : (compile cfg cache store polls none).1 = .ok) :
    CompileOk (optOf H) opt (SolOf cfg.P) cfg.root cfg.lb (toOut (compile cfg cache store polls none).2.1) := by
  refine ⟨fun w hw => ?_, fun w hw => ?_, fun hex x hx hgt => ?_⟩
  · exact (restricted_sound_within cfg H B opt p0 cache store polls none hres hP hB hroot hperm hopt hok w hw).1
  · exact (restricted_sound_within cfg H B opt p0 cache store polls none hres hP hB hroot hperm hopt hok w hw).2
  · exact (C07.restricted_exact_truthful cfg H B x p0 cache store polls hres hcache hdom hP hR hB hlb hroot hx hgt
      (Or.inr hlb') hok _ (.inl rfl) hex).bestExactValue

/-- **the contract of a relaxed compilation** (in isolation, the `must` result) -/
theorem compileOk_relaxed (cfg : Cfg S K) (H : Nat → S → EInt) (B opt : Int) (p0 : List Dec)
    (cache : Cache S) (store : DomStore S K) (polls : Nat)
    (hrel : cfg.ctype = .relaxed) (hcache : cfg.useCache = false) (hdom : cfg.dom = none) (hW : 1 ≤ cfg.width)
    (hP : Potential cfg.P H) (hR : RubOk cfg.R H) (hM : MergeOk cfg.R H) (hAM : Cover.AttMerge cfg.P cfg.R H)
    (hB : NoClamp cfg.P cfg.R cfg.root.value B) (hlb : InI cfg.lb) (hlb' : cfg.lb < iMax)
    (hroot : Reach cfg.P cfg.root.depth cfg.root.state cfg.root.value p0) (hperm : cfg.root.path.Perm p0)
    (hopt : (H 0 cfg.P.init).addI cfg.P.initVal = some opt)
    (hok : (compile cfg cache store polls none).1 = .ok) :
    CompileOk (optOf H) opt (SolOf cfg.P) cfg.root cfg.lb (toOut (compile cfg cache store polls none).2.1) := by
  have hsw : ∀ w, (toOut (compile cfg cache store polls none).2.1).bestExact = some w →
      (∃ p, (toOut (compile cfg cache store polls none).2.1).bestExactSol = some p ∧ SolOf cfg.P p w ∧ w ≤ opt) ∧
      ∃ x, optOf H cfg.root = some x ∧ w ≤ x := by
    intro w hw
    obtain ⟨hbl, _, hres'⟩ := Ddo.compile_ok cfg cache store polls none hok
    have e2 : (cfg.ctype == CompType.relaxed) = true := by rw [hrel]; decide
    rw [e2] at hres'
    simp only [toOut] at hw ⊢
    rw [hres'] at hw ⊢
    cases hm : (finalizeLayers (buildLoop cfg none (cfg.P.nbVars + 2) (initDD cfg cache store polls)).1).ebpMust true with
    | false =>
      rw [hm] at hw
      exact isSol_facts cfg H opt p0 hP hroot hperm hopt w _
        (bestExact_sol_false cfg B p0 hB hroot cache store polls none hbl w hw)
    | true =>
      rw [hm] at hw
      exact isSol_facts cfg H opt p0 hP hroot hperm hopt w _
        (ebpMust_sound cfg B p0 hrel hW hcache hdom hB hroot cache store polls hbl hm w hw).exactSol
  refine ⟨fun w hw => (hsw w hw).1, fun w hw => (hsw w hw).2, fun hex x hx hgt => ?_⟩
  exact (C06.relaxed_exact_value cfg H B x p0 cache store polls hrel hcache hdom hW hP hR hM hAM hB hlb hroot hx hgt
    (Or.inr hlb') hok _ (.inl rfl) hex).1

/-- **C01 for the diagram model**: one `process_one_node` of the sequential solver in which both compilations are the
    `Mdd.lean` compilations (in isolation) of the popped node with the solver's incumbent preserves the coverage invariant.
    `cR` / `cX`: the configurations of the restricted / relaxed compilation (same model, root = the popped node `N`,
    `lb` = the incumbent at the time of the call).  `hcut` (C08 (iii)/(iv)) is left as a hypothesis. -/
theorem process_inv_of_model (H : Nat → S → EInt) (B opt : Int) (p0 : List Dec)
    (cR cX : Cfg S K) (cache : Cache S) (store : DomStore S K) (polls polls' : Nat)
    (st : SeqSt S) (N : SubP S)
    (hPR : cX.P = cR.P) (hNR : cR.root = N) (hNX : cX.root = N)
    (hlbR : cR.lb = st.bestLb)
    (hlbX : cX.lb = (st.updateBest (toOut (compile cR cache store polls none).2.1)).bestLb)
    (hres : cR.ctype = .restricted) (hrel : cX.ctype = .relaxed)
    (hcR : cR.useCache = false) (hdR : cR.dom = none) (hcX : cX.useCache = false) (hdX : cX.dom = none) (hW : 1 ≤ cX.width)
    (hP : Potential cR.P H) (hRR : RubOk cR.R H) (hRX : RubOk cX.R H) (hM : MergeOk cX.R H)
    (hAM : Cover.AttMerge cX.P cX.R H)
    (hBR : NoClamp cR.P cR.R cR.root.value B) (hBX : NoClamp cX.P cX.R cX.root.value B)
    (hlbR1 : InI cR.lb) (hlbR2 : cR.lb < iMax) (hlbX1 : InI cX.lb) (hlbX2 : cX.lb < iMax)
    (hroot : Reach cR.P N.depth N.state N.value p0) (hperm : N.path.Perm p0)
    (hopt : (H 0 cR.P.init).addI cR.P.initVal = some opt)
    (hokR : (compile cR cache store polls none).1 = .ok) (hokX : (compile cX cache store polls' none).1 = .ok)
    (hinv : Inv (optOf H) opt (SolOf cR.P) (N :: st.fringe) st.bestLb st.bestSol)
    (hcut : (toOut (compile cX cache store polls' none).2.1).isExact = false →
      CutsetOk (optOf H) opt N (st.updateBest (toOut (compile cR cache store polls none).2.1)).bestLb
        (toOut (compile cX cache store polls' none).2.1)) :
    Inv (optOf H) opt (SolOf cR.P)
      (st.process false N true (.ok (toOut (compile cR cache store polls none).2.1))
        (.ok (toOut (compile cX cache store polls' none).2.1))).1.fringe
      (st.process false N true (.ok (toOut (compile cR cache store polls none).2.1))
        (.ok (toOut (compile cX cache store polls' none).2.1))).1.bestLb
      (st.process false N true (.ok (toOut (compile cR cache store polls none).2.1))
        (.ok (toOut (compile cX cache store polls' none).2.1))).1.bestSol := by
  have h1 := compileOk_restricted cR H B opt p0 cache store polls hres hcR hdR hP hRR hBR hlbR1 hlbR2
    (by rw [hNR]; exact hroot) (by rw [hNR]; exact hperm) hopt hokR
  have h2 := compileOk_relaxed cX H B opt p0 cache store polls' hrel hcX hdX hW (hPR ▸ hP) hRX hM hAM hBX hlbX1 hlbX2
    (by rw [hNX, hPR]; exact hroot) (by rw [hNX]; exact hperm) (by rw [hPR]; exact hopt) hokX
  rw [hNR, hlbR] at h1
  rw [hNX, hlbX, hPR] at h2
  refine process_inv (optOf H) opt (SolOf cR.P) (fun c u => rfl) st N _ _ hinv h1 h2 hcut

/-! ## non-vacuity: the tiny model of `Props/C06.lean` (optimum 3) meets both contracts -/
namespace TinyC
open Ddo.C06.Tiny

example : CompileOk (optOf H) 3 (SolOf prob) cfg.root cfg.lb
    (toOut (compile cfg (Cache.init 3) (DomStore.init 3) 0 none).2.1) :=
  compileOk_relaxed cfg H 1 3 [] (Cache.init 3) (DomStore.init 3) 0 rfl rfl rfl (by decide) potential rubOk mergeOk
    (Cover.attMerge_of_static potential (fun _ _ _ _ _ => rfl)) noClamp (by decide) (by decide) .root (List.Perm.refl _)
    rfl (by decide)

example : CompileOk (optOf H) 3 (SolOf prob) cfg.root cfg.lb
    (toOut (compile { cfg with ctype := .restricted } (Cache.init 3) (DomStore.init 3) 0 none).2.1) :=
  compileOk_restricted { cfg with ctype := .restricted } H 1 3 [] (Cache.init 3) (DomStore.init 3) 0 rfl rfl rfl potential rubOk
    noClamp (by decide) (by decide) .root (List.Perm.refl _) rfl (by decide)

end TinyC

end Ddo.C01

#print axioms Ddo.C01.restricted_sound_within
#print axioms Ddo.C01.compileOk_restricted
#print axioms Ddo.C01.compileOk_relaxed
#print axioms Ddo.C01.process_inv_of_model
