import DdoModel.Proofs.CappedBridge
import DdoModel.Props.C09c
/-! # C09 / D14 — without the cap of `enqueue_cutset` the caching solver is correct for **every** pop order

The solver used to cap the bound of every cut-set node by the bound of the sub-problem just processed (`enqueue_cutset(ub)`:
`cutset_node.ub = ub.min(cutset_node.ub)`).  With the threshold cache that bound may be valid only "modulo what deeper open
nodes cover", and the pre-fix solver returned the optimum when the fringe was popped best-first but could lose it otherwise
(`anyOrderOpt_false`, `Layered.Counter`: breadth-first pops end with 4, optimum 10; same on the real library, also for the
parallel solver with a delayed worker — finding D14).

This file **decided the conjecture "the cap is the only obstacle": it is true**, and the code was repaired accordingly: the cap
is gone, and `get_workload` keeps the *reported* bound monotone by itself (`best_ub := min best_ub node.ub` at pop).  The
no-cap solver — first defined here as a variant (`enqueueNC`, `kturnNC`, `KRunAnyNC`, …) of the then-capped model — is now
**the** model (`SeqSt.enqueue`, `SolverCfg.kturn`, `KRunAny`, …), the capped one the named pre-fix variant (`…Capped`), and the
any-order theorem is the headline `caching_solver_correct` of `Props/C09c.lean`.  What remains here: the theorem under its
historical name (`caching_solver_anyorder_nocap_correct`), the invariant spelled out on the reachable states, the validity
of the reported bounds (`nocap_bound_valid`, `reported_ub_valid`, `bestUb_antitone`), the scheduled loop, and the two
witnesses `Layered.Counter` (capped: 4, repaired: 10) and `Layered.Rise` (the bounds of the popped nodes may rise; the
reported bound does not).

## 1. the two solvers (`SeqSolver.lean`, `Proofs/CacheClosedDefs.lean`, `Proofs/CappedBridge.lean`)

`SeqSt.enqueue` = `SeqSt.enqueueCapped` without `min nodeUb ·`; `SeqSt.process`, `SolverCfg.kprocess`, `SolverCfg.kturn` and
`processCapped`, `kprocessCapped`, `kturnCapped` differ by that single line; `KStepAny` / `KStepAnyCapped` (one turn, any entry
of the fringe popped), `KRunAny` / `KRunAnyCapped` (finite runs), `SolverCfg.ksolveSched` / `ksolveSchedCapped` (explicit pop
schedule), `SolverCfg.ksolveLoop` / `ksolveLoopCapped` (best-first `popMax`).  Bridge: `enqueue_eq_capped`,
`process_eq_capped` — the repaired code is the capped code run with a cap that dominates the bounds of the cut-set.

## 2. search (`Proofs/NoCapSearch.lean`, compiled through a side package; launched before the proof was written, both
completed independently; run when the capped solver was the model and the no-cap one the variant `kturnNC`)

A counter-example was searched on the table family `Layered` (tables passing `Layered.check`, hence `WellFormed`; both cut-set
kinds, both fringes, widths as a function of `(depth, state)`: constant 1, constant 2, 1 on the first depths and 2 below, random
`1 … 3`).  Per configuration: the whole tree of pop orders depth-first up to a budget of 300–500 complete runs, and when the
tree is larger ten deterministic orders (breadth-first ×3, depth-first ×2, smallest bound first ×2, smallest value, LIFO, FIFO)
and 20–30 random schedules.  The capped (pre-fix) solver (now `kturnCapped`) ran over the same trees as a calibration.

| generator | tables | configurations (tree exhausted) | no-cap: complete runs / turns | wrong value / panic | states with a conditional bound | capped: wrong runs (tables) |
|---|---|---|---|---|---|---|
| random tables, `n = 6 … 8`, `m = 2 … 4` (193 000 more rejected by `check`) | 100 000 | 400 000 (393 865) | 3.46·10⁶ / 1.06·10⁷ | **0 / 0** | 10 | 0 (0) |
| point mutants (1 … 12 entries of the transition / cost / width tables) of `Counter`, `Fixed`, `Hand` | 18 000 | 72 000 (33 558) | 2.71·10⁷ / 8.16·10⁷ | **0 / 0** | 255 659 | 143 369 (9 692) |
| evolution from the same three (pool of 40, drifting to ≈ 20 changed entries, fitness = conditional bounds seen + capped failure) | 20 000 | 80 000 (36 143) | 1.88·10⁷ / 5.88·10⁷ | **0 / 0** | 1 078 060 | 230 627 (13 681) |

"Conditional bound" = a visited state in which an open sub-problem that beats the incumbent has `ub < potential` (the
precondition of D14).  Purely random tables almost never get there (which is why the capped solver never fails on them, and
why the earlier knapsack search of `Props/C09b.lean` found nothing); the mutation / evolution families live there, the capped
solver loses the optimum on more than half of their tables (the search does rediscover `anyOrderOpt_false`, with thousands of
distinct tables and schedules), and the no-cap solver never did on the same trees: 4.9·10⁷ complete runs, 1.5·10⁸ turns.
Best-first runs of the no-cap solver: 552 000, all optimal; 5 066 of them report a non-monotone `best_ub` (question (i)).

## 3. the theorem `caching_solver_correct` (= `caching_solver_anyorder_nocap_correct`)

For every `WellFormed` model (the bundle of `sequential_solver_correct`, nothing added), every ranking, width function,
cut-set kind, either fringe, **every pop order**: the caching solver terminates, never panics, and at the empty fringe
holds the optimum with a feasible stored solution (`is_exact = true`); nothing is reported for an infeasible problem.

**The invariant** is `KInvSt` of `Proofs/CacheClosedSolver.lean`; its coverage part `CInvC` (`Proofs/SeqCache.lean`) is
depth-stratified as it stands:

* `Live F T x d` — "the potential `x` is carried at depth `≥ d`": an open sub-problem `c`, `c.depth ≥ d`, with potential
  `Φ(c) ≥ x`, bound `c.ub ≥ x`, not refused by `must_explore`;
* `root`: if `opt > best_lb`, `opt` is carried at depth `≥ 0`;
* `cache` (**CacheOk**): every `(s, d, v)` the cache can prune (`v ≤ θ(s, d)`, the rule of `_filter_with_cache`) with
  `v + H d s > best_lb` has `v + H d s` carried at depth `≥ d`: *an entry of depth `d` is justified by open witnesses of depth
  `≥ d`*;
* `open_`: the potential of an open sub-problem `c` that beats `best_lb` is carried at depth `≥ c.depth` — by `c` itself when
  its bound is honest, by a (not shallower) witness when its bound was computed in a diagram cut by the cache.

One turn (`step_generic`): the diagram of the popped node `N` replaces `N` as a witness by cut-set nodes **strictly deeper**
than `N` (`CompC.cover`, `CompC.deeper`), or by the new incumbent, or — when the cache cut the diagram — by what the cache
covers **strictly deeper** (`CacheCov`, third alternative of `theta_sound` / `cover` / `ub`); a witness that the new thresholds
make prunable is replaced in the same way (`CompC.theta`); the transfer lemma `hTr` is an induction on the depth, deepest
first, so no circular justification can arise.  A cut-set node `c'` handed out with `c'.ub ≥ Φ(c')` (or covered deeper:
`CompC.ub`) is a legitimate witness **iff it is enqueued with that bound**; the only use of the best-first hypothesis in the
proof about the capped solver was to show that `min N.ub c'.ub` still dominates what `c'` must carry (`hEnq`).  Without the cap
the hypothesis has nothing left to do, and `step_generic` / `processC_inv` no longer have it.

(History: the theorem was first obtained as a reduction to the best-first theorem about the capped solver — processing `N`
without the cap *is* processing `raise N U`, `N` with its bound raised to `U ≥` every bound of the cut-set and of the fringe,
**with** the cap, `process_eq_capped`; `CInvC` is monotone in the bound of a node, `cinvC_raise`; the contracts of the
compilations do not read the bound of their root, `compC_raise`; and `raise N U` is a best-first pop.  Those lemmas are kept in
`Proofs/CappedBridge.lean`.)

## 4. side questions

(i) **Without the cap the bounds of the popped nodes are no longer monotone, even with best-first pops and without any help of
the cache**: `Rise` (4 binary variables, 2 states, width 1) — the bounds of the popped nodes are `+∞, 5, 6`
(`Rise.popped_bound_increases`): the cut-set node `(state 0, value 3, depth 2)` of the diagram of `(state 1, value 0, ub 5,
depth 1)` gets the bound 6 from its own diagram, whose merge happens one layer later than in the root's diagram.  With the cap
that node was enqueued with `min(5, 6) = 5` (`Rise.bestub_capped`).  That is what the cap was for (C19's monotonicity of the
reported bounds); the repair keeps both: the *reported* bound is the running minimum `best_ub := min best_ub node.ub` written at
the pop — `+∞, 5, 5` on `Rise` (`Rise.reported_ub_monotone_on_rise`), never increasing (`bestUb_antitone`) and still valid
along best-first runs (`reported_ub_valid`) — and the nodes are no longer capped.
(ii) On `Layered.Counter` the repaired solver popping breadth-first returns 10 in all four configurations
(`Counter.nocap_bfs_value`, by `decide`; `Counter.nocap_any_order`: every pop order, from the theorem); the pre-fix solver
returns 4 (`Counter.cap_vs_nocap`). -/
set_option linter.unusedSectionVars false
set_option linter.unusedVariables false
namespace Ddo.C09
open Ddo Ddo.C01 Ddo.Closed Ddo.Truth
variable {S : Type} [DecidableEq S]

/-! ## the headline under its historical name

(`kstepAny_inv`, `krunAny_inv`, `kstepAny_terminates`, `no_infinite_krunAny`, `kstepAny_progress` — the former `kstepAnyNC_inv`,
… of this file — are in `Props/C09c.lean`.) -/

/-- **`caching_solver_anyorder_nocap_correct`** — the name under which the any-order theorem was first proved, when the no-cap
    solver was a variant of the model; since the repair of D14 it is, word for word, the headline
    `Ddo.C09.caching_solver_correct`: for every well-formed model, every ranking, width function, cut-set kind and either
    fringe, the sequential solver with the threshold cache over the diagram model **whose `enqueue_cutset` does not cap the
    bounds of the cut-set nodes**, popping the fringe in **any order**, terminates, never panics, and at the empty fringe
    reports `is_exact = true` and **the optimum** with a genuinely feasible stored solution — or no value iff the problem is
    infeasible. -/
theorem caching_solver_anyorder_nocap_correct (sv : CSolverCfg S) (H : Nat → S → EInt) (B0 B : Int)
    (hwf : WellFormed sv H B0 B) :
    WellFounded (fun t s : KSt S => KRunAny sv (KSt.init sv) s ∧ KStepAny sv s t) ∧
    (∀ run : Nat → KSt S, run 0 = KSt.init sv → ¬ ∀ n, KStepAny sv (run n) (run (n + 1))) ∧
    ∀ t, KRunAny sv (KSt.init sv) t →
      (∀ N rest, t.st.fringe.Perm (N :: rest) → ∃ u, KStepAny sv t u ∧ sv.kturn t N rest = some u) ∧
      t.st.crashed = false ∧ t.st.abort = false ∧
      (t.st.fringe = [] →
        (∀ opt, (H 0 sv.P.init).addI sv.P.initVal = some opt →
          t.st.bestLb = opt ∧ (∃ p, t.st.bestSol = some p ∧ SolOf sv.P p opt) ∧ t.st.completion = (true, some opt)) ∧
        ((H 0 sv.P.init).addI sv.P.initVal = none → t.st.bestSol = none ∧ t.st.completion = (true, none))) :=
  caching_solver_correct sv H B0 B hwf

/-- **the invariant, spelled out on the reachable states** (what `KInvSt.feas` = `CInvC` says, `Live` unfolded): in every
    state `t` the solver can reach, under any pop order, for a feasible problem of optimum `opt`:

    * the incumbent is `≤ opt`, and if it is `< opt` some open sub-problem that `must_explore` accepts has potential `≥ opt`
      and bound `≥ opt` (**coverage**);
    * (**CacheOk, depth-stratified**) whatever the cache can prune at depth `d` — `(s, d, v)` with `v ≤ θ(s, d)` — and that
      would beat the incumbent is carried by an open sub-problem of depth `≥ d` that `must_explore` accepts: potential
      `≥ v + H d s`, bound `≥ v + H d s`;
    * the potential of an open sub-problem that beats the incumbent is carried by an open sub-problem that is **not
      shallower** (itself when its bound is honest) -/
theorem nocap_reachable_invariant (sv : CSolverCfg S) (H : Nat → S → EInt) (B0 B : Int) (hwf : WellFormed sv H B0 B)
    (t : KSt S) (ht : KRunAny sv (KSt.init sv) t) (opt : Int) (hopt : (H 0 sv.P.init).addI sv.P.initVal = some opt) :
    t.st.bestLb ≤ opt ∧
    (opt > t.st.bestLb →
      ∃ c ∈ t.st.fringe, (∃ y, optOf H c = some y ∧ opt ≤ y) ∧ opt ≤ c.ub ∧ ¬ prunM (viewOf t.cache) c) ∧
    (∀ (s : S) (d : Nat) (θ : Thr) (v h : Int), viewOf t.cache s d = some θ → RgB B d v → v ≤ θ.value → H d s = some h →
      v + h > t.st.bestLb →
      ∃ c ∈ t.st.fringe, d ≤ c.depth ∧ (∃ y, optOf H c = some y ∧ v + h ≤ y) ∧ v + h ≤ c.ub ∧ ¬ prunM (viewOf t.cache) c) ∧
    (∀ c ∈ t.st.fringe, ∀ y, optOf H c = some y → y > t.st.bestLb →
      ∃ c' ∈ t.st.fringe, c.depth ≤ c'.depth ∧ (∃ y', optOf H c' = some y' ∧ y ≤ y') ∧ y ≤ c'.ub ∧
        ¬ prunM (viewOf t.cache) c') := by
  have hC := (krunAny_inv hwf ht (init_kinv hwf)).feas opt hopt
  refine ⟨hC.lbOk, fun hgt => ?_, fun s d θ v h hT hrg hv hH hgt => hC.cache s d θ v h hT hrg hv hH hgt,
    fun c hc y hy hgt => hC.open_ c hc y hy hgt⟩
  obtain ⟨c, hc, _, h1, h2, h3⟩ := hC.root hgt
  exact ⟨c, hc, h1, h2, h3⟩

/-- **the bounds of the open sub-problems stay valid**: in every reachable state (any pop order) the optimum is `≤` the
    incumbent or `≤` the bound of some open sub-problem; so with a best-first pop the bound of the popped node is `≥` the
    optimum as long as the incumbent is not optimal.  (It may *increase* from one pop to the next,
    `Layered.Rise.popped_bound_increases`; the reported `best_ub` is the running minimum `best_ub := min best_ub node.ub`,
    which restores the monotonicity of the reported bound without capping the nodes, and stays sound by this lemma:
    `reported_ub_valid`.) -/
theorem nocap_bound_valid (sv : CSolverCfg S) (H : Nat → S → EInt) (B0 B : Int) (hwf : WellFormed sv H B0 B)
    (t : KSt S) (ht : KRunAny sv (KSt.init sv) t) (opt : Int) (hopt : (H 0 sv.P.init).addI sv.P.initVal = some opt) :
    (opt ≤ t.st.bestLb ∨ ∃ c ∈ t.st.fringe, opt ≤ c.ub) ∧
    ∀ N rest, t.st.fringe.Perm (N :: rest) → (∀ c ∈ rest, c.ub ≤ N.ub) → opt > t.st.bestLb → opt ≤ N.ub := by
  obtain ⟨_, h2, _, _⟩ := nocap_reachable_invariant sv H B0 B hwf t ht opt hopt
  constructor
  · by_cases hgt : opt > t.st.bestLb
    · obtain ⟨c, hc, _, hu, _⟩ := h2 hgt
      exact Or.inr ⟨c, hc, hu⟩
    · exact Or.inl (by omega)
  · intro N rest hp hmax hgt
    obtain ⟨c, hc, _, hu, _⟩ := h2 hgt
    rcases List.mem_cons.mp (hp.mem_iff.mp hc) with e | e
    · subst e; exact hu
    · have := hmax c e; omega

/-! ## the reported upper bound: the running minimum -/

/-- **the reported `best_ub` never increases**, whatever node is popped (no hypothesis: `get_workload` writes
    `min best_ub node.ub`, `process_one_node` never writes `best_ub` — `kturn_bounds`) -/
theorem bestUb_antitone {sv : SolverCfg S} {s t : KSt S} (h : KRunAny sv s t) : t.st.bestUb ≤ s.st.bestUb := by
  induction h with
  | refl => exact Int.le_refl _
  | tail _ hstep ih =>
    cases hstep with
    | pop N rest hpop hturn =>
      have := (kturn_bounds sv _ _ N rest hturn).1
      omega

/-- the incumbent never decreases, whatever node is popped -/
theorem bestLb_monotone {sv : SolverCfg S} {s t : KSt S} (h : KRunAny sv s t) : s.st.bestLb ≤ t.st.bestLb := by
  induction h with
  | refl => exact Int.le_refl _
  | tail _ hstep ih =>
    cases hstep with
    | pop N rest hpop hturn =>
      have := (kturn_bounds sv _ _ N rest hturn).2
      omega

theorem krun_reported_ub {sv : SolverCfg S} {H : Nat → S → EInt} {B0 B : Int} (hwf : WellFormed sv H B0 B) (opt : Int)
    (hopt : (H 0 sv.P.init).addI sv.P.initVal = some opt) {s t : KSt S} (h : KRun sv s t) (hI : KInvSt sv H B s)
    (h0 : opt ≤ max s.st.bestLb s.st.bestUb) : opt ≤ max t.st.bestLb t.st.bestUb := by
  induction h with
  | refl => exact h0
  | @tail t' u hrun hstep ih =>
    have hI' := krun_inv hwf hrun hI
    cases hstep with
    | pop N rest hpop hmax hturn =>
      obtain ⟨b1, b2⟩ := kturn_bounds sv _ _ N rest hturn
      by_cases hgt : opt > t'.st.bestLb
      · obtain ⟨c, hc, _, _, hu, _⟩ := (hI'.feas opt hopt).root hgt
        have hN : opt ≤ N.ub := by
          rcases List.mem_cons.mp (hpop.mem_iff.mp hc) with e | e
          · subst e; exact hu
          · rcases hmax c e with h | ⟨h, _⟩ <;> omega
        omega
      · omega

/-- **`reported_ub_valid`**: along any **best-first** run (`KRun`: the popped node has the largest bound of the fringe — the
    `MaxUB` order of the shipped solvers) from the initial state of a well-formed feasible model with optimum `opt`, the
    reported pair brackets the optimum: `opt ≤ max best_lb best_ub` (and `best_lb ≤ opt`), `best_ub` being the running minimum
    of the bounds of the popped nodes.  (At the empty fringe `best_lb = opt`, `caching_solver_correct`; before that, either
    the incumbent is already optimal or every popped bound so far dominated the optimum, `nocap_bound_valid`.)  The reported
    `best_ub` never increases, under any pop order: `bestUb_antitone`. -/
theorem reported_ub_valid (sv : CSolverCfg S) (H : Nat → S → EInt) (B0 B : Int) (hwf : WellFormed sv H B0 B)
    (t : KSt S) (ht : KRun sv (KSt.init sv) t) (opt : Int) (hopt : (H 0 sv.P.init).addI sv.P.initVal = some opt) :
    t.st.bestLb ≤ opt ∧ opt ≤ max t.st.bestLb t.st.bestUb := by
  refine ⟨((krun_inv hwf ht (init_kinv hwf)).feas opt hopt).lbOk, krun_reported_ub hwf opt hopt ht (init_kinv hwf) ?_⟩
  have hb := opt_bound hwf.pot hwf.nv hwf.bound hopt
  have hBs := hwf.bound.B_small
  have e : (KSt.init sv).st.bestUb = iMax := by
    show (SeqSt.init sv.P none sv.dedup).bestUb = iMax
    cases sv.dedup <;> rfl
  rw [e]
  simp only [iMax]
  omega

/-- the statement `AnyOrderOpt` of `Props/C09c.lean` (false for the pre-fix solver, `anyOrderOpt_false`) holds for the solver
    without the cap: `AnyOrderOptFixed` (historical name of `anyOrderOptFixed_true`) -/
theorem anyOrderOptNC_true : AnyOrderOptFixed := anyOrderOptFixed_true

/-! ## the scheduled loop -/

/-- whatever the pop schedule, if the scheduled loop returns a state with an empty fringe that state is correct -/
theorem ksolveSched_correct (sv : CSolverCfg S) (H : Nat → S → EInt) (B0 B : Int) (hwf : WellFormed sv H B0 B)
    (sched : List Nat) (hend : (sv.ksolveSched sched (KSt.init sv)).st.fringe = []) :
    (sv.ksolveSched sched (KSt.init sv)).st.crashed = false ∧
    (∀ opt, (H 0 sv.P.init).addI sv.P.initVal = some opt →
      (sv.ksolveSched sched (KSt.init sv)).st.completion = (true, some opt) ∧
      ∃ p, (sv.ksolveSched sched (KSt.init sv)).st.bestSol = some p ∧ SolOf sv.P p opt) ∧
    ((H 0 sv.P.init).addI sv.P.initVal = none → (sv.ksolveSched sched (KSt.init sv)).st.completion = (true, none)) := by
  have hI := krunAny_inv hwf (ksolveSched_run sv sched _) (init_kinv hwf)
  obtain ⟨h1, h2⟩ := kinv_end_correct hwf hI hend
  exact ⟨hI.lay.2, fun opt hopt => ⟨(h1 opt hopt).2.2, (h1 opt hopt).2.1⟩, fun hinf => (h2 hinf).2⟩

/-- the scheduled loop never stops on a panic: from a state that satisfies the invariant, whatever index of the fringe the
    schedule asks for, the turn answers `some` (so `ksolveSched` only stops early on an index that is not in the fringe) -/
theorem ksolveSched_no_panic (sv : CSolverCfg S) (H : Nat → S → EInt) (B0 B : Int) (hwf : WellFormed sv H B0 B)
    (s : KSt S) (hI : KInvSt sv H B s) (i : Nat) (N : SubP S) (rest : List (SubP S))
    (hp : popAt s.st.fringe i = some (N, rest)) : sv.kturn s N rest ≠ none := by
  intro hn
  obtain ⟨u, _, hu⟩ := kstepAny_progress hwf hI N rest (popAt_perm _ _ _ _ hp)
  rw [hn] at hu
  cases hu

end Ddo.C09

/-! ## side question (ii): `Layered.Counter` without the cap (the repaired solver)

The breadth-first order of `Proofs/AnyOrderLayered.lean` (shallowest open sub-problem first, then the larger state), seven turns
(plain fringe, last-exact-layer cut-set; `(state, value, ub, depth)`; turns 1–3 are those of the capped run; schedule
`Counter.schedNC`, states `Counter.afterNC j` — `Proofs/AnyOrderLayered.lean`):

```
turn 1  pop R.                                        fringe [P = (0,0,13,1), A = (1,0,13,1)], incumbent 3
turn 2  pop A.                                        fringe [k2 = (2,0,13,4), P], incumbent 3
turn 3  pop P: N is handed out with ub(N) = 4 < 10 = pot(N) (its image was cut at a child of a merged node by the threshold
        that k2 carries).                             fringe [N = (0,0,4,2), k2], incumbent 3
turn 4  pop N (not best-first).  Restricted finds 4.  Cut-set = {c' = (2, value 0, depth 5), (0, 0, 5)} with the bounds of N's
        own diagram, 10 and 12 — **not capped to ub(N) = 4, hence enqueued**; thresholds (2, depth 5) ↦ (0, explored = false),
        (0, depth 5) ↦ (0, false) as before.         fringe [(0,0,12,5), c' = (2,0,10,5), k2], incumbent 4
turn 5  pop k2: its child (2, value 0, depth 5) is pruned by the threshold recorded at turn 4 — rightly so, c' is open and
        carries the potential 10.                     fringe [(0,0,12,5), c'], incumbent 4
turn 6  pop c': `must_explore` accepts it (value 0 = threshold 0, explored = false); finds 10.   fringe [(0,0,12,5)], incumbent 10
turn 7  pop (0,0,12,5): finds nothing better.         fringe [], incumbent 10 = optimum
``` -/
namespace Ddo.C09.Layered.Counter
open Ddo Ddo.C01 Ddo.Closed

set_option maxRecDepth 100000 in
/-- **(ii)** on `Counter` the (repaired, no-cap) solver popping breadth-first ends after seven turns with the empty fringe,
    `is_exact = true` and `best_value = Some(10)`, the optimum — in all four configurations, without panic -/
theorem nocap_bfs_value : ∀ dedup ∈ [false, true], ∀ kind ∈ [CutsetKind.lel, CutsetKind.frontier],
    ((sv dedup kind).ksolveSched (schedNC dedup kind) (KSt.init (sv dedup kind))).st.fringe.length = 0 ∧
    ((sv dedup kind).ksolveSched (schedNC dedup kind) (KSt.init (sv dedup kind))).st.completion = (true, some 10) ∧
    ((sv dedup kind).ksolveSched (schedNC dedup kind) (KSt.init (sv dedup kind))).st.explored = 7 ∧
    ((sv dedup kind).ksolveSched (schedNC dedup kind) (KSt.init (sv dedup kind))).st.crashed = false := by decide

set_option maxRecDepth 100000 in
/-- the first three turns are those of the capped run: `N = (0, 0, 4, 2)` is open with `ub = 4 < 10 = pot(N)` and `k2` with 13 -/
theorem nocap_stage_N : view (afterNC 3) = ([(0, 0, 4, 2), (2, 0, 13, 4)], 3) ∧ view (after 3) = view (afterNC 3) ∧
    cacheAt (afterNC 3) 4 = [(2, 0, false)] := by decide

set_option maxRecDepth 100000 in
/-- turn 4 pops `N` (bound 4): its cut-set nodes keep the bounds of their own diagram, **10 and 12, above the bound of the node
    they come from**, and are enqueued; the threshold `(2, depth 5) ↦ (0, explored = false)` is in the cache as in the capped
    run (`after 4`), but now the node it was recorded for, `c' = (2, 0, 10, 5)`, is open -/
theorem nocap_stage_cprime : view (afterNC 4) = ([(0, 0, 12, 5), (2, 0, 10, 5), (2, 0, 13, 4)], 4) ∧
    cacheAt (afterNC 4) 5 = [(2, 0, false), (0, 0, false)] ∧
    view (after 4) = ([(2, 0, 13, 4)], 4) := by decide

set_option maxRecDepth 100000 in
/-- turn 5 pops `k2` (its route to 10 is pruned by that threshold, as in the capped run); turn 6 pops `c'`, which `must_explore`
    accepts, and finds 10 -/
theorem nocap_stage_k2 : view (afterNC 5) = ([(0, 0, 12, 5), (2, 0, 10, 5)], 4) ∧
    (afterNC 5).cache.mustExplore 2 5 0 = some true := by decide

set_option maxRecDepth 100000 in
theorem nocap_stage_end : view (afterNC 6) = ([(0, 0, 12, 5)], 10) ∧ view (afterNC 7) = ([], 10) := by decide

/-- **every pop order**: any run of the solver on `Counter` (either fringe, either cut-set kind) that reaches the empty
    fringe reports `is_exact = true`, `best_value = Some(10)`; before that any entry of the fringe can be popped without
    panic — from `caching_solver_correct` -/
theorem nocap_any_order (dedup : Bool) (kind : CutsetKind) (t : KSt Int)
    (ht : KRunAny (sv dedup kind) (KSt.init (sv dedup kind)) t) :
    (t.st.fringe = [] → t.st.completion = (true, some 10)) ∧
    (∀ N rest, t.st.fringe.Perm (N :: rest) → ∃ u, (sv dedup kind).kturn t N rest = some u) ∧
    t.st.crashed = false := by
  have h := (caching_solver_correct (sv dedup kind) (H T) 10 80 (wellFormed dedup kind)).2.2 t ht
  refine ⟨fun hend => ((h.2.2.2 hend).1 10 opt10).2.2, fun N rest hp => ?_, h.2.1⟩
  obtain ⟨u, _, hu⟩ := h.1 N rest hp
  exact ⟨u, hu⟩

/-- the value computed by the scheduled loop is the one the theorem predicts -/
example : ((sv false .lel).ksolveSched (schedNC false .lel) (KSt.init (sv false .lel))).st.completion = (true, some 10) :=
  (nocap_any_order false .lel _ (ksolveSched_run _ _ _)).1
    (List.eq_nil_of_length_eq_zero (nocap_bfs_value false (by simp) .lel (by simp)).1)

/-- the pre-fix (capped) and the repaired (no-cap) solver side by side on the same model and the same (breadth-first) ranking -/
theorem cap_vs_nocap :
    ((sv false .lel).ksolveSchedCapped (sched false .lel) (KSt.init (sv false .lel))).st.completion = (true, some 4) ∧
    ((sv false .lel).ksolveSched (schedNC false .lel) (KSt.init (sv false .lel))).st.completion = (true, some 10) :=
  ⟨anyorder_counter.2.2.2, (nocap_bfs_value false (by simp) .lel (by simp)).2.1⟩

end Ddo.C09.Layered.Counter

/-! ## side question (i): without the cap the bounds of the popped nodes can increase, even best-first; the reported bound
does not (running minimum)

`Rise`: 4 binary variables, 2 states, merge = largest state, constant rough upper bound 5, width 1, static order.
Tables (`state: (next, cost) for decision 0 | (next, cost) for decision 1`):

```
x0:  0: (0,0)|(1,0)   1*: (0,0)|(1,0)
x1:  0: (0,0)|(1,0)   1: (0,3)|(1,0)
x2:  0: (0,0)|(0,1)   1: (1,0)|(1,0)
x3:  0: (0,0)|(0,0)   1: (0,1)|(0,2)
```

Value-to-go: depth 3: `0, 2`; depth 2: `1, 2`; depth 1: `2, 4`; depth 0: `4`.  Optimum 4 (`x0 = 1, x1 = 0` earns 3, then `x2 = 1`
earns 1).  The fringe never holds more than one node, so *every* pop order is best-first.

```
turn 1  pop the root.  Restricted: 4.  Relaxed (width 1): depth 1 = {0, 1} is kept (the first layer is never squashed);
        depth 2 = {(0, value 3), (1, value 0)} is merged into (1, value 3); then (1, 3), terminal 3 + 2 = 5.  Cut-set = depth 1;
        local bounds: (state 1, value 0) ↦ 5, (state 0, value 0) ↦ 2 (not enqueued: 2 ≤ incumbent 4).
        fringe [(1, 0, 5, 1)], incumbent 4, reported best_ub = +∞
turn 2  pop (1, 0, 5, 1): reported best_ub = min(+∞, 5) = 5.  Relaxed: depth 2 = {(0, 3), (1, 0)} is kept (first layer); depth 3 = {(0, value 4), (1, value 0)}
        is merged into (1, value 4): the merge happens one layer later than in the root's diagram, after `x2 = 1` has earned 1
        from state 0; terminal 4 + 2 = 6.  Cut-set = depth 2: (state 0, value 3) ↦ local bound **6** (rough bound 3 + 5 = 8).
        With the cap it is enqueued with min(5, 6) = 5; without the cap with 6.
        fringe [(0, 3, 6, 2)], incumbent 4
turn 3  pop (0, 3, 6, 2): **popped bound 6 > 5**; reported best_ub = min(5, 6) = 5 (pre-fix code: the node carried 5, and
        `best_ub = node.ub` = 5).  Exact, nothing better than 4.        fringe [], incumbent 4 = optimum
```

No threshold of the cache plays any role here: the relaxation of the child is simply worse than what the parent's diagram saw
of the same paths. -/
namespace Ddo.C09.Layered.Rise
open Ddo Ddo.C01 Ddo.Closed

def T : Tab :=
  { n := 4, m := 2,
    trl := [0,1, 0,1,   0,1, 0,1,   0,0, 1,1,   0,0, 0,0],
    cl :=  [0,0, 0,0,   0,0, 3,0,   0,1, 0,0,   0,0, 1,2],
    rub := 5 }

/-- `FixedWidth(1)` -/
def ws : List Nat := List.replicate 10 1

def sv (dedup : Bool) (kind : CutsetKind) : SolverCfg Int := Layered.sv T ws dedup kind

theorem checked : check T 3 = true := by decide

theorem wellFormed (dedup : Bool) (kind : CutsetKind) : WellFormed (sv dedup kind) (H T) 3 15 :=
  wellFormed_ofTables T 3 15 ws dedup kind checked (by decide) (by decide)

theorem opt4 : (H T 0 (prob T).init).addI (prob T).initVal = some 4 := by decide

/-- the sequence of the **bounds of the popped nodes** (`N.ub`) along the best-first loop of the solver -/
def poppedTrace (sv : SolverCfg Int) : Nat → KSt Int → List Int
  | 0, _ => []
  | n + 1, s =>
    match popMax s.st.fringe with
    | none => []
    | some (N, rest) =>
      match sv.kturn s N rest with
      | none => []
      | some t => N.ub :: poppedTrace sv n t

/-- the sequence of values of the **reported** `best_ub` (the running minimum written by `afterPop`) along the best-first
    loop of the solver -/
def ubTrace (sv : SolverCfg Int) : Nat → KSt Int → List Int
  | 0, _ => []
  | n + 1, s =>
    match popMax s.st.fringe with
    | none => []
    | some (N, rest) =>
      match sv.kturn s N rest with
      | none => []
      | some t => t.st.bestUb :: ubTrace sv n t

/-- the reported `best_ub` along the best-first loop of the **pre-fix (capped)** solver -/
def ubTraceCapped (sv : SolverCfg Int) : Nat → KSt Int → List Int
  | 0, _ => []
  | n + 1, s =>
    match popMax s.st.fringe with
    | none => []
    | some (N, rest) =>
      match sv.kturnCapped s N rest with
      | none => []
      | some t => t.st.bestUb :: ubTraceCapped sv n t

set_option maxRecDepth 100000 in
theorem poppedTrace_value : ∀ dedup ∈ [false, true], ∀ kind ∈ [CutsetKind.lel, CutsetKind.frontier],
    poppedTrace (sv dedup kind) 10 (KSt.init (sv dedup kind)) = [iMax, 5, 6] := by decide

set_option maxRecDepth 100000 in
theorem nocap_turn1 : ∀ dedup ∈ [false, true], ∀ kind ∈ [CutsetKind.lel, CutsetKind.frontier],
    view ((sv dedup kind).ksolveLoop 1 (KSt.init (sv dedup kind))) = ([(1, 0, 5, 1)], 4) := by decide

set_option maxRecDepth 100000 in
theorem nocap_turn2 : ∀ dedup ∈ [false, true], ∀ kind ∈ [CutsetKind.lel, CutsetKind.frontier],
    view ((sv dedup kind).ksolveLoop 2 (KSt.init (sv dedup kind))) = ([(0, 3, 6, 2)], 4) := by decide

/-- **(i)** with best-first pops and no cap the **bounds of the popped nodes** go `+∞, 5, 6`: the cut-set node `(state 0,
    value 3, depth 2)` handed out by the diagram of the node `(state 1, value 0, ub 5, depth 1)` carries the bound 6
    (formerly `bestub_increases`, when the pop wrote `best_ub := node.ub`) -/
theorem popped_bound_increases : ∀ dedup ∈ [false, true], ∀ kind ∈ [CutsetKind.lel, CutsetKind.frontier],
    poppedTrace (sv dedup kind) 10 (KSt.init (sv dedup kind)) = [iMax, 5, 6] ∧
    view ((sv dedup kind).ksolveLoop 1 (KSt.init (sv dedup kind))) = ([(1, 0, 5, 1)], 4) ∧
    view ((sv dedup kind).ksolveLoop 2 (KSt.init (sv dedup kind))) = ([(0, 3, 6, 2)], 4) :=
  fun d hd k hk => ⟨poppedTrace_value d hd k hk, nocap_turn1 d hd k hk, nocap_turn2 d hd k hk⟩

set_option maxRecDepth 100000 in
/-- **the reported `best_ub` of the repaired solver stays monotone on `Rise`**: `+∞, 5, 5` — the running minimum
    `min best_ub node.ub` written at the pop (in general: `Ddo.C09.bestUb_antitone`) -/
theorem reported_ub_monotone_on_rise : ∀ dedup ∈ [false, true], ∀ kind ∈ [CutsetKind.lel, CutsetKind.frontier],
    ubTrace (sv dedup kind) 10 (KSt.init (sv dedup kind)) = [iMax, 5, 5] := by decide

set_option maxRecDepth 100000 in
/-- the run ends after three turns with the optimum (as `caching_solver_correct` predicts) -/
theorem nocap_value : ∀ dedup ∈ [false, true], ∀ kind ∈ [CutsetKind.lel, CutsetKind.frontier],
    ((sv dedup kind).ksolveLoop 10 (KSt.init (sv dedup kind))).st.fringe.length = 0 ∧
    ((sv dedup kind).ksolveLoop 10 (KSt.init (sv dedup kind))).st.completion = (true, some 4) ∧
    ((sv dedup kind).ksolveLoop 10 (KSt.init (sv dedup kind))).st.explored = 3 := by decide

set_option maxRecDepth 100000 in
/-- the pre-fix solver, with the cap: `+∞, 5, 5` (the same node is enqueued with `min(5, 6)`) -/
theorem bestub_capped : ∀ dedup ∈ [false, true], ∀ kind ∈ [CutsetKind.lel, CutsetKind.frontier],
    ubTraceCapped (sv dedup kind) 10 (KSt.init (sv dedup kind)) = [iMax, 5, 5] ∧
    view ((sv dedup kind).ksolveLoopCapped 2 (KSt.init (sv dedup kind))) = ([(0, 3, 5, 2)], 4) ∧
    ((sv dedup kind).ksolveLoopCapped 10 (KSt.init (sv dedup kind))).st.completion = (true, some 4) := by decide

set_option maxRecDepth 100000 in
/-- the bound 6 is a valid but weaker bound: the potential of that node is 4 -/
theorem rise_potential : optOf (H T) ⟨0, 3, [], 6, 2⟩ = some 4 ∧ optOf (H T) ⟨1, 0, [], 5, 1⟩ = some 4 := by decide

set_option maxRecDepth 100000 in
/-- **(i) as a statement about the solver**: there is a well-formed model and a best-first run in which a sub-problem is popped
    with a bound strictly above the bound popped before it (`u1`, `u2`: the bounds of the nodes that `popMax` returns after
    `j` and after `j + 1` turns).  Formerly `nocap_bestub_not_monotone`, stated on `best_ub` when the pop wrote
    `best_ub := node.ub`; the reported `best_ub` is now the running minimum and *is* monotone (`bestUb_antitone`). -/
theorem popped_bound_not_monotone : ∃ (sv : CSolverCfg Int) (H : Nat → Int → EInt) (B0 B : Int), WellFormed sv H B0 B ∧
    ∃ (j : Nat) (u1 u2 : Int),
      (popMax (sv.ksolveLoop j (KSt.init sv)).st.fringe).map (fun Nr => Nr.1.ub) = some u1 ∧
      (popMax (sv.ksolveLoop (j + 1) (KSt.init sv)).st.fringe).map (fun Nr => Nr.1.ub) = some u2 ∧ u1 < u2 := by
  refine ⟨sv false .lel, H T, 3, 15, wellFormed false .lel, 1, 5, 6, ?_⟩
  decide

/-- the general statements, instantiated on `Rise`: along the best-first run the reported pair brackets the optimum 4 -/
theorem rise_reported_ub_valid (dedup : Bool) (kind : CutsetKind) (t : KSt Int)
    (ht : KRun (sv dedup kind) (KSt.init (sv dedup kind)) t) : t.st.bestLb ≤ 4 ∧ 4 ≤ max t.st.bestLb t.st.bestUb :=
  reported_ub_valid (sv dedup kind) (H T) 3 15 (wellFormed dedup kind) t ht 4 opt4

end Ddo.C09.Layered.Rise

#print axioms Ddo.process_eq_capped
#print axioms Ddo.C09.cinvC_raise
#print axioms Ddo.C09.compC_raise
#print axioms Ddo.C09.kturn_inv
#print axioms Ddo.C09.kturn_bounds
#print axioms Ddo.C09.kstepAny_inv
#print axioms Ddo.C09.krunAny_inv
#print axioms Ddo.C09.kstepAny_terminates
#print axioms Ddo.C09.caching_solver_correct
#print axioms Ddo.C09.caching_solver_anyorder_nocap_correct
#print axioms Ddo.C09.nocap_reachable_invariant
#print axioms Ddo.C09.nocap_bound_valid
#print axioms Ddo.C09.bestUb_antitone
#print axioms Ddo.C09.bestLb_monotone
#print axioms Ddo.C09.reported_ub_valid
#print axioms Ddo.C09.anyOrderOptNC_true
#print axioms Ddo.C09.anyOrderOptFixed_true
#print axioms Ddo.C09.ksolveSched_correct
#print axioms Ddo.C09.ksolveSched_no_panic
#print axioms Ddo.C09.ksolveLoop_total
#print axioms Ddo.C09.ksolveLoop_computes_opt
#print axioms Ddo.C09.Layered.Counter.nocap_bfs_value
#print axioms Ddo.C09.Layered.Counter.nocap_stage_N
#print axioms Ddo.C09.Layered.Counter.nocap_stage_cprime
#print axioms Ddo.C09.Layered.Counter.nocap_stage_k2
#print axioms Ddo.C09.Layered.Counter.nocap_stage_end
#print axioms Ddo.C09.Layered.Counter.nocap_any_order
#print axioms Ddo.C09.Layered.Counter.cap_vs_nocap
#print axioms Ddo.C09.Layered.Rise.wellFormed
#print axioms Ddo.C09.Layered.Rise.popped_bound_increases
#print axioms Ddo.C09.Layered.Rise.reported_ub_monotone_on_rise
#print axioms Ddo.C09.Layered.Rise.nocap_value
#print axioms Ddo.C09.Layered.Rise.bestub_capped
#print axioms Ddo.C09.Layered.Rise.popped_bound_not_monotone
#print axioms Ddo.C09.Layered.Rise.rise_reported_ub_valid
