import DdoModel.Proofs.NoCapSolver
import DdoModel.Props.C09c
/-! # C09 / D14 — without the cap of `enqueue_cutset` the caching solver is correct for **every** pop order

`Props/C09c.lean`: the sequential solver with the threshold cache returns the optimum when the fringe is popped best-first
(`caching_solver_correct`) and may lose it otherwise (`anyOrderOpt_false`, `Layered.Counter`: breadth-first pops end with 4,
optimum 10; same on the real library, also for the parallel solver with a delayed worker — open finding D14).  The mechanism:
`enqueue_cutset` caps the bound of every cut-set node by the bound of the sub-problem just processed
(`cutset_node.ub = ub.min(cutset_node.ub)`), and with the cache that bound may be valid only "modulo what deeper open nodes
cover".

This file **decides the conjecture "the cap is the only obstacle": it is true.**

## 1. the no-cap solver (`Proofs/NoCapDefs.lean`)

`SeqSt.enqueueNC` = `SeqSt.enqueue` without `min nodeUb ·`; `SeqSt.processNC`, `SolverCfg.kprocessNC`, `SolverCfg.kturnNC` mirror
`process`, `kprocess`, `kturn` line by line with that single change; `KStepAnyNC` (one turn, any entry of the fringe popped),
`KRunAnyNC` (finite runs), `SolverCfg.ksolveSchedNC` (explicit pop schedule), `SolverCfg.ksolveLoopNC` (best-first `popMax`).

## 2. search (`Proofs/NoCapSearch.lean`, compiled through a side package; launched before the proof was written, both
completed independently)

A counter-example was searched on the table family `Layered` (tables passing `Layered.check`, hence `WellFormed`; both cut-set
kinds, both fringes, widths as a function of `(depth, state)`: constant 1, constant 2, 1 on the first depths and 2 below, random
`1 … 3`).  Per configuration: the whole tree of pop orders depth-first up to a budget of 300–500 complete runs, and when the
tree is larger ten deterministic orders (breadth-first ×3, depth-first ×2, smallest bound first ×2, smallest value, LIFO, FIFO)
and 20–30 random schedules.  The capped solver (`kturn`) ran over the same trees as a calibration.

| generator | tables | configurations (tree exhausted) | no-cap: complete runs / turns | wrong value / panic | states with a conditional bound | capped: wrong runs (tables) |
|---|---|---|---|---|---|---|
| random tables, `n = 6 … 8`, `m = 2 … 4` (193 000 more rejected by `check`) | 100 000 | 400 000 (393 865) | 3.46·10⁶ / 1.06·10⁷ | **0 / 0** | 10 | 0 (0) |
| point mutants (1 … 12 entries of the transition / cost / width tables) of `Counter`, `Fixed`, `Hand` | 18 000 | 72 000 (33 558) | 2.71·10⁷ / 8.16·10⁷ | **0 / 0** | 255 659 | 143 369 (9 692) |
| evolution from the same three (pool of 40, drifting to ≈ 20 changed entries, fitness = conditional bounds seen + capped failure) | 20 000 | 80 000 (36 143) | 1.88·10⁷ / 5.88·10⁷ | **0 / 0** | 1 078 060 | 230 627 (13 681) |

"Conditional bound" = a visited state in which an open sub-problem that beats the incumbent has `ub < potential` (the
precondition of D14).  Purely random tables almost never get there (which is why the capped solver never fails on them, and
why the earlier knapsack search of `Props/C09b.lean` found nothing); the mutation / evolution families live there, the capped
solver loses the optimum on more than half of their tables (the search does rediscover `anyOrderOpt_false`, with thousands of
distinct tables and schedules), and the no-cap solver never did on the same trees: 4.9·10⁷ complete runs, 1.5·10⁸ turns.
Best-first runs of the no-cap solver: 552 000, all optimal; 5 066 of them report a non-monotone `best_ub` (question (i)).

## 3. the theorem `caching_solver_anyorder_nocap_correct`

For every `WellFormed` model (the bundle of `sequential_solver_correct`, nothing added), every ranking, width function,
cut-set kind, either fringe, **every pop order**: the no-cap caching solver terminates, never panics, and at the empty fringe
holds the optimum with a feasible stored solution (`is_exact = true`); nothing is reported for an infeasible problem.

**The invariant** is `KInvSt` of `Proofs/CacheClosedSolver.lean`, *unchanged* — the very invariant of the best-first proof; its
coverage part `CInvC` (`Proofs/SeqCache.lean`) is depth-stratified as it stands:

* `Live F T x d` — "the potential `x` is carried at depth `≥ d`": an open sub-problem `c`, `c.depth ≥ d`, with potential
  `Φ(c) ≥ x`, bound `c.ub ≥ x`, not refused by `must_explore`;
* `root`: if `opt > best_lb`, `opt` is carried at depth `≥ 0`;
* `cache` (**CacheOk**): every `(s, d, v)` the cache can prune (`v ≤ θ(s, d)`, the rule of `_filter_with_cache`) with
  `v + H d s > best_lb` has `v + H d s` carried at depth `≥ d`: *an entry of depth `d` is justified by open witnesses of depth
  `≥ d`*;
* `open_`: the potential of an open sub-problem `c` that beats `best_lb` is carried at depth `≥ c.depth` — by `c` itself when
  its bound is honest, by a (not shallower) witness when its bound was computed in a diagram cut by the cache.

One turn (`step_generic`): the diagram of the popped node `N` replaces `N` as a witness by cut-set nodes **strictly deeper**
than `N` (`CompC.cover`, `CompC.deeper`), or by the new incumbent, or — when the cache cut the diagram — by what the cache
covers **strictly deeper** (`CacheCov`, third alternative of `theta_sound` / `cover` / `ub`); a witness that the new thresholds
make prunable is replaced in the same way (`CompC.theta`); the transfer lemma `hTr` is an induction on the depth, deepest
first, so no circular justification can arise.  A cut-set node `c'` handed out with `c'.ub ≥ Φ(c')` (or covered deeper:
`CompC.ub`) is a legitimate witness **iff it is enqueued with that bound**; the only use of the best-first hypothesis in the
whole proof is to show that `min N.ub c'.ub` still dominates what `c'` must carry (`hEnq`).  Without the cap the hypothesis
has nothing left to do.

**The proof is a reduction, not a new induction** (`Proofs/NoCapInv.lean`): the no-cap solver reads `N.ub` only in the test
`node.ub ≤ best_lb`; if `N` passes it, processing `N` without the cap *is* processing `raise N U` — `N` with its bound raised
to `U ≥` every bound of the cut-set and of the fringe — **with** the cap (`processNC_eq`); `CInvC` is monotone in the bound of
a node (`cinvC_raise`: the invariant never asks a bound to be small), the contracts of the compilations do not read the bound
of their root (`compC_raise`), and `raise N U` is a best-first pop: `processC_inv_any` applies (`processC_inv_nocap`).
The concrete turn (`kturnNC_inv`, `Proofs/NoCapSolver.lean`) is `kturn_inv` with that lemma; termination is the measure of
`Props/C01t.lean` (`stepNC_measure_lt`).

## 4. side questions

(i) **Without the cap the reported `best_ub` is no longer monotone, even with best-first pops and without any help of the
cache**: `Rise` (4 binary variables, 2 states, width 1) — the bounds of the popped nodes are `+∞, 5, 6`
(`Rise.bestub_increases`): the cut-set node `(state 0, value 3, depth 2)` of the diagram of `(state 1, value 0, ub 5, depth 1)`
gets the bound 6 from its own diagram, whose merge happens one layer later than in the root's diagram.  With the cap: `+∞, 5, 5`
(`Rise.bestub_capped`).  That is what the cap is for (C19's monotonicity of the reported bounds); dropping it trades that
for order-independence.  A repair that keeps both: keep the *reported* bound monotone separately (`best_ub := min best_ub
node.ub` at pop) and stop capping the nodes.
(ii) On `Layered.Counter` the no-cap solver popping breadth-first returns 10 in all four configurations
(`Counter.nocap_bfs_value`, by `decide`; `Counter.nocap_any_order`: every pop order, from the theorem). -/
set_option linter.unusedSectionVars false
set_option linter.unusedVariables false
namespace Ddo.C09
open Ddo Ddo.C01 Ddo.Closed Ddo.Truth
variable {S : Type} [DecidableEq S]

/-! ## (a) the invariant along the runs, any pop order -/

/-- **`KInvSt` is a loop invariant of the no-cap caching solver for every pop order** -/
theorem kstepAnyNC_inv {sv : SolverCfg S} {H : Nat → S → EInt} {B0 B : Int} (hwf : WellFormed sv H B0 B) {s t : KSt S}
    (h : KStepAnyNC sv s t) (hI : KInvSt sv H B s) : KInvSt sv H B t ∧ StepNC sv.P.nbVars sv.dedup s.st t.st := by
  cases h with
  | pop N rest hpop hturn =>
    obtain ⟨t', ht', hT, hS⟩ := kturnNC_inv hwf s N rest hpop hI
    rw [hturn] at ht'
    cases ht'
    exact ⟨hT, hS⟩

theorem krunAnyNC_inv {sv : SolverCfg S} {H : Nat → S → EInt} {B0 B : Int} (hwf : WellFormed sv H B0 B) {s t : KSt S}
    (h : KRunAnyNC sv s t) (hI : KInvSt sv H B s) : KInvSt sv H B t := by
  induction h with
  | refl => exact hI
  | tail _ hstep ih => exact (kstepAnyNC_inv hwf hstep ih).1

/-! ## (c) termination -/

/-- the step relation with arbitrary pops, on the states that satisfy the invariant, is well-founded -/
theorem kstepAnyNC_terminates {sv : SolverCfg S} {H : Nat → S → EInt} {B0 B : Int} (hwf : WellFormed sv H B0 B) :
    WellFounded (fun t s : KSt S => KInvSt sv H B s ∧ KStepAnyNC sv s t) :=
  Subrelation.wf (r := InvImage (fun t s : SeqSt S => StepNC sv.P.nbVars sv.dedup s t) KSt.st)
    (fun {_ _} h => (kstepAnyNC_inv hwf h.2 h.1).2) (InvImage.wf _ (seqNC_terminates sv.P.nbVars sv.dedup))

theorem no_infinite_krunAnyNC {sv : SolverCfg S} {H : Nat → S → EInt} {B0 B : Int} (hwf : WellFormed sv H B0 B)
    (run : Nat → KSt S) (h0 : run 0 = KSt.init sv) : ¬ ∀ n, KStepAnyNC sv (run n) (run (n + 1)) := by
  intro hrun
  have hinv : ∀ n, KInvSt sv H B (run n) := by
    intro n
    induction n with
    | zero => rw [h0]; exact init_kinv hwf
    | succ n ih => exact (kstepAnyNC_inv hwf (hrun n) ih).1
  exact no_infinite_chain (kstepAnyNC_terminates hwf) run (fun n => ⟨hinv n, hrun n⟩)

/-! ## progress: whatever entry of the fringe is popped, the turn is possible -/

theorem kstepAnyNC_progress {sv : SolverCfg S} {H : Nat → S → EInt} {B0 B : Int} (hwf : WellFormed sv H B0 B) {s : KSt S}
    (hI : KInvSt sv H B s) (N : SubP S) (rest : List (SubP S)) (hpop : s.st.fringe.Perm (N :: rest)) :
    ∃ u, KStepAnyNC sv s u ∧ sv.kturnNC s N rest = some u := by
  obtain ⟨u, hu, _, _⟩ := kturnNC_inv hwf s N rest hpop hI
  exact ⟨u, KStepAnyNC.pop s u N rest hpop hu, hu⟩

/-! ## (d) the headline -/

/-- **`caching_solver_anyorder_nocap_correct`**: for every well-formed model (`Ddo.C01.WellFormed`: `Potential`, `RubOk`,
    `MergeOk`, `AttMerge`, `RunBound`, `NvBound`, widths ≥ 1 — the hypotheses of `caching_solver_correct`, nothing added), every
    ranking, width function, cut-set kind and either fringe, the sequential solver with the threshold cache over the diagram
    model **whose `enqueue_cutset` does not cap the bounds of the cut-set nodes**, popping the fringe in **any order**
    (`KStepAnyNC`: a custom `SubProblemRanking`, or sub-problems processed out of order)

    * terminates: the step relation is well-founded on the reachable states, there is no infinite run;
    * never panics: whatever entry of the fringe is popped the turn is possible (no compilation crashes, no cache access is
      out of range), the `open_by_layer` bookkeeping never under- or overflows, the search is not aborted;
    * when the fringe is empty: reports `is_exact = true` and **the optimum**, with a stored solution that is a genuinely
      feasible complete path of that value — or reports no value iff the problem is infeasible. -/
theorem caching_solver_anyorder_nocap_correct (sv : CSolverCfg S) (H : Nat → S → EInt) (B0 B : Int)
    (hwf : WellFormed sv H B0 B) :
    WellFounded (fun t s : KSt S => KRunAnyNC sv (KSt.init sv) s ∧ KStepAnyNC sv s t) ∧
    (∀ run : Nat → KSt S, run 0 = KSt.init sv → ¬ ∀ n, KStepAnyNC sv (run n) (run (n + 1))) ∧
    ∀ t, KRunAnyNC sv (KSt.init sv) t →
      (∀ N rest, t.st.fringe.Perm (N :: rest) → ∃ u, KStepAnyNC sv t u ∧ sv.kturnNC t N rest = some u) ∧
      t.st.crashed = false ∧ t.st.abort = false ∧
      (t.st.fringe = [] →
        (∀ opt, (H 0 sv.P.init).addI sv.P.initVal = some opt →
          t.st.bestLb = opt ∧ (∃ p, t.st.bestSol = some p ∧ SolOf sv.P p opt) ∧ t.st.completion = (true, some opt)) ∧
        ((H 0 sv.P.init).addI sv.P.initVal = none → t.st.bestSol = none ∧ t.st.completion = (true, none))) := by
  refine ⟨?_, fun run h0 => no_infinite_krunAnyNC hwf run h0, fun t ht => ?_⟩
  · exact Subrelation.wf (fun {_ _} h => ⟨krunAnyNC_inv hwf h.1 (init_kinv hwf), h.2⟩) (kstepAnyNC_terminates hwf)
  · have hI := krunAnyNC_inv hwf ht (init_kinv hwf)
    exact ⟨fun N rest hpop => kstepAnyNC_progress hwf hI N rest hpop, hI.lay.2, hI.noAbort,
      fun hend => kinv_end_correct hwf hI hend⟩

/-- **the invariant, spelled out on the reachable states** (what `KInvSt.feas` = `CInvC` says, `Live` unfolded): in every
    state `t` the no-cap solver can reach, under any pop order, for a feasible problem of optimum `opt`:

    * the incumbent is `≤ opt`, and if it is `< opt` some open sub-problem that `must_explore` accepts has potential `≥ opt`
      and bound `≥ opt` (**coverage**);
    * (**CacheOk, depth-stratified**) whatever the cache can prune at depth `d` — `(s, d, v)` with `v ≤ θ(s, d)` — and that
      would beat the incumbent is carried by an open sub-problem of depth `≥ d` that `must_explore` accepts: potential
      `≥ v + H d s`, bound `≥ v + H d s`;
    * the potential of an open sub-problem that beats the incumbent is carried by an open sub-problem that is **not
      shallower** (itself when its bound is honest) -/
theorem nocap_reachable_invariant (sv : CSolverCfg S) (H : Nat → S → EInt) (B0 B : Int) (hwf : WellFormed sv H B0 B)
    (t : KSt S) (ht : KRunAnyNC sv (KSt.init sv) t) (opt : Int) (hopt : (H 0 sv.P.init).addI sv.P.initVal = some opt) :
    t.st.bestLb ≤ opt ∧
    (opt > t.st.bestLb →
      ∃ c ∈ t.st.fringe, (∃ y, optOf H c = some y ∧ opt ≤ y) ∧ opt ≤ c.ub ∧ ¬ prunM (viewOf t.cache) c) ∧
    (∀ (s : S) (d : Nat) (θ : Thr) (v h : Int), viewOf t.cache s d = some θ → RgB B d v → v ≤ θ.value → H d s = some h →
      v + h > t.st.bestLb →
      ∃ c ∈ t.st.fringe, d ≤ c.depth ∧ (∃ y, optOf H c = some y ∧ v + h ≤ y) ∧ v + h ≤ c.ub ∧ ¬ prunM (viewOf t.cache) c) ∧
    (∀ c ∈ t.st.fringe, ∀ y, optOf H c = some y → y > t.st.bestLb →
      ∃ c' ∈ t.st.fringe, c.depth ≤ c'.depth ∧ (∃ y', optOf H c' = some y' ∧ y ≤ y') ∧ y ≤ c'.ub ∧
        ¬ prunM (viewOf t.cache) c') := by
  have hC := (krunAnyNC_inv hwf ht (init_kinv hwf)).feas opt hopt
  refine ⟨hC.lbOk, fun hgt => ?_, fun s d θ v h hT hrg hv hH hgt => hC.cache s d θ v h hT hrg hv hH hgt,
    fun c hc y hy hgt => hC.open_ c hc y hy hgt⟩
  obtain ⟨c, hc, _, h1, h2, h3⟩ := hC.root hgt
  exact ⟨c, hc, h1, h2, h3⟩

/-- **the bounds the no-cap solver reports stay valid**: in every reachable state (any pop order) the optimum is `≤` the
    incumbent or `≤` the bound of some open sub-problem; so with a best-first pop the bound of the popped node — the value
    written to `best_ub` — is `≥` the optimum as long as the incumbent is not optimal.  (It may *increase* from one pop to the
    next, `Layered.Rise.bestub_increases`; taking the running minimum `best_ub := min best_ub node.ub` restores the
    monotonicity of the reported bound without capping the nodes, and stays sound by this lemma.) -/
theorem nocap_bound_valid (sv : CSolverCfg S) (H : Nat → S → EInt) (B0 B : Int) (hwf : WellFormed sv H B0 B)
    (t : KSt S) (ht : KRunAnyNC sv (KSt.init sv) t) (opt : Int) (hopt : (H 0 sv.P.init).addI sv.P.initVal = some opt) :
    (opt ≤ t.st.bestLb ∨ ∃ c ∈ t.st.fringe, opt ≤ c.ub) ∧
    ∀ N rest, t.st.fringe.Perm (N :: rest) → (∀ c ∈ rest, c.ub ≤ N.ub) → opt > t.st.bestLb → opt ≤ N.ub := by
  obtain ⟨_, h2, _, _⟩ := nocap_reachable_invariant sv H B0 B hwf t ht opt hopt
  constructor
  · by_cases hgt : opt > t.st.bestLb
    · obtain ⟨c, hc, _, hu, _⟩ := h2 hgt
      exact Or.inr ⟨c, hc, hu⟩
    · exact Or.inl (by omega)
  · intro N rest hp hmax hgt
    obtain ⟨c, hc, _, hu, _⟩ := h2 hgt
    rcases List.mem_cons.mp (hp.mem_iff.mp hc) with e | e
    · subst e; exact hu
    · have := hmax c e; omega

/-- **`AnyOrderOptNC`**: the statement `AnyOrderOpt` of `Props/C09c.lean` (false for the solver as it is,
    `anyOrderOpt_false`) for the no-cap solver -/
def AnyOrderOptNC : Prop :=
  ∀ (S : Type) [DecidableEq S] (sv : CSolverCfg S) (H : Nat → S → EInt) (B0 B : Int), WellFormed sv H B0 B →
    ∀ t, KRunAnyNC sv (KSt.init sv) t → t.st.fringe = [] →
      ∀ opt, (H 0 sv.P.init).addI sv.P.initVal = some opt → t.st.bestLb = opt

/-- **without the cap, optimality holds for arbitrary pop orders** (`AnyOrderOpt` is false, `AnyOrderOptNC` is true: the cap
    of `enqueue_cutset` is the only obstacle) -/
theorem anyOrderOptNC_true : AnyOrderOptNC := by
  intro S _ sv H B0 B hwf t ht hend opt hopt
  exact ((((caching_solver_anyorder_nocap_correct sv H B0 B hwf).2.2 t ht).2.2.2 hend).1 opt hopt).1

/-! ## the scheduled loop and the best-first loop -/

/-- whatever the pop schedule, if the scheduled no-cap loop returns a state with an empty fringe that state is correct -/
theorem ksolveSchedNC_correct (sv : CSolverCfg S) (H : Nat → S → EInt) (B0 B : Int) (hwf : WellFormed sv H B0 B)
    (sched : List Nat) (hend : (sv.ksolveSchedNC sched (KSt.init sv)).st.fringe = []) :
    (sv.ksolveSchedNC sched (KSt.init sv)).st.crashed = false ∧
    (∀ opt, (H 0 sv.P.init).addI sv.P.initVal = some opt →
      (sv.ksolveSchedNC sched (KSt.init sv)).st.completion = (true, some opt) ∧
      ∃ p, (sv.ksolveSchedNC sched (KSt.init sv)).st.bestSol = some p ∧ SolOf sv.P p opt) ∧
    ((H 0 sv.P.init).addI sv.P.initVal = none → (sv.ksolveSchedNC sched (KSt.init sv)).st.completion = (true, none)) := by
  have hI := krunAnyNC_inv hwf (ksolveSchedNC_run sv sched _) (init_kinv hwf)
  obtain ⟨h1, h2⟩ := kinv_end_correct hwf hI hend
  exact ⟨hI.lay.2, fun opt hopt => ⟨(h1 opt hopt).2.2, (h1 opt hopt).2.1⟩, fun hinf => (h2 hinf).2⟩

/-- the scheduled loop never stops on a panic: from a state that satisfies the invariant, whatever index of the fringe the
    schedule asks for, the turn answers `some` (so `ksolveSchedNC` only stops early on an index that is not in the fringe) -/
theorem ksolveSchedNC_no_panic (sv : CSolverCfg S) (H : Nat → S → EInt) (B0 B : Int) (hwf : WellFormed sv H B0 B)
    (s : KSt S) (hI : KInvSt sv H B s) (i : Nat) (N : SubP S) (rest : List (SubP S))
    (hp : popAt s.st.fringe i = some (N, rest)) : sv.kturnNC s N rest ≠ none := by
  intro hn
  obtain ⟨u, _, hu⟩ := kstepAnyNC_progress hwf hI N rest (popAt_perm _ _ _ _ hp)
  rw [hn] at hu
  cases hu

/-- with a well-formed model, from any state that satisfies the invariant, enough fuel brings the best-first no-cap loop to
    the empty fringe -/
theorem ksolveLoopNC_total {sv : SolverCfg S} {H : Nat → S → EInt} {B0 B : Int} (hwf : WellFormed sv H B0 B) (s : KSt S) :
    KInvSt sv H B s → ∃ n, (sv.ksolveLoopNC n s).st.fringe = [] := by
  refine (kstepAnyNC_terminates hwf).induction (C := fun s => KInvSt sv H B s → ∃ n, (sv.ksolveLoopNC n s).st.fringe = []) s ?_
  intro s ih hI
  by_cases hne : s.st.fringe = []
  · exact ⟨0, hne⟩
  · obtain ⟨N, rest, hp⟩ := popMax_some s.st.fringe hne
    obtain ⟨hpop, _⟩ := popMax_spec s.st.fringe N rest hp
    obtain ⟨t, ht, hT, _⟩ := kturnNC_inv hwf s N rest hpop hI
    obtain ⟨n, hn⟩ := ih t ⟨hI, KStepAnyNC.pop s t N rest hpop ht⟩ hT
    refine ⟨n + 1, ?_⟩
    rw [SolverCfg.ksolveLoopNC]
    simp only [hp, ht]
    exact hn

/-- **the best-first no-cap solver, as a function, computes the optimum** -/
theorem ksolveLoopNC_computes_opt (sv : CSolverCfg S) (H : Nat → S → EInt) (B0 B : Int) (hwf : WellFormed sv H B0 B) :
    ∃ n, (sv.ksolveLoopNC n (KSt.init sv)).st.fringe = [] ∧
      (sv.ksolveLoopNC n (KSt.init sv)).st.crashed = false ∧
      (∀ opt, (H 0 sv.P.init).addI sv.P.initVal = some opt →
        (sv.ksolveLoopNC n (KSt.init sv)).st.completion = (true, some opt) ∧
        ∃ p, (sv.ksolveLoopNC n (KSt.init sv)).st.bestSol = some p ∧ SolOf sv.P p opt) ∧
      ((H 0 sv.P.init).addI sv.P.initVal = none → (sv.ksolveLoopNC n (KSt.init sv)).st.completion = (true, none)) := by
  obtain ⟨n, hn⟩ := ksolveLoopNC_total hwf _ (init_kinv hwf)
  have hI := krunAnyNC_inv hwf (ksolveLoopNC_run sv n _) (init_kinv hwf)
  obtain ⟨h1, h2⟩ := kinv_end_correct hwf hI hn
  exact ⟨n, hn, hI.lay.2, fun opt hopt => ⟨(h1 opt hopt).2.2, (h1 opt hopt).2.1⟩, fun hinf => (h2 hinf).2⟩

end Ddo.C09

/-! ## side question (ii): `Layered.Counter` without the cap

The breadth-first order of `Proofs/AnyOrderLayered.lean` (shallowest open sub-problem first, then the larger state), seven turns
(plain fringe, last-exact-layer cut-set; `(state, value, ub, depth)`; turns 1–3 are those of the capped run):

```
turn 1  pop R.                                        fringe [P = (0,0,13,1), A = (1,0,13,1)], incumbent 3
turn 2  pop A.                                        fringe [k2 = (2,0,13,4), P], incumbent 3
turn 3  pop P: N is handed out with ub(N) = 4 < 10 = pot(N) (its image was cut at a child of a merged node by the threshold
        that k2 carries).                             fringe [N = (0,0,4,2), k2], incumbent 3
turn 4  pop N (not best-first).  Restricted finds 4.  Cut-set = {c' = (2, value 0, depth 5), (0, 0, 5)} with the bounds of N's
        own diagram, 10 and 12 — **not capped to ub(N) = 4, hence enqueued**; thresholds (2, depth 5) ↦ (0, explored = false),
        (0, depth 5) ↦ (0, false) as before.         fringe [(0,0,12,5), c' = (2,0,10,5), k2], incumbent 4
turn 5  pop k2: its child (2, value 0, depth 5) is pruned by the threshold recorded at turn 4 — rightly so, c' is open and
        carries the potential 10.                     fringe [(0,0,12,5), c'], incumbent 4
turn 6  pop c': `must_explore` accepts it (value 0 = threshold 0, explored = false); finds 10.   fringe [(0,0,12,5)], incumbent 10
turn 7  pop (0,0,12,5): finds nothing better.         fringe [], incumbent 10 = optimum
``` -/
namespace Ddo.C09.Layered.Counter
open Ddo Ddo.C01 Ddo.Closed

/-- the breadth-first pop order of the **no-cap** solver as indices into the fringe list, per configuration -/
def schedNC : Bool → CutsetKind → List Nat
  | false, .lel => [0, 1, 1, 0, 2, 1, 0]
  | true, .lel => [0, 0, 0, 1, 0, 0, 0]
  | false, .frontier => [0, 0, 1, 0, 2, 1, 0]
  | true, .frontier => [0, 1, 0, 1, 0, 0, 0]

/-- the state after the first `j` turns of the schedule (plain fringe, last-exact-layer cut-set), no cap -/
def afterNC (j : Nat) : KSt Int := (sv false .lel).ksolveSchedNC ((schedNC false .lel).take j) (KSt.init (sv false .lel))

set_option maxRecDepth 100000 in
/-- **(ii)** on `Counter` the no-cap solver popping breadth-first ends after seven turns with the empty fringe,
    `is_exact = true` and `best_value = Some(10)`, the optimum — in all four configurations, without panic -/
theorem nocap_bfs_value : ∀ dedup ∈ [false, true], ∀ kind ∈ [CutsetKind.lel, CutsetKind.frontier],
    ((sv dedup kind).ksolveSchedNC (schedNC dedup kind) (KSt.init (sv dedup kind))).st.fringe.length = 0 ∧
    ((sv dedup kind).ksolveSchedNC (schedNC dedup kind) (KSt.init (sv dedup kind))).st.completion = (true, some 10) ∧
    ((sv dedup kind).ksolveSchedNC (schedNC dedup kind) (KSt.init (sv dedup kind))).st.explored = 7 ∧
    ((sv dedup kind).ksolveSchedNC (schedNC dedup kind) (KSt.init (sv dedup kind))).st.crashed = false := by decide

set_option maxRecDepth 100000 in
/-- the first three turns are those of the capped run: `N = (0, 0, 4, 2)` is open with `ub = 4 < 10 = pot(N)` and `k2` with 13 -/
theorem nocap_stage_N : view (afterNC 3) = ([(0, 0, 4, 2), (2, 0, 13, 4)], 3) ∧ view (after 3) = view (afterNC 3) ∧
    cacheAt (afterNC 3) 4 = [(2, 0, false)] := by decide

set_option maxRecDepth 100000 in
/-- turn 4 pops `N` (bound 4): its cut-set nodes keep the bounds of their own diagram, **10 and 12, above the bound of the node
    they come from**, and are enqueued; the threshold `(2, depth 5) ↦ (0, explored = false)` is in the cache as in the capped
    run, but now the node it was recorded for, `c' = (2, 0, 10, 5)`, is open -/
theorem nocap_stage_cprime : view (afterNC 4) = ([(0, 0, 12, 5), (2, 0, 10, 5), (2, 0, 13, 4)], 4) ∧
    cacheAt (afterNC 4) 5 = [(2, 0, false), (0, 0, false)] ∧
    view (after 4) = ([(2, 0, 13, 4)], 4) := by decide

set_option maxRecDepth 100000 in
/-- turn 5 pops `k2` (its route to 10 is pruned by that threshold, as in the capped run); turn 6 pops `c'`, which `must_explore`
    accepts, and finds 10 -/
theorem nocap_stage_k2 : view (afterNC 5) = ([(0, 0, 12, 5), (2, 0, 10, 5)], 4) ∧
    (afterNC 5).cache.mustExplore 2 5 0 = some true := by decide

set_option maxRecDepth 100000 in
theorem nocap_stage_end : view (afterNC 6) = ([(0, 0, 12, 5)], 10) ∧ view (afterNC 7) = ([], 10) := by decide

/-- **every pop order**: any run of the no-cap solver on `Counter` (either fringe, either cut-set kind) that reaches the empty
    fringe reports `is_exact = true`, `best_value = Some(10)`; before that any entry of the fringe can be popped without
    panic — from `caching_solver_anyorder_nocap_correct` -/
theorem nocap_any_order (dedup : Bool) (kind : CutsetKind) (t : KSt Int)
    (ht : KRunAnyNC (sv dedup kind) (KSt.init (sv dedup kind)) t) :
    (t.st.fringe = [] → t.st.completion = (true, some 10)) ∧
    (∀ N rest, t.st.fringe.Perm (N :: rest) → ∃ u, (sv dedup kind).kturnNC t N rest = some u) ∧
    t.st.crashed = false := by
  have h := (caching_solver_anyorder_nocap_correct (sv dedup kind) (H T) 10 80 (wellFormed dedup kind)).2.2 t ht
  refine ⟨fun hend => ((h.2.2.2 hend).1 10 opt10).2.2, fun N rest hp => ?_, h.2.1⟩
  obtain ⟨u, _, hu⟩ := h.1 N rest hp
  exact ⟨u, hu⟩

/-- the value computed by the scheduled loop is the one the theorem predicts -/
example : ((sv false .lel).ksolveSchedNC (schedNC false .lel) (KSt.init (sv false .lel))).st.completion = (true, some 10) :=
  (nocap_any_order false .lel _ (ksolveSchedNC_run _ _ _)).1
    (List.eq_nil_of_length_eq_zero (nocap_bfs_value false (by simp) .lel (by simp)).1)

/-- the capped and the no-cap solver side by side on the same model and the same (breadth-first) ranking -/
theorem cap_vs_nocap :
    ((sv false .lel).ksolveSched (sched false .lel) (KSt.init (sv false .lel))).st.completion = (true, some 4) ∧
    ((sv false .lel).ksolveSchedNC (schedNC false .lel) (KSt.init (sv false .lel))).st.completion = (true, some 10) :=
  ⟨anyorder_counter.2.2.2, (nocap_bfs_value false (by simp) .lel (by simp)).2.1⟩

end Ddo.C09.Layered.Counter

/-! ## side question (i): without the cap the reported bound can increase, even best-first

`Rise`: 4 binary variables, 2 states, merge = largest state, constant rough upper bound 5, width 1, static order.
Tables (`state: (next, cost) for decision 0 | (next, cost) for decision 1`):

```
x0:  0: (0,0)|(1,0)   1*: (0,0)|(1,0)
x1:  0: (0,0)|(1,0)   1: (0,3)|(1,0)
x2:  0: (0,0)|(0,1)   1: (1,0)|(1,0)
x3:  0: (0,0)|(0,0)   1: (0,1)|(0,2)
```

Value-to-go: depth 3: `0, 2`; depth 2: `1, 2`; depth 1: `2, 4`; depth 0: `4`.  Optimum 4 (`x0 = 1, x1 = 0` earns 3, then `x2 = 1`
earns 1).  The fringe never holds more than one node, so *every* pop order is best-first.

```
turn 1  pop the root.  Restricted: 4.  Relaxed (width 1): depth 1 = {0, 1} is kept (the first layer is never squashed);
        depth 2 = {(0, value 3), (1, value 0)} is merged into (1, value 3); then (1, 3), terminal 3 + 2 = 5.  Cut-set = depth 1;
        local bounds: (state 1, value 0) ↦ 5, (state 0, value 0) ↦ 2 (not enqueued: 2 ≤ incumbent 4).
        fringe [(1, 0, 5, 1)], incumbent 4, reported best_ub = +∞
turn 2  pop (1, 0, 5, 1): best_ub = 5.  Relaxed: depth 2 = {(0, 3), (1, 0)} is kept (first layer); depth 3 = {(0, value 4), (1, value 0)}
        is merged into (1, value 4): the merge happens one layer later than in the root's diagram, after `x2 = 1` has earned 1
        from state 0; terminal 4 + 2 = 6.  Cut-set = depth 2: (state 0, value 3) ↦ local bound **6** (rough bound 3 + 5 = 8).
        With the cap it is enqueued with min(5, 6) = 5; without the cap with 6.
        fringe [(0, 3, 6, 2)], incumbent 4
turn 3  pop (0, 3, 6, 2): **best_ub = 6 > 5**.  Exact, nothing better than 4.        fringe [], incumbent 4 = optimum
```

No threshold of the cache plays any role here: the relaxation of the child is simply worse than what the parent's diagram saw
of the same paths. -/
namespace Ddo.C09.Layered.Rise
open Ddo Ddo.C01 Ddo.Closed

def T : Tab :=
  { n := 4, m := 2,
    trl := [0,1, 0,1,   0,1, 0,1,   0,0, 1,1,   0,0, 0,0],
    cl :=  [0,0, 0,0,   0,0, 3,0,   0,1, 0,0,   0,0, 1,2],
    rub := 5 }

/-- `FixedWidth(1)` -/
def ws : List Nat := List.replicate 10 1

def sv (dedup : Bool) (kind : CutsetKind) : SolverCfg Int := Layered.sv T ws dedup kind

theorem checked : check T 3 = true := by decide

theorem wellFormed (dedup : Bool) (kind : CutsetKind) : WellFormed (sv dedup kind) (H T) 3 15 :=
  wellFormed_ofTables T 3 15 ws dedup kind checked (by decide) (by decide)

theorem opt4 : (H T 0 (prob T).init).addI (prob T).initVal = some 4 := by decide

/-- the sequence of values of `best_ub` (the bound of the popped node, `afterPop`) along the best-first no-cap loop -/
def ubTraceNC (sv : SolverCfg Int) : Nat → KSt Int → List Int
  | 0, _ => []
  | n + 1, s =>
    match popMax s.st.fringe with
    | none => []
    | some (N, rest) =>
      match sv.kturnNC s N rest with
      | none => []
      | some t => t.st.bestUb :: ubTraceNC sv n t

/-- the same along the best-first capped loop -/
def ubTrace (sv : SolverCfg Int) : Nat → KSt Int → List Int
  | 0, _ => []
  | n + 1, s =>
    match popMax s.st.fringe with
    | none => []
    | some (N, rest) =>
      match sv.kturn s N rest with
      | none => []
      | some t => t.st.bestUb :: ubTrace sv n t

set_option maxRecDepth 100000 in
theorem ubTraceNC_value : ∀ dedup ∈ [false, true], ∀ kind ∈ [CutsetKind.lel, CutsetKind.frontier],
    ubTraceNC (sv dedup kind) 10 (KSt.init (sv dedup kind)) = [iMax, 5, 6] := by decide

set_option maxRecDepth 100000 in
theorem nocap_turn1 : ∀ dedup ∈ [false, true], ∀ kind ∈ [CutsetKind.lel, CutsetKind.frontier],
    view ((sv dedup kind).ksolveLoopNC 1 (KSt.init (sv dedup kind))) = ([(1, 0, 5, 1)], 4) := by decide

set_option maxRecDepth 100000 in
theorem nocap_turn2 : ∀ dedup ∈ [false, true], ∀ kind ∈ [CutsetKind.lel, CutsetKind.frontier],
    view ((sv dedup kind).ksolveLoopNC 2 (KSt.init (sv dedup kind))) = ([(0, 3, 6, 2)], 4) := by decide

/-- **(i)** with best-first pops and no cap the reported `best_ub` goes `+∞, 5, 6`: the cut-set node `(state 0, value 3,
    depth 2)` handed out by the diagram of the node `(state 1, value 0, ub 5, depth 1)` carries the bound 6 -/
theorem bestub_increases : ∀ dedup ∈ [false, true], ∀ kind ∈ [CutsetKind.lel, CutsetKind.frontier],
    ubTraceNC (sv dedup kind) 10 (KSt.init (sv dedup kind)) = [iMax, 5, 6] ∧
    view ((sv dedup kind).ksolveLoopNC 1 (KSt.init (sv dedup kind))) = ([(1, 0, 5, 1)], 4) ∧
    view ((sv dedup kind).ksolveLoopNC 2 (KSt.init (sv dedup kind))) = ([(0, 3, 6, 2)], 4) :=
  fun d hd k hk => ⟨ubTraceNC_value d hd k hk, nocap_turn1 d hd k hk, nocap_turn2 d hd k hk⟩

set_option maxRecDepth 100000 in
/-- the run ends after three turns with the optimum (as `caching_solver_anyorder_nocap_correct` predicts) -/
theorem nocap_value : ∀ dedup ∈ [false, true], ∀ kind ∈ [CutsetKind.lel, CutsetKind.frontier],
    ((sv dedup kind).ksolveLoopNC 10 (KSt.init (sv dedup kind))).st.fringe.length = 0 ∧
    ((sv dedup kind).ksolveLoopNC 10 (KSt.init (sv dedup kind))).st.completion = (true, some 4) ∧
    ((sv dedup kind).ksolveLoopNC 10 (KSt.init (sv dedup kind))).st.explored = 3 := by decide

set_option maxRecDepth 100000 in
/-- with the cap: `+∞, 5, 5` (the same node is enqueued with `min(5, 6)`) -/
theorem bestub_capped : ∀ dedup ∈ [false, true], ∀ kind ∈ [CutsetKind.lel, CutsetKind.frontier],
    ubTrace (sv dedup kind) 10 (KSt.init (sv dedup kind)) = [iMax, 5, 5] ∧
    view ((sv dedup kind).ksolveLoop 2 (KSt.init (sv dedup kind))) = ([(0, 3, 5, 2)], 4) ∧
    ((sv dedup kind).ksolveLoop 10 (KSt.init (sv dedup kind))).st.completion = (true, some 4) := by decide

set_option maxRecDepth 100000 in
/-- the bound 6 is a valid but weaker bound: the potential of that node is 4 -/
theorem rise_potential : optOf (H T) ⟨0, 3, [], 6, 2⟩ = some 4 ∧ optOf (H T) ⟨1, 0, [], 5, 1⟩ = some 4 := by decide

/-- **(i) as a statement about the no-cap solver**: there is a well-formed model and a best-first run of the no-cap solver
    in which a sub-problem is popped with a bound strictly above the bound popped before it -/
theorem nocap_bestub_not_monotone : ∃ (sv : CSolverCfg Int) (H : Nat → Int → EInt) (B0 B : Int), WellFormed sv H B0 B ∧
    ∃ j, ((sv.ksolveLoopNC j (KSt.init sv)).st.bestUb < (sv.ksolveLoopNC (j + 1) (KSt.init sv)).st.bestUb) := by
  refine ⟨sv false .lel, H T, 3, 15, wellFormed false .lel, 2, ?_⟩
  decide +kernel

end Ddo.C09.Layered.Rise

#print axioms Ddo.C09.processC_inv_nocap
#print axioms Ddo.C09.seqNC_terminates
#print axioms Ddo.C09.kturnNC_inv
#print axioms Ddo.C09.kstepAnyNC_inv
#print axioms Ddo.C09.krunAnyNC_inv
#print axioms Ddo.C09.kstepAnyNC_terminates
#print axioms Ddo.C09.caching_solver_anyorder_nocap_correct
#print axioms Ddo.C09.nocap_reachable_invariant
#print axioms Ddo.C09.nocap_bound_valid
#print axioms Ddo.C09.anyOrderOptNC_true
#print axioms Ddo.C09.ksolveSchedNC_correct
#print axioms Ddo.C09.ksolveSchedNC_no_panic
#print axioms Ddo.C09.ksolveLoopNC_total
#print axioms Ddo.C09.ksolveLoopNC_computes_opt
#print axioms Ddo.C09.Layered.Counter.nocap_bfs_value
#print axioms Ddo.C09.Layered.Counter.nocap_stage_N
#print axioms Ddo.C09.Layered.Counter.nocap_stage_cprime
#print axioms Ddo.C09.Layered.Counter.nocap_stage_k2
#print axioms Ddo.C09.Layered.Counter.nocap_stage_end
#print axioms Ddo.C09.Layered.Counter.nocap_any_order
#print axioms Ddo.C09.Layered.Counter.cap_vs_nocap
#print axioms Ddo.C09.Layered.Rise.wellFormed
#print axioms Ddo.C09.Layered.Rise.bestub_increases
#print axioms Ddo.C09.Layered.Rise.nocap_value
#print axioms Ddo.C09.Layered.Rise.bestub_capped
#print axioms Ddo.C09.Layered.Rise.nocap_bestub_not_monotone
