import DdoModel.Proofs.ParClosed
/-! # C03 / C04 (closed) — the parallel solver over the diagram model returns the optimum, no contract hypothesis left

`Props/C03b.lean` proves the coverage invariant, partial correctness, the cut-off bounds and termination of the **concrete**
parallel transition system `ParSys` (`DdoModel/ParSys.lean`: the shared `Critical` record evolved by the functions of
`ParSolver.lean`, one worker-local state per thread, one step per critical section / lock-free compilation) for *any*
compilation outcomes that meet the contracts `OkR = CompileOk`, `OkX = CompileOk ∧ (not exact → CutsetOk)` relative to the
stale incumbent the worker read — the contracts are **hypotheses** there (`hR`, `hX`).  `Props/C01c.lean` / `C01d.lean`
discharge these contracts from the compilation model `DdoModel/Mdd.lean` for a well-formed model, one compilation in
isolation, and close the *sequential* composition.  Here the **parallel** composition is closed.

1. The concrete system: `PStep sv` / `PRun sv` (`Proofs/ParClosed.lean`) = `ParSys.Step` / `ParSys.Run` (with the
   `abort_search` of the code, `ParCrit.abortSearch`) instantiated with `okRm sv` / `okXm sv`: *the answer `o` a worker
   gets for the node `N` in hand and the incumbent `lb` it read is `toOut` of the `must` result of
   `compile (sv.cfg .restricted / .relaxed N lb)` — `EmptyCache`, no dominance checker, `stopAt = none`, outcome `.ok`*
   (`okRm_iff`, `okXm_iff`; the contents of the unused cache / store / poll counter are arbitrary as in `C01.CStep`).
   A cut-off may still strike any compilation of any worker at any time (`ParSys` allows the answer `.cutoff` always).
   `sv : C01.SolverCfg` (problem, relaxation, ranking, width function, cut-set kind, kind of fringe); the number of
   threads `U` is the parameter of `Sys.init` (`U` workers, `U` cells of `upper_bounds`).
2. `PCInv` — the side conditions of `compileOk_restricted` / `compileOk_relaxed` / `cutsetOk_relaxed` as an invariant of
   the parallel system: every fringe entry and every node in hand is `Reach`ed by a permutation of its path with exactly
   its value (hence not deeper than `nb_variables`, `NoClamp` at its value); the incumbent is in `[isize::MIN, B]`, and so
   is every stale copy a worker holds; what a worker carries from a compilation to `maybe_update_best` /
   `enqueue_cutset` is an answer of the diagram model.  `par_pcinv`: it holds in every reachable state (every step of
   every worker, every interleaving, cut-offs included).  `par_contract_R`, `par_contract_X`: hence **in every reachable
   state the answer of the diagram model meets the contract relative to the stale incumbent the worker read** — `hR`, `hX`
   of `C03b` are theorems.
3. `parallel_solver_correct` (headline), from `Sys.init sv.P none sv.dedup U`, for every `WellFormed` model and `U ≥ 1`:
   termination (well-founded step relation on the reachable states, no infinite run — wait steps counted), no panic and
   no deadlock, `SysInv`, the optimum with a feasible solution at `Complete` / when `maximize()` returns, the cut-off
   bounds, the infeasible case.  `parallel_solver_primal`: the same started from a feasible primal (`max v opt`).
4. No panic on the concrete model (C04): `LayInv` — `open_by_layer` / `ongoing_by_layer` count the fringe / the nodes in
   hand per depth, `ongoing` the workers holding a node, one cell of `upper_bounds` per worker — is an invariant
   (`par_layinv`); hence `gwCrash` is never enabled (`par_no_gwCrash`), `notify_node_finished` never panics
   (`par_notify_defined`), `enqueue_cutset` never indexes out of range (`crashed = false`), no worker is ever in
   `crashed`; and no deadlock / lost wake-up: some section is enabled as long as a worker has not left (`par_progress`).
   Total correctness of uninterrupted runs (`URun`: no compilation is ever cut off): `par_maximal_allDone` (a run that cannot
   be extended has every worker gone), `par_run_to_end` (every uninterrupted run can be continued, uninterrupted, to the
   return of `maximize()`), `par_uninterrupted_correct`, `parallel_solver_total` (such a run exists, and every such run
   reports `is_exact = true` with the optimum — or no value iff the problem is infeasible).
5. Non-vacuity: the `Trap` model of `Props/C01d.lean` (optimum 4, a genuine branch-and-bound: the first restricted
   diagram is sub-optimal, the relaxed one is not exact) with **2 threads**, scheduled by the deterministic scheduler
   `ParClosed.next` / `runSched` (`runSched_run`: a run of the concrete system): thread 0 branches on the root while
   thread 1 is parked, then both take a cut-set node each and work on them concurrently (thread 1 with a stale
   incumbent); the run reaches `Complete` with the optimum (`Trap2.completes`, evaluated by `decide`), and what the
   headline predicts is what the run shows.  `Trap2.cutRun`: the same run with the compilation of thread 1 cut off
   (`cutoffAt`): `maximize()` returns aborted with `best_lb = 4 = best_ub`, the bounds of `par_final` are attained.
   `NoNvBound2.stuck`: without `NvBound` the first compilation of the first worker does not end normally.

## hypotheses
`WellFormed sv H B0 B` exactly as in `C01d` (`Potential`, `RubOk`, `MergeOk`, `AttMerge`, `RunBound`, `NvBound`, widths ≥ 1)
— see the header of `Props/C01d.lean`, including why `NvBound` is needed and its counter-example `C01.NoNvBound.counter`
(the same counter-example applies here: the first compilation of the first worker does not end normally).  Nothing else:
the per-worker side conditions are all derived (`PCInv`).  `U ≥ 1` is only used for "`maximize()` returns" (`AllDone` with
no worker at all is the initial state: `Trap2.zero_threads`, a — minor — finding: `nb_threads = 0` is accepted by the code and
makes `maximize()` claim exactness without a value). -/
set_option linter.unusedSectionVars false
set_option linter.unusedVariables false
namespace Ddo.C03c
open Ddo Ddo.Truth Ddo.Closed Ddo.ParSys Ddo.ParClosed
open Ddo.C01 (SolverCfg WellFormed toOut SolOf)
variable {S : Type} [DecidableEq S]

/-! ## 1. the concrete system -/

/-- what `okRm` says, in full: the answer is the diagram model's -/
theorem okRm_iff (sv : SolverCfg S) (N : SubP S) (lb : Int) (o : DDOut S) :
    okRm sv N lb o ↔ ∃ (cache : Cache S) (store : DomStore S Unit) (polls : Nat),
      (compile (sv.cfg .restricted N lb) cache store polls none).1 = .ok ∧
      o = toOut (compile (sv.cfg .restricted N lb) cache store polls none).2.1 := Iff.rfl

theorem okXm_iff (sv : SolverCfg S) (N : SubP S) (lb : Int) (o : DDOut S) :
    okXm sv N lb o ↔ ∃ (cache : Cache S) (store : DomStore S Unit) (polls : Nat),
      (compile (sv.cfg .relaxed N lb) cache store polls none).1 = .ok ∧
      o = toOut (compile (sv.cfg .relaxed N lb) cache store polls none).2.1 := Iff.rfl

/-- the per-node `CompilationInput`: the node in hand as root, the incumbent the worker read, `EmptyCache`, no dominance -/
example (sv : SolverCfg S) (ct : CompType) (N : SubP S) (lb : Int) :
    (sv.cfg ct N lb).root = N ∧ (sv.cfg ct N lb).lb = lb ∧ (sv.cfg ct N lb).useCache = false ∧
    (sv.cfg ct N lb).dom = none ∧ (sv.cfg ct N lb).ctype = ct ∧ (sv.cfg ct N lb).width = sv.width N :=
  ⟨rfl, rfl, rfl, rfl, rfl, rfl⟩

/-- the primal handed to `set_primal` (if any) is a feasible solution with the claimed value -/
def PrimalOk (sv : SolverCfg S) (primal : Option (Int × List Dec)) : Prop :=
  ∀ v sol, primal = some (v, sol) → SolOf sv.P sol v

theorem primalOk_none (sv : SolverCfg S) : PrimalOk sv none := fun _ _ h => by cases h

/-! ## 2. the side conditions hold on every reachable state; the contracts are theorems -/

/-- **`par_pcinv`**: `PCInv` holds in every state reachable from the initial one — any number of threads, every
    interleaving, cut-offs included -/
theorem par_pcinv {sv : SolverCfg S} {H : Nat → S → EInt} {B0 B : Int} (hwf : WellFormed sv H B0 B)
    {primal : Option (Int × List Dec)} (hp : PrimalOk sv primal) (U : Nat) {t : Sys S}
    (ht : PRun sv (Sys.init sv.P primal sv.dedup U) t) : PCInv sv H B t :=
  prun_pcinv hwf ht (init_pcinv hwf primal hp U)

/-- **the contract of the restricted compilation holds in every reachable state**: whatever the diagram model answers to a
    worker about to compile, for the node it holds and the (possibly stale) incumbent it read, meets `OkR` -/
theorem par_contract_R {sv : SolverCfg S} {H : Nat → S → EInt} {B0 B : Int} (hwf : WellFormed sv H B0 B) {opt : Int}
    (hopt : (H 0 sv.P.init).addI sv.P.initVal = some opt)
    {primal : Option (Int × List Dec)} (hp : PrimalOk sv primal) (U : Nat) {t : Sys S}
    (ht : PRun sv (Sys.init sv.P primal sv.dedup U) t) {i : Nat} {n : SubP S} {lb : Int} {o : DDOut S}
    (hw : t.ws[i]? = some (.compR n lb)) (hok : okRm sv n lb o) : OkR (optOf H) opt (SolOf sv.P) n lb o := by
  have hI := par_pcinv hwf hp U ht
  have hwk := hI.ws _ (List.mem_of_getElem? hw)
  exact okR'_contract hwf hopt n lb o ⟨hok, hwk.node n rfl, hwk.stage⟩

/-- **the contracts of the relaxed compilation hold in every reachable state** (`CompileOk` and `CutsetOk`) -/
theorem par_contract_X {sv : SolverCfg S} {H : Nat → S → EInt} {B0 B : Int} (hwf : WellFormed sv H B0 B) {opt : Int}
    (hopt : (H 0 sv.P.init).addI sv.P.initVal = some opt)
    {primal : Option (Int × List Dec)} (hp : PrimalOk sv primal) (U : Nat) {t : Sys S}
    (ht : PRun sv (Sys.init sv.P primal sv.dedup U) t) {i : Nat} {n : SubP S} {lb : Int} {o : DDOut S}
    (hw : t.ws[i]? = some (.compX n lb)) (hok : okXm sv n lb o) : OkX (optOf H) opt (SolOf sv.P) n lb o := by
  have hI := par_pcinv hwf hp U ht
  have hwk := hI.ws _ (List.mem_of_getElem? hw)
  exact okX'_contract hwf hopt n lb o ⟨hok, hwk.node n rfl, hwk.stage⟩

/-- every run of the concrete system from the initial state is a run of the system whose compilations are constrained by
    `okR'` / `okX'` (the model's answers + the side conditions), to which the theorems of `Props/C03b.lean` apply -/
theorem par_run_lift {sv : SolverCfg S} {H : Nat → S → EInt} {B0 B : Int} (hwf : WellFormed sv H B0 B)
    {primal : Option (Int × List Dec)} (hp : PrimalOk sv primal) (U : Nat) {t : Sys S}
    (ht : PRun sv (Sys.init sv.P primal sv.dedup U) t) :
    Run sv.dedup (okR' sv B) (okX' sv B) (Sys.init sv.P primal sv.dedup U) t :=
  (prun_lift hwf ht (init_pcinv hwf primal hp U)).1

/-! ## 3. (a) the coverage invariant -/

theorem phiOk (H : Nat → S → EInt) (dedup : Bool) : PhiOk (optOf H) dedup :=
  ⟨fun _ _ => rfl, fun _ => phiMono_of_potential H⟩

/-- the coverage invariant holds initially -/
theorem init_sysinv {sv : SolverCfg S} {H : Nat → S → EInt} {B0 B : Int} (hwf : WellFormed sv H B0 B) {opt : Int}
    (hopt : (H 0 sv.P.init).addI sv.P.initVal = some opt)
    {primal : Option (Int × List Dec)} (hp : PrimalOk sv primal) (U : Nat) :
    SysInv (optOf H) opt (SolOf sv.P) (Sys.init sv.P primal sv.dedup U) := by
  have hb := opt_bound hwf.pot hwf.nv hwf.bound hopt
  have hBs := hwf.bound.B_small
  have hroot : Good (optOf H) opt (rootOf sv.P) := by
    intro x hx
    have e : optOf H (rootOf sv.P) = some opt := hopt
    rw [e] at hx
    have := Option.some.inj hx
    omega
  have h1 : opt ≤ iMax := by simp only [iMax]; omega
  have h2 : iMin ≤ opt := by simp only [iMin]; omega
  cases primal with
  | none => exact C03b.sys_inv_init (optOf H) opt (SolOf sv.P) sv.P sv.dedup U hroot h1 h2 (fun _ => hopt)
  | some vs =>
    obtain ⟨v, sol⟩ := vs
    obtain ⟨_, _, x, hx, hle⟩ := solOf_facts hwf (hp v sol rfl)
    have hxo : x = opt := by rw [hopt] at hx; exact (Option.some.inj hx).symm
    exact C03b.sys_inv_init_primal (optOf H) opt (SolOf sv.P) sv.P sv.dedup U v sol hroot h1 h2 (by omega) (hp v sol rfl)
      (fun _ _ => hopt)

/-- **(a) `par_sys_inv`**: every reachable state of the concrete system over the diagram model satisfies the coverage
    invariant `SysInv` of `Props/C03b.lean` — no contract hypothesis -/
theorem par_sys_inv {sv : SolverCfg S} {H : Nat → S → EInt} {B0 B : Int} (hwf : WellFormed sv H B0 B) {opt : Int}
    (hopt : (H 0 sv.P.init).addI sv.P.initVal = some opt)
    {primal : Option (Int × List Dec)} (hp : PrimalOk sv primal) (U : Nat) {t : Sys S}
    (ht : PRun sv (Sys.init sv.P primal sv.dedup U) t) : SysInv (optOf H) opt (SolOf sv.P) t :=
  C03b.sys_inv (optOf H) opt (SolOf sv.P) sv.dedup (phiOk H sv.dedup) (okR'_contract hwf hopt) (okX'_contract hwf hopt)
    (par_run_lift hwf hp U ht) (init_sysinv hwf hopt hp U)

/-! ## (b) termination -/

/-- `ProgOk` (pending cut-sets strictly deeper, not beyond `nb_variables`: C08 (ii) + C08 (i) + `NvBound`) holds in every
    reachable state -/
theorem par_progOk {sv : SolverCfg S} {H : Nat → S → EInt} {B0 B : Int} (hwf : WellFormed sv H B0 B)
    {primal : Option (Int × List Dec)} (hp : PrimalOk sv primal) (U : Nat) {t : Sys S}
    (ht : PRun sv (Sys.init sv.P primal sv.dedup U) t) : ProgOk sv.P.nbVars t :=
  C03b.sys_progOk (okX'_progress hwf) sv.P primal U (par_run_lift hwf hp U ht)

/-- **(b) `par_terminates`**: the step relation of the concrete system, on the reachable states, is well-founded -/
theorem par_terminates {sv : SolverCfg S} {H : Nat → S → EInt} {B0 B : Int} (hwf : WellFormed sv H B0 B)
    {primal : Option (Int × List Dec)} (hp : PrimalOk sv primal) (U : Nat) :
    WellFounded (fun t s : Sys S => PRun sv (Sys.init sv.P primal sv.dedup U) s ∧ PStep sv s t) :=
  Subrelation.wf (fun {_ _} h => ⟨pstep_lift h.2 (par_pcinv hwf hp U h.1), par_progOk hwf hp U h.1⟩)
    (C03b.sys_terminates sv.P.nbVars sv.dedup (okR' sv B) (okX' sv B))

/-- … **`par_no_infinite_run`**: there is no infinite run from the initial state (any interleaving, wait steps counted) -/
theorem par_no_infinite_run {sv : SolverCfg S} {H : Nat → S → EInt} {B0 B : Int} (hwf : WellFormed sv H B0 B)
    {primal : Option (Int × List Dec)} (hp : PrimalOk sv primal) (U : Nat)
    (run : Nat → Sys S) (h0 : run 0 = Sys.init sv.P primal sv.dedup U) : ¬ ∀ k, PStep sv (run k) (run (k + 1)) := by
  intro hrun
  have hreach : ∀ k, PRun sv (Sys.init sv.P primal sv.dedup U) (run k) := by
    intro k
    induction k with
    | zero => rw [h0]; exact RunG.refl _
    | succ k ih => exact RunG.tail ih (hrun k)
  exact C03b.sys_no_infinite_run (okX'_progress hwf) sv.P primal U run h0
    (fun k => pstep_lift (hrun k) (par_pcinv hwf hp U (hreach k)))

/-! ## (4) no panic, no deadlock -/

/-- **`par_layinv`**: the bookkeeping invariant holds in every reachable state -/
theorem par_layinv {sv : SolverCfg S} {H : Nat → S → EInt} {B0 B : Int} (hwf : WellFormed sv H B0 B)
    {primal : Option (Int × List Dec)} (hp : PrimalOk sv primal) (U : Nat) {t : Sys S}
    (ht : PRun sv (Sys.init sv.P primal sv.dedup U) t) : LayInv sv t :=
  prun_layinv hwf ht (init_pcinv hwf primal hp U) (init_layinv sv primal U)

/-- **the panic step of `get_workload` is never enabled**: in a reachable state, whenever a worker pops a node that beats the
    incumbent, the bookkeeping at the end of `get_workload` (`upper_bounds[i]`, `open_by_layer[d] -= 1`,
    `ongoing_by_layer[d] += 1`) succeeds -/
theorem par_no_gwCrash {sv : SolverCfg S} {H : Nat → S → EInt} {B0 B : Int} (hwf : WellFormed sv H B0 B)
    {primal : Option (Int × List Dec)} (hp : PrimalOk sv primal) (U : Nat) {t : Sys S}
    (ht : PRun sv (Sys.init sv.P primal sv.dedup U) t) {i : Nat} {N nn : SubP S} {rest : List (SubP S)} {c' : ParCrit S}
    {k : Nat} (hw : t.ws[i]? = some .idle) (ha : t.crit.base.abort = false) (hpm : PopMax t.crit.base.fringe N rest)
    (hl : popLoop (setFringe t.crit rest) [(N, true)] 0 = (c', some (some nn), k)) : c'.take i nn ≠ none := by
  obtain ⟨rfl, rfl⟩ := popLoop_item hl
  have hI := par_pcinv hwf hp U ht
  have hN := node_depth_le hwf (hI.base.fr nn ((mem_of_popMax hpm nn).mpr (Or.inl rfl)))
  obtain ⟨c'', hc''⟩ := take_ne_none (par_layinv hwf hp U ht) hw ha hpm hN
  rw [hc'']; simp

/-- **`notify_node_finished` never panics**: it is defined for every worker about to call it -/
theorem par_notify_defined {sv : SolverCfg S} {H : Nat → S → EInt} {B0 B : Int} (hwf : WellFormed sv H B0 B)
    {primal : Option (Int × List Dec)} (hp : PrimalOk sv primal) (U : Nat) {t : Sys S}
    (ht : PRun sv (Sys.init sv.P primal sv.dedup U) t) {i : Nat} {n : SubP S} {te : Bool}
    (hw : t.ws[i]? = some (.fin n te)) : ∃ c', t.crit.notifyFinished i n.depth = some c' := by
  have hI := par_pcinv hwf hp U ht
  exact notify_ne_none (par_layinv hwf hp U ht) hw (node_depth_le hwf ((hI.ws _ (List.mem_of_getElem? hw)).node n rfl))

/-- **no panic**: in every reachable state no worker has panicked and `enqueue_cutset` never indexed `open_by_layer`
    out of range -/
theorem par_no_panic {sv : SolverCfg S} {H : Nat → S → EInt} {B0 B : Int} (hwf : WellFormed sv H B0 B)
    {primal : Option (Int × List Dec)} (hp : PrimalOk sv primal) (U : Nat) {t : Sys S}
    (ht : PRun sv (Sys.init sv.P primal sv.dedup U) t) : NoCrash t ∧ t.crit.base.crashed = false :=
  ⟨(par_layinv hwf hp U ht).hand.noCrash, (par_layinv hwf hp U ht).crit.noPanic⟩

/-- **no deadlock, no lost wake-up**: in every reachable state in which some worker has not left its loop, some section
    is enabled (and the deterministic scheduler finds it) -/
theorem par_progress {sv : SolverCfg S} {H : Nat → S → EInt} {B0 B : Int} (hwf : WellFormed sv H B0 B)
    {primal : Option (Int × List Dec)} (hp : PrimalOk sv primal) (U : Nat) {t : Sys S}
    (ht : PRun sv (Sys.init sv.P primal sv.dedup U) t) (hlive : ¬ AllDone t) : ∃ u, PStep sv t u := by
  obtain ⟨i, u, _, hu⟩ := pstep_progress hwf (par_pcinv hwf hp U ht) (par_layinv hwf hp U ht) hlive
  exact ⟨u, hu⟩

/-! ## (c) completion -/

/-- a stored solution exists once the incumbent is a genuine value -/
theorem sol_some {sv : SolverCfg S} {H : Nat → S → EInt} {B0 B : Int} (hwf : WellFormed sv H B0 B) {opt : Int}
    (hopt : (H 0 sv.P.init).addI sv.P.initVal = some opt) {t : Sys S} (hI : PCInv sv H B t)
    (hlb : t.crit.base.bestLb = opt) : ∃ p, t.crit.base.bestSol = some p := by
  have hb := opt_bound hwf.pot hwf.nv hwf.bound hopt
  have hBs := hwf.bound.B_small
  cases hs : t.crit.base.bestSol with
  | none =>
    have := hI.base.solLb hs
    simp only [iMin] at this
    omega
  | some p => exact ⟨p, rfl⟩

/-- **(c) `par_complete_optimal`**: when a worker's `get_workload` answers `Complete` the incumbent is the optimum, a
    solution is stored and it is a genuinely feasible complete path of value `opt`; the section then sets
    `best_ub = best_lb = opt` and `maximize()` reports `is_exact = true`, `best_value = Some(opt)` -/
theorem par_complete_optimal {sv : SolverCfg S} {H : Nat → S → EInt} {B0 B : Int} (hwf : WellFormed sv H B0 B) {opt : Int}
    (hopt : (H 0 sv.P.init).addI sv.P.initVal = some opt)
    {primal : Option (Int × List Dec)} (hp : PrimalOk sv primal) (U : Nat) {t : Sys S}
    (ht : PRun sv (Sys.init sv.P primal sv.dedup U) t) {i : Nat} (hc : CompletesAt t i) :
    t.crit.base.bestLb = opt ∧ (∃ p, t.crit.base.bestSol = some p ∧ SolOf sv.P p opt) ∧
    t.crit.complete.base.bestUb = opt ∧ t.crit.complete.base.completion = (true, some opt) := by
  obtain ⟨h1, h2, _, h4, h5⟩ := C03b.sys_complete_optimal (optOf H) opt (SolOf sv.P) (par_sys_inv hwf hopt hp U ht) hc
  obtain ⟨p, hs⟩ := sol_some hwf hopt (par_pcinv hwf hp U ht) h1
  refine ⟨h1, ⟨p, hs, h2 p hs⟩, h4, ?_⟩
  rw [h5, hs]; rfl

/-- infeasible problem: nothing is ever stored; at `Complete`, `is_exact = true` and no value -/
theorem par_infeasible {sv : SolverCfg S} {H : Nat → S → EInt} {B0 B : Int} (hwf : WellFormed sv H B0 B)
    (hinf : (H 0 sv.P.init).addI sv.P.initVal = none)
    {primal : Option (Int × List Dec)} (hp : PrimalOk sv primal) (U : Nat) {t : Sys S}
    (ht : PRun sv (Sys.init sv.P primal sv.dedup U) t) :
    t.crit.base.bestSol = none ∧ t.crit.base.completion.2 = none ∧
    (∀ i, CompletesAt t i → t.crit.complete.base.completion = (true, none)) := by
  obtain ⟨_, h2⟩ := (par_pcinv hwf hp U ht).base.infeas hinf
  refine ⟨h2, ?_, fun i hc => ?_⟩
  · show t.crit.base.bestSol.map (fun _ => t.crit.base.bestLb) = none
    rw [h2]; rfl
  · show (!t.crit.base.abort, t.crit.base.bestSol.map (fun _ => t.crit.base.bestLb)) = _
    rw [h2, hc.2.1]; rfl

/-! ## (d) what `maximize()` returns, with and without cut-offs -/

/-- **(d) `par_final`**: in any reachable state in which every worker has left its loop (`maximize()` joins them), `U ≥ 1`:
    abort flag down — the optimum, `best_ub = best_lb = opt`, `is_exact = true`, a feasible solution of value `opt`;
    abort flag up (cut-offs) — `best_lb ≤ opt ≤ best_ub`, `is_exact = false`; in both cases the stored solution is feasible
    with value `best_lb` -/
theorem par_final {sv : SolverCfg S} {H : Nat → S → EInt} {B0 B : Int} (hwf : WellFormed sv H B0 B) {opt : Int}
    (hopt : (H 0 sv.P.init).addI sv.P.initVal = some opt)
    {primal : Option (Int × List Dec)} (hp : PrimalOk sv primal) (U : Nat) (hU : 1 ≤ U) {t : Sys S}
    (ht : PRun sv (Sys.init sv.P primal sv.dedup U) t) (hd : AllDone t) :
    (t.crit.base.abort = false → t.crit.base.bestLb = opt ∧ t.crit.base.bestUb = opt ∧
        (∃ p, t.crit.base.bestSol = some p ∧ SolOf sv.P p opt) ∧ t.crit.base.completion = (true, some opt)) ∧
    (t.crit.base.abort = true → t.crit.base.bestLb ≤ opt ∧ opt ≤ t.crit.base.bestUb ∧ t.crit.base.completion.1 = false) ∧
    (∀ p, t.crit.base.bestSol = some p → SolOf sv.P p t.crit.base.bestLb) := by
  have hlen : t.ws.length = U := by
    -- the number of workers never changes
    have : ∀ {s u : Sys S}, PRun sv s u → u.ws.length = s.ws.length := by
      intro s u h
      induction h with
      | refl => rfl
      | tail _ hst ih =>
        rw [← ih]
        cases hst <;> simp [List.length_set, List.length_map]
    rw [this ht]; simp [Sys.init]
  have hne : t.ws ≠ [] := by
    intro e; rw [e] at hlen; simp at hlen; omega
  obtain ⟨f1, f2, f3⟩ := C03b.sys_final (optOf H) opt (SolOf sv.P) sv.dedup (phiOk H sv.dedup) (okR'_contract hwf hopt)
    (okX'_contract hwf hopt) sv.P primal U (init_sysinv hwf hopt hp U) (par_run_lift hwf hp U ht) hd hne
  refine ⟨fun ha => ?_, f2, f3⟩
  obtain ⟨g1, g2, g3⟩ := f1 ha
  obtain ⟨p, hs⟩ := sol_some hwf hopt (par_pcinv hwf hp U ht) g1
  refine ⟨g1, g2, ⟨p, hs, g1 ▸ f3 p hs⟩, ?_⟩
  rw [g3, hs]; rfl

/-- **`par_cutoff_bounds`**: in every reachable state `best_lb ≤ opt` and the stored solution is feasible with value
    `best_lb`; once the search has been aborted (by any number of cut-offs), `opt ≤ best_ub` and `is_exact = false` -/
theorem par_cutoff_bounds {sv : SolverCfg S} {H : Nat → S → EInt} {B0 B : Int} (hwf : WellFormed sv H B0 B) {opt : Int}
    (hopt : (H 0 sv.P.init).addI sv.P.initVal = some opt)
    {primal : Option (Int × List Dec)} (hp : PrimalOk sv primal) (U : Nat) {t : Sys S}
    (ht : PRun sv (Sys.init sv.P primal sv.dedup U) t) :
    t.crit.base.bestLb ≤ opt ∧ (∀ p, t.crit.base.bestSol = some p → SolOf sv.P p t.crit.base.bestLb) ∧
    (t.crit.base.abort = true → opt ≤ t.crit.base.bestUb ∧ t.crit.base.completion.1 = false) := by
  have hi := par_sys_inv hwf hopt hp U ht
  obtain ⟨h1, h2⟩ := C03b.sys_cutoff_bounds (optOf H) opt (SolOf sv.P) sv.dedup (phiOk H sv.dedup) (okR'_contract hwf hopt)
    (okX'_contract hwf hopt) (par_run_lift hwf hp U ht) (init_sysinv hwf hopt hp U)
  exact ⟨h1, hi.solOk, fun ha => h2 ha (par_no_panic hwf hp U ht).1⟩

/-! ## (e) primal -/

/-- **(e) `parallel_solver_primal`**: started from a feasible primal `(v, sol)`, whenever a worker's `get_workload` answers
    `Complete` the incumbent is `max v opt` (= `opt`), the value of a stored feasible solution -/
theorem parallel_solver_primal (sv : SolverCfg S) (H : Nat → S → EInt) (B0 B : Int) (hwf : WellFormed sv H B0 B) (U : Nat)
    (v : Int) (sol : List Dec) (hsol : SolOf sv.P sol v) :
    ∃ opt, (H 0 sv.P.init).addI sv.P.initVal = some opt ∧ v ≤ opt ∧
      ∀ t, PRun sv (Sys.init sv.P (some (v, sol)) sv.dedup U) t → ∀ i, CompletesAt t i →
        t.crit.base.bestLb = max v opt ∧ (∃ p, t.crit.base.bestSol = some p ∧ SolOf sv.P p (max v opt)) ∧
        t.crit.complete.base.completion = (true, some (max v opt)) := by
  obtain ⟨_, _, opt, hopt, hle⟩ := solOf_facts hwf hsol
  have hp : PrimalOk sv (some (v, sol)) := by
    intro v' sol' e
    injection e with e
    injection e with e1 e2
    subst e1; subst e2; exact hsol
  refine ⟨opt, hopt, hle, fun t ht i hc => ?_⟩
  obtain ⟨h1, h2, _, h4⟩ := par_complete_optimal hwf hopt hp U ht hc
  have : max v opt = opt := by omega
  rw [this]
  exact ⟨h1, h2, h4⟩

/-! ## the headline -/

/-- **`parallel_solver_correct`**: for every well-formed model (`WellFormed`: `Potential`, `RubOk`, `MergeOk`, `AttMerge`,
    `RunBound`, `NvBound`, widths ≥ 1), every ranking, width function, cut-set kind, either fringe and **every number of
    threads `U ≥ 1`**, the parallel solver over the diagram model (`EmptyCache`, no dominance; a cut-off may strike any
    compilation), from `Sys.init sv.P none sv.dedup U`, in **every interleaving**:

    * (b) terminates: the step relation is well-founded on the reachable states, there is no infinite run;
    * in every reachable state `t`:
      - (2) the side conditions `PCInv` of the diagram theorems hold (so the contracts are met: `par_contract_R/X`);
      - (4) nothing has panicked (`NoCrash`, `crashed = false`; `gwCrash` is not enabled, `notify_node_finished` is
        defined: `par_no_gwCrash`, `par_notify_defined`) and some section is enabled unless every worker has left;
      - feasible problem, optimum `opt`: (a) `SysInv`; (c) whenever a worker's `get_workload` answers `Complete`:
        `best_lb = opt`, the stored solution is a genuinely feasible complete path of value `opt`, `best_ub := opt`,
        `Completion = (true, Some(opt))`; (d) when `maximize()` returns: without cut-off the same, with cut-offs
        `best_lb ≤ opt ≤ best_ub` and `is_exact = false`; always: the stored solution is feasible with value `best_lb ≤ opt`;
      - infeasible problem: no solution is ever stored, no value is reported, `Complete` reports `(true, None)`. -/
theorem parallel_solver_correct (sv : SolverCfg S) (H : Nat → S → EInt) (B0 B : Int) (hwf : WellFormed sv H B0 B)
    (U : Nat) (hU : 1 ≤ U) :
    WellFounded (fun t s : Sys S => PRun sv (Sys.init sv.P none sv.dedup U) s ∧ PStep sv s t) ∧
    (∀ run : Nat → Sys S, run 0 = Sys.init sv.P none sv.dedup U → ¬ ∀ k, PStep sv (run k) (run (k + 1))) ∧
    ∀ t, PRun sv (Sys.init sv.P none sv.dedup U) t →
      PCInv sv H B t ∧
      (NoCrash t ∧ t.crit.base.crashed = false ∧ (¬ AllDone t → ∃ u, PStep sv t u)) ∧
      (∀ opt, (H 0 sv.P.init).addI sv.P.initVal = some opt →
        SysInv (optOf H) opt (SolOf sv.P) t ∧
        (∀ i, CompletesAt t i →
          t.crit.base.bestLb = opt ∧ (∃ p, t.crit.base.bestSol = some p ∧ SolOf sv.P p opt) ∧
          t.crit.complete.base.bestUb = opt ∧ t.crit.complete.base.completion = (true, some opt)) ∧
        (AllDone t → t.crit.base.abort = false →
          t.crit.base.bestLb = opt ∧ t.crit.base.bestUb = opt ∧
          (∃ p, t.crit.base.bestSol = some p ∧ SolOf sv.P p opt) ∧ t.crit.base.completion = (true, some opt)) ∧
        (AllDone t → t.crit.base.abort = true →
          t.crit.base.bestLb ≤ opt ∧ opt ≤ t.crit.base.bestUb ∧ t.crit.base.completion.1 = false) ∧
        t.crit.base.bestLb ≤ opt ∧ (∀ p, t.crit.base.bestSol = some p → SolOf sv.P p t.crit.base.bestLb)) ∧
      ((H 0 sv.P.init).addI sv.P.initVal = none →
        t.crit.base.bestSol = none ∧ t.crit.base.completion.2 = none ∧
        (∀ i, CompletesAt t i → t.crit.complete.base.completion = (true, none))) := by
  have hp := primalOk_none sv
  refine ⟨par_terminates hwf hp U, par_no_infinite_run hwf hp U, fun t ht => ⟨par_pcinv hwf hp U ht,
    ⟨(par_no_panic hwf hp U ht).1, (par_no_panic hwf hp U ht).2, par_progress hwf hp U ht⟩,
    fun opt hopt => ⟨par_sys_inv hwf hopt hp U ht, fun i hc => par_complete_optimal hwf hopt hp U ht hc,
      fun hd => (par_final hwf hopt hp U hU ht hd).1, fun hd => (par_final hwf hopt hp U hU ht hd).2.1,
      (par_cutoff_bounds hwf hopt hp U ht).1, (par_cutoff_bounds hwf hopt hp U ht).2.1⟩,
    fun hinf => par_infeasible hwf hinf hp U ht⟩⟩

/-! ## total correctness of uninterrupted runs -/

/-- a run that cannot be extended has every worker gone: `maximize()` returns (no deadlock, no lost wake-up, no panic) -/
theorem par_maximal_allDone {sv : SolverCfg S} {H : Nat → S → EInt} {B0 B : Int} (hwf : WellFormed sv H B0 B)
    {primal : Option (Int × List Dec)} (hp : PrimalOk sv primal) (U : Nat) {t : Sys S}
    (ht : PRun sv (Sys.init sv.P primal sv.dedup U) t) (hmax : ∀ u, ¬ PStep sv t u) : AllDone t := by
  apply Classical.byContradiction
  intro h
  obtain ⟨u, hu⟩ := par_progress hwf hp U ht h
  exact hmax u hu

/-- **`par_uninterrupted_correct`**: when `maximize()` returns after an uninterrupted run (`URun`: no compilation was cut
    off) it reports `is_exact = true` and the optimum, `best_ub = best_lb = opt`, with a genuinely feasible stored solution of
    that value -/
theorem par_uninterrupted_correct {sv : SolverCfg S} {H : Nat → S → EInt} {B0 B : Int} (hwf : WellFormed sv H B0 B)
    {opt : Int} (hopt : (H 0 sv.P.init).addI sv.P.initVal = some opt)
    {primal : Option (Int × List Dec)} (hp : PrimalOk sv primal) (U : Nat) (hU : 1 ≤ U) {t : Sys S}
    (ht : URun sv (Sys.init sv.P primal sv.dedup U) t) (hd : AllDone t) :
    t.crit.base.bestLb = opt ∧ t.crit.base.bestUb = opt ∧ (∃ p, t.crit.base.bestSol = some p ∧ SolOf sv.P p opt) ∧
    t.crit.base.completion = (true, some opt) :=
  (par_final hwf hopt hp U hU ht.toRun hd).1 (ht.noCut (init_noCut sv.P primal sv.dedup U)).1

/-- **`par_run_to_end`**: every uninterrupted run can be continued, uninterrupted, until every worker has left (the
    deterministic scheduler `ParClosed.next` does it: termination + progress) -/
theorem par_run_to_end {sv : SolverCfg S} {H : Nat → S → EInt} {B0 B : Int} (hwf : WellFormed sv H B0 B)
    {primal : Option (Int × List Dec)} (hp : PrimalOk sv primal) (U : Nat) {s : Sys S}
    (hs : URun sv (Sys.init sv.P primal sv.dedup U) s) :
    ∃ t, URun sv (Sys.init sv.P primal sv.dedup U) t ∧ PRun sv s t ∧ AllDone t := by
  refine (par_terminates hwf hp U).induction
    (C := fun s => URun sv (Sys.init sv.P primal sv.dedup U) s →
      ∃ t, URun sv (Sys.init sv.P primal sv.dedup U) t ∧ PRun sv s t ∧ AllDone t) s ?_ hs
  intro s ih hs
  by_cases hd : AllDone s
  · exact ⟨s, hs, RunG.refl _, hd⟩
  · obtain ⟨i, u, hn, hu⟩ := pstep_progress hwf (par_pcinv hwf hp U hs.toRun) (par_layinv hwf hp U hs.toRun) hd
    have hnc := hs.noCut (init_noCut sv.P primal sv.dedup U)
    have hu' : URun sv (Sys.init sv.P primal sv.dedup U) u := URun.tail hs hu (next_noAbortS hnc hn)
    obtain ⟨t, h1, h2, h3⟩ := ih u ⟨hs.toRun, hu⟩ hu'
    exact ⟨t, h1, prun_head hu h2, h3⟩

/-- **`parallel_solver_total`** (total correctness, uninterrupted): for every well-formed model and every `U ≥ 1` the
    parallel solver has an uninterrupted run from `initialize()` to the return of `maximize()`; **every** such run — every
    interleaving — reports `is_exact = true` with the optimum and a feasible solution of that value, or no value iff the
    problem is infeasible -/
theorem parallel_solver_total (sv : SolverCfg S) (H : Nat → S → EInt) (B0 B : Int) (hwf : WellFormed sv H B0 B)
    (U : Nat) (hU : 1 ≤ U) :
    (∃ t, URun sv (Sys.init sv.P none sv.dedup U) t ∧ AllDone t) ∧
    ∀ t, URun sv (Sys.init sv.P none sv.dedup U) t → AllDone t →
      (∀ opt, (H 0 sv.P.init).addI sv.P.initVal = some opt →
        t.crit.base.completion = (true, some opt) ∧ t.crit.base.bestLb = opt ∧ t.crit.base.bestUb = opt ∧
        ∃ p, t.crit.base.bestSol = some p ∧ SolOf sv.P p opt) ∧
      ((H 0 sv.P.init).addI sv.P.initVal = none → t.crit.base.completion = (true, none)) := by
  have hp := primalOk_none sv
  refine ⟨?_, fun t ht hd => ⟨fun opt hopt => ?_, fun hinf => ?_⟩⟩
  · obtain ⟨t, h1, _, h3⟩ := par_run_to_end hwf hp U (URun.refl _)
    exact ⟨t, h1, h3⟩
  · obtain ⟨h1, h2, h3, h4⟩ := par_uninterrupted_correct hwf hopt hp U hU ht hd
    exact ⟨h4, h1, h2, h3⟩
  · obtain ⟨h1, _, _⟩ := par_infeasible hwf hinf hp U ht.toRun
    show (!t.crit.base.abort, t.crit.base.bestSol.map (fun _ => t.crit.base.bestLb)) = _
    rw [h1, (ht.noCut (init_noCut sv.P none sv.dedup U)).1]; rfl

/-! ## 5. non-vacuity: the `Trap` model of `Props/C01d.lean` with two threads -/
namespace Trap2
open Ddo.C01.Trap

/-- `maximize()` after `initialize()`, two workers -/
def s0 (dedup : Bool) : Sys Int := Sys.init prob none dedup 2

/-- the schedule (which worker runs its next section): thread 0 takes the root, thread 1 finds the fringe empty and parks;
    thread 0 runs `process_one_node` on the root (restricted diagram trapped: incumbent 1; relaxed diagram not exact:
    cut-set of two nodes enqueued) and acknowledges it, which wakes thread 1; thread 0 takes the node of bound 4, thread 1
    the node of bound 3, both read the incumbent 1; thread 0 compiles and raises the incumbent to 4 **while thread 1 still
    holds its stale copy 1**, acknowledges and parks; thread 1 compiles with the stale incumbent, updates (nothing better),
    acknowledges, which wakes thread 0: both idle, nothing open -/
def schedA : List Nat := [0, 1, 0, 0, 0, 0, 0, 0, 0, 0, 0, 0, 1, 0, 1, 0, 0, 0, 1, 1, 1]
/-- … then both workers get `Complete` and leave -/
def schedB : List Nat := schedA ++ [1, 0]
/-- the prefix after which thread 0 has published the incumbent 4 and thread 1 is about to compile with the stale 1 -/
def schedMid : List Nat := [0, 1, 0, 0, 0, 0, 0, 0, 0, 0, 0, 0, 1, 0, 1, 0]

/-- what is observed of a state: the stage of every worker, the abort flag, `ongoing`, the size of the fringe, the incumbent,
    `best_ub`, the stale incumbents the workers hold -/
def obs (t : Sys Int) : (List Nat × Bool × Nat × Nat) × (Int × Int × List (Option Int)) :=
  ((t.ws.map tag, t.crit.base.abort, t.crit.ongoing, t.crit.base.fringe.length), (t.crit.base.bestLb, t.crit.base.bestUb,
   t.ws.map (fun w => match w with | .compR _ lb => some lb | .compX _ lb => some lb | _ => none)))

/-- every scheduled state is reachable in the concrete system -/
theorem reach (dedup : Bool) (kind : CutsetKind) (is : List Nat) :
    PRun (sv dedup kind) (s0 dedup) (runSched (sv dedup kind) (s0 dedup) is) := runSched_run _ _ _

/-- in the middle of the run the two threads work concurrently: thread 0 has just published the incumbent 4 and is about
    to acknowledge its node (`fin`), thread 1 holds the other cut-set node and is about to compile it with the **stale**
    incumbent 1 -/
theorem mid_obs : obs (runSched (sv false .lel) (s0 false) schedMid) =
    (([12, 5], false, 2, 0), (4, iMax, [none, some 1])) := by decide

/-- at the end of `schedA` both workers are idle, nothing is open or in progress, the incumbent is 4 -/
theorem endA_obs : obs (runSched (sv false .lel) (s0 false) schedA) = (([0, 0], false, 0, 0), (4, iMax, [none, none])) := by
  decide

/-- … so `get_workload` answers `Complete` to thread 0 (and to thread 1) -/
theorem completes : CompletesAt (runSched (sv false .lel) (s0 false) schedA) 0 := by
  have h := endA_obs
  simp only [obs, Prod.mk.injEq] at h
  obtain ⟨⟨h1, h2, h3, h4⟩, _⟩ := h
  refine ⟨?_, h2, h3, List.eq_nil_of_length_eq_zero h4⟩
  cases hws : (runSched (sv false .lel) (s0 false) schedA).ws with
  | nil => rw [hws] at h1; simp at h1
  | cons w ws =>
    rw [hws] at h1
    simp only [List.map_cons, List.cons.injEq] at h1
    rw [tag_idle h1.1]; rfl

/-- **a complete two-thread run of the concrete system over the diagram model reaches `Complete` with the optimum** — what
    the run shows (`endA_obs`: incumbent 4) is what the headline predicts -/
theorem complete_run :
    ∃ t, PRun (sv false .lel) (s0 false) t ∧ CompletesAt t 0 ∧ t.crit.base.bestLb = 4 ∧
      (∃ p, t.crit.base.bestSol = some p ∧ SolOf prob p 4) ∧ t.crit.complete.base.completion = (true, some 4) := by
  refine ⟨_, reach false .lel schedA, completes, ?_⟩
  obtain ⟨h1, h2, _, h4⟩ := par_complete_optimal (wellFormed false .lel) (opt := 4) rfl (primalOk_none _) 2
    (reach false .lel schedA) completes
  exact ⟨h1, h2, h4⟩

/-- after `schedB` every worker has left: `maximize()` returns `Completion { is_exact: true, best_value: Some(4) }`,
    `best_ub = best_lb = 4` -/
theorem endB_obs : obs (runSched (sv false .lel) (s0 false) schedB) = (([2, 2], false, 0, 0), (4, 4, [none, none])) ∧
    (runSched (sv false .lel) (s0 false) schedB).crit.base.completion = (true, some 4) := by decide

/-- the same schedule with the duplicate-free fringe and the frontier cut-set -/
theorem endB_obs' : obs (runSched (sv true .frontier) (s0 true) schedB) = (([2, 2], false, 0, 0), (4, 4, [none, none])) ∧
    (runSched (sv true .frontier) (s0 true) schedB).crit.base.completion = (true, some 4) := by decide

/-- **a run with a cut-off**: from the middle state (thread 0 has published the incumbent 4, thread 1 is about to compile with
    the stale incumbent 1) the compilation of thread 1 is cut off; thread 1 calls `abort_search` and leaves, thread 0
    acknowledges its node, gets `Aborted` and leaves -/
def cutRun : Sys Int :=
  match cutoffAt (runSched (sv false .lel) (s0 false) schedMid) 1 with
  | some t => runSched (sv false .lel) t [1, 1, 0, 0]
  | none => s0 false

theorem cutRun_reach : PRun (sv false .lel) (s0 false) cutRun := by
  unfold cutRun
  cases h : cutoffAt (runSched (sv false .lel) (s0 false) schedMid) 1 with
  | none => exact RunG.refl _
  | some t => exact prun_trans (RunG.tail (reach false .lel schedMid) (cutoffAt_step h)) (runSched_run _ _ _)

/-- every worker has left, the search is aborted, `best_lb = 4 = best_ub`: the bounds `par_final` gives are attained -/
theorem cutRun_obs : obs cutRun = (([2, 2], true, 0, 0), (4, 4, [none, none])) ∧
    cutRun.crit.base.completion = (false, some 4) := by decide

example : cutRun.crit.base.bestLb ≤ 4 ∧ 4 ≤ cutRun.crit.base.bestUb := by
  have hd : AllDone cutRun := by
    intro w hw
    have h1 : cutRun.ws.map tag = [2, 2] := (Prod.mk.inj (Prod.mk.inj cutRun_obs.1).1).1
    obtain ⟨i, hi⟩ := List.mem_iff_getElem?.mp hw
    have : (cutRun.ws.map tag)[i]? = some (tag w) := by rw [List.getElem?_map, hi]; rfl
    rw [h1] at this
    apply tag_done
    match i, this with
    | 0, h => simpa using h.symm
    | 1, h => simpa using h.symm
    | i + 2, h => simp at h
  have ha : cutRun.crit.base.abort = true := (Prod.mk.inj (Prod.mk.inj (Prod.mk.inj cutRun_obs.1).1).2).1
  obtain ⟨h1, h2, _⟩ := (par_final (wellFormed false .lel) (opt := 4) rfl (primalOk_none _) 2 (by decide) cutRun_reach hd).2.1 ha
  exact ⟨h1, h2⟩

/-- the headline, instantiated with two threads: every reachable state of every interleaving; no infinite run -/
theorem correct (dedup : Bool) (kind : CutsetKind) (t : Sys Int) (ht : PRun (sv dedup kind) (s0 dedup) t) :
    NoCrash t ∧ (¬ AllDone t → ∃ u, PStep (sv dedup kind) t u) ∧
    (∀ i, CompletesAt t i → t.crit.base.bestLb = 4 ∧ t.crit.complete.base.completion = (true, some 4)) ∧
    (AllDone t → t.crit.base.abort = false → t.crit.base.completion = (true, some 4)) ∧
    (AllDone t → t.crit.base.abort = true → t.crit.base.bestLb ≤ 4 ∧ 4 ≤ t.crit.base.bestUb) := by
  obtain ⟨_, ⟨a1, _, a3⟩, hf, _⟩ := (parallel_solver_correct (sv dedup kind) H 2 8 (wellFormed dedup kind) 2 (by decide)).2.2 t ht
  obtain ⟨_, b2, b3, b4, _⟩ := hf 4 rfl
  exact ⟨a1, a3, fun i hc => ⟨(b2 i hc).1, (b2 i hc).2.2.2⟩, fun hd ha => (b3 hd ha).2.2.2,
    fun hd ha => ⟨(b4 hd ha).1, (b4 hd ha).2.1⟩⟩

theorem terminates (dedup : Bool) (kind : CutsetKind) (run : Nat → Sys Int) (h0 : run 0 = s0 dedup) :
    ¬ ∀ k, PStep (sv dedup kind) (run k) (run (k + 1)) :=
  (parallel_solver_correct (sv dedup kind) H 2 8 (wellFormed dedup kind) 2 (by decide)).2.1 run h0

/-- **`U ≥ 1` is necessary** for the statements about the return of `maximize()`: built with `nb_threads = 0` (`custom(.., 0)` /
    `with_nb_threads(0)`: nothing in `parallel.rs` rejects it) no worker is spawned, every worker "has left" in the initial
    state and `maximize()` returns `Completion { is_exact: true, best_value: None }` although the optimum is 4 -/
theorem zero_threads : AllDone (Sys.init prob none false 0) ∧ (Sys.init prob none false 0).crit.base.abort = false ∧
    (Sys.init prob none false 0).crit.base.completion = (true, none) ∧ (H 0 prob.init).addI prob.initVal = some 4 :=
  ⟨fun w hw => by simp [Sys.init] at hw, rfl, rfl, rfl⟩

end Trap2

/-! ## the hypothesis `NvBound` is necessary (as in `Props/C01d.lean`) -/
namespace NoNvBound2
open Ddo.C01.NoNvBound

/-- the model of `C01.NoNvBound.counter` (every hypothesis of `WellFormed` but `NvBound` holds; `nb_variables` is wrong), one
    thread: after `get_workload` and `best_lb()` the worker is about to compile the root (`compR`) and the compilation of the
    diagram model does not end normally — the scheduler is stuck there, the conclusion "some section is enabled without a
    cut-off" of `par_run_to_end` fails.  (See `C01.NoNvBound.counter` for what the Rust code does: it panics on
    `open_by_layer[depth]` / `ongoing_by_layer[depth]`, `vec![0; nb_variables + 1]`, once a cut-set node is deeper than
    `nb_variables`.) -/
theorem stuck :
    (runSched sv (Sys.init sv.P none sv.dedup 1) [0, 0]).ws.map tag = [5] ∧
    (next sv (runSched sv (Sys.init sv.P none sv.dedup 1) [0, 0]) 0).isNone = true := by decide

end NoNvBound2

end Ddo.C03c

#print axioms Ddo.C03c.par_pcinv
#print axioms Ddo.C03c.par_contract_R
#print axioms Ddo.C03c.par_contract_X
#print axioms Ddo.C03c.par_sys_inv
#print axioms Ddo.C03c.par_terminates
#print axioms Ddo.C03c.par_no_infinite_run
#print axioms Ddo.C03c.par_layinv
#print axioms Ddo.C03c.par_no_gwCrash
#print axioms Ddo.C03c.par_notify_defined
#print axioms Ddo.C03c.par_no_panic
#print axioms Ddo.C03c.par_progress
#print axioms Ddo.C03c.par_complete_optimal
#print axioms Ddo.C03c.par_infeasible
#print axioms Ddo.C03c.par_final
#print axioms Ddo.C03c.par_cutoff_bounds
#print axioms Ddo.C03c.parallel_solver_primal
#print axioms Ddo.C03c.parallel_solver_correct
#print axioms Ddo.C03c.par_maximal_allDone
#print axioms Ddo.C03c.par_uninterrupted_correct
#print axioms Ddo.C03c.par_run_to_end
#print axioms Ddo.C03c.parallel_solver_total
#print axioms Ddo.C03c.Trap2.mid_obs
#print axioms Ddo.C03c.Trap2.endA_obs
#print axioms Ddo.C03c.Trap2.complete_run
#print axioms Ddo.C03c.Trap2.endB_obs
#print axioms Ddo.C03c.Trap2.endB_obs'
#print axioms Ddo.C03c.Trap2.cutRun_obs
#print axioms Ddo.C03c.Trap2.zero_threads
#print axioms Ddo.C03c.Trap2.correct
#print axioms Ddo.C03c.Trap2.terminates
#print axioms Ddo.C03c.NoNvBound2.stuck
