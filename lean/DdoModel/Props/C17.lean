import DdoModel.Gap
/-! # C17 — the optimality gap is well defined and zero only at optimality

Theorems about `Ddo.gap`, the model of `Solver::gap` (`ddo/src/abstraction/solver.rs`), for **all**
pairs of bounds `lb ≤ ub`.  The result `frac n d` denotes the real number `n / d`; the property's
clauses are stated on it.  The `f32` roundings are not part of the model (trusted base: `as f32`
and `/` are correctly rounded, hence monotone, map 0 to 0 and non-zero integers to non-zero
values; the driver's `phiGap` evaluates the same clauses on the float the code returns). -/
namespace Ddo.C17

/-- never NaN -/
theorem gap_not_nan (lb ub : Int) : gap lb ub ≠ .nan := by
  unfold gap; split <;> (try split) <;> simp

/-- the denominator is positive: the fraction is a well defined real number -/
theorem gap_den_pos (lb ub n d : Int) (h : gap lb ub = .frac n d) : 0 < d := by
  unfold gap at h
  split at h
  · cases h
  · split at h
    · injection h with _ h2; omega
    · injection h with _ h2; omega

/-- never negative -/
theorem gap_nonneg (lb ub n d : Int) (h : gap lb ub = .frac n d) : 0 ≤ n := by
  unfold gap at h
  split at h
  · cases h
  · split at h
    · injection h with h1 _; omega
    · injection h with h1 _; omega

/-- returns 1 while either bound is still infinite … -/
theorem gap_one_of_infinite (lb ub : Int) (h : ub = iMax ∨ lb = iMin) : gap lb ub = .one := by
  simp [gap, h]

/-- … and only then answers with the sentinel -/
theorem gap_one_iff_infinite (lb ub : Int) : gap lb ub = .one ↔ (ub = iMax ∨ lb = iMin) := by
  constructor
  · intro h; unfold gap at h; split at h
    · assumption
    · split at h <;> cases h
  · exact gap_one_of_infinite lb ub

/-- returns 0 exactly when the (finite) bounds coincide -/
theorem gap_zero_iff_eq (lb ub n d : Int) (h : gap lb ub = .frac n d) : n = 0 ↔ lb = ub := by
  unfold gap at h
  split at h
  · cases h
  · split at h
    · injection h with h1 _; omega
    · injection h with h1 _; omega

/-- at most 1 whenever both bounds have the same sign -/
theorem gap_le_one_same_sign (lb ub n d : Int) (hs : (0 ≤ lb ∧ 0 ≤ ub) ∨ (lb ≤ 0 ∧ ub ≤ 0))
    (h : gap lb ub = .frac n d) : n ≤ d := by
  unfold gap at h
  split at h
  · cases h
  · split at h
    · injection h with h1 h2; omega
    · injection h with h1 h2; omega

/-- every finite pair yields a fraction: together with the clauses above this is the whole property -/
theorem gap_total (lb ub : Int) (h1 : ub ≠ iMax) (h2 : lb ≠ iMin) : ∃ n d, gap lb ub = .frac n d := by
  unfold gap; split
  · rename_i h; rcases h with h | h <;> contradiction
  · split <;> exact ⟨_, _, rfl⟩

/-! non-vacuity: concrete bounds meet the hypotheses -/
example : gap 0 0 = .frac 0 1 := by decide
example : gap (-5) 5 = .frac 10 5 := by decide
example : gap 100 220 = .frac 120 220 := by decide
example : gap (-220) (-100) = .frac 120 220 := by decide

/-! ## The defect this check found in the pinned commit (D1, repaired by a `fix:` commit)
`gapOld` is the formula before the repair; the two clauses it violates, with witnesses. -/
theorem gapOld_nan : gapOld 0 0 = .nan := by decide
theorem gapOld_zero_but_different : gapOld (-5) 5 = .frac 0 5 := by decide

end Ddo.C17
