import DdoModel.Proofs.PooledFix
import DdoModel.Props.C08p
/-! # C08 for the pooled diagram after the repair of D5: clauses (i) and (ii)

`compileP` models the repaired `pooled.rs`: when the frontier contains the root of the diagram, `_drain_cutset` hands out the
children of the root instead (`Proofs/PooledFix.lean`).  For a pooled compilation that ends normally (`.ok`), any cache /
dominance configuration, both results of `compileP`, **long arcs allowed, no structural hypothesis on the model**:

* `cutset_exact_pooled` (i): every sub-problem `c` of the cut-set is reached (`ReachSkip`) at `(c.depth, c.state, c.value)` by
  `p0 ++ q` with `c.path = cfg.root.path ++ q.reverse`.
* **`cutset_progress_pooled` (ii): every sub-problem of the cut-set of a relaxed compilation is strictly deeper than the root
  sub-problem** — a theorem now; for the code before the repair (`compilePOld`) it is refuted by
  `not_cutset_progress_pooled` (`Props/C08p.lean`).  `cutset_progress_pooled_allImpacted` is kept as the special case.

(iii) and (iv): `Ddo.C15.cutset_ub_valid_pooled`, `Ddo.C15.cutset_cover_pooled`. -/
set_option linter.unusedSectionVars false
set_option linter.unusedVariables false
namespace Ddo.C08
open Ddo Ddo.Pooled
variable {S K : Type} [DecidableEq S] [DecidableEq K]

/-- **C08 (i), pooled diagram**: the sub-problems of the cut-set are exact.  `r` is either result of the compilation.
    Hypotheses: `p0` reaches the root sub-problem (`hroot`, with or without skips); no saturation (`hB`). -/
theorem cutset_exact_pooled (cfg : Cfg S K) (B : Int) (p0 : List Dec) (cache : Cache S) (store : DomStore S K)
    (polls : Nat) (stopAt : Option Nat)
    (hroot : ReachSkip cfg.P cfg.root.depth cfg.root.state cfg.root.value p0)
    (hB : NoClamp cfg.P cfg.R cfg.root.value B)
    (hok : (compileP cfg cache store polls stopAt).1 = .ok) (r : Result S)
    (hr : r = (compileP cfg cache store polls stopAt).2.1 ∨ (compileP cfg cache store polls stopAt).2.2.1 = some r) :
    ∀ c ∈ r.cutset, ∃ q, ReachSkip cfg.P c.depth c.state c.value (p0 ++ q) ∧ c.path = cfg.root.path ++ q.reverse :=
  PTruth.cutset_rel_pooled cfg B _ (pathRel_reachSkip cfg.P p0) (by rw [List.append_nil]; exact hroot) hB cache store polls
    stopAt hok r hr

/-- **C08 (ii), pooled diagram — every model, long arcs allowed**: in a relaxed compilation the sub-problems of the cut-set
    are strictly deeper than the root sub-problem. -/
theorem cutset_progress_pooled (cfg : Cfg S K) (B : Int) (p0 : List Dec) (cache : Cache S)
    (store : DomStore S K) (polls : Nat) (stopAt : Option Nat) (hrel : cfg.ctype = .relaxed)
    (hroot : ReachSkip cfg.P cfg.root.depth cfg.root.state cfg.root.value p0)
    (hB : NoClamp cfg.P cfg.R cfg.root.value B)
    (hok : (compileP cfg cache store polls stopAt).1 = .ok) (r : Result S)
    (hr : r = (compileP cfg cache store polls stopAt).2.1 ∨ (compileP cfg cache store polls stopAt).2.2.1 = some r) :
    ∀ c ∈ r.cutset, cfg.root.depth < c.depth :=
  PFix.cutset_progress_pooled cfg B p0 cache store polls stopAt hrel hroot hB hok r hr

/-- C08 (ii) without long arcs: a special case of `cutset_progress_pooled` since the repair of D5 -/
theorem cutset_progress_pooled_allImpacted (cfg : Cfg S K) (B : Int) (p0 : List Dec) (cache : Cache S)
    (store : DomStore S K) (polls : Nat) (stopAt : Option Nat) (hall : AllImpacted cfg.P) (hrel : cfg.ctype = .relaxed)
    (hroot : ReachSkip cfg.P cfg.root.depth cfg.root.state cfg.root.value p0)
    (hB : NoClamp cfg.P cfg.R cfg.root.value B)
    (hok : (compileP cfg cache store polls stopAt).1 = .ok) (r : Result S)
    (hr : r = (compileP cfg cache store polls stopAt).2.1 ∨ (compileP cfg cache store polls stopAt).2.2.1 = some r) :
    ∀ c ∈ r.cutset, cfg.root.depth < c.depth :=
  cutset_progress_pooled cfg B p0 cache store polls stopAt hrel hroot hB hok r hr

/-! ## non-vacuity -/
namespace WitnessP
open Ddo.C13.Witness

/-- an instance without long arcs: the cut-set is the three children of the root, at depth 1 (from the frontier itself) … -/
example : (compileP (cfg .relaxed) (Cache.init 3) (DomStore.init 3) 0 none).2.1.cutset.map
    (fun c => (c.state, c.value, c.depth, c.path.length)) = [(0, 0, 1, 1), (1, 0, 1, 1), (2, 0, 1, 1)] := by decide

/-- … as the theorem says -/
example : ∀ c ∈ (compileP (cfg .relaxed) (Cache.init 3) (DomStore.init 3) 0 none).2.1.cutset, 0 < c.depth :=
  cutset_progress_pooled (cfg .relaxed) 1 [] (Cache.init 3) (DomStore.init 3) 0 none rfl
    ReachSkip.root noClamp (by decide) _ (.inl rfl)

/-- the D5 witness (`Ddo.C07.WitnessP`, long arcs): the old code handed out the root (`not_cutset_progress_pooled`), the
    repaired code hands out its three children (`Ddo.C07.WitnessP.cutset_root_replaced`), all at depth 1 -/
example : ∀ c ∈ (compileP (C07.WitnessP.cfg .relaxed) (Cache.init 3) (DomStore.init 3) 0 none).2.1.cutset, 0 < c.depth :=
  cutset_progress_pooled (C07.WitnessP.cfg .relaxed) 200 [] (Cache.init 3) (DomStore.init 3) 0 none rfl ReachSkip.root
    (C07.WitnessP.noClamp .relaxed) (by decide) _ (.inl rfl)

end WitnessP

end Ddo.C08

#print axioms Ddo.C08.cutset_exact_pooled
#print axioms Ddo.C08.cutset_progress_pooled
#print axioms Ddo.C08.cutset_progress_pooled_allImpacted
