import DdoModel.Proofs.CutRun
/-! # C19 (whole runs) — cutting the sequential search off later never yields worse information

`Props/C05.lean` / `Props/C01b.lean` give the two mechanisms of C19 for **one** turn (`process_lb_mono`: the incumbent never decreases;
`afterPop_ub_le` / `process_ub_eq`: `best_ub` is the running minimum of the popped bounds — written by a minimum at the pop, never by
`process_one_node`; since the repair of finding D14 cut-set nodes are no longer capped by the bound of their parent, so the bounds of
the popped nodes themselves may rise, `Ddo.C09.Layered.Rise`, and the pre-fix mechanism "whatever is open stays below the node in hand" is gone).  Here
the property is decided as a theorem about **whole runs** of the closed solver of `Props/C01d.lean` (sequential solver over the diagram
model `DdoModel/Mdd.lean`, `EmptyCache`, no dominance checker, either fringe, either cut-set kind), as a function of the poll index `k`
at which the cutoff fires (`compile … (stopAt := some k)`, polls counted across compilations).  **The property holds.**

1. `SolverCfg.solveCut sv k n (s, p)` (`Proofs/CutRun.lean`): the loop of `maximize` as a function of the fuel `n`, like
   `C01.SolverCfg.solveLoop`, the poll counter `p` threaded through every compilation that is started, `stopAt := k` in both
   compilations; a cut-off compilation makes `process_one_node` call `abort_search` (fringe emptied: the loop stops).  `finish` = what
   `maximize` leaves behind (`best_ub := best_lb` unless aborted).  **`solveCut_none`**: without cutoff, for a well-formed model,
   `solveCut` *is* `solveLoop` (whatever the poll counter: `compile_polls_irrel`), hence a run of `CStep` (`solveCut_none_run`).
2. **`cut_run_is_prefix`** (no hypothesis on the model; diagram level: `buildLoop_prefix`, `buildLoop_prefix_trace`, `compile_prefix`;
   turn level: `cutTurn_closed`, `cut_poll_location`): the run cut at poll `k` makes exactly the turns of the uninterrupted run
   (`SameTurns`: same popped nodes, same states — incumbent, solution, fringe, bookkeeping —, same polls) until the turn into which the
   `k`-th poll falls; there the compilation concerned answers `cutoff` where the uninterrupted one goes on, and the run ends in
   `abortAt`: `best_lb` = the incumbent of the uninterrupted run at that moment (after the update by the restricted diagram iff the
   poll falls into the relaxed compilation), `best_ub` = the running minimum of the bounds popped so far, the node in hand included
   (`abortAt_report`).  If the uninterrupted run
   makes fewer than `k` polls the two runs coincide.
3. **`cut_bounds_monotone`**: well-formed model, `1 ≤ k ≤ k'`: `best_lb(k) ≤ best_lb(k')` and `best_ub(k') ≤ best_ub(k)`
   (`cut_pair_mono`, from any common state; `later_report`: whatever is reported later is within `[incumbent, reported bound]`), a run
   that ends before its cutoff fires reporting `(opt, opt)` — which is below every earlier report because the running minimum is sound
   (`RepInv`, `init_repInv`, `uturn_repInv`: the bound of a popped node that is not pruned is `≥ opt`, so is the minimum of such
   bounds; once a popped maximum is pruned nothing open beats the incumbent any more and no cutoff can fire).
   `cut_bounds_bracket`: `best_lb(k) ≤ opt ≤ best_ub(k)`.
4. **`eventually_exact`**: well-formed model: with `K` = the number of polls of the uninterrupted run, for every `k > K` the cut run *is*
   the uninterrupted run (`solveCut_eq_of_lt`): `Completion { is_exact: true, best_value: Some(opt) }` with a feasible solution
   (`None` iff infeasible), `best_lb = best_ub = opt`.  `c19_sequential`: everything in one statement.
5. non-vacuity: `TrapCut` — the trap model of `Props/C01d.lean` (3 turns, 8 polls): the table `(best_lb, best_ub, is_exact, polls)` for
   `k = 1 … 9` by `decide`, both fringes / cut-set kinds; it is monotone and ends exact; the theorems instantiated on it.

## hypotheses

`WellFormed sv H B0 B` of `Props/C01d.lean` (needed: the runs end, no compilation panics, and `best_lb ≤ opt ≤` bound of a node that is
not pruned, to compare a cut run with a run that ends normally).  The structural part (1. except `solveCut_none`, 2.) needs nothing.
`k ≥ 1` (polls are numbered from 1).

## remarks

* `abort_search` leaves `best_ub` as the pop wrote it (the running minimum), whichever of the two compilations is cut off: no difference
  between the restricted and the relaxed compilation of the same node; the duplicate-free fringe coalesces bounds with `max`, which can
  only raise the bound of an open node — harmless for the reported bound, which is a minimum over *popped* bounds.  No counter-example.
* Inside the loop `best_ub` is transiently *below* the optimum: a popped node that is pruned (`ub ≤ best_lb`) still lowers
  `best_ub` to its bound (`TrapCut.transient_ub`: `best_ub = 3 < 4 = best_lb` after the third pop).  No cutoff can observe it in the sequential
  solver — a pruned node starts no compilation, hence no poll — and `get_workload` repairs it (`best_ub := best_lb`) when it finds
  the fringe empty.
* panics: `solveCut` stops when a compilation *that was started* does not end (`cutCrash`), `solveLoop` when either modelled compilation
  does not, started or not; for a well-formed model neither happens (`uturn_facts`), which is why `solveCut_none` assumes it. -/
set_option linter.unusedSectionVars false
set_option linter.unusedVariables false
namespace Ddo.C19
open Ddo Ddo.Truth Ddo.Closed Ddo.C01
variable {S : Type} [DecidableEq S]

/-! ## 1. the uninterrupted run -/

/-- without cutoff and without panic a turn of `solveCut` is the turn of `C01.SolverCfg.turn` (whatever poll counts the latter is
    given: `compile_polls_irrel`) -/
theorem cutTurn_none_fst (sv : SolverCfg S) (st : SeqSt S) (N : SubP S) (p q q' : Nat)
    (hR : (sv.cR none st N p).1 = .ok) (hX : (sv.cX none st N p).1 = .ok) :
    (sv.cutTurn none st N p).1 =
      sv.turn st N (Cache.init sv.P.nbVars) (Cache.init sv.P.nbVars) (DomStore.init sv.P.nbVars) (DomStore.init sv.P.nbVars) q q' := by
  have e1 : toOut (sv.cR none st N p).2.1 = toOut (sv.resR (Cache.init sv.P.nbVars) (DomStore.init sv.P.nbVars) q N st.bestLb) :=
    (compile_polls_irrel _ _ _ p q).2
  have e2 : toOut (sv.cX none st N p).2.1 =
      toOut (sv.resX (Cache.init sv.P.nbVars) (DomStore.init sv.P.nbVars) q' N
        (sv.lb1 st N (Cache.init sv.P.nbVars) (DomStore.init sv.P.nbVars) q)) := by
    unfold SolverCfg.cX SolverCfg.lb1
    rw [e1]
    exact (compile_polls_irrel _ _ _ _ q').2
  unfold SolverCfg.cutTurn SolverCfg.turn
  rw [resOf_ok _ hR, resOf_ok _ hX, e1, e2]

theorem cutCrash_none_false (sv : SolverCfg S) (st : SeqSt S) (N : SubP S) (p : Nat)
    (hR : (sv.cR none st N p).1 = .ok) (hX : (sv.cX none st N p).1 = .ok) : sv.cutCrash none st N p = false := by
  unfold SolverCfg.cutCrash
  rw [hR, hX]
  simp

/-- the optimum as an integer (`isize::MIN` for an infeasible problem): what an uninterrupted run reports in `best_lb` -/
def optV (sv : SolverCfg S) (H : Nat → S → EInt) : Int := ((H 0 sv.P.init).addI sv.P.initVal).getD iMin

theorem cinv_lb_le_optV {sv : SolverCfg S} {H : Nat → S → EInt} {open_ : List (SubP S)} {lb : Int} {sol : Option (List Dec)}
    {abort : Bool} (hI : CInvAt sv H open_ lb sol abort) : lb ≤ optV sv H := by
  unfold optV
  cases hopt : (H 0 sv.P.init).addI sv.P.initVal with
  | none => rw [(hI.infeas hopt).1]; exact Int.le_refl _
  | some opt => exact (hI.feas opt hopt).lbOk

/-- everything the proofs below need about one turn of the uninterrupted run of a well-formed model from a state that satisfies the
    loop invariant -/
theorem uturn_facts {sv : SolverCfg S} {H : Nat → S → EInt} {B0 B : Int} (hwf : WellFormed sv H B0 B) {s : SeqSt S}
    (hI : CInv sv H s) {N : SubP S} {rest : List (SubP S)} (hpop : popMax s.fringe = some (N, rest)) (p : Nat) :
    (sv.cR none (sv.pop s N rest) N p).1 = .ok ∧ (sv.cX none (sv.pop s N rest) N p).1 = .ok ∧
    sv.cutCrash none (sv.pop s N rest) N p = false ∧
    CInv sv H (sv.cutTurn none (sv.pop s N rest) N p).1 ∧
    (sv.cutTurn none (sv.pop s N rest) N p).1.bestUb = (sv.pop s N rest).bestUb ∧
    N ∈ s.fringe ∧ N.depth ≤ sv.P.nbVars ∧ (sv.pop s N rest).bestLb = s.bestLb ∧
    (sv.pop s N rest).bestUb = min s.bestUb N.ub ∧
    (sv.pop s N rest).bestLb ≤ (sv.cutTurn none (sv.pop s N rest) N p).1.bestLb ∧
    (¬ N.ub ≤ (sv.pop s N rest).bestLb → optV sv H ≤ N.ub ∧
      ((sv.pop s N rest).updateBest (toOut (sv.cR none (sv.pop s N rest) N p).2.1)).bestLb ≤
        (sv.cutTurn none (sv.pop s N rest) N p).1.bestLb) := by
  obtain ⟨hperm, hmax⟩ := popMax_spec s.fringe N rest hpop
  have hmem : N ∈ s.fringe := hperm.mem_iff.mpr List.mem_cons_self
  obtain ⟨p0, hroot, _⟩ := hI.nodes N hmem
  have hd := reach_depth_le hwf.nv hroot
  have hR : (sv.cR none (sv.pop s N rest) N p).1 = .ok := compile_no_crash _ _ _ p rfl rfl (hwf.width N) hwf.nv hd
  have hX : (sv.cX none (sv.pop s N rest) N p).1 = .ok := compile_no_crash _ _ _ _ rfl rfl (hwf.width N) hwf.nv hd
  have hIp := popped_cinv (sv := sv) (H := H) N rest (cleanLoop sv.P.nbVars s.openByLayer sv.P.nbVars s.firstActive) hperm hI
  have hturn := cutTurn_none_fst sv (sv.pop s N rest) N p 0 0 hR hX
  have hokR0 : sv.outR (Cache.init sv.P.nbVars) (DomStore.init sv.P.nbVars) 0 N (sv.pop s N rest).bestLb = .ok :=
    compile_no_crash _ _ _ 0 rfl rfl (hwf.width N) hwf.nv hd
  have hokX0 : sv.outX (Cache.init sv.P.nbVars) (DomStore.init sv.P.nbVars) 0 N
      (sv.lb1 (sv.pop s N rest) N (Cache.init sv.P.nbVars) (DomStore.init sv.P.nbVars) 0) = .ok :=
    compile_no_crash _ _ _ 0 rfl rfl (hwf.width N) hwf.nv hd
  have hfr : (sv.pop s N rest).fringe = rest := C01t.afterPop_fringe _ N
  have hlb : (sv.pop s N rest).bestLb = s.bestLb := (C01t.afterPop_lb_sol _ N).1
  have hub : (sv.pop s N rest).bestUb = min s.bestUb N.ub := by
    unfold SolverCfg.pop popped SeqSt.afterPop
    split <;> rfl
  have hbelow : C05.Below (sv.pop s N rest).fringe N := by
    rw [hfr]; intro c hc; have := hmax c hc; omega
  have hcut : (sv.cutTurn none (sv.pop s N rest) N p).1 =
      ((sv.pop s N rest).process sv.dedup N true (resOf (sv.cR none (sv.pop s N rest) N p))
        (resOf (sv.cX none (sv.pop s N rest) N p))).1 := rfl
  refine ⟨hR, hX, cutCrash_none_false sv _ N p hR hX, ?_, ?_, hmem, hd, hlb, hub, ?_, ?_⟩
  · rw [hturn]
    exact turn_cinv hwf _ N _ _ _ _ 0 0 hIp hokR0 hokX0
  · rw [hcut]
    exact C05.process_ub_eq sv.dedup _ N true _ _
  · rw [hcut]
    exact C05.process_lb_mono sv.dedup _ N true _ _
  · intro hnp
    constructor
    · -- the optimum is below the bound of a node that is not pruned
      unfold optV
      cases hopt : (H 0 sv.P.init).addI sv.P.initVal with
      | none =>
        have h1 : (sv.pop s N rest).bestLb = iMin := (hIp.infeas hopt).1
        rw [h1] at hnp
        show iMin ≤ N.ub
        omega
      | some opt =>
        have h1 : (sv.pop s N rest).bestLb ≤ N.ub := by omega
        exact (C05.bounds_at_pop (optOf H) opt (SolOf sv.P) _ _ _ N (hIp.feas opt hopt) hbelow h1).2
    · rw [hcut, resOf_ok _ hR]
      generalize resOf (sv.cX none (sv.pop s N rest) N p) = x
      generalize toOut (sv.cR none (sv.pop s N rest) N p).2.1 = r
      by_cases hex : r.isExact = true
      · rw [process_exactR _ _ _ _ _ hnp hex]; exact Int.le_refl _
      · have hex' : r.isExact = false := by
          cases h : r.isExact with
          | true => exact absurd h hex
          | false => rfl
        cases x with
        | cutoff => rw [process_cutX _ _ _ _ hnp hex']; exact Int.le_refl _
        | ok x =>
          unfold SeqSt.process
          rw [if_neg hnp]
          simp only [Bool.not_true, Bool.false_eq_true, if_false, hex']
          split
          · exact updateBest_lb_ge _ x
          · have enq : ∀ (s : SeqSt S) cs, (s.enqueue sv.dedup cs).bestLb = s.bestLb := by
              intro s cs
              rw [enqueue_eq_foldl]
              induction cs generalizing s with
              | nil => rfl
              | cons c cs ih =>
                simp only [List.foldl_cons]; rw [ih]
                unfold enqOne; simp only
                split
                · split <;> rfl
                · rfl
            rw [enq]; exact updateBest_lb_ge _ x

theorem abortAt_facts (sv : SolverCfg S) (st : SeqSt S) (N : SubP S) (p k : Nat) :
    (sv.abortAt st N p k).fringe = [] ∧ (sv.abortAt st N p k).abort = true ∧ (sv.abortAt st N p k).bestUb = st.bestUb ∧
    st.bestLb ≤ (sv.abortAt st N p k).bestLb ∧
    (sv.abortAt st N p k).bestLb ≤ (st.updateBest (toOut (sv.cR none st N p).2.1)).bestLb ∧
    (k ≤ (sv.cR none st N p).2.1.polls → (sv.abortAt st N p k).bestLb = st.bestLb) ∧
    (¬ k ≤ (sv.cR none st N p).2.1.polls →
      (sv.abortAt st N p k).bestLb = (st.updateBest (toOut (sv.cR none st N p).2.1)).bestLb) ∧
    finish (sv.abortAt st N p k) = sv.abortAt st N p k := by
  have h := updateBest_lb_ge st (toOut (sv.cR none st N p).2.1)
  have hf := (updateBest_fringe st (toOut (sv.cR none st N p).2.1)).2.1
  by_cases hk : k ≤ (sv.cR none st N p).2.1.polls
  · have e : sv.abortAt st N p k = st.abortSearch := by unfold SolverCfg.abortAt; rw [if_pos hk]
    rw [e]
    exact ⟨rfl, rfl, rfl, Int.le_refl _, h, fun _ => rfl, fun h' => absurd hk h', rfl⟩
  · have e : sv.abortAt st N p k = (st.updateBest (toOut (sv.cR none st N p).2.1)).abortSearch := by
      unfold SolverCfg.abortAt; rw [if_neg hk]
    rw [e]
    exact ⟨rfl, rfl, hf, h, Int.le_refl _, fun h' => absurd h' hk, fun _ => rfl, rfl⟩

theorem finish_of_cinv {sv : SolverCfg S} {H : Nat → S → EInt} {s : SeqSt S} (hI : CInv sv H s) :
    (finish s).bestLb = s.bestLb ∧ (finish s).bestUb = s.bestLb ∧ (finish s).completion = s.completion ∧
    (finish s).bestSol = s.bestSol := by
  have : s.abort = false := hI.noAbort
  unfold finish
  rw [this]
  exact ⟨rfl, rfl, rfl, rfl⟩

/-- **`solveCut_none`**: for a well-formed model, from a state that satisfies the loop invariant (in particular from `initialize`),
    `solveCut` without cutoff *is* the uninterrupted loop `C01.SolverCfg.solveLoop` — whatever the poll counter it is started with -/
theorem solveCut_none {sv : SolverCfg S} {H : Nat → S → EInt} {B0 B : Int} (hwf : WellFormed sv H B0 B) :
    ∀ (n : Nat) (sp : SeqSt S × Nat), CInv sv H sp.1 → (sv.solveCut none n sp).1 = sv.solveLoop n sp.1 := by
  intro n
  induction n with
  | zero => intro sp _; rfl
  | succ n ih =>
    intro sp hI
    cases hp : popMax sp.1.fringe with
    | none =>
      rw [solveCut_nil sv none _ sp (popMax_none _ hp), SolverCfg.solveLoop]
      simp only [hp]
    | some Nr =>
      obtain ⟨N, rest⟩ := Nr
      obtain ⟨hR, hX, hcr, hI', _, _, hd, _⟩ := uturn_facts hwf hI hp sp.2
      have hokR0 : sv.outR (Cache.init sv.P.nbVars) (DomStore.init sv.P.nbVars) 0 N (sv.pop sp.1 N rest).bestLb = .ok :=
        compile_no_crash _ _ _ 0 rfl rfl (hwf.width N) hwf.nv hd
      have hokX0 : sv.outX (Cache.init sv.P.nbVars) (DomStore.init sv.P.nbVars) 0 N
          (sv.lb1 (sv.pop sp.1 N rest) N (Cache.init sv.P.nbVars) (DomStore.init sv.P.nbVars) 0) = .ok :=
        compile_no_crash _ _ _ 0 rfl rfl (hwf.width N) hwf.nv hd
      rw [solveCut_succ sv none n sp N rest hp, hcr, SolverCfg.solveLoop]
      simp only [hp, Bool.false_eq_true, if_false]
      rw [if_pos ⟨hokR0, hokX0⟩, ih _ hI', cutTurn_none_fst sv _ N sp.2 0 0 hR hX]
      rfl

/-- … hence a run of the concrete step relation `CStep` of `Props/C01d.lean`: every theorem about `CRun` applies to it -/
theorem solveCut_none_run {sv : SolverCfg S} {H : Nat → S → EInt} {B0 B : Int} (hwf : WellFormed sv H B0 B) (n : Nat)
    (sp : SeqSt S × Nat) (hI : CInv sv H sp.1) : CRun sv sp.1 (sv.solveCut none n sp).1 := by
  rw [solveCut_none hwf n sp hI]
  exact solveLoop_run sv n sp.1

/-- **what the cut run reports** when the `k`-th poll falls into the turn of `N` popped from `s`: `best_ub` = the running minimum of
    the bounds popped so far, the node in hand included; `best_lb` = the incumbent before the turn if the poll falls into the restricted compilation, the incumbent after
    `maybe_update_best` on the restricted diagram if it falls into the relaxed one; `is_exact = false` -/
theorem abortAt_report (sv : SolverCfg S) (s : SeqSt S) (N : SubP S) (rest : List (SubP S)) (p k : Nat) :
    (finish (sv.abortAt (sv.pop s N rest) N p k)).bestUb = min s.bestUb N.ub ∧
    (finish (sv.abortAt (sv.pop s N rest) N p k)).bestLb =
      (if k ≤ (sv.cR none (sv.pop s N rest) N p).2.1.polls then s.bestLb
       else ((sv.pop s N rest).updateBest (toOut (sv.cR none (sv.pop s N rest) N p).2.1)).bestLb) ∧
    (finish (sv.abortAt (sv.pop s N rest) N p k)).completion.1 = false := by
  obtain ⟨_, a2, a3, _, _, a6, a7, a8⟩ := abortAt_facts sv (sv.pop s N rest) N p k
  have hlb : (sv.pop s N rest).bestLb = s.bestLb := (C01t.afterPop_lb_sol _ N).1
  have hub : (sv.pop s N rest).bestUb = min s.bestUb N.ub := by
    unfold SolverCfg.pop popped SeqSt.afterPop
    split <;> rfl
  rw [a8, a3, hub]
  refine ⟨rfl, ?_, by simp [SeqSt.completion, a2]⟩
  by_cases hk : k ≤ (sv.cR none (sv.pop s N rest) N p).2.1.polls
  · rw [if_pos hk, a6 hk, hlb]
  · rw [if_neg hk, a7 hk]

/-! ## 2. the prefix lemma -/

/-- `j` complete turns during which the run cut at poll `k` and the uninterrupted run do exactly the same thing: the same node is
    popped, neither panics, `process_one_node` leaves the same state (incumbent, solution, fringe, bookkeeping) and the same poll
    count -/
inductive SameTurns (sv : SolverCfg S) (k : Nat) : Nat → SeqSt S × Nat → SeqSt S × Nat → Prop
  | zero (sp : SeqSt S × Nat) : SameTurns sv k 0 sp sp
  | succ (j : Nat) (sp tp : SeqSt S × Nat) (N : SubP S) (rest : List (SubP S)) :
      popMax sp.1.fringe = some (N, rest) →
      sv.cutCrash none (sv.pop sp.1 N rest) N sp.2 = false → sv.cutCrash (some k) (sv.pop sp.1 N rest) N sp.2 = false →
      sv.cutTurn (some k) (sv.pop sp.1 N rest) N sp.2 = sv.cutTurn none (sv.pop sp.1 N rest) N sp.2 →
      SameTurns sv k j (sv.cutTurn none (sv.pop sp.1 N rest) N sp.2) tp → SameTurns sv k (j + 1) sp tp

/-- after `j` common turns both loops are where the common turns lead -/
theorem SameTurns.solveCut {sv : SolverCfg S} {k j : Nat} {sp tp : SeqSt S × Nat} (h : SameTurns sv k j sp tp) (m : Nat) :
    sv.solveCut none (j + m) sp = sv.solveCut none m tp ∧ sv.solveCut (some k) (j + m) sp = sv.solveCut (some k) m tp := by
  induction h with
  | zero sp => rw [Nat.zero_add]; exact ⟨rfl, rfl⟩
  | succ j sp tp N rest hp hc1 hc2 ht _ ih =>
    have e : j + 1 + m = (j + m) + 1 := by omega
    rw [e, solveCut_succ sv none _ sp N rest hp, solveCut_succ sv (some k) _ sp N rest hp, hc1, hc2, ht]
    exact ih

/-- **`cut_run_is_prefix`** (no hypothesis on the model): the run cut at poll `k`, started with fewer than `k` polls, with fuel `n`.
    * Either the uninterrupted run with the same fuel makes fewer than `k` polls: then the two runs coincide;
    * or there are `j < n` common turns (`SameTurns`: same popped nodes, same incumbents, same fringes, same polls, still `< k`)
      leading to a state `up` from which the next node `N` is popped and the `k`-th poll falls into the turn of `N` (the uninterrupted
      turn ends with `≥ k` polls): the cut run then ends in `abortAt` — `abort_search` on the popped state, after the incumbent
      update by the restricted diagram if the poll falls into the relaxed compilation — with exactly `k` polls. -/
theorem cut_run_is_prefix (sv : SolverCfg S) (k : Nat) :
    ∀ (n : Nat) (sp : SeqSt S × Nat), sp.2 < k →
      ((sv.solveCut none n sp).2 < k ∧ sv.solveCut (some k) n sp = sv.solveCut none n sp) ∨
      (∃ (j : Nat) (up : SeqSt S × Nat) (N : SubP S) (rest : List (SubP S)), j < n ∧ SameTurns sv k j sp up ∧ up.2 < k ∧
        popMax up.1.fringe = some (N, rest) ∧ ¬ N.ub ≤ (sv.pop up.1 N rest).bestLb ∧
        k ≤ (sv.cutTurn none (sv.pop up.1 N rest) N up.2).2 ∧
        sv.solveCut (some k) n sp = (sv.abortAt (sv.pop up.1 N rest) N up.2 k, k)) := by
  intro n
  induction n with
  | zero => intro sp h; exact Or.inl ⟨h, rfl⟩
  | succ n ih =>
    intro sp h
    cases hp : popMax sp.1.fringe with
    | none =>
      have := popMax_none _ hp
      rw [solveCut_nil sv _ _ sp this, solveCut_nil sv _ _ sp this]
      exact Or.inl ⟨h, rfl⟩
    | some Nr =>
      obtain ⟨N, rest⟩ := Nr
      obtain ⟨c1, c2⟩ := cutTurn_closed sv (sv.pop sp.1 N rest) N sp.2 k h
      by_cases hlt : (sv.cutTurn none (sv.pop sp.1 N rest) N sp.2).2 < k
      · obtain ⟨e1, e2⟩ := c1 hlt
        rw [solveCut_succ sv none n sp N rest hp, solveCut_succ sv (some k) n sp N rest hp, e1, e2]
        by_cases hc : sv.cutCrash none (sv.pop sp.1 N rest) N sp.2 = true
        · rw [if_pos hc, if_pos hc]
          exact Or.inl ⟨hlt, rfl⟩
        · rw [if_neg hc, if_neg hc]
          have hc' : sv.cutCrash none (sv.pop sp.1 N rest) N sp.2 = false := by
            cases h' : sv.cutCrash none (sv.pop sp.1 N rest) N sp.2 with
            | true => exact absurd h' hc
            | false => rfl
          rcases ih _ hlt with hh | ⟨j, up, M, rest', hj, hs, hup, hpm, hnp, hk, he⟩
          · exact Or.inl hh
          · exact Or.inr ⟨j + 1, up, M, rest', by omega,
              SameTurns.succ j sp up N rest hp hc' (by rw [e2]; exact hc') e1 hs, hup, hpm, hnp, hk, he⟩
      · obtain ⟨e1, e2, hnp⟩ := c2 (by omega)
        refine Or.inr ⟨0, sp, N, rest, by omega, SameTurns.zero sp, h, hp, hnp, by omega, ?_⟩
        rw [solveCut_succ sv (some k) n sp N rest hp, e1, e2]
        simp only [Bool.false_eq_true, if_false]
        exact solveCut_nil sv _ _ _ (abortAt_facts sv _ N sp.2 k).1

/-! ## 3. monotonicity -/

/-- **the reported pair is sound along the uninterrupted run**: either `best_lb ≤ best_ub` and the optimum is `≤ best_ub` (the running
    minimum of the bounds popped so far), or the search is over in all but name: nothing left in the fringe beats the incumbent (every
    further pop is pruned, no compilation is started, no cutoff can fire; this is the phase in which `best_ub` is transiently below
    `best_lb`, `TrapCut.transient_ub`) -/
def RepInv (sv : SolverCfg S) (H : Nat → S → EInt) (s : SeqSt S) : Prop :=
  (s.bestLb ≤ s.bestUb ∧ optV sv H ≤ s.bestUb) ∨ (∀ c ∈ s.fringe, c.ub ≤ s.bestLb)

/-- `RepInv` holds after `initialize`: `best_ub = isize::MAX` -/
theorem init_repInv {sv : SolverCfg S} {H : Nat → S → EInt} {B0 B : Int} (hwf : WellFormed sv H B0 B) :
    RepInv sv H (SeqSt.init sv.P none sv.dedup) := by
  have hI : CInv sv H (SeqSt.init sv.P none sv.dedup) := init_cinv hwf
  have hfr : (SeqSt.init sv.P none sv.dedup).fringe = [⟨sv.P.init, sv.P.initVal, [], iMax, 0⟩] := by
    cases sv.dedup <;> rfl
  have hlb : (SeqSt.init sv.P none sv.dedup).bestLb = iMin := rfl
  have hub : (SeqSt.init sv.P none sv.dedup).bestUb = iMax := rfl
  left
  rw [hlb, hub]
  refine ⟨by decide, ?_⟩
  unfold optV
  cases hopt : (H 0 sv.P.init).addI sv.P.initVal with
  | none => show iMin ≤ iMax; decide
  | some opt =>
    show opt ≤ iMax
    have hinv := hI.feas opt hopt
    by_cases hgt : opt > (SeqSt.init sv.P none sv.dedup).bestLb
    · obtain ⟨c, hc, _, hcu⟩ := hinv.cover hgt
      rw [hfr] at hc
      rcases List.mem_cons.mp hc with e | e
      · subst e; exact hcu
      · cases e
    · rw [hlb] at hgt
      have : iMin ≤ iMax := by decide
      omega

/-- **`RepInv` is preserved by every turn of the uninterrupted run** (best-first pop; the bound of a popped node that is not pruned is
    `≥` the optimum, `uturn_facts`; a pruned maximum means that nothing open beats the incumbent any more) -/
theorem uturn_repInv {sv : SolverCfg S} {H : Nat → S → EInt} {B0 B : Int} (hwf : WellFormed sv H B0 B) {s : SeqSt S}
    (hI : CInv sv H s) (hR : RepInv sv H s) {N : SubP S} {rest : List (SubP S)} (hpop : popMax s.fringe = some (N, rest)) (p : Nat) :
    RepInv sv H (sv.cutTurn none (sv.pop s N rest) N p).1 ∧
    (¬ N.ub ≤ (sv.pop s N rest).bestLb →
      (sv.pop s N rest).bestLb ≤ (sv.pop s N rest).bestUb ∧ optV sv H ≤ (sv.pop s N rest).bestUb) := by
  obtain ⟨hperm, hmax⟩ := popMax_spec s.fringe N rest hpop
  obtain ⟨_, _, _, hI', hubeq, hmem, _, hlb, hub, hmono, hnp⟩ := uturn_facts hwf hI hpop p
  have hfr : (sv.pop s N rest).fringe = rest := C01t.afterPop_fringe _ N
  have hcut : (sv.cutTurn none (sv.pop s N rest) N p).1 =
      ((sv.pop s N rest).process sv.dedup N true (resOf (sv.cR none (sv.pop s N rest) N p))
        (resOf (sv.cX none (sv.pop s N rest) N p))).1 := rfl
  have hrestmem : ∀ c ∈ rest, c ∈ s.fringe := fun c hc => hperm.mem_iff.mpr (List.mem_cons_of_mem _ hc)
  have hpr : N.ub ≤ (sv.pop s N rest).bestLb → RepInv sv H (sv.cutTurn none (sv.pop s N rest) N p).1 := by
    intro hle
    right
    rw [hcut, process_pruned _ _ _ _ _ hle]
    show ∀ c ∈ (sv.pop s N rest).fringe, c.ub ≤ (sv.pop s N rest).bestLb
    rw [hfr]
    intro c hc
    have := hmax c hc
    omega
  have hgood : ¬ N.ub ≤ (sv.pop s N rest).bestLb →
      (sv.pop s N rest).bestLb ≤ (sv.pop s N rest).bestUb ∧ optV sv H ≤ (sv.pop s N rest).bestUb := by
    intro hn
    obtain ⟨ho, _⟩ := hnp hn
    rcases hR with ⟨h1, h2⟩ | h
    · rw [hub, hlb]
      rw [hlb] at hn
      omega
    · have := h N hmem
      rw [hlb] at hn
      omega
  refine ⟨?_, hgood⟩
  by_cases hle : N.ub ≤ (sv.pop s N rest).bestLb
  · exact hpr hle
  · obtain ⟨_, h2⟩ := hgood hle
    left
    have := cinv_lb_le_optV hI'
    rw [hubeq]
    omega

/-- whatever a cut run reports later is at least as good: from a state `sp` of a well-formed model that satisfies the loop invariant,
    whose reported upper bound is `≤ u` with `optV ≤ u`, a run cut at any later poll `k` that has ended reports a lower bound `≥` the
    incumbent of `sp` and an upper bound `≤ u` (`best_ub` is only ever written by a minimum at a pop, or by `best_ub := best_lb ≤ optV`
    at the end) -/
theorem later_report {sv : SolverCfg S} {H : Nat → S → EInt} {B0 B : Int} (hwf : WellFormed sv H B0 B) (k : Nat) (u : Int)
    (hu : optV sv H ≤ u) :
    ∀ (n : Nat) (sp : SeqSt S × Nat), CInv sv H sp.1 → sp.2 < k → sp.1.bestUb ≤ u →
      (sv.solveCut (some k) n sp).1.fringe = [] →
      sp.1.bestLb ≤ (finish (sv.solveCut (some k) n sp).1).bestLb ∧ (finish (sv.solveCut (some k) n sp).1).bestUb ≤ u := by
  have base : ∀ sp : SeqSt S × Nat, CInv sv H sp.1 →
      sp.1.bestLb ≤ (finish sp.1).bestLb ∧ (finish sp.1).bestUb ≤ u := by
    intro sp hI
    obtain ⟨f1, f2, _, _⟩ := finish_of_cinv hI
    have := cinv_lb_le_optV hI
    rw [f1, f2]
    exact ⟨Int.le_refl _, by omega⟩
  intro n
  induction n with
  | zero => intro sp hI _ _ _; exact base sp hI
  | succ n ih =>
    intro sp hI hp hfr hend
    cases hpm : popMax sp.1.fringe with
    | none => rw [solveCut_nil sv _ _ sp (popMax_none _ hpm)]; exact base sp hI
    | some Nr =>
      obtain ⟨N, rest⟩ := Nr
      obtain ⟨_, _, hcr, hI', hubeq, hmem, _, hlb, hub, hmono, _⟩ := uturn_facts hwf hI hpm sp.2
      obtain ⟨c1, c2⟩ := cutTurn_closed sv (sv.pop sp.1 N rest) N sp.2 k hp
      have hNu : (sv.pop sp.1 N rest).bestUb ≤ u := by rw [hub]; omega
      rw [solveCut_succ sv (some k) n sp N rest hpm] at hend ⊢
      by_cases hlt : (sv.cutTurn none (sv.pop sp.1 N rest) N sp.2).2 < k
      · obtain ⟨e1, e2⟩ := c1 hlt
        rw [e1, e2, hcr] at hend ⊢
        simp only [Bool.false_eq_true, if_false] at hend ⊢
        obtain ⟨h1, h2⟩ := ih _ hI' hlt (by rw [hubeq]; exact hNu) hend
        exact ⟨by omega, h2⟩
      · obtain ⟨e1, e2, _⟩ := c2 (by omega)
        obtain ⟨a1, _, a3, a4, _, _, _, a8⟩ := abortAt_facts sv (sv.pop sp.1 N rest) N sp.2 k
        rw [e1, e2]
        simp only [Bool.false_eq_true, if_false]
        rw [solveCut_nil sv _ _ _ a1]
        show sp.1.bestLb ≤ (finish (sv.abortAt (sv.pop sp.1 N rest) N sp.2 k)).bestLb ∧
          (finish (sv.abortAt (sv.pop sp.1 N rest) N sp.2 k)).bestUb ≤ u
        rw [a8, a3]
        exact ⟨by omega, hNu⟩

/-- **monotonicity, from a common state**: two runs of a well-formed model from the same state (loop invariant, sound reported pair,
    fewer than `k` polls), cut at the polls `k ≤ k'`, both ended: the later cut reports a lower bound at least as large and an upper
    bound at most as large -/
theorem cut_pair_mono {sv : SolverCfg S} {H : Nat → S → EInt} {B0 B : Int} (hwf : WellFormed sv H B0 B) (k k' : Nat)
    (hkk : k ≤ k') :
    ∀ (n n' : Nat) (sp : SeqSt S × Nat), CInv sv H sp.1 → RepInv sv H sp.1 → sp.2 < k →
      (sv.solveCut (some k) n sp).1.fringe = [] → (sv.solveCut (some k') n' sp).1.fringe = [] →
      (finish (sv.solveCut (some k) n sp).1).bestLb ≤ (finish (sv.solveCut (some k') n' sp).1).bestLb ∧
      (finish (sv.solveCut (some k') n' sp).1).bestUb ≤ (finish (sv.solveCut (some k) n sp).1).bestUb := by
  have same : ∀ (n n' : Nat) (sp : SeqSt S × Nat), sp.1.fringe = [] →
      (finish (sv.solveCut (some k) n sp).1).bestLb ≤ (finish (sv.solveCut (some k') n' sp).1).bestLb ∧
      (finish (sv.solveCut (some k') n' sp).1).bestUb ≤ (finish (sv.solveCut (some k) n sp).1).bestUb := by
    intro n n' sp h
    rw [solveCut_nil sv _ _ sp h, solveCut_nil sv _ _ sp h]
    exact ⟨Int.le_refl _, Int.le_refl _⟩
  intro n
  induction n with
  | zero => intro n' sp _ _ _ hend _; exact same 0 n' sp hend
  | succ n ih =>
    intro n' sp hI hRep hp hend hend'
    cases hpm : popMax sp.1.fringe with
    | none => exact same _ _ sp (popMax_none _ hpm)
    | some Nr =>
      obtain ⟨N, rest⟩ := Nr
      cases n' with
      | zero =>
        have : sp.1.fringe = [] := hend'
        rw [this] at hpm
        cases hpm
      | succ m =>
        obtain ⟨_, _, hcr, hI', hubeq, hmem, _, hlb, hub, hmono, hnp⟩ := uturn_facts hwf hI hpm sp.2
        obtain ⟨hRep', hgood⟩ := uturn_repInv hwf hI hRep hpm sp.2
        obtain ⟨c1, c2⟩ := cutTurn_closed sv (sv.pop sp.1 N rest) N sp.2 k hp
        obtain ⟨c1', c2'⟩ := cutTurn_closed sv (sv.pop sp.1 N rest) N sp.2 k' (by omega)
        rw [solveCut_succ sv (some k) n sp N rest hpm] at hend ⊢
        rw [solveCut_succ sv (some k') m sp N rest hpm] at hend' ⊢
        by_cases hlt : (sv.cutTurn none (sv.pop sp.1 N rest) N sp.2).2 < k
        · -- the turn is common to both runs
          obtain ⟨e1, e2⟩ := c1 hlt
          obtain ⟨e1', e2'⟩ := c1' (by omega)
          rw [e1, e2, hcr] at hend ⊢
          rw [e1', e2', hcr] at hend' ⊢
          simp only [Bool.false_eq_true, if_false] at hend hend' ⊢
          exact ih m _ hI' hRep' hlt hend hend'
        · -- the earlier cutoff fires in this turn
          obtain ⟨e1, e2, hnpr⟩ := c2 (by omega)
          obtain ⟨a1, _, a3, a4, a5, a6, a7, a8⟩ := abortAt_facts sv (sv.pop sp.1 N rest) N sp.2 k
          obtain ⟨_, hlb1⟩ := hnp hnpr
          obtain ⟨_, hoptu⟩ := hgood hnpr
          rw [e1, e2]
          simp only [Bool.false_eq_true, if_false]
          rw [solveCut_nil sv _ _ _ a1]
          show (finish (sv.abortAt (sv.pop sp.1 N rest) N sp.2 k)).bestLb ≤ _ ∧
            _ ≤ (finish (sv.abortAt (sv.pop sp.1 N rest) N sp.2 k)).bestUb
          rw [a8, a3]
          by_cases hlt' : (sv.cutTurn none (sv.pop sp.1 N rest) N sp.2).2 < k'
          · -- the later one does not: its run goes on from the state after the uninterrupted turn
            obtain ⟨e1', e2'⟩ := c1' hlt'
            rw [e1', e2', hcr] at hend' ⊢
            simp only [Bool.false_eq_true, if_false] at hend' ⊢
            obtain ⟨h1, h2⟩ := later_report hwf k' (sv.pop sp.1 N rest).bestUb hoptu m _ hI' hlt'
              (by rw [hubeq]; exact Int.le_refl _) hend'
            exact ⟨by omega, h2⟩
          · -- both fire in this turn
            obtain ⟨e1', e2', _⟩ := c2' (by omega)
            obtain ⟨b1, _, b3, b4, b5, b6, b7, b8⟩ := abortAt_facts sv (sv.pop sp.1 N rest) N sp.2 k'
            rw [e1', e2']
            simp only [Bool.false_eq_true, if_false]
            rw [solveCut_nil sv _ _ _ b1]
            show _ ≤ (finish (sv.abortAt (sv.pop sp.1 N rest) N sp.2 k')).bestLb ∧
              (finish (sv.abortAt (sv.pop sp.1 N rest) N sp.2 k')).bestUb ≤ _
            rw [b8, b3]
            refine ⟨?_, Int.le_refl _⟩
            by_cases hk : k ≤ (sv.cR none (sv.pop sp.1 N rest) N sp.2).2.1.polls
            · rw [a6 hk]; exact b4
            · rw [a7 hk, b7 (by omega)]; exact Int.le_refl _

/-! ## 4. whole runs: monotone reports, eventually exact -/

/-- the start of a run: `initialize` (no primal), no poll yet -/
def _root_.Ddo.C01.SolverCfg.start (sv : SolverCfg S) : SeqSt S × Nat := (SeqSt.init sv.P none sv.dedup, 0)

/-- the solver as `maximize` leaves it when the cutoff fires at poll `k` (`none`: never), fuel `n` -/
def _root_.Ddo.C01.SolverCfg.cutReport (sv : SolverCfg S) (k : Option Nat) (n : Nat) : SeqSt S :=
  finish (sv.solveCut k n sv.start).1

/-- the loop with fuel `n` has ended -/
def _root_.Ddo.C01.SolverCfg.ended (sv : SolverCfg S) (k : Option Nat) (n : Nat) : Prop :=
  (sv.solveCut k n sv.start).1.fringe = []

/-- a cut run has ended as soon as the uninterrupted run has (no hypothesis on the model) -/
theorem cut_run_ends (sv : SolverCfg S) (k : Nat) (hk : 1 ≤ k) (n : Nat) (hn : sv.ended none n) : sv.ended (some k) n := by
  unfold SolverCfg.ended at hn ⊢
  rcases cut_run_is_prefix sv k n sv.start (by show 0 < k; omega) with ⟨_, e⟩ | ⟨j, up, N, rest, _, _, _, _, _, _, e⟩
  · rw [e]; exact hn
  · rw [e]; exact (abortAt_facts sv _ N up.2 k).1

/-- **`cut_bounds_monotone`** — C19 for the sequential solver over the diagram model: for a well-formed model and cutoff polls
    `1 ≤ k ≤ k'`, the run cut at `k'` reports a lower bound at least as large and an upper bound at most as large as the run cut at
    `k` (both runs given enough fuel to end; a run that ends before its cutoff fires reports `best_ub = best_lb`, the optimum) -/
theorem cut_bounds_monotone {sv : SolverCfg S} {H : Nat → S → EInt} {B0 B : Int} (hwf : WellFormed sv H B0 B) (k k' : Nat)
    (hk : 1 ≤ k) (hkk : k ≤ k') (n n' : Nat) (hn : sv.ended (some k) n) (hn' : sv.ended (some k') n') :
    (sv.cutReport (some k) n).bestLb ≤ (sv.cutReport (some k') n').bestLb ∧
    (sv.cutReport (some k') n').bestUb ≤ (sv.cutReport (some k) n).bestUb :=
  cut_pair_mono hwf k k' hkk n n' sv.start (init_cinv hwf) (init_repInv hwf) (by show 0 < k; omega) hn hn'

/-- **`eventually_exact`**: for a well-formed model there are a fuel `nU` and a poll count `K` — the uninterrupted run ends within `nU`
    turns and makes `K` polls — such that for every `k > K` and every fuel `n ≥ nU` the run cut at poll `k` *is* the uninterrupted
    run: not aborted, `best_lb = best_ub =` the optimum, `Completion { is_exact: true, best_value: Some(opt) }` with a feasible
    solution of that value (`best_value: None` iff the problem is infeasible) -/
theorem eventually_exact {sv : SolverCfg S} {H : Nat → S → EInt} {B0 B : Int} (hwf : WellFormed sv H B0 B) :
    ∃ nU K : Nat, sv.ended none nU ∧ K = (sv.solveCut none nU sv.start).2 ∧
      (sv.solveCut none nU sv.start).1 = sv.solveLoop nU (SeqSt.init sv.P none sv.dedup) ∧
      ∀ k, K < k → ∀ n, nU ≤ n →
        sv.solveCut (some k) n sv.start = sv.solveCut none nU sv.start ∧
        (sv.cutReport (some k) n).abort = false ∧
        (sv.cutReport (some k) n).bestLb = optV sv H ∧ (sv.cutReport (some k) n).bestUb = optV sv H ∧
        (∀ opt, (H 0 sv.P.init).addI sv.P.initVal = some opt →
          (sv.cutReport (some k) n).completion = (true, some opt) ∧
          ∃ p, (sv.cutReport (some k) n).bestSol = some p ∧ SolOf sv.P p opt) ∧
        ((H 0 sv.P.init).addI sv.P.initVal = none → (sv.cutReport (some k) n).completion = (true, none)) := by
  obtain ⟨nU, hend⟩ := solveLoop_total hwf _ (init_cinv (sv := sv) hwf)
  have e0 : (sv.solveCut none nU sv.start).1 = sv.solveLoop nU (SeqSt.init sv.P none sv.dedup) :=
    solveCut_none hwf nU sv.start (init_cinv hwf)
  have hendU : sv.ended none nU := by unfold SolverCfg.ended; rw [e0]; exact hend
  refine ⟨nU, _, hendU, rfl, e0, ?_⟩
  intro k hk n hn
  have hst := solveCut_stable sv none nU sv.start hendU n hn
  have heq : sv.solveCut (some k) n sv.start = sv.solveCut none nU sv.start := by
    rw [← hst]
    exact solveCut_eq_of_lt sv k n sv.start (by rw [hst]; exact hk)
  have hI : CInv sv H (sv.solveLoop nU (SeqSt.init sv.P none sv.dedup)) :=
    crun_inv hwf (solveLoop_run sv nU _) (init_cinv hwf)
  obtain ⟨f1, f2, f3, f4⟩ := finish_of_cinv hI
  obtain ⟨g1, g2⟩ := cinv_end_correct hwf hI hend
  have hrep : sv.cutReport (some k) n = finish (sv.solveLoop nU (SeqSt.init sv.P none sv.dedup)) := by
    unfold SolverCfg.cutReport; rw [heq, e0]
  have hlb : (sv.solveLoop nU (SeqSt.init sv.P none sv.dedup)).bestLb = optV sv H := by
    unfold optV
    cases hopt : (H 0 sv.P.init).addI sv.P.initVal with
    | none => exact (hI.infeas hopt).1
    | some opt => exact (g1 opt hopt).1
  have hab : (finish (sv.solveLoop nU (SeqSt.init sv.P none sv.dedup))).abort = false := by
    have : (sv.solveLoop nU (SeqSt.init sv.P none sv.dedup)).abort = false := hI.noAbort
    unfold finish; rw [this]; exact this
  rw [hrep, f1, f2, f3, f4]
  exact ⟨heq, hab, hlb, hlb, fun opt hopt => ⟨(g1 opt hopt).2.2, (g1 opt hopt).2.1⟩, fun hinf => (g2 hinf).2⟩

/-- a cut run brackets the optimum, i.e. what the uninterrupted run reports: `best_lb ≤ opt ≤ best_ub` (the case `k' = ∞` of
    `cut_bounds_monotone`) -/
theorem cut_bounds_bracket {sv : SolverCfg S} {H : Nat → S → EInt} {B0 B : Int} (hwf : WellFormed sv H B0 B) (k : Nat)
    (hk : 1 ≤ k) (n : Nat) (hn : sv.ended (some k) n) :
    (sv.cutReport (some k) n).bestLb ≤ optV sv H ∧ optV sv H ≤ (sv.cutReport (some k) n).bestUb := by
  obtain ⟨nU, K, hU, _, _, hex⟩ := eventually_exact hwf
  obtain ⟨heq, _, e1, e2, _⟩ := hex (max k (K + 1)) (by omega) nU (Nat.le_refl _)
  have hend' : sv.ended (some (max k (K + 1))) nU := by unfold SolverCfg.ended; rw [heq]; exact hU
  have := cut_bounds_monotone hwf k (max k (K + 1)) hk (by omega) n nU hn hend'
  rw [e1, e2] at this
  exact this

/-- **C19, sequential solver, all in one**: for a well-formed model there are a fuel `nU` and a poll count `K` such that
    (i) with fuel `≥ nU` every run — uninterrupted, or cut at any poll `k ≥ 1` — has ended, and its result does not depend on the fuel;
    (ii) as functions of the poll `k ≥ 1` at which the cutoff fires, the reported lower bound is non-decreasing and the reported upper
    bound is non-increasing, and they bracket the optimum;
    (iii) for every `k > K` the run is exact: not aborted, both bounds equal to the optimum. -/
theorem c19_sequential (sv : SolverCfg S) (H : Nat → S → EInt) (B0 B : Int) (hwf : WellFormed sv H B0 B) :
    ∃ nU K : Nat,
      (∀ k, 1 ≤ k → ∀ n, nU ≤ n → sv.ended (some k) nU ∧ sv.solveCut (some k) n sv.start = sv.solveCut (some k) nU sv.start) ∧
      (∀ k k', 1 ≤ k → k ≤ k' →
        (sv.cutReport (some k) nU).bestLb ≤ (sv.cutReport (some k') nU).bestLb ∧
        (sv.cutReport (some k') nU).bestUb ≤ (sv.cutReport (some k) nU).bestUb ∧
        (sv.cutReport (some k) nU).bestLb ≤ optV sv H ∧ optV sv H ≤ (sv.cutReport (some k) nU).bestUb) ∧
      (∀ k, K < k → (sv.cutReport (some k) nU).abort = false ∧
        (sv.cutReport (some k) nU).bestLb = optV sv H ∧ (sv.cutReport (some k) nU).bestUb = optV sv H) := by
  obtain ⟨nU, K, hU, _, _, hex⟩ := eventually_exact hwf
  refine ⟨nU, K, fun k hk n hn => ?_, fun k k' hk hkk => ?_, fun k hk => ?_⟩
  · have h := cut_run_ends sv k hk nU hU
    exact ⟨h, solveCut_stable sv (some k) nU sv.start h n hn⟩
  · have h := cut_run_ends sv k hk nU hU
    have h' := cut_run_ends sv k' (by omega) nU hU
    obtain ⟨m1, m2⟩ := cut_bounds_monotone hwf k k' hk hkk nU nU h h'
    obtain ⟨b1, b2⟩ := cut_bounds_bracket hwf k hk nU h
    exact ⟨m1, m2, b1, b2⟩
  · obtain ⟨_, a, b, c, _⟩ := hex k hk nU (Nat.le_refl _)
    exact ⟨a, b, c⟩

/-! ## 5. non-vacuity: the trap model of `Props/C01d.lean` (three turns, optimum 4, `K = 8` polls) -/
namespace TrapCut

/-- `(best_lb, best_ub, is_exact, polls made)` of the run of the trap model cut at poll `k`, fuel 5 -/
def row (dedup : Bool) (kind : CutsetKind) (k : Option Nat) : Int × Int × Bool × Nat :=
  (((Trap.sv dedup kind).cutReport k 5).bestLb, ((Trap.sv dedup kind).cutReport k 5).bestUb,
   ((Trap.sv dedup kind).cutReport k 5).completion.1, ((Trap.sv dedup kind).solveCut k 5 (Trap.sv dedup kind).start).2)

/-- the expected table for `k = 1 … 9`: the first turn (root) makes 3 + 3 polls — cut during the restricted compilation: nothing known;
    during the relaxed one: incumbent 1 (the trapped solution), bound still `isize::MAX` (the root's) —, the second turn (the free
    node, bound 4) makes 2 polls — cut there: `(1, 4)` —, the third node is pruned without a poll; from `k = 9` on the run is exact -/
def expected : List (Int × Int × Bool × Nat) :=
  [(iMin, iMax, false, 1), (iMin, iMax, false, 2), (iMin, iMax, false, 3),
   (1, iMax, false, 4), (1, iMax, false, 5), (1, iMax, false, 6),
   (1, 4, false, 7), (1, 4, false, 8),
   (4, 4, true, 8)]

theorem uninterrupted : row false .lel none = (4, 4, true, 8) := by decide

theorem table : (List.range 9).map (fun i => row false .lel (some (i + 1))) = expected := by decide

theorem table' : (List.range 9).map (fun i => row true .frontier (some (i + 1))) = expected := by decide

/-- adjacent rows: lower bound non-decreasing, upper bound non-increasing -/
def monotone : List (Int × Int × Bool × Nat) → Bool
  | a :: b :: r => decide (a.1 ≤ b.1) && decide (b.2.1 ≤ a.2.1) && monotone (b :: r)
  | _ => true

/-- the table is monotone, ends exact with both bounds equal to the optimum 4, and no earlier row claims exactness -/
theorem table_monotone : monotone expected = true ∧ expected.getLast? = some (4, 4, true, 8) ∧
    (expected.dropLast.all (fun r => !r.2.2.1)) = true := by decide

/-- the uninterrupted run has ended with fuel 5 -/
theorem ended_none (dedup : Bool) (kind : CutsetKind) : (Trap.sv dedup kind).ended none 5 := by
  unfold SolverCfg.ended
  apply List.eq_nil_of_length_eq_zero
  cases dedup <;> cases kind <;> decide

/-- the general theorems instantiated: the trap model is well-formed, so every pair of rows is ordered … -/
theorem monotone_by_theorem (dedup : Bool) (kind : CutsetKind) (k k' : Nat) (hk : 1 ≤ k) (hkk : k ≤ k') :
    ((Trap.sv dedup kind).cutReport (some k) 5).bestLb ≤ ((Trap.sv dedup kind).cutReport (some k') 5).bestLb ∧
    ((Trap.sv dedup kind).cutReport (some k') 5).bestUb ≤ ((Trap.sv dedup kind).cutReport (some k) 5).bestUb :=
  cut_bounds_monotone (Trap.wellFormed dedup kind) k k' hk hkk 5 5
    (cut_run_ends _ k hk 5 (ended_none dedup kind)) (cut_run_ends _ k' (by omega) 5 (ended_none dedup kind))

/-- … brackets the optimum 4 … -/
theorem bracket_by_theorem (dedup : Bool) (kind : CutsetKind) (k : Nat) (hk : 1 ≤ k) :
    ((Trap.sv dedup kind).cutReport (some k) 5).bestLb ≤ 4 ∧ 4 ≤ ((Trap.sv dedup kind).cutReport (some k) 5).bestUb :=
  cut_bounds_bracket (Trap.wellFormed dedup kind) k hk 5 (cut_run_ends _ k hk 5 (ended_none dedup kind))

/-- … and every cutoff after the 8-th poll leaves the run exact (`solveCut_eq_of_lt`; 8 = the polls of the uninterrupted run) -/
theorem exact_by_theorem (k : Nat) (hk : 8 < k) : row false .lel (some k) = (4, 4, true, 8) := by
  have h8 : ((Trap.sv false .lel).solveCut none 5 (Trap.sv false .lel).start).2 = 8 := by decide
  have e := solveCut_eq_of_lt (Trap.sv false .lel) k 5 (Trap.sv false .lel).start (by rw [h8]; exact hk)
  unfold row SolverCfg.cutReport
  rw [e]
  exact uninterrupted

/-- inside the loop `best_ub` is transiently below the optimum: after the third pop (the trapped node, bound 3, pruned against the
    incumbent 4) the state has `best_ub = 3 < 4 = best_lb`; no poll is made in that turn, so no cutoff reports it, and `finish`
    (`get_workload` on the empty fringe) sets `best_ub := best_lb` -/
theorem transient_ub :
    (((Trap.sv false .lel).solveCut none 3 (Trap.sv false .lel).start).1.bestLb,
     ((Trap.sv false .lel).solveCut none 3 (Trap.sv false .lel).start).1.bestUb,
     ((Trap.sv false .lel).solveCut none 3 (Trap.sv false .lel).start).1.fringe.length,
     ((Trap.sv false .lel).solveCut none 2 (Trap.sv false .lel).start).2,
     ((Trap.sv false .lel).solveCut none 3 (Trap.sv false .lel).start).2) = (4, 3, 0, 8, 8) := by decide

end TrapCut
end Ddo.C19

#print axioms Ddo.C19.buildLoop_prefix
#print axioms Ddo.C19.buildLoop_prefix_trace
#print axioms Ddo.C19.compile_prefix
#print axioms Ddo.C19.compile_polls_irrel
#print axioms Ddo.C19.cutTurn_closed
#print axioms Ddo.C19.cut_poll_location
#print axioms Ddo.C19.solveCut_eq_of_lt
#print axioms Ddo.C19.solveCut_none
#print axioms Ddo.C19.solveCut_none_run
#print axioms Ddo.C19.cut_run_is_prefix
#print axioms Ddo.C19.abortAt_report
#print axioms Ddo.C19.later_report
#print axioms Ddo.C19.cut_pair_mono
#print axioms Ddo.C19.cut_run_ends
#print axioms Ddo.C19.cut_bounds_monotone
#print axioms Ddo.C19.eventually_exact
#print axioms Ddo.C19.cut_bounds_bracket
#print axioms Ddo.C19.c19_sequential
#print axioms Ddo.C19.TrapCut.table
#print axioms Ddo.C19.TrapCut.table'
#print axioms Ddo.C19.TrapCut.table_monotone
#print axioms Ddo.C19.TrapCut.monotone_by_theorem
#print axioms Ddo.C19.TrapCut.bracket_by_theorem
#print axioms Ddo.C19.TrapCut.exact_by_theorem
#print axioms Ddo.C19.TrapCut.transient_ub
