import DdoModel.Pooled
import DdoModel.Props.C01
/-! # C15 — long arcs (skipped variables) preserve optimum and termination

Stage in place.
* The pooled diagram model `Pooled.lean` reproduces the implementation exactly on every explored
  compilation, with and without long arcs (engine `mdd --pooled [--long-arcs]`), and the solver
  tapes with the pooled diagram are validated by the solver model (engine `seq --pooled --long-arcs`,
  with deterministic non-termination detection: a pop cap on the recording fringe).
* Proved on the model, for every input: a pool node that is **not impacted** by the variable of the
  layer is skipped past the layer — it stays in the pool with its state, and its value can only
  grow (`unimpacted_stays_in_pool`); only impacted nodes form the layer (`layer_only_impacted`).
* The solver-level theorems of C01 / C05 are generic in the diagram, so they apply to solvers using the
  pooled diagram *provided it meets the contracts* `CompileOk` / `CutsetOk`.
* It does **not** meet `CutsetOk` with long arcs in the current code (known finding D5, see
  `KNOWN_FINDINGS.txt`): the root can be handed out by its own cut-set, and the solvers then do not
  terminate.  the statement "both return the optimum" is decided in `Props/C15b.lean`. -/
set_option linter.unusedSectionVars false
namespace Ddo.C15
variable {S K : Type} [DecidableEq S] [DecidableEq K]

/-- `n'` continues `n`: same state, value not smaller -/
def Continues (n n' : Node S) : Prop := n'.state = n.state ∧ n.value ≤ n'.value

theorem appendEdge_continues (p c : Node S) (a : Arc) : Continues c (appendEdge p c a) := by
  unfold appendEdge Continues
  simp only
  split
  · next h => exact ⟨rfl, h⟩
  · exact ⟨rfl, Int.le_refl _⟩

theorem branchOn_keeps (cfg : Cfg S K) (par : Node S) (pl pp : Nat) (d : Dec) (nx : List (Node S)) (n : Node S)
    (hn : n ∈ nx) : ∃ n' ∈ branchOn cfg par pl pp d nx, Continues n n' := by
  unfold branchOn
  simp only
  induction nx with
  | nil => cases hn
  | cons m r ih =>
    simp only [branchOn.go]
    split
    · rcases List.mem_cons.mp hn with e | e
      · subst e; exact ⟨_, List.mem_cons_self, appendEdge_continues _ _ _⟩
      · exact ⟨n, List.mem_cons_of_mem _ e, rfl, Int.le_refl _⟩
    · rcases List.mem_cons.mp hn with e | e
      · subst e; exact ⟨n, List.mem_cons_self, rfl, Int.le_refl _⟩
      · obtain ⟨n', hn', hc⟩ := ih e
        exact ⟨n', List.mem_cons_of_mem _ hn', hc⟩

theorem continues_trans {a b c : Node S} (h1 : Continues a b) (h2 : Continues b c) : Continues a c :=
  ⟨h2.1.trans h1.1, Int.le_trans h1.2 h2.2⟩

theorem expandOne_keeps (cfg : Cfg S K) (var lidx : Nat) (ly nx : List (Node S)) (lg : List (Call S)) (p : Nat)
    (n : Node S) (hn : n ∈ nx) : ∃ n' ∈ (expandOne cfg var lidx (ly, nx, lg) p).2.1, Continues n n' := by
  simp only [expandOne]
  split
  · exact ⟨n, hn, rfl, Int.le_refl _⟩
  · next m hm =>
    split
    · -- fold over the domain
      have key : ∀ (ds : List Int) (acc : List (Node S) × List (Call S)), (∃ n' ∈ acc.1, Continues n n') →
          ∃ n' ∈ (ds.foldl (fun (acc : List (Node S) × List (Call S)) d =>
              (branchOn cfg { m with rub := cfg.R.rub m.state } lidx p ⟨var, d⟩ acc.1,
               Call.cost m.state (cfg.P.trans m.state ⟨var, d⟩) ⟨var, d⟩ :: Call.trans m.state ⟨var, d⟩ :: acc.2)) acc).1,
            Continues n n' := by
        intro ds
        induction ds with
        | nil => intro acc h; exact h
        | cons d ds ih =>
          intro acc ⟨n1, hn1, hc1⟩
          simp only [List.foldl_cons]
          apply ih
          obtain ⟨n2, hn2, hc2⟩ := branchOn_keeps cfg { m with rub := cfg.R.rub m.state } lidx p ⟨var, d⟩ acc.1 n1 hn1
          exact ⟨n2, hn2, continues_trans hc1 hc2⟩
      exact key _ (nx, _) ⟨n, hn, rfl, Int.le_refl _⟩
    · exact ⟨n, hn, rfl, Int.le_refl _⟩

theorem expandFold_keeps (cfg : Cfg S K) (var lidx : Nat) (cur : List Nat) (acc : List (Node S) × List (Node S) × List (Call S))
    (n : Node S) (hn : ∃ n' ∈ acc.2.1, Continues n n') :
    ∃ n' ∈ (cur.foldl (expandOne cfg var lidx) acc).2.1, Continues n n' := by
  induction cur generalizing acc with
  | nil => exact hn
  | cons p ps ih =>
    simp only [List.foldl_cons]
    apply ih
    obtain ⟨ly, nx, lg⟩ := acc
    obtain ⟨n1, hn1, hc1⟩ := hn
    obtain ⟨n2, hn2, hc2⟩ := expandOne_keeps cfg var lidx ly nx lg p n1 hn1
    exact ⟨n2, hn2, continues_trans hc1 hc2⟩

/-- **`unimpacted_stays_in_pool`**: a pool node whose state is not impacted by the variable of the
    layer is skipped past the layer: after `_move_to_next_layer` + expansion it is still in the pool,
    with the same state and a value that did not decrease -/
theorem unimpacted_stays_in_pool (cfg : Cfg S K) (pd pd' : PD S K) (var : Nat) (n : Node S)
    (hn : n ∈ pd.pool) (himp : cfg.P.impacted var n.state = false) (h : stepLayerP cfg pd var = some pd') :
    ∃ n' ∈ pd'.pool, Continues n n' := by
  have hrest : n ∈ pd.pool.filter (fun n => !cfg.P.impacted var n.state) := List.mem_filter.mpr ⟨hn, by simp [himp]⟩
  unfold stepLayerP at h
  cases hp : prepLayerP cfg pd var with
  | none => rw [hp] at h; cases h
  | some t =>
    obtain ⟨layer, cur, store, ndom, ief, log⟩ := t
    rw [hp] at h
    simp only [Option.some.injEq] at h
    subst h
    exact expandFold_keeps cfg var _ cur (layer, _, log) n ⟨n, hrest, rfl, Int.le_refl _⟩

/-- only impacted pool nodes form the layer (before filtering and squashing) -/
theorem layer_only_impacted (cfg : Cfg S K) (pd : PD S K) (var : Nat) (n : Node S)
    (hn : n ∈ (pd.pool.filter (fun n => cfg.P.impacted var n.state))) : cfg.P.impacted var n.state = true :=
  (List.mem_filter.mp hn).2

/-! "Solvers using the pooled diagram terminate and return the same optimum as with the plain diagrams" is decided in
    `Props/C15b.lean`: `pooled_eq_clean_opt_allImpacted`, `sequential_solver_correct_pooled(_siblings)`,
    `pooled_partial_correct_long_arcs`; termination with long arcs is false (`LongArc.d5_loops_wellformed`, finding D5). -/

end Ddo.C15
