import DdoModel.Viz
/-! C20 — `as_graphviz` draws the diagram faithfully.

    Theorems about the model `Ddo.Viz.render` (byte-exact against the implementation on the harness cases,
    see `DdoModel/Engines/Viz.lean`).  `render d c = (renderLines d c).map linesText` holds by definition
    (`render_eq`), so statements about the list of `Line`s returned by `renderLines` are statements about the
    structure of the rendered text: every `Line` is one `push_str` unit of the Rust code and `Line.toText`
    gives its bytes (`edge_text`, `terminalEdge_text` … below are the relevant instances, all by `rfl`). -/
namespace Ddo.C20
open Ddo.Viz

-- ---------------------------------------------------------------------------------------------
-- projections of the structured output

/-- the id declared by a node-declaration line -/
def declId? : Line → Option Nat
  | .node id _ => some id
  | _ => none

/-- the arc drawn by an edge line and whether it is bold (`penwidth=3`) -/
def edge? : Line → Option (DEdge × Bool)
  | .edge e b => some (e, b)
  | _ => none

/-- the source of an edge to `terminal` and whether it is bold -/
def termEdge? : Line → Option (Nat × Bool)
  | .terminalEdge i b => some (i, b)
  | _ => none

/-- the key `k` of a `subgraph cluster_k` block -/
def clusterKey? : Line → Option Nat
  | .cluster k _ => some k
  | _ => none

def isCluster : Line → Bool
  | .cluster _ _ => true
  | _ => false

theorem render_eq (d : Dump) (c : VizCfg) : render d c = (renderLines d c).map linesText := rfl

/-- the bytes of an edge line: source, target, decision and cost of the arc; `penwidth=3` iff `b` -/
theorem edge_text (e : DEdge) (b : Bool) :
    (Line.edge e b).toText =
      "\t" ++ toString e.src ++ " -> " ++ toString e.dst ++ " [penwidth=" ++ (if b then "3" else "1")
        ++ ",label=\"(x" ++ toString e.var ++ " = " ++ toString e.val ++ ")\\ncost = " ++ toString e.cost
        ++ "\"];\n" := rfl

theorem node_text (i : Nat) (a : String) : (Line.node i a).toText = "\t" ++ toString i ++ " [" ++ a ++ "];\n" := rfl

theorem terminalEdge_text (i : Nat) (b : Bool) :
    (Line.terminalEdge i b).toText =
      if b then "\t" ++ toString i ++ " -> terminal [penwidth=3];\n" else "\t" ++ toString i ++ " -> terminal;\n" := by
  cases b <;> rfl

theorem terminalDecl_text :
    Line.terminalDecl.toText =
      "\tterminal [shape=\"circle\", label=\"\", style=\"filled\", color=\"black\", group=\"terminal\"];\n" := rfl

-- ---------------------------------------------------------------------------------------------
-- small facts

theorem idsOk_iff {ns : List DNode} {ids : List Nat} : idsOk ns ids = true ↔ ∀ i ∈ ids, i < ns.length := by
  simp [idsOk]

theorem idsOk_false_iff {ns : List DNode} {ids : List Nat} :
    idsOk ns ids = false ↔ ∃ i ∈ ids, ns.length ≤ i := by
  rw [← Bool.not_eq_true, idsOk_iff]
  constructor
  · intro h
    apply Classical.byContradiction
    intro h'
    apply h
    intro i hi
    apply Classical.byContradiction
    intro hlt
    exact h' ⟨i, hi, by omega⟩
  · rintro ⟨i, hi, hle⟩ h
    have := h i hi
    omega

theorem foldl_max_ge (r : List Int) (x : Int) : x ≤ r.foldl max x ∧ ∀ y ∈ r, y ≤ r.foldl max x := by
  induction r generalizing x with
  | nil => simp
  | cons a r ih =>
    simp only [List.foldl_cons, List.mem_cons]
    have h := ih (max x a)
    refine ⟨by omega, ?_⟩
    rintro y (rfl | hy)
    · omega
    · exact h.2 y hy

theorem foldl_max_mem (r : List Int) (x : Int) : r.foldl max x = x ∨ r.foldl max x ∈ r := by
  induction r generalizing x with
  | nil => simp
  | cons a r ih =>
    simp only [List.foldl_cons, List.mem_cons]
    rcases ih (max x a) with h | h
    · rw [h]
      by_cases hxa : x ≤ a
      · right; left; omega
      · left; omega
    · right; right; exact h

/-- `maxOf` of a non-empty list is its maximum -/
theorem maxOf_spec {xs : List Int} (hne : xs ≠ []) : maxOf xs ∈ xs ∧ ∀ y ∈ xs, y ≤ maxOf xs := by
  cases xs with
  | nil => exact absurd rfl hne
  | cons x r =>
    simp only [maxOf, List.mem_cons]
    refine ⟨?_, ?_⟩
    · rcases foldl_max_mem r x with h | h
      · left; exact h
      · right; exact h
    · rintro y (rfl | hy)
      · exact (foldl_max_ge r _).1
      · exact (foldl_max_ge r x).2 y hy

theorem maxOf_nil : maxOf [] = iMax := rfl

-- ---------------------------------------------------------------------------------------------
-- the three sections

theorem clusters0_isCluster (ns : List DNode) (i : Nat) (ls : List (List Nat)) :
    ∀ l ∈ clusters0 ns i ls, isCluster l = true := by
  induction ls generalizing i with
  | nil => simp [clusters0]
  | cons a ls ih =>
    intro l hl
    simp only [clusters0] at hl
    split at hl
    · exact ih _ l hl
    · rcases List.mem_cons.mp hl with rfl | h
      · rfl
      · exact ih _ l h

theorem clusters1_isCluster (ns : List DNode) : ∀ l ∈ clusters1 ns, isCluster l = true := by
  intro l hl
  simp only [clusters1, List.mem_map] at hl
  obtain ⟨g, _, rfl⟩ := hl
  rfl

theorem clusterSection_isCluster {d : Dump} {c : VizCfg} {cl : List Line}
    (h : clusterSection d c = some cl) : ∀ l ∈ cl, isCluster l = true := by
  unfold clusterSection at h
  split at h
  · split at h
    · split at h
      · cases h; exact clusters0_isCluster _ _ _
      · cases h
    · cases h; exact clusters1_isCluster _
  · cases h; simp

theorem clusterSection_eq_none_iff {d : Dump} {c : VizCfg} :
    clusterSection d c = none ↔
      (c.showDeleted = true ∧ c.groupMerged = true ∧ d.kind = 0 ∧ ∃ l ∈ d.layers, ∃ i ∈ l, d.nodes.length ≤ i) := by
  unfold clusterSection
  constructor
  · intro h
    split at h
    · rename_i hc
      simp only [Bool.and_eq_true] at hc
      split at h
      · rename_i hk
        split at h
        · cases h
        · rename_i hall
          refine ⟨hc.1, hc.2, hk, ?_⟩
          simp only [Bool.not_eq_true, List.all_eq_false] at hall
          obtain ⟨l, hl, hbad⟩ := hall
          have := idsOk_false_iff.mp (by simpa using hbad)
          exact ⟨l, hl, this⟩
      · cases h
    · cases h
  · rintro ⟨h1, h2, h3, l, hl, hbad⟩
    have hall : ¬ (d.layers.all (idsOk d.nodes) = true) := by
      intro hall
      have := List.all_eq_true.mp hall l hl
      have h' := idsOk_false_iff.mpr hbad
      rw [this] at h'
      cases h'
    simp [h1, h2, h3, hall]

theorem terminalSection_eq_none_iff {d : Dump} :
    terminalSection d = none ↔
      (d.layers = [] ∨ ∃ last, d.layers.getLast? = some last ∧ ∃ i ∈ last, d.nodes.length ≤ i) := by
  unfold terminalSection
  constructor
  · intro h
    split at h
    · rename_i hl
      left; exact List.getLast?_eq_none_iff.mp hl
    · rename_i ids hl
      split at h
      · cases h
      · rename_i hbad
        right
        exact ⟨ids, hl, idsOk_false_iff.mp (by simpa using hbad)⟩
  · rintro (h | ⟨last, hl, hbad⟩)
    · simp [h]
    · have := idsOk_false_iff.mpr hbad
      simp [hl, this]

theorem terminalSection_eq_some {d : Dump} {tm : List Line} (h : terminalSection d = some tm) :
    ∃ last, d.layers.getLast? = some last ∧ idsOk d.nodes last = true ∧ tm = terminalLines d.nodes last := by
  unfold terminalSection at h
  split at h
  · cases h
  · rename_i ids hl
    split at h
    · rename_i hok
      cases h
      exact ⟨ids, hl, hok, rfl⟩
    · cases h

/-- shape of a successful rendering: header, node section, clusters, terminal section, footer -/
theorem renderLines_eq_some {d : Dump} {c : VizCfg} {ls : List Line} (h : renderLines d c = some ls) :
    ∃ cl last, clusterSection d c = some cl ∧ d.layers.getLast? = some last ∧ idsOk d.nodes last = true ∧
      ls = Line.header :: (nodeSection d c ++ cl ++ terminalLines d.nodes last ++ [Line.footer]) := by
  unfold renderLines at h
  split at h
  · rename_i cl tm hcl htm
    obtain ⟨last, hl, hok, rfl⟩ := terminalSection_eq_some htm
    cases h
    exact ⟨cl, last, hcl, hl, hok, rfl⟩
  · cases h

-- ---------------------------------------------------------------------------------------------
-- (a) totality

/-- exact characterisation of the panics of `as_graphviz`: no layer at all (`layers.last().unwrap()`), or an
    id of the last layer that is not a node (`self.nodes[..]` in `add_terminal_node`), or — clean.rs, clusters
    requested — an id of any layer that is not a node. -/
theorem render_none_iff (d : Dump) (c : VizCfg) :
    render d c = none ↔
      (d.layers = []
        ∨ (∃ last, d.layers.getLast? = some last ∧ ∃ i ∈ last, d.nodes.length ≤ i)
        ∨ (c.showDeleted = true ∧ c.groupMerged = true ∧ d.kind = 0 ∧
            ∃ l ∈ d.layers, ∃ i ∈ l, d.nodes.length ≤ i)) := by
  rw [render_eq, Option.map_eq_none_iff]
  constructor
  · intro h
    unfold renderLines at h
    split at h
    · cases h
    · rename_i hno
      cases hcl : clusterSection d c with
      | none => right; right; exact clusterSection_eq_none_iff.mp hcl
      | some cl =>
        cases htm : terminalSection d with
        | none =>
          rcases terminalSection_eq_none_iff.mp htm with h1 | h2
          · left; exact h1
          · right; left; exact h2
        | some tm => exact absurd htm (hno cl tm hcl)
  · intro h
    unfold renderLines
    rcases h with h | h | h
    · rw [terminalSection_eq_none_iff.mpr (Or.inl h)]
      split <;> simp_all
    · rw [terminalSection_eq_none_iff.mpr (Or.inr h)]
      split <;> simp_all
    · rw [clusterSection_eq_none_iff.mpr h]

theorem wf_layers {d : Dump} (hwf : wfDump d = true) : ∀ l ∈ d.layers, ∀ i ∈ l, i < d.nodes.length := by
  unfold wfDump at hwf
  simp only [Bool.and_eq_true] at hwf
  intro l hl
  exact idsOk_iff.mp (List.all_eq_true.mp hwf.2 l hl)

/-- (a) on a well-formed dump the only partial operation is taking the last layer -/
theorem render_total {d : Dump} (hwf : wfDump d = true) (c : VizCfg) :
    render d c = none ↔ d.layers = [] := by
  rw [render_none_iff]
  constructor
  · rintro (h | ⟨last, hl, i, hi, hle⟩ | ⟨_, _, _, l, hl, i, hi, hle⟩)
    · exact h
    · have := wf_layers hwf last (List.mem_of_getLast? hl) i hi
      omega
    · have := wf_layers hwf l hl i hi
      omega
  · intro h; exact Or.inl h

-- ---------------------------------------------------------------------------------------------
-- projections of the sections

theorem filterMap_nil_of {β : Type} {f : Line → Option β} {l : List Line} (h : ∀ x ∈ l, f x = none) :
    l.filterMap f = [] := List.filterMap_eq_nil_iff.mpr h

theorem declId?_cluster {l : Line} (h : isCluster l = true) : declId? l = none := by
  cases l <;> simp_all [isCluster, declId?]
theorem edge?_cluster {l : Line} (h : isCluster l = true) : edge? l = none := by
  cases l <;> simp_all [isCluster, edge?]
theorem termEdge?_cluster {l : Line} (h : isCluster l = true) : termEdge? l = none := by
  cases l <;> simp_all [isCluster, termEdge?]

theorem nodeLines_decl (c : VizCfg) (n : DNode) : (nodeLines c n).filterMap declId? = [n.id] := by
  simp only [nodeLines, List.filterMap_cons, declId?]
  rw [filterMap_nil_of]
  intro x hx
  obtain ⟨e, _, rfl⟩ := List.mem_map.mp hx
  rfl

theorem nodeLines_edge (c : VizCfg) (n : DNode) :
    (nodeLines c n).filterMap edge? = n.edges.map (fun e => (e, isBest n e)) := by
  simp only [nodeLines, List.filterMap_cons, edge?, List.filterMap_map]
  induction n.edges with
  | nil => rfl
  | cons e es ih => simp [edge?, ih]

theorem nodeLines_termEdge (c : VizCfg) (n : DNode) : (nodeLines c n).filterMap termEdge? = [] := by
  apply filterMap_nil_of
  intro x hx
  simp only [nodeLines, List.mem_cons, List.mem_map] at hx
  rcases hx with rfl | ⟨e, _, rfl⟩ <;> rfl

theorem flatMap_decl (c : VizCfg) (ns : List DNode) :
    (ns.flatMap (nodeLines c)).filterMap declId? = ns.map (·.id) := by
  induction ns with
  | nil => rfl
  | cons n ns ih => simp [List.flatMap_cons, List.filterMap_append, nodeLines_decl, ih]

theorem flatMap_edge (c : VizCfg) (ns : List DNode) :
    (ns.flatMap (nodeLines c)).filterMap edge? =
      ns.flatMap (fun n => n.edges.map (fun e => (e, isBest n e))) := by
  induction ns with
  | nil => rfl
  | cons n ns ih => simp [List.flatMap_cons, List.filterMap_append, nodeLines_edge, ih]

theorem flatMap_termEdge (c : VizCfg) (ns : List DNode) :
    (ns.flatMap (nodeLines c)).filterMap termEdge? = [] := by
  induction ns with
  | nil => rfl
  | cons n ns ih => simp [List.flatMap_cons, List.filterMap_append, nodeLines_termEdge, ih]

theorem terminalLines_decl (ns : List DNode) (ids : List Nat) : (terminalLines ns ids).filterMap declId? = [] := by
  apply filterMap_nil_of
  intro x hx
  unfold terminalLines at hx
  split at hx
  · cases hx
  · simp only [List.mem_cons, List.mem_map] at hx
    rcases hx with rfl | ⟨i, _, rfl⟩ <;> rfl

theorem terminalLines_edge (ns : List DNode) (ids : List Nat) : (terminalLines ns ids).filterMap edge? = [] := by
  apply filterMap_nil_of
  intro x hx
  unfold terminalLines at hx
  split at hx
  · cases hx
  · simp only [List.mem_cons, List.mem_map] at hx
    rcases hx with rfl | ⟨i, _, rfl⟩ <;> rfl

theorem filterMap_termEdge_map (f : Nat → Bool) (ids : List Nat) :
    (ids.map (fun i => Line.terminalEdge i (f i))).filterMap termEdge? = ids.map (fun i => (i, f i)) := by
  induction ids with
  | nil => rfl
  | cons i is ih => simp [termEdge?, ih]

theorem terminalLines_termEdge (ns : List DNode) (ids : List Nat) :
    (terminalLines ns ids).filterMap termEdge? =
      ids.map (fun i => (i, decide (valueAt ns i = maxOf (ids.map (valueAt ns))))) := by
  unfold terminalLines
  split
  · rename_i h
    have : ids = [] := by simpa using h
    subst this; rfl
  · simp only [List.filterMap_cons, termEdge?]
    exact filterMap_termEdge_map _ ids

-- ---------------------------------------------------------------------------------------------
-- (b) the terminal node

/-- (b) the terminal declaration is drawn iff the last layer is non-empty … -/
theorem terminal_iff_last_layer_nonempty {d : Dump} {c : VizCfg} {ls : List Line}
    (h : renderLines d c = some ls) :
    Line.terminalDecl ∈ ls ↔ ∃ last, d.layers.getLast? = some last ∧ last ≠ [] := by
  obtain ⟨cl, last, hcl, hl, _, rfl⟩ := renderLines_eq_some h
  have hcl' := clusterSection_isCluster hcl
  simp only [List.mem_cons, List.mem_append, List.mem_nil_iff, or_false]
  constructor
  · rintro (h | ((h | h) | h) | h)
    · cases h
    · simp only [nodeSection, List.mem_flatMap, nodeLines, List.mem_cons, List.mem_map] at h
      obtain ⟨n, _, h | ⟨e, _, h⟩⟩ := h <;> cases h
    · have := hcl' _ h
      cases this
    · refine ⟨last, hl, ?_⟩
      rintro rfl
      simp [terminalLines] at h
    · cases h
  · rintro ⟨last', hl', hne⟩
    rw [hl] at hl'
    cases hl'
    right; left; right
    unfold terminalLines
    have : last.isEmpty = false := by
      cases last with
      | nil => exact absurd rfl hne
      | cons _ _ => rfl
    simp [this]

/-- … and then exactly once -/
theorem terminal_decl_count {d : Dump} {c : VizCfg} {ls : List Line} (h : renderLines d c = some ls) :
    ls.count Line.terminalDecl = if d.layers.getLast? = some [] then 0 else 1 := by
  obtain ⟨cl, last, hcl, hl, _, rfl⟩ := renderLines_eq_some h
  have hcl' := clusterSection_isCluster hcl
  have h1 : (nodeSection d c).count Line.terminalDecl = 0 := by
    apply List.count_eq_zero.mpr
    intro h
    simp only [nodeSection, List.mem_flatMap, nodeLines, List.mem_cons, List.mem_map] at h
    obtain ⟨n, _, h | ⟨e, _, h⟩⟩ := h <;> cases h
  have h2 : cl.count Line.terminalDecl = 0 := by
    apply List.count_eq_zero.mpr
    intro h
    have := hcl' _ h
    cases this
  have h3 : (terminalLines d.nodes last).count Line.terminalDecl = if last = [] then 0 else 1 := by
    unfold terminalLines
    cases last with
    | nil => rfl
    | cons i is =>
      simp only [List.isEmpty_cons, Bool.false_eq_true, ↓reduceIte, List.count_cons_self, reduceCtorEq]
      have : ((i :: is).map (fun j => Line.terminalEdge j (decide (valueAt d.nodes j =
          maxOf ((i :: is).map (valueAt d.nodes)))))).count Line.terminalDecl = 0 := by
        apply List.count_eq_zero.mpr
        intro h
        obtain ⟨j, _, hj⟩ := List.mem_map.mp h
        cases hj
      omega
  rw [List.count_cons, List.count_append, List.count_append, List.count_append, h1, h2, h3, hl]
  cases last <;> simp

-- ---------------------------------------------------------------------------------------------
-- (c) nodes

/-- (c) the node declarations are the non-hidden nodes, in the order of the dump … -/
theorem nodes_once {d : Dump} {c : VizCfg} {ls : List Line} (h : renderLines d c = some ls) :
    ls.filterMap declId? = (d.nodes.filter (visible c)).map (·.id) := by
  obtain ⟨cl, last, hcl, _, _, rfl⟩ := renderLines_eq_some h
  have hcl' := clusterSection_isCluster hcl
  simp only [List.filterMap_cons, declId?, List.filterMap_append, nodeSection, flatMap_decl,
    terminalLines_decl, List.filterMap_nil, List.append_nil]
  rw [filterMap_nil_of (fun x hx => declId?_cluster (hcl' x hx)), List.append_nil]

theorem wf_ids {d : Dump} (hwf : wfDump d = true) : d.nodes.map (·.id) = List.range d.nodes.length := by
  unfold wfDump at hwf
  simp only [Bool.and_eq_true, beq_iff_eq] at hwf
  exact hwf.1.1

theorem wf_id_inj {d : Dump} (hwf : wfDump d = true) {m n : DNode} (hm : m ∈ d.nodes) (hn : n ∈ d.nodes)
    (h : m.id = n.id) : m = n := by
  have hids := wf_ids hwf
  obtain ⟨i, hi, rfl⟩ := List.mem_iff_getElem.mp hm
  obtain ⟨j, hj, rfl⟩ := List.mem_iff_getElem.mp hn
  have e1 : (d.nodes.map (·.id))[i]'(by simpa using hi) = i := by simp [hids]
  have e2 : (d.nodes.map (·.id))[j]'(by simpa using hj) = j := by simp [hids]
  simp only [List.getElem_map] at e1 e2
  have : i = j := by rw [← e1, ← e2]; exact h
  subst this; rfl

/-- … and, on a well-formed dump (ids `0..n-1`), strictly increasing: every non-hidden node is declared
    exactly once and no hidden node is declared -/
theorem nodes_once_wf {d : Dump} {c : VizCfg} {ls : List Line} (hwf : wfDump d = true)
    (h : renderLines d c = some ls) :
    (ls.filterMap declId?).Pairwise (· < ·) ∧
      ∀ n ∈ d.nodes, (ls.filterMap declId?).count n.id = if visible c n then 1 else 0 := by
  rw [nodes_once h]
  have hsub : ((d.nodes.filter (visible c)).map (·.id)).Sublist (List.range d.nodes.length) := by
    rw [← wf_ids hwf]
    exact (List.filter_sublist).map _
  have hpw : ((d.nodes.filter (visible c)).map (·.id)).Pairwise (· < ·) :=
    List.Pairwise.sublist hsub List.pairwise_lt_range
  refine ⟨hpw, ?_⟩
  intro n hn
  have hnd : ((d.nodes.filter (visible c)).map (·.id)).Nodup :=
    List.Pairwise.imp (fun h => by omega) hpw
  rw [hnd.count]
  have : n.id ∈ (d.nodes.filter (visible c)).map (·.id) ↔ visible c n = true := by
    simp only [List.mem_map, List.mem_filter]
    constructor
    · rintro ⟨m, ⟨hm, hv⟩, hid⟩
      rw [← wf_id_inj hwf hm hn hid]; exact hv
    · intro hv; exact ⟨n, ⟨hn, hv⟩, rfl⟩
  by_cases hv : visible c n = true <;> simp [this, hv]

-- ---------------------------------------------------------------------------------------------
-- (d) edges

/-- (d) the edge lines are exactly the inbound edges of the non-hidden nodes (in dump order, with
    multiplicity), each with its own decision and cost (`edge_text`), bold iff equal to the node's best edge -/
theorem edges_faithful {d : Dump} {c : VizCfg} {ls : List Line} (h : renderLines d c = some ls) :
    ls.filterMap edge? =
      (d.nodes.filter (visible c)).flatMap (fun n => n.edges.map (fun e => (e, decide (n.best = some e)))) := by
  obtain ⟨cl, last, hcl, _, _, rfl⟩ := renderLines_eq_some h
  have hcl' := clusterSection_isCluster hcl
  simp only [List.filterMap_cons, edge?, List.filterMap_append, nodeSection, flatMap_edge,
    terminalLines_edge, List.filterMap_nil, List.append_nil]
  rw [filterMap_nil_of (fun x hx => edge?_cluster (hcl' x hx)), List.append_nil]
  rfl

theorem wf_edges {d : Dump} (hwf : wfDump d = true) : ∀ n ∈ d.nodes, ∀ e ∈ n.edges, e.dst = n.id := by
  unfold wfDump at hwf
  simp only [Bool.and_eq_true] at hwf
  intro n hn e he
  have := List.all_eq_true.mp (List.all_eq_true.mp hwf.1.2 n hn) e he
  simp only [Bool.and_eq_true, beq_iff_eq] at this
  exact this.1

theorem wf_edges_src {d : Dump} (hwf : wfDump d = true) : ∀ n ∈ d.nodes, ∀ e ∈ n.edges, e.src < d.nodes.length := by
  unfold wfDump at hwf
  simp only [Bool.and_eq_true] at hwf
  intro n hn e he
  have := List.all_eq_true.mp (List.all_eq_true.mp hwf.1.2 n hn) e he
  simp only [Bool.and_eq_true, decide_eq_true_eq] at this
  exact this.2

theorem wf_getElem_id {d : Dump} (hwf : wfDump d = true) {i : Nat} (hi : i < d.nodes.length) :
    (d.nodes[i]).id = i := by
  have hids := wf_ids hwf
  have e1 : (d.nodes.map (·.id))[i]'(by simpa using hi) = i := by simp [hids]
  simpa only [List.getElem_map] using e1

/-- every drawn edge is an inbound arc of a declared node, and is bold iff it is that node's best edge -/
theorem edges_sound {d : Dump} {c : VizCfg} {ls : List Line} (h : renderLines d c = some ls)
    {e : DEdge} {b : Bool} (he : Line.edge e b ∈ ls) :
    ∃ n ∈ d.nodes, visible c n = true ∧ e ∈ n.edges ∧ (b = true ↔ n.best = some e) := by
  have hm : (e, b) ∈ ls.filterMap edge? := List.mem_filterMap.mpr ⟨_, he, rfl⟩
  rw [edges_faithful h] at hm
  simp only [List.mem_flatMap, List.mem_filter, List.mem_map] at hm
  obtain ⟨n, ⟨hn, hv⟩, e', he', heq⟩ := hm
  cases heq
  exact ⟨n, hn, hv, he', by simp⟩

/-- on a well-formed dump both endpoints of a drawn edge are nodes of the diagram: the target is the declared
    node the arc enters, the source is a node that is either declared or hidden by the configuration -/
theorem edges_endpoints {d : Dump} {c : VizCfg} {ls : List Line} (hwf : wfDump d = true)
    (h : renderLines d c = some ls) {e : DEdge} {b : Bool} (he : Line.edge e b ∈ ls) :
    (∃ n ∈ d.nodes, n.id = e.dst ∧ visible c n = true ∧ e ∈ n.edges) ∧ (∃ m ∈ d.nodes, m.id = e.src) := by
  obtain ⟨n, hn, hv, hen, _⟩ := edges_sound h he
  refine ⟨⟨n, hn, (wf_edges hwf n hn e hen).symm, hv, hen⟩, ?_⟩
  have hs := wf_edges_src hwf n hn e hen
  exact ⟨d.nodes[e.src], List.getElem_mem hs, wf_getElem_id hwf hs⟩

theorem count_flatMap_zero {ns : List DNode} {e : DEdge} (h : ∀ m ∈ ns, e ∉ m.edges) :
    (ns.flatMap (·.edges)).count e = 0 := by
  apply List.count_eq_zero.mpr
  intro hmem
  obtain ⟨m, hm, he⟩ := List.mem_flatMap.mp hmem
  exact h m hm he

theorem count_flatMap_one {ns : List DNode} (hnd : (ns.map (·.id)).Nodup)
    (hed : ∀ m ∈ ns, ∀ e ∈ m.edges, e.dst = m.id) {n : DNode} (hn : n ∈ ns) {e : DEdge} (he : e.dst = n.id) :
    (ns.flatMap (·.edges)).count e = n.edges.count e := by
  induction ns with
  | nil => cases hn
  | cons m r ih =>
    simp only [List.map_cons, List.nodup_cons, List.mem_map, not_exists, not_and] at hnd
    rw [List.flatMap_cons, List.count_append]
    rcases List.mem_cons.mp hn with rfl | hr
    · rw [count_flatMap_zero, Nat.add_zero]
      intro m' hm' hmem
      have := hed m' (List.mem_cons_of_mem _ hm') e hmem
      exact hnd.1 m' hm' (by omega)
    · have h0 : m.edges.count e = 0 := by
        apply List.count_eq_zero.mpr
        intro hmem
        have := hed m (List.mem_cons_self ..) e hmem
        exact hnd.1 n hr (by omega)
      rw [h0, Nat.zero_add]
      exact ih hnd.2 (fun m' hm' => hed m' (List.mem_cons_of_mem _ hm')) hr

/-- on a well-formed dump every inbound arc of a non-hidden node is drawn exactly as often as it occurs -/
theorem edges_count {d : Dump} {c : VizCfg} {ls : List Line} (hwf : wfDump d = true)
    (h : renderLines d c = some ls) {n : DNode} (hn : n ∈ d.nodes) (hv : visible c n = true)
    {e : DEdge} (he : e.dst = n.id) :
    ((ls.filterMap edge?).map Prod.fst).count e = n.edges.count e := by
  rw [edges_faithful h]
  have : ((d.nodes.filter (visible c)).flatMap (fun n => n.edges.map (fun e => (e, decide (n.best = some e))))).map Prod.fst
      = (d.nodes.filter (visible c)).flatMap (·.edges) := by
    rw [List.map_flatMap]
    congr 1
    funext n
    simp [List.map_map, Function.comp_def]
  rw [this]
  apply count_flatMap_one
  · have hsub : ((d.nodes.filter (visible c)).map (·.id)).Sublist (List.range d.nodes.length) := by
      rw [← wf_ids hwf]
      exact (List.filter_sublist).map _
    exact List.Nodup.sublist hsub List.nodup_range
  · intro m hm
    exact wf_edges hwf m (List.mem_filter.mp hm).1
  · exact List.mem_filter.mpr ⟨hn, hv⟩
  · exact he

/-- and nothing is drawn towards a hidden node -/
theorem edges_hidden {d : Dump} {c : VizCfg} {ls : List Line} (hwf : wfDump d = true)
    (h : renderLines d c = some ls) {n : DNode} (hn : n ∈ d.nodes) (hv : visible c n = false)
    {e : DEdge} {b : Bool} (he : e.dst = n.id) : Line.edge e b ∉ ls := by
  intro hmem
  obtain ⟨m, hm, hvm, hem, _⟩ := edges_sound h hmem
  have := wf_edges hwf m hm e hem
  have hmn : m = n := wf_id_inj hwf hm hn (by omega)
  subst hmn
  rw [hv] at hvm
  cases hvm

-- ---------------------------------------------------------------------------------------------
-- (e) edges to the terminal

/-- (e) exactly the nodes of the last layer get an edge to `terminal` (in the stored order, once per
    occurrence), bold iff their value equals `maxOf` of the values of the layer … -/
theorem terminal_edges {d : Dump} {c : VizCfg} {ls : List Line} {last : List Nat}
    (h : renderLines d c = some ls) (hl : d.layers.getLast? = some last) :
    ls.filterMap termEdge? =
      last.map (fun i => (i, decide (valueAt d.nodes i = maxOf (last.map (valueAt d.nodes))))) := by
  obtain ⟨cl, last', hcl, hl', _, rfl⟩ := renderLines_eq_some h
  rw [hl] at hl'
  cases hl'
  have hcl' := clusterSection_isCluster hcl
  simp only [List.filterMap_cons, termEdge?, List.filterMap_append, nodeSection, flatMap_termEdge,
    terminalLines_termEdge, List.filterMap_nil, List.append_nil, List.nil_append]
  rw [filterMap_nil_of (fun x hx => termEdge?_cluster (hcl' x hx)), List.nil_append]

/-- … that is: iff no node of the last layer has a larger value (the node is a best terminal node) -/
theorem terminal_edges_bold {d : Dump} {c : VizCfg} {ls : List Line} {last : List Nat}
    (h : renderLines d c = some ls) (hl : d.layers.getLast? = some last) {i : Nat} {b : Bool}
    (hi : Line.terminalEdge i b ∈ ls) :
    i ∈ last ∧ (b = true ↔ ∀ j ∈ last, valueAt d.nodes j ≤ valueAt d.nodes i) := by
  have hm : (i, b) ∈ ls.filterMap termEdge? := List.mem_filterMap.mpr ⟨_, hi, rfl⟩
  rw [terminal_edges h hl] at hm
  obtain ⟨i', hi', heq⟩ := List.mem_map.mp hm
  cases heq
  refine ⟨hi', ?_⟩
  have hne : last.map (valueAt d.nodes) ≠ [] := by
    intro h0
    rw [List.map_eq_nil_iff] at h0
    rw [h0] at hi'
    cases hi'
  obtain ⟨hmem, hmax⟩ := maxOf_spec hne
  rw [decide_eq_true_iff]
  constructor
  · intro heq j hj
    rw [heq]
    exact hmax _ (List.mem_map_of_mem hj)
  · intro hall
    obtain ⟨j, hj, hje⟩ := List.mem_map.mp hmem
    have h1 := hall j hj
    have h2 := hmax _ (List.mem_map_of_mem hi')
    omega

/-- the value read for a node of the last layer is that node's `value_top` (well-formed dump) -/
theorem valueAt_of_mem {d : Dump} (hwf : wfDump d = true) {n : DNode} (hn : n ∈ d.nodes) :
    valueAt d.nodes n.id = n.valueTop := by
  have hids := wf_ids hwf
  obtain ⟨i, hi, rfl⟩ := List.mem_iff_getElem.mp hn
  have e1 : (d.nodes.map (·.id))[i]'(by simpa using hi) = i := by simp [hids]
  simp only [List.getElem_map] at e1
  rw [e1]
  simp [valueAt, hi]

-- ---------------------------------------------------------------------------------------------
-- skeleton of the digraph

/-- the text is `digraph {` … `}`: the header comes first, the footer last, and neither occurs in between -/
theorem skeleton {d : Dump} {c : VizCfg} {ls : List Line} (h : renderLines d c = some ls) :
    ∃ body, ls = Line.header :: (body ++ [Line.footer]) ∧ Line.header ∉ body ∧ Line.footer ∉ body := by
  obtain ⟨cl, last, hcl, _, _, rfl⟩ := renderLines_eq_some h
  have hcl' := clusterSection_isCluster hcl
  refine ⟨nodeSection d c ++ cl ++ terminalLines d.nodes last, rfl, ?_, ?_⟩
  all_goals
    simp only [List.mem_append, not_or]
    refine ⟨⟨?_, ?_⟩, ?_⟩
    · intro h
      simp only [nodeSection, List.mem_flatMap, nodeLines, List.mem_cons, List.mem_map] at h
      obtain ⟨n, _, h | ⟨e, _, h⟩⟩ := h <;> cases h
    · intro h
      have := hcl' _ h
      cases this
    · intro h
      unfold terminalLines at h
      split at h
      · cases h
      · simp only [List.mem_cons, List.mem_map] at h
        rcases h with h | ⟨i, _, h⟩ <;> cases h

-- ---------------------------------------------------------------------------------------------
-- clusters (only drawn when `show_deleted && group_merged`; then every node is declared)

theorem cluster_mem_iff {d : Dump} {c : VizCfg} {ls : List Line} (h : renderLines d c = some ls)
    {k : Nat} {ids : List Nat} :
    Line.cluster k ids ∈ ls ↔ ∃ cl, clusterSection d c = some cl ∧ Line.cluster k ids ∈ cl := by
  obtain ⟨cl, last, hcl, _, _, rfl⟩ := renderLines_eq_some h
  simp only [List.mem_cons, List.mem_append, List.mem_nil_iff, or_false, hcl, Option.some.injEq,
    exists_eq_left']
  constructor
  · rintro (h | ((h | h) | h) | h)
    · cases h
    · simp only [nodeSection, List.mem_flatMap, nodeLines, List.mem_cons, List.mem_map] at h
      obtain ⟨n, _, h | ⟨e, _, h⟩⟩ := h <;> cases h
    · exact h
    · unfold terminalLines at h
      split at h
      · cases h
      · simp only [List.mem_cons, List.mem_map] at h
        rcases h with h | ⟨i, _, h⟩ <;> cases h
    · cases h
  · intro h; right; left; left; right; exact h

theorem clusters0_mem_iff (ns : List DNode) (i : Nat) (ls : List (List Nat)) (k : Nat) (ids : List Nat) :
    Line.cluster k ids ∈ clusters0 ns i ls ↔
      ∃ j l, ls[j]? = some l ∧ k = i + j ∧ ids = l.filter (mergedAt ns) ∧ ids ≠ [] := by
  induction ls generalizing i with
  | nil => simp [clusters0]
  | cons a ls ih =>
    have step : (∃ j l, (a :: ls)[j]? = some l ∧ k = i + j ∧ ids = l.filter (mergedAt ns) ∧ ids ≠ []) ↔
        ((k = i ∧ ids = a.filter (mergedAt ns) ∧ ids ≠ []) ∨
          ∃ j l, ls[j]? = some l ∧ k = i + 1 + j ∧ ids = l.filter (mergedAt ns) ∧ ids ≠ []) := by
      constructor
      · rintro ⟨j, l, hj, hk, hi, hne⟩
        cases j with
        | zero =>
          simp only [List.getElem?_cons_zero, Option.some.injEq] at hj
          subst hj; left; exact ⟨by omega, hi, hne⟩
        | succ j =>
          simp only [List.getElem?_cons_succ] at hj
          right; exact ⟨j, l, hj, by omega, hi, hne⟩
      · rintro (⟨hk, hi, hne⟩ | ⟨j, l, hj, hk, hi, hne⟩)
        · exact ⟨0, a, by simp, by omega, hi, hne⟩
        · exact ⟨j + 1, l, by simpa using hj, by omega, hi, hne⟩
    rw [step]
    simp only [clusters0]
    split
    · rename_i hemp
      rw [ih]
      constructor
      · intro h; right; exact h
      · rintro (⟨_, hi, hne⟩ | h)
        · rw [List.isEmpty_iff] at hemp
          rw [hemp] at hi
          exact absurd hi hne
        · exact h
    · rename_i hemp
      rw [List.mem_cons, ih]
      constructor
      · rintro (h | h)
        · cases h
          left
          refine ⟨rfl, rfl, ?_⟩
          intro h0
          rw [h0] at hemp
          exact hemp rfl
        · right; exact h
      · rintro (⟨hk, hi, _⟩ | h)
        · left; rw [hk, hi]
        · right; exact h

/-- clean.rs: `cluster_k` is drawn iff clusters are requested and layer `k` has deleted or relaxed nodes; it
    lists exactly those, in layer order -/
theorem clusters_kind0 {d : Dump} {c : VizCfg} {ls : List Line} (h : renderLines d c = some ls)
    (hk : d.kind = 0) {k : Nat} {ids : List Nat} :
    Line.cluster k ids ∈ ls ↔
      (c.showDeleted = true ∧ c.groupMerged = true ∧
        ∃ l, d.layers[k]? = some l ∧ ids = l.filter (mergedAt d.nodes) ∧ ids ≠ []) := by
  rw [cluster_mem_iff h]
  obtain ⟨cl, last, hcl, _, _, _⟩ := renderLines_eq_some h
  unfold clusterSection at hcl ⊢
  by_cases hc : (c.showDeleted && c.groupMerged) = true
  · have hc' := hc
    simp only [Bool.and_eq_true] at hc'
    simp only [hc, hk, ↓reduceIte] at hcl ⊢
    split at hcl
    · rename_i hall
      simp only [hall, ↓reduceIte, Option.some.injEq, exists_eq_left', clusters0_mem_iff, Nat.zero_add]
      constructor
      · rintro ⟨j, l, hj, rfl, hi, hne⟩
        exact ⟨hc'.1, hc'.2, l, hj, hi, hne⟩
      · rintro ⟨_, _, l, hj, hi, hne⟩
        exact ⟨k, l, hj, rfl, hi, hne⟩
    · cases hcl
  · simp only [hc, Bool.false_eq_true, ↓reduceIte, Option.some.injEq, exists_eq_left', List.not_mem_nil,
      false_iff, not_and]
    intro h1 h2
    simp [h1, h2] at hc

theorem mem_insertGroup {k v : Nat} {acc : List (Nat × List Nat)} {g : Nat × List Nat}
    (h : g ∈ insertGroup k v acc) :
    g ∈ acc ∨ g = (k, [v]) ∨ ∃ vs, (k, vs) ∈ acc ∧ g = (k, vs ++ [v]) := by
  induction acc with
  | nil =>
    simp only [insertGroup, List.mem_singleton] at h
    right; left; exact h
  | cons a r ih =>
    obtain ⟨k', vs⟩ := a
    simp only [insertGroup] at h
    split at h
    · rcases List.mem_cons.mp h with h | h
      · right; left; exact h
      · left; exact h
    · split at h
      · rename_i _ heq
        subst heq
        rcases List.mem_cons.mp h with h | h
        · right; right; exact ⟨vs, List.mem_cons_self .., h⟩
        · left; exact List.mem_cons_of_mem _ h
      · rcases List.mem_cons.mp h with h | h
        · left; rw [h]; exact List.mem_cons_self ..
        · rcases ih h with h | h | ⟨vs', hm, h⟩
          · left; exact List.mem_cons_of_mem _ h
          · right; left; exact h
          · right; right; exact ⟨vs', List.mem_cons_of_mem _ hm, h⟩

theorem insertGroup_new (k v : Nat) (acc : List (Nat × List Nat)) :
    ∃ g ∈ insertGroup k v acc, g.1 = k ∧ v ∈ g.2 := by
  induction acc with
  | nil => exact ⟨(k, [v]), by simp [insertGroup], rfl, by simp⟩
  | cons a r ih =>
    obtain ⟨k', vs⟩ := a
    simp only [insertGroup]
    split
    · exact ⟨(k, [v]), List.mem_cons_self .., rfl, by simp⟩
    · split
      · rename_i _ heq
        exact ⟨(k', vs ++ [v]), List.mem_cons_self .., heq.symm, by simp⟩
      · obtain ⟨g, hg, h1, h2⟩ := ih
        exact ⟨g, List.mem_cons_of_mem _ hg, h1, h2⟩

theorem insertGroup_old (k v : Nat) (acc : List (Nat × List Nat)) {g : Nat × List Nat} (hg : g ∈ acc) :
    ∃ g' ∈ insertGroup k v acc, g'.1 = g.1 ∧ ∀ x ∈ g.2, x ∈ g'.2 := by
  induction acc with
  | nil => cases hg
  | cons a r ih =>
    obtain ⟨k', vs⟩ := a
    simp only [insertGroup]
    split
    · exact ⟨g, List.mem_cons_of_mem _ hg, rfl, fun _ h => h⟩
    · split
      · rcases List.mem_cons.mp hg with h | h
        · subst h
          exact ⟨(k', vs ++ [v]), List.mem_cons_self .., rfl, fun x hx => List.mem_append_left _ hx⟩
        · exact ⟨g, List.mem_cons_of_mem _ h, rfl, fun _ h => h⟩
      · rcases List.mem_cons.mp hg with h | h
        · subst h
          exact ⟨(k', vs), List.mem_cons_self .., rfl, fun _ h => h⟩
        · obtain ⟨g', hg', h1, h2⟩ := ih h
          exact ⟨g', List.mem_cons_of_mem _ hg', h1, h2⟩

theorem insertGroup_sorted (k v : Nat) {acc : List (Nat × List Nat)}
    (h : (acc.map (·.1)).Pairwise (· < ·)) : ((insertGroup k v acc).map (·.1)).Pairwise (· < ·) := by
  induction acc with
  | nil => simp [insertGroup]
  | cons a r ih =>
    obtain ⟨k', vs⟩ := a
    simp only [List.map_cons, List.pairwise_cons, List.mem_map] at h
    simp only [insertGroup]
    split
    · rename_i hlt
      simp only [List.map_cons, List.pairwise_cons, List.mem_cons, List.mem_map]
      refine ⟨?_, h.1, h.2⟩
      rintro x (rfl | ⟨g, hg, rfl⟩)
      · exact hlt
      · have := h.1 g.1 ⟨g, hg, rfl⟩
        omega
    · split
      · simp only [List.map_cons, List.pairwise_cons, List.mem_map]
        exact h
      · rename_i h1 h2
        simp only [List.map_cons, List.pairwise_cons, List.mem_map]
        refine ⟨?_, ih h.2⟩
        rintro x ⟨g, hg, rfl⟩
        rcases mem_insertGroup hg with hg | hg | ⟨vs', _, hg⟩
        · exact h.1 g.1 ⟨g, hg, rfl⟩
        · rw [hg]; show k' < k; omega
        · rw [hg]; show k' < k; omega

/-- the grouping of pooled.rs: invariant of the fold over the merged nodes `P` seen so far -/
structure GroupInv (P : List DNode) (acc : List (Nat × List Nat)) : Prop where
  sorted : (acc.map (·.1)).Pairwise (· < ·)
  sound : ∀ g ∈ acc, g.2 ≠ [] ∧ ∀ v ∈ g.2, ∃ n ∈ P, n.id = v ∧ n.depth = g.1
  complete : ∀ n ∈ P, ∃ g ∈ acc, g.1 = n.depth ∧ n.id ∈ g.2

theorem groupInv_foldl (S : List DNode) (P : List DNode) (acc : List (Nat × List Nat)) (h : GroupInv P acc) :
    GroupInv (P ++ S) (S.foldl (fun acc n => insertGroup n.depth n.id acc) acc) := by
  induction S generalizing P acc with
  | nil => simpa using h
  | cons n S ih =>
    rw [List.foldl_cons]
    have := ih (P ++ [n]) (insertGroup n.depth n.id acc) ?_
    · simpa using this
    · refine ⟨insertGroup_sorted _ _ h.sorted, ?_, ?_⟩
      · intro g hg
        rcases mem_insertGroup hg with hg | hg | ⟨vs, hm, hg⟩
        · obtain ⟨h1, h2⟩ := h.sound g hg
          refine ⟨h1, fun v hv => ?_⟩
          obtain ⟨m, hm, e1, e2⟩ := h2 v hv
          exact ⟨m, List.mem_append_left _ hm, e1, e2⟩
        · subst hg
          refine ⟨by simp, fun v hv => ?_⟩
          simp only [List.mem_singleton] at hv
          subst hv
          exact ⟨n, by simp, rfl, rfl⟩
        · subst hg
          refine ⟨by simp, fun v hv => ?_⟩
          rcases List.mem_append.mp hv with hv | hv
          · obtain ⟨m, hm', e1, e2⟩ := (h.sound _ hm).2 v hv
            exact ⟨m, List.mem_append_left _ hm', e1, e2⟩
          · simp only [List.mem_singleton] at hv
            subst hv
            exact ⟨n, by simp, rfl, rfl⟩
      · intro m hm
        rcases List.mem_append.mp hm with hm | hm
        · obtain ⟨g, hg, e1, e2⟩ := h.complete m hm
          obtain ⟨g', hg', e1', e2'⟩ := insertGroup_old n.depth n.id acc hg
          exact ⟨g', hg', by omega, e2' _ e2⟩
        · simp only [List.mem_singleton] at hm
          subst hm
          exact insertGroup_new _ _ _

/-- pooled.rs: when clusters are requested, the cluster keys are strictly increasing depths, every cluster is
    non-empty and lists ids of deleted or relaxed nodes of that depth, and every deleted or relaxed node is
    listed in the cluster of its depth -/
theorem clusters_kind1 {d : Dump} {c : VizCfg} {ls : List Line} (h : renderLines d c = some ls)
    (hk : d.kind ≠ 0) :
    (∀ k ids, Line.cluster k ids ∈ ls →
        c.showDeleted = true ∧ c.groupMerged = true ∧ ids ≠ [] ∧
          ∀ i ∈ ids, ∃ n ∈ d.nodes, n.id = i ∧ n.depth = k ∧ (n.isDeleted || n.isRelaxed) = true) ∧
    (c.showDeleted = true → c.groupMerged = true → ∀ n ∈ d.nodes, (n.isDeleted || n.isRelaxed) = true →
        ∃ ids, Line.cluster n.depth ids ∈ ls ∧ n.id ∈ ids) ∧
    ((ls.filterMap clusterKey?).Pairwise (· < ·)) := by
  have inv := groupInv_foldl (d.nodes.filter (fun n => n.isDeleted || n.isRelaxed)) [] []
    ⟨by simp, by simp, by simp⟩
  simp only [List.nil_append] at inv
  have hsec : clusterSection d c =
      if (c.showDeleted && c.groupMerged) = true then some (clusters1 d.nodes) else some [] := by
    unfold clusterSection
    simp [hk]
  refine ⟨?_, ?_, ?_⟩
  · intro k ids hmem
    rw [cluster_mem_iff h, hsec] at hmem
    obtain ⟨cl, hcl, hmem⟩ := hmem
    split at hcl
    · rename_i hc
      simp only [Bool.and_eq_true] at hc
      cases hcl
      simp only [clusters1, List.mem_map] at hmem
      obtain ⟨g, hg, heq⟩ := hmem
      cases heq
      obtain ⟨h1, h2⟩ := inv.sound g hg
      refine ⟨hc.1, hc.2, h1, fun i hi => ?_⟩
      obtain ⟨n, hn, e1, e2⟩ := h2 i hi
      have := List.mem_filter.mp hn
      exact ⟨n, this.1, e1, e2, this.2⟩
    · cases hcl; cases hmem
  · intro h1 h2 n hn hm
    obtain ⟨g, hg, e1, e2⟩ := inv.complete n (List.mem_filter.mpr ⟨hn, hm⟩)
    refine ⟨g.2, ?_, e2⟩
    rw [cluster_mem_iff h, hsec]
    refine ⟨clusters1 d.nodes, by simp [h1, h2], ?_⟩
    simp only [clusters1, List.mem_map]
    exact ⟨g, hg, by rw [e1]⟩
  · obtain ⟨cl, last, hcl, _, _, rfl⟩ := renderLines_eq_some h
    have hns : (nodeSection d c).filterMap clusterKey? = [] := by
      apply filterMap_nil_of
      intro x hx
      simp only [nodeSection, List.mem_flatMap, nodeLines, List.mem_cons, List.mem_map] at hx
      obtain ⟨n, _, rfl | ⟨e, _, rfl⟩⟩ := hx <;> rfl
    have htm : (terminalLines d.nodes last).filterMap clusterKey? = [] := by
      apply filterMap_nil_of
      intro x hx
      unfold terminalLines at hx
      split at hx
      · cases hx
      · simp only [List.mem_cons, List.mem_map] at hx
        rcases hx with rfl | ⟨i, _, rfl⟩ <;> rfl
    simp only [List.filterMap_cons, clusterKey?, List.filterMap_append, hns, htm, List.filterMap_nil,
      List.append_nil, List.nil_append]
    rw [hsec] at hcl
    split at hcl
    · cases hcl
      simp only [clusters1, List.filterMap_map]
      have : (List.filterMap (clusterKey? ∘
          fun (g : Nat × List Nat) => Line.cluster g.1 g.2)) = List.filterMap (fun g => some g.1) := rfl
      rw [this, List.filterMap_eq_map']
      exact inv.sorted
    · cases hcl; simp

-- ---------------------------------------------------------------------------------------------
-- stated, not proved

/-- NOT PROVED.  Text-level reading of (b): the *bytes* returned by `render` contain the terminal declaration
    line iff the last layer is non-empty.  It needs a hypothesis on the states (a `Debug` text containing a tab
    followed by `terminal [shape=…` would be a counter-example) and reasoning on `String` concatenation that the
    structured statement `terminal_iff_last_layer_nonempty` avoids.  The link between the two levels is
    `render_eq` (`render = map linesText ∘ renderLines`, by `rfl`) and the `*_text` lemmas. -/
def TerminalTextLevel : Prop :=
  ∀ (d : Dump) (c : VizCfg) (s : String), render d c = some s →
    (∀ n ∈ d.nodes, '\t' ∉ n.state.toList) →
    (terminalDeclText.toList <:+: s.toList ↔ ∃ last, d.layers.getLast? = some last ∧ last ≠ [])

-- ---------------------------------------------------------------------------------------------
-- a concrete well-formed dump

def exNode (id depth : Nat) (v : Int) (best : Option DEdge) (edges : List DEdge) (deleted : Bool := false) : DNode :=
  { id, depth, valueTop := v, valueBot := iMin, rub := iMax, theta := none,
    isExact := !deleted, isRelaxed := false, isMarked := false, isCutset := false, isDeleted := deleted,
    isPruned := false, isAbove := false, state := toString id, best, edges }

/-- root `0`, two children `1`, `2` (the second one deleted by a restriction), one terminal-layer node `3` -/
def exDump : Dump :=
  { kind := 0,
    nodes := [ exNode 0 0 0 none [],
               exNode 1 1 3 (some ⟨0, 1, 0, 1, 3⟩) [⟨0, 1, 0, 1, 3⟩],
               exNode 2 1 (-2) (some ⟨0, 2, 0, 0, -2⟩) [⟨0, 2, 0, 0, -2⟩] true,
               exNode 3 2 5 (some ⟨1, 3, 1, 1, 2⟩) [⟨1, 3, 1, 0, 0⟩, ⟨1, 3, 1, 1, 2⟩] ],
    layers := [[0], [1, 2], [3]] }

example : wfDump exDump = true := by decide

def exCfg : VizCfg :=
  { showValue := true, showLocb := false, showRub := false, showThreshold := false, showDeleted := false,
    groupMerged := false }

example : (render exDump exCfg).isSome = true := by
  cases h : render exDump exCfg with
  | some _ => rfl
  | none => rw [render_total (by decide)] at h; cases h

example : renderLines exDump exCfg = some
    [ .header,
      .node 0 "shape=circle,style=filled,color=\"#99ccff\",peripheries=1,group=\"root\",label=\"0\\nval: 0\"",
      .node 1 "shape=circle,style=filled,color=\"#99ccff\",peripheries=1,group=\"0\",label=\"1\\nval: 3\"",
      .edge ⟨0, 1, 0, 1, 3⟩ true,
      .node 3 "shape=circle,style=filled,color=\"#99ccff\",peripheries=1,group=\"1\",label=\"3\\nval: 5\"",
      .edge ⟨1, 3, 1, 0, 0⟩ false,
      .edge ⟨1, 3, 1, 1, 2⟩ true,
      .terminalDecl,
      .terminalEdge 3 true,
      .footer ] := by decide

set_option maxRecDepth 1000000 in
/-- the bytes, checked by the kernel -/
example : render exDump exCfg = some
  ("digraph {\n\tranksep = 3;\n\n"
   ++ "\t0 [shape=circle,style=filled,color=\"#99ccff\",peripheries=1,group=\"root\",label=\"0\\nval: 0\"];\n"
   ++ "\t1 [shape=circle,style=filled,color=\"#99ccff\",peripheries=1,group=\"0\",label=\"1\\nval: 3\"];\n"
   ++ "\t0 -> 1 [penwidth=3,label=\"(x0 = 1)\\ncost = 3\"];\n"
   ++ "\t3 [shape=circle,style=filled,color=\"#99ccff\",peripheries=1,group=\"1\",label=\"3\\nval: 5\"];\n"
   ++ "\t1 -> 3 [penwidth=1,label=\"(x1 = 0)\\ncost = 0\"];\n"
   ++ "\t1 -> 3 [penwidth=3,label=\"(x1 = 1)\\ncost = 2\"];\n"
   ++ "\tterminal [shape=\"circle\", label=\"\", style=\"filled\", color=\"black\", group=\"terminal\"];\n"
   ++ "\t3 -> terminal [penwidth=3];\n"
   ++ "}\n") := by decide

end Ddo.C20

#print axioms Ddo.C20.render_none_iff
#print axioms Ddo.C20.render_total
#print axioms Ddo.C20.terminal_iff_last_layer_nonempty
#print axioms Ddo.C20.terminal_decl_count
#print axioms Ddo.C20.nodes_once
#print axioms Ddo.C20.nodes_once_wf
#print axioms Ddo.C20.edges_faithful
#print axioms Ddo.C20.edges_sound
#print axioms Ddo.C20.edges_endpoints
#print axioms Ddo.C20.edges_count
#print axioms Ddo.C20.edges_hidden
#print axioms Ddo.C20.terminal_edges
#print axioms Ddo.C20.terminal_edges_bold
#print axioms Ddo.C20.valueAt_of_mem
#print axioms Ddo.C20.skeleton
#print axioms Ddo.C20.clusters_kind0
#print axioms Ddo.C20.clusters_kind1
#print axioms Ddo.C20.maxOf_spec
