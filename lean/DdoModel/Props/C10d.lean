import DdoModel.Props.C10c
import DdoModel.Proofs.CompatSoundA
import DdoModel.Proofs.CompatSound
import DdoModel.Proofs.CompatGrid
import DdoModel.Proofs.CompatGridWf
import DdoModel.Proofs.CompatOrder
import DdoModel.Proofs.CompatTurn
import DdoModel.Proofs.CompatMono
import DdoModel.Proofs.CompatStore
import DdoModel.Proofs.CompatShadow
import DdoModel.Proofs.CompatSearch
/-! # C09 + C10 together, rule-maximal merge operators — the sub-question `CachingDominanceCompat` of `Props/C10c.lean`, and `JointSound`

`Props/C10c.lean` refuted the joint statement "cache **and** dominance checker together return the optimum" for every notion of valid
rule (`Twin`: simulation for all pairs), observed that all counter-examples need a merge operator whose result the rule ranks below an
exact state it replaces, and left open `CachingDominanceCompat`: `WellFormed` + `SimAll` + static order + `MergeCompat`.

## verdicts

1. **`JointSound` is a theorem** (`Ddo.C10c.jointSound`, `Proofs/CompatSound*.lean`; here `joint_sound`): for every well-formed model and
   **every** dominance rule the sequential solver with `SimpleCache` and `SimpleDominanceChecker` terminates, never panics, is never
   aborted, and only ever reports the value of a stored feasible complete path (`best_lb ≤ optimum`; nothing for an infeasible
   problem).  New diagram-level facts, for any cache content, any store content, any rule: `compile_no_crash_joint` (no panic, the store
   keeps its layers), `isSol_relaxed_joint` (the exact-best-path invariant `G2` survives both filters), `ups_depth_joint` (every
   `update_threshold` is in range; the recorded thresholds belong to exactly reached nodes).  So D17 is a loss of *optimality* only:
   the value reported with `is_exact = true` is the value of a feasible solution, never more than the optimum.

2. **`CachingDominanceCompat` is false as stated** (`cachingDominanceCompat_false`, model `Ddo.C10d.Shadow`, `Proofs/CompatShadow.lean`;
   finding **D18**): a `WellFormed` model, static order, a rule that satisfies `SimAll`, a merge operator that is an upper bound, in the
   rule's order, of the states it replaces (`MergeCompat`), 6 binary variables, 11 states, `FixedWidth(1)`: cache alone 10, checker alone
   10 (the closed theorems apply: `Shadow.cache_only_correct`, `Shadow.dom_only_correct`), **both: `is_exact = true`,
   `best_value = Some(5)`, optimum 10** — both fringes, both cut-set kinds, forced pop order, four turns explained in
   `Shadow.stage1 … stage_end`, all `decide`d; reproduced on the real library (crate `/tmp/agent_compat/rs`: `SeqCachingSolverLel/Fc`,
   both fringes, `ParCachingSolverLel/Fc` with one thread, `DefaultCachingSolver` report `Some(5)`; `EmptyCache` or
   `EmptyDominanceChecker` report `Some(10)`).
   The hypothesis that is missing is not about the merge operator but about the **rough upper bound**: `WellFormed` ties
   `fast_upper_bound` to the potential `H`, and `H` to the value-to-go on *exactly reached* states (and results of `merge`) only.  The
   relaxed image of a protected path passes through states that are neither (children of merged states); `SimAll` + `MergeCompat` make
   those states at least as good, in the rule's order, as the protected ones — but nothing makes their rough upper bound valid.
   `Shadow`: `fast_upper_bound(S) = 5`, value-to-go of `S` = 10 (`Shadow.rub_below_value`).  With the bound of `S` raised to its
   value-to-go the same tables give 10 in every configuration (`ShadowH.joint_value`).

3. **The repaired statement `CachingDominanceCompatMono`** — `CachingDominanceCompat` + **`PotMono`**: the potential is monotone in the
   rule's order on *all* states, i.e. the rough upper bound is valid on every state the rule ranks above an exactly reached one (true of
   every shipped example: their `fast_upper_bound` bounds the value-to-go of every state; `Kp.potMono`; in general
   `potMono_of_leAll`, `Proofs/CompatMono.lean`: a potential that satisfies `Potential.le` on **all** states — the value-to-go of every
   state, reached or not — is monotone in the order of any `SimAll` rule) — is **reduced to one named
   obligation**, `CompatTurn` (one turn preserves the joint invariant `CompatInv`): `jointCorrect_of_turn : CompatTurn →
   CachingDominanceCompatMono`, using `jointSound` for termination, progress, absence of panics and soundness, `init_compatInv` and
   `compatInv_end`.  The turns that skip the popped node (`ub ≤ best_lb`, `must_explore`) are proved to preserve the invariant
   (`compatInv_skip`, `Proofs/CompatTurn.lean`), so the obligation shrinks to **`CompatProcess`** — the turn in which both tests pass
   and the two compilations run: `compatTurn_of_process`, `jointCorrect_of_process : CompatProcess → CachingDominanceCompatMono`.
   Its clause *store* is proved too (`kdturn_storeReach`, `krun_storeReach`, `Proofs/CompatStore.lean`: with both filters on, the
   checker only ever holds exactly reached items — `compile_storeReach_joint`), which leaves **`CompatProcessME`**: the clauses *main*
   and *entries* over a compiled turn; `jointCorrect_of_me : CompatProcessME → CachingDominanceCompatMono`.
   `CompatProcessME` is **not proved**; no counter-example in the search below (every generated model satisfies `PotMono`), and the
   invariant itself, evaluated in every state the search visits, never fails.

## the joint invariant (`Proofs/CompatOrder.lean`)

`Good` (`Proofs/DomSim.lean`) = the protected family of a simulation-admissible rule: exactly reached, undominated, on an undominated
optimal path; upward closed among exactly reached items.  `GAbove k s v` = "`(s, v)` — **any** state — is at least as good, in the
rule's order, as a `Good` item of depth `k`": what a relaxed node is under `MergeCompat`.  `Solid q` = `q` is open, `Good`, accepted by
`must_explore`, and `q.ub ≥ opt`.  `CompatInv`:

* **main** — `best_lb ≥ opt`, or a solid open sub-problem exists;
* **entries** — every cache entry `(x, d) ↦ θ` that *applies to a `GAbove` item* (`v' ≤ θ`, `(x, v')` `GAbove` at depth `d`) is backed by
  `best_lb ≥ opt` or a solid open sub-problem of depth `≥ d` (the depth stratification of C09: a compilation consumes entries strictly
  deeper than its root);
* **store** — the checker holds exactly reached items.

It replaces the potential-based invariant of C09 ("what the cache prunes has a potential carried by an open node": `Carrier` and `Twin`
show that the carrier may be dropped by the checker) by an order-based one: only pruning that hits the `GAbove` family matters, and
that pruning is always deferred to a **protected** open node, which the checker never drops.  Proved: `GAbove` is upward closed, is
`Good` on exactly reached items (`GAbove.good`), is never dominated by an exactly reached item (`GAbove.undom`), is closed under the
simulating decision, `merge` and arc relaxation (`GAbove.step`, `GAbove.merge`, `GAbove.relaxed_arc`), has a value `≥ opt` at the
terminal depth (`GAbove.term`), is never cut by the rough upper bound while `best_lb < opt` **if `PotMono`** (`GAbove.rub`), and is never
below the threshold of a `dominated` verdict (`GAbove.not_below_threshold`).

**How `MergeCompat` (+ `PotMono`) breaks the three cycles of `Props/C10c.lean`.**
1. *A dominance verdict applied to relaxed nodes* (`Cross`, `CrossSim`): the threshold `t` of a verdict on `(s, v)` says "`(s, v')` is
   dominated by an exactly reached item for every `v' ≤ t`".  A relaxed node with state `s` and value `≤ t` stands, under `MergeCompat`,
   for exact items it is at least as good as; if one of them were protected the node would be `GAbove`, and a `GAbove` item is never
   dominated by an exactly reached item: `GAbove.not_below_threshold`.  The thresholds derived from verdicts never touch the family.
2. *The carrier of a potential is dropped by the checker* (`Carrier`): the invariant no longer speaks of potentials.  The witness of an
   entry that matters is `Solid`, hence `Good`, hence never reported dominated (`query_protected`).
3. *A cycle of deferrals* (`Twin`): the cache defers the image `M` of a protected `E` to an open node `k2` only through an entry at
   `M`'s `(state, depth)` with threshold `≥ M.value`; the entry `k2` writes for itself is `(k2.state, k2.value)`.  If the checker is
   later to drop `k2` in favour of `E`, then `E` strictly dominates `k2`; `M` is at least as good as `E` (`GAbove.merge`), so either
   `M.state ≠ k2.state` or `M.value ≥ E.value > k2.value`: the entry does not apply.  Entries propagated upwards from `k2` are handled
   by following the simulating decision downwards (`GAbove.relaxed_arc`) until the cut-set node kept open (which is then `Good`:
   `GAbove.good`), a terminal node (value `≥ opt`: `GAbove.term`, contradiction with `θ = best`), a node cut by the rough upper bound
   (excluded by `GAbove.rub` — **the step that fails in `Shadow`**), a dominated node (excluded by 1), or a node pruned by an older,
   strictly deeper entry (induction).

**Why `CompatTurn` should hold** (argument, not a proof).  Processing a solid `q`: its root is not dropped by the checker; follow the
simulating decisions through the relaxed diagram.  The nodes met are `GAbove`; an exact one is `Good` and carries exactly the value of
the protected item (a larger value would beat the optimum).  The walk ends (a) at a terminal node: a restricted / exact diagram then
reports `≥ opt`; in a relaxed diagram the last exact node of the walk is a cut-set node `c`, `Good`, marked, with local bound `≥ opt`,
enqueued, and its own entry `(c.value, unexplored)` lets `must_explore` accept it: `c` is solid; or (b) at a node pruned by the cache:
the entry applies to a `GAbove` item and is strictly deeper than `q`: **entries** gives a solid node other than `q`.  Rough upper bound
and dominance cannot end the walk (`GAbove.rub`, `GAbove.undom`).  New entries: for an exact node `x` above the cut-set and a `GAbove`
item `(x.state, v')` with `v' ≤ θ(x)`, the same walk from `x` with the invariant `v' + (cost so far) ≤ θ(node)` (the propagation rule of
`_compute_thresholds`, `min` over all arcs, thresholds of pruned / dominated / bound-cut nodes below the cut-set included) ends in a
cut-set node kept open (solid), a pruned node (older entry, induction) or a contradiction.  Processing any other node only adds
exactly reached items to the checker, and entries whose `(state, depth)` is that of a solid `q` cannot exceed `q.value` unless they
come from a node that equals `q` as an item — which `q`'s own entry pruned.  Skipped nodes (`ub ≤ best_lb`, `must_explore`) are not
solid unless `best_lb ≥ opt`.

## search (`Proofs/CompatSearch.lean`, family `Ddo.C10d.Grid` of `Proofs/CompatGrid.lean`; native code, driver `/tmp/agent_compat/search`)

Models drawn **inside** the hypotheses of `CachingDominanceCompatMono` by construction (and re-checked: `checkSim`, `checkJoin`,
`checkRub`): states = representatives of the points of a grid (two coordinates: *partial* order; several representatives per point:
*coarse* rule with equivalent distinct states; one row: total order, the knapsack regime), ONE key, the value used (forced by `SimAll`),
monotone transition / cost / domain tables (knapsack "take / leave" steps with correlated rewards, random monotone maps, gains,
constants; decisions swapped per state so that the simulating decision is not the same decision; dead ends), merge = representative of
the least (or of a random) upper bound, relaxed arc cost = cost or cost + 1, rough upper bound constant or per state, tight or slack,
**above the value-to-go of every state**, costs with many ties, widths 1 … 3 as a function of (depth, state), random ranking, both
decision orders; four configurations per model (both fringes × both cut-set kinds), best-first with the deterministic and random
resolutions of ties.  Besides the value at the empty fringe the search evaluates **the conjectured invariant itself** in every visited
state: `goodTable` computes the protected family `Good` of the model, `invOk` the clauses *main* and *entries* of `CompatInv` — a direct
test of the named obligation `CompatProcess`, independent of the final value.
**Statistics** (≈ 75 minutes on 3 – 5 cores).  Random models, best-first: 11.0 million models (4.1 million with a partial order, 4.5
million with several states per grid point), **45.5 million complete runs, 111 million turns: 0 wrong values, 0 panics**; the checker
prunes in 28.2 million runs, the cache prunes a node of a layer in 8.4 million, an *inexact* node in 494 000 (in 427 000 of them the
checker prunes in the same run), `must_explore` refuses a popped node in 83 000, the checker drops the root of a popped sub-problem (the
last step of `Twin` / `Shadow`) in 66 000.  In 13.0 million of these runs (32.6 million states) the executable invariant was evaluated
in every visited state: **never violated**.  Arbitrary pop orders (not covered by the statement, which is about `KDStep`): 14.8 million
runs on the same models, 0 wrong values, invariant never violated.  Mutation search around `Shadow` with the rough upper bound
repaired: 210 000 accepted mutants (`SimAll`, `MergeCompat` re-checked), 840 000 runs, 88 % of which contain both the cache-pruned
relaxed node and the root dropped by the checker: 0 wrong values, invariant never violated (760 000 runs checked).  Secondary regime
(`rubMode = 2`: rough upper bound above the value-to-go of the exactly reachable items a state dominates only — still too honest to
break anything, the shadow state of `Shadow` dominates a reachable state): 658 000 runs, 0 wrong values.  On `Shadow` itself the
executable invariant fails in the two states after turn 3, as it must.
Sanity of the runner and of the executable invariant: the runner
reports 5 / 10 on `Twin` and on `Shadow`. -/
set_option linter.unusedSectionVars false
set_option linter.unusedVariables false
namespace Ddo.C10d
open Ddo Ddo.C01 Ddo.Closed Ddo.C09 Ddo.C10 Ddo.C10c

/-- **`JointSound`** (stated in `Props/C10c.lean`) is a theorem -/
theorem joint_sound : JointSound := jointSound

/-- the corollary for one run: whatever the rule, whatever is reported at the empty fringe is the value of a feasible solution, at
    most the optimum — D17 / D18 lose optimality, never soundness -/
theorem joint_reports_feasible {S K : Type} [DecidableEq S] [DecidableEq K] (dv : DSolverCfg S K) (H : Nat → S → EInt) (B0 B opt : Int)
    (hwf : WellFormed dv.sv H B0 B) (hopt : (H 0 dv.sv.P.init).addI dv.sv.P.initVal = some opt) (t : KDSt S K)
    (ht : KDRun dv (KDSt.init dv) t) :
    t.st.bestLb ≤ opt ∧ t.st.crashed = false ∧ t.st.abort = false ∧ ∀ p, t.st.bestSol = some p → SolOf dv.sv.P p t.st.bestLb := by
  obtain ⟨_, h⟩ := jointSound S K dv H B0 B hwf
  obtain ⟨_, hc, ha, hs, _⟩ := h t ht
  exact ⟨(hs opt hopt).1, hc, ha, (hs opt hopt).2⟩

/-! ## the knapsack example satisfies every hypothesis of the repaired statement -/

namespace Kp
open Ddo.C10.Kp

/-- the potential of the knapsack model (best profit from the remaining items with the remaining capacity, defined on every state)
    is monotone in the rule's order -/
theorem potMono : PotMono rule 1 H := by
  intro k a va b vb hge
  rw [geItem_iff] at hge
  have := kpH_mono (items.drop k) b a hge.1
  show EInt.addI (some (kpH (items.drop k) b)) vb ≤ EInt.addI (some (kpH (items.drop k) a)) va
  simp only [EInt.addI, Option.map_some, EInt.some_le_some]
  omega

/-- all hypotheses of `CachingDominanceCompatMono` hold of the knapsack model (so `CompatTurn` would give `Ddo.C10c.Kp.joint_value` for
    every width and configuration) -/
theorem hypotheses (w : Nat) (hw : 1 ≤ w) (dedup : Bool) (kind : CutsetKind) :
    WellFormed (dv w dedup kind).sv H 5 20 ∧ (H 0 prob.init).addI prob.initVal = some 6 ∧ (∀ s, rule.dims s = 1) ∧ StaticOrder prob ∧
    SimAll rule prob 1 ∧ MergeCompat rule rlx 1 ∧ PotMono rule 1 H :=
  ⟨wellFormed w hw dedup kind, opt6, fun _ => rfl, staticOrder, Ddo.C10c.Kp.simAll, Ddo.C10c.Kp.mergeCompat, potMono⟩

end Kp

/-! ## `Shadow` with the rough upper bound repaired: the optimum -/

namespace ShadowH
open Ddo.C10d.Grid

/-- the tables of `Shadow` with `fast_upper_bound(S) = 30` -/
def T : Tab := { Shadow.T with rubl := List.replicate 11 30 }
def dv (dedup : Bool) (kind : CutsetKind) : DSolverCfg Int Int := Grid.dv T Shadow.ws dedup kind

/-- the rough upper bound now dominates the value-to-go of every state at every depth (`checkRub`), the rule and the merge operator are
    those of `Shadow` -/
theorem checks : checkRub T = true ∧ checkSim T = true ∧ checkJoin T = true := by decide

set_option maxRecDepth 100000 in
/-- cache + dominance on the repaired model: the optimum 10, every configuration -/
theorem joint_value : ∀ dedup ∈ [false, true], ∀ kind ∈ [CutsetKind.lel, CutsetKind.frontier],
    ((dv dedup kind).kdsolveLoop 16 (KDSt.init (dv dedup kind))).st.fringe.length = 0 ∧
    ((dv dedup kind).kdsolveLoop 16 (KDSt.init (dv dedup kind))).st.completion = (true, some 10) ∧
    ((dv dedup kind).kdsolveLoop 16 (KDSt.init (dv dedup kind))).st.crashed = false := by decide

end ShadowH

end Ddo.C10d

#print axioms Ddo.C10c.compile_no_crash_joint
#print axioms Ddo.C10c.isSol_relaxed_joint
#print axioms Ddo.C10c.ups_depth_joint
#print axioms Ddo.C10c.kdturn_inv
#print axioms Ddo.C10c.jointSound
#print axioms Ddo.C10d.joint_sound
#print axioms Ddo.C10d.joint_reports_feasible
#print axioms Ddo.C10d.Grid.simAll_of_check
#print axioms Ddo.C10d.Grid.mergeCompat_of_check
#print axioms Ddo.C10d.Grid.wellFormed_of_check
#print axioms Ddo.C10d.Shadow.wellFormed
#print axioms Ddo.C10d.Shadow.simAll
#print axioms Ddo.C10d.Shadow.mergeCompat
#print axioms Ddo.C10d.Shadow.undomOpt
#print axioms Ddo.C10d.Shadow.not_potMono
#print axioms Ddo.C10d.Shadow.rub_below_value
#print axioms Ddo.C10d.Shadow.joint_value
#print axioms Ddo.C10d.Shadow.stage3
#print axioms Ddo.C10d.Shadow.stage3x
#print axioms Ddo.C10d.Shadow.stage4
#print axioms Ddo.C10d.Shadow.finding
#print axioms Ddo.C10d.cachingDominanceCompat_false
#print axioms Ddo.C10d.GAbove.good
#print axioms Ddo.C10d.GAbove.undom
#print axioms Ddo.C10d.GAbove.step
#print axioms Ddo.C10d.GAbove.term
#print axioms Ddo.C10d.GAbove.merge
#print axioms Ddo.C10d.GAbove.relaxed_arc
#print axioms Ddo.C10d.GAbove.rub
#print axioms Ddo.C10d.GAbove.not_below_threshold
#print axioms Ddo.C10d.init_compatInv
#print axioms Ddo.C10d.compatInv_end
#print axioms Ddo.C10d.jointCorrect_of_turn
#print axioms Ddo.C10d.compatInv_skip
#print axioms Ddo.C10d.compatTurn_of_process
#print axioms Ddo.C10d.jointCorrect_of_process
#print axioms Ddo.C10d.compile_storeReach_joint
#print axioms Ddo.C10d.krun_storeReach
#print axioms Ddo.C10d.compatProcess_of_me
#print axioms Ddo.C10d.jointCorrect_of_me
#print axioms Ddo.C10d.potMono_of_leAll
#print axioms Ddo.C10d.simAll_useValue
#print axioms Ddo.C10d.mergeCompat_key
#print axioms Ddo.C10d.Kp.potMono
#print axioms Ddo.C10d.Kp.hypotheses
#print axioms Ddo.C10d.ShadowH.checks
#print axioms Ddo.C10d.ShadowH.joint_value
