import DdoModel.Proofs.ParSync
import DdoModel.ParSolver
/-! # C04 — the parallel solver always terminates (no deadlock, no lost wake-up, no crash)

`ParSync` is the synchronisation skeleton of `parallel.rs`: one `Step` per outcome of a critical
section (`get_workload`: complete / aborted / park / starve / take / takeCrash; `enqueue_cutset`;
`notify_node_finished` on the normal and on the abort path; `abort_search`), for **any** number of
workers and **every** interleaving (the theorems are inductions over `Step` / `Reachable`), with and
without the cutoff firing at any moment (`abortS` is enabled whenever a worker holds a node).
It abstracts the executable model `ParSolver.lean`; the driver checks on every validated trace that
each section of the executable model is invisible to the skeleton or exactly one of its steps
(`stepOrStutter`, sound by `stepOrStutter_sound`) and that `invB` holds in every state.

Proved: the bookkeeping invariant (`ongoing` = number of workers holding a node; a parked worker
implies work in progress) is inductive (`step_inv`, `reachable_inv`); no worker crashes when
`upper_bounds` has a cell per worker (`no_crash` — `with_nb_threads` resizes it since fix D3);
in every reachable state in which some worker has not left its loop some step is enabled
(`reachable_not_stuck`: no deadlock, no lost wake-up); the search is declared complete only when
nothing is open or in progress (`complete_only_when_closed`).
Stated, not proved: `par_terminates` (well-foundedness of `Step`: finitely many steps) — it needs the
data-level progress argument of C08 (ii) (cut-set nodes strictly deeper); non-termination is
watched by the scheduler's step bound.
`d3_step1`, `d3_step2`, `s2_stuck` are the witness of defect D3 in the pinned commit: with two workers
and `upper_bounds` of size one, a reachable state with a parked worker and no enabled step. -/
namespace Ddo.C04
open Ddo.ParSync

theorem par_ongoing_inv {s t : PSt} (h : Step s t) (hi : Inv s) : Inv t := step_inv h hi

theorem par_reachable_inv (s0 s : PSt) (h0 : Inv s0) (h : Reachable s0 s) : Inv s := reachable_inv s0 s h0 h

theorem par_no_crash (s0 s : PSt) (hsz : s0.pcs.length ≤ s0.ubSlots) (hc0 : count .crashed s0.pcs = 0)
    (h : Reachable s0 s) : count .crashed s.pcs = 0 := (no_crash s0 s hsz hc0 h).1

theorem par_no_stuck (s0 s : PSt) (h0 : Inv s0) (hsz : s0.pcs.length ≤ s0.ubSlots) (hc0 : count .crashed s0.pcs = 0)
    (h : Reachable s0 s) (hlive : ∃ (i : Nat) (p : Pc), s.pcs[i]? = some p ∧ p ≠ Pc.done) : ∃ t, Step s t :=
  reachable_not_stuck s0 s h0 hsz hc0 h hlive

theorem par_complete_only_when_closed {s t : PSt} (i : Nat) (h : Step s t) (hidle : s.pcs[i]? = some Pc.idle)
    (hdone : t.pcs[i]? = some Pc.done) (hna : s.abort = false) : s.ongoing = 0 ∧ s.fringe = 0 :=
  complete_only_when_closed i h hidle hdone hna

/-- the initial state of `maximize()`: `T` idle workers, the root in the fringe, `upper_bounds` of size `U` -/
def initial (T U : Nat) : PSt := { fringe := 1, ongoing := 0, abort := false, pcs := List.replicate T .idle, ubSlots := U }

theorem count_replicate_ne (p q : Pc) (n : Nat) (h : q ≠ p) : count p (List.replicate n q) = 0 := by
  induction n with
  | zero => rfl
  | succ k ih => simp [List.replicate_succ, count, ih, h]

theorem initial_inv (T U : Nat) : Inv (initial T U) := by
  refine ⟨?_, fun hw => ?_⟩
  · simp [initial, count_replicate_ne]
  · exfalso; apply hw; simp [initial, count_replicate_ne]

/-- **C04, liveness half, for every thread count `T ≥ 0` and every schedule**: from the initial state of
    `maximize()` (with a cell per worker), every reachable state with a worker still in its loop can move. -/
theorem maximize_never_stuck (T : Nat) (s : PSt) (h : Reachable (initial T T) s)
    (hlive : ∃ (i : Nat) (p : Pc), s.pcs[i]? = some p ∧ p ≠ Pc.done) : ∃ t, Step s t :=
  par_no_stuck (initial T T) s (initial_inv T T) (by simp [initial]) (by simp [initial, count_replicate_ne]) h hlive

/-! Termination proper (finitely many steps) is `par_terminates` on the concrete closed system (`Props/C03c.lean`,
    `Proofs/ParSysTerm.lean`). -/

end Ddo.C04
