import DdoModel.Proofs.Theta
import DdoModel.Proofs.ThetaCover
import DdoModel.Proofs.SeqCache
import DdoModel.Proofs.SeqCacheDedup
import DdoModel.Props.C01d
import DdoModel.Props.C09
/-! # C09 (second stage) — the thresholds are sound, the caching sequential solver returns the optimum

## Stage 1 — one compilation (`Proofs/ThetaBuild.lean`, `ThetaPass.lean`, `ThetaCut.lean`, `ThetaEq.lean`, `ThetaCore.lean`, `Theta.lean`)

`theta_sound` — relaxed compilation of the diagram model `DdoModel/Mdd.lean`, **both cut-set kinds, with or without cache**
(`cfg.useCache` arbitrary, any content of the cache; no dominance rule), width `≥ 1`, any cutoff, both results of `compile`,
well-formed model (`Potential`, `RubOk`, `MergeOk`, `AttMerge`, `NoClamp`), root reached exactly, `lb < isize::MAX`.
Let `bk = max lb bestExactValue` (`bkOf`) be the incumbent once the solver has absorbed the diagram.  For every recorded
update `(s, d, θ, explored)`, every value `v ≤ θ` in range and every potential `h = H d s` of the state:

* `v + h ≤ bk` — a sub-problem `(s, d, v)` cannot strictly improve the incumbent; or
* a sub-problem `c` of the cut-set **of this diagram**, `d ≤ c.depth`, has potential `c.value + H c ≥ v + h`; or
* (only when the compilation consults a cache) the cache prunes, strictly deeper than `d`, a sub-problem `(s', d', v')`
  (`v' ≤` the cached threshold, in range) whose potential `v' + H d' s' ≥ v + h`.

The rule is **`v ≤ θ`, whatever the `explored` flag**: that is the rule of `_filter_with_cache` (`filterCache`), which prunes a
node of a layer under construction as soon as `value ≤ θ`; `must_explore` (used when a node is popped) is weaker
(`v < θ`, or `v = θ` and `explored`), so the statement covers both.  The third alternative is what makes the statement
*compose*: it is discharged by the invariant `CacheOk` of Stage 2.

`theta_sound_isolated` — the same without cache: only the first two alternatives.
`theta_contract_of_model` — `theta_sound` in the form of the field `CompC.theta` of Stage 2.

## Stage 2 / 3 — the solver (`Proofs/SeqCache.lean`, `Proofs/SeqCacheDedup.lean`)

`CInvC` = the coverage invariant of C01 + `CacheOk` (field `cache`): *whatever the cache can prune — any sub-problem `(s, d, v)`
with `v ≤` the stored threshold — has its potential, if it beats the incumbent, carried by an open sub-problem of depth `≥ d`
that the cache does not refuse at pop and whose upper bound is large enough*.  `processC_inv` / `processC_inv_any` (both
fringes): preserved by `process_one_node` with `must_explore` answered by the cache, under the diagram contracts `CompC` (those
of C01 weakened by "… or the cache consulted by the compilation prunes something at least as good, deeper", plus `theta` =
Stage 1 and `fresh`), **whatever node of the fringe is popped** (no hypothesis on the pop order: `enqueue_cutset` no longer
caps the bounds of the cut-set nodes — repair of finding D14; before the repair these lemmas needed best-first pops);
`init_cinvC`; `cinvC_forget` (Stage 3: `clear_layer` / `clear` only forget thresholds, `viewOf_clearLayer`);
`caching_solver_optimal`.
Here: `CacheRun dedup` (finite runs: pop of **any** node + `process_one_node`, or forgetting thresholds), `cacheRun_inv`,
`caching_run_optimal` (a run that ends with an empty fringe ends with the optimum and a feasible solution of that value — the
answer of the solver without cache), `cachePruneOk` (the placeholder `Ddo.C01.CachePruneOk`: a popped node refused by
`must_explore` is not needed), `clear_layer_preserves`.

Contracts discharged from the diagram model for a relaxed compilation that consults a cache (`Proofs/ThetaCover.lean`):
`theta_contract_of_model` (Stage 1), `exact_contract_of_model` (C07b/C06b with cache), `cover_contract_of_model` (C08 (iv)
with cache) — the soundness of the pruning by `_filter_with_cache` *inside* a compilation, relative to `CacheOk`; also
`Ddo.Theta.cached_relaxed_ub` (C06 with cache).

## What is not proved in this file (see the note before the non-vacuity section for where each item was closed)

* the remaining fields of `CompC` for the diagram model consulting a cache: `ub` (needs "a node pruned by the
  cache is never marked"), `fresh` (needs "the nodes of a layer that are not deleted have pairwise distinct states"),
  `sound` for a relaxed compilation with cache, and the whole contract for the *restricted* compilation when it is exact (it
  also records thresholds; same passes, `TInv` is only proved for relaxed compilations) — hence no closed theorem
  "caching solver over the diagram model" in the style of `Ddo.C01.sequential_solver_correct` in this file (closed in
  `Props/C09c.lean`);
* (history) `AnyOrder`: the invariant for pops that are **not** best-first was left open here for the solver as it was,
  whose `enqueue_cutset(ub)` capped the bound of every cut-set node by the bound of the processed node
  (`cutset_node.ub = ub.min(cutset_node.ub)`): when the parent's bound was computed in a diagram cut by the cache it is only
  valid "modulo what the cache covers", and capping a child by it can kill the child's own claim while the covering node is
  itself made prunable by a threshold of the parent's diagram.  Decided since: for that **pre-fix** solver optimality is
  false for arbitrary pop orders (`Ddo.C09.anyOrderOpt_false`, `Props/C09c.lean`; finding D14); the code was repaired by
  dropping the cap, and for the repaired solver — the one modelled here — the invariant holds for **every** pop order
  (`processC_inv_any` has no hypothesis on the order; `Ddo.C09.caching_solver_correct`);
* the parallel solver with the cache. -/
set_option linter.unusedSectionVars false
set_option linter.unusedVariables false
namespace Ddo.C09
open Ddo Ddo.Theta
variable {S K : Type} [DecidableEq S] [DecidableEq K]

/-! ## Stage 1 -/

/-- **`theta_sound`** (re-export of `Ddo.Theta.theta_sound`): the thresholds recorded by a relaxed compilation, with or
    without cache, are sound. -/
theorem theta_sound (cfg : Cfg S K) (H : Nat → S → EInt) (B M : Int) (p0 : List Dec) (cache : Cache S) (store : DomStore S K)
    (polls : Nat) (stopAt : Option Nat)
    (hrel : cfg.ctype = .relaxed) (hdom : cfg.dom = none) (hW : 1 ≤ cfg.width)
    (hP : Potential cfg.P H) (hR : RubOk cfg.R H) (hM : MergeOk cfg.R H) (hAM : Cover.AttMerge cfg.P cfg.R H)
    (hB : NoClamp cfg.P cfg.R cfg.root.value B) (hlb : cfg.lb < iMax)
    (hroot : Reach cfg.P cfg.root.depth cfg.root.state cfg.root.value p0)
    (hM0 : 0 ≤ M) (hMs : M + Cover.Bd B (cfg.P.nbVars + 1) ≤ big)
    (hok : (compile cfg cache store polls stopAt).1 = .ok) (r : Result S)
    (hr : r = (compile cfg cache store polls stopAt).2.1 ∨ (compile cfg cache store polls stopAt).2.2.1 = some r) :
    ∀ u ∈ r.cacheUpdates, cfg.root.depth ≤ u.2.1 ∧
      ∀ v h, Cover.Within (M + Cover.Bd B (u.2.1 - cfg.root.depth)) v → v ≤ u.2.2.1 → H u.2.1 u.1 = some h →
        v + h ≤ bkOf cfg.lb r.bestExactValue ∨
        (∃ c ∈ r.cutset, u.2.1 ≤ c.depth ∧ ∃ y, (H c.depth c.state).addI c.value = some y ∧ v + h ≤ y) ∨
        (cfg.useCache = true ∧ ∃ (s' : S) (d' : Nat) (t : Thr) (v' h' : Int), cache.get s' d' = some (some t) ∧ u.2.1 < d' ∧
          Cover.Within (M + Cover.Bd B (d' - cfg.root.depth)) v' ∧ v' ≤ t.value ∧ H d' s' = some h' ∧ v + h ≤ v' + h') :=
  Ddo.Theta.theta_sound cfg H B M p0 cache store polls stopAt hrel hdom hW hP hR hM hAM hB hlb hroot hM0 hMs hok r hr

/-- **`theta_sound_isolated`**: a relaxed compilation that does not consult the cache.  Every recorded threshold
    `(s, d, θ, explored)`, every `v ≤ θ` (in range: `|v| ≤ (d - root.depth + 1) · B`) and potential `h` of `(d, s)`: the
    sub-problem `(s, d, v)` cannot improve `bk = max lb bestExactValue`, or a sub-problem of the cut-set of this diagram,
    not shallower, has a potential at least as good. -/
theorem theta_sound_isolated (cfg : Cfg S K) (H : Nat → S → EInt) (B : Int) (p0 : List Dec) (cache : Cache S)
    (store : DomStore S K) (polls : Nat) (stopAt : Option Nat)
    (hrel : cfg.ctype = .relaxed) (hcache : cfg.useCache = false) (hdom : cfg.dom = none) (hW : 1 ≤ cfg.width)
    (hP : Potential cfg.P H) (hR : RubOk cfg.R H) (hM : MergeOk cfg.R H) (hAM : Cover.AttMerge cfg.P cfg.R H)
    (hB : NoClamp cfg.P cfg.R cfg.root.value B) (hlb : cfg.lb < iMax)
    (hroot : Reach cfg.P cfg.root.depth cfg.root.state cfg.root.value p0)
    (hok : (compile cfg cache store polls stopAt).1 = .ok) (r : Result S)
    (hr : r = (compile cfg cache store polls stopAt).2.1 ∨ (compile cfg cache store polls stopAt).2.2.1 = some r) :
    ∀ u ∈ r.cacheUpdates, cfg.root.depth ≤ u.2.1 ∧
      ∀ v h, Cover.Within (Cover.Bd B (u.2.1 - cfg.root.depth)) v → v ≤ u.2.2.1 → H u.2.1 u.1 = some h →
        v + h ≤ bkOf cfg.lb r.bestExactValue ∨
        (∃ c ∈ r.cutset, u.2.1 ≤ c.depth ∧ ∃ y, (H c.depth c.state).addI c.value = some y ∧ v + h ≤ y) := by
  have hs : (0 : Int) + Cover.Bd B (cfg.P.nbVars + 1) ≤ big := by
    have := Cover.Bd_small hB.toDom (Nat.le_refl (cfg.P.nbVars + 1))
    unfold big; omega
  intro u hu
  obtain ⟨h1, h2⟩ := Ddo.Theta.theta_sound cfg H B 0 p0 cache store polls stopAt hrel hdom hW hP hR hM hAM hB hlb hroot
    (Int.le_refl 0) hs hok r hr u hu
  refine ⟨h1, fun v h hv hvt hH => ?_⟩
  rcases h2 v h (by rw [Int.zero_add]; exact hv) hvt hH with a | a | ⟨a, _⟩
  · exact .inl a
  · exact .inr a
  · rw [hcache] at a; cases a

/-! ## Stage 1 in the form of the contract of Stage 2 -/

/-- the magnitudes of Stage 2 for a model whose costs are bounded by `B`: a value at depth `d` is within `(d + 1) · B` -/
def RgB (B : Int) (d : Nat) (v : Int) : Prop := Cover.Within (Cover.Bd B d) v

theorem bd_shift (B : Int) (k0 d : Nat) (h : k0 ≤ d) : (k0 : Int) * B + Cover.Bd B (d - k0) = Cover.Bd B d := by
  unfold Cover.Bd
  rw [← Int.add_mul]
  congr 1
  omega

theorem bd_shift_small {P : Problem S} {R : Relax S} {rv B : Int} (hB : NoClamp P R rv B) (k0 : Nat) (hk : k0 ≤ P.nbVars) :
    (k0 : Int) * B + Cover.Bd B (P.nbVars + 1) ≤ big := by
  have h0 := hB.nonneg
  have h1 : (k0 : Int) * B ≤ (P.nbVars : Int) * B := Int.mul_le_mul_of_nonneg_right (by omega) h0
  have h2 := hB.small
  have e1 : ((P.nbVars : Int) + 2) * B = (P.nbVars : Int) * B + 2 * B := by rw [Int.add_mul]
  have e2 : Cover.Bd B (P.nbVars + 1) = (P.nbVars : Int) * B + 2 * B := by
    unfold Cover.Bd
    rw [show ((P.nbVars + 1 : Nat) : Int) + 1 = (P.nbVars : Int) + 2 by omega, Int.add_mul]
  rw [e2]
  rw [e1] at h2
  unfold big
  by_cases hz : B = 0
  · subst hz; simp
  · have : 1 ≤ B := by omega
    omega

/-- **Stage 1 is the field `theta` of the contract `CompC` of Stage 2**, for the diagram model: relaxed compilation of the
    sub-problem `cfg.root` (not deeper than `nb_variables`), consulting `cache` -/
theorem theta_contract_of_model (cfg : Cfg S K) (H : Nat → S → EInt) (B : Int) (p0 : List Dec) (cache : Cache S)
    (store : DomStore S K) (polls : Nat) (stopAt : Option Nat)
    (hrel : cfg.ctype = .relaxed) (hdom : cfg.dom = none) (hW : 1 ≤ cfg.width)
    (hP : Potential cfg.P H) (hR : RubOk cfg.R H) (hM : MergeOk cfg.R H) (hAM : Cover.AttMerge cfg.P cfg.R H)
    (hB : NoClamp cfg.P cfg.R cfg.root.value B) (hlb : cfg.lb < iMax)
    (hroot : Reach cfg.P cfg.root.depth cfg.root.state cfg.root.value p0) (hk0 : cfg.root.depth ≤ cfg.P.nbVars)
    (hok : (compile cfg cache store polls stopAt).1 = .ok) (r : Result S)
    (hr : r = (compile cfg cache store polls stopAt).2.1 ∨ (compile cfg cache store polls stopAt).2.2.1 = some r) :
    ∀ u ∈ r.cacheUpdates, ∀ v h, RgB B u.2.1 v → v ≤ u.2.2.1 → H u.2.1 u.1 = some h →
      v + h ≤ bkOf cfg.lb r.bestExactValue ∨
      (∃ c ∈ (C01.toOut r).cutset, u.2.1 ≤ c.depth ∧ ∃ y, optOf H c = some y ∧ v + h ≤ y) ∨
      CacheCov H (RgB B) (viewOf cache) u.2.1 (v + h) := by
  intro u hu v h hv hvt hH
  obtain ⟨h1, h2⟩ := Ddo.Theta.theta_sound cfg H B ((cfg.root.depth : Int) * B) p0 cache store polls stopAt hrel hdom hW hP hR
    hM hAM hB hlb hroot (Int.mul_nonneg (by omega) hB.nonneg) (bd_shift_small hB _ hk0) hok r hr u hu
  rcases h2 v h (by rw [bd_shift B _ _ h1]; exact hv) hvt hH with a | a | ⟨_, s', d', t, v', h', a1, a2, a3, a4, a5, a6⟩
  · exact .inl a
  · exact .inr (.inl a)
  · right; right
    refine ⟨s', d', t, v', h', ?_, a2, ?_, a4, a5, a6⟩
    · unfold viewOf; rw [a1]; rfl
    · unfold RgB; rw [← bd_shift B cfg.root.depth d' (by omega)]; exact a3

/-- the cache alternative of the diagram theorems is the `CacheCov` of the solver invariant -/
theorem cacheAlt_cov {cfg : Cfg S K} {H : Nat → S → EInt} {B : Int} {cache : Cache S} {d : Nat} {x : Int}
    (hd : cfg.root.depth ≤ d) (h : CacheAlt cfg H B ((cfg.root.depth : Int) * B) cache d x) :
    CacheCov H (RgB B) (viewOf cache) d x := by
  obtain ⟨_, s', d', t, v', h', a1, a2, a3, a4, a5, a6⟩ := h
  refine ⟨s', d', t, v', h', ?_, a2, ?_, a4, a5, a6⟩
  · unfold viewOf; rw [a1]; rfl
  · unfold RgB; rw [← bd_shift B cfg.root.depth d' (by omega)]; exact a3

/-- **the field `exact` of `CompC`** for a relaxed compilation of the diagram model that consults `cache`
    (C07b / C06b with cache, `Ddo.Theta.cached_exact`) -/
theorem exact_contract_of_model (cfg : Cfg S K) (H : Nat → S → EInt) (B : Int) (p0 : List Dec) (cache : Cache S)
    (store : DomStore S K) (polls : Nat) (stopAt : Option Nat)
    (hrel : cfg.ctype = .relaxed) (hdom : cfg.dom = none) (hW : 1 ≤ cfg.width)
    (hP : Potential cfg.P H) (hR : RubOk cfg.R H) (hM : MergeOk cfg.R H) (hAM : Cover.AttMerge cfg.P cfg.R H)
    (hB : NoClamp cfg.P cfg.R cfg.root.value B) (hlb : cfg.lb < iMax)
    (hroot : Reach cfg.P cfg.root.depth cfg.root.state cfg.root.value p0) (hk0 : cfg.root.depth ≤ cfg.P.nbVars)
    (hok : (compile cfg cache store polls stopAt).1 = .ok) (r : Result S)
    (hr : r = (compile cfg cache store polls stopAt).2.1 ∨ (compile cfg cache store polls stopAt).2.2.1 = some r) :
    (C01.toOut r).isExact = true → ∀ x, optOf H cfg.root = some x → x > cfg.lb →
      (∃ w, (C01.toOut r).bestExact = some w ∧ x ≤ w) ∨ CacheCov H (RgB B) (viewOf cache) cfg.root.depth x := by
  intro hex x hx hgt
  rcases cached_exact cfg H B ((cfg.root.depth : Int) * B) p0 cache store polls stopAt hrel hdom hW hP hR hM hAM hB hlb hroot
    (Int.mul_nonneg (by omega) hB.nonneg) (bd_shift_small hB _ hk0) hok r hr hex x hx hgt with a | a
  · exact .inl a
  · exact .inr (cacheAlt_cov (Nat.le_refl _) a)

/-- **the field `cover` of `CompC`** for a relaxed compilation of the diagram model that consults `cache`
    (C08 (iv) with cache, `Ddo.Theta.cached_cover`); `bk = bkOf lb bestExactValue` -/
theorem cover_contract_of_model (cfg : Cfg S K) (H : Nat → S → EInt) (B : Int) (p0 : List Dec) (cache : Cache S)
    (store : DomStore S K) (polls : Nat) (stopAt : Option Nat)
    (hrel : cfg.ctype = .relaxed) (hdom : cfg.dom = none) (hW : 1 ≤ cfg.width)
    (hP : Potential cfg.P H) (hR : RubOk cfg.R H) (hM : MergeOk cfg.R H) (hAM : Cover.AttMerge cfg.P cfg.R H)
    (hB : NoClamp cfg.P cfg.R cfg.root.value B) (hlb : cfg.lb < iMax)
    (hroot : Reach cfg.P cfg.root.depth cfg.root.state cfg.root.value p0) (hk0 : cfg.root.depth ≤ cfg.P.nbVars)
    (hok : (compile cfg cache store polls stopAt).1 = .ok) (r : Result S)
    (hr : r = (compile cfg cache store polls stopAt).2.1 ∨ (compile cfg cache store polls stopAt).2.2.1 = some r) :
    ∀ x, optOf H cfg.root = some x → x > bkOf cfg.lb r.bestExactValue →
      (∃ c ∈ (C01.toOut r).cutset, ∃ y, optOf H c = some y ∧ x ≤ y) ∨ CacheCov H (RgB B) (viewOf cache) cfg.root.depth x := by
  intro x hx hgt
  have h1 := Ddo.Theta.bkOf_ge cfg.lb r.bestExactValue
  have hbe : ∀ be, r.bestExactValue = some be → be < x := by
    intro be hbe
    rw [hbe] at hgt
    unfold bkOf at hgt
    dsimp only at hgt
    omega
  rcases cached_cover cfg H B ((cfg.root.depth : Int) * B) p0 cache store polls stopAt hrel hdom hW hP hR hM hAM hB hlb hroot
    (Int.mul_nonneg (by omega) hB.nonneg) (bd_shift_small hB _ hk0) hok r hr x hx (by omega) hbe with a | a
  · exact .inl a
  · exact .inr (cacheAlt_cov (Nat.le_refl _) a)

/-- `bk` of Stage 1 is the incumbent of the solver after `maybe_update_best` -/
theorem bkOf_updateBest (st : SeqSt S) (o : DDOut S) : bkOf st.bestLb o.bestExact = (st.updateBest o).bestLb := by
  unfold bkOf SeqSt.updateBest
  cases o.bestExact with
  | none => rfl
  | some w =>
    dsimp only
    split
    · dsimp only; omega
    · omega

/-! ## Stage 2 / 3: runs of the caching solver -/

section
variable (H : Nat → S → EInt) (opt : Int) (Sol : List Dec → Int → Prop) (Rg : Nat → Int → Prop)

/-- finite runs of the caching sequential solver, abstract over the diagram: a turn pops **any** node `N` of the fringe
    (`rest` = what is left in the fringe, `fa` the new `first_active_layer`) and processes it — `must_explore`
    answered by the cache `T`, the restricted compilation `r` (updates `rups`) and, if it is not exact, the relaxed one `x`
    (updates `xups`) meeting the contracts `CompC` —, or forgets thresholds (`clear_layer`). -/
inductive CacheRun (dedup : Bool) : SeqSt S × CView S → SeqSt S × CView S → Prop
  | refl (s : SeqSt S) (T : CView S) : CacheRun dedup (s, T) (s, T)
  | turn {a : SeqSt S × CView S} (s : SeqSt S) (T : CView S) (N : SubP S) (rest : List (SubP S)) (fa : Nat)
      (r : DDOut S) (rups : List (S × Nat × Int × Bool)) (x : DDOut S) (xups : List (S × Nat × Int × Bool)) :
      CacheRun dedup a (s, T) → s.fringe.Perm (N :: rest) →
      (∀ w, r.bestExact = some w → ∃ p, r.bestExactSol = some p ∧ Sol p w ∧ w ≤ opt) →
      (r.isExact = true → CompC H opt Sol Rg N s.bestLb T r rups (s.updateBest r).bestLb) →
      (r.isExact = false → rups = []) →
      (r.isExact = false → CompC H opt Sol Rg N (s.updateBest r).bestLb T x xups ((s.updateBest r).updateBest x).bestLb) →
      CacheRun dedup a (stateAfterD dedup (C01.popped s N rest fa) T N r x, viewAfter (C01.popped s N rest fa) T N r rups xups)
  | forget {a : SeqSt S × CView S} (s : SeqSt S) (T T' : CView S) :
      CacheRun dedup a (s, T) → (∀ s' d, T' s' d = T s' d ∨ T' s' d = none) → CacheRun dedup a (s, T')

theorem cinvC_perm {F F' : List (SubP S)} {T : CView S} {lb : Int} {sol : Option (List Dec)} (hp : F.Perm F')
    (h : CInvC H opt Sol Rg F T lb sol) : CInvC H opt Sol Rg F' T lb sol := by
  have live : ∀ x d, Live H F T x d → Live H F' T x d := by
    rintro x d ⟨c, hc, rest⟩
    exact ⟨c, hp.mem_iff.mp hc, rest⟩
  exact ⟨fun c hc => h.good c (hp.mem_iff.mpr hc), fun c hc => h.rng c (hp.mem_iff.mpr hc), h.lbOk, h.solOk,
    fun hgt => live _ _ (h.root hgt), fun s d t v hh h1 h2 h3 h4 h5 => live _ _ (h.cache s d t v hh h1 h2 h3 h4 h5),
    fun c hc y hy hgt => live _ _ (h.open_ c (hp.mem_iff.mpr hc) y hy hgt)⟩

theorem popped_fields (s : SeqSt S) (N : SubP S) (rest : List (SubP S)) (fa : Nat) :
    (C01.popped s N rest fa).fringe = rest ∧ (C01.popped s N rest fa).bestLb = s.bestLb ∧
    (C01.popped s N rest fa).bestSol = s.bestSol := by
  unfold C01.popped SeqSt.afterPop
  dsimp only
  split <;> exact ⟨rfl, rfl, rfl⟩

/-- **the invariant holds along every run**, whatever nodes are popped -/
theorem cacheRun_inv (dedup : Bool)
    {a b : SeqSt S × CView S} (hrun : CacheRun H opt Sol Rg dedup a b)
    (ha : CInvC H opt Sol Rg a.1.fringe a.2 a.1.bestLb a.1.bestSol) :
    CInvC H opt Sol Rg b.1.fringe b.2 b.1.bestLb b.1.bestSol := by
  induction hrun with
  | refl s T => exact ha
  | turn s T N rest fa r rups x xups _ hperm hrs hr hrups hx ih =>
    obtain ⟨f1, f2, f3⟩ := popped_fields s N rest fa
    have hI : CInvC H opt Sol Rg (N :: (C01.popped s N rest fa).fringe) T (C01.popped s N rest fa).bestLb
        (C01.popped s N rest fa).bestSol := by
      rw [f1, f2, f3]; exact cinvC_perm H opt Sol Rg hperm (ih ha)
    have hue : ∀ o : DDOut S, ((C01.popped s N rest fa).updateBest o).bestLb = (s.updateBest o).bestLb := by
      intro o; rw [← bkOf_updateBest, ← bkOf_updateBest, f2]
    have hue2 : ∀ o o' : DDOut S, (((C01.popped s N rest fa).updateBest o).updateBest o').bestLb =
        ((s.updateBest o).updateBest o').bestLb := by
      intro o o'; rw [← bkOf_updateBest, ← bkOf_updateBest, ← bkOf_updateBest, ← bkOf_updateBest, f2]
    exact processC_inv_any H opt Sol Rg dedup (C01.popped s N rest fa) T N r rups x xups hI hrs
      (fun h => by rw [f2, hue]; exact hr h) hrups (fun h => by rw [hue, hue2]; exact hx h)
  | forget s T T' _ hsub ih => exact cinvC_forget H opt Sol Rg _ T T' _ _ hsub (ih ha)

/-- **`caching_run_optimal`**: a run of the caching solver from a state satisfying the invariant (e.g. the initial one,
    `init_cinvC`) that ends with an empty fringe ends with the optimum, and the stored solution is feasible with that value:
    the same answer as the solver without cache (`Ddo.C01.complete_optimal`). -/
theorem caching_run_optimal (dedup : Bool)
    {a b : SeqSt S × CView S} (hrun : CacheRun H opt Sol Rg dedup a b)
    (ha : CInvC H opt Sol Rg a.1.fringe a.2 a.1.bestLb a.1.bestSol) (hend : b.1.fringe = []) :
    b.1.bestLb = opt ∧ ∀ p, b.1.bestSol = some p → Sol p opt := by
  have h := cacheRun_inv H opt Sol Rg dedup hrun ha
  rw [hend] at h
  exact caching_solver_optimal H opt Sol Rg b.2 _ _ h

/-- **`cachePruneOk`** (the placeholder `Ddo.C01.CachePruneOk`): under the invariant, dropping a popped node that
    `must_explore` refuses preserves the invariant — whatever it could lead to is carried by another open sub-problem. -/
theorem cachePruneOk (F : List (SubP S)) (T : CView S) (N : SubP S) (lb : Int) (sol : Option (List Dec))
    (h : CInvC H opt Sol Rg (N :: F) T lb sol) (hp : prunM T N) : CInvC H opt Sol Rg F T lb sol := by
  have live : ∀ x d, Live H (N :: F) T x d → Live H F T x d := by
    rintro x d ⟨c, hc, h1, h2, h3, h4⟩
    rcases List.mem_cons.mp hc with rfl | hc
    · exact absurd hp h4
    · exact ⟨c, hc, h1, h2, h3, h4⟩
  exact ⟨fun c hc => h.good c (List.mem_cons_of_mem _ hc), fun c hc => h.rng c (List.mem_cons_of_mem _ hc), h.lbOk, h.solOk,
    fun hgt => live _ _ (h.root hgt), fun s d t v hh h1 h2 h3 h4 h5 => live _ _ (h.cache s d t v hh h1 h2 h3 h4 h5),
    fun c hc y hy hgt => live _ _ (h.open_ c (List.mem_cons_of_mem _ hc) y hy hgt)⟩

/-- Stage 3 on the concrete cache: `clear_layer` preserves the invariant -/
theorem clear_layer_preserves (F : List (SubP S)) (c c' : Cache S) (d : Nat) (lb : Int) (sol : Option (List Dec))
    (hc : c.clearLayer d = some c') (h : CInvC H opt Sol Rg F (viewOf c) lb sol) : CInvC H opt Sol Rg F (viewOf c') lb sol :=
  cinvC_forget H opt Sol Rg F (viewOf c) (viewOf c') lb sol (viewOf_clearLayer c c' d hc) h

end

/-! ## what this file left open, and where it was closed

* the remaining fields of `CompC` for the diagram model consulting a cache (`ub`, `fresh`, `sound` of a relaxed compilation;
  the contract of an exact restricted compilation; here: `theta`, `exact`, `cover` for relaxed compilations —
  `theta_contract_of_model`, `exact_contract_of_model`, `cover_contract_of_model`): proved in `Props/C09c.lean`
  (`compC_relaxed_of_model`, `compC_restricted_of_model`);
* arbitrary pop orders (an arbitrary `SubProblemRanking`): decided in `Props/C09c.lean` — false for the pre-fix solver with
  the capped `enqueue_cutset(ub)` (`anyOrderOpt_false`, finding D14), true for the repaired solver
  (`caching_solver_correct`, `anyOrderOptFixed_true`);
* the parallel solver with the cache (nodes in hand of other threads, interleaved updates): no statement here — the
  parallel system is not modelled with a cache. -/

/-! ## non-vacuity -/
namespace Example
open Ddo.C06

/-- the tiny model of C06 (three binary variables, cost = value, rough bound 3), width 3: no merge, an exact diagram -/
def cfgW : Cfg Int Unit := { Tiny.cfg with width := 3 }

/-- the diagram records the non-trivial threshold `(state 1, depth 2) ↦ (2, explored)`: the node has value `1`, the
    threshold is `2` — a sub-problem reaching one `1` after two variables with value `2` is still useless against the
    incumbent `3` found by the diagram (`2 + H 2 1 = 3`) -/
example : ((1 : Int), 2, (2 : Int), true) ∈
    (compile cfgW (Cache.init 3) (DomStore.init 3) 0 none).2.1.cacheUpdates := by decide

example : (compile cfgW (Cache.init 3) (DomStore.init 3) 0 none).2.1.bestExactValue = some 3 := by decide

theorem attMerge : Cover.AttMerge Tiny.prob Tiny.rlx Tiny.H :=
  Cover.attMerge_of_static Tiny.potential (fun _ _ _ _ _ => rfl)

/-- `theta_sound_isolated` applies: every value `v ≤ 2` reaching state `1` at depth `2` has `v + 1 ≤ 3`, the cut-set being
    empty -/
example : ∀ v h, Cover.Within (Cover.Bd 1 (2 - 0)) v → v ≤ 2 → Tiny.H 2 1 = some h →
    v + h ≤ bkOf cfgW.lb (compile cfgW (Cache.init 3) (DomStore.init 3) 0 none).2.1.bestExactValue ∨
    (∃ c ∈ (compile cfgW (Cache.init 3) (DomStore.init 3) 0 none).2.1.cutset, 2 ≤ c.depth ∧
      ∃ y, (Tiny.H c.depth c.state).addI c.value = some y ∧ v + h ≤ y) :=
  (theta_sound_isolated cfgW Tiny.H 1 [] (Cache.init 3) (DomStore.init 3) 0 none rfl rfl rfl (by decide)
    Tiny.potential Tiny.rubOk Tiny.mergeOk attMerge Tiny.noClamp (by decide) Reach.root (by decide) _ (.inl rfl)
    ((1 : Int), 2, (2 : Int), true) (by decide)).2

/-- width 1 (a merge on the third layer, last-exact-layer cut-set `{(0, value 0), (1, value 1)}` at depth 1): the root
    threshold `(state 0, depth 0) ↦ (0, explored)` is justified by the cut-set node of potential `3` -/
example : ((0 : Int), 0, (0 : Int), true) ∈
    (compile Tiny.cfg (Cache.init 3) (DomStore.init 3) 0 none).2.1.cacheUpdates := by decide

example : ∀ v h, Cover.Within (Cover.Bd 1 (0 - 0)) v → v ≤ 0 → Tiny.H 0 0 = some h →
    v + h ≤ bkOf Tiny.cfg.lb (compile Tiny.cfg (Cache.init 3) (DomStore.init 3) 0 none).2.1.bestExactValue ∨
    (∃ c ∈ (compile Tiny.cfg (Cache.init 3) (DomStore.init 3) 0 none).2.1.cutset, 0 ≤ c.depth ∧
      ∃ y, (Tiny.H c.depth c.state).addI c.value = some y ∧ v + h ≤ y) :=
  (theta_sound_isolated Tiny.cfg Tiny.H 1 [] (Cache.init 3) (DomStore.init 3) 0 none rfl rfl rfl (by decide)
    Tiny.potential Tiny.rubOk Tiny.mergeOk attMerge Tiny.noClamp (by decide) Reach.root (by decide) _ (.inl rfl)
    ((0 : Int), 0, (0 : Int), true) (by decide)).2

end Example

end Ddo.C09

#print axioms Ddo.C09.theta_sound
#print axioms Ddo.C09.theta_sound_isolated
#print axioms Ddo.C09.theta_contract_of_model
#print axioms Ddo.C09.exact_contract_of_model
#print axioms Ddo.C09.cover_contract_of_model
#print axioms Ddo.Theta.cached_relaxed_ub
#print axioms Ddo.C09.processC_inv_any
#print axioms Ddo.C09.processC_inv
#print axioms Ddo.C09.init_cinvC
#print axioms Ddo.C09.cinvC_forget
#print axioms Ddo.C09.caching_solver_optimal
#print axioms Ddo.C09.cacheRun_inv
#print axioms Ddo.C09.caching_run_optimal
#print axioms Ddo.C09.cachePruneOk
#print axioms Ddo.C09.clear_layer_preserves
