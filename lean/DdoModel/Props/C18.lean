import DdoModel.Proofs.Cache
/-! # C18 — the cache (and the dominance store, see `C18Dom`) match their sequential specification

`Cache` is the model of `SimpleCache`.  The specification is the property's own sentence: for a
`(state, depth)` pair the cache returns the maximum, in `(value, explored)` order, of all
thresholds recorded since that layer was last cleared.  The theorems hold for every operation
sequence (induction over the history); the tie to the code is the correspondence engine `cache`
(exhaustive short sequences + long random ones against the real `SimpleCache`, plus concurrent
update phases with real threads whose final state must equal the model's — unique — state). -/
set_option linter.unusedSectionVars false
namespace Ddo.C18
variable {S : Type} [DecidableEq S]

/-- thresholds recorded for `(s, d)` since layer `d` was last cleared; history given latest first -/
def recorded (s : S) (d : Nat) : List (COp S) → List Thr
  | [] => []
  | .update s' d' t :: r => if d' = d ∧ s' = s then t :: recorded s d r else recorded s d r
  | .clearLayer d' :: r => if d' = d then [] else recorded s d r
  | .clear :: _ => []
  | .get _ _ :: r => recorded s d r
  | .mustExplore _ _ _ :: r => recorded s d r

/-- maximum in `(value, explored)` order -/
def maxThr : List Thr → Option Thr
  | [] => none
  | t :: r => updCell (maxThr r) t

/-- final cache after a history (latest first) started from the freshly initialised cache -/
def after (n : Nat) (hist : List (COp S)) : Cache S := ((Cache.init n).run hist.reverse).1

theorem run_append (c : Cache S) (a b : List (COp S)) :
    (c.run (a ++ b)).1 = ((c.run a).1.run b).1 := by
  induction a generalizing c with
  | nil => simp [Cache.run]
  | cons op ops ih => simp only [List.cons_append, Cache.run]; exact ih _

theorem after_cons (n : Nat) (op : COp S) (hist : List (COp S)) :
    after n (op :: hist) = ((after n hist).step op).1 := by
  simp only [after, List.reverse_cons, run_append, Cache.run]

theorem after_len (n : Nat) (hist : List (COp S)) : (after n hist).layers.length = n + 1 := by
  induction hist with
  | nil => simp [after, Cache.run, Cache.init]
  | cons op r ih =>
    rw [after_cons]
    cases op with
    | get s d => simp only [Cache.step]; split <;> exact ih
    | mustExplore s d v => simp only [Cache.step]; split <;> exact ih
    | update s d t =>
      simp only [Cache.step]; split
      · exact ih
      · next c' h => rw [Cache.layers_len_update _ _ _ _ _ h]; exact ih
    | clearLayer d =>
      simp only [Cache.step]; split
      · exact ih
      · next c' h => rw [Cache.layers_len_clearLayer _ _ _ h]; exact ih
    | clear => simp only [Cache.step, Cache.layers_len_clear]; exact ih

/-- **Main theorem (sentence 1 of C18)**: after *any* operation sequence, `get_threshold(s, d)`
    returns the maximum of all thresholds recorded for `(s, d)` since layer `d` was last cleared. -/
theorem get_eq_max_since_clear (n : Nat) (hist : List (COp S)) (s : S) (d : Nat) (hd : d ≤ n) :
    (after n hist).get s d = some (maxThr (recorded s d hist)) := by
  induction hist with
  | nil =>
    simp only [after, List.reverse_nil, Cache.run, Cache.get, Cache.init, recorded, maxThr]
    rw [List.getElem?_replicate]
    have : d < n + 1 := by omega
    simp [this, CLayer.get]
  | cons op r ih =>
    rw [after_cons]
    have hlen := after_len (S := S) n r
    cases op with
    | get s' d' => simp only [Cache.step, recorded]; split <;> exact ih
    | mustExplore s' d' v => simp only [Cache.step, recorded]; split <;> exact ih
    | update s' d' t =>
      simp only [Cache.step, recorded]
      split
      · next h =>
        -- the call panicked: d' out of range, hence d' ≠ d
        have : ¬ (d' = d ∧ s' = s) := by
          intro hh
          obtain ⟨c', hc'⟩ := Cache.update_isSome (after n r) s' d' t (by omega)
          rw [hc'] at h; cases h
        simp only [this, if_false]; exact ih
      · next c' h =>
        rw [Cache.get_update _ _ _ _ _ _ _ h]
        by_cases hh : d' = d ∧ s' = s
        · obtain ⟨h1, h2⟩ := hh; subst h1; subst h2
          simp [ih, maxThr]
        · have : ¬ (d = d' ∧ s = s') := fun h' => hh ⟨h'.1.symm, h'.2.symm⟩
          simp only [this, hh, if_false]; exact ih
    | clearLayer d' =>
      simp only [Cache.step, recorded]
      split
      · next h =>
        have : d' ≠ d := by
          intro hh
          obtain ⟨c', hc'⟩ := Cache.clearLayer_isSome (after n r) d' (by omega)
          rw [hc'] at h; cases h
        simp only [this, if_false]; exact ih
      · next c' h =>
        rw [Cache.get_clearLayer _ _ _ _ _ h]
        by_cases hh : d' = d
        · subst hh; simp [maxThr]
        · have : ¬ d = d' := fun h' => hh h'.symm
          simp only [this, hh, if_false]; exact ih
    | clear =>
      simp only [Cache.step, recorded, Cache.get_clear, ih, maxThr, Option.map]

/-- clearing one layer affects no other -/
theorem clear_layer_local (c c' : Cache S) (d d2 : Nat) (s : S) (h : c.clearLayer d = some c') (hne : d2 ≠ d) :
    c'.get s d2 = c.get s d2 := by
  rw [Cache.get_clearLayer _ _ _ _ _ h]; simp [hne]

/-- an update of one key affects no other key -/
theorem update_local (c c' : Cache S) (s s2 : S) (d d2 : Nat) (t : Thr) (h : c.update s d t = some c')
    (hne : ¬ (d2 = d ∧ s2 = s)) : c'.get s2 d2 = c.get s2 d2 := by
  rw [Cache.get_update _ _ _ _ _ _ _ h]; simp [hne]

/-- no update is lost and a stored threshold never decreases: the cell after an update dominates
    both the written threshold and the previous content -/
theorem update_ge (cell : Option Thr) (t : Thr) :
    ∃ r, updCell cell t = some r ∧ Thr.le t r ∧ ∀ e, cell = some e → Thr.le e r := by
  cases cell with
  | none => exact ⟨t, rfl, Thr.le_refl t, by simp⟩
  | some e => exact ⟨Thr.join t e, rfl, Thr.le_join_left t e, fun e' he => by injection he with he; subst he; exact Thr.le_join_right t e⟩

/-- the maximum is an upper bound of everything recorded, and is itself one of the recorded thresholds -/
theorem maxThr_spec (l : List Thr) :
    (l = [] → maxThr l = none) ∧ (l ≠ [] → ∃ m, maxThr l = some m ∧ m ∈ l ∧ ∀ t ∈ l, Thr.le t m) := by
  induction l with
  | nil => simp [maxThr]
  | cons t r ih =>
    refine ⟨by simp, fun _ => ?_⟩
    cases r with
    | nil => exact ⟨t, by simp [maxThr, updCell], by simp, by intro x hx; simp at hx; subst hx; exact Thr.le_refl _⟩
    | cons t2 r2 =>
      obtain ⟨m, hm, hmem, hub⟩ := ih.2 (by simp)
      refine ⟨Thr.join t m, by simp only [maxThr] at hm ⊢; rw [hm]; rfl, ?_, ?_⟩
      · unfold Thr.join; split
        · exact List.mem_cons_of_mem _ hmem
        · exact List.mem_cons_self
      · intro x hx
        rcases List.mem_cons.mp hx with hx | hx
        · subst hx; exact Thr.le_join_left _ _
        · exact Thr.le_trans (hub x hx) (Thr.le_join_right _ _)

/-- updates of one cell commute and are idempotent … -/
theorem update_comm (cell : Option Thr) (a b : Thr) : updCell (updCell cell a) b = updCell (updCell cell b) a := by
  cases cell with
  | none => simp only [updCell]; congr 1; apply Thr.key_inj; simp only [Thr.join_key]; omega
  | some e => simp only [updCell]; congr 1; apply Thr.key_inj; simp only [Thr.join_key]; omega
theorem update_idem (cell : Option Thr) (a : Thr) : updCell (updCell cell a) a = updCell cell a := by
  cases cell with
  | none => simp only [updCell]; congr 1; apply Thr.key_inj; simp only [Thr.join_key]; omega
  | some e => simp only [updCell]; congr 1; apply Thr.key_inj; simp only [Thr.join_key]; omega

/-- … hence the outcome of a phase of concurrent updates (each one atomic) does not depend on the
    order in which the updates are linearised: every permutation yields the same cell. -/
theorem updates_perm_invariant (cell : Option Thr) (l1 l2 : List Thr) (h : l1.Perm l2) :
    l1.foldl updCell cell = l2.foldl updCell cell := by
  induction h generalizing cell with
  | nil => rfl
  | cons x _ ih => simp only [List.foldl_cons]; exact ih _
  | swap x y l => simp only [List.foldl_cons]; rw [update_comm]
  | trans _ _ ih1 ih2 => exact (ih1 cell).trans (ih2 cell)

/-- `must_explore` as the property states it -/
theorem must_explore_spec (t : Option Thr) (v : Int) :
    mustExploreThr t v = true ↔ (t = none ∨ ∃ th, t = some th ∧ (v > th.value ∨ (v = th.value ∧ th.explored = false))) := by
  cases t with
  | none => simp [mustExploreThr]
  | some th => simp [mustExploreThr]

/-! non-vacuity -/
example : (after (S := Nat) 2 [.update 7 1 ⟨3, false⟩, .clearLayer 1, .update 7 1 ⟨9, true⟩]).get 7 1
    = some (some ⟨3, false⟩) := by decide
example : (after (S := Nat) 2 [.update 7 1 ⟨3, false⟩, .update 7 1 ⟨3, true⟩, .update 7 0 ⟨9, true⟩]).get 7 1
    = some (some ⟨3, true⟩) := by decide

end Ddo.C18
