import DdoModel.Proofs.ParSysInv
import DdoModel.Proofs.ParSysWitness
import DdoModel.Proofs.ParSysFinal
import DdoModel.Proofs.ParSysTerm
/-! # C03 / C02 / C05 / C14, parallel part — theorems about the CONCRETE model of `ParallelSolver`

`ParSys` (`DdoModel/ParSys.lean`) is the transition system whose state is the shared `Critical` record
`ParCrit S` plus one worker-local state per thread and whose steps are the critical sections of
`parallel.rs`, composed from the very functions of `ParSolver.lean` that the trace validator
`Engines/Par.lean` replays against recorded runs of the real solver.  This file closes the gap that
`Props/C03.lean` marked: the theorems below are about `ParCrit` and the `ParSolver.lean` functions
themselves, not about the abstract system `ParCover`.

Setting as in `Proofs/SeqInv.lean`: `Phi c` = value of the best completion of `c`, `opt`, `Sol p w`.
`PhiOk Phi dedup`: `Phi` ignores the bound, and is `PhiMono` when the duplicate-free fringe is used.
Compilations are arbitrary outcomes allowed by `okR` / `okX`, which are assumed to imply the diagram
contracts `OkR = CompileOk` and `OkX = CompileOk ∧ (not exact → CutsetOk)` **relative to the stale
incumbent the worker read** (`hR`, `hX`).  Any number of threads, every interleaving (induction over
`Run`), cut-offs at any compilation of any worker, several aborts, panicking workers included. -/
set_option linter.unusedSectionVars false
set_option linter.unusedVariables false
namespace Ddo.C03b
open Ddo.ParSys
variable {S : Type} [DecidableEq S]

section
variable (Phi : SubP S → EInt) (opt : Int) (Sol : List Dec → Int → Prop)

/-! ## (a) the coverage invariant -/

/-- **`sys_inv_init`**: `SysInv` holds in the initial state (`ParCrit.init`, `U` idle workers), without a
    primal … -/
theorem sys_inv_init (P : Problem S) (dedup : Bool) (U : Nat)
    (hroot : Good Phi opt (rootOf P)) (hopt : opt ≤ iMax) (hmin : iMin ≤ opt)
    (hatt : opt > iMin → Phi (rootOf P) = some opt) :
    SysInv Phi opt Sol (Sys.init P none dedup U) :=
  init_inv Phi opt Sol P none dedup U hroot hopt hmin (fun p hp => by cases hp) hatt

/-- … **`sys_inv_init_primal`**: and after `set_primal(v, sol)` with a feasible solution `sol` of value `v` -/
theorem sys_inv_init_primal (P : Problem S) (dedup : Bool) (U : Nat) (v : Int) (sol : List Dec)
    (hroot : Good Phi opt (rootOf P)) (hopt : opt ≤ iMax) (hmin : iMin ≤ opt)
    (hv : v ≤ opt) (hsol : Sol sol v) (hatt : opt > v → opt > iMin → Phi (rootOf P) = some opt) :
    SysInv Phi opt Sol (Sys.init P (some (v, sol)) dedup U) := by
  refine init_inv Phi opt Sol P (some (v, sol)) dedup U hroot hopt ?_ ?_ ?_
  · show (if v > iMin then v else iMin) ≤ opt
    split <;> omega
  · intro p hp
    have hp : (if v > iMin then some sol else none) = some p := hp
    show Sol p (if v > iMin then v else iMin)
    split at hp
    · next h => rw [if_pos h]; injection hp with hp; subst hp; exact hsol
    · cases hp
  · intro hgt
    have hgt : opt > (if v > iMin then v else iMin) := hgt
    split at hgt
    · exact hatt hgt (by omega)
    · exact hatt (by omega) hgt

/-- **`sys_inv_step`**: every section of every worker preserves `SysInv` -/
theorem sys_inv_step (dedup : Bool) (hphi : PhiOk Phi dedup) {okR okX : SubP S → Int → DDOut S → Prop}
    (hR : ∀ n lb o, okR n lb o → OkR Phi opt Sol n lb o) (hX : ∀ n lb o, okX n lb o → OkX Phi opt Sol n lb o)
    {s t : Sys S} (h : Step dedup okR okX s t) (hi : SysInv Phi opt Sol s) : SysInv Phi opt Sol t :=
  step_inv Phi opt Sol dedup hphi hR hX h hi

/-- **`sys_inv`**: hence it holds after any finite schedule -/
theorem sys_inv (dedup : Bool) (hphi : PhiOk Phi dedup) {okR okX : SubP S → Int → DDOut S → Prop}
    (hR : ∀ n lb o, okR n lb o → OkR Phi opt Sol n lb o) (hX : ∀ n lb o, okX n lb o → OkX Phi opt Sol n lb o)
    {s t : Sys S} (h : Run dedup okR okX s t) (hi : SysInv Phi opt Sol s) : SysInv Phi opt Sol t :=
  run_inv Phi opt Sol dedup hphi hR hX h hi

/-- as long as the search is not aborted, `SysInv` contains the sequential coverage invariant `Inv` over
    `fringe ++ nodes in hand` -/
theorem sys_inv_seq {s : Sys S} (hi : SysInv Phi opt Sol s) (ha : s.crit.base.abort = false) :
    Inv Phi opt Sol s.openList s.crit.base.bestLb s.crit.base.bestSol :=
  hi.toInv Phi opt Sol ha

/-! ## (b) completion -/

/-- **`sys_complete_optimal`**: when a worker's `get_workload` answers `Complete` (abort flag down,
    `ongoing = 0`, fringe empty) the incumbent is the optimum, the stored solution (if any) is feasible
    with value `opt`; the section then sets `best_ub = best_lb = opt` and `maximize` reports
    `is_exact = true` with that value -/
theorem sys_complete_optimal {s : Sys S} {i : Nat} (hi : SysInv Phi opt Sol s) (hc : CompletesAt s i) :
    s.crit.base.bestLb = opt ∧ (∀ p, s.crit.base.bestSol = some p → Sol p opt) ∧
    s.crit.complete.base.bestLb = opt ∧ s.crit.complete.base.bestUb = opt ∧
    s.crit.complete.base.completion = (true, s.crit.base.bestSol.map (fun _ => opt)) := by
  obtain ⟨h1, h2⟩ := complete_optimal Phi opt Sol hi hc
  refine ⟨h1, h2, h1, h1, ?_⟩
  show (!s.crit.base.abort, s.crit.base.bestSol.map (fun _ => s.crit.base.bestLb)) = _
  rw [hc.2.1, h1]; rfl

/-! ## (c) C02, parallel part -/

/-- **`sys_solution_feasible`**: in every reachable state — before, during and after any number of cut-offs —
    the stored solution is a feasible solution whose value is the stored lower bound -/
theorem sys_solution_feasible (dedup : Bool) (hphi : PhiOk Phi dedup) {okR okX : SubP S → Int → DDOut S → Prop}
    (hR : ∀ n lb o, okR n lb o → OkR Phi opt Sol n lb o) (hX : ∀ n lb o, okX n lb o → OkX Phi opt Sol n lb o)
    {s t : Sys S} (h : Run dedup okR okX s t) (hi : SysInv Phi opt Sol s) :
    (∀ p, t.crit.base.bestSol = some p → Sol p t.crit.base.bestLb) ∧
    (∀ v, t.crit.base.completion.2 = some v → v = t.crit.base.bestLb ∧ ∃ p, t.crit.base.bestSol = some p ∧ Sol p v) := by
  have ht := run_inv Phi opt Sol dedup hphi hR hX h hi
  refine ⟨ht.solOk, fun v hv => ?_⟩
  have hv : t.crit.base.bestSol.map (fun _ => t.crit.base.bestLb) = some v := hv
  cases hs : t.crit.base.bestSol with
  | none => rw [hs] at hv; cases hv
  | some p =>
    rw [hs] at hv
    have : t.crit.base.bestLb = v := by simpa using hv
    exact ⟨this.symm, p, rfl, this ▸ ht.solOk p hs⟩

/-! ## (d) C05, parallel part -/

/-- **`sys_cutoff_bounds`**: in every reachable state `best_lb ≤ opt`; and once the search has been aborted
    (by one or several `abort_search`), in every later state in which no worker has panicked,
    `best_lb ≤ opt ≤ best_ub` — the sharp bound, thanks to the final `max … best_lb` of `abort_search`
    (fix D4b; `d4b_witness` below shows it fails without it). -/
theorem sys_cutoff_bounds (dedup : Bool) (hphi : PhiOk Phi dedup) {okR okX : SubP S → Int → DDOut S → Prop}
    (hR : ∀ n lb o, okR n lb o → OkR Phi opt Sol n lb o) (hX : ∀ n lb o, okX n lb o → OkX Phi opt Sol n lb o)
    {s t : Sys S} (h : Run dedup okR okX s t) (hi : SysInv Phi opt Sol s) :
    t.crit.base.bestLb ≤ opt ∧
    (t.crit.base.abort = true → NoCrash t → opt ≤ t.crit.base.bestUb ∧ t.crit.base.completion.1 = false) := by
  have ht := run_inv Phi opt Sol dedup hphi hR hX h hi
  refine ⟨ht.lbOk, fun ha hnc => ⟨(cutoff_bounds Phi opt Sol ht ha hnc).2, ?_⟩⟩
  show (!t.crit.base.abort) = false
  rw [ha]; rfl

/-- the same when `maximize()` returns after a cut-off: every worker has left its loop -/
theorem sys_cutoff_bounds_final (dedup : Bool) (hphi : PhiOk Phi dedup) {okR okX : SubP S → Int → DDOut S → Prop}
    (hR : ∀ n lb o, okR n lb o → OkR Phi opt Sol n lb o) (hX : ∀ n lb o, okX n lb o → OkX Phi opt Sol n lb o)
    {s t : Sys S} (h : Run dedup okR okX s t) (hi : SysInv Phi opt Sol s)
    (hd : AllDone t) (ha : t.crit.base.abort = true) :
    t.crit.base.bestLb ≤ opt ∧ opt ≤ t.crit.base.bestUb ∧
    (∀ p, t.crit.base.bestSol = some p → Sol p t.crit.base.bestLb) := by
  have ht := run_inv Phi opt Sol dedup hphi hR hX h hi
  obtain ⟨h1, h2⟩ := cutoff_bounds Phi opt Sol ht ha (allDone_noCrash hd)
  exact ⟨h1, h2, ht.solOk⟩

/-! ## (e) C14, parallel part -/

/-- **`sys_primal`**: started from a feasible primal `(v, sol)`, whenever a worker's `get_workload` answers
    `Complete` the incumbent is `max v opt` (`opt` being an upper bound of every feasible value it is
    `opt` itself), the value of a stored feasible solution -/
theorem sys_primal (dedup : Bool) (hphi : PhiOk Phi dedup) {okR okX : SubP S → Int → DDOut S → Prop}
    (hR : ∀ n lb o, okR n lb o → OkR Phi opt Sol n lb o) (hX : ∀ n lb o, okX n lb o → OkX Phi opt Sol n lb o)
    (P : Problem S) (U : Nat) (v : Int) (sol : List Dec)
    (hroot : Good Phi opt (rootOf P)) (hopt : opt ≤ iMax) (hmin : iMin ≤ opt)
    (hv : v ≤ opt) (hsol : Sol sol v) (hatt : opt > v → opt > iMin → Phi (rootOf P) = some opt)
    {t : Sys S} {i : Nat} (h : Run dedup okR okX (Sys.init P (some (v, sol)) dedup U) t) (hc : CompletesAt t i) :
    t.crit.base.bestLb = max v opt ∧ ∀ p, t.crit.base.bestSol = some p → Sol p (max v opt) := by
  have ht := run_inv Phi opt Sol dedup hphi hR hX h
    (sys_inv_init_primal Phi opt Sol P dedup U v sol hroot hopt hmin hv hsol hatt)
  obtain ⟨h1, h2⟩ := complete_optimal Phi opt Sol ht hc
  have : max v opt = opt := by omega
  rw [this]; exact ⟨h1, h2⟩

/-- **`sys_primal_any`**: the same for a primal that is *not verified* (`set_primal` does not check the
    solution it is given): contracts relative to the true optimum `opt` and the true feasibility predicate
    `Sol`, any claimed value `v ≤ isize::MAX` with any decision list `sol`.  At completion the incumbent is
    `max v opt`, and the stored solution is genuinely feasible with that value unless it is the caller's own
    `sol` with value `v` -/
theorem sys_primal_any (dedup : Bool) (hphi : PhiOk Phi dedup) {okR okX : SubP S → Int → DDOut S → Prop}
    (hR : ∀ n lb o, okR n lb o → OkR Phi opt Sol n lb o) (hX : ∀ n lb o, okX n lb o → OkX Phi opt Sol n lb o)
    (P : Problem S) (U : Nat) (v : Int) (sol : List Dec)
    (hroot : Good Phi opt (rootOf P)) (hopt : opt ≤ iMax) (hmin : iMin ≤ opt) (hv : v ≤ iMax)
    (hatt : opt > iMin → Phi (rootOf P) = some opt)
    {t : Sys S} {i : Nat} (h : Run dedup okR okX (Sys.init P (some (v, sol)) dedup U) t) (hc : CompletesAt t i) :
    t.crit.base.bestLb = max v opt ∧
    ∀ p, t.crit.base.bestSol = some p → Sol p (max v opt) ∨ (p = sol ∧ v = max v opt) := by
  have hle : opt ≤ max v opt := by omega
  have hS : ∀ p w, Sol p w → (Sol p w ∨ (p = sol ∧ w = v)) := fun _ _ h => Or.inl h
  have hR' : ∀ n lb o, okR n lb o → OkR Phi (max v opt) (fun p w => Sol p w ∨ (p = sol ∧ w = v)) n lb o :=
    fun n lb o h => CompileOk.weaken Phi opt Sol hle hS (hR n lb o h)
  have hX' : ∀ n lb o, okX n lb o → OkX Phi (max v opt) (fun p w => Sol p w ∨ (p = sol ∧ w = v)) n lb o :=
    fun n lb o h => ⟨CompileOk.weaken Phi opt Sol hle hS (hX n lb o h).1,
      fun he => CutsetOk.weaken Phi opt hle ((hX n lb o h).2 he)⟩
  have h0 : SysInv Phi (max v opt) (fun p w => Sol p w ∨ (p = sol ∧ w = v)) (Sys.init P (some (v, sol)) dedup U) := by
    refine init_inv Phi _ _ P (some (v, sol)) dedup U (fun x hx => by have := hroot x hx; omega) (by omega) ?_ ?_ ?_
    · show (if v > iMin then v else iMin) ≤ max v opt
      split <;> omega
    · intro p hp
      have hp : (if v > iMin then some sol else none) = some p := hp
      show Sol p (if v > iMin then v else iMin) ∨ (p = sol ∧ (if v > iMin then v else iMin) = v)
      split at hp
      · next hgt => rw [if_pos hgt]; injection hp with hp; exact Or.inr ⟨hp.symm, rfl⟩
      · cases hp
    · intro hgt
      have hgt : max v opt > (if v > iMin then v else iMin) := hgt
      have h1 : opt > iMin := by split at hgt <;> omega
      have h2 : max v opt = opt := by split at hgt <;> omega
      rw [h2]; exact hatt h1
  have ht := run_inv Phi (max v opt) _ dedup hphi hR' hX' h h0
  obtain ⟨h1, h2⟩ := complete_optimal Phi (max v opt) _ ht hc
  refine ⟨h1, fun p hp => ?_⟩
  rcases h2 p hp with h | ⟨h, h'⟩
  · exact Or.inl h
  · exact Or.inr ⟨h, h'.symm⟩

/-! ## what `maximize()` returns -/

/-- **`sys_complete_value`**: when `get_workload` answers `Complete` a value is reported (a solution is stored)
    iff the problem is feasible — with the convention of the setting that `opt = isize::MIN` stands for
    "no feasible solution" (`hmin`: no feasible solution has that value) -/
theorem sys_complete_value (dedup : Bool) (hphi : PhiOk Phi dedup) {okR okX : SubP S → Int → DDOut S → Prop}
    (hR : ∀ n lb o, okR n lb o → OkR Phi opt Sol n lb o) (hX : ∀ n lb o, okX n lb o → OkX Phi opt Sol n lb o)
    (P : Problem S) (primal : Option (Int × List Dec)) (U : Nat)
    (hi : SysInv Phi opt Sol (Sys.init P primal dedup U)) (hmin : ∀ p, ¬ Sol p iMin)
    {t : Sys S} {i : Nat} (h : Run dedup okR okX (Sys.init P primal dedup U) t) (hc : CompletesAt t i) :
    (t.crit.base.bestSol = none ↔ opt = iMin) ∧ (t.crit.base.completion.2 = none ↔ opt = iMin) := by
  have ht := run_inv Phi opt Sol dedup hphi hR hX h hi
  have hn := run_noSol Phi opt Sol dedup hphi hR hX h hi (init_noSol P primal dedup U)
  obtain ⟨h1, h2⟩ := complete_optimal Phi opt Sol ht hc
  have key : t.crit.base.bestSol = none ↔ opt = iMin := by
    constructor
    · intro hs; rw [← h1]; exact hn hs
    · intro ho
      cases hs : t.crit.base.bestSol with
      | none => rfl
      | some p => exact absurd (ho ▸ h2 p hs) (hmin p)
  refine ⟨key, ?_⟩
  rw [← key]
  show t.crit.base.bestSol.map (fun _ => t.crit.base.bestLb) = none ↔ _
  cases t.crit.base.bestSol <;> simp


/-- **`sys_final`**: in any state reached from the initial one in which every worker has left its loop
    (`maximize()` joins them and reads the shared record), with at least one thread and no panic:
    * abort flag down — the incumbent is the optimum, `best_ub = best_lb = opt`, `is_exact = true` is reported
      with the value `opt` iff a solution is stored;
    * abort flag up — `best_lb ≤ opt ≤ best_ub` and `is_exact = false`;
    * in both cases the stored solution is feasible and has the value `best_lb`. -/
theorem sys_final (dedup : Bool) (hphi : PhiOk Phi dedup) {okR okX : SubP S → Int → DDOut S → Prop}
    (hR : ∀ n lb o, okR n lb o → OkR Phi opt Sol n lb o) (hX : ∀ n lb o, okX n lb o → OkX Phi opt Sol n lb o)
    (P : Problem S) (primal : Option (Int × List Dec)) (U : Nat)
    (hi : SysInv Phi opt Sol (Sys.init P primal dedup U))
    {t : Sys S} (h : Run dedup okR okX (Sys.init P primal dedup U) t) (hd : AllDone t) (hne : t.ws ≠ []) :
    (t.crit.base.abort = false → t.crit.base.bestLb = opt ∧ t.crit.base.bestUb = opt ∧
        t.crit.base.completion = (true, t.crit.base.bestSol.map (fun _ => opt))) ∧
    (t.crit.base.abort = true → t.crit.base.bestLb ≤ opt ∧ opt ≤ t.crit.base.bestUb ∧ t.crit.base.completion.1 = false) ∧
    (∀ p, t.crit.base.bestSol = some p → Sol p t.crit.base.bestLb) := by
  have ht := run_inv Phi opt Sol dedup hphi hR hX h hi
  have hdn := run_done Phi opt Sol dedup hphi hR hX h hi (init_done P primal dedup U)
  refine ⟨fun ha => ?_, fun ha => ?_, ht.solOk⟩
  · obtain ⟨w, ws, hws⟩ := List.exists_cons_of_ne_nil hne
    have hw : t.ws[0]? = some .done := by
      rw [hws]; simp only [List.getElem?_cons_zero]
      rw [hd w (by rw [hws]; exact List.mem_cons_self)]
    obtain ⟨h1, h2, _⟩ := final_optimal Phi opt Sol ht hdn hw ha
    refine ⟨h1, h2, ?_⟩
    show (!t.crit.base.abort, t.crit.base.bestSol.map (fun _ => t.crit.base.bestLb)) = _
    rw [ha, h1]; rfl
  · obtain ⟨h1, h2⟩ := cutoff_bounds Phi opt Sol ht ha (allDone_noCrash hd)
    refine ⟨h1, h2, ?_⟩
    show (!t.crit.base.abort) = false
    rw [ha]; rfl

end

/-! ## (f) termination -/

/-- **`sys_terminates`**: the step relation of the concrete system, on the states whose pending cut-sets hold
    strictly deeper nodes (`ProgOk`, the progress clause C08 (ii)), is well-founded — any number of threads,
    every interleaving, both fringes, cut-offs and panics included, wait steps counted -/
theorem sys_terminates (nbVars : Nat) (dedup : Bool) (okR okX : SubP S → Int → DDOut S → Prop) :
    WellFounded (fun t s : Sys S => Step dedup okR okX s t ∧ ProgOk nbVars s) :=
  ParSys.sys_terminates nbVars dedup okR okX

/-- `ProgOk` holds initially and is preserved when the relaxed compilations guarantee progress … -/
theorem sys_progOk {nbVars : Nat} {dedup : Bool} {okR okX : SubP S → Int → DDOut S → Prop}
    (hX : ∀ n lb o, okX n lb o → ∀ c ∈ o.cutset, n.depth < c.depth ∧ c.depth ≤ nbVars)
    (P : Problem S) (primal : Option (Int × List Dec)) (U : Nat)
    {t : Sys S} (h : Run dedup okR okX (Sys.init P primal dedup U) t) : ProgOk nbVars t := by
  induction h with
  | refl => exact init_progOk nbVars P primal dedup U
  | tail _ hst ih => exact step_progOk hX hst ih

/-- … **`sys_no_infinite_run`**: hence the solver has no infinite run from its initial state -/
theorem sys_no_infinite_run {nbVars : Nat} {dedup : Bool} {okR okX : SubP S → Int → DDOut S → Prop}
    (hX : ∀ n lb o, okX n lb o → ∀ c ∈ o.cutset, n.depth < c.depth ∧ c.depth ≤ nbVars)
    (P : Problem S) (primal : Option (Int × List Dec)) (U : Nat)
    (run : Nat → Sys S) (h0 : run 0 = Sys.init P primal dedup U) :
    ¬ ∀ k, Step dedup okR okX (run k) (run (k + 1)) :=
  no_infinite_run hX run (h0 ▸ init_progOk nbVars P primal dedup U)

/-! ## the violation witness of defect D4b, and non-vacuity -/

/-- **`d4b_witness`**: the system built with the `abort_search` formula between fixes D4 and D4b
    (`ParCrit.abortSearchD4`: no final `max … best_lb`) violates the upper half of C05.  There is an
    instance meeting every hypothesis of the theorems above (`PhiOk`, the initial invariant, all
    compilations under contract) and a schedule of two threads from the initial state after which every
    worker has left (`maximize()` returns), the search is aborted, `best_lb = opt` and
    `best_ub < best_lb`: thread B raised the incumbent above the bound of the only node left (held by
    thread A) and acknowledged its own node before A was cut off.  (Observed on the real code with the
    controlled scheduler; repaired by `ub.max(critical.best_lb)`.) -/
theorem d4b_witness :
    ∃ (Phi : SubP Nat → EInt) (opt : Int) (Sol : List Dec → Int → Prop) (P : Problem Nat) (t : Sys Nat),
      PhiOk Phi false ∧ SysInv Phi opt Sol (Sys.init P none false 2) ∧
      RunG ParCrit.abortSearchD4 false (OkR Phi opt Sol) (OkX Phi opt Sol) (Sys.init P none false 2) t ∧
      AllDone t ∧ t.crit.base.abort = true ∧ t.crit.base.bestLb = opt ∧ t.crit.base.bestUb < t.crit.base.bestLb := by
  refine ⟨Wit.Phi, Wit.opt, Wit.Sol, Wit.P0, Wit.w20 ParCrit.abortSearchD4, Wit.phiOk, Wit.inv0, Wit.runD4, ?_,
    Wit.endD4.2.1, Wit.endD4.2.2.1, ?_⟩
  · intro w hw
    rw [Wit.endD4.1] at hw
    simp at hw
    exact hw
  · rw [Wit.endD4.2.2.1, Wit.endD4.2.2.2]; decide

/-- the same schedule with the code as it is now: a reachable, aborted, final state of the real system;
    `sys_cutoff_bounds_final` applies to it (its hypotheses are satisfiable) and the bounds it gives are
    attained: `best_lb = opt = best_ub = 15` -/
theorem d4b_fixed :
    ∃ t : Sys Nat, Run false (OkR Wit.Phi Wit.opt Wit.Sol) (OkX Wit.Phi Wit.opt Wit.Sol) (Sys.init Wit.P0 none false 2) t ∧
      AllDone t ∧ t.crit.base.abort = true ∧ t.crit.base.bestLb = 15 ∧ t.crit.base.bestUb = 15 := by
  refine ⟨Wit.w20 ParCrit.abortSearch, Wit.runNow, ?_, Wit.endNow.2.1, Wit.endNow.2.2.1, Wit.endNow.2.2.2⟩
  intro w hw
  rw [Wit.endNow.1] at hw
  simp at hw
  exact hw

/-- non-vacuity of `sys_cutoff_bounds_final` (and of `sys_inv`, `sys_solution_feasible`): every hypothesis holds
    for the instance and the aborted run `Wit.runNow` -/
example : (Wit.w20 ParCrit.abortSearch).crit.base.bestLb ≤ Wit.opt ∧ Wit.opt ≤ (Wit.w20 ParCrit.abortSearch).crit.base.bestUb ∧
    (∀ p, (Wit.w20 ParCrit.abortSearch).crit.base.bestSol = some p → Wit.Sol p (Wit.w20 ParCrit.abortSearch).crit.base.bestLb) :=
  sys_cutoff_bounds_final Wit.Phi Wit.opt Wit.Sol false Wit.phiOk (fun _ _ _ h => h) (fun _ _ _ h => h) Wit.runNow Wit.inv0
    (fun w hw => by rw [Wit.endNow.1] at hw; simp at hw; exact hw) Wit.endNow.2.1

/-- non-vacuity of `sys_complete_optimal`: a one-thread run of the instance reaches a state in which
    `get_workload` answers `Complete`; there the incumbent is `opt = 15` -/
example : Wit.c5.crit.base.bestLb = Wit.opt :=
  (sys_complete_optimal Wit.Phi Wit.opt Wit.Sol
    (sys_inv Wit.Phi Wit.opt Wit.Sol false Wit.phiOk (fun _ _ _ h => h) (fun _ _ _ h => h) Wit.runC Wit.invC0)
    Wit.completesC).1

end Ddo.C03b

#print axioms Ddo.C03b.sys_inv_init
#print axioms Ddo.C03b.sys_inv_init_primal
#print axioms Ddo.C03b.sys_inv_step
#print axioms Ddo.C03b.sys_inv
#print axioms Ddo.C03b.sys_inv_seq
#print axioms Ddo.C03b.sys_complete_optimal
#print axioms Ddo.C03b.sys_solution_feasible
#print axioms Ddo.C03b.sys_cutoff_bounds
#print axioms Ddo.C03b.sys_cutoff_bounds_final
#print axioms Ddo.C03b.sys_primal
#print axioms Ddo.C03b.sys_primal_any
#print axioms Ddo.C03b.sys_complete_value
#print axioms Ddo.C03b.sys_final
#print axioms Ddo.C03b.sys_terminates
#print axioms Ddo.C03b.sys_progOk
#print axioms Ddo.C03b.sys_no_infinite_run
#print axioms Ddo.C03b.d4b_witness
#print axioms Ddo.C03b.d4b_fixed
