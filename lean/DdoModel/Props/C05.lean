import DdoModel.Props.C01
/-! # C05 (sequential part) — bounds stay sound when the search is cut off at any point
    # C19 — sequential anytime behaviour is monotone in the cutoff point

The cutoff can only fire inside a compilation (`DDRes.cutoff`), i.e. while a popped node `N` is
being processed; `abort_search` then leaves `best_lb` and `best_ub = N.ub` as they are.  On top of the
coverage invariant of C01: every node left in the fringe has `ub ≤ N.ub` (`Below`: the fringe pops
a maximum and everything pushed is capped by its parent's bound), and a node's bound is valid for its
own completions (`Inv.ubOk`).  Hence, at whichever poll the cutoff fires, `best_lb ≤ opt ≤ best_ub`
(`cutoff_bounds_restricted`, `cutoff_bounds_relaxed`), for every instance and every `k`.
Monotonicity (C19): the incumbent never decreases (`process_lb_mono`), whatever is pushed is below
the bound of the node in hand (`process_below`), so the bound of the next popped node — the next
`best_ub` — is not larger (`next_pop_le`).  The parallel part of C05 is in `Props/C03.lean`. -/
set_option linter.unusedSectionVars false
namespace Ddo.C05
variable {S : Type} [DecidableEq S]

/-- everything open is below the bound of the node in hand -/
def Below (fr : List (SubP S)) (N : SubP S) : Prop := ∀ c ∈ fr, c.ub ≤ N.ub

section
variable (Phi : SubP S → EInt) (opt : Int) (Sol : List Dec → Int → Prop)

/-- bounds while `N` is in hand and nothing of it has been compiled yet -/
theorem bounds_at_pop (fr : List (SubP S)) (lb : Int) (sol : Option (List Dec)) (N : SubP S)
    (hinv : Inv Phi opt Sol (N :: fr) lb sol) (hmax : Below fr N) (hlbub : lb ≤ N.ub) :
    lb ≤ opt ∧ opt ≤ N.ub := by
  refine ⟨hinv.lbOk, ?_⟩
  by_cases hgt : opt > lb
  · obtain ⟨c, hc, _, h2⟩ := hinv.cover hgt
    rcases List.mem_cons.mp hc with e | e
    · subst e; exact h2
    · have := hmax c e; omega
  · omega

/-- an incumbent improved by a compilation of `N` stays below `N.ub` -/
theorem update_le_ub (st : SeqSt S) (N : SubP S) (lb0 : Int) (o : DDOut S)
    (hN : UbOk Phi st.bestLb N) (hok : CompileOk Phi opt Sol N lb0 o) (hlbub : st.bestLb ≤ N.ub) :
    (st.updateBest o).bestLb ≤ N.ub := by
  unfold SeqSt.updateBest
  cases hb : o.bestExact with
  | none => exact hlbub
  | some w =>
    simp only
    split
    · next hw =>
      obtain ⟨x, hx, hwx⟩ := hok.within w hb
      have := hN x hx (by omega)
      simp only; omega
    · exact hlbub

/-- **`cutoff_bounds_restricted`**: the cutoff fires during the restricted compilation of `N` -/
theorem cutoff_bounds_restricted (st : SeqSt S) (N : SubP S) (x : DDRes S)
    (hinv : Inv Phi opt Sol (N :: st.fringe) st.bestLb st.bestSol) (hmax : Below st.fringe N)
    (hub : st.bestUb = N.ub) (hnp : ¬ N.ub ≤ st.bestLb) :
    let st' := (st.process false N true .cutoff x).1
    st'.abort = true ∧ st'.bestLb ≤ opt ∧ opt ≤ st'.bestUb ∧ (∀ p, st'.bestSol = some p → Sol p st'.bestLb) := by
  have hb := bounds_at_pop Phi opt Sol st.fringe st.bestLb st.bestSol N hinv hmax (by omega)
  simp only [SeqSt.process, hnp, if_false, Bool.not_true, Bool.false_eq_true, SeqSt.abortSearch]
  exact ⟨trivial, hb.1, by rw [hub]; exact hb.2, hinv.solOk⟩

/-- **`cutoff_bounds_relaxed`**: the cutoff fires during the relaxed compilation of `N` (after the
    restricted one updated the incumbent) -/
theorem cutoff_bounds_relaxed (st : SeqSt S) (N : SubP S) (r : DDOut S)
    (hinv : Inv Phi opt Sol (N :: st.fringe) st.bestLb st.bestSol) (hmax : Below st.fringe N)
    (hr : CompileOk Phi opt Sol N st.bestLb r) (hre : r.isExact = false)
    (hub : st.bestUb = N.ub) (hnp : ¬ N.ub ≤ st.bestLb) :
    let st' := (st.process false N true (.ok r) .cutoff).1
    st'.abort = true ∧ st'.bestLb ≤ opt ∧ opt ≤ st'.bestUb ∧ st'.bestLb ≤ st'.bestUb ∧
      (∀ p, st'.bestSol = some p → Sol p st'.bestLb) := by
  have hb := bounds_at_pop Phi opt Sol st.fringe st.bestLb st.bestSol N hinv hmax (by omega)
  obtain ⟨hlb1, hsol1⟩ := updateBest_ok Phi opt Sol st N st.bestLb r hinv.lbOk hinv.solOk hr
  have hle := update_le_ub Phi opt Sol st N st.bestLb r (hinv.ubOk N List.mem_cons_self) hr (by omega)
  obtain ⟨_, f2, _, _, _⟩ := updateBest_fringe st r
  simp only [SeqSt.process, hnp, if_false, Bool.not_true, Bool.false_eq_true, hre, SeqSt.abortSearch]
  exact ⟨trivial, hlb1, by rw [f2, hub]; exact hb.2, by rw [f2, hub]; exact hle, hsol1⟩

/-- `is_exact` is reported only by a run that was not aborted: an aborted state never claims exactness -/
theorem aborted_not_exact (st : SeqSt S) (h : st.abort = true) : st.completion.1 = false := by
  simp [SeqSt.completion, h]

end

/-! ## C19 — monotonicity -/

/-- the incumbent never decreases -/
theorem process_lb_mono (dedup : Bool) (st : SeqSt S) (N : SubP S) (me : Bool) (r x : DDRes S) :
    st.bestLb ≤ (st.process dedup N me r x).1.bestLb := by
  have enq : ∀ (s : SeqSt S) ub cs, (s.enqueue dedup ub cs).bestLb = s.bestLb := by
    intro s ub cs
    rw [enqueue_eq_foldl]
    induction cs generalizing s with
    | nil => rfl
    | cons c cs ih =>
      simp only [List.foldl_cons]; rw [ih]
      unfold enqOne; simp only
      split
      · split <;> rfl
      · rfl
  unfold SeqSt.process
  split
  · exact Int.le_refl _
  · split
    · exact Int.le_refl _
    · cases r with
      | cutoff => exact Int.le_refl _
      | ok r =>
        simp only
        split
        · exact updateBest_lb_ge st r
        · cases x with
          | cutoff => exact updateBest_lb_ge st r
          | ok x =>
            simp only
            split
            · exact Int.le_trans (updateBest_lb_ge st r) (updateBest_lb_ge _ x)
            · rw [enq]; exact Int.le_trans (updateBest_lb_ge st r) (updateBest_lb_ge _ x)

/-- whatever is in the fringe after processing `N` is below `N.ub` (plain multiset fringe) -/
theorem process_below (st : SeqSt S) (N : SubP S) (me : Bool) (r x : DDRes S) (hmax : Below st.fringe N) :
    Below (st.process false N me r x).1.fringe N := by
  unfold SeqSt.process
  split
  · exact hmax
  · split
    · exact hmax
    · cases r with
      | cutoff => intro c hc; simp [SeqSt.abortSearch] at hc
      | ok r =>
        simp only
        have f1 := (updateBest_fringe st r).1
        split
        · rw [f1]; exact hmax
        · cases x with
          | cutoff => intro c hc; simp [SeqSt.abortSearch] at hc
          | ok x =>
            simp only
            have f2 := (updateBest_fringe (st.updateBest r) x).1
            split
            · rw [f2, f1]; exact hmax
            · intro c hc
              obtain ⟨_, _, _, _, e5⟩ := enqueue_false_spec ((st.updateBest r).updateBest x) N.ub x.cutset
              rcases (e5 c).mp hc with h | ⟨c0, _, rfl, _⟩
              · rw [f2, f1] at h; exact hmax c h
              · simp only; omega

/-- **`next_pop_le`**: the node popped next (any element of the new fringe, in particular a maximal
    one) has a bound not larger than the current one: `best_ub` never increases from pop to pop -/
theorem next_pop_le (st : SeqSt S) (N M : SubP S) (me : Bool) (r x : DDRes S) (hmax : Below st.fringe N)
    (hM : M ∈ (st.process false N me r x).1.fringe) : M.ub ≤ N.ub :=
  process_below st N me r x hmax M hM

/-- after the pop of a maximal element `M`, the rest of the fringe is below it -/
theorem below_after_max_pop (fr : List (SubP S)) (M : SubP S) (hmaxM : ∀ c ∈ fr, c.ub ≤ M.ub) : Below fr M := hmaxM

/-- the last step of an uninterrupted run, `best_ub := best_lb`, does not increase `best_ub`
    as long as the incumbent is below the last popped bound -/
theorem complete_ub_le (st : SeqSt S) (h : st.bestLb ≤ st.bestUb) : st.complete.bestUb ≤ st.bestUb ∧ st.complete.bestUb = st.complete.bestLb := by
  simp [SeqSt.complete, h]

end Ddo.C05
