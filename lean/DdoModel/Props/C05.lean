import DdoModel.Props.C01
/-! # C05 (sequential part) — bounds stay sound when the search is cut off at any point
    # C19 — sequential anytime behaviour is monotone in the cutoff point

The cutoff can only fire inside a compilation (`DDRes.cutoff`), i.e. while a popped node `N` is
being processed; `abort_search` then leaves `best_lb` and `best_ub` as they are.  Since the repair of
finding D14 (`enqueue_cutset` no longer caps the bound of a cut-set node by the bound of its parent)
`best_ub` is the **running minimum** of the bounds of the popped nodes (`get_workload`:
`best_ub = best_ub.min(nn.ub)`, `SeqSt.afterPop`): without the cap the bounds of the popped nodes
themselves may rise (`Ddo.C09.Layered.Rise`).  On top of the coverage invariant of C01: the fringe
pops a maximum, so every node left in the fringe has `ub ≤ N.ub` (`Below`), and a node's bound is
valid for its own completions (`Inv.ubOk`); hence `opt ≤ N.ub` at every pop of a node that is not
pruned (`bounds_at_pop`), and the minimum of bounds that were all `≥ opt` is `≥ opt` (`RepOk`,
`repOk_pop`, `repOk_update`).  Hence, at whichever poll the cutoff fires, `best_lb ≤ opt ≤ best_ub`
(`cutoff_bounds_restricted`, `cutoff_bounds_relaxed`), for every instance and every `k`.
Monotonicity (C19): the incumbent never decreases (`process_lb_mono`); `best_ub` is only written at
a pop, by a minimum (`afterPop_ub_le`), and never by `process_one_node` (`process_ub_eq`), so it
never increases.  The parallel part of C05 is in `Props/C03.lean`. -/
set_option linter.unusedSectionVars false
namespace Ddo.C05
variable {S : Type} [DecidableEq S]

/-- everything open is below the bound of the node in hand -/
def Below (fr : List (SubP S)) (N : SubP S) : Prop := ∀ c ∈ fr, c.ub ≤ N.ub

section
variable (Phi : SubP S → EInt) (opt : Int) (Sol : List Dec → Int → Prop)

/-- bounds while `N` is in hand and nothing of it has been compiled yet -/
theorem bounds_at_pop (fr : List (SubP S)) (lb : Int) (sol : Option (List Dec)) (N : SubP S)
    (hinv : Inv Phi opt Sol (N :: fr) lb sol) (hmax : Below fr N) (hlbub : lb ≤ N.ub) :
    lb ≤ opt ∧ opt ≤ N.ub := by
  refine ⟨hinv.lbOk, ?_⟩
  by_cases hgt : opt > lb
  · obtain ⟨c, hc, _, h2⟩ := hinv.cover hgt
    rcases List.mem_cons.mp hc with e | e
    · subst e; exact h2
    · have := hmax c e; omega
  · omega

/-- an incumbent improved by a compilation of `N` stays below `N.ub` -/
theorem update_le_ub (st : SeqSt S) (N : SubP S) (lb0 : Int) (o : DDOut S)
    (hN : UbOk Phi st.bestLb N) (hok : CompileOk Phi opt Sol N lb0 o) (hlbub : st.bestLb ≤ N.ub) :
    (st.updateBest o).bestLb ≤ N.ub := by
  unfold SeqSt.updateBest
  cases hb : o.bestExact with
  | none => exact hlbub
  | some w =>
    simp only
    split
    · next hw =>
      obtain ⟨x, hx, hwx⟩ := hok.within w hb
      have := hN x hx (by omega)
      simp only; omega
    · exact hlbub

/-- the reported pair is sound: the incumbent is below the reported upper bound, and so is the optimum -/
def RepOk (st : SeqSt S) : Prop := st.bestLb ≤ st.bestUb ∧ opt ≤ st.bestUb

/-- **the running minimum stays sound at a best-first pop**: `ub0` is the bound reported before the pop (sound), `N` the
    popped node (a maximum of the fringe, not pruned), `best_ub = min ub0 N.ub` afterwards -/
theorem repOk_pop (st : SeqSt S) (N : SubP S) (ub0 : Int)
    (hinv : Inv Phi opt Sol (N :: st.fringe) st.bestLb st.bestSol) (hmax : Below st.fringe N)
    (hub : st.bestUb = min ub0 N.ub) (h0 : st.bestLb ≤ ub0 ∧ opt ≤ ub0) (hnp : ¬ N.ub ≤ st.bestLb) :
    RepOk opt st := by
  have hb := bounds_at_pop Phi opt Sol st.fringe st.bestLb st.bestSol N hinv hmax (by omega)
  unfold RepOk
  rw [hub]
  omega

/-- an incumbent update keeps the reported pair sound (the new incumbent is the value of a solution, hence `≤ opt`) -/
theorem repOk_update (st : SeqSt S) (o : DDOut S) (h : RepOk opt st) (hlb : (st.updateBest o).bestLb ≤ opt) :
    RepOk opt (st.updateBest o) := by
  obtain ⟨_, f2, _, _, _⟩ := updateBest_fringe st o
  unfold RepOk at h ⊢
  rw [f2]
  omega

/-- **`cutoff_bounds_restricted`**: the cutoff fires during the restricted compilation of `N`; `best_ub` is the running
    minimum `min ub0 N.ub`, `ub0` = what was reported before `N` was popped -/
theorem cutoff_bounds_restricted (st : SeqSt S) (N : SubP S) (x : DDRes S) (ub0 : Int)
    (hinv : Inv Phi opt Sol (N :: st.fringe) st.bestLb st.bestSol) (hmax : Below st.fringe N)
    (hub : st.bestUb = min ub0 N.ub) (h0 : st.bestLb ≤ ub0 ∧ opt ≤ ub0) (hnp : ¬ N.ub ≤ st.bestLb) :
    let st' := (st.process false N true .cutoff x).1
    st'.abort = true ∧ st'.bestLb ≤ opt ∧ opt ≤ st'.bestUb ∧ st'.bestLb ≤ st'.bestUb ∧
      (∀ p, st'.bestSol = some p → Sol p st'.bestLb) := by
  have hr := repOk_pop Phi opt Sol st N ub0 hinv hmax hub h0 hnp
  simp only [SeqSt.process, hnp, if_false, Bool.not_true, Bool.false_eq_true, SeqSt.abortSearch]
  exact ⟨trivial, hinv.lbOk, hr.2, hr.1, hinv.solOk⟩

/-- **`cutoff_bounds_relaxed`**: the cutoff fires during the relaxed compilation of `N` (after the
    restricted one updated the incumbent) -/
theorem cutoff_bounds_relaxed (st : SeqSt S) (N : SubP S) (r : DDOut S) (ub0 : Int)
    (hinv : Inv Phi opt Sol (N :: st.fringe) st.bestLb st.bestSol) (hmax : Below st.fringe N)
    (hr : CompileOk Phi opt Sol N st.bestLb r) (hre : r.isExact = false)
    (hub : st.bestUb = min ub0 N.ub) (h0 : st.bestLb ≤ ub0 ∧ opt ≤ ub0) (hnp : ¬ N.ub ≤ st.bestLb) :
    let st' := (st.process false N true (.ok r) .cutoff).1
    st'.abort = true ∧ st'.bestLb ≤ opt ∧ opt ≤ st'.bestUb ∧ st'.bestLb ≤ st'.bestUb ∧
      (∀ p, st'.bestSol = some p → Sol p st'.bestLb) := by
  have hrep := repOk_pop Phi opt Sol st N ub0 hinv hmax hub h0 hnp
  obtain ⟨hlb1, hsol1⟩ := updateBest_ok Phi opt Sol st N st.bestLb r hinv.lbOk hinv.solOk hr
  have hrep1 := repOk_update opt st r hrep hlb1
  simp only [SeqSt.process, hnp, if_false, Bool.not_true, Bool.false_eq_true, hre, SeqSt.abortSearch]
  exact ⟨trivial, hlb1, hrep1.2, hrep1.1, hsol1⟩

/-- `is_exact` is reported only by a run that was not aborted: an aborted state never claims exactness -/
theorem aborted_not_exact (st : SeqSt S) (h : st.abort = true) : st.completion.1 = false := by
  simp [SeqSt.completion, h]

end

/-! ## C19 — monotonicity -/

/-- the incumbent never decreases -/
theorem process_lb_mono (dedup : Bool) (st : SeqSt S) (N : SubP S) (me : Bool) (r x : DDRes S) :
    st.bestLb ≤ (st.process dedup N me r x).1.bestLb := by
  have enq : ∀ (s : SeqSt S) cs, (s.enqueue dedup cs).bestLb = s.bestLb := by
    intro s cs
    rw [enqueue_eq_foldl]
    induction cs generalizing s with
    | nil => rfl
    | cons c cs ih =>
      simp only [List.foldl_cons]; rw [ih]
      unfold enqOne; simp only
      split
      · split <;> rfl
      · rfl
  unfold SeqSt.process
  split
  · exact Int.le_refl _
  · split
    · exact Int.le_refl _
    · cases r with
      | cutoff => exact Int.le_refl _
      | ok r =>
        simp only
        split
        · exact updateBest_lb_ge st r
        · cases x with
          | cutoff => exact updateBest_lb_ge st r
          | ok x =>
            simp only
            split
            · exact Int.le_trans (updateBest_lb_ge st r) (updateBest_lb_ge _ x)
            · rw [enq]; exact Int.le_trans (updateBest_lb_ge st r) (updateBest_lb_ge _ x)

/-- `enqueue_cutset` does not touch `best_ub` (either fringe) -/
theorem enqueue_bestUb (dedup : Bool) (st : SeqSt S) (cs : List (SubP S)) : (st.enqueue dedup cs).bestUb = st.bestUb := by
  rw [enqueue_eq_foldl]
  induction cs generalizing st with
  | nil => rfl
  | cons c cs ih =>
    simp only [List.foldl_cons]; rw [ih]
    unfold enqOne; simp only
    split
    · split <;> rfl
    · rfl

/-- **`process_one_node` never writes `best_ub`** (whatever the answers: pruned, cache refusal, cutoff, exact, enqueue) -/
theorem process_ub_eq (dedup : Bool) (st : SeqSt S) (N : SubP S) (me : Bool) (r x : DDRes S) :
    (st.process dedup N me r x).1.bestUb = st.bestUb := by
  unfold SeqSt.process
  split
  · rfl
  · split
    · rfl
    · cases r with
      | cutoff => rfl
      | ok r =>
        simp only
        have f1 := (updateBest_fringe st r).2.1
        split
        · exact f1
        · cases x with
          | cutoff => exact f1
          | ok x =>
            simp only
            have f2 := (updateBest_fringe (st.updateBest r) x).2.1
            split
            · exact f2.trans f1
            · rw [enqueue_bestUb]; exact f2.trans f1

/-- **`afterPop_ub_le`**: the pop writes the running minimum: `best_ub` does not increase, and is at most the bound of the
    popped node.  (The bounds of the popped nodes themselves may increase from pop to pop since cut-set nodes are no longer
    capped by their parent's bound — `Ddo.C09.Layered.Rise.popped_bound_increases`; the pre-fix lemmas `process_below` /
    `next_pop_le` are false for the repaired solver and are replaced by this lemma and `process_ub_eq`.) -/
theorem afterPop_ub_le (st : SeqSt S) (nn : SubP S) :
    (st.afterPop nn).bestUb ≤ st.bestUb ∧ (st.afterPop nn).bestUb ≤ nn.ub ∧ (st.afterPop nn).bestUb = min st.bestUb nn.ub := by
  unfold SeqSt.afterPop
  split <;> exact ⟨Int.min_le_left _ _, Int.min_le_right _ _, rfl⟩

/-- **`turn_ub_le`**: over one turn of the loop (pop, then `process_one_node`) the reported upper bound does not increase -/
theorem turn_ub_le (dedup : Bool) (st : SeqSt S) (rest : List (SubP S)) (N : SubP S) (me : Bool) (r x : DDRes S) :
    (({ st.afterPop N with fringe := rest } : SeqSt S).process dedup N me r x).1.bestUb ≤ st.bestUb := by
  rw [process_ub_eq]
  exact (afterPop_ub_le st N).1

/-- after the pop of a maximal element `M`, the rest of the fringe is below it -/
theorem below_after_max_pop (fr : List (SubP S)) (M : SubP S) (hmaxM : ∀ c ∈ fr, c.ub ≤ M.ub) : Below fr M := hmaxM

/-- the last step of an uninterrupted run, `best_ub := best_lb`, does not increase `best_ub`
    as long as the incumbent is below the last popped bound -/
theorem complete_ub_le (st : SeqSt S) (h : st.bestLb ≤ st.bestUb) : st.complete.bestUb ≤ st.bestUb ∧ st.complete.bestUb = st.complete.bestLb := by
  simp [SeqSt.complete, h]

end Ddo.C05
