import DdoModel.Proofs.Fringe
/-! # C11 — fringes are faithful priority queues; de-duplication never merges distinct sub-problems

Stage in place (see DESIGN.md §10 staging):
* the *specification* `KeyedPQ` (a list of sub-problems with the coalescing rule of the property) and
  its laws, for every push: only an entry with the same `(state, depth)` is ever touched, the survivor
  keeps the larger value with that value's own path and the larger upper bound, nothing else is lost
  or invented, the length grows by one exactly when no equal sub-problem is present;
* for the *concrete* model `NoDup` (a field-by-field mirror of `NoDupFringe`, tied to the code by exact
  trace equality): `pop` returns the node at the heap root and leaves `nodes` untouched by the sifting
  loops; whenever the structure is well formed and heap ordered the popped node is maximal for
  `MaxUB` among everything in the fringe (`pop_is_max`), hence pops are in non-increasing upper bound
  order with ties by larger value (`pop_max_ub_value`), and `len` is the number of poppable items.
* the well-formedness / heap-order invariants (`NoDup.wfB`, `NoDup.heapOrdB`, also evaluated by the
  driver on every state of every explored trace) are proved inductive, and the refinement
  `NoDup ⊑ KeyedPQ` is proved, in `Props/C11Inv.lean` (`inv_push`, `inv_pop`, `reachable_inv`,
  `push_refines_perm`, `pop_refines`, `pop_is_max_live`, …).  The two `Prop`s stated at the end of this
  file are settled there: `NoDupRefinesKeyed_holds`, and `NoDupInvariantInductive_total` — the
  statement below as first written has a vacuous ranking hypothesis and is *false*
  (`NoDupInvariantInductive_literal_false`); it is kept as written, as a reminder.
* `SimpleFringe` is `binary_heap_plus::BinaryHeap` (modelled, not verified): `KeyedPQ.popOk`. -/
namespace Ddo.C11

/-! ## specification level -/

/-- entries of other sub-problems are untouched by a push -/
theorem push_keeps_others (q : List Sub) (x y : Sub) (hy : y ∈ q) (hne : y.key ≠ x.key) :
    y ∈ KeyedPQ.push q x := by
  induction q with
  | nil => cases hy
  | cons z r ih =>
    simp only [KeyedPQ.push]
    split
    · next hz =>
      rcases List.mem_cons.mp hy with h | h
      · subst h; exact absurd hz hne
      · exact List.mem_cons_of_mem _ h
    · rcases List.mem_cons.mp hy with h | h
      · subst h; exact List.mem_cons_self
      · exact List.mem_cons_of_mem _ (ih h)

/-- **`coalesce_only_same_subproblem`**: whatever a push changes or removes denotes the same
    sub-problem (same state *and* same depth) as the pushed one -/
theorem coalesce_only_same_subproblem (q : List Sub) (x y : Sub) (hy : y ∈ q) (hgone : y ∉ KeyedPQ.push q x) :
    y.state = x.state ∧ y.depth = x.depth := by
  have : y.key = x.key := by
    cases h : decide (y.key = x.key) with
    | true => exact of_decide_eq_true h
    | false => exact absurd (push_keeps_others q x y hy (of_decide_eq_false h)) hgone
  simp only [Sub.key, FKey.mk.injEq] at this
  exact this

/-- nothing is invented: every entry after a push is an old entry, the pushed one, or their coalescing -/
theorem push_no_invention (q : List Sub) (x z : Sub) (hz : z ∈ KeyedPQ.push q x) :
    z ∈ q ∨ z = x ∨ ∃ y ∈ q, y.key = x.key ∧ z = coalesce y x := by
  induction q with
  | nil => simp [KeyedPQ.push] at hz; exact Or.inr (Or.inl hz)
  | cons w r ih =>
    simp only [KeyedPQ.push] at hz
    split at hz
    · next hw =>
      rcases List.mem_cons.mp hz with h | h
      · exact Or.inr (Or.inr ⟨w, List.mem_cons_self, hw, h⟩)
      · exact Or.inl (List.mem_cons_of_mem _ h)
    · rcases List.mem_cons.mp hz with h | h
      · exact Or.inl (h ▸ List.mem_cons_self)
      · rcases ih h with h' | h' | ⟨y, hy, hk, he⟩
        · exact Or.inl (List.mem_cons_of_mem _ h')
        · exact Or.inr (Or.inl h')
        · exact Or.inr (Or.inr ⟨y, List.mem_cons_of_mem _ hy, hk, he⟩)

/-- **`survivor_fields`**: the survivor keeps the larger value together with that value's own path
    (tag) and depth, and the larger of the two upper bounds -/
theorem survivor_fields (old new : Sub) (hk : old.key = new.key) :
    let s := coalesce old new
    s.value = max old.value new.value ∧ s.ub = max new.ub old.ub ∧ s.key = new.key ∧
    (new.value > old.value → s.tag = new.tag) ∧ (new.value ≤ old.value → s.tag = old.tag) := by
  simp only [coalesce]
  split
  · next h => refine ⟨by simp; omega, rfl, rfl, fun _ => rfl, fun h' => by omega⟩
  · next h => refine ⟨by simp; omega, rfl, hk, fun h' => by omega, fun _ => rfl⟩

/-- the pushed sub-problem is represented afterwards (no loss of the new one either) -/
theorem push_represents_new (q : List Sub) (x : Sub) :
    ∃ z ∈ KeyedPQ.push q x, z.key = x.key ∧ x.value ≤ z.value ∧ x.ub ≤ z.ub := by
  induction q with
  | nil => exact ⟨x, by simp [KeyedPQ.push], rfl, Int.le_refl _, Int.le_refl _⟩
  | cons w r ih =>
    simp only [KeyedPQ.push]
    split
    · next hw =>
      refine ⟨coalesce w x, List.mem_cons_self, ?_, ?_, ?_⟩
      · exact (survivor_fields w x hw).2.2.1
      · rw [(survivor_fields w x hw).1]; omega
      · rw [(survivor_fields w x hw).2.1]; omega
    · obtain ⟨z, hz, h⟩ := ih
      exact ⟨z, List.mem_cons_of_mem _ hz, h⟩

/-- length: a push adds one item exactly when no equal sub-problem is present -/
theorem push_length (q : List Sub) (x : Sub) :
    (KeyedPQ.push q x).length = if q.any (fun y => decide (y.key = x.key)) then q.length else q.length + 1 := by
  induction q with
  | nil => simp [KeyedPQ.push]
  | cons w r ih =>
    simp only [KeyedPQ.push]
    split
    · next hw => simp [hw]
    · next hw => simp [hw, ih]; split <;> simp

/-! ## concrete level -/

section concrete
variable (rank : Int → Int → Ordering)

theorem swapPos_nodes (f f' : NoDup) (a b : Nat) (h : f.swapPos a b = some f') :
    f'.nodes = f.nodes ∧ f'.states = f.states ∧ f'.bin = f.bin ∧ f'.heap.length = f.heap.length := by
  unfold NoDup.swapPos at h
  cases h1 : f.heap[a]? with
  | none => simp [h1] at h
  | some ia =>
    cases h2 : f.heap[b]? with
    | none => simp [h1, h2] at h
    | some ib =>
      simp only [h1, h2, Option.bind_eq_bind, Option.bind_some] at h
      split at h
      · injection h with h; subst h; simp
      · cases h

theorem bubbleDownAt_nodes (fuel : Nat) (f f' : NoDup) (me : Nat) (h : f.bubbleDownAt rank me fuel = some f') :
    f'.nodes = f.nodes ∧ f'.states = f.states ∧ f'.bin = f.bin ∧ f'.heap.length = f.heap.length := by
  induction fuel generalizing f me with
  | zero => simp [NoDup.bubbleDownAt] at h; subst h; simp
  | succ n ih =>
    simp only [NoDup.bubbleDownAt] at h
    split at h
    · cases h
    · next kid _ =>
      split at h
      · injection h with h; subst h; simp
      · split at h
        · cases h
        · split at h
          · cases h
          · next f1 hs =>
            obtain ⟨a1, a2, a3, a4⟩ := swapPos_nodes f f1 _ _ hs
            obtain ⟨b1, b2, b3, b4⟩ := ih f1 kid h
            exact ⟨b1.trans a1, b2.trans a2, b3.trans a3, b4.trans a4⟩
        · injection h with h; subst h; simp

theorem bubbleDown_nodes (f f' : NoDup) (id : Nat) (h : f.bubbleDown rank id = some f') :
    f'.nodes = f.nodes ∧ f'.states = f.states ∧ f'.bin = f.bin ∧ f'.heap.length = f.heap.length := by
  unfold NoDup.bubbleDown at h
  split at h
  · cases h
  · exact bubbleDownAt_nodes rank _ f f' _ h

/-- `pop` hands out the node stored at the heap root, and shortens the heap by one: `len` is the
    number of poppable items -/
theorem pop_returns_root (f f' : NoDup) (x : Sub) (h : f.pop rank = some (f', some x)) :
    f.at? 0 = some x ∧ f'.len + 1 = f.len := by
  unfold NoDup.pop at h
  cases hh : f.heap with
  | nil => simp [hh] at h
  | cons id rest =>
    simp only [hh] at h
    -- the sifting step
    split at h
    · cases h
    · next f2 hf2 =>
      split at h
      · cases h
      · next node hn =>
        simp only [Option.some.injEq, Prod.mk.injEq] at h
        obtain ⟨h1, h2⟩ := h
        subst h2
        -- f2 has the nodes of f and a heap one shorter
        have key : f2.nodes = f.nodes ∧ f2.heap.length + 1 = (id :: rest).length := by
          split at hf2
          · next hnil =>
            injection hf2 with hf2; subst hf2
            refine ⟨rfl, ?_⟩
            simp only at hnil ⊢
            rw [hnil]
            by_cases hl : (id :: rest).length = 1
            · simp [hl]
            · rw [if_neg hl] at hnil
              have : ((id :: rest).set 0 ((id :: rest).getLast?.getD id)).dropLast.length = 0 := by rw [hnil]; rfl
              simp at this; simp; omega
          · next h0 tl hcons =>
            split at hf2
            · obtain ⟨e1, _, _, e4⟩ := bubbleDown_nodes rank _ f2 _ hf2
              refine ⟨e1, ?_⟩
              rw [e4]
              simp only
              by_cases hl : (id :: rest).length = 1
              · rw [if_pos hl] at hcons; cases hcons
              · rw [if_neg hl]; simp
            · cases hf2
        constructor
        · simp only [NoDup.at?, hh, List.getElem?_cons_zero]
          rw [← key.1]; exact hn
        · subst h1
          simp only [NoDup.len, hh]
          exact key.2

/-- **`pop_is_max`**: in a well-formed, heap-ordered fringe the popped sub-problem is maximal for the
    `MaxUB` ranking among everything the fringe holds … -/
theorem pop_is_max (hr : ∀ x y z, rank x y ≠ .gt → rank y z ≠ .gt → rank x z ≠ .gt) (hrefl : ∀ x, rank x x ≠ .gt)
    (f f' : NoDup) (x : Sub) (hord : f.HeapOrd rank) (htot : f.Total)
    (h : f.pop rank = some (f', some x)) :
    ∀ j, j < f.heap.length → ∀ a, f.at? j = some a → subLe rank a x := by
  intro j hj a ha
  exact NoDup.root_max rank hr hrefl f hord htot j hj a x ha (pop_returns_root rank f f' x h).1

/-- … hence pops come in non-increasing upper-bound order, ties by larger value -/
theorem pop_max_ub_value (hr : ∀ x y z, rank x y ≠ .gt → rank y z ≠ .gt → rank x z ≠ .gt) (hrefl : ∀ x, rank x x ≠ .gt)
    (f f' : NoDup) (x : Sub) (hord : f.HeapOrd rank) (htot : f.Total)
    (h : f.pop rank = some (f', some x)) :
    ∀ j, j < f.heap.length → ∀ a, f.at? j = some a → a.ub < x.ub ∨ (a.ub = x.ub ∧ a.value ≤ x.value) :=
  fun j hj a ha => subLe_ub_value rank a x (pop_is_max rank hr hrefl f f' x hord htot h j hj a ha)

/-- `pop` on an empty fringe returns `None` and changes nothing; `clear` empties it -/
theorem pop_empty (f : NoDup) (h : f.heap = []) : f.pop rank = some (f, none) := by
  unfold NoDup.pop; rw [h]
theorem clear_len (f : NoDup) : f.clear.len = 0 := rfl

end concrete

/-- the Boolean heap-order check the driver evaluates implies the `Prop` used above -/
theorem heapOrdB_sound (rank : Int → Int → Ordering) (f : NoDup) (h : f.heapOrdB rank = true) : f.HeapOrd rank := by
  intro j hj0 hjn a b ha hb
  simp only [NoDup.heapOrdB, List.all_eq_true, List.mem_range] at h
  have := h j hjn
  have hj : (j == 0) = false := by simp; omega
  simp only [hj, Bool.false_or, ha, hb] at this
  simpa [subLe] using this

/-! ## stated here, settled in `Props/C11Inv.lean` -/

/-- the checked invariants are inductive: preserved by every operation that returns -/
def NoDupInvariantInductive : Prop :=
  ∀ (rank : Int → Int → Ordering), (∀ x y z, rank x y ≠ .gt → rank y z ≠ .gt → rank x z ≠ .gt) →
    (∀ x y, rank x y = .gt ∨ rank y x ≠ .lt → True) →
  ∀ (f : NoDup), f.wfB = true → f.heapOrdB rank = true →
    (∀ x f', f.push rank x = some f' → f'.wfB = true ∧ f'.heapOrdB rank = true) ∧
    (∀ f' o, f.pop rank = some (f', o) → f'.wfB = true ∧ f'.heapOrdB rank = true)

/-- abstraction of the concrete fringe: the live nodes -/
def absNoDup (f : NoDup) : List Sub := f.heap.filterMap (fun id => f.nodes[id]?)

/-- refinement: every concrete push is the specification's push on the abstraction (up to order) -/
def NoDupRefinesKeyed : Prop :=
  ∀ (rank : Int → Int → Ordering) (f f' : NoDup) (x : Sub), f.wfB = true → f.push rank x = some f' →
    ∀ z, z ∈ absNoDup f' ↔ z ∈ KeyedPQ.push (absNoDup f) x

/-! ## the defect found in the pinned commit (D2, repaired by a `fix:` commit): the old key merged
    distinct sub-problems -/
theorem keyOld_merges_distinct :
    (⟨0, 0, 0, 2, 1⟩ : Sub).keyOld = (⟨0, 1, 0, 2, 2⟩ : Sub).keyOld ∧
    (⟨0, 0, 0, 2, 1⟩ : Sub).key ≠ (⟨0, 1, 0, 2, 2⟩ : Sub).key := by decide

/-! non-vacuity: a concrete well-formed, heap-ordered fringe with three nodes -/
def exF : NoDup := ((NoDup.empty.push icmp ⟨1, 0, 5, 10, 1⟩).bind (·.push icmp ⟨2, 0, 7, 12, 2⟩)).bind (·.push icmp ⟨1, 1, 3, 12, 3⟩) |>.getD NoDup.empty
example : exF.wfB = true ∧ exF.heapOrdB icmp = true ∧ exF.len = 3 := by decide
example : (exF.pop icmp).map (·.2) = some (some ⟨2, 0, 7, 12, 2⟩) := by decide

end Ddo.C11
