import DdoModel.Props.C18
import DdoModel.ParSolver
/-! # C09 — the threshold cache never changes the answer   (partial)

What is proved (for every input / history):
* the cache is a faithful max-map (C18: `get_eq_max_since_clear`, `update_comm`, …) and
  `must_explore` is exactly the rule of the property (`must_explore_spec`: value above the
  threshold, or equal to it and not explored);
* `clear_layer_safe_seq` / `clear_layer_safe_par`: the solvers clear a cache layer only when no open
  node (sequential) / no open or in-progress node (parallel) has that depth, and layers are cleared
  in increasing order (so every smaller depth has been cleared before);
* a threshold consumed by a compilation is never looked at for the root layer
  (`filter_skips_root_layer`: `_filter_with_cache` is not applied to the first layer of a diagram).
What is *watched* rather than proved (DESIGN.md §6 C09): that pruning with thresholds written by other
compilations is globally safe (`caching_solver_correct`, `Props/C09c.lean`).  The thresholds the implementation
writes are compared, per compilation, with those of the diagram models (exact equality of the
multiset of `update_threshold` calls, also with a pre-filled cache: engine `mdd`); caching solvers
are compared with the exact optimum on re-convergent instances, sequentially (tape validation,
engine `seq`) and under the controlled scheduler with every cache read / write inside a compilation
as a scheduling point (engine `par`). -/
set_option linter.unusedSectionVars false
namespace Ddo.C09

/-- the sequential cleaning loop only passes over layers without open nodes -/
theorem clear_layer_safe_seq (nbVars : Nat) (openByLayer : List Nat) (fuel fa : Nat) :
    fa ≤ cleanLoop nbVars openByLayer fuel fa ∧
    ∀ d, fa ≤ d → d < cleanLoop nbVars openByLayer fuel fa → openByLayer[d]? = some 0 ∧ d < nbVars := by
  induction fuel generalizing fa with
  | zero => simp only [cleanLoop]; exact ⟨Nat.le_refl _, fun d h1 h2 => by omega⟩
  | succ n ih =>
    simp only [cleanLoop]
    split
    · next h =>
      obtain ⟨i1, i2⟩ := ih (fa + 1)
      refine ⟨by omega, fun d hd hlt => ?_⟩
      by_cases e : d = fa
      · subst e; exact ⟨h.2, h.1⟩
      · exact i2 d (by omega) hlt
    · exact ⟨Nat.le_refl _, fun d hd hlt => by omega⟩

/-- the parallel cleaning loop only passes over layers with nothing open and nothing in progress -/
theorem clear_layer_safe_par (nbVars : Nat) (openByLayer ongoingByLayer : List Nat) (fuel fa : Nat) :
    fa ≤ cleanLoopPar nbVars openByLayer ongoingByLayer fuel fa ∧
    ∀ d, fa ≤ d → d < cleanLoopPar nbVars openByLayer ongoingByLayer fuel fa →
      (openByLayer[d]?.getD 1) + (ongoingByLayer[d]?.getD 1) = 0 ∧ d < nbVars := by
  induction fuel generalizing fa with
  | zero => simp only [cleanLoopPar]; exact ⟨Nat.le_refl _, fun d h1 h2 => by omega⟩
  | succ n ih =>
    simp only [cleanLoopPar]
    split
    · next h =>
      obtain ⟨i1, i2⟩ := ih (fa + 1)
      refine ⟨by omega, fun d hd hlt => ?_⟩
      by_cases e : d = fa
      · subst e; exact ⟨h.2, h.1⟩
      · exact i2 d (by omega) hlt
    · exact ⟨Nat.le_refl _, fun d hd hlt => by omega⟩

/-- `must_explore`, as the property states it (re-exported from C18) -/
theorem must_explore_spec (t : Option Thr) (v : Int) :
    mustExploreThr t v = true ↔ (t = none ∨ ∃ th, t = some th ∧ (v > th.value ∨ (v = th.value ∧ th.explored = false))) :=
  C18.must_explore_spec t v

/-- a stored threshold never decreases, whatever the order of the writes (re-exported from C18) -/
theorem threshold_never_decreases (cell : Option Thr) (t : Thr) :
    ∃ r, updCell cell t = some r ∧ Thr.le t r ∧ ∀ e, cell = some e → Thr.le e r := C18.update_ge cell t

/-! Sentence 1 ("for arbitrary runs the caching solvers return the optimum") is `caching_solver_correct` in `Props/C09c.lean`
    (every pop order since the repair of D14); threshold soundness of a single compilation is `theta_sound` /
    `theta_sound_isolated` in `Props/C09b.lean`. -/

end Ddo.C09
