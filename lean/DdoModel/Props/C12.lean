import DdoModel.Mdd
/-! # C12 — calls into user code are coherent with the model (callback protocol)

Stage in place: for the model of the diagram compiler (`Mdd.lean`, shared by the pooled model), the
calls logged by the two places that call `transition_cost` and `relax` are coherent *by
construction*, for every input:
* `expandAll_calls_ok`: every `transition` / `transition_cost` / `for_each_in_domain` /
  `fast_upper_bound` call issued while expanding a layer is made for the variable of that layer,
  on the state of a node of that layer, with `dst = transition(src, d)` and `d ∈ domain(var, src)`;
* `relaxLayer_calls_ok`: every `relax` call issued while merging receives as `merged` the state
  just returned by `merge` over the states of the merged-away nodes, as `dst` the state of one of
  them, and as `(src, decision, cost)` an inbound arc of that node with its current cost.
The tie to the code is the *log correspondence* of engine `mdd` (the multiset of calls of the
implementation equals the model's, per compilation) plus `phi`: the full protocol predicate of the
property (`phiProtocol` in `Engines/Mdd.lean`: depth argument of `next_variable`, domains only for
the selected variable and for states of the layer, …) evaluated on the implementation's
chronological log.  The full statement over whole compilations (`CallbackProtocol`) is stated, not
yet proved. -/
set_option linter.unusedSectionVars false
namespace Ddo.C12
variable {S K : Type} [DecidableEq S] [DecidableEq K]

/-- a call issued during the expansion of a layer whose variable is `var` and whose nodes are `layer` -/
def ExpandCallOk (P : Problem S) (var : Nat) (states : List S) : Call S → Prop
  | .rub s => s ∈ states
  | .domain v s => v = var ∧ s ∈ states
  | .trans s d => s ∈ states ∧ d.var = var ∧ d.val ∈ P.domain var s
  | .cost s t d => s ∈ states ∧ d.var = var ∧ d.val ∈ P.domain var s ∧ t = P.trans s d
  | _ => False

theorem expandOne_states (cfg : Cfg S K) (var lidx : Nat) (ly nx : List (Node S)) (lg : List (Call S)) (p : Nat) :
    (expandOne cfg var lidx (ly, nx, lg) p).1.map (·.state) = ly.map (·.state) := by
  simp only [expandOne]
  split
  · rfl
  · next n hn =>
    have : (ly.set p { n with rub := cfg.R.rub n.state }).map (·.state) = ly.map (·.state) := by
      rw [List.map_set]
      apply List.ext_getElem?
      intro i
      by_cases hi : i = p
      · subst hi
        by_cases hl : i < (ly.map (·.state)).length
        · rw [List.getElem?_set_self hl]; simp [hn]
        · have hl' : (List.map (fun x => x.state) ly).length ≤ i := by omega
          rw [List.getElem?_eq_none_iff.mpr (by simpa using hl'), List.getElem?_eq_none_iff.mpr hl']
      · rw [List.getElem?_set_ne (fun h => hi h.symm)]
    split <;> exact this

/-- every call logged by the expansion of one node is coherent -/
theorem expandOne_calls_ok (cfg : Cfg S K) (var lidx : Nat) (ly nx : List (Node S)) (lg : List (Call S)) (p : Nat) :
    ∀ c ∈ (expandOne cfg var lidx (ly, nx, lg) p).2.2, c ∈ lg ∨ ExpandCallOk cfg.P var (ly.map (·.state)) c := by
  simp only [expandOne]
  split
  · intro c hc; exact Or.inl hc
  · next n hn =>
    have hmem : n.state ∈ ly.map (·.state) := List.mem_map.mpr ⟨n, List.mem_of_getElem? hn, rfl⟩
    split
    · -- expanded: fold over the domain
      have key : ∀ (ds : List Int) (acc : List (Node S) × List (Call S)),
          (∀ d ∈ ds, d ∈ cfg.P.domain var n.state) →
          (∀ c ∈ acc.2, c ∈ lg ∨ ExpandCallOk cfg.P var (ly.map (·.state)) c) →
          ∀ c ∈ (ds.foldl (fun (acc : List (Node S) × List (Call S)) d =>
              (branchOn cfg { n with rub := cfg.R.rub n.state } lidx p ⟨var, d⟩ acc.1,
               Call.cost n.state (cfg.P.trans n.state ⟨var, d⟩) ⟨var, d⟩ :: Call.trans n.state ⟨var, d⟩ :: acc.2)) acc).2,
            c ∈ lg ∨ ExpandCallOk cfg.P var (ly.map (·.state)) c := by
        intro ds
        induction ds with
        | nil => intro acc _ h; exact h
        | cons d ds ih =>
          intro acc hds hacc
          simp only [List.foldl_cons]
          apply ih
          · exact fun d' hd' => hds d' (List.mem_cons_of_mem _ hd')
          · intro c hc
            have hd := hds d List.mem_cons_self
            rcases List.mem_cons.mp hc with h | h
            · subst h; exact Or.inr ⟨hmem, rfl, hd, rfl⟩
            · rcases List.mem_cons.mp h with h | h
              · subst h; exact Or.inr ⟨hmem, rfl, hd⟩
              · exact hacc c h
      intro c hc
      refine key (cfg.P.domain var n.state) (nx, Call.domain var n.state :: Call.rub n.state :: lg) (fun d hd => hd) ?_ c (by simpa using hc)
      intro c hc
      rcases List.mem_cons.mp hc with h | h
      · subst h; exact Or.inr ⟨rfl, hmem⟩
      · rcases List.mem_cons.mp h with h | h
        · subst h; exact Or.inr hmem
        · exact Or.inl h
    · intro c hc
      rcases List.mem_cons.mp hc with h | h
      · subst h; exact Or.inr hmem
      · exact Or.inl h

/-- **`expandAll_calls_ok`**: all calls issued while expanding a layer are coherent with the model -/
theorem expandAll_calls_ok (cfg : Cfg S K) (var lidx : Nat) (layer : List (Node S)) (cur : List Nat) (log : List (Call S)) :
    ∀ c ∈ (expandAll cfg var lidx layer cur log).2.2, c ∈ log ∨ ExpandCallOk cfg.P var (layer.map (·.state)) c := by
  unfold expandAll
  have key : ∀ (cur : List Nat) (acc : List (Node S) × List (Node S) × List (Call S)),
      acc.1.map (·.state) = layer.map (·.state) →
      (∀ c ∈ acc.2.2, c ∈ log ∨ ExpandCallOk cfg.P var (layer.map (·.state)) c) →
      ∀ c ∈ (cur.foldl (expandOne cfg var lidx) acc).2.2, c ∈ log ∨ ExpandCallOk cfg.P var (layer.map (·.state)) c := by
    intro cur
    induction cur with
    | nil => intro acc _ h; exact h
    | cons p ps ih =>
      intro acc hst hacc
      simp only [List.foldl_cons]
      obtain ⟨ly, nx, lg⟩ := acc
      apply ih
      · rw [expandOne_states]; exact hst
      · intro c hc
        rcases expandOne_calls_ok cfg var lidx ly nx lg p c hc with h | h
        · exact hacc c h
        · right; simp only at hst; rw [← hst]; exact h
  exact key cur (layer, [], log) rfl (fun c hc => Or.inl hc)

/-- a `relax` call is coherent with the merge that precedes it -/
def RelaxCallOk (R : Relax S) (restStates : List S) : Call S → Prop
  | .merge sts res => sts = restStates ∧ res = R.merge restStates
  | .relax _ dst merged _ _ => merged = R.merge restStates ∧ dst ∈ restStates
  | _ => False

theorem appendEdge_state (p c : Node S) (a : Arc) : (appendEdge p c a).state = c.state := by
  unfold appendEdge; simp only; split <;> rfl

theorem map_state_set (ly : List (Node S)) (i : Nat) (n n' : Node S) (h : ly[i]? = some n) (hs : n'.state = n.state) :
    (ly.set i n').map (·.state) = ly.map (·.state) := by
  rw [List.map_set]
  apply List.ext_getElem?
  intro j
  by_cases hj : j = i
  · subst hj
    have hl : j < ly.length := by
      rcases Nat.lt_or_ge j ly.length with h' | h'
      · exact h'
      · rw [List.getElem?_eq_none_iff.mpr h'] at h; cases h
    rw [List.getElem?_set_self (by simpa using hl)]; simp [h, hs]
  · rw [List.getElem?_set_ne (fun h' => hj h'.symm)]

theorem mem_insertBy {α : Type} (before : α → α → Bool) (x y : α) (l : List α) : y ∈ insertBy before x l ↔ y = x ∨ y ∈ l := by
  induction l with
  | nil => simp [insertBy]
  | cons z r ih =>
    simp only [insertBy]
    split
    · simp only [List.mem_cons, ih]
      constructor
      · rintro (h | h | h)
        · exact Or.inr (Or.inl h)
        · exact Or.inl h
        · exact Or.inr (Or.inr h)
      · rintro (h | h | h)
        · exact Or.inr (Or.inl h)
        · exact Or.inl h
        · exact Or.inr (Or.inr h)
    · simp [List.mem_cons]

theorem mem_sortBy {α : Type} (before : α → α → Bool) (y : α) (l : List α) : y ∈ sortBy before l ↔ y ∈ l := by
  unfold sortBy
  have : ∀ (l acc : List α), y ∈ l.foldl (fun acc x => insertBy before x acc) acc ↔ y ∈ l ∨ y ∈ acc := by
    intro l
    induction l with
    | nil => intro acc; simp
    | cons x xs ih =>
      intro acc
      simp only [List.foldl_cons, ih, mem_insertBy, List.mem_cons]
      constructor
      · rintro (h | h | h)
        · exact Or.inl (Or.inr h)
        · exact Or.inl (Or.inl h)
        · exact Or.inr h
      · rintro ((h | h) | h)
        · exact Or.inr (Or.inl h)
        · exact Or.inl h
        · exact Or.inr (Or.inr h)
  simpa using this l []

theorem foldl_inv {α β : Type} (f : β → α → β) (I : β → Prop) (l : List α) (b : β)
    (h0 : I b) (hstep : ∀ b a, a ∈ l → I b → I (f b a)) : I (l.foldl f b) := by
  induction l generalizing b with
  | nil => exact h0
  | cons x xs ih =>
    simp only [List.foldl_cons]
    exact ih (f b x) (hstep b x List.mem_cons_self h0) (fun b a ha => hstep b a (List.mem_cons_of_mem _ ha))

theorem flag_state_stable (L : List (Node S)) (i : Nat) :
    List.map (fun (n : Node S) => n.state) (match L[i]? with
      | some n => L.set i { n with fRelaxed := true }
      | none => L) = L.map (·.state) := by
  split
  · next n hn => exact map_state_set L i n _ hn rfl
  · rfl

/-- **`relaxLayer_calls_ok`**: every call logged by `_relax` is the `merge` over the merged-away
    states or a `relax` whose `merged` argument is that very result and whose `dst` is one of them -/
theorem relaxLayer_calls_ok (cfg : Cfg S K) (layers : List (List (Node S))) (layer : List (Node S)) (cur : List Nat)
    (log : List (Call S)) (hcur : ∀ p ∈ cur, p < layer.length) :
    let rest := (sortSquash cfg layer cur).drop (cfg.width - 1)
    let restStates := rest.filterMap (fun p => (layer[p]?).map (·.state))
    ∀ c ∈ (relaxLayer cfg layers layer cur log).2.2, c ∈ log ∨ RelaxCallOk cfg.R restStates c := by
  intro rest restStates
  have hrest : ∀ p ∈ rest, p < layer.length := fun p hp =>
    hcur p ((mem_sortBy _ p cur).mp (List.mem_of_mem_drop hp))
  -- invariant of both folds, relative to a layer `L2` whose first `layer.length` states are those of `layer`
  let I (L2 : List (Node S)) : List (Node S) × List (Call S) → Prop := fun acc =>
    acc.1.map (·.state) = L2.map (·.state) ∧ ∀ c ∈ acc.2, c ∈ log ∨ RelaxCallOk cfg.R restStates c
  have main : ∀ (L2 : List (Node S)) (mpos : Nat),
      (∀ p, p < layer.length → (L2.map (·.state))[p]? = (layer.map (·.state))[p]?) →
      I L2 (rest.foldl (fun (x : List (Node S) × List (Call S)) p =>
        match x with
        | (ly, lg) =>
          match ly[p]? with
          | none => (ly, lg)
          | some dropN =>
            let ly := ly.set p { dropN with deleted := true }
            dropN.inb.foldl (fun (x : List (Node S) × List (Call S)) e =>
              match x with
              | (ly, lg) =>
                match getNode layers e.fromL e.fromP, ly[mpos]? with
                | some src, some m =>
                  let rcost := cfg.R.relax src.state dropN.state (cfg.R.merge restStates) e.dec e.cost
                  (ly.set mpos (appendEdge src m ⟨e.fromL, e.fromP, e.dec, rcost⟩),
                   Call.relax src.state dropN.state (cfg.R.merge restStates) e.dec e.cost :: lg)
                | _, _ => (ly, lg)) (ly, lg)) (L2, Call.merge restStates (cfg.R.merge restStates) :: log)) := by
    intro L2 mpos hst2
    apply foldl_inv
    · refine ⟨rfl, fun c hc => ?_⟩
      rcases List.mem_cons.mp hc with h | h
      · subst h; exact Or.inr ⟨rfl, rfl⟩
      · exact Or.inl h
    · rintro ⟨ly, lg⟩ p hp ⟨hst, hlg⟩
      simp only
      split
      · exact ⟨hst, hlg⟩
      · next dropN hdn =>
        have hdS : dropN.state ∈ restStates := by
          have hpl := hrest p hp
          have e1 : (ly.map (·.state))[p]? = some dropN.state := by simp [hdn]
          simp only at hst
          rw [hst, hst2 p hpl] at e1
          simp only [List.getElem?_map] at e1
          exact List.mem_filterMap.mpr ⟨p, hp, e1⟩
        apply foldl_inv
        · refine ⟨?_, hlg⟩
          exact (map_state_set ly p dropN { dropN with deleted := true } hdn rfl).trans hst
        · rintro ⟨ly', lg'⟩ e _ ⟨hst', hlg'⟩
          simp only
          split
          · next src m hsrc hm =>
            refine ⟨?_, fun c hc => ?_⟩
            · exact (map_state_set ly' mpos m _ hm (appendEdge_state _ _ _)).trans hst'
            · rcases List.mem_cons.mp hc with h | h
              · subst h; exact Or.inr ⟨rfl, hdS⟩
              · exact hlg' c h
          · exact ⟨hst', hlg'⟩
  unfold relaxLayer
  simp only
  cases hrec : List.find? (fun p => match layer[p]? with
      | some n => decide (n.state = cfg.R.merge restStates) | none => false)
      (List.take (cfg.width - 1) (sortSquash cfg layer cur)) with
  | some pr =>
    simp only
    have hst2 : ∀ p, p < layer.length →
        (List.map (fun (n : Node S) => n.state) (match layer[pr]? with | some n => layer.set pr { n with fRelaxed := true } | none => layer))[p]?
          = (layer.map (·.state))[p]? := by
      intro p _; rw [flag_state_stable]
    exact (main _ pr hst2).2
  | none =>
    simp only
    have hst2 : ∀ (fresh : Node S) p, p < layer.length →
        (List.map (fun (n : Node S) => n.state) (match (layer ++ [fresh])[layer.length]? with
          | some n => (layer ++ [fresh]).set layer.length { n with fRelaxed := true }
          | none => layer ++ [fresh]))[p]? = (layer.map (·.state))[p]? := by
      intro fresh p hp
      rw [flag_state_stable, List.map_append, List.getElem?_append_left (by simpa using hp)]
    exact (main _ layer.length (hst2 _)).2

end Ddo.C12
