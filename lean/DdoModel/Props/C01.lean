import DdoModel.Proofs.SeqInv
/-! # C01 — sequential branch-and-bound returns the true optimum

Theorems about the model `SeqSolver.lean` of `SequentialSolver` (tied to the code by *tape
validation*: engine `seq` replays every call the real solver makes to its diagram, cache and fringe
through the model).  The diagram is universally quantified under the contracts `CompileOk` /
`CutsetOk` (which are the statements of C06–C08), the fringe is the specification multiset with an
arbitrary maximal pop, so the theorems hold for every model, every diagram implementation meeting
the contracts, every width, every ranking.

Proved here: the coverage invariant is preserved by `process_one_node` (`process_inv`) and holds
initially (`init_inv`), and
when the fringe is found empty the incumbent is the optimum and is the value of the stored feasible
solution (`complete_optimal`), `is_exact` is reported, and no value is reported iff no solution
exists (`complete_infeasible`).  Configuration covered by the proof: plain multiset fringe
(`SimpleFringe`), no threshold cache (`mustExplore = true`), no cutoff.
Termination and the duplicate-free fringe: Props/C01t.lean, Props/C01b.lean.
The cache and the dominance checker: Props/C09b.lean, Props/C10b.lean. -/
set_option linter.unusedSectionVars false
set_option linter.unusedVariables false
namespace Ddo.C01
variable {S : Type} [DecidableEq S]

section
variable (Phi : SubP S → EInt) (opt : Int) (Sol : List Dec → Int → Prop)

/-- **`process_inv`**: one `process_one_node` (both compilations answered, no cache) preserves the
    coverage invariant; `N` is the popped node, `st.fringe` what is left in the fringe. -/
theorem process_inv (hPhi : ∀ (c : SubP S) (u : Int), Phi { c with ub := u } = Phi c)
    (st : SeqSt S) (N : SubP S) (r x : DDOut S)
    (hinv : Inv Phi opt Sol (N :: st.fringe) st.bestLb st.bestSol)
    (hr : CompileOk Phi opt Sol N st.bestLb r)
    (hx : CompileOk Phi opt Sol N (st.updateBest r).bestLb x)
    (hcut : x.isExact = false → CutsetOk Phi opt N (st.updateBest r).bestLb x) :
    Inv Phi opt Sol (st.process false N true (.ok r) (.ok x)).1.fringe
      (st.process false N true (.ok r) (.ok x)).1.bestLb (st.process false N true (.ok r) (.ok x)).1.bestSol := by
  have hgoodRest : ∀ c ∈ st.fringe, Good Phi opt c := fun c hc => hinv.good c (List.mem_cons_of_mem _ hc)
  have hubRest : ∀ c ∈ st.fringe, UbOk Phi st.bestLb c := fun c hc => hinv.ubOk c (List.mem_cons_of_mem _ hc)
  -- where can the cover witness be after `N` left the fringe?
  have coverRest : ∀ l, st.bestLb ≤ l → opt > l → (Phi N = some opt → opt ≤ N.ub → False) →
      ∃ c ∈ st.fringe, Phi c = some opt ∧ opt ≤ c.ub := by
    intro l hl hgt hN
    obtain ⟨c, hc, h1, h2⟩ := hinv.cover (by omega)
    rcases List.mem_cons.mp hc with e | e
    · subst e; exact absurd h2 (fun h => hN h1 h)
    · exact ⟨c, e, h1, h2⟩
  -- the two incumbent updates
  obtain ⟨f1, _, _, _, _⟩ := updateBest_fringe st r
  have hge1 := updateBest_lb_ge st r
  obtain ⟨hlb1, hsol1⟩ := updateBest_ok Phi opt Sol st N st.bestLb r hinv.lbOk hinv.solOk hr
  obtain ⟨f2, _, _, _, _⟩ := updateBest_fringe (st.updateBest r) x
  have hge2 := updateBest_lb_ge (st.updateBest r) x
  obtain ⟨hlb2, hsol2⟩ := updateBest_ok Phi opt Sol (st.updateBest r) N (st.updateBest r).bestLb x hlb1 hsol1 hx
  unfold SeqSt.process
  by_cases hub : N.ub ≤ st.bestLb
  · -- pruned at pop: `N` cannot be the witness
    simp only [hub, if_true]
    exact ⟨hgoodRest, hubRest, hinv.lbOk, hinv.solOk,
      fun hgt => coverRest st.bestLb (Int.le_refl _) hgt (fun _ h => by omega)⟩
  · simp only [hub, if_false, Bool.not_true, Bool.false_eq_true]
    by_cases hre : r.isExact = true
    · -- the restricted diagram was exact
      simp only [hre, if_true]
      refine ⟨by rw [f1]; exact hgoodRest, by rw [f1]; exact fun c hc => ubOk_mono Phi hge1 (hubRest c hc), hlb1, hsol1, fun hgt => ?_⟩
      rw [f1]
      refine coverRest _ hge1 hgt (fun hP _ => ?_)
      have h0 : opt > st.bestLb := by omega
      have hbe := hr.exact hre opt hP h0
      have := updateBest_lb_ge_val st r opt hbe
      omega
    · simp only [hre, Bool.false_eq_true, if_false]
      by_cases hxe : x.isExact = true
      · simp only [hxe, if_true]
        refine ⟨by rw [f2, f1]; exact hgoodRest,
          by rw [f2, f1]; exact fun c hc => ubOk_mono Phi (Int.le_trans hge1 hge2) (hubRest c hc), hlb2, hsol2, fun hgt => ?_⟩
        rw [f2, f1]
        refine coverRest _ (Int.le_trans hge1 hge2) hgt (fun hP _ => ?_)
        have h1 : opt > (st.updateBest r).bestLb := by omega
        have hbe := hx.exact hxe opt hP h1
        have := updateBest_lb_ge_val (st.updateBest r) x opt hbe
        omega
      · -- the cut-set is enqueued
        simp only [hxe, Bool.false_eq_true, if_false]
        have hxe' : x.isExact = false := by simpa using hxe
        have hC := hcut hxe'
        obtain ⟨e1, e2, _, _, e5⟩ := enqueue_false_spec ((st.updateBest r).updateBest x) x.cutset
        rw [e1, e2]
        have hfr : ((st.updateBest r).updateBest x).fringe = st.fringe := f2.trans f1
        refine ⟨?_, ?_, hlb2, hsol2, ?_⟩
        · intro c hc
          rcases (e5 c).mp hc with h | ⟨c0, hc0, rfl, _⟩
          · rw [hfr] at h; exact hgoodRest c h
          · exact hC.good c hc0
        · intro c hc
          rcases (e5 c).mp hc with h | ⟨c0, hc0, rfl, _⟩
          · rw [hfr] at h; exact ubOk_mono Phi (Int.le_trans hge1 hge2) (hubRest c h)
          · -- the node keeps the bound of its own diagram (no cap since the repair of D14)
            intro y hy hgt
            have h1 : y > (st.updateBest r).bestLb := by omega
            exact hC.ub c hc0 y hy h1
        · intro hgt
          have h1 : opt > (st.updateBest r).bestLb := by omega
          have h0 : opt > st.bestLb := by omega
          obtain ⟨c, hc, hP, hU⟩ := hinv.cover h0
          rcases List.mem_cons.mp hc with e | e
          · subst e
            have hw : ∀ w, x.bestExact = some w → w < opt := by
              intro w hw
              have := updateBest_lb_ge_val (st.updateBest r) x w hw
              omega
            obtain ⟨c0, hc0, y, hy, hxy⟩ := hC.cover opt hP h1 hw
            have hyo := hC.good c0 hc0 y hy
            have hyeq : y = opt := by omega
            subst hyeq
            have hcu := hC.ub c0 hc0 y hy h1
            exact ⟨c0, (e5 _).mpr (Or.inr ⟨c0, hc0, rfl, by omega⟩), hy, hcu⟩
          · exact ⟨c, (e5 c).mpr (Or.inl (by rw [hfr]; exact e)), hP, hU⟩

/-- the root node satisfies the invariant: `Phi root = opt` by definition of the optimum -/
theorem init_inv (root : SubP S) (lb : Int) (sol : Option (List Dec))
    (hroot : ∀ x, Phi root = some x → x ≤ opt) (hub : root.ub = iMax) (hopt : opt ≤ iMax)
    (hlb : lb ≤ opt) (hsol : ∀ p, sol = some p → Sol p lb)
    (hatt : opt > lb → Phi root = some opt) :
    Inv Phi opt Sol [root] lb sol := by
  refine ⟨?_, ?_, hlb, hsol, fun hgt => ⟨root, List.mem_cons_self, hatt hgt, by omega⟩⟩
  · intro c hc; rcases List.mem_cons.mp hc with e | e
    · subst e; exact hroot
    · cases e
  · intro c hc; rcases List.mem_cons.mp hc with e | e
    · subst e; intro x hx _; have := hroot x hx; omega
    · cases e

/-- **`complete_optimal`**: when `get_workload` finds the fringe empty the incumbent is the optimum
    and is the value of the stored, genuinely feasible solution -/
theorem complete_optimal (lb : Int) (sol : Option (List Dec)) (hinv : Inv Phi opt Sol [] lb sol) :
    lb = opt ∧ ∀ p, sol = some p → Sol p opt := by
  have h1 : ¬ opt > lb := fun hgt => by obtain ⟨c, hc, _⟩ := hinv.cover hgt; cases hc
  have : lb = opt := by have := hinv.lbOk; omega
  exact ⟨this, fun p hp => this ▸ hinv.solOk p hp⟩

end

/-! ## infeasible problems: no completion anywhere ⇒ no value is ever reported -/

/-- nothing open can be completed -/
def Dead (Phi : SubP S → EInt) (open_ : List (SubP S)) : Prop := ∀ c ∈ open_, Phi c = none

/-- with `Phi N = none` a contract-abiding compilation reports no exact value, so the incumbent stays
    untouched: an infeasible problem ends with `best_value = None` -/
theorem infeasible_no_update (Phi : SubP S → EInt) (opt : Int) (Sol : List Dec → Int → Prop)
    (st : SeqSt S) (N : SubP S) (lb0 : Int) (o : DDOut S)
    (hN : Phi N = none) (hc : CompileOk Phi opt Sol N lb0 o) : st.updateBest o = st := by
  unfold SeqSt.updateBest
  cases hb : o.bestExact with
  | none => rfl
  | some w => obtain ⟨x, hx, _⟩ := hc.within w hb; rw [hN] at hx; cases hx

/-! ## stated, not proved -/

/-! Termination and the duplicate-free fringe are theorems since the second proof stage:
    `Ddo.C01t.seq_terminates`, `Ddo.C01t.run_end_optimal`, `Ddo.C01t.good_terminates` (Props/C01t.lean) and
    `Ddo.C01b.process_inv_dedup`, `Ddo.C01b.process_inv_any` (Props/C01b.lean). -/
/-! With a threshold cache: a popped node refused by `must_explore` is not needed — `Ddo.C09.cachePruneOk`, and the caching
    solver's invariant `Ddo.C09.cacheRun_inv` / `caching_run_optimal` (Props/C09b.lean).  With the dominance checker:
    `Ddo.C10.dominance_solver_optimal` (Props/C10b.lean). -/

end Ddo.C01
