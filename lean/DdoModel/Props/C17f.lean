import DdoModel.GapFloat
import DdoModel.Props.C17
/-! # C17 on the `f32` that `Solver::gap` really returns

`Props/C17.lean` proves the clauses of C17 on the exact fraction.  Here they are proved on `gapF`
(`GapFloat.lean`), the Rust computation with its binary32 arithmetic, for **all** `isize` bounds.

What remains trusted is only: *Rust's `usize as f32` and `f32 / f32` are IEEE-754 binary32
round-to-nearest-even* (`F.ofNat`, `F.div` spell that out, and §3 proves that `F.roundAt` is exactly
roundTiesToEven: `roundAt_nearest`, `roundAt_tie_even`, `roundAt_unique`).  The rounding facts the
clauses use are **proved** for these definitions:

| fact | patterns (`Nat`) | floats (`F`) |
|---|---|---|
| encoding is order preserving | `val_lt_iff`, `val_le_iff` | `decode_le_decode` |
| floor is the floor | `floorBits_spec`, `floorBits_unique` | |
| monotone | `roundAt_mono`, `roundBits_mono` | `round_mono`, `ofNat_mono` |
| exact on representable values | `roundAt_exact`, `roundBits_val` | `round_exact`, `ofNat_exact`, `ofNat_eq_of_mag` |
| sandwich by representable values (⇒ no underflow to 0, no overflow, `≤ 1`) | `le_roundAt`, `roundAt_le` | `le_round`, `round_le`, `round_no_underflow`, `round_le_one` |
| sign preserved, never NaN, result in the format | | `round_signBit`, `round_isNaN`, `round_wf` |
| relative error `≤ 2^-24` in the normal range | `roundAt_relerr` | |
| commutes with doubling | `roundAt_double` | |

Clauses (§9–§12): `gapF_not_nan`, `gapF_finite`, `gapF_signBit`/`gapF_nonneg`, `gapF_one_of_infinite`,
`gapF_zero_iff` (+ the quantitative `gapF_ge_of_ne`: `≥ 2^-63`), `gapF_le_one_same_sign`, `gapF_le_two`;
summary `c17_float`.  Ties to the exact model and the driver: `gapF_eq_toF`, `gapF_phi`, `gapF_agrees`.
The converse of "1 while a bound is infinite" is false: `gapF_one_finite_witness`. -/
set_option exponentiation.threshold 400
namespace Ddo.C17
open Ddo.F

/-! ## 1. The encoding is order preserving -/

theorem val_mk (E f : Nat) (hf : f < 2 ^ 23) :
    val (E * 2 ^ 23 + f) = if E = 0 then f else (2 ^ 23 + f) * 2 ^ (E - 1) := by
  have h1 : (E * 2 ^ 23 + f) / 2 ^ 23 = E := by omega
  have h2 : (E * 2 ^ 23 + f) % 2 ^ 23 = f := by omega
  unfold val; rw [h1, h2]

/-- patterns up to `2^24` (subnormals and the first binade) have unit `2^-149`: value = pattern -/
theorem val_small (b : Nat) (h : b ≤ 2 ^ 24) : val b = b := by
  unfold val
  have : b / 2 ^ 23 = 0 ∨ b / 2 ^ 23 = 1 ∨ (b / 2 ^ 23 = 2 ∧ b % 2 ^ 23 = 0) := by omega
  rcases this with h | h | ⟨h, h'⟩
  · rw [h]; simp; omega
  · rw [h]; simp; omega
  · rw [h, h']; simp; omega

/-- a normal number: mantissa `m ∈ [2^23, 2^24)`, shifted by `sh` -/
theorem val_norm (sh m : Nat) (h1 : 2 ^ 23 ≤ m) (h2 : m < 2 ^ 24) :
    val (sh * 2 ^ 23 + m) = m * 2 ^ sh := by
  have e : sh * 2 ^ 23 + m = (sh + 1) * 2 ^ 23 + (m - 2 ^ 23) := by omega
  rw [e, val_mk _ _ (by omega)]
  have : 2 ^ 23 + (m - 2 ^ 23) = m := by omega
  simp [this]

/-- … and the carry case `m = 2^24` is the first number of the next binade -/
theorem val_norm_top (sh : Nat) : val (sh * 2 ^ 23 + 2 ^ 24) = 2 ^ 24 * 2 ^ sh := by
  have e : sh * 2 ^ 23 + 2 ^ 24 = (sh + 2) * 2 ^ 23 + 0 := by omega
  rw [e, val_mk _ _ (by omega)]
  simp [Nat.pow_succ]; grind

theorem val_succ_lt (b : Nat) : val b < val (b + 1) := by
  have hb : b = b / 2 ^ 23 * 2 ^ 23 + b % 2 ^ 23 := by omega
  generalize b / 2 ^ 23 = E at hb
  generalize hf : b % 2 ^ 23 = f at hb
  have hf' : f < 2 ^ 23 := by omega
  subst hb
  by_cases hc : f + 1 < 2 ^ 23
  · rw [Nat.add_assoc, val_mk _ _ hf', val_mk _ _ hc]
    by_cases hE : E = 0
    · simp [hE]
    · simp only [hE, if_false]
      have : 0 < 2 ^ (E - 1) := Nat.pow_pos (by decide)
      grind
  · have e : E * 2 ^ 23 + f + 1 = (E + 1) * 2 ^ 23 + 0 := by omega
    rw [e, val_mk _ _ hf', val_mk _ _ (by omega)]
    by_cases hE : E = 0
    · simp [hE]; omega
    · simp only [hE, if_false, Nat.add_eq_zero_iff, Nat.add_sub_cancel]
      obtain ⟨k, rfl⟩ : ∃ k, E = k + 1 := ⟨E - 1, by omega⟩
      have : 0 < 2 ^ k := Nat.pow_pos (by decide)
      simp [Nat.pow_succ]; grind

theorem val_lt_of_lt {a b : Nat} (h : a < b) : val a < val b := by
  induction b with
  | zero => omega
  | succ k ih =>
    by_cases hk : a = k
    · subst hk; exact val_succ_lt a
    · exact Nat.lt_trans (ih (by omega)) (val_succ_lt k)

theorem val_le_of_le {a b : Nat} (h : a ≤ b) : val a ≤ val b := by
  by_cases e : a = b
  · subst e; exact Nat.le_refl _
  · exact Nat.le_of_lt (val_lt_of_lt (by omega))

theorem val_le_iff {a b : Nat} : val a ≤ val b ↔ a ≤ b := by
  constructor
  · intro h; by_cases c : a ≤ b
    · exact c
    · have := val_lt_of_lt (show b < a by omega); omega
  · exact val_le_of_le

theorem val_lt_iff {a b : Nat} : val a < val b ↔ a < b := by
  constructor
  · intro h; by_cases c : a < b
    · exact c
    · have := val_le_of_le (show b ≤ a by omega); omega
  · exact val_lt_of_lt

theorem val_inj {a b : Nat} (h : val a = val b) : a = b := by
  have h1 := (@val_le_iff a b).1 (by omega)
  have h2 := (@val_le_iff b a).1 (by omega)
  omega


/-! ## 2. `floorBits` is the floor: the largest pattern whose value is `≤ t` -/

theorem floorBits_spec (t : Nat) : val (floorBits t) ≤ t ∧ t < val (floorBits t + 1) := by
  unfold floorBits
  by_cases h0 : t = 0
  · subst h0; decide
  have hlo : 2 ^ t.log2 ≤ t := Nat.log2_self_le h0
  have hhi : t < 2 ^ (t.log2 + 1) := Nat.lt_log2_self
  generalize t.log2 = L at hlo hhi
  by_cases hL : L ≤ 23
  · have e : L - 23 = 0 := by omega
    have : (2:Nat) ^ (L + 1) ≤ 2 ^ 24 := Nat.pow_le_pow_right (by decide) (by omega)
    rw [e]; simp only [Nat.zero_mul, Nat.zero_add, Nat.shiftRight_zero]
    rw [val_small t (by omega), val_small (t + 1) (by omega)]; omega
  · obtain ⟨sh, rfl⟩ : ∃ sh, L = sh + 23 := ⟨L - 23, by omega⟩
    simp only [Nat.add_sub_cancel, Nat.shiftRight_eq_div_pow]
    have hP : 0 < 2 ^ sh := Nat.pow_pos (by decide)
    have e1 : (2:Nat) ^ (sh + 23) = 2 ^ 23 * 2 ^ sh := by rw [Nat.pow_add, Nat.mul_comm]
    have e2 : (2:Nat) ^ (sh + 23 + 1) = 2 ^ 24 * 2 ^ sh := by
      rw [show sh + 23 + 1 = sh + 24 by omega, Nat.pow_add, Nat.mul_comm]
    rw [e1] at hlo; rw [e2] at hhi
    generalize hP' : 2 ^ sh = P at *
    have hm1 : 2 ^ 23 ≤ t / P := (Nat.le_div_iff_mul_le hP).2 hlo
    have hm2 : t / P < 2 ^ 24 := (Nat.div_lt_iff_lt_mul hP).2 hhi
    have hd1 : t / P * P ≤ t := Nat.div_mul_le_self t P
    have hd2 : t < P * (t / P + 1) := Nat.lt_mul_div_succ t hP
    refine ⟨?_, ?_⟩
    · rw [val_norm sh _ hm1 hm2, hP']; omega
    · by_cases hc : t / P + 1 < 2 ^ 24
      · rw [Nat.add_assoc, val_norm sh _ (by omega) hc, hP', Nat.mul_comm]; exact hd2
      · have e : t / P + 1 = 2 ^ 24 := by omega
        rw [Nat.add_assoc, e, val_norm_top, hP', ← e, Nat.mul_comm]; exact hd2

theorem floorBits_unique {t b : Nat} (h1 : val b ≤ t) (h2 : t < val (b + 1)) : floorBits t = b := by
  have ⟨s1, s2⟩ := floorBits_spec t
  have a : floorBits t < b + 1 := val_lt_iff.1 (by omega)
  have c : b < floorBits t + 1 := val_lt_iff.1 (by omega)
  omega

theorem floorBits_mono {s t : Nat} (h : s ≤ t) : floorBits s ≤ floorBits t := by
  have ⟨s1, _⟩ := floorBits_spec s
  have ⟨_, t2⟩ := floorBits_spec t
  have : floorBits s < floorBits t + 1 := val_lt_iff.1 (by omega)
  omega

theorem floorBits_val (b : Nat) : floorBits (val b) = b :=
  floorBits_unique (Nat.le_refl _) (val_succ_lt b)

/-- the floor with respect to a rational: `val b ≤ n/d < val (b+1)` in units of `2^-149`, cross-multiplied -/
theorem floorBits_frac (x d : Nat) (hd : 0 < d) :
    val (floorBits (x / d)) * d ≤ x ∧ x < val (floorBits (x / d) + 1) * d := by
  have ⟨s1, s2⟩ := floorBits_spec (x / d)
  exact ⟨(Nat.le_div_iff_mul_le hd).1 s1, (Nat.div_lt_iff_lt_mul hd).1 s2⟩


/-! ## 3. `roundAt` / `roundBits`: nearest, ties to even, monotone, exact on representable values -/

/-- `q₁ ≤ q₂ ⇒ ⌊q₁⌋ ≤ ⌊q₂⌋` on fractions -/
theorem frac_floor_mono {x1 d1 x2 d2 : Nat} (h1 : 0 < d1) (h2 : 0 < d2) (h : x1 * d2 ≤ x2 * d1) :
    x1 / d1 ≤ x2 / d2 := by
  rw [Nat.le_div_iff_mul_le h2]
  have hx : x1 / d1 * d1 ≤ x1 := Nat.div_mul_le_self _ _
  generalize x1 / d1 = x at *
  have : (x * d2) * d1 ≤ x2 * d1 := by
    have a := Nat.mul_le_mul_right d2 hx
    grind
  exact Nat.le_of_mul_le_mul_right this h1

/-- the result is the floor pattern or its successor -/
theorem roundAt_cases (x d : Nat) :
    roundAt x d = floorBits (x / d) ∨ roundAt x d = floorBits (x / d) + 1 := by
  unfold roundAt; simp only []; split <;> simp

/-- **monotone**: `x₁/d₁ ≤ x₂/d₂ ⇒ round (x₁/d₁) ≤ round (x₂/d₂)` -/
theorem roundAt_mono {x1 d1 x2 d2 : Nat} (h1 : 0 < d1) (h2 : 0 < d2) (hX : x1 * d2 ≤ x2 * d1) :
    roundAt x1 d1 ≤ roundAt x2 d2 := by
  have hf := floorBits_mono (frac_floor_mono h1 h2 hX)
  unfold roundAt
  simp only []
  generalize floorBits (x1 / d1) = b1 at *
  generalize floorBits (x2 / d2) = b2 at *
  by_cases hlt : b1 < b2
  · split <;> split <;> omega
  · have : b1 = b2 := by omega
    subst this
    generalize val b1 + val (b1 + 1) = M
    split
    · split
      · omega
      · rename_i c1 c2
        exfalso
        have c2a : 2 * x2 ≤ M * d2 := by omega
        have k2 : (2 * x2) * d1 ≤ (M * d2) * d1 := Nat.mul_le_mul_right _ c2a
        have e1 : M * d1 * d2 = M * d2 * d1 := Nat.mul_right_comm _ _ _
        have e2 : 2 * x1 * d2 = 2 * (x1 * d2) := Nat.mul_assoc _ _ _
        have e3 : 2 * x2 * d1 = 2 * (x2 * d1) := Nat.mul_assoc _ _ _
        rcases c1 with c1 | ⟨c1, hodd⟩
        · have k1 : (M * d1) * d2 < (2 * x1) * d2 := Nat.mul_lt_mul_of_pos_right c1 h2
          omega
        · have c2b : 2 * x2 < M * d2 := by omega
          have k3 : (2 * x2) * d1 < (M * d2) * d1 := Nat.mul_lt_mul_of_pos_right c2b h1
          have k4 : (M * d1) * d2 = (2 * x1) * d2 := by rw [c1]
          omega
    · split <;> omega

/-- **exact**: a representable value is returned unchanged -/
theorem roundAt_exact {x d b : Nat} (hd : 0 < d) (h : x = val b * d) : roundAt x d = b := by
  unfold roundAt
  simp only []
  rw [h, Nat.mul_div_cancel _ hd, floorBits_val, Nat.add_mul]
  have := Nat.mul_lt_mul_of_pos_right (val_succ_lt b) hd
  rw [if_neg (by omega)]

/-- lower sandwich: a representable value below `x/d` stays below the rounded result -/
theorem le_roundAt {x d c : Nat} (hd : 0 < d) (h : val c * d ≤ x) : c ≤ roundAt x d := by
  have ⟨_, s2⟩ := floorBits_spec (x / d)
  have : val c ≤ x / d := (Nat.le_div_iff_mul_le hd).2 h
  have : c < floorBits (x / d) + 1 := val_lt_iff.1 (by omega)
  rcases roundAt_cases x d with e | e <;> omega

/-- upper sandwich -/
theorem roundAt_le {x d c : Nat} (hd : 0 < d) (h : x ≤ val c * d) : roundAt x d ≤ c := by
  by_cases e : x = val c * d
  · rw [roundAt_exact hd e]; exact Nat.le_refl _
  · have ⟨s1, _⟩ := floorBits_spec (x / d)
    have : x / d < val c := (Nat.div_lt_iff_lt_mul hd).2 (by omega)
    have : floorBits (x / d) < c := val_lt_iff.1 (by omega)
    rcases roundAt_cases x d with e | e <;> omega

/-- **nearest**: no pattern `c` is closer to `x/d` than the result (distances multiplied by `d`) -/
theorem roundAt_nearest {x d : Nat} (hd : 0 < d) (c : Nat) :
    ((val (roundAt x d) * d : Int) - x).natAbs ≤ ((val c * d : Int) - x).natAbs := by
  have ⟨f1, f2⟩ := floorBits_frac x d hd
  obtain ⟨r, hr⟩ : ∃ r, r = roundAt x d := ⟨_, rfl⟩
  rw [← hr]
  unfold roundAt at hr
  simp only [] at hr
  generalize floorBits (x / d) = b at *
  rw [Nat.add_mul] at hr
  by_cases hc : c ≤ b
  · have := Nat.mul_le_mul_right d (val_le_of_le hc)
    split at hr <;> subst hr <;> omega
  · have := Nat.mul_le_mul_right d (val_le_of_le (show b + 1 ≤ c by omega))
    split at hr <;> subst hr <;> omega

/-- **ties to even**: if another pattern is exactly as close, the result is the even one -/
theorem roundAt_tie_even {x d : Nat} (hd : 0 < d) (c : Nat) (hne : c ≠ roundAt x d)
    (h : ((val c * d : Int) - x).natAbs = ((val (roundAt x d) * d : Int) - x).natAbs) :
    roundAt x d % 2 = 0 := by
  have ⟨f1, f2⟩ := floorBits_frac x d hd
  obtain ⟨r, hr⟩ : ∃ r, r = roundAt x d := ⟨_, rfl⟩
  rw [← hr] at hne h ⊢
  unfold roundAt at hr
  simp only [] at hr
  generalize floorBits (x / d) = b at *
  rw [Nat.add_mul] at hr
  have s0 := Nat.mul_lt_mul_of_pos_right (val_succ_lt b) hd
  by_cases hc : c ≤ b
  · have := Nat.mul_le_mul_right d (val_le_of_le hc)
    split at hr
    · rw [hr] at hne h ⊢; omega
    · rw [hr] at hne h ⊢
      have : c < b := by omega
      have := Nat.mul_lt_mul_of_pos_right (val_lt_of_lt this) hd
      omega
  · have := Nat.mul_le_mul_right d (val_le_of_le (show b + 1 ≤ c by omega))
    split at hr
    · rw [hr] at hne h ⊢
      have : b + 1 < c := by omega
      have := Nat.mul_lt_mul_of_pos_right (val_lt_of_lt this) hd
      omega
    · rw [hr] at hne h ⊢; omega


/-- **the two properties determine the result**: `roundAt x d` is *the* pattern that is nearest to
    `x/d` and even in case of a tie — i.e. the definition is exactly IEEE-754 roundTiesToEven
    (on the unbounded-exponent extension of the format). -/
theorem roundAt_unique {x d c : Nat} (hd : 0 < d)
    (hnear : ∀ c', ((val c * d : Int) - x).natAbs ≤ ((val c' * d : Int) - x).natAbs)
    (heven : ∀ c', c' ≠ c → ((val c' * d : Int) - x).natAbs = ((val c * d : Int) - x).natAbs → c % 2 = 0) :
    c = roundAt x d := by
  by_cases hcr : c = roundAt x d
  · exact hcr
  exfalso
  have n1 := roundAt_nearest (x := x) hd c
  have n2 := hnear (roundAt x d)
  have heq : ((val c * d : Int) - x).natAbs = ((val (roundAt x d) * d : Int) - x).natAbs := by omega
  have ev_r := roundAt_tie_even hd c hcr heq
  have ev_c := heven (roundAt x d) (Ne.symm hcr) heq.symm
  have ⟨f1, f2⟩ := floorBits_frac x d hd
  have hb := hnear (floorBits (x / d))
  have hb1 := hnear (floorBits (x / d) + 1)
  rcases roundAt_cases x d with e | e <;> rw [e] at hcr heq ev_r <;>
    generalize floorBits (x / d) = b at *
  · by_cases h1 : c < b
    · have := Nat.mul_lt_mul_of_pos_right (val_lt_of_lt h1) hd
      omega
    · by_cases h2 : c = b + 1
      · omega
      · have := Nat.mul_lt_mul_of_pos_right (val_lt_of_lt (show b + 1 < c by omega)) hd
        omega
  · by_cases h1 : b + 1 < c
    · have := Nat.mul_lt_mul_of_pos_right (val_lt_of_lt h1) hd
      omega
    · by_cases h2 : c = b
      · omega
      · have := Nat.mul_lt_mul_of_pos_right (val_lt_of_lt (show c < b by omega)) hd
        omega

/-! the same facts for `roundBits n d = roundAt (n · 2^149) d`, the rounding of the rational `n/d` -/

theorem roundBits_mono {n1 d1 n2 d2 : Nat} (h1 : 0 < d1) (h2 : 0 < d2) (h : n1 * d2 ≤ n2 * d1) :
    roundBits n1 d1 ≤ roundBits n2 d2 := by
  unfold roundBits
  apply roundAt_mono h1 h2
  rw [Nat.mul_right_comm n1, Nat.mul_right_comm n2]
  exact Nat.mul_le_mul_right _ h

/-- the result depends on the value `n/d` only -/
theorem roundBits_congr {n1 d1 n2 d2 : Nat} (h1 : 0 < d1) (h2 : 0 < d2) (h : n1 * d2 = n2 * d1) :
    roundBits n1 d1 = roundBits n2 d2 :=
  Nat.le_antisymm (roundBits_mono h1 h2 (by omega)) (roundBits_mono h2 h1 (by omega))

theorem roundBits_exact {n d b : Nat} (hd : 0 < d) (h : n * 2 ^ 149 = val b * d) : roundBits n d = b :=
  roundAt_exact hd h

theorem roundBits_val (b : Nat) : roundBits (val b) (2 ^ 149) = b :=
  roundBits_exact (Nat.pow_pos (by decide)) rfl

theorem le_roundBits {n d c : Nat} (hd : 0 < d) (h : val c * d ≤ n * 2 ^ 149) : c ≤ roundBits n d :=
  le_roundAt hd h

theorem roundBits_le {n d c : Nat} (hd : 0 < d) (h : n * 2 ^ 149 ≤ val c * d) : roundBits n d ≤ c :=
  roundAt_le hd h

/-! ## 4. From patterns to floats -/

theorem decode_isNaN (s : Bool) (b : Nat) : (decode s b).isNaN = false := by
  unfold decode; split <;> rfl

theorem decode_signBit (s : Bool) (b : Nat) : (decode s b).signBit = s := by
  unfold decode; split <;> rfl

theorem decode_wf (s : Bool) (b : Nat) : (decode s b).WF := by
  unfold decode; split
  · trivial
  · rename_i h
    unfold infBits at h
    simp only [WF]
    unfold mantOf expOf
    split <;> omega

theorem val_infBits : val infBits = 2 ^ 277 := by decide

theorem decode_mag (s : Bool) {b : Nat} (h : b ≤ infBits) : (decode s b).mag = val b := by
  unfold decode; split
  · rename_i h'
    have : b = infBits := by omega
    subst this; exact val_infBits.symm
  · simp only [mag]
    unfold mantOf expOf val
    split
    · simp
    · rename_i h'
      have : (((b / 2 ^ 23 : Nat) : Int) - 150 + 149).toNat = b / 2 ^ 23 - 1 := by omega
      rw [this]

theorem decode_ext {b : Nat} (h : b ≤ infBits) : (decode false b).ext = val b := by
  unfold ext; rw [decode_signBit, decode_mag _ h]; simp

theorem decode_le_decode {b1 b2 : Nat} (h1 : b1 ≤ infBits) (h2 : b2 ≤ infBits) :
    decode false b1 ≤ decode false b2 ↔ b1 ≤ b2 := by
  show F.le _ _ ↔ _
  unfold F.le
  rw [decode_isNaN, decode_isNaN, decode_ext h1, decode_ext h2]
  simp only [true_and, Int.ofNat_le]
  exact val_le_iff

theorem decode_lt_decode {b1 b2 : Nat} (h1 : b1 ≤ infBits) (h2 : b2 ≤ infBits) :
    decode false b1 < decode false b2 ↔ b1 < b2 := by
  show F.lt _ _ ↔ _
  unfold F.lt
  rw [decode_isNaN, decode_isNaN, decode_ext h1, decode_ext h2]
  simp only [true_and, Int.ofNat_lt]
  exact val_lt_iff

theorem decode_bits (s : Bool) {b : Nat} (h : b ≤ infBits) : (decode s b).bits = b := by
  unfold decode; split
  · simp only [bits]; omega
  · unfold infBits at *
    simp only [bits]
    unfold mantOf expOf
    split <;> split <;> omega

/-- every value of the format is the decoding of its pattern -/
theorem decode_bits_self {a : F} (hw : a.WF) (hn : a.isNaN = false) : decode a.signBit a.bits = a := by
  cases a with
  | nan => cases hn
  | inf s => rfl
  | fin s m e =>
    simp only [WF] at hw
    simp only [decode, bits, signBit, infBits]
    split
    · rename_i h; rw [if_neg (by omega)]
      unfold mantOf expOf
      have h0 : m / 2 ^ 23 = 0 := by omega
      have h1 : m % 2 ^ 23 = m := by omega
      have h2 : e = -149 := by omega
      rw [h0, h1, h2]; rfl
    · rename_i h
      rw [if_neg (by omega)]
      unfold mantOf expOf
      have h0 : ((e + 149).toNat * 2 ^ 23 + m) / 2 ^ 23 = (e + 149).toNat + 1 := by omega
      have h1 : ((e + 149).toNat * 2 ^ 23 + m) % 2 ^ 23 = m - 2 ^ 23 := by omega
      rw [h0, h1, if_neg (by omega), if_neg (by omega)]
      have h2 : 2 ^ 23 + (m - 2 ^ 23) = m := by omega
      have h3 : (((e + 149).toNat + 1 : Nat) : Int) - 150 = e := by omega
      rw [h2, h3]

theorem bits_le_infBits {a : F} (hw : a.WF) (hn : a.isNaN = false) : a.bits ≤ infBits := by
  cases a with
  | nan => cases hn
  | inf s => exact Nat.le_refl _
  | fin s m e =>
    simp only [WF] at hw; simp only [bits, infBits]; split <;> omega

theorem mag_eq_val_bits {a : F} (hw : a.WF) (hn : a.isNaN = false) : a.mag = val a.bits := by
  have := decode_mag a.signBit (bits_le_infBits hw hn)
  rw [decode_bits_self hw hn] at this; exact this


/-! ## 5. The interface of rounding facts (all proved for the concrete `F.round`)

`round neg n d` is the only place where a real number is turned into a float (`ofNat n = round false n 1`,
`div a b = round _ a.mag b.mag`).  What the clauses of C17 need from it: -/

/-- never NaN -/
theorem round_isNaN (s : Bool) (n d : Nat) : (round s n d).isNaN = false := decode_isNaN _ _
/-- sign preserving (a zero result keeps the sign of the exact value: IEEE signed zero) -/
theorem round_signBit (s : Bool) (n d : Nat) : (round s n d).signBit = s := decode_signBit _ _
/-- the result is a value of the format -/
theorem round_wf (s : Bool) (n d : Nat) : (round s n d).WF := decode_wf _ _

/-- **monotone** -/
theorem round_mono {n1 d1 n2 d2 : Nat} (h1 : 0 < d1) (h2 : 0 < d2) (h : n1 * d2 ≤ n2 * d1) :
    round false n1 d1 ≤ round false n2 d2 := by
  unfold round
  rw [decode_le_decode (Nat.min_le_right _ _) (Nat.min_le_right _ _)]
  have := roundBits_mono h1 h2 h
  omega

/-- **exact on representable values**: every non-NaN value `a` of the format (value
    `±a.mag · 2^-149`) is the rounding of itself -/
theorem round_exact {a : F} (hw : a.WF) (hn : a.isNaN = false) : round a.signBit a.mag (2 ^ 149) = a := by
  unfold round
  rw [mag_eq_val_bits hw hn, roundBits_val, Nat.min_eq_left (bits_le_infBits hw hn), decode_bits_self hw hn]

/-- more generally, whenever `n/d` is the value of `a` -/
theorem round_eq_of_mag {a : F} (hw : a.WF) (hn : a.isNaN = false) {n d : Nat} (hd : 0 < d)
    (h : n * 2 ^ 149 = a.mag * d) : round a.signBit n d = a := by
  have := round_exact hw hn
  unfold round at *
  rw [roundBits_congr hd (Nat.pow_pos (by decide)) h]; exact this

/-- zero stays zero -/
theorem round_zero (s : Bool) {d : Nat} (hd : 0 < d) : round s 0 d = fin s 0 (-149) := by
  unfold round
  rw [roundBits_exact (b := 0) hd (by simp [val])]; rfl

/-- **no spurious overflow/underflow, sandwich**: a representable `a ≥ 0` with `a ≤ n/d` stays `≤` the result … -/
theorem le_round {a : F} (hw : a.WF) (hn : a.isNaN = false) (hs : a.signBit = false) {n d : Nat} (hd : 0 < d)
    (h : a.mag * d ≤ n * 2 ^ 149) : a ≤ round false n d := by
  have e := round_exact hw hn
  rw [hs] at e; rw [← e]
  exact round_mono (Nat.pow_pos (by decide)) hd h

/-- … and one with `n/d ≤ a` stays `≥` -/
theorem round_le {a : F} (hw : a.WF) (hn : a.isNaN = false) (hs : a.signBit = false) {n d : Nat} (hd : 0 < d)
    (h : n * 2 ^ 149 ≤ a.mag * d) : round false n d ≤ a := by
  have e := round_exact hw hn
  rw [hs] at e; rw [← e]
  exact round_mono hd (Nat.pow_pos (by decide)) h

/-- in particular a quotient `≥ 2^-149` is not flushed to zero (nor one `≥ 2^-126` below `2^-126`) -/
theorem round_no_underflow {n d : Nat} (hd : 0 < d) (h : d ≤ n * 2 ^ 149) : minPos ≤ round false n d :=
  le_round (a := minPos) (by decide) rfl rfl hd (by simpa [mag, minPos] using h)

theorem round_ge_minNormal {n d : Nat} (hd : 0 < d) (h : d ≤ n * 2 ^ 126) :
    fin false 8388608 (-149) ≤ round false n d := by
  apply le_round (by decide) rfl rfl hd
  simp only [mag]
  have : n * 2 ^ 149 = n * 2 ^ 126 * 2 ^ 23 := by rw [Nat.mul_assoc]
  rw [this]
  have := Nat.mul_le_mul_right (2 ^ 23) h
  simpa [Nat.mul_comm] using this

/-- a quotient `≤ 1` is rounded to something `≤ 1.0` -/
theorem round_le_one {n d : Nat} (hd : 0 < d) (h : n ≤ d) : round false n d ≤ one := by
  apply round_le (by decide) rfl rfl hd
  have : one.mag = 2 ^ 149 := by decide
  rw [this, Nat.mul_comm]; exact Nat.mul_le_mul_left _ h


/-- a result below the pattern of ∞ is the finite number stored in it -/
theorem round_fin_of_lt {s : Bool} {n d : Nat} (h : roundBits n d < infBits) :
    round s n d = fin s (mantOf (roundBits n d)) (expOf (roundBits n d)) := by
  unfold round decode
  rw [Nat.min_eq_left (by omega), if_neg (by omega)]

/-! ## 6. `as f32` on unsigned integers -/

theorem ofNat_isNaN (n : Nat) : (ofNat n).isNaN = false := round_isNaN _ _ _
theorem ofNat_signBit (n : Nat) : (ofNat n).signBit = false := round_signBit _ _ _
theorem ofNat_wf (n : Nat) : (ofNat n).WF := round_wf _ _ _
theorem ofNat_zero : ofNat 0 = zero := by decide
theorem ofNat_one : ofNat 1 = one := by decide

/-- monotone -/
theorem ofNat_mono {m n : Nat} (h : m ≤ n) : ofNat m ≤ ofNat n :=
  round_mono (by decide) (by decide) (by omega)

/-- exact whenever the integer is representable (`n = a.mag · 2^-149` for a value `a` of the format) -/
theorem ofNat_eq_of_mag {a : F} (hw : a.WF) (hn : a.isNaN = false) (hs : a.signBit = false) {n : Nat}
    (h : n * 2 ^ 149 = a.mag) : ofNat n = a := by
  have := round_eq_of_mag hw hn (n := n) (d := 1) (by decide) (by omega)
  rw [hs] at this; exact this

theorem val_oneBits : val 1065353216 = 2 ^ 149 := by decide       -- 1.0    = pattern 127·2^23
theorem val_b63 : val 1593835520 = 2 ^ 212 := by decide           -- 2^63   = pattern 190·2^23
theorem val_b64 : val 1602224128 = 2 ^ 213 := by decide           -- 2^64   = pattern 191·2^23
theorem val_bm63 : val 536870912 = 2 ^ 86 := by decide            -- 2^-63  = pattern 64·2^23

/-- the pattern of `n as f32` is monotone in `n` -/
theorem ofNat_bits_mono {m n : Nat} (h : m ≤ n) : roundBits m 1 ≤ roundBits n 1 :=
  roundBits_mono (by decide) (by decide) (by omega)

theorem one_le_ofNat_bits {n : Nat} (h : 1 ≤ n) : 1065353216 ≤ roundBits n 1 := by
  apply le_roundBits (by decide)
  rw [val_oneBits, Nat.mul_one]
  have := Nat.mul_le_mul_right (2 ^ 149) h
  omega

theorem ofNat_bits_le_b64 {n : Nat} (h : n ≤ 2 ^ 64) : roundBits n 1 ≤ 1602224128 := by
  apply roundBits_le (by decide)
  rw [val_b64, Nat.mul_one]
  have := Nat.mul_le_mul_right (2 ^ 149) h
  have e : (2:Nat) ^ 64 * 2 ^ 149 = 2 ^ 213 := by rw [← Nat.pow_add]
  omega

theorem ofNat_bits_le_b63 {n : Nat} (h : n ≤ 2 ^ 63) : roundBits n 1 ≤ 1593835520 := by
  apply roundBits_le (by decide)
  rw [val_b63, Nat.mul_one]
  have := Nat.mul_le_mul_right (2 ^ 149) h
  have e : (2:Nat) ^ 63 * 2 ^ 149 = 2 ^ 212 := by rw [← Nat.pow_add]
  omega

/-- always finite on the `usize` range (no overflow to ∞: `2^64 < 2^128`) -/
theorem ofNat_fin {n : Nat} (h : n ≤ 2 ^ 64) :
    ofNat n = fin false (mantOf (roundBits n 1)) (expOf (roundBits n 1)) ∧ (ofNat n).mag = val (roundBits n 1) := by
  have hb := ofNat_bits_le_b64 h
  refine ⟨round_fin_of_lt (by unfold infBits; omega), ?_⟩
  unfold ofNat round
  rw [Nat.min_eq_left (by unfold infBits; omega), decode_mag _ (by unfold infBits; omega)]

theorem ofNat_finite {n : Nat} (h : n ≤ 2 ^ 64) : (ofNat n).isFinite = true := by
  rw [(ofNat_fin h).1]; rfl

/-- positive integers give positive floats (`≥ 1.0`) -/
theorem one_le_ofNat {n : Nat} (h : 1 ≤ n) : one ≤ ofNat n := by
  rw [← ofNat_one]; exact ofNat_mono h

theorem ofNat_pos {n : Nat} (h : 0 < n) : zero < ofNat n := by
  show decode false 0 < decode false (min (roundBits n 1) infBits)
  rw [decode_lt_decode (by decide) (Nat.min_le_right _ _)]
  have := one_le_ofNat_bits h
  unfold infBits; omega

/-- exact below `2^24` -/
theorem ofNat_exact {n : Nat} (h : n < 2 ^ 24) : (ofNat n).mag = n * 2 ^ 149 := by
  by_cases h0 : n = 0
  · subst h0; decide
  have hl : n.log2 < 24 := (Nat.log2_lt h0).2 h
  have hlo : 2 ^ n.log2 ≤ n := Nat.log2_self_le h0
  have hhi : n < 2 ^ (n.log2 + 1) := Nat.lt_log2_self
  generalize n.log2 = l at *
  have hP : 0 < 2 ^ (23 - l) := Nat.pow_pos (by decide)
  have m1 : 2 ^ 23 ≤ n * 2 ^ (23 - l) := by
    have := Nat.mul_le_mul_right (2 ^ (23 - l)) hlo
    rw [← Nat.pow_add, show l + (23 - l) = 23 by omega] at this; exact this
  have m2 : n * 2 ^ (23 - l) < 2 ^ 24 := by
    have := Nat.mul_lt_mul_of_pos_right hhi hP
    rw [← Nat.pow_add, show l + 1 + (23 - l) = 24 by omega] at this; exact this
  have hv := val_norm (126 + l) _ m1 m2
  have e : n * 2 ^ (23 - l) * 2 ^ (126 + l) = n * 2 ^ 149 := by
    rw [Nat.mul_assoc, ← Nat.pow_add, show 23 - l + (126 + l) = 149 by omega]
  rw [e] at hv
  have hr : roundBits n 1 = (126 + l) * 2 ^ 23 + n * 2 ^ (23 - l) :=
    roundBits_exact (by decide) (by rw [hv, Nat.mul_one])
  rw [(ofNat_fin (by omega)).2, hr, hv]

/-! ## 7. `/` on positive finite operands -/

theorem div_fin (s t : Bool) (m m' : Nat) (e e' : Int) (h : (fin t m' e').mag ≠ 0) :
    div (fin s m e) (fin t m' e') = round (s != t) (fin s m e).mag (fin t m' e').mag := by
  simp only [div, if_neg h]


/-! ## 8. The quotient computed by `gap`

`num = ub.abs_diff(lb)`, `den = max |ub| |lb|` with `1 ≤ num ≤ 2^64`, `1 ≤ den ≤ 2^63`.
`r` is the magnitude pattern of the result: between the patterns of `2^-63` and `2^64`
(no underflow, no overflow), at most the pattern of `1.0` when `num ≤ den`. -/

theorem decode_eq_fin (s : Bool) {r : Nat} (h : r < infBits) : decode s r = fin s (mantOf r) (expOf r) := by
  unfold decode; rw [if_neg (by omega)]

theorem quot_core {num den : Nat} (h1 : 1 ≤ num) (h2 : num ≤ 2 ^ 64) (h3 : 1 ≤ den) (h4 : den ≤ 2 ^ 63) :
    ∃ r, div (ofNat num) (ofNat den) = decode false r
      ∧ r = roundBits (ofNat num).mag (ofNat den).mag
      ∧ 536870912 ≤ r ∧ r ≤ 1602224128 ∧ (num ≤ den → r ≤ 1065353216) := by
  have h5 : den ≤ 2 ^ 64 := Nat.le_trans h4 (by decide)
  obtain ⟨ea, ma⟩ := ofNat_fin h2
  obtain ⟨eb, mb⟩ := ofNat_fin h5
  have hva1 := val_le_of_le (one_le_ofNat_bits h1)
  have hva2 := val_le_of_le (ofNat_bits_le_b64 h2)
  have hvb1 := val_le_of_le (one_le_ofNat_bits h3)
  have hvb2 := val_le_of_le (ofNat_bits_le_b63 h4)
  have hmono : num ≤ den → val (roundBits num 1) ≤ val (roundBits den 1) :=
    fun h => val_le_of_le (ofNat_bits_mono h)
  rw [val_oneBits] at hva1 hvb1
  rw [val_b64] at hva2
  rw [val_b63] at hvb2
  rw [← ma] at hva1 hva2 hmono
  rw [← mb] at hvb1 hvb2 hmono
  have hdiv : div (ofNat num) (ofNat den) = round false (ofNat num).mag (ofNat den).mag := by
    have hne : (ofNat den).mag ≠ 0 := by omega
    rw [eb] at hne; rw [ea, eb]
    exact div_fin false false _ _ _ _ hne
  rw [hdiv]
  clear hdiv ea eb ma mb
  generalize (ofNat num).mag = va at *
  generalize (ofNat den).mag = vb at *
  have hvb0 : 0 < vb := Nat.lt_of_lt_of_le (Nat.pow_pos (by decide)) hvb1
  have lo : 536870912 ≤ roundBits va vb := by
    apply le_roundBits hvb0; rw [val_bm63]; omega
  have hi : roundBits va vb ≤ 1602224128 := by
    apply roundBits_le hvb0; rw [val_b64]; omega
  refine ⟨roundBits va vb, ?_, rfl, lo, hi, ?_⟩
  · unfold round; rw [Nat.min_eq_left (by unfold infBits; omega)]
  · intro h
    apply roundBits_le hvb0; rw [val_oneBits]
    have := hmono h; omega

/-- the three branches of `gapF`, for bounds in the `isize` range -/
theorem gapF_cases (lb ub : Int) (hl : InI lb) (hu : InI ub) :
    ((ub = iMax ∨ lb = iMin) ∧ gapF lb ub = one)
    ∨ (ub ≠ iMax ∧ lb ≠ iMin ∧ ub = lb ∧ gapF lb ub = zero)
    ∨ (ub ≠ iMax ∧ lb ≠ iMin ∧ ub ≠ lb ∧ ∃ r, gapF lb ub = decode false r
        ∧ r = roundBits (ofNat (ub - lb).natAbs).mag (ofNat (max ub.natAbs lb.natAbs)).mag
        ∧ 536870912 ≤ r ∧ r ≤ 1602224128
        ∧ ((0 ≤ lb ∧ 0 ≤ ub) ∨ (lb ≤ 0 ∧ ub ≤ 0) → r ≤ 1065353216)) := by
  unfold gapF
  by_cases h1 : ub = iMax ∨ lb = iMin
  · left; exact ⟨h1, by rw [if_pos h1]⟩
  · right
    rw [if_neg h1]
    have h1a : ub ≠ iMax := fun h => h1 (Or.inl h)
    have h1b : lb ≠ iMin := fun h => h1 (Or.inr h)
    by_cases h2 : ub = lb
    · left; exact ⟨h1a, h1b, h2, by rw [if_pos h2]⟩
    · right
      rw [if_neg h2]
      unfold InI iMin iMax at *
      obtain ⟨r, e, er, lo, hi, hs⟩ := quot_core (num := (ub - lb).natAbs) (den := max ub.natAbs lb.natAbs)
        (by omega) (by omega) (by omega) (by omega)
      exact ⟨h1a, h1b, h2, r, e, er, lo, hi, fun h => hs (by omega)⟩


/-! ## 9. The clauses of C17 on the float that `gap()` returns

All for arbitrary `lb`, `ub` in the `isize` range (`InI`).  The solvers' invariant `lb ≤ ub` is **not**
needed for any clause: the formula is symmetric (`abs_diff`, `max` of the absolute values). -/

theorem one_eq_decode : one = decode false 1065353216 := by decide
theorem zero_eq_decode : zero = decode false 0 := by decide

/-- never NaN -/
theorem gapF_not_nan (lb ub : Int) (hl : InI lb) (hu : InI ub) : (gapF lb ub).isNaN = false := by
  rcases gapF_cases lb ub hl hu with ⟨_, e⟩ | ⟨_, _, _, e⟩ | ⟨_, _, _, r, e, _⟩ <;> rw [e]
  · rfl
  · rfl
  · exact decode_isNaN _ _

/-- always a finite value of the format (never ±∞ either) -/
theorem gapF_finite (lb ub : Int) (hl : InI lb) (hu : InI ub) :
    (gapF lb ub).isFinite = true ∧ (gapF lb ub).WF := by
  rcases gapF_cases lb ub hl hu with ⟨_, e⟩ | ⟨_, _, _, e⟩ | ⟨_, _, _, r, e, _, _, hi, _⟩ <;> rw [e]
  · decide
  · decide
  · exact ⟨by rw [decode_eq_fin _ (by unfold infBits; omega)]; rfl, decode_wf _ _⟩

/-- never negative, in the strongest sense: the sign bit is clear (not even `-0.0`) … -/
theorem gapF_signBit (lb ub : Int) (hl : InI lb) (hu : InI ub) : (gapF lb ub).signBit = false := by
  rcases gapF_cases lb ub hl hu with ⟨_, e⟩ | ⟨_, _, _, e⟩ | ⟨_, _, _, r, e, _⟩ <;> rw [e]
  · rfl
  · rfl
  · exact decode_signBit _ _

/-- … and as an IEEE comparison: `0.0 ≤ gap()` -/
theorem gapF_nonneg (lb ub : Int) (hl : InI lb) (hu : InI ub) : zero ≤ gapF lb ub := by
  rcases gapF_cases lb ub hl hu with ⟨_, e⟩ | ⟨_, _, _, e⟩ | ⟨_, _, _, r, e, _, _, hi, _⟩ <;> rw [e]
  · decide
  · decide
  · rw [zero_eq_decode, decode_le_decode (by decide) (by unfold infBits; omega)]; omega

/-- returns `1.0` while either bound is still infinite (any other bound, no range condition) -/
theorem gapF_one_of_infinite (lb ub : Int) (h : ub = iMax ∨ lb = iMin) : gapF lb ub = one := by
  unfold gapF; rw [if_pos h]

/-- the magnitude is zero exactly when the finite bounds coincide … -/
theorem gapF_mag_zero_iff (lb ub : Int) (hl : InI lb) (hu : InI ub) (h1 : ub ≠ iMax) (h2 : lb ≠ iMin) :
    (gapF lb ub).mag = 0 ↔ lb = ub := by
  rcases gapF_cases lb ub hl hu with ⟨h, _⟩ | ⟨_, _, h, e⟩ | ⟨_, _, h, r, e, _, lo, hi, _⟩
  · rcases h with h | h <;> contradiction
  · rw [e]; exact ⟨fun _ => h.symm, fun _ => by decide⟩
  · rw [e, decode_mag _ (by unfold infBits; omega)]
    have := val_le_of_le lo
    rw [val_bm63] at this
    constructor
    · intro h0; omega
    · intro h'; exact absurd h'.symm h

/-- … i.e. `gap()` returns `0.0` exactly when `lb = ub`: the float quotient of different bounds never
    rounds (underflows) to zero -/
theorem gapF_zero_iff (lb ub : Int) (hl : InI lb) (hu : InI ub) (h1 : ub ≠ iMax) (h2 : lb ≠ iMin) :
    gapF lb ub = zero ↔ lb = ub := by
  constructor
  · intro h; exact (gapF_mag_zero_iff lb ub hl hu h1 h2).1 (by rw [h]; decide)
  · intro h; unfold gapF
    rw [if_neg (by intro h; rcases h with h | h <;> contradiction), if_pos h.symm]

/-- quantitatively: different finite bounds give at least `2^-63` (`= fin 0 8388608 -86`) -/
theorem gapF_ge_of_ne (lb ub : Int) (hl : InI lb) (hu : InI ub) (h1 : ub ≠ iMax) (h2 : lb ≠ iMin)
    (hne : lb ≠ ub) : fin false 8388608 (-86) ≤ gapF lb ub := by
  rcases gapF_cases lb ub hl hu with ⟨h, _⟩ | ⟨_, _, h, e⟩ | ⟨_, _, h, r, e, _, lo, hi, _⟩
  · rcases h with h | h <;> contradiction
  · exact absurd h.symm hne
  · rw [e, show fin false 8388608 (-86) = decode false 536870912 by decide,
      decode_le_decode (by decide) (by unfold infBits; omega)]; exact lo

/-- at most `1.0` whenever both bounds have the same sign -/
theorem gapF_le_one_same_sign (lb ub : Int) (hl : InI lb) (hu : InI ub)
    (hs : (0 ≤ lb ∧ 0 ≤ ub) ∨ (lb ≤ 0 ∧ ub ≤ 0)) : gapF lb ub ≤ one := by
  rcases gapF_cases lb ub hl hu with ⟨_, e⟩ | ⟨_, _, _, e⟩ | ⟨_, _, _, r, e, _, _, hi, h⟩ <;> rw [e]
  · decide
  · decide
  · rw [one_eq_decode, decode_le_decode (by unfold infBits; omega) (by decide)]; exact h hs

/-! ### The converse of "1 while a bound is infinite" is false — on the exact fraction already
(`lb = 0 < ub` gives `ub/ub`), and on floats also where the exact quotient differs from 1:
`lb = 1`, `ub = 2^24 + 1`: exact gap `2^24 / (2^24+1) < 1`, but `(2^24+1) as f32 = 2^24` (tie, to even). -/
theorem gapF_one_finite_witness :
    gapF 1 16777217 = one ∧ gap 1 16777217 = .frac 16777216 16777217 := by decide
/-- opposite signs, exact gap `(2^30+1)/2^30 > 1`, float `1.0` -/
theorem gapF_one_finite_witness' :
    gapF (-1) 1073741824 = one ∧ gap (-1) 1073741824 = .frac 1073741825 1073741824 := by decide
/-- and the float can exceed 1 (up to 2) when the signs differ -/
theorem gapF_two_witness : gapF (-5) 5 = two := by decide

/-! ## 10. Tie to the exact model `gap` and to the driver's predicate `phiGap` -/

/-- `gapF` is the rounding of the exact model: sentinel ↦ `1.0`, fraction `n/d` ↦ `(n as f32) / (d as f32)` -/
theorem gapF_eq_toF (lb ub : Int) : gapF lb ub = (gap lb ub).toF := by
  unfold gapF gap
  split
  · rfl
  · split
    · decide
    · simp only [Gap.toF]
      congr 2 <;> omega

theorem leOne_of_bits {r : Nat} (h1 : 2 ^ 23 ≤ r) (h2 : r ≤ 1065353216) :
    F32.leOne ⟨false, mantOf r, expOf r⟩ = true := by
  unfold F32.leOne mantOf expOf
  have hE : r / 2 ^ 23 ≠ 0 := by omega
  simp only [if_neg hE, Bool.false_or]
  have hneg : ¬ ((r / 2 ^ 23 : Nat) : Int) - 150 ≥ 0 := by omega
  rw [if_neg hneg, decide_eq_true_eq]
  have he : (-(((r / 2 ^ 23 : Nat) : Int) - 150)).toNat = 150 - r / 2 ^ 23 := by omega
  rw [he]
  by_cases c : r / 2 ^ 23 = 127
  · rw [c]; omega
  · have : (2:Nat) ^ 24 ≤ 2 ^ (150 - r / 2 ^ 23) := Nat.pow_le_pow_right (by decide) (by omega)
    omega

/-- the property predicate that the driver evaluates on the observed `f32` holds for the modelled
    `f32`, for all `isize` bounds (with or without `lb ≤ ub`) -/
theorem gapF_phi (lb ub : Int) (hl : InI lb) (hu : InI ub) : phiGap lb ub (gapF lb ub).toFOut = true := by
  rcases gapF_cases lb ub hl hu with ⟨h, e⟩ | ⟨h1, h2, h, e⟩ | ⟨h1, h2, h, r, e, _, lo, hi, hs⟩ <;> rw [e]
  · simp only [one, toFOut, phiGap, if_pos h]
    have : ¬ (ub ≠ iMax ∧ lb ≠ iMin) := by
      intro ⟨a, b⟩; rcases h with h | h <;> contradiction
    rw [if_neg this]
    split <;> decide
  · have h0 : ¬ (ub = iMax ∨ lb = iMin) := by intro h; rcases h with h | h <;> contradiction
    simp only [zero, toFOut, phiGap, if_neg h0, if_pos (And.intro h1 h2)]
    rw [decide_eq_true h.symm]
    split <;> decide
  · have h0 : ¬ (ub = iMax ∨ lb = iMin) := by intro h; rcases h with h | h <;> contradiction
    rw [decode_eq_fin _ (by unfold infBits; omega)]
    simp only [toFOut, phiGap, if_neg h0, if_pos (And.intro h1 h2)]
    rw [decide_eq_false (fun h' => h h'.symm)]
    have hm : mantOf r ≠ 0 := by unfold mantOf; split <;> omega
    have e1 : F32.nonneg ⟨false, mantOf r, expOf r⟩ = true := rfl
    have e2 : F32.isZero ⟨false, mantOf r, expOf r⟩ = false := by
      simp [F32.isZero, hm]
    rw [e1, e2]
    split
    · rename_i hsame; rw [leOne_of_bits (by omega) (hs hsame)]; rfl
    · rfl

/-! ## 11. Closeness: the three roundings stay within the driver's tolerance `2^-20`

Each rounding (`num as f32`, `den as f32`, `/`) lands in the normal range, where round-to-nearest has
relative error `≤ 2^-24`; together `|gapF − num/den| ≤ 2^-20 · num/den`, which is the test `closeTo`
(`gapAgrees`) that the driver applies to the observed `f32`. -/

/-- in the normal range the gap to the next pattern is one unit in the last place, `≤ 2^-23 ·` value -/
theorem val_succ_normal {b : Nat} (h : 2 ^ 23 ≤ b) :
    ∃ P, val (b + 1) = val b + P ∧ P * 2 ^ 23 ≤ val b := by
  have hb : b = b / 2 ^ 23 * 2 ^ 23 + b % 2 ^ 23 := by omega
  have hE : b / 2 ^ 23 ≠ 0 := by omega
  generalize b / 2 ^ 23 = E at hb hE
  generalize hf : b % 2 ^ 23 = f at hb
  have hf' : f < 2 ^ 23 := by omega
  subst hb
  refine ⟨2 ^ (E - 1), ?_, ?_⟩
  · by_cases hc : f + 1 < 2 ^ 23
    · rw [Nat.add_assoc, val_mk _ _ hf', val_mk _ _ hc, if_neg hE, if_neg hE]
      grind
    · have e : E * 2 ^ 23 + f + 1 = (E + 1) * 2 ^ 23 + 0 := by omega
      rw [e, val_mk _ _ hf', val_mk _ _ (by omega), if_neg hE, if_neg (by omega)]
      obtain ⟨k, rfl⟩ : ∃ k, E = k + 1 := ⟨E - 1, by omega⟩
      have : f = 2 ^ 23 - 1 := by omega
      subst this
      simp [Nat.pow_succ]; grind
  · rw [val_mk _ _ hf', if_neg hE]
    rw [Nat.mul_comm]
    exact Nat.mul_le_mul_right _ (by omega)

/-- **relative error `≤ 2^-24`** when the result is a normal number:
    `|round(x/d) − x/d| ≤ 2^-24 · x/d` (multiplied by `d`, two-sided) -/
theorem roundAt_relerr {x d : Nat} (hd : 0 < d) (hn : 2 ^ 23 ≤ floorBits (x / d)) :
    -(x : Int) ≤ 16777216 * ((val (roundAt x d) * d : Int) - x)
    ∧ 16777216 * ((val (roundAt x d) * d : Int) - x) ≤ x := by
  have ⟨f1, f2⟩ := floorBits_frac x d hd
  obtain ⟨r, hr⟩ : ∃ r, r = roundAt x d := ⟨_, rfl⟩
  rw [← hr]
  unfold roundAt at hr
  simp only [] at hr
  generalize floorBits (x / d) = b at *
  obtain ⟨P, hP1, hP2⟩ := val_succ_normal hn
  rw [hP1] at hr f2
  have h3 : 2 ^ 23 * (P * d) ≤ val b * d := by
    have := Nat.mul_le_mul_right d hP2; grind
  rw [Nat.add_mul] at f2
  rw [Nat.add_mul, Nat.add_mul] at hr
  split at hr
  · rw [hr, hP1]; push_cast; rw [Int.add_mul]; omega
  · rw [hr]; omega

theorem close_core (n d U va vb G : Int) (hn : 0 ≤ n) (hd : 0 ≤ d) (hU : 0 ≤ U) (hvb : 0 < vb)
    (a1 : -(n * U) ≤ 16777216 * (va - n * U)) (a2 : 16777216 * (va - n * U) ≤ n * U)
    (b1 : -(d * U) ≤ 16777216 * (vb - d * U)) (b2 : 16777216 * (vb - d * U) ≤ d * U)
    (c1 : -(va * U) ≤ 16777216 * (G * vb - va * U)) (c2 : 16777216 * (G * vb - va * U) ≤ va * U) :
    -(n * U) ≤ 1048576 * (G * d - n * U) ∧ 1048576 * (G * d - n * U) ≤ n * U := by
  have hdU : 0 ≤ d * U := Int.mul_nonneg hd hU
  have hnU : 0 ≤ n * U := Int.mul_nonneg hn hU
  have q1 := Int.mul_le_mul_of_nonneg_left a1 hdU
  have q2 := Int.mul_le_mul_of_nonneg_left a2 hdU
  have q3 := Int.mul_le_mul_of_nonneg_left b1 hnU
  have q4 := Int.mul_le_mul_of_nonneg_left b2 hnU
  have q5 := Int.mul_le_mul_of_nonneg_left c1 hd
  have q6 := Int.mul_le_mul_of_nonneg_left c2 hd
  have m1 : 0 ≤ n * U * (d * U) := Int.mul_nonneg hnU hdU
  have g1 : vb * (-(n * U)) ≤ vb * (1048576 * (G * d - n * U)) := by grind
  have g2 : vb * (1048576 * (G * d - n * U)) ≤ vb * (n * U) := by grind
  exact ⟨Int.le_of_mul_le_mul_left g1 hvb, Int.le_of_mul_le_mul_left g2 hvb⟩

theorem natAbs_scaled_le {z b : Int} (hb : 0 ≤ b) (h1 : -b ≤ 1048576 * z) (h2 : 1048576 * z ≤ b) :
    z.natAbs * 2 ^ 20 ≤ b.natAbs := by omega

/-- the driver's closeness test follows from the two-sided bound on the magnitude `m · 2^(e+149)`
    (units of `2^-149`; `U = 2^149`) -/
theorem closeTo_of_scaled (m : Nat) (e : Int) (he : -149 ≤ e) (num den U : Nat) (hU : U = 2 ^ 149)
    (h1 : -((num : Int) * U) ≤ 1048576 * (((m * 2 ^ (e + 149).toNat : Nat) : Int) * den - num * U))
    (h2 : 1048576 * (((m * 2 ^ (e + 149).toNat : Nat) : Int) * den - num * U) ≤ (num : Int) * U) :
    closeTo ⟨false, m, e⟩ num den = true := by
  have hU0 : (0 : Int) < U := by
    have : 0 < U := by rw [hU]; exact Nat.pow_pos (by decide)
    omega
  by_cases hc : e ≥ 0
  · simp only [closeTo, Bool.false_and, if_pos hc]
    rw [if_neg (by decide), decide_eq_true_eq]
    have hj : (e + 149).toNat = e.toNat + 149 := by omega
    rw [hj, Nat.pow_add, ← hU] at h1 h2
    push_cast at h1 h2
    generalize (2:Int) ^ e.toNat = J at *
    generalize (U : Int) = U' at *
    apply natAbs_scaled_le (Int.natCast_nonneg _)
    · have : -(num : Int) * U' ≤ (1048576 * (m * J * den - num)) * U' := by grind
      have := Int.le_of_mul_le_mul_right this hU0
      omega
    · have : (1048576 * (m * J * den - num)) * U' ≤ (num : Int) * U' := by grind
      exact Int.le_of_mul_le_mul_right this hU0
  · simp only [closeTo, Bool.false_and, if_neg hc]
    rw [if_neg (by decide), decide_eq_true_eq]
    have hU' : U = 2 ^ (e + 149).toNat * 2 ^ (-e).toNat := by
      rw [hU, ← Nat.pow_add]; congr 1; omega
    rw [hU'] at h1 h2
    push_cast at h1 h2
    have hJ : (0:Int) < 2 ^ (e + 149).toNat := Int.pow_pos (by decide)
    generalize (2:Int) ^ (e + 149).toNat = J at *
    have hK : (0:Int) ≤ 2 ^ (-e).toNat := Int.le_of_lt (Int.pow_pos (by decide))
    generalize (2:Int) ^ (-e).toNat = K at *
    apply natAbs_scaled_le (Int.mul_nonneg (Int.natCast_nonneg _) hK)
    · have : -((num : Int) * K) * J ≤ (1048576 * (m * den - num * K)) * J := by grind
      exact Int.le_of_mul_le_mul_right this hJ
    · have : (1048576 * ((m : Int) * den - num * K)) * J ≤ ((num : Int) * K) * J := by grind
      exact Int.le_of_mul_le_mul_right this hJ
theorem floor_normal_of_ge_one {n : Nat} (h : 1 ≤ n) : 2 ^ 23 ≤ floorBits (n * 2 ^ 149 / 1) := by
  rw [Nat.div_one]
  have h1 : 2 ^ 149 ≤ n * 2 ^ 149 := by
    have := Nat.mul_le_mul_right (2 ^ 149) h; omega
  have h2 : floorBits (val 1065353216) ≤ floorBits (n * 2 ^ 149) :=
    floorBits_mono (by rw [val_oneBits]; exact h1)
  rw [floorBits_val] at h2
  omega

/-- the three roundings together: the magnitude `G = val r` of the computed quotient satisfies
    `|G·2^-149 − num/den| ≤ 2^-20 · num/den`  (multiplied by `den · 2^149`; `U = 2^149`) -/
theorem quot_close {num den : Nat} (h1 : 1 ≤ num) (h2 : num ≤ 2 ^ 64) (h3 : 1 ≤ den) (h4 : den ≤ 2 ^ 63)
    (U : Nat) (hU : U = 2 ^ 149) :
    -((num : Int) * U) ≤ 1048576 * ((val (roundBits (ofNat num).mag (ofNat den).mag) : Int) * den - num * U)
    ∧ 1048576 * ((val (roundBits (ofNat num).mag (ofNat den).mag) : Int) * den - num * U) ≤ (num : Int) * U := by
  have h5 : den ≤ 2 ^ 64 := Nat.le_trans h4 (by decide)
  obtain ⟨r, _, er, lo, _, _⟩ := quot_core h1 h2 h3 h4
  rw [← er]
  have ma := (ofNat_fin h2).2
  have mb := (ofNat_fin h5).2
  have A := roundAt_relerr (x := num * 2 ^ 149) (d := 1) (by decide) (floor_normal_of_ge_one h1)
  have B := roundAt_relerr (x := den * 2 ^ 149) (d := 1) (by decide) (floor_normal_of_ge_one h3)
  have hvb1 := val_le_of_le (one_le_ofNat_bits h3)
  rw [val_oneBits, ← mb] at hvb1
  have hvb0 : 0 < (ofNat den).mag := Nat.lt_of_lt_of_le (Nat.pow_pos (by decide)) hvb1
  have hfl : 2 ^ 23 ≤ floorBits ((ofNat num).mag * 2 ^ 149 / (ofNat den).mag) := by
    have : r = roundAt ((ofNat num).mag * 2 ^ 149) (ofNat den).mag := er
    rcases roundAt_cases ((ofNat num).mag * 2 ^ 149) (ofNat den).mag with e | e <;> omega
  have C := roundAt_relerr hvb0 hfl
  have er' : r = roundAt ((ofNat num).mag * 2 ^ 149) (ofNat den).mag := er
  rw [← er'] at C
  have ma' : (ofNat num).mag = val (roundAt (num * 2 ^ 149) 1) := ma
  have mb' : (ofNat den).mag = val (roundAt (den * 2 ^ 149) 1) := mb
  rw [← ma'] at A
  rw [← mb'] at B
  clear er er' ma mb ma' mb' hfl hvb1 lo
  generalize (ofNat num).mag = va at *
  generalize (ofNat den).mag = vb at *
  rw [← hU] at A B C
  push_cast at A B C
  simp only [Int.mul_one] at A B
  exact close_core num den U va vb (val r) (by omega) (by omega) (by omega) (by omega)
    A.1 A.2 B.1 B.2 C.1 C.2

/-- the modelled `f32` passes the driver's agreement test against the exact model `gap`, for all
    `isize` bounds -/
theorem gapF_agrees (lb ub : Int) (hl : InI lb) (hu : InI ub) :
    gapAgrees (gap lb ub) (gapF lb ub).toFOut = true := by
  unfold gapF gap
  by_cases h1 : ub = iMax ∨ lb = iMin
  · rw [if_pos h1, if_pos h1]; decide
  · rw [if_neg h1, if_neg h1]
    by_cases h2 : ub = lb
    · rw [if_pos h2, if_pos h2]; decide
    · rw [if_neg h2, if_neg h2]
      have hnum1 : 1 ≤ (ub - lb).natAbs := by omega
      have hnum2 : (ub - lb).natAbs ≤ 2 ^ 64 := by unfold InI iMin iMax at *; omega
      have hden1 : 1 ≤ max ub.natAbs lb.natAbs := by omega
      have hden2 : max ub.natAbs lb.natAbs ≤ 2 ^ 63 := by unfold InI iMin iMax at *; omega
      have hmax : max (ub.natAbs : Int) (lb.natAbs : Int) = ((max ub.natAbs lb.natAbs : Nat) : Int) := by omega
      rw [hmax]
      generalize (ub - lb).natAbs = num at *
      generalize max ub.natAbs lb.natAbs = den at *
      obtain ⟨r, e, er, lo, hi, _⟩ := quot_core hnum1 hnum2 hden1 hden2
      have hc := quot_close hnum1 hnum2 hden1 hden2 _ rfl
      rw [← er] at hc
      have hr : r < infBits := by unfold infBits; omega
      have hm := decode_mag false (Nat.le_of_lt hr)
      rw [decode_eq_fin _ hr] at hm
      simp only [mag] at hm
      rw [e, decode_eq_fin _ hr]
      simp only [toFOut, gapAgrees]
      apply closeTo_of_scaled _ _ (by unfold expOf; split <;> omega) _ _ _ rfl
      · rw [hm]; exact hc.1
      · rw [hm]; exact hc.2

/-! ## 12. The general upper bound: `gap() ≤ 2.0` whatever the signs

`|ub − lb| ≤ 2 · max |ub| |lb|`, and rounding commutes with doubling. -/

/-- adding 1 to the exponent field doubles a normal number -/
theorem val_double {b : Nat} (h : 2 ^ 23 ≤ b) : val (b + 2 ^ 23) = 2 * val b := by
  have hb : b = b / 2 ^ 23 * 2 ^ 23 + b % 2 ^ 23 := by omega
  have hE : b / 2 ^ 23 ≠ 0 := by omega
  generalize b / 2 ^ 23 = E at hb hE
  generalize hf : b % 2 ^ 23 = f at hb
  have hf' : f < 2 ^ 23 := by omega
  subst hb
  have e : E * 2 ^ 23 + f + 2 ^ 23 = (E + 1) * 2 ^ 23 + f := by omega
  rw [e, val_mk _ _ hf', val_mk _ _ hf', if_neg hE, if_neg (by omega)]
  obtain ⟨k, rfl⟩ : ∃ k, E = k + 1 := ⟨E - 1, by omega⟩
  simp [Nat.pow_succ]; grind

/-- rounding commutes with doubling in the normal range (no overflow: exponent field unbounded) -/
theorem roundAt_double {x d : Nat} (hd : 0 < d) (hn : 2 ^ 23 ≤ floorBits (x / d)) :
    roundAt (2 * x) d = roundAt x d + 2 ^ 23 := by
  have ⟨f1, f2⟩ := floorBits_frac x d hd
  have hfl : floorBits (2 * x / d) = floorBits (x / d) + 2 ^ 23 := by
    apply floorBits_unique
    · rw [val_double hn, Nat.le_div_iff_mul_le hd, Nat.mul_assoc]; omega
    · rw [Nat.add_right_comm, val_double (by omega), Nat.div_lt_iff_lt_mul hd, Nat.mul_assoc]; omega
  unfold roundAt
  simp only []
  rw [hfl]
  generalize floorBits (x / d) = b at *
  rw [val_double hn, Nat.add_right_comm b, val_double (b := b + 1) (by omega)]
  have e1 : (2 * val b + 2 * val (b + 1)) * d = 2 * ((val b + val (b + 1)) * d) := by
    rw [← Nat.mul_add, Nat.mul_assoc]
  have e2 : (b + 2 ^ 23) % 2 = b % 2 := by omega
  rw [e1, e2]
  generalize (val b + val (b + 1)) * d = M
  split <;> split <;> omega

theorem val_two : val 1073741824 = 2 ^ 150 := by decide           -- 2.0 = pattern 128·2^23

theorem quot_le_two {num den : Nat} (h2 : num ≤ 2 ^ 64) (h3 : 1 ≤ den) (h4 : den ≤ 2 ^ 63)
    (h : num ≤ 2 * den) : roundBits (ofNat num).mag (ofNat den).mag ≤ 1073741824 := by
  have h5 : den ≤ 2 ^ 64 := Nat.le_trans h4 (by decide)
  have ma := (ofNat_fin h2).2
  have mb := (ofNat_fin h5).2
  have hb1 := one_le_ofNat_bits h3
  have hvb1 := val_le_of_le hb1
  rw [val_oneBits] at hvb1
  have hd : roundBits (2 * den) 1 = roundBits den 1 + 2 ^ 23 := by
    unfold roundBits
    rw [Nat.mul_assoc]
    exact roundAt_double (by decide) (floor_normal_of_ge_one h3)
  have hva := val_le_of_le (ofNat_bits_mono h)
  rw [hd, val_double (by omega)] at hva
  rw [← ma, ← mb] at hva
  rw [← mb] at hvb1
  generalize (ofNat num).mag = va at *
  generalize (ofNat den).mag = vb at *
  apply roundBits_le (by omega)
  rw [val_two]; omega

/-- `gap() ≤ 2.0` for all `isize` bounds (attained: `gapF (-5) 5 = 2.0`) -/
theorem gapF_le_two (lb ub : Int) (hl : InI lb) (hu : InI ub) : gapF lb ub ≤ two := by
  rcases gapF_cases lb ub hl hu with ⟨_, e⟩ | ⟨_, _, _, e⟩ | ⟨h1, h2, h3, r, e, er, _, hi, _⟩ <;> rw [e]
  · decide
  · decide
  · rw [show two = decode false 1073741824 by decide,
      decode_le_decode (by unfold infBits; omega) (by decide), er]
    unfold InI iMin iMax at *
    exact quot_le_two (by omega) (by omega) (by omega) (by omega)

/-! ### Summary: property C17 for the float -/

/-- C17, every clause, on the `f32` result — for all bounds in the `isize` range.  (The solvers
    maintain `lb ≤ ub`; no clause needs it.) -/
theorem c17_float (lb ub : Int) (hl : InI lb) (hu : InI ub) :
    (gapF lb ub).isNaN = false                                          -- never NaN
    ∧ (gapF lb ub).signBit = false ∧ zero ≤ gapF lb ub                  -- never negative
    ∧ (ub = iMax ∨ lb = iMin → gapF lb ub = one)                        -- 1 while a bound is infinite
    ∧ (ub ≠ iMax → lb ≠ iMin → (gapF lb ub = zero ↔ lb = ub))           -- 0 exactly when the bounds coincide
    ∧ ((0 ≤ lb ∧ 0 ≤ ub) ∨ (lb ≤ 0 ∧ ub ≤ 0) → gapF lb ub ≤ one) :=    -- ≤ 1 for bounds of the same sign
  ⟨gapF_not_nan lb ub hl hu, gapF_signBit lb ub hl hu, gapF_nonneg lb ub hl hu,
   gapF_one_of_infinite lb ub, gapF_zero_iff lb ub hl hu, gapF_le_one_same_sign lb ub hl hu⟩

/-- the clause that is deliberately **not** claimed: "returns 1 only while a bound is infinite".
    Kept as a `Prop` to record that it is refuted (`not_oneOnlyIfInfinite`). -/
def OneOnlyIfInfinite : Prop :=
  ∀ lb ub : Int, InI lb → InI ub → lb ≤ ub → gapF lb ub = one → (ub = iMax ∨ lb = iMin)

theorem not_oneOnlyIfInfinite : ¬ OneOnlyIfInfinite := by
  intro h
  have := h 1 16777217 (by decide) (by decide) (by decide) gapF_one_finite_witness.1
  revert this; decide

/-! ## 13. Executable cross-check: exact binary32 results, in the harness' token form
`fin <sign> <mantissa incl. hidden bit> <exponent>` (`harness/src/eng_small.rs: f32_tokens`), and as
`to_bits()` patterns.  All by kernel evaluation of the definitions. -/

example : gapF 0 0 = fin false 0 (-149) := by decide
example : gapF (-5) 5 = fin false 8388608 (-22) := by decide
example : gapF 0 1 = fin false 8388608 (-23) := by decide
example : gapF 1 (2 ^ 24 + 1) = fin false 8388608 (-23) := by decide
example : gapF (-(2 ^ 62)) (2 ^ 62) = fin false 8388608 (-22) := by decide
example : gapF (iMin + 1) (iMax - 1) = fin false 8388608 (-22) := by decide

example : (gapF 0 0).toTokens = ["fin", "0", "0", "-149"] := by decide
example : (gapF (-5) 5).toTokens = ["fin", "0", "8388608", "-22"] := by decide
example : (gapF 0 1).toTokens = ["fin", "0", "8388608", "-23"] := by decide
example : (gapF 1 (2 ^ 24 + 1)).toTokens = ["fin", "0", "8388608", "-23"] := by decide
example : (gapF (-(2 ^ 62)) (2 ^ 62)).toTokens = ["fin", "0", "8388608", "-22"] := by decide
example : (gapF (iMin + 1) (iMax - 1)).toTokens = ["fin", "0", "8388608", "-22"] := by decide
-- inexact quotients
example : (gapF 1 3).toTokens = ["fin", "0", "11184811", "-24"] := by decide               -- 2/3
example : (gapF 100 220).toTokens = ["fin", "0", "9151209", "-24"] := by decide            -- 120/220
example : (gapF (-220) (-100)).toTokens = ["fin", "0", "9151209", "-24"] := by decide
example : (gapF (-3) 7).toTokens = ["fin", "0", "11983726", "-23"] := by decide            -- 10/7
example : (gapF 1000000007 1000000009).toTokens = ["fin", "0", "9007199", "-52"] := by decide
-- the smallest value the non-zero branch can return: 1 / 2^63
example : (gapF (iMin + 1) (iMin + 2)).toTokens = ["fin", "0", "8388608", "-86"] := by decide
-- sentinels
example : (gapF iMin iMax).toTokens = ["fin", "0", "8388608", "-23"] := by decide
example : (gapF 7 iMax).toTokens = ["fin", "0", "8388608", "-23"] := by decide
example : (gapF iMax iMax).toTokens = ["fin", "0", "8388608", "-23"] := by decide          -- `lb = ub = MAX`: 1, not 0
-- `to_bits()`
example : (gapF 0 0).toBits = 0x00000000 := by decide
example : (gapF 0 1).toBits = 0x3F800000 := by decide
example : (gapF (-5) 5).toBits = 0x40000000 := by decide
example : (gapF 1 3).toBits = 0x3F2AAAAB := by decide
-- the two primitive operations on well-known values
example : (ofNat 16777217).toTokens = ["fin", "0", "8388608", "1"] := by decide            -- 2^24+1 ↦ 2^24 (tie → even)
example : (ofNat 16777219).toTokens = ["fin", "0", "8388610", "1"] := by decide            -- 2^24+3 ↦ 2^24+4 (tie → even)
example : (ofNat (2 ^ 64 - 1)).toTokens = ["fin", "0", "8388608", "41"] := by decide       -- usize::MAX ↦ 2^64
example : (div (ofNat 1) (ofNat 10)).toBits = 0x3DCCCCCD := by decide                      -- 0.1f32
example : (div (ofNat 1) (ofNat 3)).toBits = 0x3EAAAAAB := by decide
example : div (ofNat 1) (ofNat 0) = inf false := by decide
example : div (ofNat 0) (ofNat 0) = nan := by decide
example : round false (2 ^ 128 - 2 ^ 103) 1 = inf false := by decide                       -- overflow threshold (tie → even = ∞)
example : round false (2 ^ 128 - 2 ^ 103 - 1) 1 = fin false 16777215 104 := by decide      -- f32::MAX
example : round false 1 (2 ^ 150) = zero := by decide                                      -- half the smallest subnormal: tie → even = 0
example : round false 3 (2 ^ 150) = fin false 2 (-149) := by decide
example : round false 16777215 (2 ^ 150) = fin false 8388608 (-149) := by decide           -- rounds up into the normal range

/-! ## Axioms -/
#print axioms roundAt_mono
#print axioms roundAt_exact
#print axioms roundAt_nearest
#print axioms roundAt_tie_even
#print axioms roundAt_unique
#print axioms roundAt_relerr
#print axioms round_mono
#print axioms round_exact
#print axioms le_round
#print axioms round_le
#print axioms round_no_underflow
#print axioms ofNat_mono
#print axioms ofNat_exact
#print axioms ofNat_pos
#print axioms ofNat_finite
#print axioms gapF_not_nan
#print axioms gapF_finite
#print axioms gapF_signBit
#print axioms gapF_nonneg
#print axioms gapF_one_of_infinite
#print axioms gapF_zero_iff
#print axioms gapF_mag_zero_iff
#print axioms gapF_ge_of_ne
#print axioms gapF_le_one_same_sign
#print axioms gapF_le_two
#print axioms gapF_one_finite_witness
#print axioms gapF_eq_toF
#print axioms gapF_phi
#print axioms gapF_agrees
#print axioms c17_float
#print axioms not_oneOnlyIfInfinite

end Ddo.C17
