import DdoModel.Proofs.ParDomInst
import DdoModel.Proofs.ParDomOp
import DdoModel.Proofs.ParDomLSys
import DdoModel.Proofs.ParDomOpSane
import DdoModel.Proofs.ParDomLTerm
import DdoModel.Proofs.ParDomExec
import DdoModel.Proofs.ParDomOpAns
import DdoModel.Proofs.ParDomOSysDefs
import DdoModel.Proofs.ParDomOSys
/-! # C10 / C03 — the PARALLEL solver with the shared dominance checker (`SimpleDominanceChecker`, a `DashMap` per depth) returns
the optimum, for every interleaving of the critical sections **and of the individual `is_dominated_or_insert` calls**

`Ddo.C10.dominance_solver_optimal` is the sequential solver with the shared store threaded through all compilations;
`Ddo.C03c.parallel_solver_correct` the parallel solver without checker.  The parallel solver with the checker had no theorem.
In the code the store only ever changes through `is_dominated_or_insert` (ONE atomic operation per node, under the shard lock),
called from `_filter_with_dominance` inside the lock-free compilations of all workers (`clear_layer` of the checker is never called
by the solvers).  **Closed: `parallel_dominance_solver_optimal`.**  No counter-example exists.

## 1. architecture
**System** = `ParSys.Step` (`DdoModel/ParSys.lean`: the shared `Critical` record evolved by the functions of `ParSolver.lean`, one
worker-local state per thread, one step per critical section / lock-free compilation — the system of `C03c`), no cache, no
compilation cut off (`NoAbortS`, as for `dominance_solver_optimal`), compilations of the diagram model with `dom := some D`.

* `parallel_dominance_of` (`Proofs/ParDomHead.lean`), generic: for ANY answer relations `okR`/`okX` of the compilations that meet
  `AnsOk` (`Proofs/ParDomGenDefs.lean`: facts, protected-family contracts relative to the STALE incumbent, a compilation ends
  normally) — termination, `GAll` (side conditions `GPCInv`, bookkeeping `LayInv`, `NoCut`, coverage `DSysInv`) in every reachable
  state of every interleaving, no panic, no deadlock, the optimum with a feasible solution at every `Complete` and when
  `maximize()` returns.  The coverage invariant `DSysInv` (`Proofs/ParDomDefs.lean`, `step_dinv` in `Proofs/ParDomInv.lean`) is the
  `BBInv` of the sequential proof lifted to the parallel system: *if the optimum beats the incumbent, a sub-problem in the fringe or
  in the hand of a worker lies on the protected family with a bound that does not cut the optimum off*; per-worker stage facts carry
  the contracts relative to the stale incumbent.  (`C03b.SysInv` could not be reused with `Phi := "on the protected family"`: its
  cut-set contract asks `UbOk` of EVERY cut-set node, which the diagram theorems with the checker give for ONE protected node.)
* **why the shared store needs no justification**: the contracts hold for a compilation answered by ANY stores all of whose entries
  are exactly reached items — an *adversarial* store: nothing about who wrote what when; a protected item is never dominated by an
  exactly reached item.  And the shared store never holds anything else, operation by operation: `applyOp_storeReach`,
  `runOps_storeReach` (the store after ANY log of atomic operations, i.e. any interleaving), `runOps_defined` (no panic),
  `runOps_protected`; the items a compilation presents are exactly reached WHATEVER it is answered (`compileOp_ops_reached`).

## 2. three granularities of the interleaving, all closed
* **one operation** — `parallel_dominance_solver_optimal`.  `compileOp cfg cache τ polls` (`Proofs/ParDomOp.lean`): the compilation of
  the diagram model in which the `k`-th `is_dominated_or_insert` OF THE COMPILATION is answered by the oracle store `τ k` — the shared
  store at that moment, after everything any worker did before (nothing is threaded: the compilation's own insertions are in
  `τ (k+1)` only if nobody removed them); sanity `compileOp_self` (`Proofs/ParDomOpSane.lean`): with the compilation's own thread as
  oracle it is `compile`.  The diagram theorems with the checker were **re-proved for `compileOp` against an arbitrary oracle of
  stores of exactly reached items**: `filterDomO_spec`, `filterDomO_protected` (`ParDomOpSpec`), `stepLayerO_inv`
  (`ParDomOpReach`), `compileOp_no_crash` (`ParDomOpNC`), `isSolOp_restricted` / `isSolOp_relaxed` (`ParDomOpSol`),
  `cutsetOp_exact` / `cutsetOp_progress` (`ParDomOpCut`), `exactOp_diagram`, `restrictedOp_isExact`, `relaxedOp_isExact_cases`
  (`ParDomOpExact`), `compileOp_dinv`, `relaxedOp_ub`, `relaxedOp_cutset` (`ParDomOpRelax`) — the step-of-a-layer and loop levels
  redone over `stepLayerO` / `buildLoopO`, the lemmas about the final diagram reused unchanged; assembled into `ansOk_Op`,
  `perOpObligation_holds` (`ParDomOpAns`).  This could NOT be obtained from the theorems about `compile` by a virtual store: two
  incomparable nodes `x₁`, `x₂` of one layer with the same key and a foreign entry `e` dominating both that arrives between their two
  operations give the verdicts (kept, dropped), which threading from no single store of exactly reached items reproduces.
  `OStep` (`Proofs/ParDomOSysDefs.lean`): the small-step system with the shared store in the state, ONE `DomStore.query` on the
  shared store per step (`op`): `parallel_dominance_opwise` (`orun_inv`, `oreach_finish`, `oreach_store` in `Proofs/ParDomOSys.lean`:
  safety, store invariant and projection; termination / progress are proved for the projected system, where a compilation is one step).
* **one layer** — `parallel_dominance_solver_optimal_L`, `parallel_dominance_layerwise`.  `LStep` (`Proofs/ParDomLSysDefs.lean`):
  shared store in the state, ONE iteration of the compilation loop of one worker (its `_filter_with_dominance` call on the shared
  store as it is NOW, + restrict / relax + expansion) per step.  Here a virtual store DOES work (`compileL_virtual`,
  `Proofs/ParDomLayerA/B.lean`): an operation on a node of depth `d` touches `layers[d]` only (`query_local`, `filterDom_local`) and a
  compilation visits every depth once, so a compilation whose layer `d` read the store `σ d` IS the plain compilation from
  `V.layers[d] := (σ d).layers[d]`.  For `LStep` itself: termination with layer steps counted (`lsys_terminates`), no deadlock and
  no crashing layer (`lstep_progress`), the store invariant and the projection (`lrun_inv`).
* **one compilation** — `parallel_dominance_solver_optimal_d`, `parallel_dominance_atomic` (`DPStep`: whole compilations atomic
  w.r.t. the store, several nodes in progress; `dprun_inv`).
* non-vacuity (`Proofs/ParDomExec.lean`: deterministic scheduler `nextL`, `nextL_step`, runs evaluated by `decide`): `Kp2` — the
  knapsack of `C10b` with 2 workers, a complete run ending `(true, Some(6))`; `Kq` — a 4-item knapsack (optimum 11) on which both
  workers are inside restricted compilations at the same time with their layers alternating; `Kq.mid_obs` / `Kq.mid_obs_other`:
  worker 0's third layer receives a `dominated` verdict exactly when worker 1's third layer ran just before it (an entry inserted
  by ANOTHER worker's compilation in progress prunes), and none in the other order; both orders end `(true, Some(11))`.
  `Kp.par_correct`: the headline on the knapsack rule of the `ddo` documentation.

## 3. hypotheses
`WellFormed dv.sv H B0 B` exactly as `C01d` / `C03c` / `C10b`; a feasible problem (`hopt`); `UndomOpt` (implied by `SimAdmissible` +
`StaticOrder`, `C10.undomOpt_of_sim`); `U ≥ 1` workers.  Not covered: cut-offs (`NoAbortS`), the cache together with the checker. -/
set_option linter.unusedSectionVars false
set_option linter.unusedVariables false
namespace Ddo.C10f
open Ddo Ddo.Truth Ddo.Closed Ddo.ParSys Ddo.ParClosed Ddo.C10 Ddo.ParDom
open Ddo.C01 (SolverCfg WellFormed toOut SolOf)
variable {S K : Type} [DecidableEq S] [DecidableEq K]

/-- what the headline says of a reachable state `t` of the parallel system with the answer relations `okR` / `okX` -/
def GoodState (dv : DSolverCfg S K) (H : Nat → S → EInt) (okR okX : SubP S → Int → DDOut S → Prop) (B opt : Int)
    (t : Sys S) : Prop :=
  (GPCInv dv H okR okX B t ∧ LayInv dv.sv t ∧ NoCut t) ∧
  (NoCrash t ∧ t.crit.base.crashed = false ∧ (¬ AllDone t → ∃ u, GStep dv.sv.dedup okR okX t u)) ∧
  (∀ i, CompletesAt t i →
    t.crit.base.bestLb = opt ∧ (∃ p, t.crit.base.bestSol = some p ∧ SolOf dv.sv.P p opt) ∧
    t.crit.complete.base.bestUb = opt ∧ t.crit.complete.base.completion = (true, some opt)) ∧
  (AllDone t →
    t.crit.base.bestLb = opt ∧ (∃ p, t.crit.base.bestSol = some p ∧ SolOf dv.sv.P p opt) ∧
    t.crit.base.completion = (true, some opt)) ∧
  t.crit.base.bestLb ≤ opt ∧ (∀ p, t.crit.base.bestSol = some p → SolOf dv.sv.P p t.crit.base.bestLb)

/-- the generic headline with `UndomOpt` -/
theorem parallel_dominance_undom (dv : DSolverCfg S K) (H : Nat → S → EInt) (B0 B opt : Int)
    (okR okX : SubP S → Int → DDOut S → Prop)
    (hwf : WellFormed dv.sv H B0 B) (hopt : (H 0 dv.sv.P.init).addI dv.sv.P.initVal = some opt)
    (hUO : UndomOpt dv.D dv.sv.P H opt)
    (hA : ∀ Prot, Protected dv.D dv.sv.P H opt Prot → AnsOk dv B opt Prot okR okX) (U : Nat) (hU : 1 ≤ U) :
    WellFounded (fun t s : Sys S =>
      GRun dv.sv.dedup okR okX (Sys.init dv.sv.P none dv.sv.dedup U) s ∧ GStep dv.sv.dedup okR okX s t) ∧
    (∀ run : Nat → Sys S, run 0 = Sys.init dv.sv.P none dv.sv.dedup U →
      ¬ ∀ k, GStep dv.sv.dedup okR okX (run k) (run (k + 1))) ∧
    (∀ t, GRun dv.sv.dedup okR okX (Sys.init dv.sv.P none dv.sv.dedup U) t → GoodState dv H okR okX B opt t) ∧
    (∃ t, GRun dv.sv.dedup okR okX (Sys.init dv.sv.P none dv.sv.dedup U) t ∧ AllDone t) := by
  obtain ⟨Prot, hPr⟩ := hUO
  obtain ⟨h1, h2, h3⟩ := parallel_dominance_of dv H B0 B opt Prot okR okX hwf hopt hPr (hA Prot hPr) U hU
  refine ⟨h1, h2, fun t ht => ?_, (parallel_dominance_total dv H B0 B opt Prot okR okX hwf hopt hPr (hA Prot hPr) U hU).1⟩
  obtain ⟨a, b, c, d, e, f⟩ := h3 t ht
  exact ⟨⟨a.pc, a.lay, a.noCut⟩, b, c, d, e, f⟩

/-- **`parallel_dominance_solver_optimal_L`** (layer-wise answers): for every well-formed model, every dominance rule with a protected optimal strategy
    (`UndomOpt`), every ranking, width function, cut-set kind, either fringe and **every number of workers `U ≥ 1`**, the parallel
    solver with the shared dominance checker (no cache, no cut-off), each compilation reading — LAYER BY LAYER — whatever the
    shared store holds at that moment (`okRL` / `okXL`: any sequence of stores of exactly reached items), in **every
    interleaving**: terminates (well-founded step relation, no infinite run); in every reachable state nothing has panicked, some
    step is enabled unless every worker has left (no deadlock, no lost wake-up), whenever `get_workload` answers `Complete` and when
    `maximize()` returns: `best_lb = opt`, a genuinely feasible stored solution of value `opt`,
    `Completion { is_exact: true, best_value: Some(opt) }`; a complete run exists. -/
theorem parallel_dominance_solver_optimal_L (dv : DSolverCfg S K) (H : Nat → S → EInt) (B0 B opt : Int)
    (hwf : WellFormed dv.sv H B0 B) (hopt : (H 0 dv.sv.P.init).addI dv.sv.P.initVal = some opt)
    (hUO : UndomOpt dv.D dv.sv.P H opt) (U : Nat) (hU : 1 ≤ U) :
    WellFounded (fun t s : Sys S =>
      GRun dv.sv.dedup (okRL dv) (okXL dv) (Sys.init dv.sv.P none dv.sv.dedup U) s ∧ GStep dv.sv.dedup (okRL dv) (okXL dv) s t) ∧
    (∀ run : Nat → Sys S, run 0 = Sys.init dv.sv.P none dv.sv.dedup U →
      ¬ ∀ k, GStep dv.sv.dedup (okRL dv) (okXL dv) (run k) (run (k + 1))) ∧
    (∀ t, GRun dv.sv.dedup (okRL dv) (okXL dv) (Sys.init dv.sv.P none dv.sv.dedup U) t →
      GoodState dv H (okRL dv) (okXL dv) B opt t) ∧
    (∃ t, GRun dv.sv.dedup (okRL dv) (okXL dv) (Sys.init dv.sv.P none dv.sv.dedup U) t ∧ AllDone t) :=
  parallel_dominance_undom dv H B0 B opt _ _ hwf hopt hUO (fun _ hPr => ansOk_L hwf hopt hPr) U hU

/-- the same with every compilation answered from ONE store of exactly reached items (whole compilations atomic) -/
theorem parallel_dominance_solver_optimal_d (dv : DSolverCfg S K) (H : Nat → S → EInt) (B0 B opt : Int)
    (hwf : WellFormed dv.sv H B0 B) (hopt : (H 0 dv.sv.P.init).addI dv.sv.P.initVal = some opt)
    (hUO : UndomOpt dv.D dv.sv.P H opt) (U : Nat) (hU : 1 ≤ U) :
    WellFounded (fun t s : Sys S =>
      GRun dv.sv.dedup (okRd dv) (okXd dv) (Sys.init dv.sv.P none dv.sv.dedup U) s ∧ GStep dv.sv.dedup (okRd dv) (okXd dv) s t) ∧
    (∀ run : Nat → Sys S, run 0 = Sys.init dv.sv.P none dv.sv.dedup U →
      ¬ ∀ k, GStep dv.sv.dedup (okRd dv) (okXd dv) (run k) (run (k + 1))) ∧
    (∀ t, GRun dv.sv.dedup (okRd dv) (okXd dv) (Sys.init dv.sv.P none dv.sv.dedup U) t →
      GoodState dv H (okRd dv) (okXd dv) B opt t) ∧
    (∃ t, GRun dv.sv.dedup (okRd dv) (okXd dv) (Sys.init dv.sv.P none dv.sv.dedup U) t ∧ AllDone t) :=
  parallel_dominance_undom dv H B0 B opt _ _ hwf hopt hUO (fun _ hPr => ansOk_d hwf hopt hPr) U hU

/-! ## the systems that carry the shared store as a state component -/

/-- **`parallel_dominance_layerwise`**: the system `LStep` — shared store in the state, one step per LAYER of one compilation (its
    `_filter_with_dominance` call acts on the shared store as it is at that moment), any interleaving with the layers and the
    critical sections of the other workers: the step relation is well-founded on the reachable states (layer steps counted); in
    every reachable state some step is enabled unless every worker has left (no deadlock, no layer crashes), the shared store holds
    exactly reached items only, and the solver state is a reachable state of the system of `parallel_dominance_solver_optimal` —
    hence no panic, and the optimum at every `Complete` and at the return of `maximize()` -/
theorem parallel_dominance_layerwise (dv : DSolverCfg S K) (H : Nat → S → EInt) (B0 B opt : Int)
    (hwf : WellFormed dv.sv H B0 B) (hopt : (H 0 dv.sv.P.init).addI dv.sv.P.initVal = some opt)
    (hUO : UndomOpt dv.D dv.sv.P H opt) (U : Nat) (hU : 1 ≤ U) :
    WellFounded (fun u t : LSys S K => LRun dv (LSys.init dv U) t ∧ LStep dv t u) ∧
    ∀ t, LRun dv (LSys.init dv U) t →
      (¬ AllDone t.sys → ∃ u, LStep dv t u) ∧
      StoreReach dv.D dv.sv.P t.store ∧ t.store.layers.length = dv.sv.P.nbVars + 1 ∧
      GRun dv.sv.dedup (okRL dv) (okXL dv) (Sys.init dv.sv.P none dv.sv.dedup U) t.sys ∧
      GoodState dv H (okRL dv) (okXL dv) B opt t.sys := by
  obtain ⟨Prot, hPr⟩ := hUO
  refine ⟨lsys_terminates hwf hopt hPr U, fun t ht => ?_⟩
  obtain ⟨h1, h2, h3, _⟩ := lrun_inv hwf hopt hPr U ht
  exact ⟨fun hl => lstep_progress hwf hopt hPr U ht hl, h2, h3, h1,
    (parallel_dominance_solver_optimal_L dv H B0 B opt hwf hopt ⟨Prot, hPr⟩ U hU).2.2.1 _ h1⟩

/-- **`parallel_dominance_atomic`**: the system `DPStep` — shared store in the state, whole compilations atomic w.r.t. the store,
    several nodes in progress -/
theorem parallel_dominance_atomic (dv : DSolverCfg S K) (H : Nat → S → EInt) (B0 B opt : Int)
    (hwf : WellFormed dv.sv H B0 B) (hopt : (H 0 dv.sv.P.init).addI dv.sv.P.initVal = some opt)
    (hUO : UndomOpt dv.D dv.sv.P H opt) (U : Nat) (hU : 1 ≤ U) (t : DSys S K) (ht : DPRun dv (DSys.init dv U) t) :
    StoreReach dv.D dv.sv.P t.store ∧ t.store.layers.length = dv.sv.P.nbVars + 1 ∧
    GRun dv.sv.dedup (okRd dv) (okXd dv) (Sys.init dv.sv.P none dv.sv.dedup U) t.sys ∧
    GoodState dv H (okRd dv) (okXd dv) B opt t.sys := by
  obtain ⟨Prot, hPr⟩ := hUO
  obtain ⟨h1, h2, h3⟩ := dprun_inv hwf hopt hPr U ht
  exact ⟨h2, h3, h1, (parallel_dominance_solver_optimal_d dv H B0 B opt hwf hopt ⟨Prot, hPr⟩ U hU).2.2.1 _ h1⟩

/-! ## the individual operations: conditional headline -/

/-- under the remaining obligation the headline holds for the system whose compilations interleave their INDIVIDUAL
    `is_dominated_or_insert` calls with those of the other workers -/
theorem parallel_dominance_perOp_of (dv : DSolverCfg S K) (H : Nat → S → EInt) (B0 B opt : Int)
    (hwf : WellFormed dv.sv H B0 B) (hopt : (H 0 dv.sv.P.init).addI dv.sv.P.initVal = some opt)
    (hUO : UndomOpt dv.D dv.sv.P H opt)
    (hO : ∀ Prot, Protected dv.D dv.sv.P H opt Prot → PerOpObligation dv B opt Prot) (U : Nat) (hU : 1 ≤ U) :
    WellFounded (fun t s : Sys S =>
      GRun dv.sv.dedup (okROp dv) (okXOp dv) (Sys.init dv.sv.P none dv.sv.dedup U) s ∧
        GStep dv.sv.dedup (okROp dv) (okXOp dv) s t) ∧
    (∀ run : Nat → Sys S, run 0 = Sys.init dv.sv.P none dv.sv.dedup U →
      ¬ ∀ k, GStep dv.sv.dedup (okROp dv) (okXOp dv) (run k) (run (k + 1))) ∧
    (∀ t, GRun dv.sv.dedup (okROp dv) (okXOp dv) (Sys.init dv.sv.P none dv.sv.dedup U) t →
      GoodState dv H (okROp dv) (okXOp dv) B opt t) ∧
    (∃ t, GRun dv.sv.dedup (okROp dv) (okXOp dv) (Sys.init dv.sv.P none dv.sv.dedup U) t ∧ AllDone t) :=
  parallel_dominance_undom dv H B0 B opt _ _ hwf hopt hUO (fun Prot hPr => (hO Prot hPr).1) U hU

/-- **`parallel_dominance_solver_optimal`** — THE HEADLINE, every INDIVIDUAL `is_dominated_or_insert` interleaved: for every
    well-formed model, every dominance rule with a protected optimal strategy (`UndomOpt`), every ranking, width function, cut-set
    kind, either fringe and **every number of workers `U ≥ 1`**, the parallel solver with the shared dominance checker (no cache, no
    cut-off), the `k`-th `is_dominated_or_insert` of every compilation answered by WHATEVER the shared store holds at that moment
    (`okROp` / `okXOp`: `compileOp` against any sequence `τ` of stores of exactly reached items — and the shared store never holds
    anything else: `runOps_storeReach` + `compileOp_ops_reached`), in **every interleaving of the critical sections and of the
    individual operations**: terminates (well-founded step relation, no infinite run); in every reachable state nothing has
    panicked, some step is enabled unless every worker has left (no deadlock, no lost wake-up), whenever `get_workload` answers
    `Complete` and when `maximize()` returns: `best_lb = opt`, a genuinely feasible stored solution of value `opt`,
    `Completion { is_exact: true, best_value: Some(opt) }`; a complete run exists. -/
theorem parallel_dominance_solver_optimal (dv : DSolverCfg S K) (H : Nat → S → EInt) (B0 B opt : Int)
    (hwf : WellFormed dv.sv H B0 B) (hopt : (H 0 dv.sv.P.init).addI dv.sv.P.initVal = some opt)
    (hUO : UndomOpt dv.D dv.sv.P H opt) (U : Nat) (hU : 1 ≤ U) :
    WellFounded (fun t s : Sys S =>
      GRun dv.sv.dedup (okROp dv) (okXOp dv) (Sys.init dv.sv.P none dv.sv.dedup U) s ∧
        GStep dv.sv.dedup (okROp dv) (okXOp dv) s t) ∧
    (∀ run : Nat → Sys S, run 0 = Sys.init dv.sv.P none dv.sv.dedup U →
      ¬ ∀ k, GStep dv.sv.dedup (okROp dv) (okXOp dv) (run k) (run (k + 1))) ∧
    (∀ t, GRun dv.sv.dedup (okROp dv) (okXOp dv) (Sys.init dv.sv.P none dv.sv.dedup U) t →
      GoodState dv H (okROp dv) (okXOp dv) B opt t) ∧
    (∃ t, GRun dv.sv.dedup (okROp dv) (okXOp dv) (Sys.init dv.sv.P none dv.sv.dedup U) t ∧ AllDone t) :=
  parallel_dominance_perOp_of dv H B0 B opt hwf hopt hUO (fun _ hPr => perOpObligation_holds hwf hopt hPr) U hU

/-- **`parallel_dominance_opwise`**: the small-step system `OStep` — the shared store is a state component; ONE atomic
    `is_dominated_or_insert` (`DomStore.query`) on the shared store AS IT IS AT THAT MOMENT per step `op` of one worker, arbitrarily
    interleaved with the operations, layer entries / exits and critical sections of all the other workers: in every reachable state
    the shared store holds exactly reached items only, and the solver state is a reachable state of the system of
    `parallel_dominance_solver_optimal` — hence nothing has panicked, and every `Complete` / the return of `maximize()` holds the
    optimum with a feasible solution -/
theorem parallel_dominance_opwise (dv : DSolverCfg S K) (H : Nat → S → EInt) (B0 B opt : Int)
    (hwf : WellFormed dv.sv H B0 B) (hopt : (H 0 dv.sv.P.init).addI dv.sv.P.initVal = some opt)
    (hUO : UndomOpt dv.D dv.sv.P H opt) (U : Nat) (hU : 1 ≤ U) (t : OSys S K) (ht : ORun dv (OSys.init dv U) t) :
    StoreReach dv.D dv.sv.P t.store ∧ t.store.layers.length = dv.sv.P.nbVars + 1 ∧
    GRun dv.sv.dedup (okROp dv) (okXOp dv) (Sys.init dv.sv.P none dv.sv.dedup U) t.sys ∧
    GoodState dv H (okROp dv) (okXOp dv) B opt t.sys := by
  obtain ⟨Prot, hPr⟩ := hUO
  obtain ⟨h1, h2, h3, _⟩ := orun_inv (okR := okROp dv) (okX := okXOp dv) hwf hopt hPr (ansOk_Op hwf hopt hPr) U ht
  exact ⟨h2, h3, h1, (parallel_dominance_solver_optimal dv H B0 B opt hwf hopt ⟨Prot, hPr⟩ U hU).2.2.1 _ h1⟩

/-! ## non-vacuity: the knapsack rule of the `ddo` documentation -/
namespace Kp
open Ddo.C10.Kp

/-- on the knapsack instance of `Props/C10b.lean` (optimum 6, `Kp.simAdmissible`; the checker really prunes: `Kp.prunes_in_layer`,
    `Kp.prunes_across`), any width ≥ 1, either fringe, either cut-set kind, any number of workers ≥ 1, every interleaving: nothing
    panics, `Complete` and the return of `maximize()` report 6, and a complete run exists -/
theorem par_correct (w : Nat) (hw : 1 ≤ w) (dedup : Bool) (kind : CutsetKind) (U : Nat) (hU : 1 ≤ U) :
    (∀ t, GRun (dv w dedup kind).sv.dedup (okRL (dv w dedup kind)) (okXL (dv w dedup kind))
        (Sys.init (dv w dedup kind).sv.P none (dv w dedup kind).sv.dedup U) t →
      NoCrash t ∧ (∀ i, CompletesAt t i → t.crit.complete.base.completion = (true, some 6)) ∧
      (AllDone t → t.crit.base.completion = (true, some 6))) ∧
    (∃ t, GRun (dv w dedup kind).sv.dedup (okRL (dv w dedup kind)) (okXL (dv w dedup kind))
        (Sys.init (dv w dedup kind).sv.P none (dv w dedup kind).sv.dedup U) t ∧ AllDone t) := by
  obtain ⟨_, _, h3, h4⟩ := parallel_dominance_solver_optimal_L (dv w dedup kind) H 5 20 6 (wellFormed w hw dedup kind) opt6
    undomOpt U hU
  refine ⟨fun t ht => ?_, h4⟩
  obtain ⟨_, b, c, d, _⟩ := h3 t ht
  exact ⟨b.1, fun i hc => (c i hc).2.2.2, fun hd => (d hd).2.2⟩

end Kp

end Ddo.C10f

#print axioms Ddo.ParDom.step_dinv
#print axioms Ddo.ParDom.parallel_dominance_of
#print axioms Ddo.ParDom.parallel_dominance_total
#print axioms Ddo.ParDom.ansOk_d
#print axioms Ddo.ParDom.ansOk_L
#print axioms Ddo.ParDom.query_local
#print axioms Ddo.ParDom.filterDom_local
#print axioms Ddo.ParDom.compileL_virtual
#print axioms Ddo.ParDom.dprun_inv
#print axioms Ddo.ParDom.lrun_inv
#print axioms Ddo.ParDom.lstep_progress
#print axioms Ddo.ParDom.lsys_terminates
#print axioms Ddo.ParDom.compileOp_self
#print axioms Ddo.ParDom.nextL_step
#print axioms Ddo.ParDom.Kp2.complete_run
#print axioms Ddo.ParDom.Kq.mid_obs
#print axioms Ddo.ParDom.Kq.mid_obs_other
#print axioms Ddo.ParDom.Kq.complete_run
#print axioms Ddo.ParDom.Kq.overlap_run
#print axioms Ddo.ParDom.runOps_storeReach
#print axioms Ddo.ParDom.runOps_defined
#print axioms Ddo.ParDom.runOps_protected
#print axioms Ddo.ParDom.fdStepO_protected
#print axioms Ddo.C10f.parallel_dominance_undom
#print axioms Ddo.C10f.parallel_dominance_solver_optimal_L
#print axioms Ddo.C10f.parallel_dominance_solver_optimal_d
#print axioms Ddo.C10f.parallel_dominance_layerwise
#print axioms Ddo.C10f.parallel_dominance_atomic
#print axioms Ddo.C10f.parallel_dominance_perOp_of
#print axioms Ddo.ParDom.filterDomO_spec
#print axioms Ddo.ParDom.filterDomO_protected
#print axioms Ddo.ParDom.compileOp_ops_reached
#print axioms Ddo.ParDom.compileOp_no_crash
#print axioms Ddo.ParDom.isSolOp_restricted
#print axioms Ddo.ParDom.isSolOp_relaxed
#print axioms Ddo.ParDom.cutsetOp_exact
#print axioms Ddo.ParDom.cutsetOp_progress
#print axioms Ddo.ParDom.exactOp_diagram
#print axioms Ddo.ParDom.relaxedOp_ub
#print axioms Ddo.ParDom.relaxedOp_cutset
#print axioms Ddo.ParDom.ansOk_Op
#print axioms Ddo.ParDom.perOpObligation_holds
#print axioms Ddo.C10f.parallel_dominance_solver_optimal
#print axioms Ddo.ParDom.orun_inv
#print axioms Ddo.C10f.parallel_dominance_opwise
#print axioms Ddo.C10f.Kp.par_correct
