import DdoModel.Props.C05
/-! # C02 (sequential part) — the reported solution is feasible and consistent with the reported value
    # C14 — a warm-start primal never makes the solver miss a better solution

C02: the incumbent value and solution are written together by `maybe_update_best` from the same
diagram (`updateBest`), the contract `CompileOk.sound` says the diagram's best exact solution is a
genuinely feasible solution with exactly the best exact value; hence at every point of every run —
also after a cutoff (`cutoff_bounds_*` carry the clause) — `best_solution()` is feasible with value
`best_lower_bound()` (`Inv.solOk`, `best_is_solution`); a value is present iff a solution is
(`value_iff_solution`), equals the lower bound (`completion_value_eq_lb`), and after an
uninterrupted run the upper bound equals it too (`ub_eq_value_uninterrupted`).
That the *diagram's* solution is feasible with the right value is C06 / C07 (`CompileOk.sound`).
C14: `set_primal` replaces the incumbent only by a strictly greater value (`set_primal_strict`);
a run started from any feasible primal keeps the invariant (`init_inv` takes the initial incumbent as
a parameter), so it ends with `max(primal, optimum)` = `opt` of the invariant (`from_primal_optimal`). -/
set_option linter.unusedSectionVars false
namespace Ddo.C02
variable {S : Type} [DecidableEq S]

/-- **`best_is_solution`**: after `maybe_update_best`, the stored solution is a feasible solution whose
    value is the stored lower bound -/
theorem best_is_solution (Phi : SubP S → EInt) (opt : Int) (Sol : List Dec → Int → Prop)
    (st : SeqSt S) (N : SubP S) (lb0 : Int) (o : DDOut S)
    (hlb : st.bestLb ≤ opt) (hsol : ∀ p, st.bestSol = some p → Sol p st.bestLb)
    (hc : CompileOk Phi opt Sol N lb0 o) :
    ∀ p, (st.updateBest o).bestSol = some p → Sol p (st.updateBest o).bestLb :=
  (updateBest_ok Phi opt Sol st N lb0 o hlb hsol hc).2

/-- a value is reported iff a solution is -/
theorem value_iff_solution (st : SeqSt S) : st.completion.2.isSome = st.bestSol.isSome := by
  simp [SeqSt.completion]

/-- the reported value is the lower bound -/
theorem completion_value_eq_lb (st : SeqSt S) (v : Int) (h : st.completion.2 = some v) : v = st.bestLb := by
  simp only [SeqSt.completion, Option.map_eq_some_iff] at h
  obtain ⟨_, _, h⟩ := h; exact h.symm

/-- after an uninterrupted run `best_upper_bound() = best_lower_bound()` -/
theorem ub_eq_value_uninterrupted (st : SeqSt S) : st.complete.bestUb = st.complete.bestLb := rfl

/-! ## C14 -/

/-- **`set_primal_strict`**: the incumbent is replaced exactly when the new value is strictly greater -/
theorem set_primal_strict (st : SeqSt S) (v : Int) (sol : List Dec) :
    (v > st.bestLb → (st.setPrimal v sol).bestLb = v ∧ (st.setPrimal v sol).bestSol = some sol) ∧
    (¬ v > st.bestLb → st.setPrimal v sol = st) := by
  unfold SeqSt.setPrimal
  constructor
  · intro h; simp [h]
  · intro h; simp [h]

/-- **`from_primal_optimal`**: started from a primal that belongs to a genuinely feasible solution
    (`Sol sol v`, hence `v ≤ opt` where `opt` is the maximum of the primal and the true optimum,
    attained by `Phi root` whenever it beats the primal), the invariant holds initially; with
    `process_inv` and `complete_optimal` the run therefore ends with value `opt`, `is_exact`. -/
theorem from_primal_optimal (Phi : SubP S → EInt) (opt : Int) (Sol : List Dec → Int → Prop)
    (root : SubP S) (v : Int) (sol : List Dec)
    (hroot : ∀ x, Phi root = some x → x ≤ opt) (hub : root.ub = iMax) (hopt : opt ≤ iMax)
    (hv : v ≤ opt) (hsol : Sol sol v) (hatt : opt > v → Phi root = some opt) :
    Inv Phi opt Sol [root] v (some sol) :=
  C01.init_inv Phi opt Sol root v (some sol) hroot hub hopt hv
    (fun p hp => by injection hp with hp; subst hp; exact hsol) hatt

end Ddo.C02
