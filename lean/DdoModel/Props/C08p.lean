import DdoModel.Proofs.PooledInv
import DdoModel.Props.C08
import DdoModel.Props.C07p
import DdoModel.Props.C13b
/-! # C08 for the pooled diagram — what carries over, and what does not

For a pooled compilation that ends normally (`.ok`), any cache / dominance configuration, for both results of `compileP`:

* `cutset_exact_pooled` (i): **holds** — every sub-problem `c` of the cut-set is reached (`ReachSkip`: unimpacted
  variables carry no decision) at `(c.depth, c.state, c.value)` by `p0 ++ q`, `q` the decisions of the diagram from its
  root down to the node, and `c.path = cfg.root.path ++ q.reverse`.  Any compilation type, long arcs allowed.
* (ii) cut-set progress is **false** for the pooled diagram with long arcs (known finding D5): `not_cutset_progress_pooled`
  exhibits a relaxed pooled compilation, rooted at `(state 0, value 0, depth 0)`, whose cut-set contains
  `(state 0, value 0, depth 0)`.  Mechanism: a child of the root that is not impacted by the next variable lingers in
  the pool; two layers later `_squash_if_needed` may merge it, which makes the *root* the exact parent of an inexact
  node, i.e. a frontier cut-set node.
* `cutset_progress_pooled_allImpacted` (ii, bonus): it **holds when every variable impacts every state**
  (`AllImpacted`, no long arcs): then every iteration materialises a layer, every arc comes from the layer just above,
  the layers of index `0` and `1` are exact (no relaxation before two layers are materialised), so an inexact node sits
  in a layer of index `≥ 2` and its exact parents — the frontier — in a layer of index `≥ 1`, at depth
  `root.depth + index > root.depth`. -/
set_option linter.unusedSectionVars false
set_option linter.unusedVariables false
namespace Ddo.C08
open Ddo Ddo.Pooled
variable {S K : Type} [DecidableEq S] [DecidableEq K]

/-- the results of a pooled compilation that ends normally -/
theorem compileP_results_ok (cfg : Cfg S K) (cache : Cache S) (store : DomStore S K) (polls : Nat) (stopAt : Option Nat)
    (hok : (compileP cfg cache store polls stopAt).1 = .ok) (r : Result S)
    (hr : r = (compileP cfg cache store polls stopAt).2.1 ∨ (compileP cfg cache store polls stopAt).2.2.1 = some r) :
    ∃ e, r = finalizeP cfg (buildLoopP cfg stopAt (cfg.P.nbVars + 2) (initPD cfg cache store polls)).1 e := by
  rw [compileP_outcome] at hok
  obtain ⟨must, may, h1, h2⟩ := compileP_ok_results cfg cache store polls stopAt hok
  rcases hr with hr | hr
  · exact ⟨must, hr.trans h1⟩
  · rw [h2] at hr
    split at hr
    · injection hr with hr; exact ⟨may, hr.symm⟩
    · cases hr

/-- **C08 (i), pooled diagram**: the sub-problems of the cut-set are exact.  `r` is either result of the compilation.
    Hypotheses: `p0` reaches the root sub-problem (`hroot`, with or without skips); no saturation (`hB`). -/
theorem cutset_exact_pooled (cfg : Cfg S K) (B : Int) (p0 : List Dec) (cache : Cache S) (store : DomStore S K)
    (polls : Nat) (stopAt : Option Nat)
    (hroot : ReachSkip cfg.P cfg.root.depth cfg.root.state cfg.root.value p0)
    (hB : NoClamp cfg.P cfg.R cfg.root.value B)
    (hok : (compileP cfg cache store polls stopAt).1 = .ok) (r : Result S)
    (hr : r = (compileP cfg cache store polls stopAt).2.1 ∨ (compileP cfg cache store polls stopAt).2.2.1 = some r) :
    ∀ c ∈ r.cutset, ∃ q, ReachSkip cfg.P c.depth c.state c.value (p0 ++ q) ∧ c.path = cfg.root.path ++ q.reverse := by
  obtain ⟨e, rfl⟩ := compileP_results_ok cfg cache store polls stopAt hok r hr
  obtain ⟨k, hinv, _⟩ := buildLoopP_inv cfg B p0 hB stopAt (cfg.P.nbVars + 2) (initPD cfg cache store polls) 0
    (initPD_inv cfg B p0 hB hroot cache store polls) (by omega)
  intro c hc
  exact finalizeP_cutset_exact cfg B p0 _ k e hinv c hc

/-- **C08 (ii), pooled diagram, without long arcs** (bonus): in a relaxed compilation of a problem in which every
    variable impacts every state, the sub-problems of the cut-set are strictly deeper than the root sub-problem. -/
theorem cutset_progress_pooled_allImpacted (cfg : Cfg S K) (B : Int) (p0 : List Dec) (cache : Cache S)
    (store : DomStore S K) (polls : Nat) (stopAt : Option Nat) (hall : AllImpacted cfg.P) (hrel : cfg.ctype = .relaxed)
    (hroot : ReachSkip cfg.P cfg.root.depth cfg.root.state cfg.root.value p0)
    (hB : NoClamp cfg.P cfg.R cfg.root.value B)
    (hok : (compileP cfg cache store polls stopAt).1 = .ok) (r : Result S)
    (hr : r = (compileP cfg cache store polls stopAt).2.1 ∨ (compileP cfg cache store polls stopAt).2.2.1 = some r) :
    ∀ c ∈ r.cutset, cfg.root.depth < c.depth := by
  obtain ⟨e, rfl⟩ := compileP_results_ok cfg cache store polls stopAt hok r hr
  obtain ⟨k, hinv, _⟩ := buildLoopP_inv cfg B p0 hB stopAt (cfg.P.nbVars + 2) (initPD cfg cache store polls) 0
    (initPD_inv cfg B p0 hB hroot cache store polls) (by omega)
  have hc := buildLoopP_cinv cfg hall hrel stopAt (cfg.P.nbVars + 2) _ (initPD_cinv cfg cache store polls)
  obtain ⟨kf, hf⟩ := buildLoopP_full cfg hall stopAt (cfg.P.nbVars + 2) _ 0 (initPD_full cfg cache store polls)
  intro c hmem
  exact finalizeP_cutset_progress cfg B p0 _ k kf e hinv hc hf c hmem

/-- C08 (ii) stated for the pooled diagram in full generality — **false** (`not_cutset_progress_pooled`) -/
def cutset_progress_pooled : Prop :=
  ∀ (cfg : Cfg Int Unit) (B : Int) (p0 : List Dec) (cache : Cache Int) (store : DomStore Int Unit) (polls : Nat)
    (stopAt : Option Nat), cfg.ctype = .relaxed →
    ReachSkip cfg.P cfg.root.depth cfg.root.state cfg.root.value p0 → NoClamp cfg.P cfg.R cfg.root.value B →
    (compileP cfg cache store polls stopAt).1 = .ok →
    ∀ c ∈ (compileP cfg cache store polls stopAt).2.1.cutset, cfg.root.depth < c.depth

/-- the witness of `Ddo.C07.WitnessP` refutes it: well-formed instance, hypotheses met, root in its own cut-set -/
theorem not_cutset_progress_pooled : ¬ cutset_progress_pooled := by
  intro h
  have h1 := h (C07.WitnessP.cfg .relaxed) 200 [] (Cache.init 3) (DomStore.init 3) 0 none rfl ReachSkip.root
    (C07.WitnessP.noClamp .relaxed) (by decide)
  have h2 : ∃ c ∈ (compileP (C07.WitnessP.cfg .relaxed) (Cache.init 3) (DomStore.init 3) 0 none).2.1.cutset,
      c.depth = 0 ∧ c.state = 0 ∧ c.value = 0 ∧ c.path = [] := by decide
  obtain ⟨c, hc, hd, _⟩ := h2
  have h3 := h1 c hc
  have h4 : (C07.WitnessP.cfg .relaxed).root.depth = 0 := rfl
  omega

/-! ## non-vacuity of the bonus: an instance without long arcs with a non-empty cut-set

`Ddo.C13.Witness` (three variables, domain `{0,1,2}`, every state impacted by every variable), relaxed, width 1. -/
namespace WitnessP
open Ddo.C13.Witness

theorem allImpacted : AllImpacted (cfg .relaxed).P := fun _ _ => rfl

theorem noClamp : NoClamp (cfg .relaxed).P (cfg .relaxed).R (cfg .relaxed).root.value 1 := by
  show NoClamp P R 0 1
  exact ⟨by decide, by decide, fun _ _ _ => ⟨by show (-1 : Int) ≤ 0; decide, by show (0 : Int) ≤ 1; decide⟩,
    fun _ _ _ _ c h => h, by decide⟩

/-- the cut-set: the three children of the root, at depth 1 … -/
example : (compileP (cfg .relaxed) (Cache.init 3) (DomStore.init 3) 0 none).2.1.cutset.map
    (fun c => (c.state, c.value, c.depth, c.path.length)) = [(0, 0, 1, 1), (1, 0, 1, 1), (2, 0, 1, 1)] := by decide

/-- … as the theorem says -/
example : ∀ c ∈ (compileP (cfg .relaxed) (Cache.init 3) (DomStore.init 3) 0 none).2.1.cutset, 0 < c.depth :=
  cutset_progress_pooled_allImpacted (cfg .relaxed) 1 [] (Cache.init 3) (DomStore.init 3) 0 none allImpacted rfl
    ReachSkip.root noClamp (by decide) _ (.inl rfl)

end WitnessP

end Ddo.C08

#print axioms Ddo.C08.cutset_exact_pooled
#print axioms Ddo.C08.cutset_progress_pooled_allImpacted
#print axioms Ddo.C08.not_cutset_progress_pooled
