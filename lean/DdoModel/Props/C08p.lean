import DdoModel.Proofs.PooledInv
import DdoModel.Props.C08
import DdoModel.Props.C07p
import DdoModel.Props.C13b
/-! # C08 for the pooled diagram — shared lemma, and what failed before the repair of D5

* `compileP_results_ok` / `compilePOld_results_ok`: the results of a pooled compilation that ends normally are `finalizeP`
  (resp. `finalizePOld`, the code before the repair) of the final diagram.
* (ii) cut-set progress was **false** for the pooled diagram with long arcs before the repair (finding D5):
  `not_cutset_progress_pooled` exhibits a relaxed pooled compilation (`compilePOld`), rooted at
  `(state 0, value 0, depth 0)`, whose cut-set contains `(state 0, value 0, depth 0)`.  Mechanism: a child of the root that is
  not impacted by the next variable lingers in the pool; two layers later `_squash_if_needed` may merge it, which makes the
  *root* the exact parent of an inexact node, i.e. a frontier cut-set node.
* The clauses for the repaired code — (i) `cutset_exact_pooled`, (ii) `cutset_progress_pooled` (a theorem for every model
  now), `cutset_progress_pooled_allImpacted` — are in `Props/C08q.lean` (proofs: `Proofs/PooledFix.lean`). -/
set_option linter.unusedSectionVars false
set_option linter.unusedVariables false
namespace Ddo.C08
open Ddo Ddo.Pooled
variable {S K : Type} [DecidableEq S] [DecidableEq K]

/-- the results of a pooled compilation that ends normally -/
theorem compileP_results_ok (cfg : Cfg S K) (cache : Cache S) (store : DomStore S K) (polls : Nat) (stopAt : Option Nat)
    (hok : (compileP cfg cache store polls stopAt).1 = .ok) (r : Result S)
    (hr : r = (compileP cfg cache store polls stopAt).2.1 ∨ (compileP cfg cache store polls stopAt).2.2.1 = some r) :
    ∃ e, r = finalizeP cfg (buildLoopP cfg stopAt (cfg.P.nbVars + 2) (initPD cfg cache store polls)).1 e := by
  rw [compileP_outcome] at hok
  obtain ⟨must, may, h1, h2⟩ := compileP_ok_results cfg cache store polls stopAt hok
  rcases hr with hr | hr
  · exact ⟨must, hr.trans h1⟩
  · rw [h2] at hr
    split at hr
    · injection hr with hr; exact ⟨may, hr.symm⟩
    · cases hr

/-- the same for the code before the repair of D5 -/
theorem compilePOld_results_ok (cfg : Cfg S K) (cache : Cache S) (store : DomStore S K) (polls : Nat) (stopAt : Option Nat)
    (hok : (compilePOld cfg cache store polls stopAt).1 = .ok) (r : Result S)
    (hr : r = (compilePOld cfg cache store polls stopAt).2.1 ∨ (compilePOld cfg cache store polls stopAt).2.2.1 = some r) :
    ∃ e, r = finalizePOld cfg (buildLoopP cfg stopAt (cfg.P.nbVars + 2) (initPD cfg cache store polls)).1 e := by
  rw [compilePOld_outcome] at hok
  obtain ⟨must, may, h1, h2⟩ := compilePOld_ok_results cfg cache store polls stopAt hok
  rcases hr with hr | hr
  · exact ⟨must, hr.trans h1⟩
  · rw [h2] at hr
    split at hr
    · injection hr with hr; exact ⟨may, hr.symm⟩
    · cases hr

/-- C08 (ii) stated in full generality for the pooled diagram **before the repair of D5** (`compilePOld`) — **false**
    (`not_cutset_progress_pooled`).  For the repaired code it is the theorem `Ddo.C08.cutset_progress_pooled`
    (`Props/C08q.lean`). -/
def cutset_progress_pooledOld : Prop :=
  ∀ (cfg : Cfg Int Unit) (B : Int) (p0 : List Dec) (cache : Cache Int) (store : DomStore Int Unit) (polls : Nat)
    (stopAt : Option Nat), cfg.ctype = .relaxed →
    ReachSkip cfg.P cfg.root.depth cfg.root.state cfg.root.value p0 → NoClamp cfg.P cfg.R cfg.root.value B →
    (compilePOld cfg cache store polls stopAt).1 = .ok →
    ∀ c ∈ (compilePOld cfg cache store polls stopAt).2.1.cutset, cfg.root.depth < c.depth

/-- the witness of `Ddo.C07.WitnessP` refutes it: well-formed instance, hypotheses met, root in its own cut-set -/
theorem not_cutset_progress_pooled : ¬ cutset_progress_pooledOld := by
  intro h
  have h1 := h (C07.WitnessP.cfg .relaxed) 200 [] (Cache.init 3) (DomStore.init 3) 0 none rfl ReachSkip.root
    (C07.WitnessP.noClamp .relaxed) (by decide)
  have h2 : ∃ c ∈ (compilePOld (C07.WitnessP.cfg .relaxed) (Cache.init 3) (DomStore.init 3) 0 none).2.1.cutset,
      c.depth = 0 ∧ c.state = 0 ∧ c.value = 0 ∧ c.path = [] := by decide
  obtain ⟨c, hc, hd, _⟩ := h2
  have h3 := h1 c hc
  have h4 : (C07.WitnessP.cfg .relaxed).root.depth = 0 := rfl
  omega

/-! ## non-vacuity of the bonus: an instance without long arcs with a non-empty cut-set

`Ddo.C13.Witness` (three variables, domain `{0,1,2}`, every state impacted by every variable), relaxed, width 1. -/
namespace WitnessP
open Ddo.C13.Witness

theorem allImpacted : AllImpacted (cfg .relaxed).P := fun _ _ => rfl

theorem noClamp : NoClamp (cfg .relaxed).P (cfg .relaxed).R (cfg .relaxed).root.value 1 := by
  show NoClamp P R 0 1
  exact ⟨by decide, by decide, fun _ _ _ => ⟨by show (-1 : Int) ≤ 0; decide, by show (0 : Int) ≤ 1; decide⟩,
    fun _ _ _ _ c h => h, by decide⟩

end WitnessP

end Ddo.C08

#print axioms Ddo.C08.not_cutset_progress_pooled
