import DdoModel.Proofs.MddWidth
/-! # C13 (sentence 1) — the maximum width bounds the work done per layer

*In a restricted compilation no layer has more than `max_width` states expanded, and in a relaxed
compilation no layer other than the root layer and the first layer below it has.*

"Expanded" = the positions of the list `cur` that `stepLayer` hands to `expandAll` (the nodes on
which `for_each_in_domain` may be called; the rough-bound test may skip some of them).  The model
is `Mdd.lean` (`_squash_if_needed` = `squash`, `_restrict` = `restrictLayer`, `_relax` =
`relaxLayer`); the theorems hold for every configuration, cache, dominance rule and input.

* `restrict_cur_le_width`, `relax_cur_le_width`, `squash_cur_le_width`: the list that leaves
  `_restrict` / `_relax` / `_squash_if_needed` has at most `width` positions;
* `expandedOf` + `stepLayer_expandedOf` + `stepLayer_expanded_le_width`: the same for the list that a
  whole layer step hands to `expandAll`;
* `expandAll_domain_calls_le`: `expandAll` logs at most one `Call.domain` per position;
* `stepLayer_domain_calls_le_width`: hence a layer step logs at most `width` `Call.domain`s;
* `compile_expanded_le_width`: hence every entry of `Result.expanded` — the per-layer counts that the
  correspondence check of engine `mdd` compares with the implementation — of index `i` is at most
  `width` (`i` arbitrary when restricted, `i ≥ 2` when relaxed).

`1 ≤ width` is kept in the statements for the relaxed case as in the property, but it is not needed
(`Ddo.Width.squash_relaxed_le`): with `width = 0` a relaxed compilation that needs to merge answers
`none` (the Rust code panics on `max_width - 1`), it never hands over a longer list. -/
set_option linter.unusedSectionVars false
set_option linter.unusedVariables false
namespace Ddo.C13
open Ddo Ddo.Width
variable {S K : Type} [DecidableEq S] [DecidableEq K]

/-- 1. `_restrict` hands over `sorted.take width` -/
theorem restrict_cur_le_width (cfg : Cfg S K) (layer : List (Node S)) (cur : List Nat) :
    (restrictLayer cfg layer cur).2.length ≤ cfg.width :=
  Width.restrict_cur_le_width cfg layer cur

/-- 2. `_relax` hands over `sorted.take (width-1) ++ [merged]` (fresh merged node) or `sorted.take width`
    (recycled one) -/
theorem relax_cur_le_width (cfg : Cfg S K) (layers : List (List (Node S))) (layer : List (Node S)) (cur : List Nat)
    (log : List (Call S)) (hW : 1 ≤ cfg.width) (hlen : cfg.width < cur.length) :
    (relaxLayer cfg layers layer cur log).2.1.length ≤ cfg.width :=
  Width.relax_cur_le_width cfg layers layer cur log hW hlen

/-- 3. `_squash_if_needed` -/
theorem squash_cur_le_width (cfg : Cfg S K) (dd : DD S K) (layer : List (Node S)) (cur : List Nat)
    (layer' : List (Node S)) (cur' : List Nat) (log' : List (Call S)) (lel' : Option Nat)
    (h : squash cfg dd layer cur = some (layer', cur', log', lel')) :
    (cfg.ctype = .restricted → cur'.length ≤ cfg.width) ∧
    (cfg.ctype = .relaxed → 1 ≤ cfg.width → dd.layers.length > 1 → cur'.length ≤ cfg.width) :=
  ⟨fun hc => squash_restricted_le cfg dd layer cur layer' cur' log' lel' hc h,
   fun hc _ hd => squash_relaxed_le cfg dd layer cur layer' cur' log' lel' hc hd h⟩

/-- 4. the number of positions that `stepLayer cfg dd var` hands to `expandAll` (`none`: the loop breaks on an empty
    layer, or the step crashes).  It replays the prefix of `stepLayer` (`Width.curOf`: `_filter_with_cache`,
    `_filter_with_dominance`, `_squash_if_needed`); `stepLayer_expandedOf` ties it to `stepLayer`. -/
def expandedOf (cfg : Cfg S K) (dd : DD S K) (_var : Nat) : Option Nat := (curOf cfg dd).map List.length

/-- `stepLayer` in terms of `squash` and `expandAll`: a successful step is the expansion of a list `cur` of
    `expandedOf` positions, that list being the output of `_squash_if_needed` -/
theorem stepLayer_expandedOf (cfg : Cfg S K) (dd dd' : DD S K) (var : Nat)
    (h : stepLayer cfg dd var = (some dd', .ok)) :
    ∃ (layer0 : List (Node S)) (cur0 : List Nat) (layer : List (Node S)) (cur : List Nat) (log : List (Call S))
      (lel : Option Nat),
      squash cfg dd layer0 cur0 = some (layer, cur, log, lel) ∧
      expandedOf cfg dd var = some cur.length ∧
      dd'.layers = dd.layers ++ [(expandAll cfg var dd.layers.length layer cur log).1] ∧
      dd'.next = (expandAll cfg var dd.layers.length layer cur log).2.1 ∧
      dd'.log = (expandAll cfg var dd.layers.length layer cur log).2.2 := by
  obtain ⟨sq, hsq, hcur, h1, h2, h3⟩ := stepLayer_ok_elim cfg dd dd' var h
  refine ⟨_, _, sq.1, sq.2.1, sq.2.2.1, sq.2.2.2, squashOf_elim cfg dd sq hsq, ?_, h1, h2, h3⟩
  simp [expandedOf, hcur]

/-- a step that is not the expansion of `expandedOf` positions expands nothing: it breaks (empty layer,
    log unchanged) or crashes -/
theorem stepLayer_expandedOf_none (cfg : Cfg S K) (dd : DD S K) (var : Nat) (h : expandedOf cfg dd var = none) :
    stepLayer cfg dd var = (some { dd with layers := dd.layers ++ [[]] }, .cutoff) ∨
    stepLayer cfg dd var = (none, .crash) := by
  rw [stepLayer_eq]
  have hs : squashOf cfg dd = none := by
    cases hsq : squashOf cfg dd with
    | none => rfl
    | some sq => simp [expandedOf, curOf, hsq] at h
  split
  · exact Or.inl rfl
  · rw [hs]; exact Or.inr rfl

/-- **4. `stepLayer_expanded_le_width`** -/
theorem stepLayer_expanded_le_width (cfg : Cfg S K) (dd : DD S K) (var n : Nat)
    (h : expandedOf cfg dd var = some n) :
    (cfg.ctype = .restricted → n ≤ cfg.width) ∧
    (cfg.ctype = .relaxed → 1 ≤ cfg.width → dd.layers.length > 1 → n ≤ cfg.width) := by
  unfold expandedOf at h
  cases hc : curOf cfg dd with
  | none => rw [hc] at h; cases h
  | some cur =>
    rw [hc] at h
    simp only [Option.map_some, Option.some.injEq] at h
    subst h
    exact ⟨fun hr => curOf_le_width cfg dd cur hc (Or.inl hr),
           fun hr _ hd => curOf_le_width cfg dd cur hc (Or.inr ⟨hr, hd⟩)⟩

/-- **5. `expandAll_domain_calls_le`**: the expansion of a layer adds at most one `Call.domain` per position -/
theorem expandAll_domain_calls_le (cfg : Cfg S K) (var lidx : Nat) (layer : List (Node S)) (cur : List Nat)
    (log : List (Call S)) :
    domCount (expandAll cfg var lidx layer cur log).2.2 ≤ domCount log + cur.length :=
  Width.expandAll_domain_calls_le cfg var lidx layer cur log

/-- a whole layer step (`_squash_if_needed` included: `_relax` logs `merge` / `relax` calls only) adds at most
    `width` `Call.domain`s to the log, whatever its outcome -/
theorem stepLayer_domain_calls_le_width (cfg : Cfg S K) (dd dd' : DD S K) (var : Nat) (oc : Outcome)
    (h : stepLayer cfg dd var = (some dd', oc))
    (hb : cfg.ctype = .restricted ∨ (cfg.ctype = .relaxed ∧ dd.layers.length > 1)) :
    domCount dd'.log ≤ domCount dd.log + cfg.width := by
  obtain ⟨_, k, hg, hk⟩ := stepLayer_log cfg dd dd' var oc h
  have h1 := hg.domCount_le
  have h2 : k ≤ cfg.width := hk (by
    rcases hb with hb | ⟨hb, hd⟩
    · exact Or.inl hb
    · exact Or.inr ⟨hb, hd⟩)
  omega

/-- **the observable of a whole compilation**: entry `i` of `Result.expanded` (number of `for_each_in_domain`
    calls issued for layer `i`, as computed by `finalize` from the call log) is at most `width`, for every `i` in a
    restricted compilation and for every `i ≥ 2` in a relaxed one; `r` is either of the two admissible results
    returned by `compile` -/
theorem compile_expanded_le_width (cfg : Cfg S K) (cache : Cache S) (store : DomStore S K) (polls : Nat)
    (stopAt : Option Nat) (r : Result S)
    (hr : r = (compile cfg cache store polls stopAt).2.1 ∨ some r = (compile cfg cache store polls stopAt).2.2.1)
    (i x : Nat) (hx : r.expanded[i]? = some x)
    (hb : cfg.ctype = .restricted ∨ (cfg.ctype = .relaxed ∧ 2 ≤ i)) : x ≤ cfg.width := by
  have := Width.compile_expanded_le_width cfg cache store polls stopAt i x hb
  rcases hr with rfl | hr
  · exact this.1 hx
  · exact this.2 r hr.symm hx

/-! ## the statement is tight: a witness

Three variables, domain `{0,1,2}` everywhere, `width = 1`.  The relaxed compilation expands 3 nodes in the first
layer below the root (index 1: `_squash_if_needed` does not relax while `layers.len() ≤ 1`) and 1 from index 2 on;
the restricted one never more than 1; the exact one is not bounded. -/
namespace Witness

def P : Problem Int :=
  { nbVars := 3, init := 0, initVal := 0, trans := fun _ d => d.val, cost := fun _ _ _ => 0,
    nextVar := fun k _ => if k < 3 then some k else none, domain := fun _ _ => [0, 1, 2], impacted := fun _ _ => true }
def R : Relax Int := { merge := fun _ => 7, relax := fun _ _ _ _ c => c, rub := fun _ => 10 }
def cfg (ct : CompType) : Cfg Int Unit :=
  { P := P, R := R, rank := ⟨fun a b => compare a b⟩, dom := none, useCache := false, kind := .lel, ctype := ct,
    width := 1, root := { state := 0, value := 0, path := [], ub := 100, depth := 0 }, lb := -1 }

example : (compile (cfg .relaxed) (Cache.init 3) (DomStore.init 3) 0 none).2.1.expanded = [1, 3, 1, 0] := by decide
example : (compile (cfg .restricted) (Cache.init 3) (DomStore.init 3) 0 none).2.1.expanded = [1, 1, 1, 0] := by decide
example : (compile (cfg .exact) (Cache.init 3) (DomStore.init 3) 0 none).2.1.expanded = [1, 3, 3, 0] := by decide

end Witness

end Ddo.C13

#print axioms Ddo.C13.restrict_cur_le_width
#print axioms Ddo.C13.relax_cur_le_width
#print axioms Ddo.C13.squash_cur_le_width
#print axioms Ddo.Width.squash_relaxed_le
#print axioms Ddo.Width.stepLayer_eq
#print axioms Ddo.C13.stepLayer_expandedOf
#print axioms Ddo.C13.stepLayer_expandedOf_none
#print axioms Ddo.C13.stepLayer_expanded_le_width
#print axioms Ddo.C13.expandAll_domain_calls_le
#print axioms Ddo.C13.stepLayer_domain_calls_le_width
#print axioms Ddo.C13.compile_expanded_le_width
