import DdoModel.Props.C01
import DdoModel.Props.C05
import DdoModel.Proofs.SeqInvDedup
/-! # C01 / C05 / C19 for the duplicate-free fringe (`NoDupFringe`, `dedup = true`)

`process_dedup_rel`: whatever the answers of the cache and of the two compilations, the state after
`process_one_node` with the duplicate-free fringe has the same incumbent / bounds / abort flag as
with the plain multiset fringe, and its fringe is a *coalescing* (`Coalesces`, see
`Proofs/SeqInvDedup.lean`) of the plain one.  Since the coverage invariant is stable under
coalescing when `Phi` is monotone in the value (`Inv.of_coalesce`), `process_inv_dedup` follows from
`C01.process_inv`.  The cutoff theorems of C05 carry over verbatim because a cut-off
`process_one_node` never touches the fringe (`process_cutoff_dedup_irrel`); `best_ub` (since the repair of D14 the
running minimum of the popped bounds) is not written by `process_one_node` with either fringe
(`C05.process_ub_eq`), so C19's monotonicity of the reported upper bound is `turn_ub_le_any`.  Core Lean only. -/
set_option linter.unusedSectionVars false
namespace Ddo.C01b
variable {S : Type} [DecidableEq S]

/-- the duplicate-free run of `process_one_node` against the plain one, from the same state -/
theorem process_dedup_rel (st : SeqSt S) (N : SubP S) (me : Bool) (r x : DDRes S) :
    (st.process true N me r x).1.bestLb = (st.process false N me r x).1.bestLb ∧
    (st.process true N me r x).1.bestSol = (st.process false N me r x).1.bestSol ∧
    (st.process true N me r x).1.bestUb = (st.process false N me r x).1.bestUb ∧
    (st.process true N me r x).1.abort = (st.process false N me r x).1.abort ∧
    (st.process true N me r x).2 = (st.process false N me r x).2 ∧
    (KeysNodup st.fringe → KeysNodup (st.process true N me r x).1.fringe) ∧
    Coalesces (st.process true N me r x).1.fringe (fun c => c ∈ (st.process false N me r x).1.fringe) := by
  have knil : KeysNodup ([] : List (SubP S)) := List.Pairwise.nil
  unfold SeqSt.process
  split
  · exact ⟨rfl, rfl, rfl, rfl, rfl, id, Coalesces.refl _⟩
  · split
    · exact ⟨rfl, rfl, rfl, rfl, rfl, id, Coalesces.refl _⟩
    · cases r with
      | cutoff => exact ⟨rfl, rfl, rfl, rfl, rfl, fun _ => knil, Coalesces.refl _⟩
      | ok r =>
        simp only
        have f1 := (updateBest_fringe st r).1
        split
        · exact ⟨rfl, rfl, rfl, rfl, rfl, fun h => by rw [f1]; exact h, Coalesces.refl _⟩
        · cases x with
          | cutoff => exact ⟨rfl, rfl, rfl, rfl, rfl, fun _ => knil, Coalesces.refl _⟩
          | ok x =>
            simp only
            have f2 := (updateBest_fringe (st.updateBest r) x).1
            split
            · exact ⟨rfl, rfl, rfl, rfl, rfl, fun h => by rw [f2, f1]; exact h, Coalesces.refl _⟩
            · obtain ⟨t1, t2, t3, t4, tk, _⟩ := enqueue_true_spec ((st.updateBest r).updateBest x) x.cutset
              obtain ⟨e1, e2, e3, e4, _⟩ := enqueue_false_spec ((st.updateBest r).updateBest x) x.cutset
              exact ⟨t1.trans e1.symm, t2.trans e2.symm, t3.trans e3.symm, t4.trans e4.symm, rfl,
                fun h => tk (by rw [f2, f1]; exact h), enqueue_true_coalesces_false _ _⟩

section
variable (Phi : SubP S → EInt) (opt : Int) (Sol : List Dec → Int → Prop)

/-- **`process_inv_dedup`**: one `process_one_node` with the duplicate-free fringe (both compilations
    answered, no cache) preserves the coverage invariant.  Same hypotheses as `C01.process_inv`,
    except that `hPhi` (the potential ignores the bound) is replaced by the stronger `PhiMono`: `Phi`
    reads a sub-problem through `(state, depth, value)` only, monotonically in `value`. -/
theorem process_inv_dedup (hmono : PhiMono Phi)
    (st : SeqSt S) (N : SubP S) (r x : DDOut S)
    (hinv : Inv Phi opt Sol (N :: st.fringe) st.bestLb st.bestSol)
    (hr : CompileOk Phi opt Sol N st.bestLb r)
    (hx : CompileOk Phi opt Sol N (st.updateBest r).bestLb x)
    (hcut : x.isExact = false → CutsetOk Phi opt N (st.updateBest r).bestLb x) :
    Inv Phi opt Sol (st.process true N true (.ok r) (.ok x)).1.fringe
      (st.process true N true (.ok r) (.ok x)).1.bestLb (st.process true N true (.ok r) (.ok x)).1.bestSol := by
  have h := C01.process_inv Phi opt Sol hmono.ub_irrel st N r x hinv hr hx hcut
  obtain ⟨e1, e2, _, _, _, _, hco⟩ := process_dedup_rel st N true (.ok r) (.ok x)
  rw [e1, e2]
  exact Inv.of_coalesce Phi opt Sol hmono h hco

/-- the same with the explicit hypotheses of the task statement -/
theorem process_inv_dedup'
    (hPhiMono : ∀ a b : SubP S, a.state = b.state → a.depth = b.depth → a.value ≤ b.value → Phi a ≤ Phi b)
    (st : SeqSt S) (N : SubP S) (r x : DDOut S)
    (hinv : Inv Phi opt Sol (N :: st.fringe) st.bestLb st.bestSol)
    (hr : CompileOk Phi opt Sol N st.bestLb r)
    (hx : CompileOk Phi opt Sol N (st.updateBest r).bestLb x)
    (hcut : x.isExact = false → CutsetOk Phi opt N (st.updateBest r).bestLb x) :
    Inv Phi opt Sol (st.process true N true (.ok r) (.ok x)).1.fringe
      (st.process true N true (.ok r) (.ok x)).1.bestLb (st.process true N true (.ok r) (.ok x)).1.bestSol :=
  process_inv_dedup Phi opt Sol hPhiMono st N r x hinv hr hx hcut

/-- `process_inv` for both fringes at once -/
theorem process_inv_any (dedup : Bool) (hmono : PhiMono Phi)
    (st : SeqSt S) (N : SubP S) (r x : DDOut S)
    (hinv : Inv Phi opt Sol (N :: st.fringe) st.bestLb st.bestSol)
    (hr : CompileOk Phi opt Sol N st.bestLb r)
    (hx : CompileOk Phi opt Sol N (st.updateBest r).bestLb x)
    (hcut : x.isExact = false → CutsetOk Phi opt N (st.updateBest r).bestLb x) :
    Inv Phi opt Sol (st.process dedup N true (.ok r) (.ok x)).1.fringe
      (st.process dedup N true (.ok r) (.ok x)).1.bestLb (st.process dedup N true (.ok r) (.ok x)).1.bestSol := by
  cases dedup
  · exact C01.process_inv Phi opt Sol hmono.ub_irrel st N r x hinv hr hx hcut
  · exact process_inv_dedup Phi opt Sol hmono st N r x hinv hr hx hcut

end

/-- **`process_inv_dedup_potential`**: the instance the solver model uses — `Phi c` is the value so
    far plus the potential `H depth state` of the best completion; no hypothesis on `Phi` is left -/
theorem process_inv_dedup_potential (H : Nat → S → EInt) (opt : Int) (Sol : List Dec → Int → Prop)
    (st : SeqSt S) (N : SubP S) (r x : DDOut S)
    (hinv : Inv (fun c : SubP S => (H c.depth c.state).addI c.value) opt Sol (N :: st.fringe) st.bestLb st.bestSol)
    (hr : CompileOk (fun c : SubP S => (H c.depth c.state).addI c.value) opt Sol N st.bestLb r)
    (hx : CompileOk (fun c : SubP S => (H c.depth c.state).addI c.value) opt Sol N (st.updateBest r).bestLb x)
    (hcut : x.isExact = false →
      CutsetOk (fun c : SubP S => (H c.depth c.state).addI c.value) opt N (st.updateBest r).bestLb x) :
    Inv (fun c : SubP S => (H c.depth c.state).addI c.value) opt Sol
      (st.process true N true (.ok r) (.ok x)).1.fringe
      (st.process true N true (.ok r) (.ok x)).1.bestLb (st.process true N true (.ok r) (.ok x)).1.bestSol :=
  process_inv_dedup _ opt Sol (phiMono_of_potential H) st N r x hinv hr hx hcut

/-! ## C05 / C19 with the duplicate-free fringe -/

/-- **C19 for either fringe**: over one turn of the loop (pop of `N`, then `process_one_node`) the reported upper bound —
    the running minimum of the popped bounds — does not increase, and the incumbent does not decrease.  (Replaces the
    pre-fix `process_below_any` / `next_pop_le_dedup`: "everything open stays below the bound of the node in hand" is false
    for the repaired solver, whose cut-set nodes keep the bound of their own diagram.) -/
theorem turn_ub_le_any (dedup : Bool) (st : SeqSt S) (rest : List (SubP S)) (N : SubP S) (me : Bool) (r x : DDRes S) :
    (({ st.afterPop N with fringe := rest } : SeqSt S).process dedup N me r x).1.bestUb ≤ st.bestUb ∧
    st.bestLb ≤ (({ st.afterPop N with fringe := rest } : SeqSt S).process dedup N me r x).1.bestLb := by
  refine ⟨C05.turn_ub_le dedup st rest N me r x, ?_⟩
  have h := C05.process_lb_mono dedup ({ st.afterPop N with fringe := rest } : SeqSt S) N me r x
  have e : ({ st.afterPop N with fringe := rest } : SeqSt S).bestLb = st.bestLb := by
    unfold SeqSt.afterPop; split <;> rfl
  omega

/-- a `process_one_node` that is cut off does not look at the kind of fringe -/
theorem process_cutoff_dedup_irrel (dedup : Bool) (st : SeqSt S) (N : SubP S) (me : Bool) (r x : DDRes S)
    (h : r = .cutoff ∨ ∃ r0, r = .ok r0 ∧ (r0.isExact = true ∨ x = .cutoff)) :
    st.process dedup N me r x = st.process false N me r x := by
  unfold SeqSt.process
  rcases h with rfl | ⟨r0, rfl, h | rfl⟩
  · rfl
  · simp only [h, if_true]
  · rfl

section
variable (Phi : SubP S → EInt) (opt : Int) (Sol : List Dec → Int → Prop)

/-- `C05.cutoff_bounds_restricted` for either fringe -/
theorem cutoff_bounds_restricted_any (dedup : Bool) (st : SeqSt S) (N : SubP S) (x : DDRes S)
    (ub0 : Int) (hinv : Inv Phi opt Sol (N :: st.fringe) st.bestLb st.bestSol) (hmax : C05.Below st.fringe N)
    (hub : st.bestUb = min ub0 N.ub) (h0 : st.bestLb ≤ ub0 ∧ opt ≤ ub0) (hnp : ¬ N.ub ≤ st.bestLb) :
    let st' := (st.process dedup N true .cutoff x).1
    st'.abort = true ∧ st'.bestLb ≤ opt ∧ opt ≤ st'.bestUb ∧ st'.bestLb ≤ st'.bestUb ∧
      (∀ p, st'.bestSol = some p → Sol p st'.bestLb) := by
  rw [process_cutoff_dedup_irrel dedup st N true .cutoff x (Or.inl rfl)]
  exact C05.cutoff_bounds_restricted Phi opt Sol st N x ub0 hinv hmax hub h0 hnp

/-- `C05.cutoff_bounds_relaxed` for either fringe -/
theorem cutoff_bounds_relaxed_any (dedup : Bool) (st : SeqSt S) (N : SubP S) (r : DDOut S)
    (ub0 : Int) (hinv : Inv Phi opt Sol (N :: st.fringe) st.bestLb st.bestSol) (hmax : C05.Below st.fringe N)
    (hr : CompileOk Phi opt Sol N st.bestLb r) (hre : r.isExact = false)
    (hub : st.bestUb = min ub0 N.ub) (h0 : st.bestLb ≤ ub0 ∧ opt ≤ ub0) (hnp : ¬ N.ub ≤ st.bestLb) :
    let st' := (st.process dedup N true (.ok r) .cutoff).1
    st'.abort = true ∧ st'.bestLb ≤ opt ∧ opt ≤ st'.bestUb ∧ st'.bestLb ≤ st'.bestUb ∧
      (∀ p, st'.bestSol = some p → Sol p st'.bestLb) := by
  rw [process_cutoff_dedup_irrel dedup st N true (.ok r) .cutoff (Or.inr ⟨r, rfl, Or.inr rfl⟩)]
  exact C05.cutoff_bounds_relaxed Phi opt Sol st N r ub0 hinv hmax hr hre hub h0 hnp

end
end Ddo.C01b
