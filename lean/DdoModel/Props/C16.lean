import DdoModel.Proofs.SpecUtil
import DdoModel.Examples.Knapsack
import DdoModel.Examples.Misp
import DdoModel.Examples.Max2sat
import DdoModel.Examples.Mcp
import DdoModel.Examples.Lcs
import DdoModel.Examples.Golomb
import DdoModel.Examples.Psp
import DdoModel.Examples.Sop
import DdoModel.Examples.Tsptw
import DdoModel.Examples.Srflp
import DdoModel.Examples.Talentsched
import DdoModel.Examples.Alp
/-! # C16 — adequacy of the executable example specifications

The differential harness compares what the twelve `ddo` example programs print with the value of the
executable specifications `DdoModel/Examples/*.lean`.  Those specifications are exhaustive enumerations; this
file ties each of them to a DECLARATIVE statement of the optimisation problem:

  `… .best inst = some v  ↔  IsOpt… inst v`

where `IsOpt… inst v` says, without any reference to the enumeration, "some feasible solution has objective `v`
and no feasible solution has a better objective" (`SpecUtil.IsMaxOf` / `SpecUtil.IsMinOf` over a plain
`Feasible` predicate and an objective function written from the problem statement; both live in a namespace
`<Name>D`).  The enumeration lemmas are in `DdoModel/Proofs/SpecUtil.lean`.

| example     | theorem                                               | solutions (declarative)                         |
|-------------|-------------------------------------------------------|-------------------------------------------------|
| knapsack    | `knapsack_spec_adequate`, `knapsack_spec_adequate_idx` | sub-lists of the items / sets of item indices   |
| misp        | `misp_spec_adequate`, `misp_spec_ne_none`             | `S ⊆ {1…n}`, no edge inside `S`                 |
| mcp         | `mcp_spec_adequate`, `mcp_spec_ne_none`               | sides `S ⊆ {1…n}`, weight of the cut edges      |
| max2sat     | `max2sat_spec_adequate(_wf)`, `max2sat_spec_ne_none`  | truth assignments, weight of satisfied clauses  |
| golomb      | `golomb_spec_adequate`, `golomb_spec_ne_none`, `golomb_specFromTokens` | `0 = m₁ < … < mₙ`, differences distinct |
| lcs         | `lcs_spec_adequate`, `lcs_spec_none`                  | common subsequences (`List.Sublist`)            |
| sop         | `sop_spec_adequate`, `sop_spec_feasible/_infeasible`  | permutations `0 … n-1` respecting precedences   |
| srflp       | `srflp_spec_adequate`                                 | permutations, Σ flow × centre distance          |
| talentsched | `talentsched_spec_adequate`                           | permutations, pay between first and last scene  |
| psp         | `psp_spec_adequate`, `psp_spec_feasible/_infeasible`  | plans with non-negative stock, zero at the end  |
| tsptw       | `tsptw_spec_adequate`, `tsptw_spec_feasible/_infeasible` | timed tours respecting the windows           |
| alp         | `alp_spec_adequate`, `alp_spec_infeasible`, `alp_spec_feasible` | runway + time per aircraft, separated (greedy times proved dominant) |

Finding recorded here (the specifications are frozen): `Sop.respects` ignores a `-1` on the DIAGONAL of the
matrix ("job `i` before itself"), whereas the problem statement read literally — and the `sop` program, whose
reader makes `i` its own predecessor — then has no solution; hence the hypothesis `hdiag` of
`sop_spec_adequate` and the `example` after it.  The instance generator never writes such a matrix. -/
namespace Ddo.C16
open Ddo.Examples Ddo.Examples.Util Ddo.SpecUtil

/-! ## knapsack

Items are pairs `(profit, weight)`.  A solution is a sub-multiset of the items, represented as a sub-list
(`List.Sublist`: items kept in file order — the order is irrelevant for the sums).  It is feasible when its
total weight is at most the capacity; its objective is its total profit. -/
namespace KnapsackD

def weight (s : List (Int × Nat)) : Nat := (s.map (·.2)).sum
def profit (s : List (Int × Nat)) : Int := (s.map (·.1)).sum

def Feasible (cap : Nat) (items s : List (Int × Nat)) : Prop := s.Sublist items ∧ weight s ≤ cap

end KnapsackD

def IsOptKnapsack (cap : Nat) (items : List (Int × Nat)) (v : Int) : Prop :=
  IsMaxOf (KnapsackD.Feasible cap items) KnapsackD.profit v

theorem knapsack_best_isOpt (cap : Nat) (items : List (Int × Nat)) :
    IsOptKnapsack cap items (Knapsack.best cap items) := by
  induction items generalizing cap with
  | nil =>
    refine ⟨⟨[], ⟨List.Sublist.slnil, Nat.zero_le _⟩, rfl⟩, ?_⟩
    rintro s ⟨hs, _⟩
    have : s = [] := List.sublist_nil.mp hs
    subst this; simp [KnapsackD.profit, Knapsack.best]
  | cons it rest ih =>
    obtain ⟨p, w⟩ := it
    obtain ⟨⟨s0, ⟨hs0, hw0⟩, hp0⟩, hub0⟩ := ih cap
    have hcons : ∀ s, KnapsackD.Feasible cap ((p, w) :: rest) s →
        (KnapsackD.Feasible cap rest s) ∨
        (w ≤ cap ∧ ∃ s', s = (p, w) :: s' ∧ KnapsackD.Feasible (cap - w) rest s') := by
      rintro s ⟨hs, hw⟩
      cases hs with
      | cons _ h => exact Or.inl ⟨h, hw⟩
      | cons_cons _ h =>
        rename_i s'
        simp only [KnapsackD.weight, List.map_cons, List.sum_cons] at hw
        exact Or.inr ⟨by omega, s', rfl, h, by simp only [KnapsackD.weight]; omega⟩
    simp only [Knapsack.best]
    by_cases hwc : w ≤ cap
    · simp only [hwc, if_true]
      obtain ⟨⟨s1, ⟨hs1, hw1⟩, hp1⟩, hub1⟩ := ih (cap - w)
      constructor
      · by_cases hle : Knapsack.best cap rest ≤ p + Knapsack.best (cap - w) rest
        · refine ⟨(p, w) :: s1, ⟨hs1.cons_cons _, ?_⟩, ?_⟩
          · simp only [KnapsackD.weight, List.map_cons, List.sum_cons] at hw1 ⊢; omega
          · simp only [KnapsackD.profit, List.map_cons, List.sum_cons] at hp1 ⊢; omega
        · exact ⟨s0, ⟨hs0.cons _, hw0⟩, by omega⟩
      · intro s hs
        rcases hcons s hs with h | ⟨_, s', rfl, h⟩
        · have := hub0 s h; omega
        · have := hub1 s' h
          simp only [KnapsackD.profit, List.map_cons, List.sum_cons] at this ⊢; omega
    · simp only [hwc, if_false]
      refine ⟨⟨s0, ⟨hs0.cons _, hw0⟩, hp0⟩, ?_⟩
      intro s hs
      rcases hcons s hs with h | ⟨h, _⟩
      · exact hub0 s h
      · exact absurd h hwc

/-- **knapsack**: the specification returns `v` iff `v` is the largest total profit of a sub-multiset of the
    items whose total weight fits the capacity (it is a total function: such a `v` always exists) -/
theorem knapsack_spec_adequate (cap : Nat) (items : List (Int × Nat)) (v : Int) :
    Knapsack.best cap items = v ↔ IsOptKnapsack cap items v := by
  constructor
  · rintro rfl; exact knapsack_best_isOpt cap items
  · intro h; exact (knapsack_best_isOpt cap items).unique h

namespace KnapsackD

/-- total weight / profit of the items whose index is selected by `sel` (`items.zipIdx` pairs every item with
    its index) -/
def weightSel (items : List (Int × Nat)) (sel : Nat → Bool) : Nat :=
  (items.zipIdx.map fun p => if sel p.2 then p.1.2 else 0).sum
def profitSel (items : List (Int × Nat)) (sel : Nat → Bool) : Int :=
  (items.zipIdx.map fun p => if sel p.2 then p.1.1 else 0).sum

end KnapsackD

/-- **knapsack**, solutions as SETS OF ITEM INDICES: the specification returns the largest total profit of a set
    of items whose total weight fits the capacity -/
theorem knapsack_spec_adequate_idx (cap : Nat) (items : List (Int × Nat)) (v : Int) :
    Knapsack.best cap items = v ↔
      IsMaxOf (fun sel : Nat → Bool => KnapsackD.weightSel items sel ≤ cap) (KnapsackD.profitSel items) v := by
  rw [knapsack_spec_adequate, IsOptKnapsack]
  apply IsMaxOf.transfer
  · rintro s ⟨hs, hw⟩
    obtain ⟨sel, rfl⟩ := exists_pickIdx_of_sublist hs
    refine ⟨sel, ?_, ?_⟩
    · rw [KnapsackD.weight, natSum_map_pickIdx] at hw; exact hw
    · rw [KnapsackD.profit, sum_map_pickIdx]; rfl
  · intro sel hw
    refine ⟨pickIdx sel items, ⟨pickIdx_sublist sel items, ?_⟩, ?_⟩
    · rw [KnapsackD.weight, natSum_map_pickIdx]; exact hw
    · rw [KnapsackD.profit, sum_map_pickIdx]; rfl

/-- the instance of finding D10 (`KNOWN_FINDINGS.txt`): 4 items, capacity 3, optimum 3 -/
example : Knapsack.specFromTokens [4, 3, 2, 2, 49, 49, 2, 2, 3, 3] = some 3 := by decide

/-! ## misp (maximum weight independent set)

A solution is a set of vertices `S ⊆ {1 … n}`, represented by its characteristic function `Int → Bool`; it is
feasible when no edge has both end points in `S` (so a vertex with a self-loop is in no feasible set); its
objective is the total weight of its members. -/
namespace MispD

/-- `S` (a Boolean-valued set of vertices) is an independent set of the graph on vertices `1 … n` -/
def Feasible (n : Nat) (edges : List (Int × Int)) (S : Int → Bool) : Prop :=
  (∀ x, S x = true → 1 ≤ x ∧ x ≤ n) ∧ ∀ u v, (u, v) ∈ edges → ¬ (S u = true ∧ S v = true)

/-- total weight of `S`: `weights.zipIdx` pairs the weight of vertex `i + 1` with the index `i` -/
def weight (weights : List Int) (S : Int → Bool) : Int :=
  (weights.zipIdx.map fun (w, i) => if S ((i : Int) + 1) then w else 0).sum

end MispD

theorem misp_independent_iff (edges : List (Int × Int)) (s : List Int) :
    Misp.independent edges s = true ↔
      ∀ u v, (u, v) ∈ edges → ¬ (s.contains u = true ∧ s.contains v = true) := by
  simp only [Misp.independent, List.all_eq_true]
  constructor
  · rintro h u v huv ⟨hu, hv⟩; have := h (u, v) huv; dsimp only at this; rw [hu, hv] at this; exact absurd this (by decide)
  · rintro h ⟨u, v⟩ huv
    have := h u v huv
    cases hu : s.contains u <;> cases hv : s.contains v <;> simp_all

theorem misp_vertices (weights : List Int) :
    (oneTo weights.length).zip weights = weights.zipIdx.map fun (w, i) => ((i : Int) + 1, w) := by
  apply List.ext_getElem
  · simp [length_oneTo]
  · intro i h1 h2
    simp [oneTo]

theorem misp_map_fst (weights : List Int) :
    ((oneTo weights.length).zip weights).map (·.1) = oneTo weights.length :=
  List.map_fst_zip (by simp [length_oneTo])

theorem misp_weight_filter (weights : List Int) (S : Int → Bool) :
    sum ((((oneTo weights.length).zip weights).filter fun p => S p.1).map (·.2)) = MispD.weight weights S := by
  rw [sum_eq, sum_map_filter, misp_vertices, List.map_map]
  rfl

def IsOptMisp (weights : List Int) (edges : List (Int × Int)) (v : Int) : Prop :=
  IsMaxOf (MispD.Feasible weights.length edges) (MispD.weight weights) v

theorem misp_values (weights : List Int) (edges : List (Int × Int)) (x : Int) :
    x ∈ (sublists ((oneTo weights.length).zip weights)).filterMap (fun s =>
          if Misp.independent edges (s.map (·.1)) then some (sum (s.map (·.2))) else none) ↔
      ∃ S, MispD.Feasible weights.length edges S ∧ MispD.weight weights S = x := by
  simp only [List.mem_filterMap, mem_sublists]
  constructor
  · rintro ⟨s, hs, hx⟩
    split at hx
    · rename_i hind
      simp only [Option.some.injEq] at hx
      have hfst : (s.map (·.1)).Sublist (oneTo weights.length) := misp_map_fst weights ▸ hs.map _
      refine ⟨fun x => (s.map (·.1)).contains x, ⟨?_, (misp_independent_iff _ _).mp hind⟩, ?_⟩
      · exact fun x hx => contains_of_sublist_oneTo hfst x hx
      · rw [← hx, ← misp_weight_filter]
        congr 2
        exact (sublist_eq_filter Prod.fst hs (by rw [misp_map_fst]; exact nodup_oneTo _)).symm
    · cases hx
  · rintro ⟨S, ⟨hS, hind⟩, rfl⟩
    refine ⟨((oneTo weights.length).zip weights).filter fun p => S p.1, List.filter_sublist, ?_⟩
    have hfst : (((oneTo weights.length).zip weights).filter fun p => S p.1).map (·.1)
        = (oneTo weights.length).filter S := by
      conv => rhs; rw [← misp_map_fst weights, List.filter_map]
      rfl
    rw [if_pos, misp_weight_filter]
    rw [misp_independent_iff, hfst]
    intro u v huv
    rw [contains_filter_oneTo hS, contains_filter_oneTo hS]
    exact hind u v huv

/-- **misp**: the specification returns `some v` iff `v` is the largest total weight of an independent set -/
theorem misp_spec_adequate (weights : List Int) (edges : List (Int × Int)) (v : Int) :
    Misp.best weights edges = some v ↔ IsOptMisp weights edges v :=
  maxOf_isMaxOf (misp_values weights edges) v

/-- the empty set is independent: the specification never returns `none` -/
theorem misp_spec_ne_none (weights : List Int) (edges : List (Int × Int)) :
    Misp.best weights edges ≠ none := by
  intro h
  refine (maxOf_none_iff (misp_values weights edges)).mp h ⟨fun _ => false, ?_, ?_⟩ <;> simp

/-- the instance of finding D7 (`KNOWN_FINDINGS.txt`): `p edge 3 1 / n 1 1 / n 2 -1 / n 3 2 / e 1 3`, optimum 2 -/
example : Misp.specFromTokens [3, 1, 1, -1, 2, 1, 3] = some 2 := by decide

/-! ## mcp (maximum cut)

A solution is a side `S ⊆ {1 … n}` of the bipartition `(S, V \\ S)`, as a characteristic function; every side is
feasible; the objective is the total weight of the edges with exactly one end point in `S` (parallel edges add
up, a self-loop is never cut). -/
namespace McpD

/-- a side `S` of the bipartition `(S, V \ S)` of the vertices `V = {1 … n}` -/
def Feasible (n : Nat) (S : Int → Bool) : Prop := ∀ x, S x = true → 1 ≤ x ∧ x ≤ n

/-- total weight of the edges `(u, v, w)` having exactly one end point in `S` -/
def cut (edges : List (Int × Int × Int)) (S : Int → Bool) : Int :=
  (edges.map fun (u, v, w) => if S u ≠ S v then w else 0).sum

end McpD

def IsOptMcp (n : Nat) (edges : List (Int × Int × Int)) (v : Int) : Prop :=
  IsMaxOf (McpD.Feasible n) (McpD.cut edges) v

theorem mcp_cutWeight (edges : List (Int × Int × Int)) (s : List Int) :
    Mcp.cutWeight edges s = McpD.cut edges (fun x => s.contains x) := by
  simp only [Mcp.cutWeight, McpD.cut, sum_eq, bne_iff_ne]

theorem mcp_values (n : Nat) (edges : List (Int × Int × Int)) (x : Int) :
    x ∈ (sublists (oneTo n)).map (Mcp.cutWeight edges) ↔
      ∃ S, McpD.Feasible n S ∧ McpD.cut edges S = x := by
  simp only [List.mem_map, mem_sublists]
  constructor
  · rintro ⟨s, hs, rfl⟩
    exact ⟨fun x => s.contains x, fun x hx => contains_of_sublist_oneTo hs x hx, (mcp_cutWeight _ _).symm⟩
  · rintro ⟨S, hS, rfl⟩
    refine ⟨(oneTo n).filter S, List.filter_sublist, ?_⟩
    rw [mcp_cutWeight]
    congr 1
    funext x
    exact contains_filter_oneTo hS x

/-- **mcp**: the specification returns `some v` iff `v` is the largest weight of a cut `(S, V \ S)` -/
theorem mcp_spec_adequate (n : Nat) (edges : List (Int × Int × Int)) (v : Int) :
    Mcp.best n edges = some v ↔ IsOptMcp n edges v :=
  maxOf_isMaxOf (mcp_values n edges) v

/-- `S = ∅` is a side: the specification never returns `none` -/
theorem mcp_spec_ne_none (n : Nat) (edges : List (Int × Int × Int)) : Mcp.best n edges ≠ none := by
  intro h
  exact (maxOf_none_iff (mcp_values n edges)).mp h ⟨fun _ => false, by simp [McpD.Feasible]⟩

/-- a triangle with weights 1, 2, 3 and a pendant edge of weight -4: the best cut takes the edges 2 and 3 -/
example : Mcp.specFromTokens [4, 4, 1, 2, 1, 2, 3, 2, 1, 3, 3, 3, 4, -4] = some 5 := by decide

/-! ## max2sat (weighted MAX-2-SAT)

A solution is a truth assignment of the variables `1 … n`; every assignment is feasible; the objective is the
total weight of the clauses `x ∨ y` it satisfies (repeated clauses add up, tautologies count). -/
namespace Max2satD

/-- a truth assignment of the variables `1 … n` (as a function on all integers that is `false` outside `1 … n`,
    so that assignments differing only outside the variables are not counted twice — harmless, see
    `max2sat_spec_adequate_wf`) -/
def Feasible (n : Nat) (a : Int → Bool) : Prop := ∀ x, a x = true → 1 ≤ x ∧ x ≤ n

/-- the literal `+v` holds when `v` is true, the literal `-v` when `v` is false -/
def holds (a : Int → Bool) (l : Int) : Prop := (0 < l ∧ a l = true) ∨ (l ≤ 0 ∧ a (-l) = false)

instance (a : Int → Bool) (l : Int) : Decidable (holds a l) := by unfold holds; infer_instance

/-- total weight of the clauses `(w, x, y)` = `x ∨ y` satisfied by `a` -/
def satWeight (clauses : List (Int × Int × Int)) (a : Int → Bool) : Int :=
  (clauses.map fun (w, x, y) => if holds a x ∨ holds a y then w else 0).sum

end Max2satD

def IsOptMax2sat (n : Nat) (clauses : List (Int × Int × Int)) (v : Int) : Prop :=
  IsMaxOf (Max2satD.Feasible n) (Max2satD.satWeight clauses) v

theorem max2sat_litTrue (s : List Int) (l : Int) :
    Max2sat.litTrue s l = true ↔ Max2satD.holds (fun x => s.contains x) l := by
  unfold Max2sat.litTrue Max2satD.holds
  by_cases h : l > 0
  · simp [h]; omega
  · simp [h]; omega

theorem max2sat_satisfiedWeight (clauses : List (Int × Int × Int)) (s : List Int) :
    Max2sat.satisfiedWeight clauses s = Max2satD.satWeight clauses (fun x => s.contains x) := by
  simp only [Max2sat.satisfiedWeight, Max2satD.satWeight, sum_eq, Bool.or_eq_true, max2sat_litTrue]

theorem max2sat_values (n : Nat) (clauses : List (Int × Int × Int)) (x : Int) :
    x ∈ (sublists (oneTo n)).map (Max2sat.satisfiedWeight clauses) ↔
      ∃ a, Max2satD.Feasible n a ∧ Max2satD.satWeight clauses a = x := by
  simp only [List.mem_map, mem_sublists]
  constructor
  · rintro ⟨s, hs, rfl⟩
    exact ⟨fun x => s.contains x, fun x hx => contains_of_sublist_oneTo hs x hx,
      (max2sat_satisfiedWeight _ _).symm⟩
  · rintro ⟨a, ha, rfl⟩
    refine ⟨(oneTo n).filter a, List.filter_sublist, ?_⟩
    rw [max2sat_satisfiedWeight]
    congr 1
    funext x
    exact contains_filter_oneTo ha x

/-- **max2sat**: the specification returns `some v` iff `v` is the largest total weight of the clauses
    satisfied by a truth assignment of the variables `1 … n` -/
theorem max2sat_spec_adequate (n : Nat) (clauses : List (Int × Int × Int)) (v : Int) :
    Max2sat.best n clauses = some v ↔ IsOptMax2sat n clauses v :=
  maxOf_isMaxOf (max2sat_values n clauses) v

theorem max2sat_spec_ne_none (n : Nat) (clauses : List (Int × Int × Int)) :
    Max2sat.best n clauses ≠ none := by
  intro h
  exact (maxOf_none_iff (max2sat_values n clauses)).mp h ⟨fun _ => false, by simp [Max2satD.Feasible]⟩

/-- the instance of finding D8 (`KNOWN_FINDINGS.txt`): `p wcnf 3 3 / 2 2 3 0 / 1 1 0 / 1 -2 -1 0`, optimum 4 -/
example : Max2sat.specFromTokens [3, 3, 2, 2, 3, 1, 1, 1, 1, -2, -1] = some 4 := by decide

/-- every literal is `±v` for a variable `v ∈ 1 … n` (what `Max2sat.specFromTokens` checks) -/
def Max2satD.WellFormed (n : Nat) (clauses : List (Int × Int × Int)) : Prop :=
  ∀ w x y, (w, x, y) ∈ clauses → (x ≠ 0 ∧ -(n : Int) ≤ x ∧ x ≤ n) ∧ (y ≠ 0 ∧ -(n : Int) ≤ y ∧ y ≤ n)

theorem max2sat_restrict {n : Nat} {clauses : List (Int × Int × Int)}
    (hwf : Max2satD.WellFormed n clauses) (a : Int → Bool) :
    Max2satD.satWeight clauses (fun x => a x && decide (1 ≤ x ∧ x ≤ (n : Int))) =
      Max2satD.satWeight clauses a := by
  unfold Max2satD.satWeight
  congr 1
  apply List.map_congr_left
  rintro ⟨w, x, y⟩ hc
  obtain ⟨⟨hx0, hx1, hx2⟩, ⟨hy0, hy1, hy2⟩⟩ := hwf w x y hc
  have key : ∀ l : Int, l ≠ 0 → -(n : Int) ≤ l → l ≤ n →
      (Max2satD.holds (fun x => a x && decide (1 ≤ x ∧ x ≤ (n : Int))) l ↔ Max2satD.holds a l) := by
    intro l h0 h1 h2
    unfold Max2satD.holds
    by_cases hl : 0 < l
    · have : (1 ≤ l ∧ l ≤ (n : Int)) := by omega
      have hl' : ¬ l ≤ 0 := by omega
      simp [this, hl, hl']
    · have : (1 ≤ -l ∧ -l ≤ (n : Int)) := by omega
      have hl' : l ≤ 0 := by omega
      simp [this, hl, hl']
  simp only [key x hx0 hx1 hx2, key y hy0 hy1 hy2]

/-- **max2sat**, on well-formed instances: the optimum over ALL assignments `Int → Bool` -/
theorem max2sat_spec_adequate_wf (n : Nat) (clauses : List (Int × Int × Int))
    (hwf : Max2satD.WellFormed n clauses) (v : Int) :
    Max2sat.best n clauses = some v ↔ IsMaxOf (fun _ : Int → Bool => True) (Max2satD.satWeight clauses) v := by
  rw [max2sat_spec_adequate]
  constructor
  · rintro ⟨⟨a, _, ha⟩, hub⟩
    refine ⟨⟨a, trivial, ha⟩, fun b _ => ?_⟩
    rw [← max2sat_restrict hwf b]
    exact hub _ (fun x hx => of_decide_eq_true (Bool.and_eq_true _ _ ▸ hx).2)
  · rintro ⟨⟨a, _, ha⟩, hub⟩
    refine ⟨⟨_, fun x hx => ?_, (max2sat_restrict hwf a).trans ha⟩, fun b _ => hub b trivial⟩
    exact of_decide_eq_true (Bool.and_eq_true _ _ ▸ hx).2

/-! ## golomb (optimal Golomb ruler with `n` marks)

A solution is a list of `n` marks `0 = m_1 < … < m_n` whose pairwise differences are all distinct; the objective
(to be minimised) is the last mark.  `Golomb.shortest` searches the lengths `L < 2^(n-1)` in increasing order,
building rulers mark by mark in DEcreasing list order; the proof relates that search to the declarative
statement, and shows that the bound `2^(n-1)` loses nothing (`0, 1, 3, 7, …` is a Golomb ruler). -/
namespace GolombD

/-- all pairwise differences are distinct: two pairs of marks with the same difference are the same pair -/
def AllDiffsDistinct (marks : List Nat) : Prop :=
  ∀ a b c d, a ∈ marks → b ∈ marks → c ∈ marks → d ∈ marks → a < b → c < d → b - a = d - c → a = c ∧ b = d

/-- `marks` is a Golomb ruler with `n` marks `0 = m_1 < m_2 < … < m_n` -/
structure IsRuler (n : Nat) (marks : List Nat) : Prop where
  length : marks.length = n
  increasing : marks.Pairwise (· < ·)
  zero : marks.head? = some 0
  golomb : AllDiffsDistinct marks

/-- the length of a ruler is its last (= largest) mark -/
def rulerLength (marks : List Nat) : Nat := marks.getLast?.getD 0

end GolombD
open GolombD

theorem golomb_distinct (l : List Nat) : Golomb.distinct l = true ↔ l.Nodup := by
  induction l with
  | nil => simp [Golomb.distinct]
  | cons x xs ih => simp [Golomb.distinct, ih]

theorem golomb_diffs_dec (m : Nat) (rest : List Nat) (h : ∀ a ∈ rest, a < m) :
    Golomb.diffs (m :: rest) = rest.map (m - ·) ++ Golomb.diffs rest := by
  simp only [Golomb.diffs]
  congr 1
  apply List.map_congr_left
  intro a ha
  have := h a ha
  rw [if_pos (by omega)]

theorem golomb_mem_diffs {l : List Nat} (hl : l.Pairwise (· > ·)) {x : Nat} :
    x ∈ Golomb.diffs l ↔ ∃ a b, a ∈ l ∧ b ∈ l ∧ a < b ∧ x = b - a := by
  induction l with
  | nil => simp [Golomb.diffs]
  | cons m rest ih =>
    obtain ⟨hm, hrest⟩ := List.pairwise_cons.mp hl
    rw [golomb_diffs_dec m rest hm, List.mem_append, ih hrest, List.mem_map]
    constructor
    · rintro (⟨a, ha, rfl⟩ | ⟨a, b, ha, hb, hab, rfl⟩)
      · exact ⟨a, m, List.mem_cons_of_mem _ ha, List.mem_cons_self, hm a ha, rfl⟩
      · exact ⟨a, b, List.mem_cons_of_mem _ ha, List.mem_cons_of_mem _ hb, hab, rfl⟩
    · rintro ⟨a, b, ha, hb, hab, rfl⟩
      rcases List.mem_cons.mp hb with rfl | hb'
      · rcases List.mem_cons.mp ha with rfl | ha'
        · omega
        · exact Or.inl ⟨a, ha', rfl⟩
      · rcases List.mem_cons.mp ha with rfl | ha'
        · have := hm b hb'; omega
        · exact Or.inr ⟨a, b, ha', hb', hab, rfl⟩

theorem golomb_nodup_diffs {l : List Nat} (hl : l.Pairwise (· > ·)) :
    (Golomb.diffs l).Nodup ↔ AllDiffsDistinct l := by
  induction l with
  | nil => simp [Golomb.diffs, AllDiffsDistinct]
  | cons m rest ih =>
    obtain ⟨hm, hrest⟩ := List.pairwise_cons.mp hl
    rw [golomb_diffs_dec m rest hm, List.nodup_append, ih hrest]
    have hA : (rest.map (m - ·)).Nodup := by
      rw [List.nodup_iff_pairwise_ne, List.pairwise_map]
      refine List.Pairwise.imp_of_mem ?_ hrest
      intro a b ha hb hab
      have := hm a ha; have := hm b hb
      omega
    constructor
    · rintro ⟨_, hG, hdisj⟩ a b c d ha hb hc hd hab hcd he
      -- every mark of `m :: rest` below another mark is in `rest`
      have low : ∀ x y, x ∈ m :: rest → y ∈ m :: rest → x < y → x ∈ rest := by
        intro x y hx hy hxy
        rcases List.mem_cons.mp hx with rfl | hx
        · rcases List.mem_cons.mp hy with rfl | hy
          · omega
          · have := hm y hy; omega
        · exact hx
      have ha' := low a b ha hb hab
      have hc' := low c d hc hd hcd
      rcases List.mem_cons.mp hb with rfl | hb' <;> rcases List.mem_cons.mp hd with rfl | hd'
      · have := hm a ha'; have := hm c hc'; omega
      · exfalso
        exact hdisj (b - a) (List.mem_map.mpr ⟨a, ha', rfl⟩) (d - c)
          ((golomb_mem_diffs hrest).mpr ⟨c, d, hc', hd', hcd, rfl⟩) he
      · exfalso
        exact hdisj (d - c) (List.mem_map.mpr ⟨c, hc', rfl⟩) (b - a)
          ((golomb_mem_diffs hrest).mpr ⟨a, b, ha', hb', hab, rfl⟩) he.symm
      · exact hG a b c d ha' hb' hc' hd' hab hcd he
    · intro hG
      refine ⟨hA, ?_, ?_⟩
      · intro a b c d ha hb hc hd
        exact hG a b c d (List.mem_cons_of_mem _ ha) (List.mem_cons_of_mem _ hb)
          (List.mem_cons_of_mem _ hc) (List.mem_cons_of_mem _ hd)
      · intro x hx y hy hxy
        obtain ⟨a, ha, rfl⟩ := List.mem_map.mp hx
        obtain ⟨c, d, hc, hd, hcd, rfl⟩ := (golomb_mem_diffs hrest).mp hy
        have := hG a m c d (List.mem_cons_of_mem _ ha) List.mem_cons_self
          (List.mem_cons_of_mem _ hc) (List.mem_cons_of_mem _ hd) (hm a ha) hcd hxy
        have := hm d hd
        omega

theorem golomb_iff {l : List Nat} (hl : l.Pairwise (· > ·)) :
    Golomb.golomb l = true ↔ AllDiffsDistinct l := by
  rw [Golomb.golomb, golomb_distinct, golomb_nodup_diffs hl]

theorem golomb_allDiffs_mono {l l' : List Nat} (h : ∀ x ∈ l', x ∈ l) (hg : AllDiffsDistinct l) :
    AllDiffsDistinct l' :=
  fun a b c d ha hb hc hd => hg a b c d (h a ha) (h b hb) (h c hc) (h d hd)

/-- `canPlace L k marks`: the (decreasing) Golomb list `marks` can be extended by `k` larger marks `≤ L` -/
theorem golomb_canPlace (L k : Nat) (marks : List Nat) (hdec : marks.Pairwise (· > ·))
    (hg : AllDiffsDistinct marks) :
    Golomb.canPlace L k marks = true ↔
      ∃ ext : List Nat, ext.length = k ∧ (ext ++ marks).Pairwise (· > ·) ∧ (∀ m ∈ ext, m ≤ L) ∧
        AllDiffsDistinct (ext ++ marks) := by
  induction k generalizing marks with
  | zero =>
    simp only [Golomb.canPlace, true_iff]
    exact ⟨[], rfl, hdec, by simp, hg⟩
  | succ k ih =>
    simp only [Golomb.canPlace, List.any_eq_true, List.mem_range, Bool.and_eq_true, List.all_eq_true,
      decide_eq_true_eq]
    constructor
    · rintro ⟨m, hmL, ⟨hall, hgol⟩, hcp⟩
      have hdec' : (m :: marks).Pairwise (· > ·) := List.pairwise_cons.mpr ⟨fun a ha => hall a ha, hdec⟩
      obtain ⟨ext, hlen, hd, hle, hG⟩ := (ih (m :: marks) hdec' ((golomb_iff hdec').mp hgol)).mp hcp
      refine ⟨ext ++ [m], by simp [hlen], by simpa using hd, ?_, by simpa using hG⟩
      intro x hx
      rcases List.mem_append.mp hx with hx | hx
      · exact hle x hx
      · simp at hx; omega
    · rintro ⟨ext, hlen, hd, hle, hG⟩
      rcases List.eq_nil_or_concat ext with rfl | ⟨ext', m, rfl⟩
      · simp at hlen
      · rw [List.concat_eq_append] at hlen hd hle hG
        have e : ext' ++ [m] ++ marks = ext' ++ m :: marks := by simp
        rw [e] at hd hG
        have hdec' : (m :: marks).Pairwise (· > ·) := (List.pairwise_append.mp hd).2.1
        have hG' : AllDiffsDistinct (m :: marks) := golomb_allDiffs_mono (fun x hx => List.mem_append_right _ hx) hG
        refine ⟨m, ?_, ⟨fun a ha => (List.pairwise_cons.mp hdec').1 a ha, (golomb_iff hdec').mpr hG'⟩, ?_⟩
        · have := hle m (by simp); omega
        · refine (ih (m :: marks) hdec' hG').mpr ⟨ext', by simpa using hlen, hd, ?_, hG⟩
          exact fun x hx => hle x (List.mem_append_left _ hx)

/-- the search predicate of `Golomb.shortest`: there is a ruler with `n` marks of length at most `L` -/
theorem golomb_canPlace_root (n : Nat) (hn : 1 ≤ n) (L : Nat) :
    Golomb.canPlace L (n - 1) [0] = true ↔ ∃ marks, IsRuler n marks ∧ rulerLength marks ≤ L := by
  have h0 : AllDiffsDistinct [0] := by
    intro a b c d ha hb _ _ hab
    simp only [List.mem_singleton] at ha hb
    omega
  rw [golomb_canPlace L (n - 1) [0] (by simp) h0]
  constructor
  · rintro ⟨ext, hlen, hd, hle, hG⟩
    refine ⟨(ext ++ [0]).reverse, ⟨by simp [hlen]; omega, ?_, by simp, ?_⟩, ?_⟩
    · exact List.pairwise_reverse.mpr hd
    · exact golomb_allDiffs_mono (fun x hx => List.mem_reverse.mp hx) hG
    · simp only [rulerLength, List.getLast?_reverse]
      cases ext with
      | nil => simp
      | cons x ext' => simpa using hle x List.mem_cons_self
  · rintro ⟨marks, ⟨hlen, hinc, hzero, hG⟩, hL⟩
    have hlast : marks.reverse.getLast? = some 0 := by rw [List.getLast?_reverse]; exact hzero
    obtain ⟨ext, hext⟩ := List.getLast?_eq_some_iff.mp hlast
    have hdec : (ext ++ [0]).Pairwise (· > ·) := by
      rw [← hext]; exact List.pairwise_reverse.mpr (by simpa using hinc)
    refine ⟨ext, ?_, hdec, ?_, ?_⟩
    · have : (ext ++ [0]).length = n := by rw [← hext]; simpa using hlen
      simp at this; omega
    · intro m hm
      have h1 := le_head_of_dec hdec (List.mem_append_left _ hm)
      have h2 : (ext ++ [0]).head?.getD 0 = rulerLength marks := by
        rw [← hext, List.head?_reverse]; rfl
      omega
    · exact golomb_allDiffs_mono (fun x hx => List.mem_reverse.mp (hext ▸ hx)) hG

def IsOptGolomb (n : Nat) (L : Nat) : Prop :=
  IsMinOf (IsRuler n) (fun marks => (rulerLength marks : Int)) L

theorem golomb_shortest_iff (n : Nat) (hn : 1 ≤ n) (L : Nat) :
    Golomb.shortest n = some L ↔ IsOptGolomb n L ∧ L < 2 ^ (n - 1) := by
  rw [Golomb.shortest, find?_range_eq_some]
  constructor
  · rintro ⟨hN, hp, hmin⟩
    obtain ⟨marks, hr, hlen⟩ := (golomb_canPlace_root n hn L).mp hp
    have key : ∀ marks', IsRuler n marks' → L ≤ rulerLength marks' := by
      intro marks' hr'
      have hp' := (golomb_canPlace_root n hn (rulerLength marks')).mpr ⟨marks', hr', Nat.le_refl _⟩
      refine Nat.le_of_not_lt fun hlt => ?_
      have := hmin _ hlt
      simp [hp'] at this
    have := key marks hr
    refine ⟨⟨⟨marks, hr, by simp only []; omega⟩, fun m hm => ?_⟩, hN⟩
    have := key m hm
    simp only []; omega
  · rintro ⟨⟨⟨marks, hr, hlen⟩, hlb⟩, hN⟩
    simp only [] at hlen
    refine ⟨hN, (golomb_canPlace_root n hn L).mpr ⟨marks, hr, by omega⟩, fun j hj => ?_⟩
    cases hp : Golomb.canPlace j (n - 1) [0] with
    | false => rfl
    | true =>
      obtain ⟨m, hm, hmj⟩ := (golomb_canPlace_root n hn j).mp hp
      have := hlb m hm
      simp only [] at this; omega

/-- the ruler `0, 1, 3, 7, …, 2^(n-1) - 1` -/
def GolombD.powRuler (n : Nat) : List Nat := (List.range n).map fun i => 2 ^ i - 1

theorem two_pow_double {x y : Nat} (h : x < y) : 2 * 2 ^ x ≤ 2 ^ y := by
  have := Nat.pow_le_pow_right (n := 2) (by omega) (show x + 1 ≤ y by omega)
  rw [Nat.pow_succ] at this; omega

theorem two_pow_lt_imp {x y : Nat} (h : 2 ^ x - 1 < 2 ^ y - 1) : x < y := by
  refine Nat.lt_of_not_le fun hle => ?_
  have := Nat.pow_le_pow_right (n := 2) (by omega) hle
  omega

theorem golomb_powRuler (n : Nat) (hn : 1 ≤ n) :
    IsRuler n (powRuler n) ∧ rulerLength (powRuler n) = 2 ^ (n - 1) - 1 := by
  refine ⟨⟨by simp [powRuler], ?_, ?_, ?_⟩, ?_⟩
  · rw [powRuler, List.pairwise_map]
    refine List.Pairwise.imp ?_ List.pairwise_lt_range
    intro i j hij
    have := two_pow_double hij
    have := Nat.two_pow_pos i
    omega
  · obtain ⟨k, rfl⟩ : ∃ k, n = k + 1 := ⟨n - 1, by omega⟩
    simp [powRuler, List.range_succ_eq_map]
  · intro a b c d ha hb hc hd hab hcd he
    simp only [powRuler, List.mem_map, List.mem_range] at ha hb hc hd
    obtain ⟨i, _, rfl⟩ := ha
    obtain ⟨j, _, rfl⟩ := hb
    obtain ⟨k, _, rfl⟩ := hc
    obtain ⟨l, _, rfl⟩ := hd
    have hij := two_pow_lt_imp hab
    have hkl := two_pow_lt_imp hcd
    have h1 := two_pow_double hij
    have h2 := two_pow_double hkl
    have := Nat.two_pow_pos i
    have := Nat.two_pow_pos k
    have hjl : j = l := by
      rcases Nat.lt_trichotomy j l with h | h | h
      · have := two_pow_double h; omega
      · exact h
      · have := two_pow_double h; omega
    subst hjl
    have hik : i = k := by
      rcases Nat.lt_trichotomy i k with h | h | h
      · have := two_pow_double h; omega
      · exact h
      · have := two_pow_double h; omega
    subst hik
    exact ⟨rfl, rfl⟩
  · obtain ⟨k, rfl⟩ : ∃ k, n = k + 1 := ⟨n - 1, by omega⟩
    simp [rulerLength, powRuler, List.range_succ]

/-- **golomb**: for `n ≥ 1`, the specification returns `some L` iff `L` is the smallest length (= last mark) of a
    Golomb ruler with `n` marks -/
theorem golomb_spec_adequate (n : Nat) (hn : 1 ≤ n) (L : Nat) :
    Golomb.shortest n = some L ↔ IsOptGolomb n L := by
  rw [golomb_shortest_iff n hn]
  refine ⟨fun h => h.1, fun h => ⟨h, ?_⟩⟩
  obtain ⟨hr, hlen⟩ := golomb_powRuler n hn
  have := h.2 _ hr
  have := Nat.two_pow_pos (n - 1)
  simp only [] at *
  omega

/-- the search always succeeds: `0, 1, 3, …, 2^(n-1) - 1` is a Golomb ruler -/
theorem golomb_spec_ne_none (n : Nat) (hn : 1 ≤ n) : Golomb.shortest n ≠ none := by
  intro h
  rw [Golomb.shortest, List.find?_eq_none] at h
  obtain ⟨hr, hlen⟩ := golomb_powRuler n hn
  have := Nat.two_pow_pos (n - 1)
  exact h (2 ^ (n - 1) - 1) (List.mem_range.mpr (by omega))
    ((golomb_canPlace_root n hn _).mpr ⟨_, hr, by omega⟩)

/-- what the program prints: minus the length, and it is the MAXIMUM of minus the length -/
theorem golomb_specFromTokens (n : Nat) (hn : 1 ≤ n) (v : Int) :
    Golomb.specFromTokens [(n : Int)] = some v ↔
      IsMaxOf (IsRuler n) (fun marks => -(rulerLength marks : Int)) v := by
  have hn' : ¬ ((n : Int) < 1) := by omega
  simp only [Golomb.specFromTokens, hn', if_false, Int.toNat_natCast]
  cases hs : Golomb.shortest n with
  | none => exact absurd hs (golomb_spec_ne_none n hn)
  | some L =>
    obtain ⟨⟨m, hm, hlen⟩, hlb⟩ := (golomb_spec_adequate n hn L).mp hs
    have hmax : IsMaxOf (IsRuler n) (fun marks => -(rulerLength marks : Int)) (-(L : Int)) := by
      refine ⟨⟨m, hm, by simp only [] at hlen ⊢; omega⟩, fun s hs => ?_⟩
      have := hlb s hs
      simp only [] at this ⊢; omega
    show some (-(L : Int)) = some v ↔ _
    simp only [Option.some.injEq]
    constructor
    · rintro rfl; exact hmax
    · intro h; exact hmax.unique h

/-- the values quoted in the header of `Examples/Golomb.lean`: `-11` for `n = 5` (`0 1 4 9 11`), `0` for `n = 1` -/
example : Golomb.specFromTokens [5] = some (-11) := by decide
example : Golomb.specFromTokens [1] = some 0 := by decide
example : Golomb.specFromTokens [4] = some (-6) := by decide

/-! ## lcs (longest common subsequence of `k ≥ 1` strings)

A solution is a string that is a subsequence (`List.Sublist`) of every input string; the objective is its length. -/
namespace LcsD

/-- `c` is a common subsequence: it can be obtained from EVERY input string by deleting characters -/
def Feasible (strings : List (List Int)) (c : List Int) : Prop := ∀ s ∈ strings, c.Sublist s

end LcsD

def IsOptLcs (strings : List (List Int)) (v : Int) : Prop :=
  IsMaxOf (LcsD.Feasible strings) (fun c => (c.length : Int)) v

theorem lcs_isSubseq (c y : List Int) : Lcs.isSubseq c y = true ↔ c.Sublist y := by
  fun_induction Lcs.isSubseq c y with
  | case1 => simp
  | case2 => simp
  | case3 x xs ys ih => simp [ih]
  | case4 x xs y ys hne ih =>
    rw [ih, List.sublist_cons_iff]
    constructor
    · exact Or.inl
    · rintro (h | ⟨r, hr, _⟩)
      · exact h
      · simp only [List.cons.injEq] at hr; exact absurd hr.1 hne

theorem lcs_values (first : List Int) (others : List (List Int)) (x : Int) :
    x ∈ (sublists first).filterMap (fun c =>
          if others.all (Lcs.isSubseq c) then some (c.length : Int) else none) ↔
      ∃ c, LcsD.Feasible (first :: others) c ∧ (c.length : Int) = x := by
  simp only [List.mem_filterMap, mem_sublists, LcsD.Feasible, List.forall_mem_cons]
  constructor
  · rintro ⟨c, hc, hx⟩
    split at hx
    · rename_i hall
      simp only [List.all_eq_true, lcs_isSubseq] at hall
      exact ⟨c, ⟨hc, hall⟩, by simpa using hx⟩
    · cases hx
  · rintro ⟨c, ⟨hc, hall⟩, rfl⟩
    refine ⟨c, hc, ?_⟩
    rw [if_pos]
    simpa only [List.all_eq_true, lcs_isSubseq] using hall

/-- **lcs**: on `k ≥ 1` strings the specification returns `some v` iff `v` is the largest length of a common
    subsequence of all the strings -/
theorem lcs_spec_adequate (strings : List (List Int)) (hne : strings ≠ []) (v : Int) :
    Lcs.best strings = some v ↔ IsOptLcs strings v := by
  cases strings with
  | nil => exact absurd rfl hne
  | cons first others => exact maxOf_isMaxOf (lcs_values first others) v

/-- the specification returns `none` only when there is no string at all (then every string is a common
    subsequence and there is no maximum); with `k ≥ 1` strings the empty string is a solution -/
theorem lcs_spec_none (strings : List (List Int)) : Lcs.best strings = none ↔ strings = [] := by
  cases strings with
  | nil => simp [Lcs.best]
  | cons first others =>
    simp only [reduceCtorEq, iff_false]
    intro h
    refine (maxOf_none_iff (lcs_values first others)).mp h ⟨[], ?_⟩
    intro s _; exact List.nil_sublist s

set_option maxRecDepth 100000 in
/-- the instance of the open finding on lcs (`KNOWN_FINDINGS.txt`): `acaaaa` / `caaaca`, optimum 5 (`caaaa`) -/
example : Lcs.specFromTokens [2, 2, 6, 0, 1, 0, 0, 0, 0, 6, 1, 0, 0, 0, 1, 0] = some 5 := by decide

/-! ## sop (sequential ordering problem)

A solution is a sequence containing every job `0 … n-1` exactly once, starting with job `0`, ending with job
`n-1`, in which `j` comes before `i` whenever `d i j = -1`; its cost (to be minimised) is the sum of `d a b` over
consecutive jobs `a, b`. -/
namespace SopD

/-- `seq` is a solution of the instance (`n` jobs, matrix `d`): it contains every job exactly once, starts with
    job `0`, ends with job `n - 1`, and `j` comes before `i` (`[j, i].Sublist seq`) whenever `d i j = -1` -/
structure Feasible (n : Nat) (d : Nat → Nat → Int) (seq : List Nat) : Prop where
  perm : seq.Perm (List.range n)
  first : seq.head? = some 0
  last : seq.getLast? = some (n - 1)
  prec : ∀ i j, i < n → j < n → d i j = -1 → [j, i].Sublist seq

/-- sum of `d a b` over the consecutive jobs `a, b` of the sequence -/
def cost (d : Nat → Nat → Int) (seq : List Nat) : Int :=
  ((seq.zip seq.tail).map fun (a, b) => d a b).sum

end SopD

def IsOptSop (n : Nat) (d : Nat → Nat → Int) (v : Int) : Prop :=
  IsMinOf (SopD.Feasible n d) (SopD.cost d) v

theorem sop_inserts (x : Nat) (l : List Nat) : Sop.inserts x l = inserts x l := by
  induction l with
  | nil => rfl
  | cons y ys ih => simp [Sop.inserts, inserts, ih]

theorem sop_perms (l : List Nat) : Sop.perms l = perms l := by
  induction l with
  | nil => rfl
  | cons y ys ih => simp only [Sop.perms, perms, ih]; congr 1; funext p; exact sop_inserts _ _

theorem sop_minimum (l : List Int) : Sop.minimum l = minOf l := by cases l <;> rfl

theorem sop_cost (d : Nat → Nat → Int) (seq : List Nat) : Sop.cost d seq = SopD.cost d seq := by
  fun_induction Sop.cost d seq with
  | case1 i j rest ih => rw [ih]; simp [SopD.cost]
  | case2 seq h =>
    match seq, h with
    | [], _ => rfl
    | [_], _ => rfl
    | i :: j :: rest, h => exact absurd rfl (h i j rest)

theorem sop_respects (d : Nat → Nat → Int) (seq : List Nat) :
    Sop.respects d seq = true ↔ seq.Pairwise (fun i j => d i j ≠ -1) := by
  induction seq with
  | nil => simp [Sop.respects]
  | cons i later ih => simp [Sop.respects, ih]

/-- on a sequence without repetition, "no `i` before `j` with `d i j = -1`" (what `Sop.respects` checks) is
    "`j` before `i` whenever `d i j = -1`" (the problem statement) — provided no job is its own predecessor -/
theorem sop_prec {n : Nat} {d : Nat → Nat → Int} {seq : List Nat} (hp : seq.Perm (List.range n))
    (hdiag : ∀ i, i < n → d i i ≠ -1) :
    seq.Pairwise (fun i j => d i j ≠ -1) ↔
      ∀ i j, i < n → j < n → d i j = -1 → [j, i].Sublist seq := by
  have hmem : ∀ i, i ∈ seq ↔ i < n := fun i => hp.mem_iff.trans List.mem_range
  have hnd : seq.Nodup := hp.symm.nodup List.nodup_range
  rw [List.pairwise_iff_forall_sublist]
  constructor
  · intro h i j hi hj hij
    have hne : i ≠ j := fun e => hdiag i hi (e ▸ hij)
    rcases before_or_after ((hmem i).mpr hi) ((hmem j).mpr hj) hne with hb | hb
    · exact absurd hij (h hb)
    · exact hb
  · intro h i j hb hij
    have hi : i < n := (hmem i).mp (hb.subset (by simp))
    have hj : j < n := (hmem j).mp (hb.subset (by simp))
    exact not_before_and_after hnd hb (h i j hi hj hij)

theorem sop_mem_seqs (n : Nat) (hn : 1 ≤ n) (seq : List Nat) :
    seq ∈ (if n = 1 then [[0]]
           else (Sop.perms ((List.range (n - 1)).drop 1)).map (fun p => 0 :: p ++ [n - 1])) ↔
      seq.Perm (List.range n) ∧ seq.head? = some 0 ∧ seq.getLast? = some (n - 1) := by
  by_cases h1 : n = 1
  · subst h1
    simp only [if_true, List.mem_singleton]
    constructor
    · rintro rfl; simp [List.range_succ]
    · rintro ⟨hp, _, _⟩
      have : List.range 1 = [0] := rfl
      rw [this] at hp
      exact List.perm_singleton.mp hp
  · obtain ⟨m, rfl⟩ : ∃ m, n = m + 2 := ⟨n - 2, by omega⟩
    simp only [h1, if_false, sop_perms, List.mem_map, mem_perms]
    have e1 : (List.range (m + 2 - 1)).drop 1 = (List.range m).map Nat.succ := by
      show (List.range (m + 1)).drop 1 = _
      rw [List.range_succ_eq_map]; rfl
    have e2 : List.range (m + 2) = 0 :: ((List.range m).map Nat.succ ++ [m + 1]) := by
      rw [List.range_succ, List.range_succ_eq_map]; rfl
    have e3 : m + 2 - 1 = m + 1 := rfl
    rw [e1, e2, e3]
    constructor
    · rintro ⟨p, hp, rfl⟩
      refine ⟨?_, rfl, List.getLast?_eq_some_iff.mpr ⟨0 :: p, rfl⟩⟩
      exact (List.perm_cons 0).mpr ((List.perm_append_right_iff _).mpr hp)
    · rintro ⟨hp, hh, hl⟩
      obtain ⟨t, rfl⟩ := List.head?_eq_some_iff.mp hh
      obtain ⟨ys, hys⟩ := List.getLast?_eq_some_iff.mp hl
      cases ys with
      | nil => simp at hys
      | cons y p =>
        simp only [List.cons_append, List.cons.injEq] at hys
        obtain ⟨_, rfl⟩ := hys
        exact ⟨p, (List.perm_append_right_iff _).mp ((List.perm_cons 0).mp hp), rfl⟩

theorem sop_values (n : Nat) (hn : 1 ≤ n) (d : Nat → Nat → Int) (hdiag : ∀ i, i < n → d i i ≠ -1) (x : Int) :
    x ∈ (((if n = 1 then [[0]]
           else (Sop.perms ((List.range (n - 1)).drop 1)).map (fun p => 0 :: p ++ [n - 1])).filter
            (Sop.respects d)).map (Sop.cost d)) ↔
      ∃ seq, SopD.Feasible n d seq ∧ SopD.cost d seq = x := by
  simp only [List.mem_map, List.mem_filter, sop_mem_seqs n hn, sop_respects, sop_cost]
  constructor
  · rintro ⟨seq, ⟨⟨hp, hh, hl⟩, hr⟩, rfl⟩
    exact ⟨seq, ⟨hp, hh, hl, (sop_prec hp hdiag).mp hr⟩, rfl⟩
  · rintro ⟨seq, ⟨hp, hh, hl, hr⟩, rfl⟩
    exact ⟨seq, ⟨⟨hp, hh, hl⟩, (sop_prec hp hdiag).mpr hr⟩, rfl⟩

/-- **sop**: for `n ≥ 1` jobs and a matrix in which no job is its own predecessor, the specification returns
    the minimum cost of a feasible sequence, and `-1` exactly when there is none (or when `-1` happens to be
    the minimum cost, which needs negative distances) -/
theorem sop_spec_adequate (n : Nat) (hn : 1 ≤ n) (d : Nat → Nat → Int) (hdiag : ∀ i, i < n → d i i ≠ -1)
    (v : Int) :
    Sop.spec n d = v ↔ IsOptSop n d v ∨ ((¬ ∃ seq, SopD.Feasible n d seq) ∧ v = -1) := by
  simp only [Sop.spec, sop_minimum]
  exact minOf_getD_iff (sop_values n hn d hdiag) (-1) v

/-- sop, feasible instances: the specification returns exactly the minimum cost -/
theorem sop_spec_feasible (n : Nat) (hn : 1 ≤ n) (d : Nat → Nat → Int) (hdiag : ∀ i, i < n → d i i ≠ -1)
    (hf : ∃ seq, SopD.Feasible n d seq) (v : Int) : Sop.spec n d = v ↔ IsOptSop n d v := by
  rw [sop_spec_adequate n hn d hdiag]
  exact ⟨fun h => h.elim id (fun h' => absurd hf h'.1), Or.inl⟩

/-- sop, infeasible instances (e.g. cyclic precedences): the specification returns `-1` -/
theorem sop_spec_infeasible (n : Nat) (hn : 1 ≤ n) (d : Nat → Nat → Int) (hdiag : ∀ i, i < n → d i i ≠ -1)
    (hf : ¬ ∃ seq, SopD.Feasible n d seq) : Sop.spec n d = -1 :=
  (sop_spec_adequate n hn d hdiag (-1)).mpr (Or.inr ⟨hf, rfl⟩)

/-- a past failure of the sop example (corpus `C16/cases.txt`): 6 jobs, one precedence (3 before 2) -/
example : Sop.specFromTokens [6, 0, 6, 6, 4, 4, 4, -1, 0, 2, 4, 4, 2, -1, 2, 0, -1, 2, 6, -1, 4, 4, 0, 6, 6,
    -1, 4, 0, 6, 0, 4, -1, -1, -1, -1, -1, 0] = some 14 := by decide

/-- cyclic precedences (1 before 4 before 1, finding D11): no solution, the program must print `-1` -/
example : Sop.specFromTokens [6, 0, 1, 0, 1, 0, 1000000, -1, 0, 0, 0, -1, 0, -1, 0, 0, -1, 1, 0, -1, -1, 1, 0,
    0, 0, -1, -1, 1, 0, 0, 1, -1, -1, -1, -1, -1, 0] = some (-1) := by decide

/-- the hypothesis `hdiag` of `sop_spec_adequate` is needed: the specification ignores a `-1` on the diagonal
    ("job 1 before itself", unsatisfiable if the statement is read literally) -/
example : Sop.specFromTokens [3, 0, 1, 1, -1, -1, 1, -1, -1, 0] = some 2 := by decide

/-! ## srflp (single-row facility layout)

A solution is an order (permutation) of the departments `0 … n-1`; its cost (to be minimised) is the sum over all
pairs of positions `a < b` of the flow between the two departments times the distance between their centres.
The specification and the statement below both use TWICE the distance, to stay in the integers. -/
namespace SrflpD

/-- a solution is an order of the departments `0 … n-1`: every department exactly once -/
def Feasible (n : Nat) (order : List Nat) : Prop := order.Perm (List.range n)

/-- the flow between two departments, read from the upper triangle of `c` -/
def flow (c : Nat → Nat → Int) (i j : Nat) : Int := c (min i j) (max i j)

/-- TWICE the distance between the centres of the departments placed at positions `a < b` of the order: the
    length of each of the two departments plus twice the lengths of the departments placed between them -/
def dist2 (l : Nat → Int) (order : List Nat) (a b : Nat) : Int :=
  l (order.getD a 0) + l (order.getD b 0) + 2 * (((order.take b).drop (a + 1)).map l).sum

/-- TWICE the cost of an order: `Σ_{a < b} flow(order[a], order[b]) * 2 distance(a, b)` over the pairs of positions -/
def cost2 (l : Nat → Int) (c : Nat → Nat → Int) (order : List Nat) : Int :=
  sumRange order.length fun b => sumRange b fun a =>
    flow c (order.getD a 0) (order.getD b 0) * dist2 l order a b

end SrflpD

def IsOptSrflp (n : Nat) (l : Nat → Int) (c : Nat → Nat → Int) (v : Int) : Prop :=
  IsMinOf (SrflpD.Feasible n) (SrflpD.cost2 l c) v

theorem srflp_inserts (x : Nat) (l : List Nat) : Srflp.inserts x l = inserts x l := by
  induction l with
  | nil => rfl
  | cons y ys ih => simp [Srflp.inserts, inserts, ih]

theorem srflp_perms (l : List Nat) : Srflp.perms l = perms l := by
  induction l with
  | nil => rfl
  | cons y ys ih => simp only [Srflp.perms, perms, ih]; congr 1; funext p; exact srflp_inserts _ _

theorem srflp_minimum (l : List Int) : Srflp.minimum l = minOf l := by cases l <;> rfl

theorem srflp_pairsFrom (l : Nat → Int) (c : Nat → Nat → Int) (i : Nat) (B : Int) (rest : List Nat) :
    Srflp.pairsFrom l c i B rest = sumRange rest.length fun b =>
      SrflpD.flow c i (rest.getD b 0) * (l i + l (rest.getD b 0) + B + 2 * ((rest.take b).map l).sum) := by
  induction rest generalizing B with
  | nil => rfl
  | cons j rest ih =>
    rw [Srflp.pairsFrom, ih, List.length_cons, sumRange_succ']
    congr 1
    · simp [SrflpD.flow]
    · apply sumRange_congr
      intro b _
      simp only [List.getD_cons_succ, List.take_succ_cons, List.map_cons, List.sum_cons]
      congr 1
      omega

theorem srflp_cost2 (l : Nat → Int) (c : Nat → Nat → Int) (order : List Nat) :
    Srflp.cost2 l c order = SrflpD.cost2 l c order := by
  induction order with
  | nil => rfl
  | cons i rest ih =>
    rw [Srflp.cost2, ih, srflp_pairsFrom]
    simp only [SrflpD.cost2, List.length_cons, sumRange_succ', sumRange_zero, sumRange_add, Int.zero_add]
    congr 1
    · apply sumRange_congr
      intro b _
      simp [SrflpD.dist2]

theorem srflp_values (n : Nat) (l : Nat → Int) (c : Nat → Nat → Int) (x : Int) :
    x ∈ (Srflp.perms (List.range n)).map (Srflp.cost2 l c) ↔
      ∃ order, SrflpD.Feasible n order ∧ SrflpD.cost2 l c order = x := by
  simp only [List.mem_map, srflp_perms, mem_perms, srflp_cost2, SrflpD.Feasible]

/-- **srflp**: the specification returns TWICE the minimum cost of an order of the departments (every order is a
    solution, so the default `-2` is never returned) -/
theorem srflp_spec_adequate (n : Nat) (l : Nat → Int) (c : Nat → Nat → Int) (v : Int) :
    Srflp.spec n l c = v ↔ IsOptSrflp n l c v := by
  simp only [Srflp.spec, srflp_minimum]
  rw [minOf_getD_iff (srflp_values n l c) (-2) v]
  constructor
  · rintro (h | ⟨hno, _⟩)
    · exact h
    · exact absurd ⟨List.range n, List.Perm.refl _⟩ hno
  · exact Or.inl

/-- three departments of lengths 1, 2, 3 and flows c01 = 1, c02 = 2, c12 = 3: an optimal order is `1 0 2`
    (2·cost = 1·3 + 3·7 + 2·4 = 32; the program prints `16`) -/
example : Srflp.specFromTokens [3, 1, 2, 3, 0, 1, 2, 1, 0, 3, 2, 3, 0] = some 32 := by decide

/-! ## talentsched (talent scheduling)

A solution is an order (permutation) of the scenes `0 … n-1`; every actor is paid for each scene shot between
the first and the last scene he plays in (both included); the total pay is to be minimised. -/
namespace TalentD

/-- a solution is an order of the scenes `0 … n-1`: every scene exactly once -/
def Feasible (nScenes : Nat) (order : List Nat) : Prop := order.Perm (List.range nScenes)

/-- the actor is on location while the `k`-th scene of the order is shot: he plays in one of the scenes shot up
    to then (that one included) and in one of the scenes shot from then on (that one included) -/
def present (plays : Nat → Bool) (order : List Nat) (k : Nat) : Bool :=
  (order.take (k + 1)).any plays && (order.drop k).any plays

/-- total pay: every actor is paid his daily cost for the duration of each scene during which he is on location -/
def pay (nActors : Nat) (plays : Nat → Nat → Bool) (cost duration : Nat → Int) (order : List Nat) : Int :=
  sumRange nActors fun a => cost a * sumRange order.length fun k =>
    if present (plays a) order k then duration (order.getD k 0) else 0

end TalentD

def IsOptTalentsched (nScenes nActors : Nat) (plays : Nat → Nat → Bool) (cost duration : Nat → Int)
    (v : Int) : Prop :=
  IsMinOf (TalentD.Feasible nScenes) (TalentD.pay nActors plays cost duration) v

theorem talent_inserts (x : Nat) (l : List Nat) : Talentsched.inserts x l = inserts x l := by
  induction l with
  | nil => rfl
  | cons y ys ih => simp [Talentsched.inserts, inserts, ih]

theorem talent_perms (l : List Nat) : Talentsched.perms l = perms l := by
  induction l with
  | nil => rfl
  | cons y ys ih => simp only [Talentsched.perms, perms, ih]; congr 1; funext p; exact talent_inserts _ _

theorem talent_minimum (l : List Int) : Talentsched.minimum l = minOf l := by cases l <;> rfl

theorem talent_sum (l : List Int) : Talentsched.sum l = l.sum := by
  induction l with
  | nil => rfl
  | cons x xs ih => simp [Talentsched.sum, ih]

/-- trimming the scenes after the actor's last one -/
theorem talent_trimR (p : Nat → Bool) (g : Nat → Int) (m : List Nat) :
    ((m.reverse.dropWhile fun s => !p s).map g).sum =
      sumRange m.length fun k => if (m.drop k).any p then g (m.getD k 0) else 0 := by
  induction m with
  | nil => rfl
  | cons y ys ih =>
    have hA : (ys.reverse.dropWhile fun s => !p s).isEmpty = !ys.any p := by
      rw [dropWhile_isEmpty, List.all_reverse, all_not_eq]
    have hshift : (sumRange ys.length fun i =>
        if ((y :: ys).drop (i + 1)).any p then g ((y :: ys).getD (i + 1) 0) else 0) =
        ((ys.reverse.dropWhile fun s => !p s).map g).sum := by rw [ih]; rfl
    rw [List.length_cons, sumRange_succ', hshift, List.reverse_cons, List.dropWhile_append, hA]
    cases hys : ys.any p with
    | false =>
      have hnil : (ys.reverse.dropWhile fun s => !p s) = [] :=
        List.isEmpty_iff.mp (by rw [hA, hys]; rfl)
      rw [hnil]
      cases hy : p y <;> simp [hy, hys]
    | true =>
      simp [hys, List.sum_append]; omega

/-- the scenes kept by `Talentsched.onLocation` are those during which the actor is `present` -/
theorem talent_onLocation (p : Nat → Bool) (g : Nat → Int) (l : List Nat) :
    ((Talentsched.onLocation p l).map g).sum =
      sumRange l.length fun k => if TalentD.present p l k then g (l.getD k 0) else 0 := by
  induction l with
  | nil => rfl
  | cons x xs ih =>
    cases hx : p x with
    | false =>
      have e : Talentsched.onLocation p (x :: xs) = Talentsched.onLocation p xs := by
        simp [Talentsched.onLocation, hx]
      rw [e, ih, List.length_cons, sumRange_succ']
      have h0 : TalentD.present p (x :: xs) 0 = false := by simp [TalentD.present, hx]
      rw [h0]
      simp only [Bool.false_eq_true, if_false, Int.zero_add]
      apply sumRange_congr
      intro k _
      simp [TalentD.present, hx]
    | true =>
      have e : Talentsched.onLocation p (x :: xs) = ((x :: xs).reverse.dropWhile fun s => !p s) := by
        simp [Talentsched.onLocation, hx]
      rw [e, talent_trimR]
      apply sumRange_congr
      intro k _
      simp [TalentD.present, hx]

theorem talent_pay (nActors : Nat) (plays : Nat → Nat → Bool) (cost duration : Nat → Int) (order : List Nat) :
    Talentsched.pay nActors plays cost duration order = TalentD.pay nActors plays cost duration order := by
  simp only [Talentsched.pay, TalentD.pay, talent_sum, talent_onLocation]
  rfl

theorem talent_values (nScenes nActors : Nat) (plays : Nat → Nat → Bool) (cost duration : Nat → Int) (x : Int) :
    x ∈ (Talentsched.perms (List.range nScenes)).map (Talentsched.pay nActors plays cost duration) ↔
      ∃ order, TalentD.Feasible nScenes order ∧ TalentD.pay nActors plays cost duration order = x := by
  simp only [List.mem_map, talent_perms, mem_perms, talent_pay, TalentD.Feasible]

/-- **talentsched**: the specification returns the minimum total pay over all orders of the scenes (every order
    is a solution, so the default `-1` is never returned) -/
theorem talentsched_spec_adequate (nScenes nActors : Nat) (plays : Nat → Nat → Bool)
    (cost duration : Nat → Int) (v : Int) :
    Talentsched.spec nScenes nActors plays cost duration = v ↔
      IsOptTalentsched nScenes nActors plays cost duration v := by
  simp only [Talentsched.spec, talent_minimum]
  rw [minOf_getD_iff (talent_values nScenes nActors plays cost duration) (-1) v]
  constructor
  · rintro (h | ⟨hno, _⟩)
    · exact h
    · exact absurd ⟨List.range nScenes, List.Perm.refl _⟩ hno
  · exact Or.inl

/-- 3 scenes (durations 1, 2, 3) and 2 actors: actor 0 (cost 10) plays in scenes 0 and 2, actor 1 (cost 1) in
    scenes 0 and 1.  Shooting `1 0 2` keeps actor 0 for 4 days and actor 1 for 3 days: 43 -/
example : Talentsched.specFromTokens [3, 2, 1, 0, 1, 10, 1, 1, 0, 1, 1, 2, 3] = some 43 := by decide

/-! ## psp (pigment sequencing / discrete lot sizing)

A solution is a production plan (per period: idle, or one unit of an item) whose cumulated production covers the
cumulated demand of every item at the end of every period and equals it at the end of the horizon; its cost (to be
minimised) is the stocking cost plus the changeover costs between consecutively produced items. -/
namespace PspD

/-- a production plan: one entry per period `0 … T-1`, `none` = idle, `some i` = one unit of item `i < n` -/
def IsPlan (I : Psp.Inst) (p : Psp.Plan) : Prop := p.length = I.T ∧ ∀ i, some i ∈ p → i < I.n

/-- units of item `i` produced in the periods `0 … t` -/
def produced (p : Psp.Plan) (i t : Nat) : Nat := (p.take (t + 1)).count (some i)

/-- units of item `i` due in the periods `0 … t` -/
def due (I : Psp.Inst) (i t : Nat) : Int := ((I.d.getD i []).take (t + 1)).sum

/-- units of item `i` in stock at the end of period `t` -/
def stock (I : Psp.Inst) (p : Psp.Plan) (i t : Nat) : Int := (produced p i t : Int) - due I i t

/-- the plan meets every demand in time (the stock never goes negative) and produces nothing in excess -/
structure Feasible (I : Psp.Inst) (p : Psp.Plan) : Prop where
  plan : IsPlan I p
  noBacklog : ∀ i t, i < I.n → t < I.T → 0 ≤ stock I p i t
  noExcess : ∀ i, i < I.n → stock I p i (I.T - 1) = 0

/-- `h[i]` per unit of item `i` in stock at the end of each period -/
def stocking (I : Psp.Inst) (p : Psp.Plan) : Int :=
  sumRange I.n fun i => sumRange I.T fun t => I.h.getD i 0 * stock I p i t

/-- `q[a][b]` for every two consecutively PRODUCED items `a`, `b` (idle periods skipped) -/
def changeover (I : Psp.Inst) (p : Psp.Plan) : Int :=
  let made := p.filterMap id
  ((made.zip made.tail).map fun (a, b) => (I.q.getD a []).getD b 0).sum

def cost (I : Psp.Inst) (p : Psp.Plan) : Int := stocking I p + changeover I p

end PspD

def IsOptPsp (I : Psp.Inst) (v : Int) : Prop := IsMinOf (PspD.Feasible I) (PspD.cost I) v

theorem psp_stock (I : Psp.Inst) (p : Psp.Plan) (i t : Nat) : Psp.stock I p i t = PspD.stock I p i t := by
  simp [Psp.stock, PspD.stock, PspD.produced, PspD.due, sum_eq]

theorem psp_feasible (I : Psp.Inst) (p : Psp.Plan) :
    Psp.feasible I p = true ↔
      (∀ i t, i < I.n → t < I.T → 0 ≤ PspD.stock I p i t) ∧ ∀ i, i < I.n → PspD.stock I p i (I.T - 1) = 0 := by
  simp only [Psp.feasible, List.all_eq_true, List.mem_range, Bool.and_eq_true, decide_eq_true_eq,
    beq_iff_eq, psp_stock, ge_iff_le]
  constructor
  · intro h; exact ⟨fun i t hi ht => (h i hi).1 t ht, fun i hi => (h i hi).2⟩
  · rintro ⟨h1, h2⟩ i hi; exact ⟨fun t ht => h1 i t hi ht, h2 i hi⟩

theorem psp_stockingCost (I : Psp.Inst) (p : Psp.Plan) : Psp.stockingCost I p = PspD.stocking I p := by
  simp only [Psp.stockingCost, PspD.stocking, sum_eq, psp_stock]
  rfl

theorem psp_changeoverCost (I : Psp.Inst) (l : List Nat) :
    Psp.changeoverCost I l = ((l.zip l.tail).map fun (a, b) => (I.q.getD a []).getD b 0).sum := by
  fun_induction Psp.changeoverCost I l with
  | case1 a b rest ih => rw [ih]; simp
  | case2 l h =>
    match l, h with
    | [], _ => rfl
    | [_], _ => rfl
    | a :: b :: rest, h => exact absurd rfl (h a b rest)

theorem psp_mem_dom (n : Nat) (x : Option Nat) :
    x ∈ (none :: (List.range n).map some) ↔ ∀ i, x = some i → i < n := by
  cases x with
  | none => simp
  | some j => simp

theorem psp_values (I : Psp.Inst) (x : Int) :
    x ∈ (tuples (none :: (List.range I.n).map some) I.T).filterMap (fun p =>
        if Psp.feasible I p then some (Psp.stockingCost I p + Psp.changeoverCost I (p.filterMap id))
        else none) ↔
      ∃ p, PspD.Feasible I p ∧ PspD.cost I p = x := by
  simp only [List.mem_filterMap, mem_tuples, psp_mem_dom]
  constructor
  · rintro ⟨p, ⟨hlen, hdom⟩, hx⟩
    split at hx
    · rename_i hf
      obtain ⟨h1, h2⟩ := (psp_feasible I p).mp hf
      simp only [Option.some.injEq] at hx
      refine ⟨p, ⟨⟨hlen, fun i hi => hdom _ hi i rfl⟩, h1, h2⟩, ?_⟩
      rw [← hx, psp_stockingCost, psp_changeoverCost]; rfl
    · cases hx
  · rintro ⟨p, ⟨⟨hlen, hdom⟩, h1, h2⟩, rfl⟩
    refine ⟨p, ⟨hlen, fun y hy i hi => hdom i (hi ▸ hy)⟩, ?_⟩
    rw [if_pos ((psp_feasible I p).mpr ⟨h1, h2⟩), psp_stockingCost, psp_changeoverCost]; rfl

/-- **psp**: the specification returns the minimum total stocking + changeover cost of a production plan that
    meets every demand in time, and `-1` exactly when no such plan exists (or when `-1` happens to be the
    minimum cost, which needs negative costs) -/
theorem psp_spec_adequate (I : Psp.Inst) (v : Int) :
    Psp.best I = v ↔ IsOptPsp I v ∨ ((¬ ∃ p, PspD.Feasible I p) ∧ v = -1) := by
  simp only [Psp.best]
  exact minOf_getD_iff (psp_values I) (-1) v

/-- psp, feasible instances: the specification returns exactly the minimum cost -/
theorem psp_spec_feasible (I : Psp.Inst) (hf : ∃ p, PspD.Feasible I p) (v : Int) :
    Psp.best I = v ↔ IsOptPsp I v := by
  rw [psp_spec_adequate]
  exact ⟨fun h => h.elim id (fun h' => absurd hf h'.1), Or.inl⟩

/-- psp, infeasible instances (the demands cannot be met in time): the specification returns `-1` -/
theorem psp_spec_infeasible (I : Psp.Inst) (hf : ¬ ∃ p, PspD.Feasible I p) : Psp.best I = -1 :=
  (psp_spec_adequate I (-1)).mpr (Or.inr ⟨hf, rfl⟩)

/-- a past failure of the psp example (corpus `C16/cases.txt`, finding D11): `T = 2`, 2 items, item 0 is due in both periods
    and item 1 in period 0: three units in two periods, no solution -/
example : Psp.specFromTokens [2, 2, 0, 0, 0, 0, 5, 0, 1, 1, 1, 0] = some (-1) := by decide

/-- `T = 3`, item 0 due at the end of periods 0 and 2, item 1 at the end of period 2; `q01 = 3`, `q10 = 1`,
    `h = (5, 1)`: producing `0 1 0` costs one period of stock of item 1 plus both changeovers = 5,
    `0 0 1` costs one period of stock of item 0 plus one changeover = 8, `0 _ …` is impossible -/
example : Psp.specFromTokens [3, 2, 0, 3, 1, 0, 5, 1, 1, 0, 1, 0, 0, 1] = some 5 := by decide

/-! ## tsptw (travelling salesman with time windows, makespan objective)

A solution is the list of the visits `(node, time)` of a tour: depot at time 0, every other node exactly once,
back to the depot; between consecutive visits the clock advances by the travel time, the arrival must not be
later than the closing of the window and the salesman waits for its opening.  The objective (to be minimised) is
the time of the last visit (the return to the depot). -/
namespace TsptwD

/-- between two consecutive visits `a = (i, tᵢ)`, `b = (j, tⱼ)` (node, time at which the salesman is ready to
    leave it): he arrives at `j` at `tᵢ + d i j`, not after `latest j`, and is ready at that time or at
    `earliest j`, whichever is later -/
def Step (d : Nat → Nat → Int) (earliest latest : Nat → Int) (a b : Nat × Int) : Prop :=
  a.2 + d a.1 b.1 ≤ latest b.1 ∧ b.2 = max (a.2 + d a.1 b.1) (earliest b.1)

/-- a solution is a list of visits `(node, time)`: it starts at the depot `0` at time `0`, then visits every other
    node `1 … n-1` exactly once, then returns to the depot; every two consecutive visits satisfy `Step` -/
structure Feasible (n : Nat) (d : Nat → Nat → Int) (earliest latest : Nat → Int)
    (vs : List (Nat × Int)) : Prop where
  start : vs.head? = some (0, 0)
  tour : ∃ p : List Nat, p.Perm ((List.range n).drop 1) ∧ vs.map (·.1) = 0 :: (p ++ [0])
  steps : ∀ x ∈ vs.zip vs.tail, Step d earliest latest x.1 x.2

/-- the time at which the tour ends -/
def cost (vs : List (Nat × Int)) : Int := (vs.getLast?.map (·.2)).getD 0

end TsptwD

def IsOptTsptw (n : Nat) (d : Nat → Nat → Int) (earliest latest : Nat → Int) (v : Int) : Prop :=
  IsMinOf (TsptwD.Feasible n d earliest latest) TsptwD.cost v

theorem tsptw_inserts (x : Nat) (l : List Nat) : Tsptw.inserts x l = inserts x l := by
  induction l with
  | nil => rfl
  | cons y ys ih => simp [Tsptw.inserts, inserts, ih]

theorem tsptw_perms (l : List Nat) : Tsptw.perms l = perms l := by
  induction l with
  | nil => rfl
  | cons y ys ih => simp only [Tsptw.perms, perms, ih]; congr 1; funext p; exact tsptw_inserts _ _

theorem tsptw_minimum (l : List Int) : Tsptw.minimum l = minOf l := by cases l <;> rfl

/-- the clock simulation `Tsptw.finish` succeeds with `T` iff the route can be completed into a list of visits
    satisfying `Step` and ending at time `T` -/
theorem tsptw_finish (d : Nat → Nat → Int) (e l : Nat → Int) (route : List Nat) (i : Nat) (t T : Int) :
    Tsptw.finish d e l i t route = some T ↔
      ∃ vs : List (Nat × Int), vs.map (·.1) = route ∧
        (∀ x ∈ ((i, t) :: vs).zip vs, TsptwD.Step d e l x.1 x.2) ∧ TsptwD.cost ((i, t) :: vs) = T := by
  induction route generalizing i t with
  | nil =>
    simp only [Tsptw.finish, Option.some.injEq, List.map_eq_nil_iff]
    constructor
    · rintro rfl; exact ⟨[], rfl, by simp, rfl⟩
    · rintro ⟨vs, rfl, _, h⟩; exact h
  | cons j rest ih =>
    simp only [Tsptw.finish]
    constructor
    · intro h
      split at h
      · rename_i harr
        obtain ⟨vs', hmap, hsteps, hlast⟩ := (ih _ _).mp h
        refine ⟨(j, max (t + d i j) (e j)) :: vs', by simp [hmap], ?_, ?_⟩
        · intro x hx
          simp only [List.zip_cons_cons, List.mem_cons] at hx
          rcases hx with rfl | hx
          · exact ⟨harr, rfl⟩
          · exact hsteps x hx
        · simpa [TsptwD.cost] using hlast
      · cases h
    · rintro ⟨vs, hmap, hsteps, hlast⟩
      cases vs with
      | nil => simp at hmap
      | cons v vs' =>
        obtain ⟨j', t'⟩ := v
        simp only [List.map_cons, List.cons.injEq] at hmap
        obtain ⟨rfl, hmap⟩ := hmap
        have h0 := hsteps ((i, t), (j', t')) (by simp)
        obtain ⟨harr, ht'⟩ := h0
        simp only at harr ht'
        rw [if_pos harr, ← ht']
        refine (ih _ _).mpr ⟨vs', hmap, fun x hx => hsteps x ?_, ?_⟩
        · simp only [List.zip_cons_cons, List.mem_cons]; exact Or.inr hx
        · simpa [TsptwD.cost] using hlast

theorem tsptw_values (n : Nat) (d : Nat → Nat → Int) (e l : Nat → Int) (x : Int) :
    x ∈ ((Tsptw.perms ((List.range n).drop 1)).map (fun p => p ++ [0])).filterMap
          (Tsptw.finish d e l 0 0) ↔
      ∃ vs, TsptwD.Feasible n d e l vs ∧ TsptwD.cost vs = x := by
  simp only [List.mem_filterMap, List.mem_map, tsptw_perms, mem_perms, tsptw_finish]
  constructor
  · rintro ⟨_, ⟨p, hp, rfl⟩, vs, hmap, hsteps, hcost⟩
    exact ⟨(0, 0) :: vs, ⟨rfl, ⟨p, hp, by simp [hmap]⟩, hsteps⟩, hcost⟩
  · rintro ⟨vs, ⟨hstart, ⟨p, hp, hmap⟩, hsteps⟩, hcost⟩
    obtain ⟨vs', rfl⟩ := List.head?_eq_some_iff.mp hstart
    simp only [List.map_cons, List.cons.injEq, true_and] at hmap
    exact ⟨p ++ [0], ⟨p, hp, rfl⟩, vs', hmap, hsteps, hcost⟩

/-- **tsptw**: the specification returns the earliest time at which a tour respecting the time windows can end,
    and `-1` exactly when there is no such tour (or when `-1` happens to be that time, which needs negative
    travel times or windows) -/
theorem tsptw_spec_adequate (n : Nat) (d : Nat → Nat → Int) (earliest latest : Nat → Int) (v : Int) :
    Tsptw.spec n d earliest latest = v ↔
      IsOptTsptw n d earliest latest v ∨ ((¬ ∃ vs, TsptwD.Feasible n d earliest latest vs) ∧ v = -1) := by
  simp only [Tsptw.spec, tsptw_minimum]
  exact minOf_getD_iff (tsptw_values n d earliest latest) (-1) v

/-- tsptw, feasible instances: the specification returns exactly the minimum makespan -/
theorem tsptw_spec_feasible (n : Nat) (d : Nat → Nat → Int) (earliest latest : Nat → Int)
    (hf : ∃ vs, TsptwD.Feasible n d earliest latest vs) (v : Int) :
    Tsptw.spec n d earliest latest = v ↔ IsOptTsptw n d earliest latest v := by
  rw [tsptw_spec_adequate]
  exact ⟨fun h => h.elim id (fun h' => absurd hf h'.1), Or.inl⟩

/-- tsptw, infeasible instances (no tour respects the windows): the specification returns `-1` (`+inf`) -/
theorem tsptw_spec_infeasible (n : Nat) (d : Nat → Nat → Int) (earliest latest : Nat → Int)
    (hf : ¬ ∃ vs, TsptwD.Feasible n d earliest latest vs) : Tsptw.spec n d earliest latest = -1 :=
  (tsptw_spec_adequate n d earliest latest (-1)).mpr (Or.inr ⟨hf, rfl⟩)

/-- a past failure of the tsptw example (corpus `C16/cases.txt`): 5 nodes, no binding window, optimum `4.00` -/
example : Tsptw.specFromTokens [5, 0, 100, 100, 100, 200, 200, 0, 200, 200, 200, 100, 100, 0, 0, 100, 100, 200,
    200, 0, 100, 0, 100, 100, 100, 0, 0, 100000, 0, 100000, 0, 100000, 0, 100000, 0, 100000] = some 400 := by
  decide

/-- 3 nodes: node 2 closes at 5 and node 1 opens at 10, so the tour must be `0 2 1 0` and waits at node 1 -/
example : Tsptw.specFromTokens [3, 0, 1, 4, 1, 0, 2, 4, 2, 0, 0, 100, 10, 100, 0, 5] = some 11 := by decide

/-- the same with node 1 closing at time 0: it cannot be reached in time, no feasible tour -/
example : Tsptw.specFromTokens [3, 0, 1, 4, 1, 0, 2, 4, 2, 0, 0, 100, 0, 0, 0, 5] = some (-1) := by decide

/-! ## alp (aircraft landing, several runways, cost = total delay)

A solution assigns a runway and a landing time within `[target, latest]` to every aircraft, such that on each
runway the landings can be ordered with every aircraft separated from ALL the earlier ones.  The specification
enumerates landing orders and runway assignments and lands every aircraft as early as possible: the theorem shows
that this greedy choice is sound and dominant, i.e. that nothing is lost w.r.t. arbitrary landing times. -/
namespace AlpD

/-- a solution gives every aircraft `a < n` a runway `rw a < r` and a landing time `t a` within
    `[target a, latest a]`, such that the aircraft can be listed in an order in which every aircraft is separated
    (by `sep` of the two classes) from ALL the aircraft listed before it that use the same runway.  (One global
    list instead of one list per runway: concatenate the lists of the runways / restrict the global list.) -/
structure Feasible (n r : Nat) (I : Alp.Inst) (s : (Nat → Nat) × (Nat → Int)) : Prop where
  runway : ∀ a, a < n → s.1 a < r
  window : ∀ a, a < n → I.target a ≤ s.2 a ∧ s.2 a ≤ I.latest a
  separated : ∃ order : List Nat, order.Perm (List.range n) ∧
    order.Pairwise fun a b => s.1 a = s.1 b → s.2 a + I.sep (I.cls a) (I.cls b) ≤ s.2 b

/-- total delay -/
def cost (n : Nat) (I : Alp.Inst) (s : (Nat → Nat) × (Nat → Int)) : Int :=
  sumRange n fun a => s.2 a - I.target a

end AlpD

def IsOptAlp (n r : Nat) (I : Alp.Inst) (v : Int) : Prop := IsMinOf (AlpD.Feasible n r I) (AlpD.cost n I) v

theorem alp_inserts (x : Nat) (l : List Nat) : Alp.inserts x l = inserts x l := by
  induction l with
  | nil => rfl
  | cons y ys ih => simp [Alp.inserts, inserts, ih]

theorem alp_perms (l : List Nat) : Alp.perms l = perms l := by
  induction l with
  | nil => rfl
  | cons y ys ih => simp only [Alp.perms, perms, ih]; congr 1; funext p; exact alp_inserts _ _

theorem alp_minimum (l : List Int) : Alp.minimum l = minOf l := by cases l <;> rfl

theorem alp_assignments (r k : Nat) : Alp.assignments r k = tuples (List.range r) k := by
  induction k with
  | zero => rfl
  | succ k ih => simp only [Alp.assignments, tuples, ih]

/-- the earliest time at which aircraft `a` can land on runway `rw` after the aircraft of `landed` -/
def alpEarliest (I : Alp.Inst) (a rw : Nat) (landed : List (Nat × Nat × Int)) (init : Int) : Int :=
  landed.foldl (fun t (rw', a', t') =>
    if rw' = rw then max t (t' + I.sep (I.cls a') (I.cls a)) else t) init

theorem alp_delay_cons (I : Alp.Inst) (a rw : Nat) (todo : List (Nat × Nat)) (landed : List (Nat × Nat × Int)) :
    Alp.delay I ((a, rw) :: todo) landed =
      if alpEarliest I a rw landed (I.target a) ≤ I.latest a then
        (Alp.delay I todo ((rw, a, alpEarliest I a rw landed (I.target a)) :: landed)).map
          (fun rest => (alpEarliest I a rw landed (I.target a) - I.target a) + rest)
      else none := by
  rw [Alp.delay]; rfl

theorem alpEarliest_spec (I : Alp.Inst) (a rw : Nat) (landed : List (Nat × Nat × Int)) (init : Int) :
    init ≤ alpEarliest I a rw landed init ∧
    (∀ x ∈ landed, x.1 = rw → x.2.2 + I.sep (I.cls x.2.1) (I.cls a) ≤ alpEarliest I a rw landed init) ∧
    (∀ B, init ≤ B → (∀ x ∈ landed, x.1 = rw → x.2.2 + I.sep (I.cls x.2.1) (I.cls a) ≤ B) →
      alpEarliest I a rw landed init ≤ B) := by
  induction landed generalizing init with
  | nil => simp [alpEarliest]
  | cons x rest ih =>
    obtain ⟨rw', a', t'⟩ := x
    have e : alpEarliest I a rw ((rw', a', t') :: rest) init =
        alpEarliest I a rw rest (if rw' = rw then max init (t' + I.sep (I.cls a') (I.cls a)) else init) := rfl
    by_cases hrw : rw' = rw
    · rw [if_pos hrw] at e
      rw [e]
      obtain ⟨h1, h2, h3⟩ := ih (max init (t' + I.sep (I.cls a') (I.cls a)))
      refine ⟨by omega, ?_, ?_⟩
      · intro x hx hx'
        rcases List.mem_cons.mp hx with rfl | hx
        · simp only; omega
        · exact h2 x hx hx'
      · intro B hB hall
        apply h3 B
        · have := hall (rw', a', t') List.mem_cons_self hrw
          simp only at this; omega
        · exact fun x hx => hall x (List.mem_cons_of_mem _ hx)
    · rw [if_neg hrw] at e
      rw [e]
      obtain ⟨h1, h2, h3⟩ := ih init
      refine ⟨h1, ?_, ?_⟩
      · intro x hx hx'
        rcases List.mem_cons.mp hx with rfl | hx
        · exact absurd hx' hrw
        · exact h2 x hx hx'
      · intro B hB hall
        exact h3 B hB (fun x hx => hall x (List.mem_cons_of_mem _ hx))

/-- soundness of the greedy landing times: when `Alp.delay` succeeds, the times it computed form a schedule of
    the aircraft of `l` (in that listing order, on the runways `rw`) whose total delay is the returned value -/
theorem alp_delay_sound (I : Alp.Inst) (rw : Nat → Nat) (l : List Nat) (hnd : l.Nodup)
    (landed : List (Nat × Nat × Int)) (v : Int)
    (h : Alp.delay I (l.map fun a => (a, rw a)) landed = some v) :
    ∃ t : Nat → Int,
      (∀ a ∈ l, I.target a ≤ t a ∧ t a ≤ I.latest a) ∧
      (∀ a ∈ l, ∀ x ∈ landed, x.1 = rw a → x.2.2 + I.sep (I.cls x.2.1) (I.cls a) ≤ t a) ∧
      l.Pairwise (fun a b => rw a = rw b → t a + I.sep (I.cls a) (I.cls b) ≤ t b) ∧
      v = (l.map fun a => t a - I.target a).sum := by
  induction l generalizing landed v with
  | nil =>
    simp only [List.map_nil, Alp.delay, Option.some.injEq] at h
    exact ⟨fun _ => 0, by simp, by simp, List.Pairwise.nil, by simp [← h]⟩
  | cons a l' ih =>
    obtain ⟨ha, hl'⟩ := List.nodup_cons.mp hnd
    rw [List.map_cons, alp_delay_cons] at h
    obtain ⟨e1, e2, _⟩ := alpEarliest_spec I a (rw a) landed (I.target a)
    generalize alpEarliest I a (rw a) landed (I.target a) = t0 at h e1 e2
    split at h
    · rename_i hlat
      obtain ⟨rest, hrest, rfl⟩ := Option.map_eq_some_iff.mp h
      obtain ⟨t', w1, w2, w3, w4⟩ := ih hl' _ _ hrest
      have hne : ∀ x ∈ l', x ≠ a := fun x hx e => ha (e ▸ hx)
      have ht : ∀ x ∈ l', (if x = a then t0 else t' x) = t' x := fun x hx => by simp [hne x hx]
      refine ⟨fun x => if x = a then t0 else t' x, ?_, ?_, ?_, ?_⟩
      · intro x hx
        rcases List.mem_cons.mp hx with rfl | hx
        · simp only [if_true]; exact ⟨e1, hlat⟩
        · simp only [ht x hx]; exact w1 x hx
      · intro x hx y hy hrw
        rcases List.mem_cons.mp hx with rfl | hx
        · simp only [if_true]; exact e2 y hy hrw
        · simp only [ht x hx]; exact w2 x hx y (List.mem_cons_of_mem _ hy) hrw
      · refine List.pairwise_cons.mpr ⟨?_, ?_⟩
        · intro b hb hrw
          simp only [if_true, ht b hb]
          exact w2 b hb (rw a, a, t0) List.mem_cons_self hrw
        · refine List.Pairwise.imp_of_mem ?_ w3
          intro x y hx hy hxy hrw
          simp only [ht x hx, ht y hy]; exact hxy hrw
      · simp only [List.map_cons, List.sum_cons, if_true]
        rw [w4]
        congr 1
        congr 1
        apply List.map_congr_left
        intro x hx
        simp only [ht x hx]
    · cases h

/-- dominance of the greedy landing times: whenever the aircraft of `l` can be scheduled in that listing order at
    the times `t`, `Alp.delay` succeeds and its total delay is not larger -/
theorem alp_delay_dominant (I : Alp.Inst) (rw : Nat → Nat) (t : Nat → Int) (l : List Nat)
    (landed : List (Nat × Nat × Int))
    (hwin : ∀ a ∈ l, I.target a ≤ t a ∧ t a ≤ I.latest a)
    (hland : ∀ a ∈ l, ∀ x ∈ landed, x.1 = rw a → x.2.2 + I.sep (I.cls x.2.1) (I.cls a) ≤ t a)
    (hpair : l.Pairwise (fun a b => rw a = rw b → t a + I.sep (I.cls a) (I.cls b) ≤ t b)) :
    ∃ v, Alp.delay I (l.map fun a => (a, rw a)) landed = some v ∧
      v ≤ (l.map fun a => t a - I.target a).sum := by
  induction l generalizing landed with
  | nil => exact ⟨0, by simp [Alp.delay], by simp⟩
  | cons a l' ih =>
    obtain ⟨hpa, hpl'⟩ := List.pairwise_cons.mp hpair
    obtain ⟨_, _, e3⟩ := alpEarliest_spec I a (rw a) landed (I.target a)
    have ht0 := e3 (t a) (hwin a List.mem_cons_self).1 (hland a List.mem_cons_self)
    rw [List.map_cons, alp_delay_cons]
    generalize alpEarliest I a (rw a) landed (I.target a) = t0 at ht0
    have hlat := (hwin a List.mem_cons_self).2
    rw [if_pos (by omega)]
    obtain ⟨v', hv', hle⟩ := ih ((rw a, a, t0) :: landed)
      (fun b hb => hwin b (List.mem_cons_of_mem _ hb))
      (by
        intro b hb x hx hrw
        rcases List.mem_cons.mp hx with rfl | hx
        · have := hpa b hb hrw
          simp only; omega
        · exact hland b (List.mem_cons_of_mem _ hb) x hx hrw)
      hpl'
    refine ⟨(t0 - I.target a) + v', by rw [hv']; rfl, ?_⟩
    simp only [List.map_cons, List.sum_cons]
    omega

theorem alp_mem_values (n r : Nat) (I : Alp.Inst) (x : Int) :
    x ∈ (Alp.perms (List.range n)).flatMap (fun o =>
          (Alp.assignments r n).filterMap (fun rs => Alp.delay I (o.zip rs) [])) ↔
      ∃ o : List Nat, o.Perm (List.range n) ∧ ∃ rw : Nat → Nat, (∀ a ∈ o, rw a < r) ∧
        Alp.delay I (o.map fun a => (a, rw a)) [] = some x := by
  simp only [List.mem_flatMap, List.mem_filterMap, alp_perms, mem_perms, alp_assignments, mem_tuples,
    List.mem_range]
  constructor
  · rintro ⟨o, ho, rs, ⟨hlen, hr⟩, hd⟩
    have hnd : o.Nodup := ho.symm.nodup List.nodup_range
    have hlen' : rs.length = o.length := by rw [hlen, ho.length_eq, List.length_range]
    obtain ⟨rw, rfl⟩ := exists_map_eq hnd rs hlen' 0
    refine ⟨o, ho, rw, fun a ha => hr _ (List.mem_map_of_mem ha), ?_⟩
    rw [← zip_map_self]; exact hd
  · rintro ⟨o, ho, rw, hr, hd⟩
    refine ⟨o, ho, o.map rw, ⟨by rw [List.length_map, ho.length_eq, List.length_range], ?_⟩, ?_⟩
    · intro y hy
      obtain ⟨a, ha, rfl⟩ := List.mem_map.mp hy
      exact hr a ha
    · rw [zip_map_self]; exact hd

theorem alp_sound (n r : Nat) (I : Alp.Inst) (x : Int)
    (hx : x ∈ (Alp.perms (List.range n)).flatMap (fun o =>
          (Alp.assignments r n).filterMap (fun rs => Alp.delay I (o.zip rs) []))) :
    ∃ s, AlpD.Feasible n r I s ∧ AlpD.cost n I s = x := by
  obtain ⟨o, ho, rw, hr, hd⟩ := (alp_mem_values n r I x).mp hx
  have hmem : ∀ a, a ∈ o ↔ a < n := fun a => ho.mem_iff.trans List.mem_range
  obtain ⟨t, w1, _, w3, w4⟩ := alp_delay_sound I rw o (ho.symm.nodup List.nodup_range) [] x hd
  refine ⟨(rw, t), ⟨fun a ha => hr a ((hmem a).mpr ha), fun a ha => w1 a ((hmem a).mpr ha), o, ho, w3⟩, ?_⟩
  rw [w4]
  exact (perm_range_sum ho _).symm

theorem alp_dominant (n r : Nat) (I : Alp.Inst) (s : (Nat → Nat) × (Nat → Int))
    (hs : AlpD.Feasible n r I s) :
    ∃ x, x ∈ (Alp.perms (List.range n)).flatMap (fun o =>
          (Alp.assignments r n).filterMap (fun rs => Alp.delay I (o.zip rs) [])) ∧ x ≤ AlpD.cost n I s := by
  obtain ⟨hrun, hwin, order, ho, hpair⟩ := hs
  have hmem : ∀ a, a ∈ order ↔ a < n := fun a => ho.mem_iff.trans List.mem_range
  obtain ⟨v, hv, hle⟩ := alp_delay_dominant I s.1 s.2 order []
    (fun a ha => hwin a ((hmem a).mp ha)) (by simp) hpair
  refine ⟨v, (alp_mem_values n r I v).mpr ⟨order, ho, s.1, fun a ha => hrun a ((hmem a).mp ha), hv⟩, ?_⟩
  rw [perm_range_sum ho] at hle
  exact hle

/-- **alp**: the specification (which only enumerates the schedules where every aircraft lands as early as the
    aircraft listed before it permit) returns the minimum total delay over ALL feasible assignments of runways and
    landing times, and `-1` exactly when there is none (a total delay is never negative: `alp_cost_nonneg`,
    `alp_spec_infeasible`) -/
theorem alp_spec_adequate (n r : Nat) (I : Alp.Inst) (v : Int) :
    Alp.spec n r I = v ↔ IsOptAlp n r I v ∨ ((¬ ∃ s, AlpD.Feasible n r I s) ∧ v = -1) := by
  simp only [Alp.spec, alp_minimum]
  exact minOf_getD_iff_of_dominant (alp_sound n r I) (alp_dominant n r I) (-1) v

/-- the delay of a feasible solution is never negative, so the output `-1` is unambiguous -/
theorem alp_cost_nonneg (n r : Nat) (I : Alp.Inst) (s : (Nat → Nat) × (Nat → Int))
    (hs : AlpD.Feasible n r I s) : 0 ≤ AlpD.cost n I s := by
  have : ∀ m, m ≤ n → 0 ≤ sumRange m fun a => s.2 a - I.target a := by
    intro m hm
    induction m with
    | zero => simp
    | succ m ih =>
      rw [sumRange_succ]
      have := ih (by omega)
      have := (hs.window m (by omega)).1
      omega
  exact this n (Nat.le_refl n)

/-- hence: the specification returns `-1` iff the instance has no solution -/
theorem alp_spec_infeasible (n r : Nat) (I : Alp.Inst) :
    Alp.spec n r I = -1 ↔ ¬ ∃ s, AlpD.Feasible n r I s := by
  rw [alp_spec_adequate]
  constructor
  · rintro (⟨⟨s, hs, hc⟩, _⟩ | ⟨h, _⟩)
    · have := alp_cost_nonneg n r I s hs; omega
    · exact h
  · exact fun h => Or.inr ⟨h, rfl⟩

/-- alp, feasible instances: the specification returns exactly the minimum total delay -/
theorem alp_spec_feasible (n r : Nat) (I : Alp.Inst) (hf : ∃ s, AlpD.Feasible n r I s) (v : Int) :
    Alp.spec n r I = v ↔ IsOptAlp n r I v := by
  rw [alp_spec_adequate]
  exact ⟨fun h => h.elim id (fun h' => absurd hf h'.1), Or.inl⟩

/-- a past failure of the alp example (corpus `C16/cases.txt`, finding D11): 4 aircraft of one class, one runway, separation 6,
    windows `[3,7] [3,7] [4,7] [5,9]`: no solution -/
example : Alp.specFromTokens [4, 1, 1, 3, 7, 0, 3, 7, 0, 4, 7, 0, 5, 9, 0, 6] = some (-1) := by decide

set_option maxRecDepth 100000 in
/-- 3 aircraft (targets 0, 1, 2; classes 0, 1, 0), one runway, `sep = [[2, 3], [5, 2]]`: the best landing order is
    `0 2 1` at times 0, 2, 5 — total delay 4 (landing in file order costs 8) -/
example : Alp.specFromTokens [3, 2, 1, 0, 10, 0, 1, 10, 1, 2, 10, 0, 2, 3, 5, 2] = some 4 := by decide

end Ddo.C16

#print axioms Ddo.C16.knapsack_spec_adequate
#print axioms Ddo.C16.misp_spec_adequate
#print axioms Ddo.C16.misp_spec_ne_none
#print axioms Ddo.C16.mcp_spec_adequate
#print axioms Ddo.C16.mcp_spec_ne_none
#print axioms Ddo.C16.max2sat_spec_adequate
#print axioms Ddo.C16.max2sat_spec_ne_none
#print axioms Ddo.C16.max2sat_spec_adequate_wf
#print axioms Ddo.C16.golomb_spec_adequate
#print axioms Ddo.C16.golomb_spec_ne_none
#print axioms Ddo.C16.golomb_specFromTokens
#print axioms Ddo.C16.lcs_spec_adequate
#print axioms Ddo.C16.lcs_spec_none
#print axioms Ddo.C16.sop_spec_adequate
#print axioms Ddo.C16.srflp_spec_adequate
#print axioms Ddo.C16.talentsched_spec_adequate
#print axioms Ddo.C16.psp_spec_adequate
#print axioms Ddo.C16.tsptw_spec_adequate
#print axioms Ddo.C16.alp_spec_adequate
#print axioms Ddo.C16.alp_spec_infeasible
#print axioms Ddo.C16.knapsack_spec_adequate_idx
#print axioms Ddo.C16.sop_spec_feasible
#print axioms Ddo.C16.sop_spec_infeasible
#print axioms Ddo.C16.psp_spec_feasible
#print axioms Ddo.C16.psp_spec_infeasible
#print axioms Ddo.C16.tsptw_spec_feasible
#print axioms Ddo.C16.tsptw_spec_infeasible
#print axioms Ddo.C16.alp_spec_feasible
