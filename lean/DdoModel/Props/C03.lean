import DdoModel.Proofs.ParCover
import DdoModel.ParSolver
/-! # C03 — the parallel solver returns the optimum for every interleaving and thread count

`ParCover` is the data-level transition system of the parallel solver: the shared state is the fringe,
the incumbent and the multiset of nodes *held* by workers, each with what its worker knows about it
(`Stage`: which stale `best_lb` it read before which compilation, what that compilation answered).
One `Step` per critical section / lock-free compilation of `parallel.rs` (`pop`, `clear` — the
"top ub ≤ lb ⇒ clear the fringe" branch —, `readR`, `skip`, `compileR`, `updateR`, `readX`,
`compileX`, `updateX`, `enqueue`), any number of workers (the held list is unbounded), every
interleaving (induction over `Step`).  Compilations are constrained by exactly the diagram contracts
(`CompileOk`, `CutsetOk` = C06–C08), instantiated with the *stale* incumbent the worker read.

Proved: the coverage invariant `PInv` — if the optimum beats the incumbent, some node in the fringe
or held by a worker still has the optimum as its potential, with a valid bound, and every held
entry's knowledge is consistent with the current incumbent (`StageOk`) — is preserved by every step
of every worker in every order (`par_cover`), and when nothing is open and nothing is held the
incumbent is the optimum (`par_correct`).  No cache, no dominance store, no cutoff.
The executable model `ParSolver.lean` (validated against the real solver trace by trace under the
controlled scheduler) has the same sections; that its steps are steps of `ParCover` is by
construction of the two definitions here; the checked refinement is `ParSys.execRun_sound` (`Proofs/ParSysExecSound.lean`).
The synchronisation side (no deadlock, completion only when closed) is C04. -/
namespace Ddo.C03
open Ddo.AbsSeq Ddo.ParCover

section
variable (Phi : Nat → EInt) (opt : Int) (Ach : Int → Prop)

/-- **`par_cover`**: every step of every worker, in every order, preserves the coverage invariant -/
theorem par_cover {s t : PSt} (h : Step Phi opt Ach s t) (hi : PInv Phi opt Ach s) : PInv Phi opt Ach t :=
  step_inv Phi opt Ach h hi

/-- any finite schedule -/
inductive Run : PSt → PSt → Prop
  | refl (s : PSt) : Run s s
  | tail {s t u : PSt} : Run s t → Step Phi opt Ach t u → Run s u

theorem run_cover {s t : PSt} (h : Run Phi opt Ach s t) (hi : PInv Phi opt Ach s) : PInv Phi opt Ach t := by
  induction h with
  | refl => exact hi
  | tail _ hst ih => exact par_cover Phi opt Ach hst ih

/-- **`par_correct`**: whatever the schedule, once nothing is open and nothing is held the incumbent is the optimum -/
theorem par_correct {s t : PSt} (h : Run Phi opt Ach s t) (hi : PInv Phi opt Ach s)
    (hf : t.fringe = []) (hh : t.held = []) : t.lb = opt :=
  final Phi opt Ach t (run_cover Phi opt Ach h hi) hf hh

end

/-! The link between the executable sections of `ParSolver.lean` and the abstract system is a checked refinement since
    `ParSysExec.lean` / `Proofs/ParSysExecSound.lean` (`exec_sound`, `execRun_sound`) and the closed theorem of `Props/C03c.lean`. -/

end Ddo.C03
