import DdoModel.Proofs.MddProtocol
/-! # C12 over whole compilations — the callback protocol of the diagram compiler as a theorem

Property C12: *the library only calls `transition_cost (src, dst, d)` and `relax (src, dst, merged, d, cost)` with
`dst = transition (src, d)`, `d` in the domain of its variable at `src`, `cost` equal to the current cost of that
arc, and `merged` equal to the state just returned by `merge` over a set of at least two same-layer states that
contains `dst`.  Domains are enumerated only for the variable selected by `next_variable` for the current layer and
only for states of that layer, and the depth handed to `next_variable` equals the number of layers between the
problem root and that layer.*

`ProtocolOk P R rootDepth log` (`Proofs/MddProtocol.lean`) is this property as a predicate on the chronological log
of one compilation; `buildLoop_protocol` / `compile_protocol` prove it for **every** compilation of the model
(`DdoModel/Mdd.lean`): any problem, relaxation, ranking, compilation type, width (`0` included — the relaxation
then crashes before it logs anything), cache, dominance rule, cutoff and fuel.  No hypothesis.

What the predicate says, unfolded (`protocolOk_*` below are its flat consequences, stated on the whole log):
* `nextVar_depths`: the `j`-th `next_variable` call of a compilation receives the depth `rootDepth + j`;
* `protocolOk_cost`: every `transition_cost (s, t, d)` has `t = transition (s, d)`, `d ∈ domain (d.var, s)`, is
  immediately preceded by `transition (s, d)`, and `d.var` is the variable selected by the `next_variable` call
  that opens its block, `s` a state of that layer (`InLayer`);
* `protocolOk_domain`: domains are enumerated only for that variable and only for states of the layer;
* `protocolOk_relax`: every `relax (src, dst, merged, d, c)` comes after a `merge sts merged` of the same block with
  `merged = merge sts`, `2 ≤ |sts|`, `sts ⊆` the states handed to `next_variable`, `dst ∈ sts`, and the arc is one the
  previous block created: `transition_cost (src, dst, d)` was called there, `dst = transition (src, d)`,
  `d ∈ domain (d.var, src)`, `c = cost (src, dst, d)`. -/
set_option linter.unusedSectionVars false
set_option linter.unusedVariables false
namespace Ddo.C12
open Ddo
variable {S K : Type} [DecidableEq S] [DecidableEq K]

/-! ## the theorem -/

/-- **C12 (whole compilation), loop form.**  The chronological log of the top-down compilation started on the
    initial diagram of `cfg` satisfies the callback protocol, the first block being at depth `cfg.root.depth`. -/
theorem buildLoop_protocol (cfg : Cfg S K) (cache : Cache S) (store : DomStore S K) (polls : Nat)
    (stopAt : Option Nat) (fuel : Nat) :
    ProtocolOk cfg.P cfg.R cfg.root.depth
      (buildLoop cfg stopAt fuel (initDD cfg cache store polls)).1.log.reverse := by
  obtain ⟨tail, h1, h2, _⟩ := buildLoop_blocks cfg stopAt fuel _ none (initDD_loopInv cfg cache store polls)
  rw [h1]
  exact h2

/-- the first call of a compilation is `next_variable` on the root state alone, at the root depth -/
theorem buildLoop_first_call (cfg : Cfg S K) (cache : Cache S) (store : DomStore S K) (polls : Nat)
    (stopAt : Option Nat) (fuel : Nat) :
    ∃ ans rest, (buildLoop cfg stopAt (fuel + 1) (initDD cfg cache store polls)).1.log.reverse =
      Call.nextVar cfg.root.depth [cfg.root.state] ans :: rest := by
  obtain ⟨tail, h1, _, h3⟩ := buildLoop_blocks cfg stopAt (fuel + 1) _ none (initDD_loopInv cfg cache store polls)
  obtain ⟨ans, rest, h4⟩ := h3 (Nat.succ_ne_zero _)
  exact ⟨ans, rest, by rw [h1, h4]; rfl⟩

theorem compile_dd (cfg : Cfg S K) (cache : Cache S) (store : DomStore S K) (polls : Nat) (stopAt : Option Nat) :
    (compile cfg cache store polls stopAt).2.2.2 =
      (buildLoop cfg stopAt (cfg.P.nbVars + 2) (initDD cfg cache store polls)).1 := by
  unfold compile
  generalize buildLoop cfg stopAt (cfg.P.nbVars + 2) (initDD cfg cache store polls) = bl
  obtain ⟨dd, oc⟩ := bl
  cases oc <;> rfl

/-- **C12 (whole compilation).**  The chronological log of `compile` — whatever its outcome — satisfies the
    callback protocol. -/
theorem compile_protocol (cfg : Cfg S K) (cache : Cache S) (store : DomStore S K) (polls : Nat) (stopAt : Option Nat) :
    ProtocolOk cfg.P cfg.R cfg.root.depth (compile cfg cache store polls stopAt).2.2.2.log.reverse := by
  rw [compile_dd]
  exact buildLoop_protocol cfg cache store polls stopAt _

/-! ## what `ProtocolOk` says -/

/-- `BodyOk`, unfolded: every call of the block satisfies `CallOk` relative to the calls that precede it in the block -/
theorem bodyOk_iff (P : Problem S) (R : Relax S) (var : Nat) (states : List S) (prev : Option (List (Call S)))
    (body : List (Call S)) :
    BodyOk P R var states prev body ↔
      ∀ pre c post, body = pre ++ c :: post → CallOk P R var states prev pre c := by
  unfold BodyOk LogOk
  simp only [List.nil_append]

/-- a non-empty conforming log starts with the `next_variable` call at the root depth, and records its answer -/
theorem protocolOk_head {P : Problem S} {R : Relax S} {rootDepth : Nat} {c : Call S} {rest : List (Call S)}
    (h : ProtocolOk P R rootDepth (c :: rest)) :
    ∃ states, c = Call.nextVar rootDepth states (P.nextVar rootDepth states) := by
  unfold ProtocolOk at h
  generalize hl : c :: rest = log at h
  cases h with
  | done => cases hl
  | last _ _ states hnv _ =>
    simp only [List.cons.injEq] at hl
    exact ⟨states, by rw [hl.1, hnv]⟩
  | block _ _ states var body rest' hnv _ _ _ =>
    simp only [List.cons.injEq] at hl
    exact ⟨states, by rw [hl.1, hnv]⟩

/-- depths handed to `next_variable`, in call order -/
def nextVarDepths (log : List (Call S)) : List Nat :=
  log.filterMap (fun c => match c with | .nextVar d _ _ => some d | _ => none)

theorem nextVarDepths_body {P : Problem S} {R : Relax S} {var : Nat} {states : List S} {prev : Option (List (Call S))}
    {body : List (Call S)} (h : BodyOk P R var states prev body) : nextVarDepths body = [] := by
  unfold nextVarDepths
  rw [List.filterMap_eq_nil_iff]
  intro c hc
  obtain ⟨pre, post, _, hq⟩ := LogOk.mem h hc
  cases c with
  | nextVar _ _ _ => exact False.elim hq
  | _ => rfl

theorem Blocks.depths {P : Problem S} {R : Relax S} {k : Nat} {prev : Option (List (Call S))} {log : List (Call S)}
    (h : Blocks P R k prev log) : ∃ n, nextVarDepths log = List.range' k n := by
  induction h with
  | done k prev => exact ⟨0, rfl⟩
  | last k prev states _ _ => exact ⟨1, rfl⟩
  | block k prev states var body rest _ _ hb _ ih =>
    obtain ⟨n, hn⟩ := ih
    refine ⟨n + 1, ?_⟩
    have : nextVarDepths (Call.nextVar k states (some var) :: (body ++ rest)) =
        k :: (nextVarDepths body ++ nextVarDepths rest) := by
      unfold nextVarDepths
      rw [List.filterMap_cons, List.filterMap_append]
    rw [this, nextVarDepths_body hb, hn, List.nil_append, List.range'_succ]

/-- **the depth clause**: the depths handed to `next_variable` during one compilation are
    `rootDepth, rootDepth + 1, rootDepth + 2, …` -/
theorem nextVar_depths {P : Problem S} {R : Relax S} {rootDepth : Nat} {log : List (Call S)}
    (h : ProtocolOk P R rootDepth log) : ∃ n, nextVarDepths log = List.range' rootDepth n :=
  Blocks.depths h

/-- the `j`-th `next_variable` call receives the depth `rootDepth + j` -/
theorem nextVar_depth_at {P : Problem S} {R : Relax S} {rootDepth : Nat} {log : List (Call S)}
    (h : ProtocolOk P R rootDepth log) (j d : Nat) (hj : (nextVarDepths log)[j]? = some d) : d = rootDepth + j := by
  obtain ⟨n, hn⟩ := nextVar_depths h
  rw [hn] at hj
  have hjn : j < n := by
    have := Cover.lt_of_getElem?_some hj
    simpa only [List.length_range'] using this
  rw [List.getElem?_range' hjn] at hj
  simp only [Option.some.injEq] at hj
  omega

/-- every call of a protocol-conforming log is a `next_variable` call or belongs to the body of a block opened by a
    `next_variable` call (of the log) that answered `some var`; the block before it is also part of the log
    (or is the `prev` parameter, for the first block) -/
theorem Blocks.mem_cases {P : Problem S} {R : Relax S} {k : Nat} {prev : Option (List (Call S))} {log : List (Call S)}
    (h : Blocks P R k prev log) {c : Call S} (hc : c ∈ log) :
    (∃ d sts ans, c = Call.nextVar d sts ans) ∨
    ∃ k' var states prev' body, Call.nextVar k' states (some var) ∈ log ∧ P.nextVar k' states = some var ∧
      BodyOk P R var states prev' body ∧ c ∈ body ∧ (∀ x ∈ body, x ∈ log) ∧
      (prev' = prev ∨ ∃ pb, prev' = some pb ∧ ∀ x ∈ pb, x ∈ log) := by
  induction h with
  | done k prev => cases hc
  | last k prev states _ _ =>
    rw [List.mem_singleton] at hc
    exact .inl ⟨_, _, _, hc⟩
  | block k prev states var body rest hnv _ hb hrest ih =>
    have hbody : ∀ x ∈ body, x ∈ Call.nextVar k states (some var) :: (body ++ rest) :=
      fun x hx => List.mem_cons_of_mem _ (List.mem_append_left _ hx)
    have hrst : ∀ x ∈ rest, x ∈ Call.nextVar k states (some var) :: (body ++ rest) :=
      fun x hx => List.mem_cons_of_mem _ (List.mem_append_right _ hx)
    rcases List.mem_cons.1 hc with hc | hc
    · exact .inl ⟨_, _, _, hc⟩
    · rcases List.mem_append.1 hc with hc | hc
      · exact .inr ⟨k, var, states, prev, body, List.mem_cons_self, hnv, hb, hc, hbody, .inl rfl⟩
      · rcases ih hc with h1 | ⟨k', var', states', prev', body', h1, h2, h3, h4, h5, h6⟩
        · exact .inl h1
        · refine .inr ⟨k', var', states', prev', body', hrst _ h1, h2, h3, h4, fun x hx => hrst x (h5 x hx), .inr ?_⟩
          rcases h6 with h6 | ⟨pb, h6, h7⟩
          · exact ⟨body, h6, hbody⟩
          · exact ⟨pb, h6, fun x hx => hrst x (h7 x hx)⟩

/-- a call of a block body, with the calls that precede it in the block -/
theorem bodyOk_mem {P : Problem S} {R : Relax S} {var : Nat} {states : List S} {prev : Option (List (Call S))}
    {body : List (Call S)} (h : BodyOk P R var states prev body) {c : Call S} (hc : c ∈ body) :
    ∃ pre post, body = pre ++ c :: post ∧ CallOk P R var states prev pre c := by
  obtain ⟨pre, post, hb, hq⟩ := LogOk.mem h hc
  exact ⟨pre, post, hb, by rwa [List.nil_append] at hq⟩

/-- **`transition_cost`**: `dst = transition (src, d)`, `d` in the domain of its variable at `src`, and that variable is
    the one `next_variable` selected for a layer of which `src` is a state -/
theorem protocolOk_cost {P : Problem S} {R : Relax S} {rootDepth : Nat} {log : List (Call S)}
    (h : ProtocolOk P R rootDepth log) {s t : S} {d : Dec} (hc : Call.cost s t d ∈ log) :
    t = P.trans s d ∧ d.val ∈ P.domain d.var s ∧
    ∃ k states, Call.nextVar k states (some d.var) ∈ log ∧ P.nextVar k states = some d.var ∧
      (s ∈ states ∨ ∃ sts, Call.merge sts s ∈ log ∧ s = R.merge sts ∧ ∀ u ∈ sts, u ∈ states) := by
  rcases Blocks.mem_cases h hc with ⟨_, _, _, h1⟩ | ⟨k', var, states, prev', body, h1, h2, h3, h4, h5, _⟩
  · cases h1
  · obtain ⟨pre, post, hb, hv, hd, ht, hin, _⟩ := bodyOk_mem h3 h4
    refine ⟨ht, hv ▸ hd, k', states, hv ▸ h1, hv ▸ h2, ?_⟩
    rcases hin with hin | ⟨sts, hm⟩
    · exact .inl hin
    · have hmb : Call.merge sts s ∈ body := by rw [hb]; exact List.mem_append_left _ hm
      obtain ⟨_, _, _, hq⟩ := bodyOk_mem h3 hmb
      exact .inr ⟨sts, h5 _ hmb, hq.2.1, hq.2.2.2⟩

/-- **`for_each_in_domain`**: only for the variable selected by `next_variable` for the current layer, only for
    states of that layer (a state handed to `next_variable`, or the state `merge` just returned for that layer) -/
theorem protocolOk_domain {P : Problem S} {R : Relax S} {rootDepth : Nat} {log : List (Call S)}
    (h : ProtocolOk P R rootDepth log) {v : Nat} {s : S} (hc : Call.domain v s ∈ log) :
    ∃ k states, Call.nextVar k states (some v) ∈ log ∧ P.nextVar k states = some v ∧
      (s ∈ states ∨ ∃ sts, Call.merge sts s ∈ log ∧ s = R.merge sts ∧ ∀ u ∈ sts, u ∈ states) := by
  rcases Blocks.mem_cases h hc with ⟨_, _, _, h1⟩ | ⟨k', var, states, prev', body, h1, h2, h3, h4, h5, _⟩
  · cases h1
  · obtain ⟨pre, post, hb, hv, hin⟩ := bodyOk_mem h3 h4
    refine ⟨k', states, hv ▸ h1, hv ▸ h2, ?_⟩
    rcases hin with hin | ⟨sts, hm⟩
    · exact .inl hin
    · have hmb : Call.merge sts s ∈ body := by rw [hb]; exact List.mem_append_left _ hm
      obtain ⟨_, _, _, hq⟩ := bodyOk_mem h3 hmb
      exact .inr ⟨sts, h5 _ hmb, hq.2.1, hq.2.2.2⟩

/-- **`merge`**: over at least two states, all of them handed to the `next_variable` call of the block -/
theorem protocolOk_merge {P : Problem S} {R : Relax S} {rootDepth : Nat} {log : List (Call S)}
    (h : ProtocolOk P R rootDepth log) {sts : List S} {res : S} (hc : Call.merge sts res ∈ log) :
    res = R.merge sts ∧ 2 ≤ sts.length ∧
    ∃ k states var, Call.nextVar k states (some var) ∈ log ∧ ∀ u ∈ sts, u ∈ states := by
  rcases Blocks.mem_cases h hc with ⟨_, _, _, h1⟩ | ⟨k', var, states, prev', body, h1, _, h3, h4, _, _⟩
  · cases h1
  · obtain ⟨_, _, _, hq⟩ := bodyOk_mem h3 h4
    exact ⟨hq.2.1, hq.2.2.1, k', states, var, h1, hq.2.2.2⟩

/-- **`relax`**: `merged` is the state returned by an earlier `merge` of the same layer over at least two states of that
    layer, one of which is `dst`; `(src, dst, d, c)` is an arc of the diagram as `branchOn` created it:
    `transition_cost (src, dst, d)` was called, `dst = transition (src, d)`, `d` in the domain of its variable at
    `src`, and `c` is the cost of that arc -/
theorem protocolOk_relax {P : Problem S} {R : Relax S} {rootDepth : Nat} {log : List (Call S)}
    (h : ProtocolOk P R rootDepth log) {src dst merged : S} {d : Dec} {c : Int}
    (hc : Call.relax src dst merged d c ∈ log) :
    dst = P.trans src d ∧ d.val ∈ P.domain d.var src ∧ c = P.cost src dst d ∧ Call.cost src dst d ∈ log ∧
    ∃ sts, Call.merge sts merged ∈ log ∧ merged = R.merge sts ∧ 2 ≤ sts.length ∧ dst ∈ sts := by
  rcases Blocks.mem_cases h hc with ⟨_, _, _, h1⟩ | ⟨k', var, states, prev', body, _, _, h3, h4, h5, h6⟩
  · cases h1
  · obtain ⟨pre, post, hb, ⟨sts, hm, hdst⟩, pb, hpb, ha1, ha2, ha3, ha4⟩ := bodyOk_mem h3 h4
    have hmb : Call.merge sts merged ∈ body := by rw [hb]; exact List.mem_append_left _ hm
    obtain ⟨_, _, _, hq⟩ := bodyOk_mem h3 hmb
    have hpbl : ∀ x ∈ pb, x ∈ log := by
      rcases h6 with h6 | ⟨pb', h6, h7⟩
      · rw [h6] at hpb; cases hpb
      · rw [h6] at hpb; cases hpb; exact h7
    exact ⟨ha2, ha3, ha4, hpbl _ ha1, sts, h5 _ hmb, hq.2.1, hq.2.2.1, hdst⟩

end Ddo.C12
