import DdoModel.Proofs.MddCutset
/-! C08 — the cut-set of a compiled diagram, clauses (i) and (ii).

For a compilation that ends normally (`.ok`), any cache / dominance configuration, both cut-set kinds
(`cfg.kind = .lel` / `.frontier`), and for both results of `compile` (the `must` result `.2.1` and, when
present, the `may` result `.2.2.1`):

* `Ddo.C08.cutset_exact` (i): every sub-problem `c` of the cut-set is exact — reached exactly (`Reach`) at
  `(c.depth, c.state, c.value)` by `p0 ++ q`, where `p0` reaches the root sub-problem and `q` lists the
  decisions of the diagram from its root down to the node, and `c.path = cfg.root.path ++ q.reverse`
  (the path lists the decisions of the diagram last arc first, as `_best_path` collects them).
  Holds for every compilation type (the cut-set of a non-relaxed compilation is empty).
* `Ddo.C08.cutset_progress` (ii): in a relaxed compilation every sub-problem of the cut-set is strictly deeper
  than the sub-problem the diagram was compiled for.
* `Ddo.C08.cutset_empty_of_exact`: the cut-set is empty when no layer was squashed (`lel` unset,
  i.e. `Built.isExactField`).
* `Ddo.C08.finalize_cutset`: (i) and (ii) for `finalize cfg b hasEBP`, arbitrary `hasEBP` bit, from the
  well-formedness `Ddo.CutWF` of the finalized layers (`Ddo.compile_wf`).

Proofs: `DdoModel/Proofs/MddCutset.lean` (on top of `DdoModel/Proofs/MddExact.lean`). -/
namespace Ddo.C08
open Ddo
variable {S K : Type} [DecidableEq S] [DecidableEq K]

/-- (i) and (ii) for `finalize`, any `hasEBP` bit: `b` is the built diagram of a compilation
    (`Ddo.compile_wf` provides `hwf` for `b = finalizeLayers (buildLoop …).1`). -/
theorem finalize_cutset (cfg : Cfg S K) (p0 : List Dec) (b : Built S K) (hasEBP : Bool)
    (hwf : CutWF cfg p0 b.layers b.lel) (c : SubP S) (hc : c ∈ (finalize cfg b hasEBP).1.cutset) :
    (∃ q, Reach cfg.P c.depth c.state c.value (p0 ++ q) ∧ c.path = cfg.root.path ++ q.reverse) ∧
    (cfg.ctype = .relaxed → cfg.root.depth < c.depth) :=
  finalize_cutset_sound cfg p0 b hasEBP hwf c hc

/-- **C08 (i)**: the sub-problems of the cut-set are exact.  `r` is either result of the compilation.
    Hypotheses: `p0` reaches the root sub-problem exactly (`hroot`; `p0 := cfg.root.path` when the root
    path happens to be in order, in general a permutation of it); no saturation (`hB`). -/
theorem cutset_exact (cfg : Cfg S K) (B : Int) (p0 : List Dec) (cache : Cache S) (store : DomStore S K) (polls : Nat)
    (stopAt : Option Nat)
    (hroot : Reach cfg.P cfg.root.depth cfg.root.state cfg.root.value p0)
    (hB : NoClamp cfg.P cfg.R cfg.root.value B)
    (hok : (compile cfg cache store polls stopAt).1 = .ok) (r : Result S)
    (hr : r = (compile cfg cache store polls stopAt).2.1 ∨ (compile cfg cache store polls stopAt).2.2.1 = some r) :
    ∀ c ∈ r.cutset, ∃ q, Reach cfg.P c.depth c.state c.value (p0 ++ q) ∧ c.path = cfg.root.path ++ q.reverse := by
  obtain ⟨_, e, rfl⟩ := compile_results cfg cache store polls stopAt hok r hr
  intro c hc
  exact (finalize_cutset_sound cfg p0 _ e (compile_wf cfg B p0 hB hroot cache store polls stopAt) c hc).1

/-- **C08 (ii)**: in a relaxed compilation the sub-problems of the cut-set are strictly deeper than the
    root sub-problem of the compilation. -/
theorem cutset_progress (cfg : Cfg S K) (B : Int) (p0 : List Dec) (cache : Cache S) (store : DomStore S K) (polls : Nat)
    (stopAt : Option Nat) (hrel : cfg.ctype = .relaxed)
    (hroot : Reach cfg.P cfg.root.depth cfg.root.state cfg.root.value p0)
    (hB : NoClamp cfg.P cfg.R cfg.root.value B)
    (hok : (compile cfg cache store polls stopAt).1 = .ok) (r : Result S)
    (hr : r = (compile cfg cache store polls stopAt).2.1 ∨ (compile cfg cache store polls stopAt).2.2.1 = some r) :
    ∀ c ∈ r.cutset, cfg.root.depth < c.depth := by
  obtain ⟨_, e, rfl⟩ := compile_results cfg cache store polls stopAt hok r hr
  intro c hc
  exact (finalize_cutset_sound cfg p0 _ e (compile_wf cfg B p0 hB hroot cache store polls stopAt) c hc).2 hrel

/-- the cut-set is empty when no layer was squashed: `lel` is still unset in the final diagram
    `(compile …).2.2.2` (this is `Built.isExactField`); any compilation type, both kinds -/
theorem cutset_empty_of_exact (cfg : Cfg S K) (B : Int) (p0 : List Dec) (cache : Cache S) (store : DomStore S K)
    (polls : Nat) (stopAt : Option Nat)
    (hroot : Reach cfg.P cfg.root.depth cfg.root.state cfg.root.value p0)
    (hB : NoClamp cfg.P cfg.R cfg.root.value B)
    (hok : (compile cfg cache store polls stopAt).1 = .ok) (r : Result S)
    (hr : r = (compile cfg cache store polls stopAt).2.1 ∨ (compile cfg cache store polls stopAt).2.2.1 = some r)
    (hlel : (compile cfg cache store polls stopAt).2.2.2.lel = none) : r.cutset = [] := by
  obtain ⟨hdd, e, rfl⟩ := compile_results cfg cache store polls stopAt hok r hr
  rw [hdd] at hlel
  refine finalize_cutset_nil cfg p0 _ e (compile_wf cfg B p0 hB hroot cache store polls stopAt) ?_
  rw [finalizeLayers_lel, hlel, Option.getD_none]
  exact Nat.le_refl _

end Ddo.C08
