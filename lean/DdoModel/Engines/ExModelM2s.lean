import DdoModel.Proto
import DdoModel.Engines.Store
import DdoModel.Examples.Max2satDp
/-! Family `max2sat` of the driver engine `exmodel` (C16) — `Max2satDp.lean`; theorems `rub_admissible`, `merge_ok` in
    `Max2satModel.lean`.  `agree` = every event (tables, variable order, domains, transitions, costs, bounds, merges, relaxed
    costs, ranking) is what the model says; `phi` = pointwise, by exhaustive enumeration over the remaining variables with the
    model's own transition costs: the bound THE CODE returned for every visited state dominates the best completion (`RubOk`);
    for every merged-away state, with the increase of the arc cost THE CODE returned, every completion is worth at least as
    much from the merged state (`MergeOk`); the value of every walk prefix plus its best completion equals the optimum of the
    independent specification `Max2sat.best` among the assignments extending the prefix (the DP model is exact); and the
    hypotheses of `rub_admissible` / `merge_ok` (`tabOkB`) hold for the table of the instance. -/
namespace Ddo.Engines
open Ddo Ddo.Proto Ddo.Examples

private def nats2? (ts : List String) : Option (List Nat) := ts.mapM nat?

namespace M2s
open Ddo.Examples.Max2satModel

def st? (n : Nat) (ts : List String) : Option St := do
  let xs ← ints? ts
  match xs with
  | d :: bs => if d < 0 ∨ bs.length ≠ n then none else some (d.toNat, bs)
  | [] => none
def showSt (s : St) : String := join (toString s.1 :: s.2.map toString)
def showOrd (o : Ordering) : String := match o with | .lt => "lt" | .eq => "eq" | .gt => "gt"
def showOV (o : Option Nat) : String := match o with | some v => toString v | none => "n"
def sortedByKey (key : Nat → Int) : List Nat → Bool
  | [] => true
  | a :: r => r.all (fun b => decide (key a ≤ key b)) && sortedByKey key r

/-- checks one event against the model; `none` = unreadable, `some (ok, what the model says)` -/
def checkEvent (I : Inst) (T : Tab) (e : List String) : Option (Bool × String) :=
  let P := problem T
  let R := relaxation T
  let n := I.n
  match splitAt ":" e with
  | [["nv", k]] => some (k == toString P.nbVars, toString P.nbVars)
  | [("vbs" :: ts)] =>
    -- the order is the code's; the model requires a permutation sorted by non-decreasing sum of clause weights
    let key := fun v => (I.sums[v]?).getD 0
    let isPerm := I.order.length == n && (List.range n).all (fun k => I.order.contains k)
    some (ts == I.order.map toString && isPerm && sortedByKey key I.order,
          "a permutation of the variables sorted by non-decreasing sum of clause weights, e.g. " ++ join ((stableOrder n key).map toString))
  | [("scw" :: ts)] => let m := I.sums.map toString; some (ts == m, join m)
  | [["ini", x]] => some (x == toString T.initial, toString T.initial)
  | [("wt" :: ts)] => let m := T.w.toList.map toString; some (ts == m, join m)
  | [("ord" :: ts)] =>
    let want := (List.range (n + 1)).map (fun d => showOV (P.nextVar d [(d, List.replicate n 0)]))
    some (ts == want, join want)
  | [["nve", x]] => let m := showOV (P.nextVar 0 []); some (x == m, m)
  | ["init" :: s, [v]] =>
    let m := showSt P.init
    some (join s == m && v == toString P.initVal, s!"{m} : {P.initVal}")
  | ["rub" :: s, [r]] => do
    let s ← st? n s
    let m := match rub? T s with | some x => toString x | none => "panic"
    pure (r == m, m)
  | ["pv" :: s, [v], lits] => do
    -- the value of a walk prefix: replay of its decisions from the root
    let s ← st? n s; let v ← int? v; let lits ← ints? lits
    let decs := lits.map (fun l => (⟨idx l, if l > 0 then 1 else -1⟩ : Dec))
    match evalFrom P 0 P.init P.initVal decs with
    | some (s2, v2, _) => pure (s2 == s && v2 == v, s!"{showSt s2} : {v2}")
    | none => pure (false, "not a path of the model")
  | ["dom" :: s, [x], vals] => do
    let s ← st? n s; let x ← nat? x
    let m := (P.domain x s).map toString
    pure (vals == m && P.nextVar s.1 [s] == some x, s!"{showOV (P.nextVar s.1 [s])} : {join m}")
  | ["tr" :: s, [x, v], s2, [c]] => do
    let s ← st? n s; let x ← nat? x; let v ← int? v
    let m2 := P.trans s ⟨x, v⟩
    let k := P.cost s m2 ⟨x, v⟩
    pure (join s2 == showSt m2 && c == toString k, s!"{showSt m2} : {k}")
  | ["rx" :: src, dst, m, [x, v], [c], [r]] => do
    let src ← st? n src; let dst ← st? n dst; let m ← st? n m; let x ← nat? x; let v ← int? v; let c ← int? c
    let k := R.relax src dst m ⟨x, v⟩ c
    pure (r == toString k, toString k)
  | ["rk" :: a, b, [o]] => do
    let a ← st? n a; let b ← st? n b
    let m := showOrd (rankCmp a b)
    pure (o == m, m)
  | ("mg" :: first) :: rest =>
    -- `mg s1 , s2 , … : m`
    match (first :: rest).reverse with
    | m :: [sts] => do
      let sts ← (splitAt "," sts).mapM (st? n)
      let k := R.merge sts
      pure (join m == showSt k, showSt k)
    | _ => none
  | _ => none

/-- `phi` of one event: `none` = nothing to check or holds; `some note` = violated.
    * `rub`: the bound THE CODE returned dominates the best completion (exhaustive, model costs)  — `RubOk` pointwise;
    * `rx`: with the increase of the arc cost THE CODE returned, every completion is worth at least as much from the merged
      state as from the merged-away state (exhaustive) — `MergeOk` pointwise;
    * `pv`: value of the prefix + best completion = the specification's optimum among the assignments extending the
      prefix (at the root: `initial_value` + best completion = `Max2sat.best`) — the DP model is exact. -/
def phiEvent (I : Inst) (T : Tab) (tbl : List (List Int × Int)) (e : List String) : Option String :=
  let n := I.n
  match splitAt ":" e with
  | ["rub" :: s, [r]] =>
    match st? n s, int? r with
    | some s, some r =>
      if rubOkAt T s r then none
      else some s!"fast_upper_bound of the state `{showSt s}` is {r} but a completion gains {bestRem T (T.n - s.1) s}: the rough upper bound is not admissible"
    | _, _ => none
  | ["rx" :: _, dst, m, _, [c], [r]] =>
    match st? n dst, st? n m, int? c, int? r with
    | some dst, some m, some c, some r =>
      if mergeOkAt T dst m (r - c) then none
      else some s!"merging `{showSt dst}` into `{showSt m}` with the arc cost raised by {r - c}: some completion loses {-(mergeGapMin T (T.n - dst.1) dst m + (r - c))}: merge/relax do not over-approximate"
    | _, _, _, _ => none
  | ["pv" :: s, [v], lits] =>
    match st? n s, int? v, ints? lits with
    | some s, some v, some lits =>
      let dp := v + bestRem T (T.n - s.1) s
      let spec := if lits.isEmpty then Max2sat.best n I.effClauses else specBestExt tbl lits
      if spec == some dp then none
      else some s!"after the decisions {lits} (value {v}, state `{showSt s}`) the DP model reaches at best {dp}, the specification {optInt spec}: the DP model is not exact"
    | _, _, _ => none
  | _ => none

end M2s

/-- case: `max2sat | n m (w x y)*m | walks seed reader` -/
def max2satCase (toks : List String) (i : List String) : Option Res := do
    let t ← ints? toks
    match t with
    | n :: m :: rest =>
      let n := n.toNat
      let clauses ← Ddo.Examples.Util.triples? rest
      if clauses.length ≠ m.toNat then none else
      if i == ["panic"] then
        pure { agree := false, phi := false, model := "-", note := "F:C16 [C16:max2sat model functions panic]" }
      else
      let evs := ((splitAt ";" i).filter (· ≠ [])).eraseDups
      -- the variable order is what the code reveals (`vars_by_sum_of_clause_weights`)
      let order ← match evs.find? (fun e => e.head? == some "vbs") with
        | some (_ :: ts) => nats2? ts
        | _ => none
      let I : Max2satModel.Inst := { n := n, clauses := clauses, order := order }
      let T := I.tab
      let tbl := Max2satModel.specTable n I.effClauses
      let mut bad : List String := []
      let mut viol : List String := []
      for e in evs do
        match M2s.checkEvent I T e with
        | none => bad := bad ++ [s!"unreadable event `{join e}`"]
        | some (true, _) => pure ()
        | some (false, m) => bad := bad ++ [s!"`{join e}`: the model says {m}"]
        match M2s.phiEvent I T tbl e with
        | none => pure ()
        | some v => viol := viol ++ [v]
      -- the hypotheses of `Max2satModel.rub_admissible` on the table of this instance
      if !Max2satModel.tabOkB T then
        viol := viol ++ [s!"the hypotheses of rub_admissible fail: order {order} not a permutation of the variables, or initial_value {T.initial} is not the sum of the tautology weights"]
      let stable := order == Max2satModel.stableOrder n (fun v => (I.sums[v]?).getD 0)
      pure { agree := bad.isEmpty, phi := viol.isEmpty,
             model := s!"order {order}{if stable then "" else " (not the stable order)"} events {evs.length}",
             note := (match viol.head? with | none => "" | some v => s!"F:C16 [C16:max2sat: {v}]")
                     ++ (if bad.isEmpty then "" else " D:exmodel " ++ (bad.head?.getD "")) }
    | _ => none

end Ddo.Engines
