import DdoModel.Proto
import DdoModel.Fringe
import DdoModel.Proofs.Fringe
import DdoModel.Engines.Store
/-! Driver engine `fringe` (C11): push / pop / clear / len sequences.
    * `nodup`: the model `NoDup` must reproduce the implementation's outputs exactly;
    * `simple`: the implementation's pops must be comparator-maximal elements of the multiset;
    * `phi` (both): the property's own words, on a reference keyed multiset that coalesces only
      equal `(state, depth)` — independent of the concrete model. -/
namespace Ddo.Engines
open Ddo.Proto

inductive FOp | push (s : Sub) | pop | clear | len

def parseFOp : List String → Option FOp
  | ["p", st, d, v, ub, tag] => do pure (.push ⟨← int? st, ← nat? d, ← int? v, ← int? ub, ← int? tag⟩)
  | ["o"] => some .pop
  | ["c"] => some .clear
  | ["n"] => some .len
  | _ => none

def showSub (s : Sub) : String := s!"s {s.state} {s.depth} {s.value} {s.ub} {s.tag}"

def parseSubOut : List String → Option (Option Sub)
  | ["none"] => some none
  | ["s", st, d, v, ub, tag] => do pure (some ⟨← int? st, ← nat? d, ← int? v, ← int? ub, ← int? tag⟩)
  | _ => none

def rankOf (name : String) : Int → Int → Ordering :=
  if name == "total" then icmp else fun _ _ => .eq

/-- run the concrete model -/
def runNoDup (rank : Int → Int → Ordering) (ops : List FOp) : List String :=
  let rec go (f : Option NoDup) : List FOp → List String
    | [] => []
    | op :: ops =>
      match f with
      | none => "panic" :: go none ops
      | some f =>
        match op with
        | .push s => match f.push rank s with
          | none => "panic" :: go none ops
          | some f' => "-" :: go (some f') ops
        | .pop => match f.pop rank with
          | none => "panic" :: go none ops
          | some (f', none) => "none" :: go (some f') ops
          | some (f', some s) => showSub s :: go (some f') ops
        | .clear => "-" :: go (some f.clear) ops
        | .len => s!"len {f.len}" :: go (some f) ops
  go (some NoDup.empty) ops

/-- the invariants `wfB` / `heapOrdB` hold in every state the model goes through on this trace
    (they are hypotheses of `pop_is_max`; checked here, not yet proved inductive) -/
def invNoDup (rank : Int → Int → Ordering) (total : Bool) (ops : List FOp) : Bool :=
  let rec go (f : NoDup) : List FOp → Bool
    | [] => true
    | op :: ops =>
      let f' : Option NoDup := match op with
        | .push s => f.push rank s
        | .pop => (f.pop rank).map (·.1)
        | .clear => some f.clear
        | .len => some f
      match f' with
      | none => false
      | some f' => f'.wfB && f'.heapOrdB rank && go f' ops
  go NoDup.empty ops

/-- reference entry: the sub-problem and the path tags that are acceptable for it (ties) -/
structure REnt where
  sub : Sub
  tags : List Int

/-- phi: reference (keyed) multiset semantics, as the property states it -/
def phiFringe (dedup : Bool) (ops : List FOp) (outs : List (List String)) : Bool × String :=
  let rec go (q : List REnt) : List FOp → List (List String) → Bool × String
    | [], _ => (true, "")
    | _, [] => (false, "missing output")
    | op :: ops, o :: outs =>
      match op with
      | .push x =>
        if o != ["-"] then (false, "push did not return") else
        let same := fun (e : REnt) => e.sub.state == x.state && e.sub.depth == x.depth
        if dedup && q.any same then
          go (q.map (fun e => if same e then
              (if x.value > e.sub.value then ⟨{ x with ub := max x.ub e.sub.ub }, [x.tag]⟩
               else if x.value == e.sub.value then ⟨{ e.sub with ub := max x.ub e.sub.ub }, x.tag :: e.tags⟩
               else ⟨{ e.sub with ub := max x.ub e.sub.ub }, e.tags⟩) else e)) ops outs
        else go (⟨x, [x.tag]⟩ :: q) ops outs
      | .clear => if o != ["-"] then (false, "clear") else go [] ops outs
      | .len => if o == ["len", toString q.length] then go q ops outs else (false, s!"len: expected {q.length}")
      | .pop =>
        match parseSubOut o with
        | none => (false, "unreadable pop")
        | some none => if q.isEmpty then go q ops outs else (false, "pop returned none on a non-empty fringe")
        | some (some z) =>
          -- present?
          let isZ := fun (e : REnt) => e.sub.state == z.state && e.sub.depth == z.depth && e.sub.value == z.value && e.sub.ub == z.ub && e.tags.contains z.tag
          if !q.any isZ then (false, "popped a sub-problem that is not in the reference multiset (lost / invented / wrongly coalesced)") else
          -- maximal for (ub, value)?
          if q.any (fun e => e.sub.ub > z.ub || (e.sub.ub == z.ub && e.sub.value > z.value)) then (false, "popped element is not maximal for (ub, value)") else
          -- remove one occurrence
          let rec rm : List REnt → List REnt
            | [] => []
            | e :: r => if isZ e then r else e :: rm r
          go (rm q) ops outs
  go [] ops outs

/-- `simple`: pops must be maximal for the full comparator in the plain multiset -/
def agreeSimple (rank : Int → Int → Ordering) (ops : List FOp) (outs : List (List String)) : Bool :=
  let rec go (q : List Sub) : List FOp → List (List String) → Bool
    | [], _ => true
    | _, [] => false
    | op :: ops, o :: outs =>
      match op with
      | .push x => o == ["-"] && go (x :: q) ops outs
      | .clear => o == ["-"] && go [] ops outs
      | .len => o == ["len", toString q.length] && go q ops outs
      | .pop =>
        match parseSubOut o with
        | none => false
        | some none => q.isEmpty && go q ops outs
        | some (some z) =>
          q.contains z && q.all (fun y => subCmp rank y z != .gt) && go (q.erase z) ops outs
  go [] ops outs

def fringeEngine (c i : List String) : Option Res := do
  match c with
  | kind :: rk :: rest =>
    let ops ← (splitAt ";" rest).filter (· ≠ []) |>.mapM parseFOp
    let outs := (splitAt ";" i).filter (· ≠ [])
    let rank := rankOf rk
    let (phi, why) := phiFringe (kind == "nodup") ops outs
    if kind == "nodup" then
      let ms := runNoDup rank ops
      let inv := invNoDup rank (rk == "total") ops
      pure { agree := ms == outs.map join && inv, phi := phi, model := " ; ".intercalate ms,
             note := why ++ (if inv then "" else " model invariant wfB/heapOrdB violated") }
    else
      pure { agree := agreeSimple rank ops outs, phi := phi, model := "(relation: pops are comparator-maximal)", note := why }
  | _ => none

end Ddo.Engines
